(** The minimal field-operator model used by the Hubbard / molecular Hamiltonians:
    ladder operators are partial monomial maps on occupation bit lists (sign string on the
    LATER sites), operator strings compose those maps, every string changes the particle
    number by (#creators - #annihilators), adjoint = reversed string of flipped operators,
    and a term whose pattern/coefficients are reversal-self-adjoint has a Hermitian matrix.
    All statements for every number of sites and every commutative *-ring. *)
From Qib Require Export Hamil.HamilProofs.

(* ------------------------------------------------------------------ bit-level facts *)
Lemma lad_apply_length o i : forall b s r, lad_apply o i b = Some (s, r) -> length r = length b.
Proof.
  induction i as [|i IH]; intros [|x b] s r H; cbn in H; try discriminate.
  - destruct (Bool.eqb x _); [|discriminate]. inversion H; subst. reflexivity.
  - destruct (lad_apply o i b) as [[s' r']|] eqn:E; [|discriminate]. inversion H; subst.
    cbn. f_equal. eapply IH; eauto.
Qed.

Lemma mono_apply_length ops : forall b s r, mono_apply ops b = Some (s, r) -> length r = length b.
Proof.
  induction ops as [|[o i] ops IH]; intros b s r H; cbn in H.
  - inversion H; subst. reflexivity.
  - destruct (lad_apply o i b) as [[s1 b1]|] eqn:E; [|discriminate].
    destruct (mono_apply ops b1) as [[s2 r2]|] eqn:E2; [|discriminate]. inversion H; subst.
    rewrite (IH _ _ _ E2). eapply lad_apply_length; eauto.
Qed.

Lemma lad_apply_popcount o i : forall b s r, lad_apply o i b = Some (s, r) ->
  match o with OC => popcount r = Datatypes.S (popcount b) | OA => Datatypes.S (popcount r) = popcount b end.
Proof.
  induction i as [|i IH]; intros [|x b] s r H; cbn in H; try discriminate.
  - destruct o, x; cbn in H; try discriminate; inversion H; subst; reflexivity.
  - destruct (lad_apply o i b) as [[s' r']|] eqn:E; [|discriminate]. inversion H; subst.
    specialize (IH _ _ _ E). destruct o, x; cbn; lia.
Qed.

Definition cntC (ops : list (otype * nat)) : nat :=
  length (filter (fun oi => otype_eqb (fst oi) OC) ops).
Definition cntA (ops : list (otype * nat)) : nat :=
  length (filter (fun oi => otype_eqb (fst oi) OA) ops).

Lemma cnt_rev ops : cntC (rev ops) = cntC ops /\ cntA (rev ops) = cntA ops.
Proof.
  unfold cntC, cntA. induction ops as [|[o i] ops [IH1 IH2]]; [split; reflexivity|].
  cbn [rev]. rewrite !filter_app, !app_length, IH1, IH2. destruct o; cbn; split; lia.
Qed.

Lemma mono_apply_popcount ops : forall b s r, mono_apply ops b = Some (s, r) ->
  popcount r + cntA ops = popcount b + cntC ops.
Proof.
  unfold cntA, cntC.
  induction ops as [|[o i] ops IH]; intros b s r H; cbn in H.
  - inversion H; subst. cbn. lia.
  - destruct (lad_apply o i b) as [[s1 b1]|] eqn:E; [|discriminate].
    destruct (mono_apply ops b1) as [[s2 r2]|] eqn:E2; [|discriminate]. inversion H; subst.
    specialize (IH _ _ _ E2). pose proof (lad_apply_popcount _ _ _ _ _ E) as P.
    destruct o; cbn [filter fst otype_eqb length]; lia.
Qed.

(** number operator on bits: a_i then c_i gives back the same state with sign +, or nothing *)
Lemma lad_apply_num i : forall b s b', lad_apply OA i b = Some (s, b') ->
  lad_apply OC i b' = Some (s, b) /\ nth i b false = true.
Proof.
  induction i as [|i IH]; intros [|x b] s b' H; cbn in H; try discriminate.
  - destruct x; cbn in H; [|discriminate]. inversion H; subst. cbn. split; reflexivity.
  - destruct (lad_apply OA i b) as [[s1 b1]|] eqn:E; [|discriminate]. inversion H; subst.
    destruct (IH _ _ _ E) as [H1 H2]. cbn. rewrite H1. split; [reflexivity|exact H2].
Qed.

Lemma lad_apply_ann_none i : forall b, length b > i -> lad_apply OA i b = None -> nth i b false = false.
Proof.
  induction i as [|i IH]; intros [|x b] Hl H; cbn in *; try lia.
  - destruct x; [discriminate|reflexivity].
  - destruct (lad_apply OA i b) as [[s1 b1]|] eqn:E; [discriminate|]. apply IH; [lia|exact E].
Qed.

Lemma all_idx_In L k idx : In idx (all_idx L k) <-> (length idx = k /\ Forall (fun i => i < L) idx).
Proof.
  revert idx; induction k as [|k IH]; intros idx; cbn [all_idx].
  - split.
    + intros [<-|[]]. split; [reflexivity|constructor].
    + intros [H _]. destruct idx; [left; reflexivity|discriminate].
  - rewrite in_flat_map. split.
    + intros [i [Hi H]]. apply in_map_iff in H. destruct H as [t [<- Ht]].
      apply IH in Ht. destruct Ht as [Hl Hf]. apply in_seq in Hi.
      split; [cbn; congruence|constructor; [lia|exact Hf]].
    + intros [Hl Hf]. destruct idx as [|i t]; [discriminate|]. inversion Hf; subst.
      exists i. split; [apply in_seq; lia|]. apply in_map. apply IH. split; [cbn in Hl; lia|assumption].
Qed.

Lemma all_idx_NoDup L k : NoDup (all_idx L k).
Proof.
  induction k as [|k IH]; cbn [all_idx]; [constructor; [intros []|constructor]|].
  assert (G : forall l, NoDup l -> NoDup (flat_map (fun i => map (cons i) (all_idx L k)) l)).
  { induction l as [|i l IHl]; intros ND; cbn; [constructor|]. inversion ND; subst.
    apply NoDup_app_disjoint.
    - apply NoDup_map_inj; [intros a b E; inversion E; reflexivity|exact IH].
    - apply IHl; assumption.
    - intros t I1 I2. apply in_map_iff in I1. destruct I1 as [t1 [<- _]].
      apply in_flat_map in I2. destruct I2 as [i' [Hi' I2]].
      apply in_map_iff in I2. destruct I2 as [t2 [E _]]. inversion E; subst. contradiction. }
  apply G. apply seq_NoDup.
Qed.

Lemma idx_eqb_eq a : forall b, idx_eqb a b = true <-> a = b.
Proof.
  induction a as [|x a IH]; intros [|y b]; cbn; split; intros H; try reflexivity; try discriminate.
  - apply andb_true_iff in H. destruct H as [H1 H2]. apply Nat.eqb_eq in H1. apply IH in H2. congruence.
  - inversion H; subst. rewrite Nat.eqb_refl. cbn. apply IH. reflexivity.
Qed.

Lemma pat_eqb_eq a : forall b, pat_eqb a b = true -> a = b.
Proof.
  induction a as [|x a IH]; intros [|y b]; cbn; intros H; try reflexivity; try discriminate.
  apply andb_true_iff in H. destruct H as [H1 H2]. apply IH in H2.
  destruct x, y; try discriminate; congruence.
Qed.

Lemma combine_app' {A B} (a : list A) : forall (b : list B) a' b', length a = length b ->
  combine (a ++ a') (b ++ b') = combine a b ++ combine a' b'.
Proof.
  induction a as [|x a IH]; intros [|y b] a' b' H; try discriminate; [reflexivity|].
  cbn in H. injection H as H. cbn. rewrite IH by exact H. reflexivity.
Qed.

Lemma combine_rev {A B} (a : list A) : forall (b : list B), length a = length b ->
  rev (combine a b) = combine (rev a) (rev b).
Proof.
  induction a as [|x a IH]; intros [|y b] H; try discriminate; [reflexivity|].
  cbn in H. injection H as H. cbn [combine rev]. rewrite IH by exact H.
  rewrite combine_app' by (rewrite !rev_length; exact H). reflexivity.
Qed.

Section FermiProofs.
  Context {K : Scalar} {L : ScalarLaws K}.
  Local Open Scope K_scope.
  Add Ring KringF : (s_ring K L).

  Lemma sgnb_xor s s' : sgnb (K:=K) (xorb s s') = sgnb s * sgnb s'.
  Proof. destruct s, s'; cbn; ring. Qed.
  Lemma conj_sgnb s : (sgnb (K:=K) s)^* = sgnb s.
  Proof. destruct s; cbn; rewrite ?(conj_opp K L), (conj_1 K L); reflexivity. Qed.

  (* ---------------------------------------------------------------- ladder operators are monomial *)
  Lemma zstring_sym r : forall c, zstring (K:=K) r c = zstring c r.
  Proof.
    induction r as [|rb r IH]; intros [|cb c]; try reflexivity.
    cbn [zstring]. rewrite IH. destruct rb, cb; reflexivity.
  Qed.

  Lemma zstring_mono r : forall c, length r = length c ->
    zstring (K:=K) r c = if beq r c then sgnb (parity c) else 0.
  Proof.
    induction r as [|rb r IH]; intros [|cb c] H; try discriminate; [reflexivity|].
    cbn in H. injection H as H. cbn [zstring beq parity]. rewrite IH by exact H.
    destruct rb, cb, (beq r c), (parity c); cbn; ring.
  Qed.

  Lemma conj_zstring r c : (zstring (K:=K) r c)^* = zstring r c.
  Proof.
    revert c; induction r as [|rb r IH]; intros [|cb c]; cbn [zstring];
      rewrite ?(conj_0 K L), ?(conj_1 K L); try reflexivity.
    rewrite (conj_mul K L), IH. f_equal.
    destruct (Bool.eqb rb cb), rb; rewrite ?(conj_opp K L), ?(conj_0 K L), ?(conj_1 K L); reflexivity.
  Qed.

  Definition mono_of (m : option (bool * bits)) (r : bits) : K :=
    match m with Some (s, r') => if beq r r' then sgnb s else 0 | None => 0 end.

  Lemma cre_mono i : forall r c, length r = length c ->
    cre (K:=K) i r c = mono_of (lad_apply OC i c) r.
  Proof.
    induction i as [|i IH]; intros [|rb r] [|cb c] H; try discriminate; try reflexivity;
      cbn in H; injection H as H.
    - cbn [cre lad_apply]. rewrite zstring_mono by exact H.
      destruct cb; cbn [Bool.eqb negb mono_of beq]; [destruct rb; cbn; ring|].
      destruct rb, (beq r c); cbn; ring.
    - cbn [cre lad_apply]. rewrite IH by exact H.
      destruct (lad_apply OC i c) as [[s r']|]; cbn [mono_of beq]; [|ring].
      destruct (Bool.eqb rb cb), (beq r r'); cbn; ring.
  Qed.

  Lemma ann_mono i : forall r c, length r = length c ->
    ann (K:=K) i r c = mono_of (lad_apply OA i c) r.
  Proof.
    unfold ann, madj.
    induction i as [|i IH]; intros [|rb r] [|cb c] H; try discriminate;
      try (cbn; apply (conj_0 K L)); cbn in H; injection H as H.
    - cbn [cre lad_apply]. rewrite (conj_mul K L), conj_zstring, zstring_sym, zstring_mono by exact H.
      destruct cb; cbn [Bool.eqb negb mono_of beq andb].
      + destruct rb, (beq r c); cbn; rewrite ?(conj_0 K L), ?(conj_1 K L); ring.
      + rewrite (conj_0 K L). ring.
    - cbn [cre lad_apply]. rewrite (conj_mul K L), IH by exact H.
      destruct (lad_apply OA i c) as [[s r']|]; cbn [mono_of beq].
      + destruct rb, cb, (beq r r'); cbn; rewrite ?(conj_0 K L), ?(conj_1 K L); ring.
      + destruct (Bool.eqb cb rb); rewrite ?(conj_0 K L), ?(conj_1 K L); ring.
  Qed.

  Lemma ladder_mono oi r c : length r = length c ->
    ladder (K:=K) oi r c = mono_of (lad_apply (fst oi) (snd oi) c) r.
  Proof. destruct oi as [[|] i]; intros H; cbn [ladder fst snd]; [apply cre_mono|apply ann_mono]; exact H. Qed.

  Lemma opstring_snoc n ops op :
    opstring (K:=K) n (ops ++ [op]) = mmul n (opstring n ops) (ladder op).
  Proof. unfold opstring. rewrite fold_left_app. reflexivity. Qed.

  (** an operator string is the monomial map "apply the last operator first" *)
  Theorem opstring_mono n ops : forall r c, length r = n -> length c = n ->
    opstring (K:=K) n ops r c = mono_entry ops r c.
  Proof.
    induction ops as [|op ops IH] using rev_ind; intros r c Hr Hc.
    - unfold opstring, mono_entry, mid. cbn. reflexivity.
    - rewrite opstring_snoc. unfold mmul, mono_entry. rewrite rev_app_distr. cbn [rev app mono_apply].
      destruct op as [o i].
      transitivity (bsum n (fun k => opstring n ops r k * mono_of (lad_apply o i c) k) : K).
      { apply bsum_ext. intros k Hk. rewrite ladder_mono by congruence. reflexivity. }
      destruct (lad_apply o i c) as [[s b']|] eqn:E; cbn [mono_of].
      + pose proof (lad_apply_length _ _ _ _ _ E) as Hb.
        transitivity (bsum n (fun k => (opstring n ops r k * sgnb s) * (if beq k b' then 1 else 0)) : K).
        { apply bsum_ext. intros k _. destruct (beq k b'); ring. }
        rewrite (bsum_delta_r n b' (fun k => opstring n ops r k * sgnb s)) by congruence.
        rewrite IH by congruence. unfold mono_entry.
        destruct (mono_apply (rev ops) b') as [[s' r']|]; [|ring].
        destruct (beq r r'); [rewrite sgnb_xor|]; ring.
      + apply bsum_zero. intros; ring.
  Qed.

  (** particle-number selection rule for one operator string *)
  Theorem opstring_popcount n ops r c : length r = n -> length c = n ->
    (popcount r + cntA ops <> popcount c + cntC ops)%nat -> opstring (K:=K) n ops r c = 0.
  Proof.
    intros Hr Hc Hne. rewrite opstring_mono by assumption. unfold mono_entry.
    destruct (mono_apply (rev ops) c) as [[s r']|] eqn:E; [|reflexivity].
    destruct (beq r r') eqn:B; [|reflexivity]. apply beq_eq in B. subst r'.
    apply mono_apply_popcount in E. destruct (cnt_rev ops) as [E1 E2]. rewrite E1, E2 in E. contradiction.
  Qed.

  (* ---------------------------------------------------------------- adjoint *)
  Definition opflip (oi : otype * nat) : otype * nat := (oflip (fst oi), snd oi).

  Lemma madj_ladder oi r c : madj (ladder (K:=K) oi) r c = ladder (opflip oi) r c.
  Proof.
    destruct oi as [[|] i]; cbn [ladder opflip fst snd oflip]; [reflexivity|].
    unfold ann, madj. apply (conj_inv K L).
  Qed.

  Lemma fold_mmul_meq n l : forall M M', meq (K:=K) n M M' ->
    meq n (fold_left (fun M oi => mmul n M (ladder oi)) l M) (fold_left (fun M oi => mmul n M (ladder oi)) l M').
  Proof.
    induction l as [|x l IH]; intros M M' H; cbn [fold_left]; [exact H|].
    apply IH. apply mmul_meq; [exact H|apply meq_refl].
  Qed.

  Lemma fold_mmul_shift n l : forall M,
    meq (K:=K) n (fold_left (fun M oi => mmul n M (ladder oi)) l M)
                 (mmul n M (fold_left (fun M oi => mmul n M (ladder oi)) l mid)).
  Proof.
    induction l as [|x l IH] using rev_ind; intros M.
    - cbn [fold_left]. apply meq_sym. apply mmul_id_r.
    - rewrite !fold_left_app. cbn [fold_left].
      eapply meq_trans; [apply mmul_meq; [apply IH|apply meq_refl]|]. apply mmul_assoc.
  Qed.

  Lemma opstring_cons n x l :
    meq (K:=K) n (opstring n (x :: l)) (mmul n (ladder x) (opstring n l)).
  Proof.
    unfold opstring. cbn [fold_left].
    eapply meq_trans; [apply fold_mmul_meq; apply mmul_id_l|]. apply fold_mmul_shift.
  Qed.

  Theorem opstring_adj n ops :
    meq (K:=K) n (madj (opstring n ops)) (opstring n (rev (map opflip ops))).
  Proof.
    induction ops as [|op ops IH] using rev_ind.
    - cbn. unfold opstring. cbn [fold_left]. apply madj_mid.
    - rewrite opstring_snoc, map_app, rev_app_distr. cbn [map rev app].
      eapply meq_trans; [apply madj_mmul|].
      eapply meq_trans; [|apply meq_sym; apply opstring_cons].
      apply mmul_meq; [|exact IH]. intros r c _ _. apply madj_ladder.
  Qed.

  (* ---------------------------------------------------------------- sums over multi-indices *)
  Lemma all_idx_S_sum (f : list nat -> K) Ls k :
    lsum (map f (all_idx Ls (Datatypes.S k)))
    = lsum (map (fun i => lsum (map (fun idx => f (i :: idx)) (all_idx Ls k))) (seq 0 Ls)).
  Proof.
    cbn [all_idx]. rewrite lsum_flat_map. apply lsum_map_ext. intros i _. rewrite map_map. reflexivity.
  Qed.

  Lemma all_idx_snoc_sum Ls k : forall (f : list nat -> K),
    lsum (map f (all_idx Ls (Datatypes.S k)))
    = lsum (map (fun idx => lsum (map (fun i => f (idx ++ [i])) (seq 0 Ls))) (all_idx Ls k)).
  Proof.
    induction k as [|k IH]; intros f.
    - rewrite all_idx_S_sum. cbn [all_idx map]. rewrite lsum_cons, lsum_nil.
      transitivity (lsum (map (fun i => f [i]) (seq 0 Ls)) : K); [|cbn [app]; ring].
      apply lsum_map_ext. intros i _. rewrite lsum_cons, lsum_nil. ring.
    - rewrite all_idx_S_sum.
      transitivity (lsum (map (fun j => lsum (map (fun idx => lsum (map (fun i => f (j :: idx ++ [i])) (seq 0 Ls)))
                                               (all_idx Ls k))) (seq 0 Ls)) : K).
      { apply lsum_map_ext. intros j _. apply (IH (fun idx => f (j :: idx))). }
      rewrite (all_idx_S_sum (fun idx => lsum (map (fun i => f (idx ++ [i])) (seq 0 Ls)))). reflexivity.
  Qed.

  Theorem all_idx_rev_sum Ls k : forall (f : list nat -> K),
    lsum (map (fun idx => f (rev idx)) (all_idx Ls k)) = lsum (map f (all_idx Ls k)).
  Proof.
    induction k as [|k IH]; intros f; [reflexivity|].
    rewrite all_idx_S_sum. cbn [rev].
    transitivity (lsum (map (fun j => lsum (map (fun idx => f (idx ++ [j])) (all_idx Ls k))) (seq 0 Ls)) : K).
    { apply lsum_map_ext. intros j _. apply (IH (fun idx => f (idx ++ [j]))). }
    rewrite lsum_map_swap. symmetry. apply all_idx_snoc_sum.
  Qed.

  (* ---------------------------------------------------------------- Hermitian terms *)
  Lemma map_opflip_combine p : forall idx,
    map opflip (combine p idx) = combine (map oflip p) idx.
  Proof. induction p as [|o p IH]; intros [|i idx]; cbn; try reflexivity. rewrite IH. reflexivity. Qed.

  Theorem fterm_hermitian Ls (t : fterm K) :
    pat_selfadj (pat t) = true ->
    (forall idx, In idx (all_idx Ls (length (pat t))) -> coef t idx = (coef t (rev idx))^*) ->
    hermitian Ls (fterm_matrix Ls t).
  Proof.
    intros Hp Hc r c Hr Hcl. unfold madj, fterm_matrix.
    apply pat_eqb_eq in Hp.
    rewrite lsum_map_conj.
    transitivity (lsum (map (fun idx => (fun idx' => (coef t (rev idx'))^* * opstring Ls (combine (pat t) idx') r c) (rev idx))
                            (all_idx Ls (length (pat t)))) : K).
    { apply lsum_map_ext. intros idx Hin. cbv beta. rewrite rev_involutive.
      rewrite (conj_mul K L). f_equal.
      pose proof (opstring_adj Ls (combine (pat t) idx) r c Hr Hcl) as E. unfold madj in E. rewrite E.
      apply all_idx_In in Hin. destruct Hin as [Hl _].
      rewrite map_opflip_combine, combine_rev by (rewrite map_length; congruence).
      rewrite <- Hp. reflexivity. }
    rewrite (all_idx_rev_sum Ls _ (fun idx' => (coef t (rev idx'))^* * opstring Ls (combine (pat t) idx') r c)).
    apply lsum_map_ext. intros idx Hin. rewrite <- Hc by exact Hin. reflexivity.
  Qed.

  Theorem fterm_herm_flag_sound keq Ls (t : fterm K) :
    (forall a b : K, keq a b = true -> a = b) ->
    fterm_herm_flag keq Ls t = true -> hermitian Ls (fterm_matrix Ls t).
  Proof.
    intros Hk H. unfold fterm_herm_flag in H. apply andb_true_iff in H. destruct H as [H1 H2].
    apply fterm_hermitian; [exact H1|]. intros idx Hin.
    rewrite forallb_forall in H2. apply Hk. apply H2. exact Hin.
  Qed.

  Lemma hermitian_fop Ls (ts : list (fterm K)) :
    Forall (fun t => hermitian Ls (fterm_matrix Ls t)) ts -> hermitian Ls (fop_matrix Ls ts).
  Proof.
    intros H r c Hr Hc. unfold madj, fop_matrix. rewrite lsum_map_conj.
    induction H as [|t ts Ht _ IH]; [reflexivity|].
    cbn [map]. rewrite !lsum_cons. f_equal; [|exact IH].
    specialize (Ht r c Hr Hc). unfold madj in Ht. exact Ht.
  Qed.

  (** a term whose every operator string is number-balanced vanishes between different
      particle numbers *)
  Definition balanced (p : list otype) : bool :=
    Nat.eqb (length (filter (fun o => otype_eqb o OC) p)) (length (filter (fun o => otype_eqb o OA) p)).

  Lemma cnt_combine p : forall idx, length idx = length p ->
    cntC (combine p idx) = length (filter (fun o => otype_eqb o OC) p) /\
    cntA (combine p idx) = length (filter (fun o => otype_eqb o OA) p).
  Proof.
    unfold cntC, cntA.
    induction p as [|o p IH]; intros [|i idx] H; try discriminate; [split; reflexivity|].
    cbn in H. injection H as H. destruct (IH idx H) as [E1 E2].
    cbn [combine filter fst]. destruct o; cbn [otype_eqb length]; rewrite E1, E2; split; reflexivity.
  Qed.

  Theorem fterm_conserves_number Ls (t : fterm K) r c :
    balanced (pat t) = true -> length r = Ls -> length c = Ls -> popcount r <> popcount c ->
    fterm_matrix Ls t r c = 0.
  Proof.
    intros Hb Hr Hc Hne. unfold fterm_matrix. apply lsum_map_zero. intros idx Hin.
    apply all_idx_In in Hin. destruct Hin as [Hl _].
    destruct (cnt_combine (pat t) idx Hl) as [E1 E2].
    rewrite opstring_popcount; try assumption; [ring|].
    unfold balanced in Hb. apply Nat.eqb_eq in Hb. rewrite E1, E2. lia.
  Qed.

  (** number operator N = diag(popcount) and the commutator statement *)
  Fixpoint knat (k : nat) : K := match k with O => 0 | Datatypes.S k' => 1 + knat k' end.
  Definition Nmat : BMx K := fun r c => if beq r c then knat (popcount c) else 0.

  Theorem commutes_with_N n (H : BMx K) :
    (forall r c, length r = n -> length c = n -> popcount r <> popcount c -> H r c = 0) ->
    meq n (mmul n H Nmat) (mmul n Nmat H).
  Proof.
    intros Hsel r c Hr Hc. unfold mmul, Nmat.
    transitivity (H r c * knat (popcount c) : K).
    { transitivity (bsum n (fun k => (H r k * knat (popcount c)) * (if beq k c then 1 else 0)) : K).
      - apply bsum_ext. intros k _. destruct (beq k c) eqn:B; [|ring].
        apply beq_eq in B. subst. ring.
      - rewrite (bsum_delta_r n c (fun k => H r k * knat (popcount c))) by exact Hc. reflexivity. }
    transitivity (knat (popcount r) * H r c : K).
    2:{ transitivity (bsum n (fun k => (if beq r k then 1 else 0) * (knat (popcount r) * H k c)) : K).
        - rewrite (bsum_delta_l n r (fun k => knat (popcount r) * H k c)) by exact Hr. reflexivity.
        - apply bsum_ext. intros k _. destruct (beq r k) eqn:B; [|ring].
          apply beq_eq in B. subst. ring. }
    destruct (Nat.eq_dec (popcount r) (popcount c)) as [E|E]; [rewrite E; ring|].
    rewrite Hsel by assumption. ring.
  Qed.

  (** c_i a_i is diagonal with entry b_i  (so sum_i c_i a_i = Nmat) *)
  Lemma num_entry n i r c : length r = n -> length c = n -> (i < n)%nat ->
    opstring (K:=K) n [(OC, i); (OA, i)] r c = if beq r c then (if nth i c false then 1 else 0) else 0.
  Proof.
    intros Hr Hc Hi. rewrite opstring_mono by assumption. unfold mono_entry. cbn [rev app mono_apply].
    destruct (lad_apply OA i c) as [[s b']|] eqn:E.
    - destruct (lad_apply_num _ _ _ _ E) as [E2 Hn]. rewrite E2, Hn.
      rewrite xorb_false_r. destruct s; cbn [xorb sgnb]; destruct (beq r c); reflexivity.
    - rewrite (lad_apply_ann_none i c) by (try lia; exact E). destruct (beq r c); reflexivity.
  Qed.
End FermiProofs.
