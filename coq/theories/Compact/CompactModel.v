(** Executable model of qib.transform.compact_encoding (compact_encode_field_operator,
    _encode_edge_operator, _encode_vertex_operator) and of the index functions of
    qib.lattice.OddFaceCenteredLattice / IntegerLattice it uses.  No proofs here.

    Shapes are (r, c) = (shape[0], shape[1]); a coordinate is (x, y) with x the row
    (0 <= x < r) and y the column (0 <= y < c).  The code calls an edge with ix = jx
    "horizontal".  [None] models any raised exception. *)
From Qib Require Export Pauli.PauliModel.
Local Open Scope Z_scope.

(* ------------------------------------------------------------------------------------ *)
(** * numpy primitives (modelled, see trusted base) *)

(** a lattice coordinate as the code passes it around: integer pair (vertex) or a pair of
    half-integers (x + 0.5, y + 0.5) (face centre) *)
Inductive coord := CInt (x y : Z) | CHalf (x y : Z).

(** np.unravel_index(i, (s0, s1)); ValueError outside [0, s0*s1) *)
Definition np_unravel2 (s0 s1 i : Z) : option coord :=
  if (0 <=? i) && (i <? s0 * s1) then Some (CInt (i / s1) (i mod s1)) else None.
(** int(np.ravel_multi_index((a, b), (s0, s1))); ValueError outside the box *)
Definition np_ravel2 (s0 s1 a b : Z) : option Z :=
  if (0 <=? a) && (a <? s0) && (0 <=? b) && (b <? s1) then Some (a * s1 + b) else None.

(* ------------------------------------------------------------------------------------ *)
(** * descriptors of Pauli strings built with from_single_paulis / set_pauli *)

(** letters are coded I=0, X=1, Y=2, Z=3 *)
Record pdesc := { d_args : list (Z * Z); d_q : Z; d_sets : list (Z * Z) }.
Definition mkdesc (args : list (Z * Z)) (q : Z) : pdesc := {| d_args := args; d_q := q; d_sets := [] |}.
Definition desc_set (d : pdesc) (s i : Z) : pdesc :=
  {| d_args := d_args d; d_q := d_q d; d_sets := d_sets d ++ [(s, i)] |}.

Definition letter_z (s : Z) : bool := (s =? 2) || (s =? 3).
Definition letter_x (s : Z) : bool := (s =? 1) || (s =? 2).

Fixpoint lupd {A} (k : nat) (v : A) (l : list A) : list A :=
  match l, k with
  | [], _ => []
  | _ :: t, O => v :: t
  | h :: t, Datatypes.S k' => h :: lupd k' v t
  end.
Fixpoint falses (n : nat) : list bool :=
  match n with O => [] | Datatypes.S n' => false :: falses n' end.

(** one (letter, index) argument of from_single_paulis: ValueError unless 0 <= i < n *)
Definition arg_step (n : Z) (st : option (list bool * list bool)) (a : Z * Z) :=
  match st with
  | None => None
  | Some (z, x) =>
    let '(s, i) := a in
    if (i <? 0) || (n <=? i) then None
    else Some (lupd (Z.to_nat i) (letter_z s) z, lupd (Z.to_nat i) (letter_x s) x)
  end.
(** set_pauli(s, i): numpy indexing, -n <= i < n (negative indices wrap), else IndexError *)
Definition set_step (n : Z) (st : option (list bool * list bool)) (a : Z * Z) :=
  match st with
  | None => None
  | Some (z, x) =>
    let '(s, i) := a in
    if (i <? - n) || (n <=? i) then None
    else let k := Z.to_nat (i mod n) in Some (lupd k (letter_z s) z, lupd k (letter_x s) x)
  end.
(** the PauliString a descriptor stands for, on n qubits *)
Definition build (n : Z) (d : pdesc) : option pstr :=
  let z0 := falses (Z.to_nat n) in
  match fold_left (set_step n) (d_sets d) (fold_left (arg_step n) (d_args d) (Some (z0, z0))) with
  | Some (z, x) => Some {| pz := z; px := x; pq := d_q d mod 4 |}
  | None => None
  end.
Definition pidentity (n : Z) : pstr :=
  {| pz := falses (Z.to_nat n); px := falses (Z.to_nat n); pq := 0 |}.

(* ------------------------------------------------------------------------------------ *)
(** * OddFaceCenteredLattice((r, c)) index functions (hand model; Run.GenCompact has the
      regenerated ones and props/C13.v proves them equal) *)

Definition m_nsites (r c : Z) : Z := r * c + ((r - 1) * (c - 1) + 1) / 2.

Definition m_face_index (r c x y : Z) : option Z :=
  if (x + y) mod 2 =? 1 then None
  else if (x <? 0) || (y <? 0) || (r - 1 <=? x) || (c - 1 <=? y) then None
  else Some (r * c + (x * (c - 1) + 1) / 2 + y / 2).

Definition m_coord_to_index (r c : Z) (p : coord) : option Z :=
  match p with
  | CInt a b => np_ravel2 r c a b
  | CHalf x y => m_face_index r c x y
  end.

Definition m_index_to_coord (r c i : Z) : option coord :=
  if i <? r * c then np_unravel2 r c i
  else if c - 1 =? 0 then None            (* ZeroDivisionError *)
  else let k := i - r * c in
       let x := 2 * k / (c - 1) in
       let y := 2 * (k - (x * (c - 1) + 1) / 2) + x mod 2 in
       Some (CHalf x y).

Definition is_nn (ix iy jx jy : Z) : bool :=
  ((ix =? jx) && (Z.abs (iy - jy) =? 1)) || ((iy =? jy) && (Z.abs (ix - jx) =? 1)).

(** lower-left corner of the face edge_to_odd_face_index looks at *)
Definition m_edge_face_xy (ix iy jx jy : Z) : Z * Z :=
  let x := Z.min ix jx in
  let y := Z.min iy jy in
  if (x + y) mod 2 =? 1 then (if ix =? jx then (x - 1, y) else (x, y - 1)) else (x, y).

Definition m_edge_face (r c ix iy jx jy : Z) : option Z :=
  if negb (is_nn ix iy jx jy) then None
  else
    let x0 := Z.min ix jx in
    let y0 := Z.min iy jy in
    if (x0 <? 0) || (y0 <? 0) || (r <=? x0) || (c <=? y0) then None
    else
      let '(x, y) := m_edge_face_xy ix iy jx jy in
      if (x <? 0) || (y <? 0) || (r - 1 <=? x) || (c - 1 <=? y) then Some (-1)
      else Some (r * c + (x * (c - 1) + 1) / 2 + y / 2).

(* ------------------------------------------------------------------------------------ *)
(** * edge / vertex operators *)

Definition m_vertex_desc (j_idx : Z) : option pdesc := Some (mkdesc [(3, j_idx)] 0).

(** the orientation table; [conf] = "conforming" orientation as the code decides it *)
Definition m_edge_desc (i_idx j_idx f_idx ix iy jx jy : Z) : option pdesc :=
  if negb (is_nn ix iy jx jy) then None
  else if ix =? jx then
    let conf := ((ix mod 2 =? 0) && (jy <? iy)) || ((ix mod 2 =? 1) && (iy <? jy)) in
    let E := if conf then mkdesc [(1, i_idx); (2, j_idx)] 0 else mkdesc [(1, j_idx); (2, i_idx)] 2 in
    Some (if negb (f_idx =? -1) then desc_set E 2 f_idx else E)
  else if iy =? jy then
    let E := if iy mod 2 =? 0
             then (if jx <? ix then mkdesc [(1, i_idx); (2, j_idx)] 2 else mkdesc [(1, j_idx); (2, i_idx)] 0)
             else (if ix <? jx then mkdesc [(1, i_idx); (2, j_idx)] 0 else mkdesc [(1, j_idx); (2, i_idx)] 2) in
    Some (if negb (f_idx =? -1) then desc_set E 1 f_idx else E)
  else None.

Definition obind {A B} (o : option A) (f : A -> option B) : option B :=
  match o with Some a => f a | None => None end.

(** _encode_vertex_operator(latt_enc, (x, y)) *)
Definition m_vertex (r c x y : Z) : option pstr :=
  obind (m_coord_to_index r c (CInt x y)) (fun k =>
  obind (m_vertex_desc k) (fun d => build (m_nsites r c) d)).

(** _encode_edge_operator(latt_enc, (ix, iy), (jx, jy)) *)
Definition m_edge (r c ix iy jx jy : Z) : option pstr :=
  if negb (is_nn ix iy jx jy) then None
  else
    obind (m_coord_to_index r c (CInt ix iy)) (fun ii =>
    obind (m_coord_to_index r c (CInt jx jy)) (fun jj =>
    obind (m_edge_face r c ix iy jx jy) (fun ff =>
    obind (m_edge_desc ii jj ff ix iy jx jy) (fun d => build (m_nsites r c) d)))).

(* ------------------------------------------------------------------------------------ *)
(** * the encoder *)
Section Enc.
  Context {K : Scalar}.
  Local Open Scope K_scope.
  (** [half] = 0.5; [isz] = the test `coeffs[i, j] == 0`; [symb] = np.allclose(h, h.T) entrywise *)
  Variable half : K.
  Variable isz : K -> bool.
  Variable symb : K -> K -> bool.

  Definition coeffs := nat -> nat -> K.

  (** IntegerLattice((r, c)).index_to_coord(i) *)
  Definition fcoord (r c : Z) (i : nat) : option coord := np_unravel2 r c (Z.of_nat i).

  Definition vertex_at (r c : Z) (p : option coord) : option pstr :=
    match p with Some (CInt x y) => m_vertex r c x y | _ => None end.
  Definition edge_at (r c : Z) (p p' : option coord) : option pstr :=
    match p, p' with Some (CInt ix iy), Some (CInt jx jy) => m_edge r c ix iy jx jy | _, _ => None end.
  (** adj[i, j] of the open integer lattice *)
  Definition adj_at (p p' : option coord) : bool :=
    match p, p' with Some (CInt ix iy), Some (CInt jx jy) => is_nn ix iy jx jy | _, _ => false end.

  Definition onsite_step (r c : Z) (h : coeffs) (st : option (list (wstr (K:=K)) * K)) (i : nat) :=
    match st with
    | None => None
    | Some (op, idc) =>
      match vertex_at r c (fcoord r c i) with
      | None => None
      | Some V => Some (add_pauli_string op (V, - (half * h i i)), idc + half * h i i)
      end
    end.

  Definition hop_step (r c : Z) (h : coeffs) (st : option (list (wstr (K:=K)))) (ij : nat * nat) :=
    match st with
    | None => None
    | Some op =>
      let '(i, j) := ij in
      if isz (h i j) then Some op
      else if negb (adj_at (fcoord r c i) (fcoord r c j)) then None
      else
        match edge_at r c (fcoord r c i) (fcoord r c j),
              vertex_at r c (fcoord r c i), vertex_at r c (fcoord r c j) with
        | Some E, Some Vi, Some Vj =>
          Some (add_pauli_string (add_pauli_string op (pmul E Vj, sI * half * h i j))
                                 (pmul E Vi, - (sI * half * h i j)))
        | _, _, _ => None
        end
    end.

  (** (i, j) with i < j < N in the order of the two nested loops *)
  Definition pairs (N : nat) : list (nat * nat) :=
    flat_map (fun i => map (pair i) (seq (Datatypes.S i) (N - Datatypes.S i))) (seq 0 N).

  Definition sym_ok (N : nat) (h : coeffs) : bool :=
    forallb (fun i => forallb (fun j => symb (h i j) (h j i)) (seq 0 N)) (seq 0 N).

  Definition encode_term (r c : Z) (op : list (wstr (K:=K))) (h : coeffs) : option (list (wstr (K:=K))) :=
    let N := Z.to_nat (r * c) in
    if negb (sym_ok N h) then None
    else
      match fold_left (onsite_step r c h) (seq 0 N) (Some (op, 0)) with
      | None => None
      | Some (op1, idc) =>
        fold_left (hop_step r c h) (pairs N) (Some (add_pauli_string op1 (pidentity (m_nsites r c), idc)))
      end.

  (** compact_encode_field_operator for a list of create/annihilate terms with coefficient
      matrices hs on IntegerLattice((r, c)), open boundaries *)
  Definition encode (r c : Z) (hs : list coeffs) : option (list (wstr (K:=K))) :=
    fold_left (fun st h => obind st (fun op => encode_term r c op h)) hs (Some []).
End Enc.
