(** Edge-edge relations of the compact encoding for EVERY lattice shape.
    1. edge_char: the string E_ij letter by letter (orientation tree as functions of the coordinates,
       face qubit present iff the face looked up by edge_to_odd_face_index is inside the lattice).
    2. sites (vertex / auxiliary face) and their qubit index, injective on valid sites; the letter of
       E_ij at the qubit of a valid site is [elet] (a function of coordinates only).
    3. Step A: pcommutes E E' is the parity [acomm_p] of anticommuting letters over the (<= 3) sites of E.
    4. Step B: [acomm_p] is invariant under translations by even vectors; after translating the first
       edge to {0,1}^2 the second one lies in a fixed box (one vm_compute over the box, proved sound for
       all shapes) or is too far away to share a site. *)
From Qib Require Export Compact.CompactSparse.
Ltac Zify.zify_post_hook ::= Z.to_euclidean_division_equations.
Local Open Scope Z_scope.

(* ------------------------------------------------------------------------------------ *)
(** * the orientation tree as functions of the coordinates *)

(** branch of the tree: true = "X on i, Y on j" *)
Definition ecase (ix iy jx jy : Z) : bool :=
  if ix =? jx then ((ix mod 2 =? 0) && (jy <? iy)) || ((ix mod 2 =? 1) && (iy <? jy))
  else if iy mod 2 =? 0 then jx <? ix else ix <? jx.
Definition eq_of (ix iy jx jy : Z) : Z :=
  if ix =? jx then (if ecase ix iy jx jy then 0 else 2)
  else if iy mod 2 =? 0 then (if ecase ix iy jx jy then 2 else 0)
       else (if ecase ix iy jx jy then 0 else 2).
Definition lti (ix iy jx jy : Z) : lt := if ecase ix iy jx jy then lX else lY.
Definition ltj (ix iy jx jy : Z) : lt := if ecase ix iy jx jy then lY else lX.
Definition ltf (ix jx : Z) : lt := if ix =? jx then lY else lX.

Definition fvalid (r c fx fy : Z) : bool := negb ((fx <? 0) || (fy <? 0) || (r - 1 <=? fx) || (c - 1 <=? fy)).
Definition fidx (r c fx fy : Z) : Z := r * c + (fx * (c - 1) + 1) / 2 + fy / 2.

Lemma edge_desc_full ii jj ff ix iy jx jy d :
  is_nn ix iy jx jy = true -> m_edge_desc ii jj ff ix iy jx jy = Some d ->
  d = if ecase ix iy jx jy
      then {| d_args := [(1, ii); (2, jj)]; d_q := eq_of ix iy jx jy;
              d_sets := sets_of ff (if ix =? jx then 2 else 1) |}
      else {| d_args := [(1, jj); (2, ii)]; d_q := eq_of ix iy jx jy;
              d_sets := sets_of ff (if ix =? jx then 2 else 1) |}.
Proof.
  intros NN. unfold m_edge_desc, eq_of, ecase, sets_of, mkdesc, desc_set. rewrite NN. cbn [negb]. cbv zeta.
  destruct (ix =? jx).
  - destruct (_ || _); destruct (ff =? -1); cbn [negb]; intros H; injection H as <-; reflexivity.
  - destruct (iy =? jy); [|discriminate].
    destruct (iy mod 2 =? 0); [destruct (jx <? ix)|destruct (ix <? jx)]; destruct (ff =? -1); cbn [negb];
      intros H; injection H as <-; reflexivity.
Qed.

Lemma face_xy_even ix iy jx jy : is_nn ix iy jx jy = true ->
  (fst (m_edge_face_xy ix iy jx jy) + snd (m_edge_face_xy ix iy jx jy)) mod 2 = 0.
Proof.
  intros NN. pose proof (is_nn_cases _ _ _ _ NN) as C. unfold m_edge_face_xy.
  destruct ((Z.min ix jx + Z.min iy jy) mod 2 =? 1) eqn:E; [apply Z.eqb_eq in E|apply Z.eqb_neq in E];
    [destruct (ix =? jx)|]; cbn [fst snd]; lia.
Qed.

Lemma fidx_ge r c fx fy : 1 <= c -> 0 <= fx -> 0 <= fy -> r * c <= fidx r c fx fy.
Proof. intros. unfold fidx. pose proof (face_offset_nonneg fx fy (c - 1)). lia. Qed.

(** E_ij letter by letter *)
Lemma edge_char r c ix iy jx jy E : m_edge r c ix iy jx jy = Some E ->
  let fx := fst (m_edge_face_xy ix iy jx jy) in
  let fy := snd (m_edge_face_xy ix iy jx jy) in
  is_nn ix iy jx jy = true /\ (0 <= ix < r /\ 0 <= iy < c) /\ (0 <= jx < r /\ 0 <= jy < c) /\
  wfp (nq r c) E /\ pq E = eq_of ix iy jx jy /\
  (fvalid r c fx fy = true -> fidx r c fx fy < m_nsites r c) /\
  forall k, letter_at k E =
    if fvalid r c fx fy && Nat.eqb k (Z.to_nat (fidx r c fx fy)) then ltf ix jx
    else if Nat.eqb k (Z.to_nat (ix * c + iy)) then lti ix iy jx jy
    else if Nat.eqb k (Z.to_nat (jx * c + jy)) then ltj ix iy jx jy
    else lI.
Proof.
  intros H. cbv zeta.
  destruct (edge_inv _ _ _ _ _ _ _ H) as [ii [jj [ff [NN [Ri [Rj [F [FR [W _]]]]]]]]].
  pose proof (ravel_some _ _ _ _ _ Ri) as [Bix [Biy [Ei Bi]]].
  pose proof (ravel_some _ _ _ _ _ Rj) as [Bjx [Bjy [Ej Bj]]].
  assert (Hc : 1 <= c) by lia.
  split; [exact NN|]. split; [auto|]. split; [auto|]. split; [exact W|].
  (* the face index *)
  assert (Fv : ff = if fvalid r c (fst (m_edge_face_xy ix iy jx jy)) (snd (m_edge_face_xy ix iy jx jy))
                    then fidx r c (fst (m_edge_face_xy ix iy jx jy)) (snd (m_edge_face_xy ix iy jx jy)) else -1).
  { unfold m_edge_face in F. rewrite NN in F. cbn [negb] in F. cbv zeta in F.
    destruct (_ || _ || _ || _) in F; [discriminate|].
    unfold fvalid, fidx. destruct (m_edge_face_xy ix iy jx jy) as [x y]. cbn [fst snd].
    destruct ((x <? 0) || (y <? 0) || (r - 1 <=? x) || (c - 1 <=? y)); injection F as <-; reflexivity. }
  set (fx := fst (m_edge_face_xy ix iy jx jy)) in *. set (fy := snd (m_edge_face_xy ix iy jx jy)) in *.
  assert (Fge : fvalid r c fx fy = true -> r * c <= fidx r c fx fy).
  { unfold fvalid. intros V. apply negb_true_iff in V.
    apply orb_false_iff in V. destruct V as [V _]. apply orb_false_iff in V. destruct V as [V _].
    apply orb_false_iff in V. destruct V as [V1 V2]. apply Z.ltb_ge in V1, V2. apply fidx_ge; lia. }
  (* unfold the construction *)
  unfold m_edge in H. rewrite NN in H. cbn [negb] in H. unfold m_coord_to_index, obind in H.
  rewrite Ri, Rj, F in H.
  destruct (m_edge_desc ii jj ff ix iy jx jy) as [d|] eqn:D; [|discriminate].
  pose proof (edge_desc_full _ _ _ _ _ _ _ _ NN D) as Dd.
  assert (Nij : Z.to_nat ii <> Z.to_nat jj).
  { intros C. assert (Hij : ii = jj) by lia. rewrite <- Hij in Rj. destruct (ravel_inj _ _ _ _ _ _ _ Ri Rj) as [Q1 Q2].
    pose proof (is_nn_cases _ _ _ _ NN). lia. }
  assert (Hff : ff = -1 \/ 0 <= ff) by (destruct FR as [->|FR]; [left; reflexivity|right; lia]).
  unfold lti, ltj. rewrite <- Ei, <- Ej.
  destruct (ecase ix iy jx jy); subst d; apply build_two in H; try exact Hff;
    destruct H as [Ia [Ib [If [Hq [Lz [Lx [Nx Nz]]]]]]];
    (split; [rewrite Hq; unfold eq_of; repeat (match goal with |- context [if ?b then _ else _] => destruct b end); reflexivity|]);
    (split; [intros V; rewrite V in Fv; destruct If as [If|If]; [specialize (Fge V); lia|unfold in_n in If; lia]|]);
    intros k; unfold letter_at; rewrite Nx, Nz;
    destruct (fvalid r c fx fy) eqn:V; cbn [andb]; rewrite Fv.
  all: try (specialize (Fge eq_refl);
            replace (fidx r c fx fy =? -1) with false by (symmetry; apply Z.eqb_neq; lia)).
  all: try change (-1 =? -1) with true; cbv iota.
  all: unfold ltf; destruct (ix =? jx);
    destruct (Nat.eqb k (Z.to_nat (fidx r c fx fy))); try reflexivity;
    destruct (Nat.eqb k (Z.to_nat ii)) eqn:E1; destruct (Nat.eqb k (Z.to_nat jj)) eqn:E2; try reflexivity;
    apply Nat.eqb_eq in E1, E2; congruence.
Qed.

(* ------------------------------------------------------------------------------------ *)
(** * sites *)

Inductive site := SV (x y : Z) | SF (x y : Z).
Definition svalid (r c : Z) (s : site) : Prop :=
  match s with
  | SV x y => 0 <= x < r /\ 0 <= y < c
  | SF x y => 0 <= x < r - 1 /\ 0 <= y < c - 1 /\ (x + y) mod 2 = 0
  end.
Definition sidx (r c : Z) (s : site) : nat :=
  match s with SV x y => Z.to_nat (x * c + y) | SF x y => Z.to_nat (fidx r c x y) end.
Definition site_eqb (s s' : site) : bool :=
  match s, s' with
  | SV x y, SV u v => (x =? u) && (y =? v)
  | SF x y, SF u v => (x =? u) && (y =? v)
  | _, _ => false
  end.

Lemma vidx_range r c x y : 0 <= x < r -> 0 <= y < c -> 0 <= x * c + y < r * c.
Proof. intros. assert (x * c <= (r - 1) * c) by nia. assert (0 <= x * c) by nia. lia. Qed.

Lemma vidx_inj c x y u v : 0 <= y < c -> 0 <= v < c -> x * c + y = u * c + v -> x = u /\ y = v.
Proof. intros Hy Hv E. assert (x = u) by nia. subst u. split; [reflexivity|lia]. Qed.

Lemma fidx_range r c x y : 0 <= x < r - 1 -> 0 <= y < c - 1 -> (x + y) mod 2 = 0 ->
  r * c <= fidx r c x y < m_nsites r c.
Proof.
  intros Hx Hy Hp. destruct (face_coord_roundtrip r c x y Hx Hy Hp) as [i [A [_ R]]].
  unfold m_coord_to_index, m_face_index in A.
  destruct ((x + y) mod 2 =? 1); [discriminate|].
  destruct ((x <? 0) || (y <? 0) || (r - 1 <=? x) || (c - 1 <=? y)); [discriminate|].
  injection A as <-. exact R.
Qed.

Lemma fidx_inj r c x y u v :
  0 <= x < r - 1 -> 0 <= y < c - 1 -> (x + y) mod 2 = 0 ->
  0 <= u < r - 1 -> 0 <= v < c - 1 -> (u + v) mod 2 = 0 ->
  fidx r c x y = fidx r c u v -> x = u /\ y = v.
Proof.
  intros Hx Hy Hp Hu Hv Hq E. unfold fidx in E.
  destruct (face_local_roundtrip_inv (c - 1) x y ltac:(lia) ltac:(lia) Hy Hp) as [A [B _]].
  destruct (face_local_roundtrip_inv (c - 1) u v ltac:(lia) ltac:(lia) Hv Hq) as [A' [B' _]].
  cbv zeta in A, B, A', B'.
  assert (K : (x * (c - 1) + 1) / 2 + y / 2 = (u * (c - 1) + 1) / 2 + v / 2) by lia.
  rewrite K in A, B. rewrite A' in A. subst u. rewrite B' in B. auto.
Qed.

Lemma sidx_lt r c s : 1 <= r -> 1 <= c -> svalid r c s -> (sidx r c s < nq r c)%nat.
Proof.
  intros Hr Hc V. pose proof (nsites_ge r c Hr Hc) as N. unfold nq.
  destruct s as [x y|x y]; cbn [svalid sidx] in *.
  - destruct V as [Vx Vy]. pose proof (vidx_range r c x y Vx Vy). lia.
  - destruct V as [Vx [Vy Vp]]. pose proof (fidx_range r c x y Vx Vy Vp). lia.
Qed.

Lemma sidx_inj r c s s' : svalid r c s -> svalid r c s' ->
  Nat.eqb (sidx r c s) (sidx r c s') = site_eqb s s'.
Proof.
  intros V V'. destruct s as [x y|x y], s' as [u v|u v]; cbn [svalid sidx site_eqb] in *.
  - destruct V as [Vx Vy], V' as [Vu Vv].
    pose proof (vidx_range r c x y Vx Vy). pose proof (vidx_range r c u v Vu Vv).
    destruct ((x =? u) && (y =? v)) eqn:T.
    + apply andb_true_iff in T. destruct T as [T1 T2]. apply Z.eqb_eq in T1, T2. subst. apply Nat.eqb_refl.
    + apply Nat.eqb_neq. intros C. assert (E : x * c + y = u * c + v) by lia.
      destruct (vidx_inj c x y u v Vy Vv E) as [-> ->]. rewrite !Z.eqb_refl in T. discriminate.
  - destruct V as [Vx Vy], V' as [Vu [Vv Vp]].
    pose proof (vidx_range r c x y Vx Vy). pose proof (fidx_range r c u v Vu Vv Vp).
    apply Nat.eqb_neq. lia.
  - destruct V' as [Vx Vy], V as [Vu [Vv Vp]].
    pose proof (vidx_range r c u v Vx Vy). pose proof (fidx_range r c x y Vu Vv Vp).
    apply Nat.eqb_neq. lia.
  - destruct V as [Vx [Vy Vp]], V' as [Vu [Vv Vq]].
    pose proof (fidx_range r c x y Vx Vy Vp). pose proof (fidx_range r c u v Vu Vv Vq).
    destruct ((x =? u) && (y =? v)) eqn:T.
    + apply andb_true_iff in T. destruct T as [T1 T2]. apply Z.eqb_eq in T1, T2. subst. apply Nat.eqb_refl.
    + apply Nat.eqb_neq. intros C. assert (0 <= r * c) by nia.
      assert (E : fidx r c x y = fidx r c u v) by lia.
      destruct (fidx_inj r c x y u v Vx Vy Vp Vu Vv Vq E) as [-> ->]. rewrite !Z.eqb_refl in T. discriminate.
Qed.

(** letter of E_ij at a site, from coordinates only *)
Definition elet (ix iy jx jy : Z) (s : site) : lt :=
  match s with
  | SV u v => if (u =? ix) && (v =? iy) then lti ix iy jx jy
              else if (u =? jx) && (v =? jy) then ltj ix iy jx jy else lI
  | SF u v => if (u =? fst (m_edge_face_xy ix iy jx jy)) && (v =? snd (m_edge_face_xy ix iy jx jy))
              then ltf ix jx else lI
  end.

Lemma fvalid_true r c fx fy : fvalid r c fx fy = true <-> 0 <= fx < r - 1 /\ 0 <= fy < c - 1.
Proof.
  unfold fvalid. rewrite negb_true_iff, !orb_false_iff, !Z.ltb_ge, !Z.leb_gt. lia.
Qed.

Theorem edge_letter_site r c ix iy jx jy E s :
  m_edge r c ix iy jx jy = Some E -> svalid r c s -> letter_at (sidx r c s) E = elet ix iy jx jy s.
Proof.
  intros H V. pose proof (edge_char _ _ _ _ _ _ _ H) as C. cbv zeta in C.
  destruct C as [NN [Vi [Vj [_ [_ [_ L]]]]]]. rewrite L. clear L.
  pose proof (face_xy_even _ _ _ _ NN) as Pf.
  set (fx := fst (m_edge_face_xy ix iy jx jy)) in *. set (fy := snd (m_edge_face_xy ix iy jx jy)) in *.
  change (Z.to_nat (ix * c + iy)) with (sidx r c (SV ix iy)).
  change (Z.to_nat (jx * c + jy)) with (sidx r c (SV jx jy)).
  change (Z.to_nat (fidx r c fx fy)) with (sidx r c (SF fx fy)).
  rewrite (sidx_inj r c s (SV ix iy) V Vi), (sidx_inj r c s (SV jx jy) V Vj).
  destruct (fvalid r c fx fy) eqn:Fv; cbn [andb].
  - apply fvalid_true in Fv. destruct Fv as [F1 F2].
    rewrite (sidx_inj r c s (SF fx fy) V (conj F1 (conj F2 Pf))).
    destruct s as [u v|u v]; cbn [site_eqb elet]; [reflexivity|].
    fold fx fy. destruct ((u =? fx) && (v =? fy)); reflexivity.
  - destruct s as [u v|u v]; cbn [site_eqb elet]; [reflexivity|]. fold fx fy.
    destruct ((u =? fx) && (v =? fy)) eqn:T; [|reflexivity].
    apply andb_true_iff in T. destruct T as [T1 T2]. apply Z.eqb_eq in T1, T2. subst u v.
    cbn [svalid] in V. assert (fvalid r c fx fy = true) by (apply fvalid_true; lia). congruence.
Qed.

(** the sites of E_ij: its two end points and, when [pres], the face it is attached to *)
Definition esites_p (pres : bool) (ix iy jx jy : Z) : list site :=
  [SV ix iy; SV jx jy]
  ++ (if pres then [SF (fst (m_edge_face_xy ix iy jx jy)) (snd (m_edge_face_xy ix iy jx jy))] else []).
Definition epres (r c ix iy jx jy : Z) : bool :=
  fvalid r c (fst (m_edge_face_xy ix iy jx jy)) (snd (m_edge_face_xy ix iy jx jy)).

Lemma esites_valid r c ix iy jx jy E s : m_edge r c ix iy jx jy = Some E ->
  In s (esites_p (epres r c ix iy jx jy) ix iy jx jy) -> svalid r c s.
Proof.
  intros H. pose proof (edge_char _ _ _ _ _ _ _ H) as C. cbv zeta in C.
  destruct C as [NN [Vi [Vj _]]]. unfold esites_p, epres.
  intros [<-|[<-|I]]; [exact Vi|exact Vj|].
  destruct (fvalid r c _ _) eqn:Fv; [|destruct I]. destruct I as [<-|[]].
  apply fvalid_true in Fv. cbn [svalid]. pose proof (face_xy_even _ _ _ _ NN). lia.
Qed.

Lemma esites_nodup r c ix iy jx jy E : m_edge r c ix iy jx jy = Some E ->
  NoDup (map (sidx r c) (esites_p (epres r c ix iy jx jy) ix iy jx jy)).
Proof.
  intros H. pose proof (esites_valid r c ix iy jx jy E) as V. specialize (fun s => V s H).
  pose proof (edge_char _ _ _ _ _ _ _ H) as C. cbv zeta in C. destruct C as [NN _].
  pose proof (is_nn_cases _ _ _ _ NN) as Cn.
  assert (D : forall s s', In s (esites_p (epres r c ix iy jx jy) ix iy jx jy) ->
                           In s' (esites_p (epres r c ix iy jx jy) ix iy jx jy) ->
                           site_eqb s s' = false -> sidx r c s <> sidx r c s').
  { intros s s' I I' E0. apply Nat.eqb_neq. rewrite (sidx_inj r c s s' (V s I) (V s' I')). exact E0. }
  assert (Eij : site_eqb (SV ix iy) (SV jx jy) = false).
  { cbn. apply andb_false_iff. destruct Cn as [[-> Cn]|[-> Cn]]; [right|left]; apply Z.eqb_neq; lia. }
  unfold esites_p in *. destruct (epres r c ix iy jx jy); cbn [app map] in *.
  - constructor; [|constructor; [|constructor; [intros []|constructor]]].
    + intros [I|[I|[]]]; symmetry in I; revert I; apply D; cbn; auto.
    + intros [I|[]]; symmetry in I; revert I; apply D; cbn; auto.
  - constructor; [|constructor; [intros []|constructor]].
    intros [I|[]]; symmetry in I; revert I; apply D; cbn; auto.
Qed.

Lemma esites_supp r c ix iy jx jy E : m_edge r c ix iy jx jy = Some E ->
  psupp (map (sidx r c) (esites_p (epres r c ix iy jx jy) ix iy jx jy)) E.
Proof.
  intros H. pose proof (edge_char _ _ _ _ _ _ _ H) as C. cbv zeta in C.
  destruct C as [_ [_ [_ [_ [_ [_ L]]]]]].
  assert (A : forall k, ~ In k (map (sidx r c) (esites_p (epres r c ix iy jx jy) ix iy jx jy)) -> letter_at k E = lI).
  { intros k Hk. rewrite L.
    assert (N1 : Nat.eqb k (Z.to_nat (ix * c + iy)) = false).
    { apply Nat.eqb_neq. intros ->. apply Hk. unfold esites_p. cbn. auto. }
    assert (N2 : Nat.eqb k (Z.to_nat (jx * c + jy)) = false).
    { apply Nat.eqb_neq. intros ->. apply Hk. unfold esites_p. cbn. auto. }
    rewrite N1, N2.
    destruct (fvalid r c (fst (m_edge_face_xy ix iy jx jy)) (snd (m_edge_face_xy ix iy jx jy))) eqn:Fv;
      cbn [andb]; [|reflexivity].
    assert (N3 : Nat.eqb k (Z.to_nat (fidx r c (fst (m_edge_face_xy ix iy jx jy)) (snd (m_edge_face_xy ix iy jx jy)))) = false).
    { apply Nat.eqb_neq. intros ->. apply Hk. unfold esites_p, epres. rewrite Fv. cbn. auto. }
    rewrite N3. reflexivity. }
  split; intros k Hk; specialize (A k Hk); unfold letter_at, lI in A; injection A as A1 A2; assumption.
Qed.

(* ------------------------------------------------------------------------------------ *)
(** * Step A: commutation of two edge operators from coordinates *)

Definition acomm_p (pres : bool) (ix iy jx jy kx ky lx ly : Z) : bool :=
  negb (scomm (map (elet ix iy jx jy) (esites_p pres ix iy jx jy))
              (map (elet kx ky lx ly) (esites_p pres ix iy jx jy))).

Lemma edge_r_c_pos r c ix iy jx jy E : m_edge r c ix iy jx jy = Some E -> 1 <= r /\ 1 <= c.
Proof.
  intros H. pose proof (edge_char _ _ _ _ _ _ _ H) as C. cbv zeta in C. destruct C as [_ [Vi _]]. lia.
Qed.

Theorem edge_edge_acomm r c ix iy jx jy kx ky lx ly E E' :
  m_edge r c ix iy jx jy = Some E -> m_edge r c kx ky lx ly = Some E' ->
  pcommutes E E' = acomm_p (epres r c ix iy jx jy) ix iy jx jy kx ky lx ly.
Proof.
  intros H H'. destruct (edge_r_c_pos _ _ _ _ _ _ _ H) as [Hr Hc].
  destruct (edge_wf _ _ _ _ _ _ _ H) as [W _]. destruct (edge_wf _ _ _ _ _ _ _ H') as [W' _].
  pose proof (esites_valid r c ix iy jx jy E) as V. specialize (fun s => V s H).
  rewrite (pcommutes_window (nq r c) (map (sidx r c) (esites_p (epres r c ix iy jx jy) ix iy jx jy)) E E' W W').
  - unfold acomm_p, letters_at. rewrite !map_map. f_equal. f_equal.
    + apply map_ext_in. intros s I. apply (edge_letter_site r c ix iy jx jy E s H (V s I)).
    + apply map_ext_in. intros s I. apply (edge_letter_site r c kx ky lx ly E' s H' (V s I)).
  - apply (esites_nodup r c ix iy jx jy E H).
  - intros p Hp. apply in_map_iff in Hp. destruct Hp as [s [<- I]]. apply sidx_lt; auto.
  - apply (esites_supp r c ix iy jx jy E H).
Qed.

(* ------------------------------------------------------------------------------------ *)
(** * Step B: [acomm_p] decides "exactly one shared vertex" *)

Definition expected (ix iy jx jy kx ky lx ly : Z) : bool :=
  negb (Nat.eqb (shared ((ix, iy), (jx, jy)) ((kx, ky), (lx, ly))) 1).
Definition mem4 (v a b c d : Z) : bool := (v =? a) || (v =? b) || (v =? c) || (v =? d).
(** the four corners of the face E_ij is attached to have their coordinates among those of the end
    points of the two edges: then the face lies inside any lattice containing both edges *)
Definition forced (ix iy jx jy kx ky lx ly : Z) : bool :=
  let fx := fst (m_edge_face_xy ix iy jx jy) in
  let fy := snd (m_edge_face_xy ix iy jx jy) in
  mem4 fx ix jx kx lx && mem4 (fx + 1) ix jx kx lx && mem4 fy iy jy ky ly && mem4 (fy + 1) iy jy ky ly.
Definition chk (ix iy jx jy kx ky lx ly : Z) : bool :=
  Bool.eqb (acomm_p true ix iy jx jy kx ky lx ly) (expected ix iy jx jy kx ky lx ly)
  && (Bool.eqb (acomm_p false ix iy jx jy kx ky lx ly) (expected ix iy jx jy kx ky lx ly)
      || forced ix iy jx jy kx ky lx ly).

(* ---------- invariance under even translations ---------- *)
Lemma eqb_shift u v t : (u + t =? v + t) = (u =? v).
Proof. destruct (u =? v) eqn:E; [apply Z.eqb_eq in E; apply Z.eqb_eq; lia|apply Z.eqb_neq in E; apply Z.eqb_neq; lia]. Qed.
Lemma ltb_shift u v t : (u + t <? v + t) = (u <? v).
Proof. destruct (u <? v) eqn:E; [apply Z.ltb_lt in E; apply Z.ltb_lt; lia|apply Z.ltb_ge in E; apply Z.ltb_ge; lia]. Qed.
Lemma mod2_shift u a : (u + 2 * a) mod 2 = u mod 2.
Proof. lia. Qed.

Lemma ecase_shift a b ix iy jx jy :
  ecase (ix + 2 * a) (iy + 2 * b) (jx + 2 * a) (jy + 2 * b) = ecase ix iy jx jy.
Proof. unfold ecase. rewrite !eqb_shift, !ltb_shift, !mod2_shift. reflexivity. Qed.

Lemma face_xy_shift a b ix iy jx jy :
  m_edge_face_xy (ix + 2 * a) (iy + 2 * b) (jx + 2 * a) (jy + 2 * b)
  = (fst (m_edge_face_xy ix iy jx jy) + 2 * a, snd (m_edge_face_xy ix iy jx jy) + 2 * b).
Proof.
  unfold m_edge_face_xy. rewrite !Z.add_min_distr_r, eqb_shift.
  replace ((Z.min ix jx + 2 * a + (Z.min iy jy + 2 * b)) mod 2) with ((Z.min ix jx + Z.min iy jy) mod 2) by lia.
  destruct (_ =? 1); [destruct (ix =? jx)|]; cbn [fst snd]; f_equal; lia.
Qed.

Definition shs (a b : Z) (s : site) : site :=
  match s with SV x y => SV (x + 2 * a) (y + 2 * b) | SF x y => SF (x + 2 * a) (y + 2 * b) end.

Lemma elet_shift a b ix iy jx jy s :
  elet (ix + 2 * a) (iy + 2 * b) (jx + 2 * a) (jy + 2 * b) (shs a b s) = elet ix iy jx jy s.
Proof.
  destruct s as [u v|u v]; cbn [shs elet]; unfold lti, ltj, ltf.
  - rewrite !eqb_shift, ecase_shift. reflexivity.
  - rewrite face_xy_shift. cbn [fst snd]. rewrite !eqb_shift. reflexivity.
Qed.

Lemma esites_shift pres a b ix iy jx jy :
  esites_p pres (ix + 2 * a) (iy + 2 * b) (jx + 2 * a) (jy + 2 * b) = map (shs a b) (esites_p pres ix iy jx jy).
Proof. unfold esites_p. rewrite face_xy_shift. destruct pres; reflexivity. Qed.

Lemma acomm_shift pres a b ix iy jx jy kx ky lx ly :
  acomm_p pres (ix + 2 * a) (iy + 2 * b) (jx + 2 * a) (jy + 2 * b) (kx + 2 * a) (ky + 2 * b) (lx + 2 * a) (ly + 2 * b)
  = acomm_p pres ix iy jx jy kx ky lx ly.
Proof.
  unfold acomm_p. rewrite esites_shift, !map_map. f_equal. f_equal; apply map_ext; intros s; apply elet_shift.
Qed.

Lemma expected_shift a b ix iy jx jy kx ky lx ly :
  expected (ix + 2 * a) (iy + 2 * b) (jx + 2 * a) (jy + 2 * b) (kx + 2 * a) (ky + 2 * b) (lx + 2 * a) (ly + 2 * b)
  = expected ix iy jx jy kx ky lx ly.
Proof. unfold expected, shared, veqb. cbn [fst snd]. rewrite !eqb_shift. reflexivity. Qed.

Lemma forced_shift a b ix iy jx jy kx ky lx ly :
  forced (ix + 2 * a) (iy + 2 * b) (jx + 2 * a) (jy + 2 * b) (kx + 2 * a) (ky + 2 * b) (lx + 2 * a) (ly + 2 * b)
  = forced ix iy jx jy kx ky lx ly.
Proof.
  unfold forced, mem4. rewrite face_xy_shift. cbn [fst snd]. cbv zeta.
  set (fx := fst (m_edge_face_xy ix iy jx jy)). set (fy := snd (m_edge_face_xy ix iy jx jy)).
  replace (fx + 2 * a + 1) with (fx + 1 + 2 * a) by ring.
  replace (fy + 2 * b + 1) with (fy + 1 + 2 * b) by ring.
  rewrite !eqb_shift. reflexivity.
Qed.

Lemma chk_shift a b ix iy jx jy kx ky lx ly :
  chk (ix + 2 * a) (iy + 2 * b) (jx + 2 * a) (jy + 2 * b) (kx + 2 * a) (ky + 2 * b) (lx + 2 * a) (ly + 2 * b)
  = chk ix iy jx jy kx ky lx ly.
Proof. unfold chk. rewrite !acomm_shift, expected_shift, forced_shift. reflexivity. Qed.

(* ---------- the box ---------- *)
Definition dirs : list (Z * Z) := [(0, 1); (0, -1); (1, 0); (-1, 0)].
Definition zr (lo : Z) (n : nat) : list Z := map (fun k => lo + Z.of_nat k) (seq 0 n).
(** first edge starting in {0,1}^2, second edge starting at most 3 away in each coordinate,
    all 4 x 4 directions: 4096 pairs *)
Definition box_ok : bool :=
  forallb (fun ix => forallb (fun iy => forallb (fun d =>
  forallb (fun kx => forallb (fun ky => forallb (fun d' =>
     chk ix iy (ix + fst d) (iy + snd d) kx ky (kx + fst d') (ky + snd d'))
  dirs) (zr (-3) 8)) (zr (-3) 8)) dirs) (zr 0 2)) (zr 0 2).

Lemma box_ok_true : box_ok = true.
Proof. vm_compute. reflexivity. Qed.

Lemma forall_range lo n (P : Z -> bool) : forallb P (zr lo n) = true ->
  forall z, lo <= z < lo + Z.of_nat n -> P z = true.
Proof.
  intros H z Hz. rewrite forallb_forall in H. apply H. unfold zr.
  apply in_map_iff. exists (Z.to_nat (z - lo)). split; [lia|apply in_seq; lia].
Qed.

Lemma box_sound p q d kx ky d' : 0 <= p < 2 -> 0 <= q < 2 -> In d dirs -> -3 <= kx < 5 -> -3 <= ky < 5 -> In d' dirs ->
  chk p q (p + fst d) (q + snd d) kx ky (kx + fst d') (ky + snd d') = true.
Proof.
  intros Hp Hq Hd Hkx Hky Hd'. pose proof box_ok_true as B. unfold box_ok in B.
  apply (forall_range 0 2 _ B p) in Hp. clear B.
  apply (forall_range 0 2 _ Hp q) in Hq. clear Hp.
  rewrite forallb_forall in Hq. specialize (Hq d Hd).
  apply (forall_range (-3) 8 _ Hq kx) in Hkx. clear Hq.
  apply (forall_range (-3) 8 _ Hkx ky) in Hky. clear Hkx.
  rewrite forallb_forall in Hky. exact (Hky d' Hd').
Qed.

Lemma nn_dir ix iy jx jy : is_nn ix iy jx jy = true -> In (jx - ix, jy - iy) dirs.
Proof.
  intros NN. destruct (is_nn_cases _ _ _ _ NN) as [[-> [-> | ->]]|[-> [-> | ->]]]; unfold dirs.
  - left. f_equal; lia.
  - right; left. f_equal; lia.
  - right; right; left. f_equal; lia.
  - right; right; right; left. f_equal; lia.
Qed.

Lemma chk_near ix iy jx jy kx ky lx ly :
  is_nn ix iy jx jy = true -> is_nn kx ky lx ly = true ->
  -3 <= kx - ix <= 3 -> -3 <= ky - iy <= 3 -> chk ix iy jx jy kx ky lx ly = true.
Proof.
  intros NN NN' Hx Hy.
  rewrite <- (chk_shift (- (ix / 2)) (- (iy / 2))).
  pose proof (box_sound (ix + 2 * - (ix / 2)) (iy + 2 * - (iy / 2)) (jx - ix, jy - iy)
                        (kx + 2 * - (ix / 2)) (ky + 2 * - (iy / 2)) (lx - kx, ly - ky)
                        ltac:(lia) ltac:(lia) (nn_dir _ _ _ _ NN) ltac:(lia) ltac:(lia) (nn_dir _ _ _ _ NN')) as B.
  cbn [fst snd] in B.
  replace (ix + 2 * - (ix / 2) + (jx - ix)) with (jx + 2 * - (ix / 2)) in B by ring.
  replace (iy + 2 * - (iy / 2) + (jy - iy)) with (jy + 2 * - (iy / 2)) in B by ring.
  replace (kx + 2 * - (ix / 2) + (lx - kx)) with (lx + 2 * - (ix / 2)) in B by ring.
  replace (ky + 2 * - (iy / 2) + (ly - ky)) with (ly + 2 * - (iy / 2)) in B by ring.
  exact B.
Qed.

(* ---------- far apart: no common site ---------- *)
Definition sx (s : site) : Z := match s with SV x _ => x | SF x _ => x end.
Definition sy (s : site) : Z := match s with SV _ y => y | SF _ y => y end.

Lemma face_xy_bounds ix iy jx jy : is_nn ix iy jx jy = true ->
  Z.min ix jx - 1 <= fst (m_edge_face_xy ix iy jx jy) <= Z.min ix jx /\
  Z.min iy jy - 1 <= snd (m_edge_face_xy ix iy jx jy) <= Z.min iy jy.
Proof.
  intros NN. unfold m_edge_face_xy. destruct (_ =? 1); [destruct (ix =? jx)|]; cbn [fst snd]; lia.
Qed.

Lemma esites_bounds pres ix iy jx jy s : is_nn ix iy jx jy = true -> In s (esites_p pres ix iy jx jy) ->
  Z.min ix jx - 1 <= sx s <= Z.max ix jx /\ Z.min iy jy - 1 <= sy s <= Z.max iy jy.
Proof.
  intros NN I. pose proof (face_xy_bounds _ _ _ _ NN) as B. unfold esites_p in I.
  destruct I as [<-|[<-|I]]; cbn [sx sy]; try lia.
  destruct pres; [|destruct I]. destruct I as [<-|[]]. cbn [sx sy]. lia.
Qed.

Lemma elet_far kx ky lx ly s : is_nn kx ky lx ly = true ->
  (sx s < Z.min kx lx - 1 \/ Z.max kx lx < sx s \/ sy s < Z.min ky ly - 1 \/ Z.max ky ly < sy s) ->
  elet kx ky lx ly s = lI.
Proof.
  intros NN F. pose proof (face_xy_bounds _ _ _ _ NN) as B.
  destruct s as [u v|u v]; cbn [sx sy elet] in *.
  - replace ((u =? kx) && (v =? ky)) with false by (symmetry; apply andb_false_iff; rewrite !Z.eqb_neq; lia).
    replace ((u =? lx) && (v =? ly)) with false by (symmetry; apply andb_false_iff; rewrite !Z.eqb_neq; lia).
    reflexivity.
  - replace ((u =? fst (m_edge_face_xy kx ky lx ly)) && (v =? snd (m_edge_face_xy kx ky lx ly))) with false
      by (symmetry; apply andb_false_iff; rewrite !Z.eqb_neq; lia).
    reflexivity.
Qed.

Lemma scomm_all_I l : forall l', (forall b, In b l' -> b = lI) -> scomm l l' = false.
Proof.
  induction l as [|a l IH]; intros [|b l'] H; try reflexivity.
  cbn [scomm]. rewrite (H b (or_introl eq_refl)), IH; [|intros b' I; apply H; right; exact I].
  unfold symp, lI. cbn [fst snd]. rewrite !andb_false_r. reflexivity.
Qed.

Lemma far_commute pres ix iy jx jy kx ky lx ly :
  is_nn ix iy jx jy = true -> is_nn kx ky lx ly = true ->
  (kx - ix < -3 \/ 3 < kx - ix \/ ky - iy < -3 \/ 3 < ky - iy) ->
  acomm_p pres ix iy jx jy kx ky lx ly = true /\ expected ix iy jx jy kx ky lx ly = true.
Proof.
  intros NN NN' F.
  pose proof (is_nn_cases _ _ _ _ NN) as C. pose proof (is_nn_cases _ _ _ _ NN') as C'.
  split.
  - unfold acomm_p. rewrite scomm_all_I; [reflexivity|].
    intros b I. apply in_map_iff in I. destruct I as [s [<- I]].
    pose proof (esites_bounds pres _ _ _ _ s NN I) as B. apply (elet_far _ _ _ _ s NN'). lia.
  - unfold expected, shared, veqb. cbn [fst snd].
    replace ((ix =? kx) && (iy =? ky)) with false by (symmetry; apply andb_false_iff; rewrite !Z.eqb_neq; lia).
    replace ((ix =? lx) && (iy =? ly)) with false by (symmetry; apply andb_false_iff; rewrite !Z.eqb_neq; lia).
    replace ((jx =? kx) && (jy =? ky)) with false by (symmetry; apply andb_false_iff; rewrite !Z.eqb_neq; lia).
    replace ((jx =? lx) && (jy =? ly)) with false by (symmetry; apply andb_false_iff; rewrite !Z.eqb_neq; lia).
    reflexivity.
Qed.

(* ---------- presence of the face when it matters ---------- *)
Lemma mem4_range lo hi v a b c d : mem4 v a b c d = true ->
  lo <= a < hi -> lo <= b < hi -> lo <= c < hi -> lo <= d < hi -> lo <= v < hi.
Proof.
  unfold mem4. rewrite !orb_true_iff, !Z.eqb_eq. lia.
Qed.

Lemma forced_sound r c ix iy jx jy kx ky lx ly :
  forced ix iy jx jy kx ky lx ly = true ->
  0 <= ix < r -> 0 <= iy < c -> 0 <= jx < r -> 0 <= jy < c ->
  0 <= kx < r -> 0 <= ky < c -> 0 <= lx < r -> 0 <= ly < c ->
  epres r c ix iy jx jy = true.
Proof.
  unfold forced, epres. cbv zeta. intros F.
  apply andb_true_iff in F. destruct F as [F F4]. apply andb_true_iff in F. destruct F as [F F3].
  apply andb_true_iff in F. destruct F as [F1 F2].
  intros Hix Hiy Hjx Hjy Hkx Hky Hlx Hly. apply fvalid_true.
  pose proof (mem4_range 0 r _ _ _ _ _ F1 Hix Hjx Hkx Hlx). pose proof (mem4_range 0 r _ _ _ _ _ F2 Hix Hjx Hkx Hlx).
  pose proof (mem4_range 0 c _ _ _ _ _ F3 Hiy Hjy Hky Hly). pose proof (mem4_range 0 c _ _ _ _ _ F4 Hiy Hjy Hky Hly).
  lia.
Qed.

(* ------------------------------------------------------------------------------------ *)
(** * the edge-edge relations, every shape *)

(** {E_ij, E_jk} = 0 for edges sharing exactly one vertex, [E_ij, E_kl] = 0 for disjoint edges (and
    for an edge with itself or its reverse), decided on strings; no bound on the shape *)
Theorem R_edge_edge r c ix iy jx jy kx ky lx ly E E' :
  m_edge r c ix iy jx jy = Some E -> m_edge r c kx ky lx ly = Some E' ->
  pcommutes E E' = negb (Nat.eqb (shared ((ix, iy), (jx, jy)) ((kx, ky), (lx, ly))) 1).
Proof.
  intros H H'. rewrite (edge_edge_acomm _ _ _ _ _ _ _ _ _ _ _ _ H H').
  pose proof (edge_char _ _ _ _ _ _ _ H) as C. cbv zeta in C. destruct C as [NN [[Vix Viy] [[Vjx Vjy] _]]].
  pose proof (edge_char _ _ _ _ _ _ _ H') as C. cbv zeta in C. destruct C as [NN' [[Vkx Vky] [[Vlx Vly] _]]].
  fold (expected ix iy jx jy kx ky lx ly).
  destruct (Z_lt_dec (kx - ix) (-3)) as [F1|F1];
    [destruct (far_commute (epres r c ix iy jx jy) _ _ _ _ _ _ _ _ NN NN' ltac:(lia)) as [-> ->]; reflexivity|].
  destruct (Z_lt_dec 3 (kx - ix)) as [F2|F2];
    [destruct (far_commute (epres r c ix iy jx jy) _ _ _ _ _ _ _ _ NN NN' ltac:(lia)) as [-> ->]; reflexivity|].
  destruct (Z_lt_dec (ky - iy) (-3)) as [F3|F3];
    [destruct (far_commute (epres r c ix iy jx jy) _ _ _ _ _ _ _ _ NN NN' ltac:(lia)) as [-> ->]; reflexivity|].
  destruct (Z_lt_dec 3 (ky - iy)) as [F4|F4];
    [destruct (far_commute (epres r c ix iy jx jy) _ _ _ _ _ _ _ _ NN NN' ltac:(lia)) as [-> ->]; reflexivity|].
  pose proof (chk_near _ _ _ _ _ _ _ _ NN NN' ltac:(lia) ltac:(lia)) as K. unfold chk in K.
  apply andb_true_iff in K. destruct K as [K1 K2]. apply Bool.eqb_prop in K1.
  destruct (epres r c ix iy jx jy) eqn:P; [exact K1|].
  apply orb_true_iff in K2. destruct K2 as [K2|K2]; [apply Bool.eqb_prop in K2; exact K2|].
  rewrite (forced_sound r c _ _ _ _ _ _ _ _ K2) in P by assumption. discriminate.
Qed.
