(** Sparse-support calculus for Pauli strings of ANY length, used to prove the edge-edge relations
    and the loop statements of the compact encoding for every lattice shape (CompactLocal.v,
    CompactLoops.v):
      - a dot product whose first argument is supported on a duplicate-free list of positions [ps]
        only reads the entries at [ps] (dot_window); hence commutation (pcommutes_window) and
        products with their phase (restrict_pmul, restrict_eq) can be computed on the window;
      - string-level group laws with phases: pmul_assoc, pmul_comm, pmul_anticomm, bilinearity of
        (anti)commutation over products (anti_pmul_l / anti_pmul_r), pneg. *)
From Qib Require Export Compact.CompactBounded.
Ltac Zify.zify_post_hook ::= Z.to_euclidean_division_equations.
Local Open Scope Z_scope.

(* ------------------------------------------------------------------------------------ *)
(** * lists *)

Lemma nth_bxor a : forall b k, length a = length b ->
  nth k (bxor a b) false = xorb (nth k a false) (nth k b false).
Proof.
  induction a as [|x a IH]; intros [|y b] k H; try discriminate.
  - destruct k; reflexivity.
  - rewrite bxor_cons. destruct k as [|k]; cbn [nth]; [reflexivity|]. apply IH. cbn in H. lia.
Qed.

Lemma bxor_assoc a : forall b c, bxor (bxor a b) c = bxor a (bxor b c).
Proof.
  induction a as [|x a IH]; intros [|y b] [|z c]; try reflexivity.
  rewrite !bxor_cons, IH, xorb_assoc. reflexivity.
Qed.

Lemma dotnat_lupd a : forall b p v, length a = length b -> (p < length a)%nat -> nth p a false = false ->
  dotnat (lupd p v a) b = (dotnat a b + (if v && nth p b false then 1 else 0))%nat.
Proof.
  induction a as [|x a IH]; intros [|y b] p v Hl Hp Hn; try discriminate; cbn [length] in Hp; try lia.
  cbn [length] in Hl.
  destruct p as [|p]; cbn [lupd dotnat nth] in *.
  - subst x. cbn [andb]. lia.
  - rewrite IH; try lia. exact Hn.
Qed.

Lemma dotnat_allfalse u : forall v, (forall k, nth k u false = false) -> dotnat u v = 0%nat.
Proof.
  induction u as [|x u IH]; intros [|y v] H; try reflexivity.
  cbn [dotnat]. rewrite (H O : x = false). cbn [andb]. rewrite IH; [reflexivity|].
  intros k. exact (H (Datatypes.S k)).
Qed.

(** entries of [u] at the positions [ps] *)
Definition sel (ps : list nat) (u : list bool) : list bool := map (fun p => nth p u false) ps.
(** [u] vanishes outside [ps] *)
Definition supp_in (ps : list nat) (u : list bool) : Prop := forall k, ~ In k ps -> nth k u false = false.

Lemma sel_length ps u : length (sel ps u) = length ps.
Proof. apply map_length. Qed.

Lemma dot_window ps : forall u v, NoDup ps -> (forall p, In p ps -> (p < length u)%nat) ->
  length u = length v -> supp_in ps u -> dotnat u v = dotnat (sel ps u) (sel ps v).
Proof.
  induction ps as [|p ps IH]; intros u v ND Hlt Hl Hs.
  - cbn. apply dotnat_allfalse. intros k. apply Hs. intros [].
  - inversion ND as [|? ? Hnin ND']; subst.
    assert (Hp : (p < length u)%nat) by (apply Hlt; left; reflexivity).
    assert (Tp : (p <? length u)%nat = true) by (apply Nat.ltb_lt; exact Hp).
    set (u' := lupd p false u).
    assert (Lu' : length u' = length u) by apply lupd_length.
    assert (Hu : lupd p (nth p u false) u' = u).
    { apply list_ext_nth; [rewrite lupd_length; exact Lu'|]. intros k. unfold u'.
      rewrite !nth_lupd, !lupd_length, Tp, andb_true_r.
      destruct (Nat.eqb k p) eqn:E; [apply Nat.eqb_eq in E; subst k|]; reflexivity. }
    assert (Np : nth p u' false = false).
    { unfold u'. rewrite nth_lupd, Nat.eqb_refl, Tp. reflexivity. }
    pose proof (dotnat_lupd u' v p (nth p u false) ltac:(lia) ltac:(lia) Np) as D. rewrite Hu in D.
    assert (Hs' : supp_in ps u').
    { intros k Hk. unfold u'. rewrite nth_lupd, Tp, andb_true_r.
      destruct (Nat.eqb k p) eqn:E; [reflexivity|]. apply Hs. intros [C|C]; [|exact (Hk C)].
      apply Nat.eqb_neq in E. congruence. }
    assert (Se : sel ps u' = sel ps u).
    { unfold sel. apply map_ext_in. intros q Hq. unfold u'. rewrite nth_lupd, Tp, andb_true_r.
      destruct (Nat.eqb q p) eqn:E; [|reflexivity]. apply Nat.eqb_eq in E. subst q. contradiction. }
    rewrite D, (IH u' v ND'); [|intros q Hq; rewrite Lu'; apply Hlt; right; exact Hq|lia|exact Hs'].
    rewrite Se. cbn [sel map dotnat]. fold (sel ps u) (sel ps v). lia.
Qed.

Lemma sel_bxor ps a b : length a = length b -> sel ps (bxor a b) = bxor (sel ps a) (sel ps b).
Proof.
  intros H. induction ps as [|p ps IH]; [reflexivity|].
  cbn [sel map]. fold (sel ps (bxor a b)) (sel ps a) (sel ps b).
  rewrite bxor_cons, nth_bxor, IH by exact H. reflexivity.
Qed.

Lemma supp_bxor ps a b : length a = length b -> supp_in ps a -> supp_in ps b -> supp_in ps (bxor a b).
Proof. intros H Ha Hb k Hk. rewrite nth_bxor, (Ha k Hk), (Hb k Hk) by exact H. reflexivity. Qed.

Lemma sel_eq_nth ps u v k : sel ps u = sel ps v -> In k ps -> nth k u false = nth k v false.
Proof.
  induction ps as [|p ps IH]; intros H Hk; [destruct Hk|].
  cbn [sel map] in H. injection H as H0 H. destruct Hk as [->|Hk]; [exact H0|]. apply IH; assumption.
Qed.

Lemma sel_falses ps n : sel ps (falses n) = falses (length ps).
Proof. induction ps as [|p ps IH]; [reflexivity|]. cbn [sel map length falses]. rewrite nth_falses. f_equal. exact IH. Qed.

(* ------------------------------------------------------------------------------------ *)
(** * strings restricted to a window *)

Definition wrestrict (ps : list nat) (p : pstr) : pstr :=
  {| pz := sel ps (pz p); px := sel ps (px p); pq := pq p |}.
Definition psupp (ps : list nat) (p : pstr) : Prop := supp_in ps (pz p) /\ supp_in ps (px p).

Lemma psupp_pmul n ps a b : wfp n a -> wfp n b -> psupp ps a -> psupp ps b -> psupp ps (pmul a b).
Proof.
  intros [Za Xa] [Zb Xb] [Sa Sa'] [Sb Sb']. split; cbn [pmul pz px]; apply supp_bxor; first [assumption | congruence].
Qed.

Lemma restrict_pmul n ps a b : wfp n a -> wfp n b -> NoDup ps -> (forall p, In p ps -> (p < n)%nat) ->
  psupp ps a -> psupp ps b -> wrestrict ps (pmul a b) = pmul (wrestrict ps a) (wrestrict ps b).
Proof.
  intros [Za Xa] [Zb Xb] ND Hlt [Sza Sxa] [Szb Sxb].
  unfold wrestrict, pmul. cbn [pz px pq].
  rewrite !sel_bxor by congruence. f_equal. f_equal. f_equal.
  unfold qprod, dotz.
  rewrite (dot_window ps (pz a) (px a)), (dot_window ps (pz b) (px b)), (dot_window ps (px a) (pz b));
    try assumption; try congruence; try (intros p Hp; rewrite ?Za, ?Xa, ?Zb, ?Xb; apply Hlt; exact Hp).
  rewrite (dot_window ps (bxor (pz a) (pz b)) (bxor (px a) (px b))); try assumption.
  - rewrite !sel_bxor by congruence. reflexivity.
  - intros p Hp. rewrite bxor_length, Za by congruence. apply Hlt; exact Hp.
  - rewrite !bxor_length; congruence.
  - apply supp_bxor; [congruence|assumption|assumption].
Qed.

Lemma restrict_eq n ps a b : wfp n a -> wfp n b -> psupp ps a -> psupp ps b ->
  wrestrict ps a = wrestrict ps b -> a = b.
Proof.
  intros [Za Xa] [Zb Xb] [Sza Sxa] [Szb Sxb] H.
  destruct a as [za xa qa], b as [zb xb qb]. cbn [pz px pq] in *. unfold wrestrict in H. cbn [pz px pq] in H.
  injection H as Hz Hx Hq. subst qb. f_equal.
  - apply list_ext_nth; [congruence|]. intros k.
    destruct (in_dec Nat.eq_dec k ps) as [I|I]; [exact (sel_eq_nth ps za zb k Hz I)|].
    rewrite (Sza k I), (Szb k I). reflexivity.
  - apply list_ext_nth; [congruence|]. intros k.
    destruct (in_dec Nat.eq_dec k ps) as [I|I]; [exact (sel_eq_nth ps xa xb k Hx I)|].
    rewrite (Sxa k I), (Sxb k I). reflexivity.
Qed.

Lemma restrict_identity ps n : wrestrict ps (pidentity n) = pidentity (Z.of_nat (length ps)).
Proof. unfold wrestrict, pidentity. cbn [pz px pq]. rewrite !sel_falses, Nat2Z.id. reflexivity. Qed.

Lemma psupp_identity ps n : psupp ps (pidentity n).
Proof. split; intros k _; cbn; apply nth_falses. Qed.

(* ------------------------------------------------------------------------------------ *)
(** * commutation read off the letters in a window *)

(** a letter as (z-bit, x-bit) *)
Definition lt := (bool * bool)%type.
Definition lI : lt := (false, false).
Definition lX : lt := (false, true).
Definition lY : lt := (true, true).
Definition lZ : lt := (true, false).
Definition letter_at (k : nat) (p : pstr) : lt := (nth k (pz p) false, nth k (px p) false).
(** two letters anticommute *)
Definition symp (a b : lt) : bool := xorb (snd a && fst b) (fst a && snd b).
(** parity of the number of positions at which the letters anticommute *)
Fixpoint scomm (l l' : list lt) : bool :=
  match l, l' with
  | a :: l, b :: l' => xorb (symp a b) (scomm l l')
  | _, _ => false
  end.
Definition letters_at (ps : list nat) (p : pstr) : list lt := map (fun k => letter_at k p) ps.

Lemma even_scomm ps a b :
  Nat.even (dotnat (sel ps (px a)) (sel ps (pz b)) + dotnat (sel ps (pz a)) (sel ps (px b)))
  = negb (scomm (letters_at ps a) (letters_at ps b)).
Proof.
  induction ps as [|p ps IH]; [reflexivity|].
  cbn [sel map dotnat letters_at scomm].
  fold (sel ps (px a)) (sel ps (pz b)) (sel ps (pz a)) (sel ps (px b)) (letters_at ps a) (letters_at ps b).
  set (D1 := dotnat (sel ps (px a)) (sel ps (pz b))) in *. set (D2 := dotnat (sel ps (pz a)) (sel ps (px b))) in *.
  unfold symp, letter_at. cbn [fst snd].
  set (c1 := if nth p (px a) false && nth p (pz b) false then 1%nat else 0%nat).
  set (c2 := if nth p (pz a) false && nth p (px b) false then 1%nat else 0%nat).
  replace (c1 + D1 + (c2 + D2))%nat with ((c1 + c2) + (D1 + D2))%nat by lia.
  rewrite Nat.even_add, IH. unfold c1, c2.
  destruct (nth p (px a) false), (nth p (pz b) false), (nth p (pz a) false), (nth p (px b) false),
    (scomm (letters_at ps a) (letters_at ps b)); reflexivity.
Qed.

(** if [a] is supported on the duplicate-free window [ps], [a] and [b] commute iff the number of
    window positions with anticommuting letters is even *)
Lemma pcommutes_window n ps a b : wfp n a -> wfp n b -> NoDup ps -> (forall p, In p ps -> (p < n)%nat) ->
  psupp ps a -> pcommutes a b = negb (scomm (letters_at ps a) (letters_at ps b)).
Proof.
  intros [Za Xa] [Zb Xb] ND Hlt [Sz Sx].
  rewrite pcommutes_even, (dotb_comm (px b) (pz a)).
  rewrite (dot_window ps (px a) (pz b)), (dot_window ps (pz a) (px b));
    try assumption; try congruence; try (intros p Hp; rewrite ?Za, ?Xa; apply Hlt; exact Hp).
  apply even_scomm.
Qed.

(* ------------------------------------------------------------------------------------ *)
(** * group laws on strings (with phases), any length *)

Definition anti (p p' : pstr) : bool := negb (pcommutes p p').

Lemma pcommutes_sym a b : pcommutes a b = pcommutes b a.
Proof.
  unfold pcommutes. rewrite (dotz_comm (px a) (pz b)), (dotz_comm (pz a) (px b)), Z.add_comm. reflexivity.
Qed.
Lemma anti_sym a b : anti a b = anti b a.
Proof. unfold anti. rewrite pcommutes_sym. reflexivity. Qed.

Lemma dotz_bxor_l (a : list bool) : forall b c, length a = length b -> length a = length c ->
  (dotz (bxor a b) c - dotz a c - dotz b c) mod 2 = 0.
Proof.
  unfold dotz. induction a as [|x a IH]; intros [|y b] [|u c] H1 H2; try discriminate; [reflexivity|].
  cbn in H1, H2. injection H1 as H1. injection H2 as H2. specialize (IH b c H1 H2).
  rewrite bxor_cons. cbn [dotnat]. rewrite !Nat2Z.inj_add.
  destruct x, y, u; cbn [xorb andb]; change (Z.of_nat 1) with 1; change (Z.of_nat 0) with 0; lia.
Qed.
Lemma dotz_bxor_r (a : list bool) b c : length a = length b -> length a = length c ->
  (dotz a (bxor b c) - dotz a b - dotz a c) mod 2 = 0.
Proof.
  intros H1 H2. rewrite (dotz_comm a (bxor b c)), (dotz_comm a b), (dotz_comm a c).
  apply dotz_bxor_l; congruence.
Qed.

(** (anti)commutation is additive over products *)
Lemma anti_pmul_l n a b c : wfp n a -> wfp n b -> wfp n c ->
  anti (pmul a b) c = xorb (anti a c) (anti b c).
Proof.
  intros [Za Xa] [Zb Xb] [Zc Xc]. unfold anti, pcommutes, pmul. cbn [pz px].
  pose proof (dotz_bxor_l (px a) (px b) (pz c) ltac:(congruence) ltac:(congruence)) as P1.
  pose proof (dotz_bxor_l (pz a) (pz b) (px c) ltac:(congruence) ltac:(congruence)) as P2.
  set (A := dotz (bxor (px a) (px b)) (pz c)) in *. set (B := dotz (bxor (pz a) (pz b)) (px c)) in *.
  set (A1 := dotz (px a) (pz c)) in *. set (A2 := dotz (px b) (pz c)) in *.
  set (B1 := dotz (pz a) (px c)) in *. set (B2 := dotz (pz b) (px c)) in *.
  clearbody A B A1 A2 B1 B2.
  destruct ((A + B) mod 2 =? 0) eqn:E; destruct ((A1 + B1) mod 2 =? 0) eqn:E1;
    destruct ((A2 + B2) mod 2 =? 0) eqn:E2; try reflexivity; exfalso;
    rewrite ?Z.eqb_eq, ?Z.eqb_neq in *; lia.
Qed.
Lemma anti_pmul_r n a b c : wfp n a -> wfp n b -> wfp n c ->
  anti c (pmul a b) = xorb (anti c a) (anti c b).
Proof. intros. rewrite anti_sym, (anti_pmul_l n), (anti_sym a c), (anti_sym b c) by assumption. reflexivity. Qed.

Lemma pmul_assoc n a b c : wfp n a -> wfp n b -> wfp n c -> pmul (pmul a b) c = pmul a (pmul b c).
Proof.
  intros [Za Xa] [Zb Xb] [Zc Xc]. unfold pmul. cbn [pz px pq].
  rewrite !bxor_assoc. f_equal. unfold qprod.
  pose proof (dotz_bxor_l (px a) (px b) (pz c) ltac:(congruence) ltac:(congruence)) as P1.
  pose proof (dotz_bxor_r (px a) (pz b) (pz c) ltac:(congruence) ltac:(congruence)) as P2.
  rewrite !bxor_assoc.
  set (Aa := dotz (pz a) (px a)) in *. set (Ab := dotz (pz b) (px b)) in *. set (Ac := dotz (pz c) (px c)) in *.
  set (Aab := dotz (bxor (pz a) (pz b)) (bxor (px a) (px b))) in *.
  set (Abc := dotz (bxor (pz b) (pz c)) (bxor (px b) (px c))) in *.
  set (Aabc := dotz (bxor (pz a) (bxor (pz b) (pz c))) (bxor (px a) (bxor (px b) (px c)))) in *.
  set (D1 := dotz (px a) (pz b)) in *. set (D2 := dotz (bxor (px a) (px b)) (pz c)) in *.
  set (D3 := dotz (px b) (pz c)) in *. set (D4 := dotz (px a) (bxor (pz b) (pz c))) in *.
  set (D5 := dotz (px a) (pz c)) in *.
  clearbody Aa Ab Ac Aab Abc Aabc D1 D2 D3 D4 D5.
  lia.
Qed.

(** commuting strings commute as strings, anticommuting ones up to the sign *)
Lemma pmul_comm n a b : wfp n a -> wfp n b -> pcommutes a b = true -> pmul a b = pmul b a.
Proof.
  intros [Za Xa] [Zb Xb] C. unfold pcommutes in C. apply Z.eqb_eq in C.
  unfold pmul, qprod. rewrite (bxor_comm (pz b)), (bxor_comm (px b)). f_equal.
  rewrite (dotz_comm (pz a) (px b)) in C.
  set (Aa := dotz (pz a) (px a)) in *. set (Ab := dotz (pz b) (px b)) in *.
  set (Aab := dotz (bxor (pz a) (pz b)) (bxor (px a) (px b))) in *.
  set (D1 := dotz (px a) (pz b)) in *. set (D2 := dotz (px b) (pz a)) in *.
  clearbody Aa Ab Aab D1 D2. lia.
Qed.
Lemma pmul_anticomm n a b : wfp n a -> wfp n b -> pcommutes a b = false -> pmul a b = pneg (pmul b a).
Proof.
  intros [Za Xa] [Zb Xb] C. unfold pcommutes in C. apply Z.eqb_neq in C.
  unfold pmul, pneg, qprod. cbn [pz px pq]. rewrite (bxor_comm (pz b)), (bxor_comm (px b)). f_equal.
  rewrite (dotz_comm (pz a) (px b)) in C.
  set (Aa := dotz (pz a) (px a)) in *. set (Ab := dotz (pz b) (px b)) in *.
  set (Aab := dotz (bxor (pz a) (pz b)) (bxor (px a) (px b))) in *.
  set (D1 := dotz (px a) (pz b)) in *. set (D2 := dotz (px b) (pz a)) in *.
  clearbody Aa Ab Aab D1 D2. lia.
Qed.

Lemma pneg_wf n a : wfp n a -> wfp n (pneg a).
Proof. intros W. exact W. Qed.
Lemma pmul_pneg_l a b : pmul (pneg a) b = pneg (pmul a b).
Proof. unfold pmul, pneg. cbn [pz px pq]. f_equal. set (Q := qprod _ _ _ _). clearbody Q. lia. Qed.
Lemma pmul_pneg_r a b : pmul a (pneg b) = pneg (pmul a b).
Proof. unfold pmul, pneg. cbn [pz px pq]. f_equal. set (Q := qprod _ _ _ _). clearbody Q. lia. Qed.
Lemma pneg_pneg_pmul a b : pneg (pneg (pmul a b)) = pmul a b.
Proof. unfold pmul, pneg. cbn [pz px pq]. f_equal. set (Q := qprod _ _ _ _). clearbody Q. lia. Qed.
Lemma pcommutes_pneg_l a b : pcommutes (pneg a) b = pcommutes a b.
Proof. reflexivity. Qed.
Lemma pcommutes_pneg_r a b : pcommutes a (pneg b) = pcommutes a b.
Proof. reflexivity. Qed.

Lemma pcommutes_identity_r n a : pcommutes a (pidentity n) = true.
Proof. unfold pcommutes, pidentity, dotz. cbn [pz px]. rewrite !dotnat_falses_r. reflexivity. Qed.
