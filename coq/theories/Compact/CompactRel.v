(** Decision procedures (on strings) for the relation set R of the compact encoding and for the
    loop products, per lattice shape.  Definitions only; CompactBounded.v evaluates them for all
    shapes r, c <= 6 and lifts the result to Prop-level statements. *)
From Qib Require Export Compact.CompactModel.
Local Open Scope Z_scope.

Definition zrange (n : Z) : list Z := map Z.of_nat (seq 0 (Z.to_nat n)).
Definition coords (r c : Z) : list (Z * Z) := flat_map (fun x => map (pair x) (zrange c)) (zrange r).
Definition dedge := ((Z * Z) * (Z * Z))%type.
Definition dedges (r c : Z) : list dedge :=
  filter (fun e : dedge => is_nn (fst (fst e)) (snd (fst e)) (fst (snd e)) (snd (snd e)))
         (list_prod (coords r c) (coords r c)).

Definition Vof (r c : Z) (v : Z * Z) : option pstr := m_vertex r c (fst v) (snd v).
Definition Eof (r c : Z) (e : dedge) : option pstr :=
  m_edge r c (fst (fst e)) (snd (fst e)) (fst (snd e)) (snd (snd e)).

Definition pneg (p : pstr) : pstr := {| pz := pz p; px := px p; pq := (pq p + 2) mod 4 |}.
Definition veqb (a b : Z * Z) : bool := (fst a =? fst b) && (snd a =? snd b).
Definition shared (e e' : dedge) : nat :=
  ((if veqb (fst e) (fst e') || veqb (fst e) (snd e') then 1 else 0)
   + (if veqb (snd e) (fst e') || veqb (snd e) (snd e') then 1 else 0))%nat.
Definition otest {A} (o : option A) (f : A -> bool) : bool := match o with Some a => f a | None => false end.

(** relation set R on one shape *)
Definition vertex_ok (r c : Z) (v : Z * Z) : bool := otest (Vof r c v) pherm.
Definition edge_ok (r c : Z) (e : dedge) : bool :=
  otest (Eof r c e) (fun E =>
    pherm E
    && peqb (pmul E E) (pidentity (m_nsites r c))
    && otest (Eof r c (snd e, fst e)) (fun E' => peqb E' (pneg E))
    && forallb (fun v => otest (Vof r c v) (fun V =>
          Bool.eqb (pcommutes E V) (negb (veqb v (fst e) || veqb v (snd e))))) (coords r c)
    && forallb (fun e' => otest (Eof r c e') (fun E' =>
          Bool.eqb (pcommutes E E') (negb (Nat.eqb (shared e e') 1)))) (dedges r c)).
Definition rel_ok (r c : Z) : bool :=
  forallb (vertex_ok r c) (coords r c) && forallb (edge_ok r c) (dedges r c).

(** loop products.  corners of the face with lower corner (x, y), in the cyclic order
    (x,y) (x,y+1) (x+1,y+1) (x+1,y) *)
Definition corner (x y : Z) (k : nat) : Z * Z :=
  match Nat.modulo k 4 with
  | O => (x, y) | 1%nat => (x, y + 1) | 2%nat => (x + 1, y + 1) | _ => (x + 1, y)
  end.
Definition omul (a b : option pstr) : option pstr :=
  match a, b with Some p, Some p' => Some (pmul p p') | _, _ => None end.
(** E_{v0 v1} E_{v1 v2} E_{v2 v3} E_{v3 v0} (left-associated products) along v_k = corner(start +- k) *)
Definition loop_var (r c x y : Z) (start : nat) (fwd : bool) : option pstr :=
  let v k := corner x y (if fwd then start + k else start + 4 - k)%nat in
  let E k := Eof r c (v k, v (Datatypes.S k)) in
  omul (omul (omul (E 0%nat) (E 1%nat)) (E 2%nat)) (E 3%nat).
Definition loop (r c x y : Z) : option pstr := loop_var r c x y 0 true.
Definition is_aux (x y : Z) : bool := (x + y) mod 2 =? 0.
Definition faces (r c : Z) : list (Z * Z) := coords (r - 1) (c - 1).

(** every string the encoder can insert on this shape (None: the pair is not an edge) *)
Definition hop_strings (r c : Z) (ij : nat * nat) : list (option pstr) :=
  let E := edge_at r c (fcoord r c (fst ij)) (fcoord r c (snd ij)) in
  [omul E (vertex_at r c (fcoord r c (snd ij))); omul E (vertex_at r c (fcoord r c (fst ij)))].
Definition term_strings (r c : Z) : list (option pstr) :=
  let N := Z.to_nat (r * c) in
  map (fun i => vertex_at r c (fcoord r c i)) (seq 0 N)
  ++ [Some (pidentity (m_nsites r c))]
  ++ flat_map (hop_strings r c) (pairs N).

Definition commutes_opt (L : pstr) (t : option pstr) : bool :=
  match t with Some p => pcommutes p L | None => true end.
Definition nontrivial (p : pstr) : bool := existsb (fun b => b) (pz p) || existsb (fun b => b) (px p).

Definition face_ok (r c : Z) (f : Z * Z) : bool :=
  let '(x, y) := f in
  otest (loop r c x y) (fun L =>
    forallb (fun s => forallb (fun d => otest (loop_var r c x y s d) (fun L' => peqb L' L)) [true; false])
            [0%nat; 1%nat; 2%nat; 3%nat]
    && if is_aux x y then peqb L (pidentity (m_nsites r c))
       else pherm L
            && peqb (pmul L L) (pidentity (m_nsites r c))
            && nontrivial L
            && forallb (fun f' => otest (loop r c (fst f') (snd f')) (fun L' => pcommutes L L')) (faces r c)
            && forallb (commutes_opt L) (term_strings r c)).
Definition loops_ok (r c : Z) : bool := forallb (face_ok r c) (faces r c).

Definition shape_ok (rc : Z * Z) : bool := rel_ok (fst rc) (snd rc) && loops_ok (fst rc) (snd rc).
Definition shapes_upto (m : Z) : list (Z * Z) :=
  flat_map (fun r => map (pair r) (map (Z.add 1) (zrange m))) (map (Z.add 1) (zrange m)).
