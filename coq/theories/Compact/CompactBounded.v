From Qib Require Export Compact.CompactProofs.
