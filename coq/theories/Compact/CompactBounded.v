(** Bounded part of C13: for all lattice shapes r x c with 1 <= r, c <= 6 the relation set R and the
    loop-product statements hold.  One [vm_compute] over the 36 shapes (forallb ... = true), lifted
    to Prop-level statements with forallb_forall, and to matrices with C09's theorems.
    Everything in this file that carries the bound is named [..._bounded]. *)
From Qib Require Export Compact.CompactProofs.
Local Open Scope Z_scope.

Lemma sweep_upto_6 : forallb shape_ok (shapes_upto 6) = true.
Proof. vm_compute. reflexivity. Qed.

(* ------------------------------------------------------------------------------------ *)
(** * membership in the enumerations *)

Lemma zrange_in n x : 0 <= x < n -> In x (zrange n).
Proof.
  intros H. unfold zrange. replace x with (Z.of_nat (Z.to_nat x)) by lia.
  apply in_map. apply in_seq. lia.
Qed.
Lemma zrange_in_inv n x : In x (zrange n) -> 0 <= x < n.
Proof. unfold zrange. intros H. apply in_map_iff in H. destruct H as [k [<- H]]. apply in_seq in H. lia. Qed.

Lemma coords_in r c x y : 0 <= x < r -> 0 <= y < c -> In (x, y) (coords r c).
Proof.
  intros Hx Hy. unfold coords. apply in_flat_map. exists x. split; [apply zrange_in; exact Hx|].
  apply in_map. apply zrange_in. exact Hy.
Qed.

Lemma dedges_in r c ix iy jx jy :
  0 <= ix < r -> 0 <= iy < c -> 0 <= jx < r -> 0 <= jy < c -> is_nn ix iy jx jy = true ->
  In ((ix, iy), (jx, jy)) (dedges r c).
Proof.
  intros. unfold dedges. apply filter_In. split; [|cbn; assumption].
  apply in_prod; apply coords_in; assumption.
Qed.

Lemma shapes_in m r c : 1 <= r <= m -> 1 <= c <= m -> In (r, c) (shapes_upto m).
Proof.
  intros Hr Hc. unfold shapes_upto. apply in_flat_map. exists r. split.
  - replace r with (1 + (r - 1)) by ring. apply in_map. apply zrange_in. lia.
  - apply in_map. replace c with (1 + (c - 1)) by ring. apply in_map. apply zrange_in. lia.
Qed.

Lemma shape_ok_bounded r c : 1 <= r <= 6 -> 1 <= c <= 6 -> rel_ok r c = true /\ loops_ok r c = true.
Proof.
  intros Hr Hc. pose proof sweep_upto_6 as S. rewrite forallb_forall in S.
  specialize (S (r, c) (shapes_in 6 r c Hr Hc)). unfold shape_ok in S. cbn [fst snd] in S.
  apply andb_true_iff in S. exact S.
Qed.

Lemma otest_true {A} (o : option A) f : otest o f = true -> exists a, o = Some a /\ f a = true.
Proof. destruct o as [a|]; cbn; [|discriminate]. intros H. exists a. auto. Qed.

(* ------------------------------------------------------------------------------------ *)
(** * relation set R: edge-edge relations (the edge-vertex ones hold for every shape, see
      CompactProofs.edge_vertex_commutation) *)

Lemma edge_some_in r c ix iy jx jy E : m_edge r c ix iy jx jy = Some E ->
  In ((ix, iy), (jx, jy)) (dedges r c).
Proof.
  intros H. destruct (edge_inv _ _ _ _ _ _ _ H) as [ii [jj [ff [NN [Ri [Rj _]]]]]].
  apply ravel_some in Ri, Rj. apply dedges_in; try lia. exact NN.
Qed.

(** {E_ij, E_jk} = 0 for edges sharing exactly one vertex, [E_ij, E_kl] = 0 for disjoint edges
    (and for an edge with itself or its reverse) *)
Theorem R_edge_edge_bounded r c : 1 <= r <= 6 -> 1 <= c <= 6 ->
  forall ix iy jx jy kx ky lx ly E E',
    m_edge r c ix iy jx jy = Some E -> m_edge r c kx ky lx ly = Some E' ->
    pcommutes E E' = negb (Nat.eqb (shared ((ix, iy), (jx, jy)) ((kx, ky), (lx, ly))) 1).
Proof.
  intros Hr Hc ix iy jx jy kx ky lx ly E E' HE HE'.
  destruct (shape_ok_bounded r c Hr Hc) as [R _]. unfold rel_ok in R.
  apply andb_true_iff in R. destruct R as [_ R]. rewrite forallb_forall in R.
  specialize (R _ (edge_some_in _ _ _ _ _ _ _ HE)). unfold edge_ok in R.
  apply otest_true in R. destruct R as [E0 [E0e R]]. unfold Eof in E0e. cbn [fst snd] in E0e.
  rewrite HE in E0e. injection E0e as <-.
  apply andb_true_iff in R. destruct R as [_ R]. rewrite forallb_forall in R.
  specialize (R _ (edge_some_in _ _ _ _ _ _ _ HE')).
  apply otest_true in R. destruct R as [E1 [E1e R]]. unfold Eof in E1e. cbn [fst snd] in E1e.
  rewrite HE' in E1e. injection E1e as <-. apply Bool.eqb_prop in R. exact R.
Qed.

(** E_ij^2 = 1 on strings (the general statement for any Hermitian string is pmul_self below) *)
Lemma bxor_self a : bxor a a = falses (length a).
Proof. induction a as [|x a IH]; [reflexivity|]. rewrite bxor_cons, IH, xorb_nilpotent. reflexivity. Qed.

Lemma pmul_self n p : wfp n p -> pq p mod 2 = 0 ->
  pmul p p = pidentity (Z.of_nat n).
Proof.
  intros [Hz Hx] Hq. unfold pmul, pidentity, qprod. rewrite !bxor_self, Hz, Hx, Nat2Z.id, falses_dot.
  f_equal. rewrite (dotz_comm (px p) (pz p)).
  set (A := dotz (pz p) (px p)). clearbody A.
  Ltac Zify.zify_post_hook ::= Z.to_euclidean_division_equations.
  lia.
Qed.

(* ------------------------------------------------------------------------------------ *)
(** * loop products *)

Lemma omul_some a b p : omul a b = Some p -> exists u v, a = Some u /\ b = Some v /\ p = pmul u v.
Proof. destruct a as [u|], b as [v|]; cbn; try discriminate. intros H; injection H as <-. exists u, v. auto. Qed.

Lemma loop_var_inv r c x y s d Lp : loop_var r c x y s d = Some Lp ->
  exists E1 E2 E3 E4,
    wfp (nq r c) E1 /\ wfp (nq r c) E2 /\ wfp (nq r c) E3 /\ wfp (nq r c) E4 /\
    Lp = pmul (pmul (pmul E1 E2) E3) E4 /\
    let v k := corner x y (if d then s + k else s + 4 - k)%nat in
    Eof r c (v 0%nat, v 1%nat) = Some E1 /\ Eof r c (v 1%nat, v 2%nat) = Some E2 /\
    Eof r c (v 2%nat, v 3%nat) = Some E3 /\ Eof r c (v 3%nat, v 4%nat) = Some E4.
Proof.
  unfold loop_var. cbv zeta. intros H.
  apply omul_some in H. destruct H as [u3 [E4 [H [H4 ->]]]].
  apply omul_some in H. destruct H as [u2 [E3 [H [H3 ->]]]].
  apply omul_some in H. destruct H as [E1 [E2 [H1 [H2 ->]]]].
  exists E1, E2, E3, E4.
  repeat split; auto; try (eapply edge_wf; unfold Eof in *; eassumption).
Qed.

Lemma loop_var_wf r c x y s d Lp : loop_var r c x y s d = Some Lp -> wfp (nq r c) Lp.
Proof.
  intros H. destruct (loop_var_inv _ _ _ _ _ _ _ H) as [E1 [E2 [E3 [E4 [W1 [W2 [W3 [W4 [-> _]]]]]]]]].
  repeat apply pmul_wf; assumption.
Qed.

Lemma loop_wf r c x y Lp : loop r c x y = Some Lp -> wfp (nq r c) Lp.
Proof. exact (loop_var_wf r c x y 0%nat true Lp). Qed.

Lemma faces_in r c x y : 0 <= x < r - 1 -> 0 <= y < c - 1 -> In (x, y) (faces r c).
Proof. intros. unfold faces. apply coords_in; assumption. Qed.
Lemma faces_in_inv r c x y : In (x, y) (faces r c) -> 0 <= x < r - 1 /\ 0 <= y < c - 1.
Proof.
  unfold faces, coords. intros H. apply in_flat_map in H. destruct H as [x' [Hx H]].
  apply in_map_iff in H. destruct H as [y' [E Hy]]. injection E as -> ->.
  split; apply zrange_in_inv; assumption.
Qed.

Lemma nq_nsites r c : 1 <= r -> 1 <= c -> Z.of_nat (nq r c) = m_nsites r c.
Proof. intros Hr Hc. unfold nq. pose proof (nsites_ge r c Hr Hc). nia. Qed.

(** the loop product around every face, on strings:
    - does not depend on the starting corner nor on the direction;
    - is the identity string on faces with an auxiliary qubit ((x + y) even);
    - elsewhere is a non-trivial Hermitian involution commuting with every other loop product and
      with every string the encoder can insert on this shape *)
Theorem loops_bounded r c : 1 <= r <= 6 -> 1 <= c <= 6 ->
  forall x y, 0 <= x < r - 1 -> 0 <= y < c - 1 ->
  exists Lp, loop r c x y = Some Lp /\ wfp (nq r c) Lp /\
    (forall s d, (s < 4)%nat -> loop_var r c x y s d = Some Lp) /\
    (is_aux x y = true -> Lp = pidentity (m_nsites r c)) /\
    (is_aux x y = false ->
       pherm Lp = true /\ pmul Lp Lp = pidentity (m_nsites r c) /\ nontrivial Lp = true /\
       (forall x' y' Lp', 0 <= x' < r - 1 -> 0 <= y' < c - 1 -> loop r c x' y' = Some Lp' ->
                          pcommutes Lp Lp' = true) /\
       (forall t p, In t (term_strings r c) -> t = Some p -> pcommutes p Lp = true)).
Proof.
  intros Hr Hc x y Hx Hy.
  destruct (shape_ok_bounded r c Hr Hc) as [_ R]. unfold loops_ok in R. rewrite forallb_forall in R.
  specialize (R _ (faces_in r c x y Hx Hy)). unfold face_ok in R.
  apply otest_true in R. destruct R as [Lp [HL R]]. exists Lp.
  apply andb_true_iff in R. destruct R as [Rv R].
  split; [exact HL|]. split; [exact (loop_wf r c x y Lp HL)|]. split; [|split].
  - intros s d Hs. rewrite forallb_forall in Rv.
    assert (Hin : In s [0; 1; 2; 3]%nat) by (cbn; lia).
    specialize (Rv s Hin). rewrite forallb_forall in Rv.
    assert (Hd : In d [true; false]) by (destruct d; cbn; auto).
    specialize (Rv d Hd). apply otest_true in Rv. destruct Rv as [L' [E' Q]].
    apply peqb_eq in Q. subst L'. exact E'.
  - intros A. rewrite A in R. apply peqb_eq in R. exact R.
  - intros A. rewrite A in R.
    apply andb_true_iff in R. destruct R as [R R5]. apply andb_true_iff in R. destruct R as [R R4].
    apply andb_true_iff in R. destruct R as [R R3]. apply andb_true_iff in R. destruct R as [R1 R2].
    split; [exact R1|]. split; [apply peqb_eq; exact R2|]. split; [exact R3|]. split.
    + intros x' y' Lp' Hx' Hy' HL'. rewrite forallb_forall in R4.
      specialize (R4 _ (faces_in r c x' y' Hx' Hy')). cbn [fst snd] in R4. rewrite HL' in R4. exact R4.
    + intros t p Ht ->. rewrite forallb_forall in R5. exact (R5 _ Ht).
Qed.

(* ------------------------------------------------------------------------------------ *)
(** * the same at the level of matrices (every commutative *-ring with i*i = -1) *)
Section Matrices.
  Context {K : Scalar} {L : ScalarLaws K}.
  Local Open Scope K_scope.
  Add Ring KringCb : (s_ring K L).

  Definition commM (n : nat) (A B : BMx K) : Prop := meq n (mmul n A B) (mmul n B A).

  (** every string the encoder can insert is well-formed *)
  Lemma term_strings_wf r c t p : In t (term_strings r c) -> t = Some p -> wfp (nq r c) p.
  Proof.
    unfold term_strings. intros H ->. apply in_app_or in H. destruct H as [H|H].
    - apply in_map_iff in H. destruct H as [i [H _]].
      destruct (vertex_at_some _ _ _ _ H) as [x [y [_ HV]]]. apply (vertex_wf _ _ _ _ _ HV).
    - destruct H as [H|H]; [injection H as <-; apply pidentity_wf|].
      apply in_flat_map in H. destruct H as [[i j] [_ H]]. unfold hop_strings in H. cbn [fst snd] in H.
      destruct H as [H|[H|[]]]; apply omul_some in H; destruct H as [E [V [HE [HV ->]]]];
        destruct (edge_at_some _ _ _ _ _ HE) as [ix [iy [jx [jy [_ [_ HE']]]]]];
        destruct (vertex_at_some _ _ _ _ HV) as [x [y [_ HV']]];
        apply pmul_wf; [apply (edge_wf _ _ _ _ _ _ _ HE')|apply (vertex_wf _ _ _ _ _ HV')
                       |apply (edge_wf _ _ _ _ _ _ _ HE')|apply (vertex_wf _ _ _ _ _ HV')].
  Qed.

  (** the matrix of a loop string is the product of the four edge-operator matrices around the face *)
  Theorem loop_matrix_is_product r c x y Lp : loop r c x y = Some Lp ->
    exists E1 E2 E3 E4,
      Eof r c ((x, y), (x, y + 1))%Z = Some E1 /\ Eof r c ((x, y + 1), (x + 1, y + 1))%Z = Some E2 /\
      Eof r c ((x + 1, y + 1), (x + 1, y))%Z = Some E3 /\ Eof r c ((x + 1, y), (x, y))%Z = Some E4 /\
      meq (K:=K) (nq r c) (pmatrix Lp)
          (mmul (nq r c) (mmul (nq r c) (mmul (nq r c) (pmatrix E1) (pmatrix E2)) (pmatrix E3)) (pmatrix E4)).
  Proof.
    intros H. destruct (loop_var_inv r c x y 0%nat true Lp H) as [E1 [E2 [E3 [E4 [W1 [W2 [W3 [W4 [-> [A [B [C D]]]]]]]]]]]].
    cbn in A, B, C, D. exists E1, E2, E3, E4. repeat split; auto.
    set (n := nq r c) in *.
    eapply meq_trans; [apply (pmul_matrix n); [repeat apply pmul_wf; assumption|assumption]|].
    apply mmul_meq; [|apply meq_refl].
    eapply meq_trans; [apply (pmul_matrix n); [apply pmul_wf; assumption|assumption]|].
    apply mmul_meq; [|apply meq_refl]. apply (pmul_matrix n); assumption.
  Qed.

  (** loop products as matrices *)
  Theorem loop_matrices_bounded r c : (1 <= r <= 6)%Z -> (1 <= c <= 6)%Z ->
    forall x y, (0 <= x < r - 1)%Z -> (0 <= y < c - 1)%Z ->
    exists Lp, loop r c x y = Some Lp /\
      (is_aux x y = true -> meq (K:=K) (nq r c) (pmatrix Lp) mid) /\
      (is_aux x y = false ->
         hermitian (K:=K) (nq r c) (pmatrix Lp) /\
         meq (K:=K) (nq r c) (mmul (nq r c) (pmatrix Lp) (pmatrix Lp)) mid /\
         (forall x' y' Lp', (0 <= x' < r - 1)%Z -> (0 <= y' < c - 1)%Z -> loop r c x' y' = Some Lp' ->
                            commM (nq r c) (pmatrix Lp) (pmatrix Lp'))).
  Proof.
    intros Hr Hc x y Hx Hy.
    destruct (loops_bounded r c Hr Hc x y Hx Hy) as [Lp [HL [W [_ [A B]]]]].
    exists Lp. split; [exact HL|]. split.
    - intros Ha. rewrite (A Ha). intros rr cc Hrr Hcc. apply pidentity_matrix; unfold nq in *; assumption.
    - intros Ha. destruct (B Ha) as [B1 [B2 [_ [B4 _]]]]. split; [|split].
      + apply pherm_sound. exact B1.
      + eapply meq_trans; [apply meq_sym; apply (pmul_matrix (nq r c)); assumption|].
        rewrite B2. intros rr cc Hrr Hcc. apply pidentity_matrix; unfold nq in *; assumption.
      + intros x' y' Lp' Hx' Hy' HL'. apply pcommutes_sound; auto.
        * apply (loop_wf r c x' y' Lp' HL').
        * apply (B4 x' y' Lp' Hx' Hy' HL').
  Qed.

  (** the encoded operator commutes with the loop product around every face *)
  Theorem encoded_commutes_with_loops_bounded r c : (1 <= r <= 6)%Z -> (1 <= c <= 6)%Z ->
    forall (half : K) isz symb (hs : list (coeffs (K:=K))) op,
      encode half isz symb r c hs = Some op ->
      forall x y Lp, (0 <= x < r - 1)%Z -> (0 <= y < c - 1)%Z -> loop r c x y = Some Lp ->
        commM (nq r c) (opmatrix op) (pmatrix Lp).
  Proof.
    intros Hr Hc half isz symb hs op H x y Lp Hx Hy HL.
    destruct (loops_bounded r c Hr Hc x y Hx Hy) as [Lp0 [HL0 [W [_ [A B]]]]].
    rewrite HL in HL0. injection HL0 as <-.
    apply opmatrix_commutes; [exact W|].
    apply (encode_strings half isz symb (fun p => wfp (nq r c) p /\ pcommutes p Lp = true) r c hs op); [|exact H].
    intros t p Ht Hp. split; [exact (term_strings_wf r c t p Ht Hp)|].
    destruct (is_aux x y) eqn:Ha.
    - rewrite (A eq_refl). unfold pcommutes, pidentity. cbn [pz px].
      unfold dotz. rewrite !dotnat_falses_r. reflexivity.
    - destruct (B eq_refl) as [_ [_ [_ [_ B5]]]]. exact (B5 t p Ht Hp).
  Qed.
End Matrices.
