From Qib Require Export Compact.CompactModel.
