(** Proofs about the compact-encoding model that hold for EVERY lattice shape:
    well-formedness and Hermiticity of E_ij / V_j, E_ji = -E_ij, {E_ij, V_i} = {E_ij, V_j} = 0,
    [E_ij, V_k] = 0, the closed form of the assembled operator and its Hermiticity for real
    coefficients, and the index round trips of the face-centred lattice. *)
From Qib Require Export Compact.CompactRel Pauli.PauliProofs2.
Ltac Zify.zify_post_hook ::= Z.to_euclidean_division_equations.
Local Open Scope Z_scope.

(* ------------------------------------------------------------------------------------ *)
(** * lists: upd, falses, dot products with one-hot vectors *)

Lemma upd_length {A} k (v : A) l : length (upd k v l) = length l.
Proof. revert k; induction l as [|h t IH]; intros [|k]; cbn; auto. Qed.

Lemma nth_upd {A} k j (v d : A) l :
  nth k (upd j v l) d = if Nat.eqb k j && Nat.ltb j (length l) then v else nth k l d.
Proof.
  revert k j; induction l as [|h t IH]; intros k j.
  - destruct j; cbn; rewrite andb_false_r; reflexivity.
  - destruct j as [|j], k as [|k]; cbn [upd nth length]; try reflexivity.
    rewrite IH. change (Nat.eqb (Datatypes.S k) (Datatypes.S j)) with (Nat.eqb k j).
    change (Nat.ltb (Datatypes.S j) (Datatypes.S (length t))) with (Nat.ltb j (length t)). reflexivity.
Qed.

Lemma falses_length n : length (falses n) = n.
Proof. induction n; cbn; congruence. Qed.
Lemma nth_falses n k : nth k (falses n) false = false.
Proof. revert k; induction n; intros [|k]; cbn; auto. Qed.
Lemma falses_zeros n : falses n = zeros n.
Proof. induction n; cbn; congruence. Qed.

Lemma list_ext_nth (a b : list bool) :
  length a = length b -> (forall k, nth k a false = nth k b false) -> a = b.
Proof.
  revert b; induction a as [|x a IH]; intros [|y b] Hl H; try discriminate; [reflexivity|].
  f_equal; [exact (H O)|]. apply IH; [cbn in Hl; lia|]. intros k. exact (H (Datatypes.S k)).
Qed.

Lemma upd_false_falses k n : upd k false (falses n) = falses n.
Proof.
  apply list_ext_nth; [apply upd_length|]. intros j. rewrite nth_upd, nth_falses.
  destruct (_ && _); reflexivity.
Qed.

Lemma dotnat_falses_r a n : dotnat a (falses n) = 0%nat.
Proof. revert n; induction a as [|x a IH]; intros [|n]; cbn; auto. rewrite andb_false_r, IH. reflexivity. Qed.
Lemma dotnat_falses_l a n : dotnat (falses n) a = 0%nat.
Proof. revert a; induction n as [|n IH]; intros [|x a]; cbn; auto. Qed.

(** dot product with a one-hot vector reads one entry *)
Lemma dotnat_onehot a : forall k n, length a = n ->
  dotnat a (upd k true (falses n)) = if nth k a false then 1%nat else 0%nat.
Proof.
  induction a as [|x a IH]; intros k n Hl.
  - cbn. destruct k; reflexivity.
  - destruct n as [|n]; [discriminate|]. cbn in Hl. injection Hl as Hl.
    destruct k as [|k]; cbn [falses upd dotnat nth].
    + rewrite dotnat_falses_r, andb_true_r. destruct x; reflexivity.
    + rewrite andb_false_r, (IH k n Hl). reflexivity.
Qed.

(* ------------------------------------------------------------------------------------ *)
(** * build: what string a descriptor stands for *)

Definition in_n (n i : Z) : Prop := 0 <= i < n.

Lemma arg_step_some n z x s i z' x' :
  arg_step n (Some (z, x)) (s, i) = Some (z', x') ->
  in_n n i /\ z' = upd (Z.to_nat i) (letter_z s) z /\ x' = upd (Z.to_nat i) (letter_x s) x.
Proof.
  unfold arg_step, in_n. destruct (i <? 0) eqn:E1; [discriminate|]. destruct (n <=? i) eqn:E2; [discriminate|].
  cbn. intros H. injection H as <- <-. repeat split; lia.
Qed.

Lemma fold_arg_none n l : fold_left (arg_step n) l None = None.
Proof. induction l; cbn; auto. Qed.
Lemma fold_set_none n l : fold_left (set_step n) l None = None.
Proof. induction l; cbn; auto. Qed.

(** a descriptor with two from_single_paulis arguments and at most one later set_pauli *)
Definition sets_of (f s : Z) : list (Z * Z) := if f =? -1 then [] else [(s, f)].

Lemma build_two n l1 a l2 b q s f p :
  build n {| d_args := [(l1, a); (l2, b)]; d_q := q; d_sets := sets_of f s |} = Some p ->
  f = -1 \/ 0 <= f ->
  in_n n a /\ in_n n b /\ (f = -1 \/ in_n n f) /\
  pq p = q mod 4 /\
  length (pz p) = Z.to_nat n /\ length (px p) = Z.to_nat n /\
  (forall k, nth k (px p) false =
     if (f =? -1) then
       (if Nat.eqb k (Z.to_nat b) then letter_x l2 else if Nat.eqb k (Z.to_nat a) then letter_x l1 else false)
     else if Nat.eqb k (Z.to_nat f) then letter_x s
     else if Nat.eqb k (Z.to_nat b) then letter_x l2 else if Nat.eqb k (Z.to_nat a) then letter_x l1 else false) /\
  (forall k, nth k (pz p) false =
     if (f =? -1) then
       (if Nat.eqb k (Z.to_nat b) then letter_z l2 else if Nat.eqb k (Z.to_nat a) then letter_z l1 else false)
     else if Nat.eqb k (Z.to_nat f) then letter_z s
     else if Nat.eqb k (Z.to_nat b) then letter_z l2 else if Nat.eqb k (Z.to_nat a) then letter_z l1 else false).
Proof.
  intros H Hf. unfold build in H. cbn [d_args d_sets d_q fold_left] in H.
  destruct (arg_step n (Some (falses (Z.to_nat n), falses (Z.to_nat n))) (l1, a)) as [[z1 x1]|] eqn:A1;
    [|cbn in H; rewrite fold_set_none in H; discriminate].
  apply arg_step_some in A1. destruct A1 as [Ia [-> ->]].
  destruct (arg_step n _ (l2, b)) as [[z2 x2]|] eqn:A2; [|rewrite fold_set_none in H; discriminate].
  apply arg_step_some in A2. destruct A2 as [Ib [-> ->]].
  unfold sets_of in H. unfold in_n in *.
  assert (Ta : (Z.to_nat a <? Z.to_nat n)%nat = true) by (apply Nat.ltb_lt; lia).
  assert (Tb : (Z.to_nat b <? Z.to_nat n)%nat = true) by (apply Nat.ltb_lt; lia).
  destruct (f =? -1) eqn:Ef.
  - cbn [fold_left] in H. injection H as <-. cbn [pz px pq].
    repeat split; try lia; try (rewrite !upd_length, falses_length; reflexivity); try (left; lia);
      intros k; rewrite !nth_upd, !upd_length, falses_length, nth_falses, Ta, Tb, !andb_true_r; reflexivity.
  - cbn [fold_left set_step] in H.
    destruct (f <? - n) eqn:F1; [cbn in H; discriminate|]. destruct (n <=? f) eqn:F2; [cbn in H; discriminate|].
    cbn [orb] in H. injection H as <-. cbn [pz px pq].
    assert (Ff : 0 <= f < n) by lia.
    assert (Tf : (Z.to_nat f <? Z.to_nat n)%nat = true) by (apply Nat.ltb_lt; lia).
    rewrite (Z.mod_small f n) by lia.
    repeat split; try lia; try (rewrite !upd_length, falses_length; reflexivity); try (right; lia);
      intros k; rewrite !nth_upd, !upd_length, falses_length, nth_falses, Ta, Tb, Tf, !andb_true_r; reflexivity.
Qed.

(* ------------------------------------------------------------------------------------ *)
(** * edge -> face lookup: symmetric in the two endpoints; result is -1 or an index >= r*c *)

Lemma is_nn_sym ix iy jx jy : is_nn jx jy ix iy = is_nn ix iy jx jy.
Proof.
  unfold is_nn. rewrite (Z.eqb_sym jx ix), (Z.eqb_sym jy iy).
  replace (jy - iy) with (- (iy - jy)) by ring. replace (jx - ix) with (- (ix - jx)) by ring.
  rewrite !Z.abs_opp. reflexivity.
Qed.

Lemma is_nn_cases ix iy jx jy : is_nn ix iy jx jy = true ->
  (ix = jx /\ (jy = iy + 1 \/ jy = iy - 1)) \/ (iy = jy /\ (jx = ix + 1 \/ jx = ix - 1)).
Proof.
  unfold is_nn. intros H. apply orb_true_iff in H. destruct H as [H|H];
    apply andb_true_iff in H; destruct H as [H1 H2]; apply Z.eqb_eq in H1, H2; lia.
Qed.

Lemma edge_face_xy_sym ix iy jx jy : m_edge_face_xy jx jy ix iy = m_edge_face_xy ix iy jx jy.
Proof.
  unfold m_edge_face_xy. rewrite (Z.min_comm jx ix), (Z.min_comm jy iy), (Z.eqb_sym jx ix). reflexivity.
Qed.

Lemma edge_face_sym r c ix iy jx jy : m_edge_face r c jx jy ix iy = m_edge_face r c ix iy jx jy.
Proof.
  unfold m_edge_face. rewrite is_nn_sym, edge_face_xy_sym, (Z.min_comm jx ix), (Z.min_comm jy iy). reflexivity.
Qed.

Lemma face_offset_nonneg x y w : 0 <= x -> 0 <= y -> 0 <= w -> 0 <= (x * w + 1) / 2 + y / 2.
Proof. intros. assert (0 <= x * w) by nia. set (p := x * w) in *. clearbody p. lia. Qed.

Lemma edge_face_range r c ix iy jx jy f :
  m_edge_face r c ix iy jx jy = Some f -> f = -1 \/ r * c <= f.
Proof.
  unfold m_edge_face. destruct (negb _); [discriminate|]. cbv zeta.
  destruct (_ || _ || _ || _); [discriminate|].
  destruct (m_edge_face_xy ix iy jx jy) as [x y].
  destruct ((x <? 0) || (y <? 0) || (r - 1 <=? x) || (c - 1 <=? y)) eqn:E; intros H; injection H as <-; [left; reflexivity|right].
  apply orb_false_iff in E. destruct E as [E E4]. apply orb_false_iff in E. destruct E as [E E3].
  apply orb_false_iff in E. destruct E as [E1 E2].
  pose proof (face_offset_nonneg x y (c - 1)). lia.
Qed.

(* ------------------------------------------------------------------------------------ *)
(** * the orientation table *)

Ltac fin_form :=
  repeat match goal with
         | |- _ /\ _ => split
         | |- letter_x _ = true => first [reflexivity | exact (eq_refl : letter_x 1 = true)]
         | |- _ = _ => reflexivity
         | |- (_ /\ _) \/ _ => first [left; split; reflexivity | right; split; reflexivity]
         | |- _ \/ _ => first [left; reflexivity | right; reflexivity]
         end.

Lemma edge_desc_form ii jj ff ix iy jx jy d :
  m_edge_desc ii jj ff ix iy jx jy = Some d ->
  exists l1 a l2 b q s,
    d = {| d_args := [(l1, a); (l2, b)]; d_q := q; d_sets := sets_of ff s |}
    /\ ((a = ii /\ b = jj) \/ (a = jj /\ b = ii))
    /\ letter_x l1 = true /\ letter_x l2 = true /\ letter_x s = true /\ (q = 0 \/ q = 2).
Proof.
  unfold m_edge_desc, sets_of, mkdesc, desc_set.
  destruct (negb (is_nn ix iy jx jy)); [discriminate|].
  destruct (ix =? jx).
  - cbv zeta. intros H. injection H as <-.
    destruct (_ || _); destruct (ff =? -1); cbn [negb d_args d_q d_sets app];
      do 6 eexists; (split; [reflexivity|]); fin_form.
  - destruct (iy =? jy); [|discriminate]. cbv zeta. intros H. injection H as <-.
    destruct (iy mod 2 =? 0); [destruct (jx <? ix)|destruct (ix <? jx)]; destruct (ff =? -1);
      cbn [negb d_args d_q d_sets app]; do 6 eexists; (split; [reflexivity|]); fin_form.
Qed.

(** swapping the endpoints gives the same letters and the opposite sign *)
Lemma edge_desc_swap ii jj ff ix iy jx jy d :
  is_nn ix iy jx jy = true ->
  m_edge_desc ii jj ff ix iy jx jy = Some d ->
  m_edge_desc jj ii ff jx jy ix iy
  = Some {| d_args := d_args d; d_q := (d_q d + 2) mod 4; d_sets := d_sets d |}.
Proof.
  intros NN. pose proof (is_nn_cases _ _ _ _ NN) as C.
  unfold m_edge_desc. rewrite (is_nn_sym ix iy jx jy), NN. cbn [negb]. cbv zeta.
  rewrite (Z.eqb_sym jx ix), (Z.eqb_sym jy iy).
  pose proof (Z.mod_pos_bound ix 2 ltac:(lia)) as Mx. pose proof (Z.mod_pos_bound iy 2 ltac:(lia)) as My.
  destruct (ix =? jx) eqn:Ex.
  - apply Z.eqb_eq in Ex. subst jx.
    destruct (ix mod 2 =? 0) eqn:P0; destruct (ix mod 2 =? 1) eqn:P1;
      destruct (jy <? iy) eqn:L1; destruct (iy <? jy) eqn:L2; try lia;
      cbn [andb orb]; intros H; injection H as <-; destruct (ff =? -1); reflexivity.
  - destruct (iy =? jy) eqn:Ey; [|discriminate]. apply Z.eqb_eq in Ey. subst jy.
    destruct (iy mod 2 =? 0) eqn:P0; destruct (jx <? ix) eqn:L1; destruct (ix <? jx) eqn:L2; try lia;
      intros H; injection H as <-; destruct (ff =? -1); reflexivity.
Qed.

(* ------------------------------------------------------------------------------------ *)
(** * V_j and E_ij as strings, every shape *)

Definition nq (r c : Z) : nat := Z.to_nat (m_nsites r c).

Lemma ravel_some r c x y k : np_ravel2 r c x y = Some k ->
  0 <= x < r /\ 0 <= y < c /\ k = x * c + y /\ 0 <= k < r * c.
Proof.
  unfold np_ravel2. destruct (0 <=? x) eqn:A; destruct (x <? r) eqn:B; destruct (0 <=? y) eqn:C;
    destruct (y <? c) eqn:D; cbn; try discriminate. intros H; injection H as <-.
  apply Z.leb_le in A, C. apply Z.ltb_lt in B, D.
  assert (x * c <= (r - 1) * c) by nia. assert (0 <= x * c) by nia.
  repeat split; lia.
Qed.

Lemma ravel_inj r c x y x' y' k :
  np_ravel2 r c x y = Some k -> np_ravel2 r c x' y' = Some k -> x = x' /\ y = y'.
Proof.
  intros H H'. apply ravel_some in H, H'.
  destruct H as [Hx [Hy [-> _]]], H' as [Hx' [Hy' [E _]]].
  assert (x = x') by nia. subst. split; [reflexivity|lia].
Qed.

(** V_j = Z on qubit j, identity elsewhere, q = 0 *)
Lemma vertex_inv r c x y V : m_vertex r c x y = Some V ->
  exists k, np_ravel2 r c x y = Some k /\ 0 <= k < m_nsites r c /\
    pz V = upd (Z.to_nat k) true (falses (nq r c)) /\ px V = falses (nq r c) /\ pq V = 0.
Proof.
  unfold m_vertex, m_coord_to_index, obind.
  destruct (np_ravel2 r c x y) as [k|] eqn:R; [|discriminate].
  unfold m_vertex_desc, build, mkdesc. cbn [d_args d_q d_sets fold_left].
  destruct (arg_step _ _ _) as [[z1 x1]|] eqn:A; [|discriminate].
  apply arg_step_some in A. destruct A as [Ik [-> ->]].
  intros H; injection H as <-. exists k. cbn [pz px pq]. unfold in_n in Ik.
  repeat split; try lia; try reflexivity.
  change (letter_x 3) with false. apply upd_false_falses.
Qed.

Lemma vertex_wf r c x y V : m_vertex r c x y = Some V -> wfp (nq r c) V /\ pherm V = true.
Proof.
  intros H. destruct (vertex_inv _ _ _ _ _ H) as [k [_ [_ [Hz [Hx Hq]]]]].
  unfold wfp, pherm. rewrite Hz, Hx, Hq, upd_length, falses_length. repeat split.
Qed.

(** E_ij: X / Y on the two endpoints (x-bit set on both), a letter with x-bit set on the face
    qubit when there is one, q in {0, 2} *)
Lemma edge_inv r c ix iy jx jy E : m_edge r c ix iy jx jy = Some E ->
  exists ii jj ff,
    is_nn ix iy jx jy = true /\
    np_ravel2 r c ix iy = Some ii /\ np_ravel2 r c jx jy = Some jj /\
    m_edge_face r c ix iy jx jy = Some ff /\ (ff = -1 \/ (r * c <= ff /\ ff < m_nsites r c)) /\
    wfp (nq r c) E /\ (pq E = 0 \/ pq E = 2) /\
    (forall k, nth k (px E) false =
       Nat.eqb k (Z.to_nat ii) || Nat.eqb k (Z.to_nat jj) || (negb (ff =? -1) && Nat.eqb k (Z.to_nat ff))).
Proof.
  unfold m_edge. destruct (is_nn ix iy jx jy) eqn:NN; [|discriminate]. cbn [negb].
  unfold m_coord_to_index, obind.
  destruct (np_ravel2 r c ix iy) as [ii|] eqn:Ri; [|discriminate].
  destruct (np_ravel2 r c jx jy) as [jj|] eqn:Rj; [|discriminate].
  destruct (m_edge_face r c ix iy jx jy) as [ff|] eqn:F; [|discriminate].
  destruct (m_edge_desc ii jj ff ix iy jx jy) as [d|] eqn:D; [|discriminate].
  intros B. exists ii, jj, ff.
  destruct (edge_desc_form _ _ _ _ _ _ _ _ D) as [l1 [a [l2 [b [q [s [-> [AB [X1 [X2 [Xs Q]]]]]]]]]]].
  pose proof (edge_face_range _ _ _ _ _ _ _ F) as FR.
  pose proof (ravel_some _ _ _ _ _ Ri) as [_ [_ [_ Bi]]].
  pose proof (ravel_some _ _ _ _ _ Rj) as [_ [_ [_ Bj]]].
  apply build_two in B; [|lia].
  destruct B as [Ia [Ib [If [Hq [Lz [Lx [Nx _]]]]]]]. unfold in_n in *.
  repeat split; auto.
  - destruct FR as [->|FR]; [left; reflexivity|right]. lia.
  - rewrite Hq. destruct Q as [-> | ->]; [left|right]; reflexivity.
  - intros k. rewrite Nx, X1, X2, Xs.
    destruct (ff =? -1) eqn:Ef; cbn [negb andb]; rewrite ?orb_false_r;
      destruct AB as [[-> ->]|[-> ->]];
      destruct (Nat.eqb k (Z.to_nat ii)), (Nat.eqb k (Z.to_nat jj)), (Nat.eqb k (Z.to_nat ff)); reflexivity.
Qed.

Lemma edge_wf r c ix iy jx jy E : m_edge r c ix iy jx jy = Some E -> wfp (nq r c) E /\ pherm E = true.
Proof.
  intros H. destruct (edge_inv _ _ _ _ _ _ _ H) as [ii [jj [ff [_ [_ [_ [_ [_ [W [Q _]]]]]]]]]].
  split; [exact W|]. unfold pherm. destruct Q as [-> | ->]; reflexivity.
Qed.

(** E_ji = - E_ij (same letters, q shifted by 2) *)
Theorem edge_swap r c ix iy jx jy E :
  m_edge r c ix iy jx jy = Some E -> m_edge r c jx jy ix iy = Some (pneg E).
Proof.
  unfold m_edge. destruct (is_nn ix iy jx jy) eqn:NN; [|discriminate]. rewrite is_nn_sym, NN. cbn [negb].
  unfold m_coord_to_index, obind.
  destruct (np_ravel2 r c ix iy) as [ii|] eqn:Ri; [|discriminate].
  destruct (np_ravel2 r c jx jy) as [jj|] eqn:Rj; [|discriminate].
  rewrite (edge_face_sym r c ix iy jx jy).
  destruct (m_edge_face r c ix iy jx jy) as [ff|] eqn:F; [|discriminate].
  destruct (m_edge_desc ii jj ff ix iy jx jy) as [d|] eqn:D; [|discriminate].
  rewrite (edge_desc_swap _ _ _ _ _ _ _ _ NN D).
  unfold build. cbn [d_args d_q d_sets].
  destruct (fold_left (set_step _) _ _) as [[z x]|]; [|discriminate].
  intros H; injection H as <-. unfold pneg. cbn [pz px pq]. f_equal. f_equal.
  rewrite Z.mod_mod by lia. rewrite Zplus_mod_idemp_l. reflexivity.
Qed.

(** {E_ij, V_i} = {E_ij, V_j} = 0 and [E_ij, V_k] = 0 for every other vertex, decided on strings *)
Theorem edge_vertex_commutation r c ix iy jx jy kx ky E V :
  m_edge r c ix iy jx jy = Some E -> m_vertex r c kx ky = Some V ->
  pcommutes E V = negb (((kx =? ix) && (ky =? iy)) || ((kx =? jx) && (ky =? jy))).
Proof.
  intros HE HV.
  destruct (edge_inv _ _ _ _ _ _ _ HE) as [ii [jj [ff [NN [Ri [Rj [_ [FR [[_ Lx] [_ Nx]]]]]]]]]].
  destruct (vertex_inv _ _ _ _ _ HV) as [k [Rk [Bk [Hz [Hx _]]]]].
  unfold pcommutes, dotz. rewrite Hz, Hx, dotnat_falses_r.
  rewrite (dotnat_onehot (px E) (Z.to_nat k) (nq r c) Lx), Nx.
  pose proof (ravel_some _ _ _ _ _ Ri) as [Bix [Biy [Ei Bi]]].
  pose proof (ravel_some _ _ _ _ _ Rj) as [Bjx [Bjy [Ej Bj]]].
  pose proof (ravel_some _ _ _ _ _ Rk) as [Bkx [Bky [_ Bkk]]].
  assert (Ff : negb (ff =? -1) && Nat.eqb (Z.to_nat k) (Z.to_nat ff) = false).
  { destruct FR as [->|FR]; [reflexivity|]. apply andb_false_iff. right. apply Nat.eqb_neq. lia. }
  rewrite Ff, orb_false_r.
  assert (A : Nat.eqb (Z.to_nat k) (Z.to_nat ii) = (kx =? ix) && (ky =? iy)).
  { destruct ((kx =? ix) && (ky =? iy)) eqn:T.
    - apply andb_true_iff in T. destruct T as [T1 T2]. apply Z.eqb_eq in T1, T2. subst kx ky.
      rewrite Ri in Rk. injection Rk as <-. apply Nat.eqb_refl.
    - apply Nat.eqb_neq. intros C. assert (Hk : k = ii) by lia. rewrite Hk in Rk.
      destruct (ravel_inj _ _ _ _ _ _ _ Rk Ri) as [-> ->]. rewrite !Z.eqb_refl in T. discriminate. }
  assert (B : Nat.eqb (Z.to_nat k) (Z.to_nat jj) = (kx =? jx) && (ky =? jy)).
  { destruct ((kx =? jx) && (ky =? jy)) eqn:T.
    - apply andb_true_iff in T. destruct T as [T1 T2]. apply Z.eqb_eq in T1, T2. subst kx ky.
      rewrite Rj in Rk. injection Rk as <-. apply Nat.eqb_refl.
    - apply Nat.eqb_neq. intros C. assert (Hk : k = jj) by lia. rewrite Hk in Rk.
      destruct (ravel_inj _ _ _ _ _ _ _ Rk Rj) as [-> ->]. rewrite !Z.eqb_refl in T. discriminate. }
  rewrite A, B. destruct (_ || _); reflexivity.
Qed.
