(** Proofs about the compact-encoding model that hold for EVERY lattice shape:
    well-formedness and Hermiticity of E_ij / V_j, E_ji = -E_ij, {E_ij, V_i} = {E_ij, V_j} = 0,
    [E_ij, V_k] = 0, the closed form of the assembled operator and its Hermiticity for real
    coefficients, and the index round trips of the face-centred lattice. *)
From Qib Require Export Pauli.PauliProofs2.
From Qib Require Export Compact.CompactRel.
Ltac Zify.zify_post_hook ::= Z.to_euclidean_division_equations.
Local Open Scope Z_scope.

(* ------------------------------------------------------------------------------------ *)
(** * lists: lupd, falses, dot products with one-hot vectors *)

Lemma lupd_length {A} k (v : A) l : length (lupd k v l) = length l.
Proof. revert k; induction l as [|h t IH]; intros [|k]; cbn; auto. Qed.

Lemma nth_lupd {A} k j (v d : A) l :
  nth k (lupd j v l) d = if Nat.eqb k j && Nat.ltb j (length l) then v else nth k l d.
Proof.
  revert k j; induction l as [|h t IH]; intros k j.
  - destruct j; cbn; rewrite andb_false_r; reflexivity.
  - destruct j as [|j], k as [|k]; cbn [lupd nth length]; try reflexivity.
    rewrite IH. change (Nat.eqb (Datatypes.S k) (Datatypes.S j)) with (Nat.eqb k j).
    change (Nat.ltb (Datatypes.S j) (Datatypes.S (length t))) with (Nat.ltb j (length t)). reflexivity.
Qed.

Lemma falses_length n : length (falses n) = n.
Proof. induction n; cbn; congruence. Qed.
Lemma nth_falses n k : nth k (falses n) false = false.
Proof. revert k; induction n; intros [|k]; cbn; auto. Qed.
Lemma falses_zeros n : falses n = zeros n.
Proof. induction n; cbn; congruence. Qed.

Lemma list_ext_nth (a b : list bool) :
  length a = length b -> (forall k, nth k a false = nth k b false) -> a = b.
Proof.
  revert b; induction a as [|x a IH]; intros [|y b] Hl H; try discriminate; [reflexivity|].
  f_equal; [exact (H O)|]. apply IH; [cbn in Hl; lia|]. intros k. exact (H (Datatypes.S k)).
Qed.

Lemma lupd_false_falses k n : lupd k false (falses n) = falses n.
Proof.
  apply list_ext_nth; [apply lupd_length|]. intros j. rewrite nth_lupd, nth_falses.
  destruct (_ && _); reflexivity.
Qed.

Lemma dotnat_falses_r a n : dotnat a (falses n) = 0%nat.
Proof. revert n; induction a as [|x a IH]; intros [|n]; cbn; auto. rewrite andb_false_r, IH. reflexivity. Qed.
Lemma dotnat_falses_l a n : dotnat (falses n) a = 0%nat.
Proof. revert a; induction n as [|n IH]; intros [|x a]; cbn; auto. Qed.

(** dot product with a one-hot vector reads one entry *)
Lemma dotnat_onehot a : forall k n, length a = n ->
  dotnat a (lupd k true (falses n)) = if nth k a false then 1%nat else 0%nat.
Proof.
  induction a as [|x a IH]; intros k n Hl.
  - cbn. destruct k; reflexivity.
  - destruct n as [|n]; [discriminate|]. cbn in Hl. injection Hl as Hl.
    destruct k as [|k]; cbn [falses lupd dotnat nth].
    + rewrite dotnat_falses_r, andb_true_r. destruct x; reflexivity.
    + rewrite andb_false_r, (IH k n Hl). reflexivity.
Qed.

(* ------------------------------------------------------------------------------------ *)
(** * build: what string a descriptor stands for *)

Definition in_n (n i : Z) : Prop := 0 <= i < n.

Lemma arg_step_some n z x s i z' x' :
  arg_step n (Some (z, x)) (s, i) = Some (z', x') ->
  in_n n i /\ z' = lupd (Z.to_nat i) (letter_z s) z /\ x' = lupd (Z.to_nat i) (letter_x s) x.
Proof.
  unfold arg_step, in_n. destruct (i <? 0) eqn:E1; [discriminate|]. destruct (n <=? i) eqn:E2; [discriminate|].
  cbn. intros H. injection H as <- <-. repeat split; lia.
Qed.

Lemma fold_arg_none n l : fold_left (arg_step n) l None = None.
Proof. induction l; cbn; auto. Qed.
Lemma fold_set_none n l : fold_left (set_step n) l None = None.
Proof. induction l; cbn; auto. Qed.

(** a descriptor with two from_single_paulis arguments and at most one later set_pauli *)
Definition sets_of (f s : Z) : list (Z * Z) := if f =? -1 then [] else [(s, f)].

Lemma build_two n l1 a l2 b q s f p :
  build n {| d_args := [(l1, a); (l2, b)]; d_q := q; d_sets := sets_of f s |} = Some p ->
  f = -1 \/ 0 <= f ->
  in_n n a /\ in_n n b /\ (f = -1 \/ in_n n f) /\
  pq p = q mod 4 /\
  length (pz p) = Z.to_nat n /\ length (px p) = Z.to_nat n /\
  (forall k, nth k (px p) false =
     if (f =? -1) then
       (if Nat.eqb k (Z.to_nat b) then letter_x l2 else if Nat.eqb k (Z.to_nat a) then letter_x l1 else false)
     else if Nat.eqb k (Z.to_nat f) then letter_x s
     else if Nat.eqb k (Z.to_nat b) then letter_x l2 else if Nat.eqb k (Z.to_nat a) then letter_x l1 else false) /\
  (forall k, nth k (pz p) false =
     if (f =? -1) then
       (if Nat.eqb k (Z.to_nat b) then letter_z l2 else if Nat.eqb k (Z.to_nat a) then letter_z l1 else false)
     else if Nat.eqb k (Z.to_nat f) then letter_z s
     else if Nat.eqb k (Z.to_nat b) then letter_z l2 else if Nat.eqb k (Z.to_nat a) then letter_z l1 else false).
Proof.
  intros H Hf. unfold build in H. cbn [d_args d_sets d_q fold_left] in H.
  destruct (arg_step n (Some (falses (Z.to_nat n), falses (Z.to_nat n))) (l1, a)) as [[z1 x1]|] eqn:A1;
    [|cbn in H; rewrite fold_set_none in H; discriminate].
  apply arg_step_some in A1. destruct A1 as [Ia [-> ->]].
  destruct (arg_step n _ (l2, b)) as [[z2 x2]|] eqn:A2; [|rewrite fold_set_none in H; discriminate].
  apply arg_step_some in A2. destruct A2 as [Ib [-> ->]].
  unfold sets_of in H. unfold in_n in *.
  assert (Ta : (Z.to_nat a <? Z.to_nat n)%nat = true) by (apply Nat.ltb_lt; lia).
  assert (Tb : (Z.to_nat b <? Z.to_nat n)%nat = true) by (apply Nat.ltb_lt; lia).
  destruct (f =? -1) eqn:Ef.
  - cbn [fold_left] in H. injection H as <-. cbn [pz px pq].
    repeat split; try lia; try (rewrite !lupd_length, falses_length; reflexivity); try (left; lia);
      intros k; rewrite !nth_lupd, !lupd_length, falses_length, nth_falses, Ta, Tb, !andb_true_r; reflexivity.
  - cbn [fold_left set_step] in H.
    destruct (f <? - n) eqn:F1; [cbn in H; discriminate|]. destruct (n <=? f) eqn:F2; [cbn in H; discriminate|].
    cbn [orb] in H. injection H as <-. cbn [pz px pq].
    assert (Ff : 0 <= f < n) by lia.
    assert (Tf : (Z.to_nat f <? Z.to_nat n)%nat = true) by (apply Nat.ltb_lt; lia).
    rewrite (Z.mod_small f n) by lia.
    repeat split; try lia; try (rewrite !lupd_length, falses_length; reflexivity); try (right; lia);
      intros k; rewrite !nth_lupd, !lupd_length, falses_length, nth_falses, Ta, Tb, Tf, !andb_true_r; reflexivity.
Qed.

(* ------------------------------------------------------------------------------------ *)
(** * edge -> face lookup: symmetric in the two endpoints; result is -1 or an index >= r*c *)

Lemma is_nn_sym ix iy jx jy : is_nn jx jy ix iy = is_nn ix iy jx jy.
Proof.
  unfold is_nn. rewrite (Z.eqb_sym jx ix), (Z.eqb_sym jy iy).
  replace (jy - iy) with (- (iy - jy)) by ring. replace (jx - ix) with (- (ix - jx)) by ring.
  rewrite !Z.abs_opp. reflexivity.
Qed.

Lemma is_nn_cases ix iy jx jy : is_nn ix iy jx jy = true ->
  (ix = jx /\ (jy = iy + 1 \/ jy = iy - 1)) \/ (iy = jy /\ (jx = ix + 1 \/ jx = ix - 1)).
Proof.
  unfold is_nn. intros H. apply orb_true_iff in H. destruct H as [H|H];
    apply andb_true_iff in H; destruct H as [H1 H2]; apply Z.eqb_eq in H1, H2; lia.
Qed.

Lemma edge_face_xy_sym ix iy jx jy : m_edge_face_xy jx jy ix iy = m_edge_face_xy ix iy jx jy.
Proof.
  unfold m_edge_face_xy. rewrite (Z.min_comm jx ix), (Z.min_comm jy iy), (Z.eqb_sym jx ix). reflexivity.
Qed.

Lemma edge_face_sym r c ix iy jx jy : m_edge_face r c jx jy ix iy = m_edge_face r c ix iy jx jy.
Proof.
  unfold m_edge_face. rewrite is_nn_sym, edge_face_xy_sym, (Z.min_comm jx ix), (Z.min_comm jy iy). reflexivity.
Qed.

Lemma face_offset_nonneg x y w : 0 <= x -> 0 <= y -> 0 <= w -> 0 <= (x * w + 1) / 2 + y / 2.
Proof. intros. assert (0 <= x * w) by nia. set (p := x * w) in *. clearbody p. lia. Qed.

Lemma edge_face_range r c ix iy jx jy f :
  m_edge_face r c ix iy jx jy = Some f -> f = -1 \/ r * c <= f.
Proof.
  unfold m_edge_face. destruct (negb _); [discriminate|]. cbv zeta.
  destruct (_ || _ || _ || _); [discriminate|].
  destruct (m_edge_face_xy ix iy jx jy) as [x y].
  destruct ((x <? 0) || (y <? 0) || (r - 1 <=? x) || (c - 1 <=? y)) eqn:E; intros H; injection H as <-; [left; reflexivity|right].
  apply orb_false_iff in E. destruct E as [E E4]. apply orb_false_iff in E. destruct E as [E E3].
  apply orb_false_iff in E. destruct E as [E1 E2].
  pose proof (face_offset_nonneg x y (c - 1)). lia.
Qed.

(* ------------------------------------------------------------------------------------ *)
(** * the orientation table *)

Ltac fin_form :=
  repeat match goal with
         | |- _ /\ _ => split
         | |- letter_x _ = true => first [reflexivity | exact (eq_refl : letter_x 1 = true)]
         | |- _ = _ => reflexivity
         | |- (_ /\ _) \/ _ => first [left; split; reflexivity | right; split; reflexivity]
         | |- _ \/ _ => first [left; reflexivity | right; reflexivity]
         end.

Lemma edge_desc_form ii jj ff ix iy jx jy d :
  m_edge_desc ii jj ff ix iy jx jy = Some d ->
  exists l1 a l2 b q s,
    d = {| d_args := [(l1, a); (l2, b)]; d_q := q; d_sets := sets_of ff s |}
    /\ ((a = ii /\ b = jj) \/ (a = jj /\ b = ii))
    /\ letter_x l1 = true /\ letter_x l2 = true /\ letter_x s = true /\ (q = 0 \/ q = 2).
Proof.
  unfold m_edge_desc, sets_of, mkdesc, desc_set.
  destruct (negb (is_nn ix iy jx jy)); [discriminate|].
  destruct (ix =? jx).
  - cbv zeta. intros H. injection H as <-.
    destruct (_ || _); destruct (ff =? -1); cbn [negb d_args d_q d_sets app];
      do 6 eexists; (split; [reflexivity|]); fin_form.
  - destruct (iy =? jy); [|discriminate]. cbv zeta. intros H. injection H as <-.
    destruct (iy mod 2 =? 0); [destruct (jx <? ix)|destruct (ix <? jx)]; destruct (ff =? -1);
      cbn [negb d_args d_q d_sets app]; do 6 eexists; (split; [reflexivity|]); fin_form.
Qed.

(** swapping the endpoints gives the same letters and the opposite sign *)
Lemma edge_desc_swap ii jj ff ix iy jx jy d :
  is_nn ix iy jx jy = true ->
  m_edge_desc ii jj ff ix iy jx jy = Some d ->
  m_edge_desc jj ii ff jx jy ix iy
  = Some {| d_args := d_args d; d_q := (d_q d + 2) mod 4; d_sets := d_sets d |}.
Proof.
  intros NN. pose proof (is_nn_cases _ _ _ _ NN) as C.
  unfold m_edge_desc. rewrite (is_nn_sym ix iy jx jy), NN. cbn [negb]. cbv zeta.
  rewrite (Z.eqb_sym jx ix), (Z.eqb_sym jy iy).
  pose proof (Z.mod_pos_bound ix 2 ltac:(lia)) as Mx. pose proof (Z.mod_pos_bound iy 2 ltac:(lia)) as My.
  destruct (ix =? jx) eqn:Ex.
  - apply Z.eqb_eq in Ex. subst jx.
    destruct (ix mod 2 =? 0) eqn:P0; destruct (ix mod 2 =? 1) eqn:P1;
      destruct (jy <? iy) eqn:L1; destruct (iy <? jy) eqn:L2; try lia;
      cbn [andb orb]; intros H; injection H as <-; destruct (ff =? -1); reflexivity.
  - destruct (iy =? jy) eqn:Ey; [|discriminate]. apply Z.eqb_eq in Ey. subst jy.
    destruct (iy mod 2 =? 0) eqn:P0; destruct (jx <? ix) eqn:L1; destruct (ix <? jx) eqn:L2; try lia;
      intros H; injection H as <-; destruct (ff =? -1); reflexivity.
Qed.

(* ------------------------------------------------------------------------------------ *)
(** * V_j and E_ij as strings, every shape *)

Definition nq (r c : Z) : nat := Z.to_nat (m_nsites r c).

Lemma ravel_some r c x y k : np_ravel2 r c x y = Some k ->
  0 <= x < r /\ 0 <= y < c /\ k = x * c + y /\ 0 <= k < r * c.
Proof.
  unfold np_ravel2. destruct (0 <=? x) eqn:A; destruct (x <? r) eqn:B; destruct (0 <=? y) eqn:C;
    destruct (y <? c) eqn:D; cbn; try discriminate. intros H; injection H as <-.
  apply Z.leb_le in A, C. apply Z.ltb_lt in B, D.
  assert (x * c <= (r - 1) * c) by nia. assert (0 <= x * c) by nia.
  repeat split; lia.
Qed.

Lemma ravel_inj r c x y x' y' k :
  np_ravel2 r c x y = Some k -> np_ravel2 r c x' y' = Some k -> x = x' /\ y = y'.
Proof.
  intros H H'. apply ravel_some in H, H'.
  destruct H as [Hx [Hy [-> _]]], H' as [Hx' [Hy' [E _]]].
  assert (x = x') by nia. subst. split; [reflexivity|lia].
Qed.

(** V_j = Z on qubit j, identity elsewhere, q = 0 *)
Lemma vertex_inv r c x y V : m_vertex r c x y = Some V ->
  exists k, np_ravel2 r c x y = Some k /\ 0 <= k < m_nsites r c /\
    pz V = lupd (Z.to_nat k) true (falses (nq r c)) /\ px V = falses (nq r c) /\ pq V = 0.
Proof.
  unfold m_vertex, m_coord_to_index, obind.
  destruct (np_ravel2 r c x y) as [k|] eqn:R; [|discriminate].
  unfold m_vertex_desc, build, mkdesc. cbn [d_args d_q d_sets fold_left].
  destruct (arg_step _ _ _) as [[z1 x1]|] eqn:A; [|discriminate].
  apply arg_step_some in A. destruct A as [Ik [-> ->]].
  intros H; injection H as <-. exists k. cbn [pz px pq]. unfold in_n in Ik.
  repeat split; try lia; try reflexivity.
  change (letter_x 3) with false. apply lupd_false_falses.
Qed.

Lemma vertex_wf r c x y V : m_vertex r c x y = Some V -> wfp (nq r c) V /\ pherm V = true.
Proof.
  intros H. destruct (vertex_inv _ _ _ _ _ H) as [k [_ [_ [Hz [Hx Hq]]]]].
  unfold wfp, pherm. rewrite Hz, Hx, Hq, lupd_length, falses_length. repeat split.
Qed.

(** E_ij: X / Y on the two endpoints (x-bit set on both), a letter with x-bit set on the face
    qubit when there is one, q in {0, 2} *)
Lemma edge_inv r c ix iy jx jy E : m_edge r c ix iy jx jy = Some E ->
  exists ii jj ff,
    is_nn ix iy jx jy = true /\
    np_ravel2 r c ix iy = Some ii /\ np_ravel2 r c jx jy = Some jj /\
    m_edge_face r c ix iy jx jy = Some ff /\ (ff = -1 \/ (r * c <= ff /\ ff < m_nsites r c)) /\
    wfp (nq r c) E /\ (pq E = 0 \/ pq E = 2) /\
    (forall k, nth k (px E) false =
       Nat.eqb k (Z.to_nat ii) || Nat.eqb k (Z.to_nat jj) || (negb (ff =? -1) && Nat.eqb k (Z.to_nat ff))).
Proof.
  unfold m_edge. destruct (is_nn ix iy jx jy) eqn:NN; [|discriminate]. cbn [negb].
  unfold m_coord_to_index, obind.
  destruct (np_ravel2 r c ix iy) as [ii|] eqn:Ri; [|discriminate].
  destruct (np_ravel2 r c jx jy) as [jj|] eqn:Rj; [|discriminate].
  destruct (m_edge_face r c ix iy jx jy) as [ff|] eqn:F; [|discriminate].
  destruct (m_edge_desc ii jj ff ix iy jx jy) as [d|] eqn:D; [|discriminate].
  intros B. exists ii, jj, ff.
  destruct (edge_desc_form _ _ _ _ _ _ _ _ D) as [l1 [a [l2 [b [q [s [-> [AB [X1 [X2 [Xs Q]]]]]]]]]]].
  pose proof (edge_face_range _ _ _ _ _ _ _ F) as FR.
  pose proof (ravel_some _ _ _ _ _ Ri) as [_ [_ [_ Bi]]].
  pose proof (ravel_some _ _ _ _ _ Rj) as [_ [_ [_ Bj]]].
  apply build_two in B; [|lia].
  destruct B as [Ia [Ib [If [Hq [Lz [Lx [Nx _]]]]]]]. unfold in_n in *.
  repeat split; auto.
  - destruct FR as [->|FR]; [left; reflexivity|right]. lia.
  - rewrite Hq. destruct Q as [-> | ->]; [left|right]; reflexivity.
  - intros k. rewrite Nx, X1, X2, Xs.
    destruct (ff =? -1) eqn:Ef; cbn [negb andb]; rewrite ?orb_false_r;
      destruct AB as [[-> ->]|[-> ->]];
      destruct (Nat.eqb k (Z.to_nat ii)), (Nat.eqb k (Z.to_nat jj)), (Nat.eqb k (Z.to_nat ff)); reflexivity.
Qed.

Lemma edge_wf r c ix iy jx jy E : m_edge r c ix iy jx jy = Some E -> wfp (nq r c) E /\ pherm E = true.
Proof.
  intros H. destruct (edge_inv _ _ _ _ _ _ _ H) as [ii [jj [ff [_ [_ [_ [_ [_ [W [Q _]]]]]]]]]].
  split; [exact W|]. unfold pherm. destruct Q as [-> | ->]; reflexivity.
Qed.

(** E_ji = - E_ij (same letters, q shifted by 2) *)
Theorem edge_swap r c ix iy jx jy E :
  m_edge r c ix iy jx jy = Some E -> m_edge r c jx jy ix iy = Some (pneg E).
Proof.
  unfold m_edge. destruct (is_nn ix iy jx jy) eqn:NN; [|discriminate]. rewrite is_nn_sym, NN. cbn [negb].
  unfold m_coord_to_index, obind.
  destruct (np_ravel2 r c ix iy) as [ii|] eqn:Ri; [|discriminate].
  destruct (np_ravel2 r c jx jy) as [jj|] eqn:Rj; [|discriminate].
  rewrite (edge_face_sym r c ix iy jx jy).
  destruct (m_edge_face r c ix iy jx jy) as [ff|] eqn:F; [|discriminate].
  destruct (m_edge_desc ii jj ff ix iy jx jy) as [d|] eqn:D; [|discriminate].
  rewrite (edge_desc_swap _ _ _ _ _ _ _ _ NN D).
  unfold build. cbn [d_args d_q d_sets].
  destruct (fold_left (set_step _) _ _) as [[z x]|]; [|discriminate].
  intros H; injection H as <-. unfold pneg. cbn [pz px pq]. f_equal. f_equal.
  rewrite Z.mod_mod by lia. rewrite Zplus_mod_idemp_l. reflexivity.
Qed.

(** {E_ij, V_i} = {E_ij, V_j} = 0 and [E_ij, V_k] = 0 for every other vertex, decided on strings *)
Theorem edge_vertex_commutation r c ix iy jx jy kx ky E V :
  m_edge r c ix iy jx jy = Some E -> m_vertex r c kx ky = Some V ->
  pcommutes E V = negb (((kx =? ix) && (ky =? iy)) || ((kx =? jx) && (ky =? jy))).
Proof.
  intros HE HV.
  destruct (edge_inv _ _ _ _ _ _ _ HE) as [ii [jj [ff [NN [Ri [Rj [_ [FR [[_ Lx] [_ Nx]]]]]]]]]].
  destruct (vertex_inv _ _ _ _ _ HV) as [k [Rk [Bk [Hz [Hx _]]]]].
  unfold pcommutes, dotz. rewrite Hz, Hx, dotnat_falses_r.
  rewrite (dotnat_onehot (px E) (Z.to_nat k) (nq r c) Lx), Nx.
  pose proof (ravel_some _ _ _ _ _ Ri) as [Bix [Biy [Ei Bi]]].
  pose proof (ravel_some _ _ _ _ _ Rj) as [Bjx [Bjy [Ej Bj]]].
  pose proof (ravel_some _ _ _ _ _ Rk) as [Bkx [Bky [_ Bkk]]].
  assert (Ff : negb (ff =? -1) && Nat.eqb (Z.to_nat k) (Z.to_nat ff) = false).
  { destruct FR as [->|FR]; [reflexivity|]. apply andb_false_iff. right. apply Nat.eqb_neq. lia. }
  rewrite Ff, orb_false_r.
  assert (A : Nat.eqb (Z.to_nat k) (Z.to_nat ii) = (kx =? ix) && (ky =? iy)).
  { destruct ((kx =? ix) && (ky =? iy)) eqn:T.
    - apply andb_true_iff in T. destruct T as [T1 T2]. apply Z.eqb_eq in T1, T2. subst kx ky.
      rewrite Ri in Rk. injection Rk as <-. apply Nat.eqb_refl.
    - apply Nat.eqb_neq. intros C. assert (Hk : k = ii) by lia. rewrite Hk in Rk.
      destruct (ravel_inj _ _ _ _ _ _ _ Rk Ri) as [-> ->]. rewrite !Z.eqb_refl in T. discriminate. }
  assert (B : Nat.eqb (Z.to_nat k) (Z.to_nat jj) = (kx =? jx) && (ky =? jy)).
  { destruct ((kx =? jx) && (ky =? jy)) eqn:T.
    - apply andb_true_iff in T. destruct T as [T1 T2]. apply Z.eqb_eq in T1, T2. subst kx ky.
      rewrite Rj in Rk. injection Rk as <-. apply Nat.eqb_refl.
    - apply Nat.eqb_neq. intros C. assert (Hk : k = jj) by lia. rewrite Hk in Rk.
      destruct (ravel_inj _ _ _ _ _ _ _ Rk Rj) as [-> ->]. rewrite !Z.eqb_refl in T. discriminate. }
  rewrite A, B. destruct (_ || _); reflexivity.
Qed.

(* ------------------------------------------------------------------------------------ *)
(** * general facts about strings used below (any length) *)

Lemma dot_bxor_parity (a : list bool) : forall b c d,
  length a = length b -> length a = length c -> length a = length d ->
  (dotz (bxor a b) (bxor c d) - dotz a c - dotz a d - dotz b c - dotz b d) mod 2 = 0.
Proof.
  unfold dotz. induction a as [|x a IH]; intros [|y b] [|u c] [|v d] H1 H2 H3; try discriminate; [reflexivity|].
  cbn in H1, H2, H3. injection H1 as H1. injection H2 as H2. injection H3 as H3.
  specialize (IH b c d H1 H2 H3).
  rewrite !bxor_cons. cbn [dotnat]. rewrite !Nat2Z.inj_add.
  destruct x, y, u, v; cbn [xorb andb]; change (Z.of_nat 1) with 1; change (Z.of_nat 0) with 0; lia.
Qed.

Lemma dotz_comm a b : dotz a b = dotz b a.
Proof. unfold dotz. rewrite dotb_comm. reflexivity. Qed.

(** parity of q of a product: sum of the parities plus one iff the factors anticommute *)
Lemma pmul_parity n p p' : wfp n p -> wfp n p' ->
  pq (pmul p p') mod 2 = (pq p + pq p' + (if pcommutes p p' then 0 else 1)) mod 2.
Proof.
  intros [Hz Hx] [Hz' Hx'].
  pose proof (dot_bxor_parity (pz p) (pz p') (px p) (px p') ltac:(congruence) ltac:(congruence) ltac:(congruence)) as P.
  unfold pmul, qprod, pcommutes. cbn [pq].
  rewrite (dotz_comm (pz p') (px p)) in P.
  set (A := dotz (pz p) (px p)) in *. set (B := dotz (pz p') (px p')) in *.
  set (C := dotz (bxor (pz p) (pz p')) (bxor (px p) (px p'))) in *.
  set (D := dotz (px p) (pz p')) in *. set (F := dotz (pz p) (px p')) in *.
  clearbody A B C D F.
  destruct ((D + F) mod 2 =? 0) eqn:E; [apply Z.eqb_eq in E|apply Z.eqb_neq in E]; lia.
Qed.

Lemma falses_dot n : dotz (falses n) (falses n) = 0.
Proof. unfold dotz. rewrite dotnat_falses_r. reflexivity. Qed.

Lemma pidentity_wf n : wfp (Z.to_nat n) (pidentity n).
Proof. split; apply falses_length. Qed.

Section MatFacts.
  Context {K : Scalar} {L : ScalarLaws K}.
  Local Open Scope K_scope.
  Add Ring KringCp : (s_ring K L).

  Lemma zx_falses n : forall r c, length r = n -> length c = n ->
    zx_mat (falses n) (falses n) r c = (if beq r c then 1 else 0) :> K.
  Proof.
    induction n as [|n IH]; intros [|rb r] [|cb c] Hr Hc; try discriminate; [reflexivity|].
    cbn in Hr, Hc. injection Hr as Hr. injection Hc as Hc.
    cbn [falses zx_mat beq]. rewrite (IH r c Hr Hc).
    destruct rb, cb; cbn; destruct (beq r c); ring.
  Qed.

  (** the identity string has the identity matrix *)
  Lemma pidentity_matrix n r c : length r = Z.to_nat n -> length c = Z.to_nat n ->
    pmatrix (pidentity n) r c = mid r c :> K.
  Proof.
    intros Hr Hc. unfold pmatrix, pidentity, mid. cbn [pz px pq].
    rewrite falses_dot, (zx_falses _ r c Hr Hc). cbn. ring.
  Qed.

  (** a string with odd q has an anti-Hermitian matrix *)
  Lemma panti_sound p r c : pq p mod 2 = 1%Z -> (pmatrix p c r)^* = - pmatrix p r c :> K.
  Proof.
    intros H. rewrite !pmatrix_kron, (conj_mul K L), letters_mat_herm, (conj_mipz_odd _ H). ring.
  Qed.
  Lemma pherm_entry p r c : pq p mod 2 = 0%Z -> (pmatrix p c r)^* = pmatrix p r c :> K.
  Proof.
    intros H. rewrite !pmatrix_kron, (conj_mul K L), letters_mat_herm, (conj_mipz_even _ H). ring.
  Qed.

  (** anticommuting strings have anticommuting matrices *)
  Theorem panticommutes_sound n p p' : wfp n p -> wfp n p' -> pcommutes p p' = false ->
    forall r c, length r = n -> length c = n ->
      mmul n (pmatrix p) (pmatrix p') r c = - mmul n (pmatrix p') (pmatrix p) r c :> K.
  Proof.
    intros W W' Hc r c Hr Hcc.
    rewrite !(mmul_pmatrix n) by assumption.
    rewrite pcommutes_even in Hc.
    assert (S : sgn (dotb (px p) (pz p')) = - sgn (dotb (px p') (pz p)) :> K).
    { unfold sgn. rewrite Nat.even_add in Hc.
      destruct (Nat.even (dotb (px p) (pz p'))), (Nat.even (dotb (px p') (pz p))); try discriminate; ring. }
    rewrite S, (bxor_comm (pz p')), (bxor_comm (px p')). ring.
  Qed.

  (* ---------- operators: Hermiticity invariant ---------- *)
  (** a weighted string is "Hermitian as a term": real weight on an even-q string or purely
      imaginary weight on an odd-q string *)
  Definition wH (w : wstr (K:=K)) : Prop :=
    (pq (fst w) mod 2 = 0%Z /\ (snd w)^* = snd w) \/ (pq (fst w) mod 2 = 1%Z /\ (snd w)^* = - snd w).

  Lemma wH_entry w r c : wH w -> (wmatrix w c r)^* = wmatrix w r c.
  Proof.
    unfold wmatrix. intros [[Hq Hw]|[Hq Hw]]; rewrite (conj_mul K L), Hw.
    - rewrite (pherm_entry _ r c Hq). reflexivity.
    - rewrite (panti_sound _ r c Hq). ring.
  Qed.

  Lemma opmatrix_herm op : Forall wH op -> forall r c, (opmatrix op c r)^* = opmatrix op r c.
  Proof.
    induction 1 as [|w op Hw _ IH]; intros r c; [apply (conj_0 K L)|].
    rewrite !opmatrix_cons, (conj_add K L), IH, (wH_entry _ r c Hw). reflexivity.
  Qed.

  Lemma add_wH op ps : Forall wH op -> wH ps -> Forall wH (add_pauli_string op ps).
  Proof.
    induction 1 as [|w op Hw Hop IH]; intros Hps; cbn [add_pauli_string]; [constructor; auto|].
    destruct (peqb (fst w) (fst ps)) eqn:E.
    - constructor; [|exact Hop]. apply peqb_eq in E. unfold wH in *. cbn [fst snd]. rewrite <- E in Hps.
      destruct Hw as [[Q1 W1]|[Q1 W1]], Hps as [[Q2 W2]|[Q2 W2]]; try lia; [left|right]; split; auto;
        rewrite (conj_add K L), W1, W2; ring.
    - constructor; auto.
  Qed.

  (* ---------- operators: "every string satisfies P" is kept by merge-on-insert ---------- *)
  Lemma add_strings (P : pstr -> Prop) (op : list (wstr (K:=K))) ps :
    Forall (fun w => P (fst w)) op -> P (fst ps) -> Forall (fun w => P (fst w)) (add_pauli_string op ps).
  Proof.
    induction 1 as [|w op Hw Hop IH]; intros Hps; cbn [add_pauli_string]; [constructor; auto|].
    destruct (peqb (fst w) (fst ps)); constructor; auto.
  Qed.

  (** an operator all of whose strings commute with L commutes with L as a matrix *)
  Lemma opmatrix_commutes n Ls (op : list (wstr (K:=K))) : wfp n Ls ->
    Forall (fun w => wfp n (fst w) /\ pcommutes (fst w) Ls = true) op ->
    meq n (mmul n (opmatrix op) (pmatrix Ls)) (mmul n (pmatrix Ls) (opmatrix op)).
  Proof.
    intros WL. induction 1 as [|w op [Ww Cw] _ IH]; intros r c Hr Hc.
    - unfold mmul. rewrite !bsum_zero; [reflexivity| |]; intros; cbv beta; unfold opmatrix; cbn [fold_right]; ring.
    - unfold mmul in *.
      transitivity (snd w * bsum n (fun k => pmatrix (fst w) r k * pmatrix Ls k c)
                    + bsum n (fun k => opmatrix op r k * pmatrix Ls k c)).
      { rewrite <- bsum_scal, <- bsum_add_fn. apply bsum_ext. intros k _. cbv beta.
        change (opmatrix (w :: op) r k) with (wmatrix w r k + opmatrix op r k). unfold wmatrix. ring. }
      rewrite (IH r c Hr Hc).
      pose proof (pcommutes_sound n (fst w) Ls Ww WL Cw r c Hr Hc) as E. unfold mmul in E. rewrite E.
      rewrite <- bsum_scal, <- bsum_add_fn. apply bsum_ext. intros k _. cbv beta.
      change (opmatrix (w :: op) k c) with (wmatrix w k c + opmatrix op k c). unfold wmatrix. ring.
  Qed.
End MatFacts.

(* ------------------------------------------------------------------------------------ *)
(** * the assembled operator *)

Definition getp (o : option pstr) : pstr := match o with Some p => p | None => pidentity 0 end.
(** V_i and E_ij of fermionic sites i, j (row-major indices on the r x c grid) *)
Definition Vt (r c : Z) (i : nat) : pstr := getp (vertex_at r c (fcoord r c i)).
Definition Et (r c : Z) (i j : nat) : pstr := getp (edge_at r c (fcoord r c i) (fcoord r c j)).

Lemma vertex_at_some r c p V : vertex_at r c p = Some V ->
  exists x y, p = Some (CInt x y) /\ m_vertex r c x y = Some V.
Proof. destruct p as [[x y|x y]|]; cbn; try discriminate. intros H. exists x, y. auto. Qed.
Lemma edge_at_some r c p p' E : edge_at r c p p' = Some E ->
  exists ix iy jx jy, p = Some (CInt ix iy) /\ p' = Some (CInt jx jy) /\ m_edge r c ix iy jx jy = Some E.
Proof.
  destruct p as [[ix iy|ix iy]|]; cbn; try discriminate.
  destruct p' as [[jx jy|jx jy]|]; try discriminate. intros H. exists ix, iy, jx, jy. auto.
Qed.

(** the strings inserted for an edge have odd q: i/2 (E V_j - E V_i) is Hermitian *)
Lemma hop_strings_odd r c p p' E Vi Vj :
  edge_at r c p p' = Some E -> vertex_at r c p = Some Vi -> vertex_at r c p' = Some Vj ->
  wfp (nq r c) E /\ wfp (nq r c) Vi /\ wfp (nq r c) Vj /\
  pcommutes E Vi = false /\ pcommutes E Vj = false /\
  pq (pmul E Vj) mod 2 = 1 /\ pq (pmul E Vi) mod 2 = 1.
Proof.
  intros HE HVi HVj.
  destruct (edge_at_some _ _ _ _ _ HE) as [ix [iy [jx [jy [-> [-> HE']]]]]].
  cbn in HVi, HVj.
  destruct (edge_wf _ _ _ _ _ _ _ HE') as [WE PE].
  destruct (vertex_wf _ _ _ _ _ HVi) as [WVi PVi]. destruct (vertex_wf _ _ _ _ _ HVj) as [WVj PVj].
  pose proof (edge_vertex_commutation _ _ _ _ _ _ _ _ _ _ HE' HVi) as Ci.
  pose proof (edge_vertex_commutation _ _ _ _ _ _ _ _ _ _ HE' HVj) as Cj.
  rewrite !Z.eqb_refl in Ci, Cj. cbn [andb orb negb] in Ci. rewrite orb_true_r in Cj. cbn [negb] in Cj.
  unfold pherm in PE, PVi, PVj. apply Z.eqb_eq in PE, PVi, PVj.
  pose proof (pmul_parity _ _ _ WE WVi) as Qi. pose proof (pmul_parity _ _ _ WE WVj) as Qj.
  rewrite Ci in Qi. rewrite Cj in Qj. repeat split; auto; try apply WE; try apply WVi; try apply WVj; lia.
Qed.

Lemma obind_some {A B} (o : option A) (f : A -> option B) b : obind o f = Some b -> exists a, o = Some a /\ f a = Some b.
Proof. destruct o as [a|]; cbn; [|discriminate]. intros H. exists a. auto. Qed.

Lemma fold_left_inv {A B} (P : A -> Prop) (f : A -> B -> A) (l : list B) :
  (forall a x, In x l -> P a -> P (f a x)) -> forall a, P a -> P (fold_left f l a).
Proof.
  induction l as [|x l IH]; intros Hs a Ha; [exact Ha|]. cbn. apply IH.
  - intros b y Hy. apply Hs. right; exact Hy.
  - apply Hs; [left; reflexivity|exact Ha].
Qed.

Section EncProofs.
  Context {K : Scalar} {L : ScalarLaws K}.
  Local Open Scope K_scope.
  Add Ring KringCe : (s_ring K L).
  Variable half : K.
  Variable isz : K -> bool.
  Variable symb : K -> K -> bool.

  Notation wstrK := (wstr (K:=K)).
  Notation onsite := (onsite_step half).
  Notation hop := (hop_step half isz).

  (* ---------- any property of the inserted strings is an invariant ---------- *)
  (** [P] holds for every string of the result as soon as it holds for every string the encoder can
      insert on this shape (term_strings) and for the strings already present *)
  Lemma encode_term_strings (P : pstr -> Prop) r c (h : coeffs) op op' :
    (forall t p, In t (term_strings r c) -> t = Some p -> P p) ->
    Forall (fun w : wstrK => P (fst w)) op ->
    encode_term half isz symb r c op h = Some op' -> Forall (fun w : wstrK => P (fst w)) op'.
  Proof.
    intros HT Hop. unfold encode_term. destruct (negb _); [discriminate|].
    set (N := Z.to_nat (r * c)).
    assert (T1 : forall i, In i (seq 0 N) -> forall V, vertex_at r c (fcoord r c i) = Some V -> P V).
    { intros i Hi V HV. apply (HT (Some V)); [|reflexivity]. unfold term_strings. fold N.
      apply in_or_app. left. rewrite <- HV. apply (in_map (fun i => vertex_at r c (fcoord r c i))). exact Hi. }
    assert (T2 : P (pidentity (m_nsites r c))).
    { apply (HT (Some (pidentity (m_nsites r c)))); [|reflexivity]. unfold term_strings.
      apply in_or_app. right. left. reflexivity. }
    assert (T3 : forall ij, In ij (pairs N) -> forall p, In (Some p) (hop_strings r c ij) -> P p).
    { intros ij Hij p Hp. apply (HT (Some p)); [|reflexivity]. unfold term_strings. fold N.
      apply in_or_app. right. right. apply in_flat_map. exists ij. auto. }
    pose (I1 := fun st : option (list wstrK * K) =>
                  match st with Some (o, _) => Forall (fun w : wstrK => P (fst w)) o | None => True end).
    assert (F1 : I1 (fold_left (onsite r c h) (seq 0 N) (Some (op, 0)))).
    { apply fold_left_inv; [|exact Hop]. intros [[o idc]|] i Hi Ho; [|exact I].
      unfold onsite_step. destruct (vertex_at r c (fcoord r c i)) as [V|] eqn:EV; [|exact I].
      cbn. apply add_strings; [exact Ho|]. cbn. exact (T1 i Hi V EV). }
    destruct (fold_left (onsite r c h) (seq 0 N) (Some (op, 0))) as [[op1 idc]|]; [|discriminate].
    cbn in F1.
    pose (I2 := fun st : option (list wstrK) =>
                  match st with Some o => Forall (fun w : wstrK => P (fst w)) o | None => True end).
    intros H.
    assert (F2 : I2 (fold_left (hop r c h) (pairs N)
                       (Some (add_pauli_string op1 (pidentity (m_nsites r c), idc))))).
    { apply fold_left_inv; [|cbn; apply add_strings; auto].
      intros [o|] [i j] Hij Ho; [|exact I]. unfold hop_step.
      destruct (isz (h i j)); [exact Ho|]. destruct (negb _); [exact I|].
      destruct (edge_at r c (fcoord r c i) (fcoord r c j)) as [E|] eqn:EE; [|exact I].
      destruct (vertex_at r c (fcoord r c i)) as [Vi|] eqn:EVi; [|exact I].
      destruct (vertex_at r c (fcoord r c j)) as [Vj|] eqn:EVj; [|exact I].
      cbn. apply add_strings; [apply add_strings; [exact Ho|]|]; cbn;
        apply (T3 (i, j) Hij); unfold hop_strings; cbn [fst snd]; rewrite EE, EVi, EVj; cbn; auto. }
    rewrite H in F2. exact F2.
  Qed.

  Lemma encode_strings (P : pstr -> Prop) r c (hs : list coeffs) op :
    (forall t p, In t (term_strings r c) -> t = Some p -> P p) ->
    encode half isz symb r c hs = Some op -> Forall (fun w : wstrK => P (fst w)) op.
  Proof.
    intros HT. unfold encode.
    assert (G : forall st, match st with Some o => Forall (fun w : wstrK => P (fst w)) o | None => True end ->
               forall op, fold_left (fun st h => obind st (fun op => encode_term half isz symb r c op h)) hs st = Some op ->
               Forall (fun w : wstrK => P (fst w)) op).
    { induction hs as [|h hs IH]; intros st Hst op' H; cbn in H.
      - subst st. exact Hst.
      - eapply IH; [|exact H].
        destruct st as [o|]; cbn; [|exact I].
        destruct (encode_term half isz symb r c o h) as [o'|] eqn:E; [|exact I].
        eapply encode_term_strings; eauto. }
    intros H. apply (G (Some []) (Forall_nil _) op H).
  Qed.
End EncProofs.

Section EncProofs2.
  Context {K : Scalar} {L : ScalarLaws K}.
  Local Open Scope K_scope.
  Add Ring KringCf : (s_ring K L).
  Variable half : K.
  Variable isz : K -> bool.
  Variable symb : K -> K -> bool.
  Notation wstrK := (wstr (K:=K)).
  Notation onsite := (onsite_step half).
  Notation hop := (hop_step half isz).

  Lemma fold_onsite_none r c h l : fold_left (onsite r c h) l None = None.
  Proof. induction l; cbn; auto. Qed.
  Lemma fold_hop_none r c h l : fold_left (hop r c h) l None = None.
  Proof. induction l; cbn; auto. Qed.

  (* ---------- Hermiticity for real coefficients (symmetry of h is not even needed: only the
                upper triangle is read) ---------- *)
  Section Herm.
    Hypothesis half_real : half^* = half.

    Lemma encode_term_wH r c (h : coeffs) op op' :
      (forall i j, (h i j)^* = h i j) -> Forall wH op ->
      encode_term half isz symb r c op h = Some op' -> Forall (wH (K:=K)) op'.
    Proof.
      intros Hh Hop. unfold encode_term. destruct (negb _); [discriminate|].
      set (N := Z.to_nat (r * c)).
      pose (I1 := fun st : option (list wstrK * K) =>
                    match st with Some (o, idc) => Forall wH o /\ idc^* = idc | None => True end).
      assert (F1 : I1 (fold_left (onsite r c h) (seq 0 N) (Some (op, 0)))).
      { apply fold_left_inv; [|split; [exact Hop|apply (conj_0 K L)]].
        intros [[o idc]|] i _ Ho; [|exact I]. destruct Ho as [Ho Hi].
        unfold onsite_step. destruct (vertex_at r c (fcoord r c i)) as [V|] eqn:EV; [|exact I].
        destruct (vertex_at_some _ _ _ _ EV) as [x [y [_ HV]]].
        destruct (vertex_wf _ _ _ _ _ HV) as [_ PV]. unfold pherm in PV. apply Z.eqb_eq in PV.
        cbn. split.
        - apply add_wH; [exact Ho|]. left. cbn [fst snd]. split; [exact PV|].
          rewrite (conj_opp K L), (conj_mul K L), half_real, Hh. reflexivity.
        - rewrite (conj_add K L), (conj_mul K L), half_real, Hh, Hi. reflexivity. }
      destruct (fold_left (onsite r c h) (seq 0 N) (Some (op, 0))) as [[op1 idc]|]; [|discriminate].
      destruct F1 as [F1 Hidc].
      pose (I2 := fun st : option (list wstrK) => match st with Some o => Forall wH o | None => True end).
      intros H.
      assert (F2 : I2 (fold_left (hop r c h) (pairs N)
                         (Some (add_pauli_string op1 (pidentity (m_nsites r c), idc))))).
      { apply fold_left_inv.
        2:{ cbn. apply add_wH; [exact F1|]. left. cbn [fst snd pidentity pq]. split; [reflexivity|exact Hidc]. }
        intros [o|] [i j] _ Ho; [|exact I]. unfold hop_step.
        destruct (isz (h i j)); [exact Ho|]. destruct (negb _); [exact I|].
        destruct (edge_at r c (fcoord r c i) (fcoord r c j)) as [E|] eqn:EE; [|exact I].
        destruct (vertex_at r c (fcoord r c i)) as [Vi|] eqn:EVi; [|exact I].
        destruct (vertex_at r c (fcoord r c j)) as [Vj|] eqn:EVj; [|exact I].
        destruct (hop_strings_odd _ _ _ _ _ _ _ EE EVi EVj) as [_ [_ [_ [_ [_ [Oj Oi]]]]]].
        pose proof (conj_I K L) as CI.
        cbn. apply add_wH; [apply add_wH; [exact Ho|]|]; right; cbn [fst snd]; (split; [assumption|]).
        - rewrite !(conj_mul K L), half_real, Hh, CI. ring.
        - rewrite (conj_opp K L), !(conj_mul K L), half_real, Hh, CI. ring. }
      rewrite H in F2. exact F2.
    Qed.

    Theorem encode_hermitian r c (hs : list coeffs) op :
      (forall h, In h hs -> forall i j, (h i j)^* = h i j) ->
      encode half isz symb r c hs = Some op -> hermitian (K:=K) (nq r c) (opmatrix op).
    Proof.
      intros Hh H.
      assert (W : Forall (wH (K:=K)) op).
      { revert H. unfold encode.
        assert (G : forall st, match st with Some o => Forall (wH (K:=K)) o | None => True end ->
                   (forall h, In h hs -> forall i j, (h i j)^* = h i j) ->
                   forall op, fold_left (fun st h => obind st (fun op => encode_term half isz symb r c op h)) hs st = Some op ->
                   Forall (wH (K:=K)) op).
        { clear Hh. induction hs as [|h hs IH]; intros st Hst Hh op' H; cbn in H.
          - subst st. exact Hst.
          - eapply IH; [| |exact H].
            + destruct st as [o|]; cbn; [|exact I].
              destruct (encode_term half isz symb r c o h) as [o'|] eqn:E; [|exact I].
              eapply encode_term_wH; eauto. apply Hh. left. reflexivity.
            + intros h' Hin. apply Hh. right. exact Hin. }
        apply (G (Some []) (Forall_nil _) Hh). }
      intros rr cc _ _. unfold madj. apply opmatrix_herm. exact W.
    Qed.
  End Herm.

  (* ---------- closed form ---------- *)
  Section Closed.
    Hypothesis isz_ok : forall w, isz w = true -> w = 0.

    Definition hop_entry (r c : Z) (h : coeffs) (rr cc : list bool) (ij : nat * nat) : K :=
      h (fst ij) (snd ij) * (sI * half)
      * (mmul (nq r c) (pmatrix (Et r c (fst ij) (snd ij))) (pmatrix (Vt r c (snd ij))) rr cc
         - mmul (nq r c) (pmatrix (Et r c (fst ij) (snd ij))) (pmatrix (Vt r c (fst ij))) rr cc).
    Definition onsite_entry (r c : Z) (h : coeffs) (rr cc : list bool) (i : nat) : K :=
      h i i * half * (mid rr cc - pmatrix (Vt r c i) rr cc).
    (** sum_i h_ii 1/2 (1 - V_i) + sum_{i<j} h_ij (i/2) (E_ij V_j - E_ij V_i), entry (rr, cc) *)
    Definition spec_entry (r c : Z) (h : coeffs) (rr cc : list bool) : K :=
      lsum (map (onsite_entry r c h rr cc) (seq 0 (Z.to_nat (r * c))))
      + lsum (map (hop_entry r c h rr cc) (pairs (Z.to_nat (r * c)))).

    Lemma onsite_fold r c h l : forall o idc o' idc',
      fold_left (onsite r c h) l (Some (o, idc)) = Some (o', idc') ->
      (forall rr cc, opmatrix o' rr cc
                     = opmatrix o rr cc + lsum (map (fun i => - (half * h i i) * pmatrix (Vt r c i) rr cc) l))
      /\ idc' = idc + lsum (map (fun i => half * h i i) l).
    Proof.
      induction l as [|a l IH]; intros o idc o' idc' H; cbn [fold_left] in H.
      - injection H as <- <-. split; [intros|]; cbn [map]; rewrite lsum_nil; ring.
      - unfold onsite_step at 2 in H.
        destruct (vertex_at r c (fcoord r c a)) as [V|] eqn:EV; [|rewrite fold_onsite_none in H; discriminate].
        destruct (IH _ _ _ _ H) as [A B]. split.
        + intros rr cc. rewrite A, add_pauli_string_matrix. cbn [map]. rewrite lsum_cons.
          unfold wmatrix, Vt. rewrite EV. cbn [fst snd getp]. ring.
        + rewrite B. cbn [map]. rewrite lsum_cons. ring.
    Qed.

    Lemma hop_fold r c h l : forall o o',
      fold_left (hop r c h) l (Some o) = Some o' ->
      forall rr cc, length rr = nq r c -> length cc = nq r c ->
        opmatrix o' rr cc = opmatrix o rr cc + lsum (map (hop_entry r c h rr cc) l).
    Proof.
      induction l as [|[i j] l IH]; intros o o' H rr cc Hr Hc; cbn [fold_left] in H.
      - injection H as <-. cbn [map]. rewrite lsum_nil. ring.
      - unfold hop_step at 2 in H. cbn [map]. rewrite lsum_cons. unfold hop_entry at 1. cbn [fst snd].
        destruct (isz (h i j)) eqn:Z0.
        { rewrite (IH _ _ H rr cc Hr Hc), (isz_ok _ Z0). ring. }
        destruct (negb _); [rewrite fold_hop_none in H; discriminate|].
        destruct (edge_at r c (fcoord r c i) (fcoord r c j)) as [E|] eqn:EE; [|rewrite fold_hop_none in H; discriminate].
        destruct (vertex_at r c (fcoord r c i)) as [Vi|] eqn:EVi; [|rewrite fold_hop_none in H; discriminate].
        destruct (vertex_at r c (fcoord r c j)) as [Vj|] eqn:EVj; [|rewrite fold_hop_none in H; discriminate].
        destruct (hop_strings_odd _ _ _ _ _ _ _ EE EVi EVj) as [WE [WVi [WVj _]]].
        rewrite (IH _ _ H rr cc Hr Hc), !add_pauli_string_matrix.
        unfold wmatrix, Et, Vt. rewrite EE, EVi, EVj. cbn [fst snd getp].
        rewrite (pmul_matrix _ _ _ WE WVj rr cc Hr Hc), (pmul_matrix _ _ _ WE WVi rr cc Hr Hc). ring.
    Qed.

    Lemma onsite_sum_form (h : coeffs) (V : nat -> K) (m : K) l :
      lsum (map (fun i => - (half * h i i) * V i) l) + (0 + lsum (map (fun i => half * h i i) l)) * m
      = lsum (map (fun i => h i i * half * (m - V i)) l).
    Proof. induction l as [|a l IH]; cbn [map]; rewrite ?lsum_cons, ?lsum_nil; [ring|]. rewrite <- IH. ring. Qed.

    (** the matrix of what the encoder builds from one create/annihilate term *)
    Theorem encode_term_closed_form r c (h : coeffs) op op' :
      encode_term half isz symb r c op h = Some op' ->
      forall rr cc, length rr = nq r c -> length cc = nq r c ->
        opmatrix op' rr cc = opmatrix op rr cc + spec_entry r c h rr cc.
    Proof.
      unfold encode_term. destruct (negb _); [discriminate|].
      destruct (fold_left (onsite r c h) _ _) as [[op1 idc]|] eqn:F1; [|discriminate].
      intros H rr cc Hr Hc.
      destruct (onsite_fold _ _ _ _ _ _ _ _ F1) as [A B].
      rewrite (hop_fold _ _ _ _ _ _ H rr cc Hr Hc), add_pauli_string_matrix, A, B.
      unfold wmatrix. cbn [fst snd]. rewrite (pidentity_matrix _ rr cc Hr Hc).
      unfold spec_entry, onsite_entry.
      rewrite <- (onsite_sum_form h (fun i => pmatrix (Vt r c i) rr cc) (mid rr cc)). ring.
    Qed.

    Theorem encode_closed_form r c (hs : list coeffs) op :
      encode half isz symb r c hs = Some op ->
      forall rr cc, length rr = nq r c -> length cc = nq r c ->
        opmatrix op rr cc = lsum (map (fun h => spec_entry r c h rr cc) hs).
    Proof.
      unfold encode.
      assert (G : forall st o, fold_left (fun st h => obind st (fun op => encode_term half isz symb r c op h)) hs st = Some o ->
                 exists o0, st = Some o0 /\ forall rr cc, length rr = nq r c -> length cc = nq r c ->
                   opmatrix o rr cc = opmatrix o0 rr cc + lsum (map (fun h => spec_entry r c h rr cc) hs)).
      { induction hs as [|h hs IH]; intros st o H; cbn [fold_left] in H.
        - exists o. split; [exact H|]. intros. cbn [map]. rewrite lsum_nil. ring.
        - destruct (IH _ _ H) as [o1 [E1 F]].
          destruct (obind_some _ _ _ E1) as [o0 [-> E0]]. exists o0. split; [reflexivity|].
          intros rr cc Hr Hc. rewrite (F rr cc Hr Hc), (encode_term_closed_form _ _ _ _ _ E0 rr cc Hr Hc).
          cbn [map]. rewrite lsum_cons. ring. }
      intros H rr cc Hr Hc. destruct (G _ _ H) as [o0 [E F]]. injection E as <-.
      rewrite (F rr cc Hr Hc). rewrite opmatrix_nil. ring.
    Qed.
  End Closed.
End EncProofs2.

(* ------------------------------------------------------------------------------------ *)
(** * index maps of the face-centred lattice are mutually inverse (every shape) *)

Lemma unravel_ravel r c i : 0 <= i < r * c -> 1 <= c ->
  np_unravel2 r c i = Some (CInt (i / c) (i mod c)) /\ np_ravel2 r c (i / c) (i mod c) = Some i.
Proof.
  intros Hi Hc. unfold np_unravel2, np_ravel2.
  assert (A : 0 <= i / c < r) by (split; [apply Z.div_pos; lia | apply Z.div_lt_upper_bound; lia]).
  assert (B : 0 <= i mod c < c) by (apply Z.mod_pos_bound; lia).
  replace (0 <=? i) with true by (symmetry; apply Z.leb_le; lia).
  replace (i <? r * c) with true by (symmetry; apply Z.ltb_lt; lia).
  replace (0 <=? i / c) with true by (symmetry; apply Z.leb_le; lia).
  replace (i / c <? r) with true by (symmetry; apply Z.ltb_lt; lia).
  replace (0 <=? i mod c) with true by (symmetry; apply Z.leb_le; lia).
  replace (i mod c <? c) with true by (symmetry; apply Z.ltb_lt; lia).
  cbn. split; [reflexivity|]. f_equal. rewrite Z.mul_comm. symmetry. apply Z.div_mod. lia.
Qed.

Theorem vertex_index_roundtrip r c i : 1 <= c -> 0 <= i < r * c ->
  exists x y, m_index_to_coord r c i = Some (CInt x y) /\ m_coord_to_index r c (CInt x y) = Some i
              /\ 0 <= x < r /\ 0 <= y < c.
Proof.
  intros Hc Hi. destruct (unravel_ravel r c i Hi Hc) as [A B].
  exists (i / c), (i mod c). unfold m_index_to_coord, m_coord_to_index.
  replace (i <? r * c) with true by (symmetry; apply Z.ltb_lt; lia).
  repeat split; auto; try (apply ravel_some in B; lia).
Qed.

Theorem vertex_coord_roundtrip r c x y : 0 <= x < r -> 0 <= y < c ->
  exists i, m_coord_to_index r c (CInt x y) = Some i /\ m_index_to_coord r c i = Some (CInt x y) /\ 0 <= i < r * c.
Proof.
  intros Hx Hy. exists (x * c + y). unfold m_coord_to_index, m_index_to_coord, np_ravel2, np_unravel2.
  assert (x * c <= (r - 1) * c) by nia. assert (0 <= x * c) by nia.
  replace (0 <=? x) with true by (symmetry; apply Z.leb_le; lia).
  replace (x <? r) with true by (symmetry; apply Z.ltb_lt; lia).
  replace (0 <=? y) with true by (symmetry; apply Z.leb_le; lia).
  replace (y <? c) with true by (symmetry; apply Z.ltb_lt; lia).
  replace (x * c + y <? r * c) with true by (symmetry; apply Z.ltb_lt; lia).
  replace (0 <=? x * c + y) with true by (symmetry; apply Z.leb_le; lia).
  cbn. repeat split; try lia. f_equal. f_equal.
  - symmetry. apply (Z.div_unique (x * c + y) c x y); lia.
  - symmetry. apply (Z.mod_unique (x * c + y) c x y); lia.
Qed.

(** face part, in terms of w = c - 1 >= 1 and the face-local index k = i - r*c (DESIGN A.4) *)
Lemma face_local_roundtrip w k R : 1 <= w -> 0 <= k -> 2 * k < R * w ->
  let x := 2 * k / w in
  let y := 2 * (k - (x * w + 1) / 2) + x mod 2 in
  (x * w + 1) / 2 + y / 2 = k /\ (x + y) mod 2 = 0 /\ 0 <= y < w /\ 0 <= x < R.
Proof.
  intros Hw Hk HR. cbv zeta.
  set (x := 2 * k / w).
  assert (Hx : x * w <= 2 * k < x * w + w) by (unfold x; nia).
  assert (Hx0 : 0 <= x) by (unfold x; apply Z.div_pos; lia).
  assert (HxR : x < R) by nia.
  clearbody x.
  destruct (Z.even x) eqn:E.
  - apply Z.even_spec in E. destruct E as [m ->].
    replace (2 * m * w) with (2 * (m * w)) in * by ring.
    set (p := m * w) in *. clearbody p. lia.
  - assert (O : Z.odd x = true) by (rewrite <- Z.negb_even, E; reflexivity).
    apply Z.odd_spec in O. destruct O as [m ->].
    replace ((2 * m + 1) * w) with (2 * (m * w) + w) in * by ring.
    set (p := m * w) in *. clearbody p. lia.
Qed.

Lemma face_local_roundtrip_inv w x y : 1 <= w -> 0 <= x -> 0 <= y < w -> (x + y) mod 2 = 0 ->
  let k := (x * w + 1) / 2 + y / 2 in
  2 * k / w = x /\ 2 * (k - (x * w + 1) / 2) + x mod 2 = y /\ 0 <= k /\ 2 * k < (x + 1) * w.
Proof.
  intros Hw Hx Hy Hp. cbv zeta.
  assert (Q : forall k, x * w <= 2 * k < x * w + w -> 2 * k / w = x).
  { intros k Hk. symmetry. apply (Z.div_unique (2 * k) w x (2 * k - x * w)); lia. }
  destruct (Z.even x) eqn:E.
  - apply Z.even_spec in E. destruct E as [m ->].
    replace (2 * m * w) with (2 * (m * w)) in * by ring.
    replace ((2 * m + 1) * w) with (2 * (m * w) + w) by ring.
    assert (0 <= m * w) by nia.
    set (p := m * w) in *. clearbody p.
    split; [apply Q; lia|]. lia.
  - assert (O : Z.odd x = true) by (rewrite <- Z.negb_even, E; reflexivity).
    apply Z.odd_spec in O. destruct O as [m ->].
    replace ((2 * m + 1) * w) with (2 * (m * w) + w) in * by ring.
    replace ((2 * m + 1 + 1) * w) with (2 * (m * w) + 2 * w) by ring.
    assert (0 <= m * w) by nia.
    set (p := m * w) in *. clearbody p.
    split; [apply Q; lia|]. lia.
Qed.

Lemma nfaces_bound r c k : 2 <= c -> 0 <= k < ((r - 1) * (c - 1) + 1) / 2 -> 2 * k < (r - 1) * (c - 1).
Proof. intros Hc Hk. set (p := (r - 1) * (c - 1)) in *. clearbody p. lia. Qed.

(** index -> face coordinate -> index *)
Theorem face_index_roundtrip r c i : 2 <= c -> r * c <= i < m_nsites r c ->
  exists x y, m_index_to_coord r c i = Some (CHalf x y) /\ m_coord_to_index r c (CHalf x y) = Some i
              /\ 0 <= x < r - 1 /\ 0 <= y < c - 1 /\ (x + y) mod 2 = 0.
Proof.
  intros Hc Hi. unfold m_nsites in Hi.
  assert (Hk : 2 * (i - r * c) < (r - 1) * (c - 1)) by (apply nfaces_bound; lia).
  destruct (face_local_roundtrip (c - 1) (i - r * c) (r - 1) ltac:(lia) ltac:(lia) Hk) as [A [B [C D]]].
  cbv zeta in A, B, C, D.
  unfold m_index_to_coord.
  replace (i <? r * c) with false by (symmetry; apply Z.ltb_ge; lia).
  replace (c - 1 =? 0) with false by (symmetry; apply Z.eqb_neq; lia).
  cbv zeta.
  set (x := 2 * (i - r * c) / (c - 1)) in *.
  set (y := 2 * (i - r * c - (x * (c - 1) + 1) / 2) + x mod 2) in *.
  exists x, y. split; [reflexivity|]. split; [|auto].
  unfold m_coord_to_index, m_face_index.
  replace ((x + y) mod 2 =? 1) with false by (symmetry; apply Z.eqb_neq; lia).
  replace ((x <? 0) || (y <? 0) || (r - 1 <=? x) || (c - 1 <=? y)) with false.
  2:{ symmetry. repeat (apply orb_false_iff; split); try (apply Z.ltb_ge; lia); apply Z.leb_gt; lia. }
  f_equal. lia.
Qed.

(** face coordinate -> index -> face coordinate; the index lies in [r*c, nsites) *)
Theorem face_coord_roundtrip r c x y : 0 <= x < r - 1 -> 0 <= y < c - 1 -> (x + y) mod 2 = 0 ->
  exists i, m_coord_to_index r c (CHalf x y) = Some i /\ m_index_to_coord r c i = Some (CHalf x y)
            /\ r * c <= i < m_nsites r c.
Proof.
  intros Hx Hy Hp.
  destruct (face_local_roundtrip_inv (c - 1) x y ltac:(lia) ltac:(lia) Hy Hp) as [A [B [C D]]].
  cbv zeta in A, B, C, D.
  set (k := (x * (c - 1) + 1) / 2 + y / 2) in *.
  exists (r * c + k). unfold m_coord_to_index, m_face_index.
  replace ((x + y) mod 2 =? 1) with false by (symmetry; apply Z.eqb_neq; lia).
  replace ((x <? 0) || (y <? 0) || (r - 1 <=? x) || (c - 1 <=? y)) with false.
  2:{ symmetry. repeat (apply orb_false_iff; split); try (apply Z.ltb_ge; lia); apply Z.leb_gt; lia. }
  split; [f_equal; unfold k; ring|].
  assert (Hn : r * c + k < m_nsites r c).
  { unfold m_nsites. assert ((x + 1) * (c - 1) <= (r - 1) * (c - 1)) by nia.
    set (p := (r - 1) * (c - 1)) in *. set (q := (x + 1) * (c - 1)) in *. clearbody p q. lia. }
  split; [|lia].
  unfold m_index_to_coord.
  replace (r * c + k <? r * c) with false by (symmetry; apply Z.ltb_ge; lia).
  replace (c - 1 =? 0) with false by (symmetry; apply Z.eqb_neq; lia).
  cbv zeta. replace (r * c + k - r * c) with k by ring. rewrite A, B. reflexivity.
Qed.

(** the face an edge is attached to is a valid auxiliary face (or there is none) *)
Lemma edge_face_valid r c ix iy jx jy f : m_edge_face r c ix iy jx jy = Some f ->
  f = -1 \/ r * c <= f < m_nsites r c.
Proof.
  intros H. pose proof H as H0. unfold m_edge_face in H.
  destruct (negb (is_nn ix iy jx jy)) eqn:NN; [discriminate|]. apply negb_false_iff in NN.
  cbv zeta in H.
  destruct ((Z.min ix jx <? 0) || (Z.min iy jy <? 0) || (r <=? Z.min ix jx) || (c <=? Z.min iy jy)) eqn:B0; [discriminate|].
  apply orb_false_iff in B0. destruct B0 as [B0 B4]. apply orb_false_iff in B0. destruct B0 as [B0 B3].
  apply orb_false_iff in B0. destruct B0 as [B1 B2].
  apply Z.ltb_ge in B1, B2. apply Z.leb_gt in B3, B4.
  assert (P : let '(x, y) := m_edge_face_xy ix iy jx jy in (x + y) mod 2 = 0).
  { unfold m_edge_face_xy. pose proof (is_nn_cases _ _ _ _ NN) as C.
    destruct ((Z.min ix jx + Z.min iy jy) mod 2 =? 1) eqn:E; [apply Z.eqb_eq in E|apply Z.eqb_neq in E];
      [destruct (ix =? jx)|]; lia. }
  destruct (m_edge_face_xy ix iy jx jy) as [x y].
  destruct ((x <? 0) || (y <? 0) || (r - 1 <=? x) || (c - 1 <=? y)) eqn:B; injection H as <-; [left; reflexivity|right].
  apply orb_false_iff in B. destruct B as [B B8]. apply orb_false_iff in B. destruct B as [B B7].
  apply orb_false_iff in B. destruct B as [B5 B6].
  apply Z.ltb_ge in B5, B6. apply Z.leb_gt in B7, B8.
  destruct (face_coord_roundtrip r c x y ltac:(lia) ltac:(lia) P) as [i [A [_ R]]].
  unfold m_coord_to_index, m_face_index in A.
  destruct ((x + y) mod 2 =? 1); [discriminate|].
  destruct ((x <? 0) || (y <? 0) || (r - 1 <=? x) || (c - 1 <=? y)); [discriminate|].
  injection A as <-. exact R.
Qed.

(* ------------------------------------------------------------------------------------ *)
(** * definedness: on a lattice with r, c >= 1 every vertex and every nearest-neighbour pair
      of the grid has its operator *)

Lemma build_two_some n l1 a l2 b q s f :
  in_n n a -> in_n n b -> (f = -1 \/ in_n n f) ->
  exists p, build n {| d_args := [(l1, a); (l2, b)]; d_q := q; d_sets := sets_of f s |} = Some p.
Proof.
  unfold in_n. intros Ha Hb Hf. unfold build. cbn [d_args d_sets d_q fold_left]. unfold arg_step.
  replace (a <? 0) with false by (symmetry; apply Z.ltb_ge; lia).
  replace (n <=? a) with false by (symmetry; apply Z.leb_gt; lia).
  replace (b <? 0) with false by (symmetry; apply Z.ltb_ge; lia).
  replace (n <=? b) with false by (symmetry; apply Z.leb_gt; lia).
  cbn [orb]. unfold sets_of. destruct (f =? -1) eqn:E.
  - cbn. eexists. reflexivity.
  - apply Z.eqb_neq in E. destruct Hf as [Hf|Hf]; [contradiction|].
    cbn [fold_left set_step].
    replace (f <? - n) with false by (symmetry; apply Z.ltb_ge; lia).
    replace (n <=? f) with false by (symmetry; apply Z.leb_gt; lia).
    cbn. eexists. reflexivity.
Qed.

Lemma nsites_ge r c : 1 <= r -> 1 <= c -> r * c <= m_nsites r c.
Proof.
  intros Hr Hc. unfold m_nsites. assert (0 <= (r - 1) * (c - 1)) by nia.
  set (p := (r - 1) * (c - 1)) in *. clearbody p. lia.
Qed.

Theorem vertex_defined r c x y : 0 <= x < r -> 0 <= y < c -> exists V, m_vertex r c x y = Some V.
Proof.
  intros Hx Hy. destruct (vertex_coord_roundtrip r c x y Hx Hy) as [i [A [_ Bi]]].
  unfold m_vertex. rewrite A. cbn [obind m_vertex_desc].
  pose proof (nsites_ge r c ltac:(lia) ltac:(lia)) as N.
  unfold build, mkdesc. cbn [d_args d_sets d_q fold_left]. unfold arg_step.
  replace (i <? 0) with false by (symmetry; apply Z.ltb_ge; lia).
  replace (m_nsites r c <=? i) with false by (symmetry; apply Z.leb_gt; lia).
  cbn. eexists. reflexivity.
Qed.

Theorem edge_defined r c ix iy jx jy :
  0 <= ix < r -> 0 <= iy < c -> 0 <= jx < r -> 0 <= jy < c -> is_nn ix iy jx jy = true ->
  exists E, m_edge r c ix iy jx jy = Some E.
Proof.
  intros Hix Hiy Hjx Hjy NN.
  destruct (vertex_coord_roundtrip r c ix iy Hix Hiy) as [ii [Ai [_ Bi]]].
  destruct (vertex_coord_roundtrip r c jx jy Hjx Hjy) as [jj [Aj [_ Bj]]].
  pose proof (nsites_ge r c ltac:(lia) ltac:(lia)) as N.
  unfold m_edge. rewrite NN, Ai, Aj. cbn [negb obind].
  destruct (m_edge_face r c ix iy jx jy) as [ff|] eqn:F.
  2:{ exfalso. unfold m_edge_face in F. rewrite NN in F. cbn [negb] in F. cbv zeta in F.
      replace ((Z.min ix jx <? 0) || (Z.min iy jy <? 0) || (r <=? Z.min ix jx) || (c <=? Z.min iy jy)) with false in F.
      2:{ symmetry. repeat (apply orb_false_iff; split); try (apply Z.ltb_ge; lia); apply Z.leb_gt; lia. }
      destruct (m_edge_face_xy ix iy jx jy) as [x y]. destruct (_ || _ || _ || _); discriminate. }
  cbn [obind].
  destruct (m_edge_desc ii jj ff ix iy jx jy) as [d|] eqn:D.
  2:{ exfalso. unfold m_edge_desc in D. rewrite NN in D. cbn [negb] in D.
      pose proof (is_nn_cases _ _ _ _ NN) as C.
      destruct (ix =? jx) eqn:E1; [discriminate|]. destruct (iy =? jy) eqn:E2; [discriminate|].
      apply Z.eqb_neq in E1, E2. lia. }
  cbn [obind].
  destruct (edge_desc_form _ _ _ _ _ _ _ _ D) as [l1 [a [l2 [b [q [s [-> [AB _]]]]]]]].
  pose proof (edge_face_valid _ _ _ _ _ _ _ F) as FV.
  apply build_two_some; unfold in_n.
  - destruct AB as [[-> ->]|[-> ->]]; lia.
  - destruct AB as [[-> ->]|[-> ->]]; lia.
  - destruct FV as [->|FV]; [left; reflexivity|right; lia].
Qed.

(* ------------------------------------------------------------------------------------ *)
(** * matrix of the sign-flipped string *)
Section NegFacts.
  Context {K : Scalar} {L : ScalarLaws K}.
  Local Open Scope K_scope.
  Add Ring KringCn : (s_ring K L).

  Lemma pneg_matrix p r c : pmatrix (pneg p) r c = - pmatrix p r c :> K.
  Proof.
    unfold pmatrix, pneg. cbn [pz px pq].
    rewrite <- (mipz_mod ((pq p + 2) mod 4 + _)), Zplus_mod_idemp_l, mipz_mod.
    replace (pq p + 2 + dotz (pz p) (px p))%Z with (2 + (pq p + dotz (pz p) (px p)))%Z by ring.
    rewrite (mipz_add 2). cbn. ring.
  Qed.
End NegFacts.
