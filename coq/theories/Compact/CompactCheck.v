(** Case type and checker for the C13 correspondence run (evaluated with vm_compute).
    Weights are exact Gaussian rationals. *)
From Qib Require Export Pauli.PauliCheck.
From Qib Require Export Compact.CompactModel.
From Coq Require Import QArith.
Local Open Scope Z_scope.

Definition qhalf : QI := ((1 # 2)%Q, 0%Q).
Definition qzero : QI := (0%Q, 0%Q).
Definition q_isz (w : QI) : bool := qi_eqb w qzero.

Definition hfun (h : list (list QI)) : coeffs (K:=QI) := fun i j => nth j (nth i h []) qzero.

Definition c3 := (bool * Z * Z)%type.      (* (is face centre, x, y) *)
Definition c3_of (p : coord) : c3 := match p with CInt x y => (false, x, y) | CHalf x y => (true, x, y) end.
Definition of_c3 (t : c3) : coord := let '(f, x, y) := t in if f then CHalf x y else CInt x y.
Definition c3_eqb (a b : c3) : bool :=
  let '(f, x, y) := a in let '(f', x', y') := b in Bool.eqb f f' && Z.eqb x x' && Z.eqb y y'.

Definition opt_eqb {A} (e : A -> A -> bool) (a b : option A) : bool :=
  match a, b with Some u, Some v => e u v | None, None => true | _, _ => false end.

Inductive ccase :=
| CNs (r c n : Z)                                            (* latt.nsites *)
| CI2C (r c i : Z) (res : option c3)                         (* latt.index_to_coord *)
| CC2I (r c : Z) (p : c3) (res : option Z)                   (* latt.coord_to_index *)
| CEF (r c ix iy jx jy : Z) (res : option Z)                 (* latt.edge_to_odd_face_index *)
| CVert (r c x y : Z) (res : option P3)                      (* _encode_vertex_operator *)
| CEdge (r c ix iy jx jy : Z) (res : option P3)              (* _encode_edge_operator *)
| CEnc (r c : Z) (hs : list (list (list QI))) (res : option (list (P3 * QI))).   (* the encoder *)

Definition ws_eqb (a b : list (P3 * QI)) : bool :=
  list_eqb (fun u v => p3_eqb (fst u) (fst v) && qi_eqb (snd u) (snd v)) a b.

Definition check (k : ccase) : bool :=
  match k with
  | CNs r c n => Z.eqb (m_nsites r c) n
  | CI2C r c i res => opt_eqb c3_eqb (option_map c3_of (m_index_to_coord r c i)) res
  | CC2I r c p res => opt_eqb Z.eqb (m_coord_to_index r c (of_c3 p)) res
  | CEF r c ix iy jx jy res => opt_eqb Z.eqb (m_edge_face r c ix iy jx jy) res
  | CVert r c x y res => opt_eqb p3_eqb (option_map un (m_vertex r c x y)) res
  | CEdge r c ix iy jx jy res => opt_eqb p3_eqb (option_map un (m_edge r c ix iy jx jy)) res
  | CEnc r c hs res =>
      opt_eqb ws_eqb
        (option_map (map (fun w : wstr (K:=QI) => (un (fst w), snd w)))
                    (encode qhalf q_isz qi_eqb r c (map hfun hs)))
        res
  end.

Definition bad_cases (cs : list (nat * ccase)) : list nat :=
  map fst (filter (fun c => negb (check (snd c))) cs).
