(** Loop products of the compact encoding for EVERY lattice shape (no bound on r, c):
    the product of the four edge operators around a face
      - does not depend on the starting corner nor on the direction,
      - is the identity string (phase +1) on faces carrying an auxiliary qubit,
      - elsewhere is a non-trivial Hermitian involution that commutes with every other loop product
        and with every string the encoder can insert (hence with the encoded operator).
    Everything except "identity on auxiliary faces" and "non-trivial" is derived from the relation set
    R (CompactLocal.R_edge_edge, CompactProofs.edge_vertex_commutation) by the group laws of
    CompactSparse; those two are computed on a 5-site window after an even translation. *)
From Qib Require Export Compact.CompactLocal.
Ltac Zify.zify_post_hook ::= Z.to_euclidean_division_equations.
Local Open Scope Z_scope.

(* ------------------------------------------------------------------------------------ *)
(** * four strings with the commutation pattern of the edges around a face *)

Definition prod4 (E1 E2 E3 E4 : pstr) : pstr := pmul (pmul (pmul E1 E2) E3) E4.

Record cyc4 (n : nat) (E1 E2 E3 E4 : pstr) : Prop := {
  cy_w1 : wfp n E1; cy_w2 : wfp n E2; cy_w3 : wfp n E3; cy_w4 : wfp n E4;
  cy_h1 : pq E1 mod 2 = 0; cy_h2 : pq E2 mod 2 = 0; cy_h3 : pq E3 mod 2 = 0; cy_h4 : pq E4 mod 2 = 0;
  cy_12 : anti E1 E2 = true; cy_23 : anti E2 E3 = true; cy_34 : anti E3 E4 = true; cy_41 : anti E4 E1 = true;
  cy_13 : anti E1 E3 = false; cy_24 : anti E2 E4 = false }.

Lemma cyc4_rot_cyc n E1 E2 E3 E4 : cyc4 n E1 E2 E3 E4 -> cyc4 n E2 E3 E4 E1.
Proof.
  intros [w1 w2 w3 w4 h1 h2 h3 h4 a12 a23 a34 a41 a13 a24].
  constructor; auto. rewrite anti_sym; exact a13.
Qed.

Lemma prod4_wf n E1 E2 E3 E4 : cyc4 n E1 E2 E3 E4 -> wfp n (prod4 E1 E2 E3 E4).
Proof. intros C. destruct C. unfold prod4. repeat apply pmul_wf; assumption. Qed.

(** (anti)commutation of the product with any string *)
Lemma anti_prod4 n E1 E2 E3 E4 P : cyc4 n E1 E2 E3 E4 -> wfp n P ->
  anti (prod4 E1 E2 E3 E4) P = xorb (xorb (xorb (anti E1 P) (anti E2 P)) (anti E3 P)) (anti E4 P).
Proof.
  intros C W. destruct C. unfold prod4.
  rewrite (anti_pmul_l n), (anti_pmul_l n), (anti_pmul_l n); auto; repeat apply pmul_wf; assumption.
Qed.

Lemma prod4_herm n E1 E2 E3 E4 : cyc4 n E1 E2 E3 E4 -> pq (prod4 E1 E2 E3 E4) mod 2 = 0.
Proof.
  intros C. pose proof C as C0. destruct C as [w1 w2 w3 w4 h1 h2 h3 h4 a12 a23 a34 a41 a13 a24]. unfold prod4.
  assert (w12 : wfp n (pmul E1 E2)) by (apply pmul_wf; assumption).
  assert (w123 : wfp n (pmul (pmul E1 E2) E3)) by (apply pmul_wf; assumption).
  pose proof (pmul_parity n E1 E2 w1 w2) as Q1.
  pose proof (pmul_parity n _ E3 w12 w3) as Q2.
  pose proof (pmul_parity n _ E4 w123 w4) as Q3.
  assert (c12 : pcommutes E1 E2 = false) by (unfold anti in a12; destruct (pcommutes E1 E2); [discriminate|reflexivity]).
  assert (c123 : pcommutes (pmul E1 E2) E3 = false).
  { pose proof (anti_pmul_l n E1 E2 E3 w1 w2 w3) as A. rewrite a13, a23 in A. unfold anti in A.
    destruct (pcommutes (pmul E1 E2) E3); [discriminate|reflexivity]. }
  assert (c1234 : pcommutes (pmul (pmul E1 E2) E3) E4 = true).
  { pose proof (anti_pmul_l n _ E3 E4 w12 w3 w4) as A. rewrite (anti_pmul_l n E1 E2 E4 w1 w2 w4) in A.
    rewrite (anti_sym E1 E4), a41, a24, a34 in A. unfold anti in A.
    destruct (pcommutes (pmul (pmul E1 E2) E3) E4); [reflexivity|discriminate]. }
  rewrite c12 in Q1. rewrite c123 in Q2. rewrite c1234 in Q3. lia.
Qed.

Lemma prod4_involution n E1 E2 E3 E4 : cyc4 n E1 E2 E3 E4 ->
  pmul (prod4 E1 E2 E3 E4) (prod4 E1 E2 E3 E4) = pidentity (Z.of_nat n).
Proof. intros C. apply pmul_self; [apply (prod4_wf n); exact C|apply (prod4_herm n); exact C]. Qed.

(** the product does not depend on where the cycle starts ... *)
Lemma prod4_rot n E1 E2 E3 E4 : cyc4 n E1 E2 E3 E4 -> prod4 E2 E3 E4 E1 = prod4 E1 E2 E3 E4.
Proof.
  intros C. destruct C as [w1 w2 w3 w4 h1 h2 h3 h4 a12 a23 a34 a41 a13 a24]. unfold prod4.
  assert (w23 : wfp n (pmul E2 E3)) by (apply pmul_wf; assumption).
  assert (w234 : wfp n (pmul (pmul E2 E3) E4)) by (apply pmul_wf; assumption).
  assert (w34 : wfp n (pmul E3 E4)) by (apply pmul_wf; assumption).
  assert (Cm : pcommutes (pmul (pmul E2 E3) E4) E1 = true).
  { pose proof (anti_pmul_l n _ E4 E1 w23 w4 w1) as A. rewrite (anti_pmul_l n E2 E3 E1 w2 w3 w1) in A.
    rewrite (anti_sym E2 E1), (anti_sym E3 E1), a12, a13, a41 in A. unfold anti in A.
    destruct (pcommutes (pmul (pmul E2 E3) E4) E1); [reflexivity|discriminate]. }
  rewrite (pmul_comm n _ E1 w234 w1 Cm).
  rewrite (pmul_assoc n E2 E3 E4 w2 w3 w4).
  rewrite (pmul_assoc n (pmul E1 E2) E3 E4), (pmul_assoc n E1 E2 (pmul E3 E4)); auto.
  apply pmul_wf; assumption.
Qed.

(** ... nor on the direction (the reversed edges are the negated strings) *)
Lemma prod4_rev n E1 E2 E3 E4 : cyc4 n E1 E2 E3 E4 ->
  prod4 (pneg E4) (pneg E3) (pneg E2) (pneg E1) = prod4 E1 E2 E3 E4.
Proof.
  intros C. destruct C as [w1 w2 w3 w4 h1 h2 h3 h4 a12 a23 a34 a41 a13 a24]. unfold prod4.
  repeat first [rewrite pmul_pneg_l | rewrite pmul_pneg_r]. rewrite !pneg_pneg_pmul.
  assert (w43 : wfp n (pmul E4 E3)) by (apply pmul_wf; assumption).
  assert (w34 : wfp n (pmul E3 E4)) by (apply pmul_wf; assumption).
  assert (w432 : wfp n (pmul (pmul E4 E3) E2)) by (apply pmul_wf; assumption).
  (* E1 commutes with (E4 E3) E2 *)
  assert (Cm : pcommutes (pmul (pmul E4 E3) E2) E1 = true).
  { pose proof (anti_pmul_l n _ E2 E1 w43 w2 w1) as A. rewrite (anti_pmul_l n E4 E3 E1 w4 w3 w1) in A.
    rewrite (anti_sym E3 E1), (anti_sym E2 E1), a41, a13, a12 in A. unfold anti in A.
    destruct (pcommutes (pmul (pmul E4 E3) E2) E1); [reflexivity|discriminate]. }
  rewrite (pmul_comm n _ E1 w432 w1 Cm).
  (* (E4 E3) E2 = E2 (E3 E4) *)
  assert (A43 : pcommutes E4 E3 = false).
  { rewrite pcommutes_sym. unfold anti in a34. destruct (pcommutes E3 E4); [discriminate|reflexivity]. }
  assert (A432 : pcommutes (pmul E4 E3) E2 = false).
  { pose proof (anti_pmul_l n E4 E3 E2 w4 w3 w2) as A.
    rewrite (anti_sym E4 E2), (anti_sym E3 E2), a24, a23 in A. unfold anti in A.
    destruct (pcommutes (pmul E4 E3) E2); [discriminate|reflexivity]. }
  rewrite (pmul_anticomm n _ E2 w43 w2 A432), (pmul_anticomm n E4 E3 w4 w3 A43).
  repeat first [rewrite pmul_pneg_l | rewrite pmul_pneg_r]. rewrite !pneg_pneg_pmul.
  rewrite (pmul_assoc n (pmul E1 E2) E3 E4), (pmul_assoc n E1 E2 (pmul E3 E4)); auto.
  apply pmul_wf; assumption.
Qed.

(* ------------------------------------------------------------------------------------ *)
(** * the four edges around a face *)

Ltac zdec :=
  repeat match goal with
         | |- context [Z.eqb ?a ?b] =>
           first [ replace (Z.eqb a b) with true by (symmetry; apply Z.eqb_eq; lia)
                 | replace (Z.eqb a b) with false by (symmetry; apply Z.eqb_neq; lia) ]
         end.

Definition face_edges (r c x y : Z) (E1 E2 E3 E4 : pstr) : Prop :=
  m_edge r c x y x (y + 1) = Some E1 /\ m_edge r c x (y + 1) (x + 1) (y + 1) = Some E2 /\
  m_edge r c (x + 1) (y + 1) (x + 1) y = Some E3 /\ m_edge r c (x + 1) y x y = Some E4.

Lemma face_edges_exist r c x y : 0 <= x < r - 1 -> 0 <= y < c - 1 ->
  exists E1 E2 E3 E4, face_edges r c x y E1 E2 E3 E4.
Proof.
  intros Hx Hy. unfold face_edges.
  destruct (edge_defined r c x y x (y + 1)) as [E1 H1]; try lia. { unfold is_nn. zdec. reflexivity. }
  destruct (edge_defined r c x (y + 1) (x + 1) (y + 1)) as [E2 H2]; try lia. { unfold is_nn. zdec. reflexivity. }
  destruct (edge_defined r c (x + 1) (y + 1) (x + 1) y) as [E3 H3]; try lia. { unfold is_nn. zdec. reflexivity. }
  destruct (edge_defined r c (x + 1) y x y) as [E4 H4]; try lia. { unfold is_nn. zdec. reflexivity. }
  exists E1, E2, E3, E4. auto.
Qed.

Lemma anti_edges r c ix iy jx jy kx ky lx ly E E' :
  m_edge r c ix iy jx jy = Some E -> m_edge r c kx ky lx ly = Some E' ->
  anti E E' = Nat.eqb (shared ((ix, iy), (jx, jy)) ((kx, ky), (lx, ly))) 1.
Proof. intros H H'. unfold anti. rewrite (R_edge_edge _ _ _ _ _ _ _ _ _ _ _ _ H H'). apply negb_involutive. Qed.

Lemma face_edges_cyc4 r c x y E1 E2 E3 E4 : face_edges r c x y E1 E2 E3 E4 -> cyc4 (nq r c) E1 E2 E3 E4.
Proof.
  intros [H1 [H2 [H3 H4]]].
  destruct (edge_wf _ _ _ _ _ _ _ H1) as [w1 p1]. destruct (edge_wf _ _ _ _ _ _ _ H2) as [w2 p2].
  destruct (edge_wf _ _ _ _ _ _ _ H3) as [w3 p3]. destruct (edge_wf _ _ _ _ _ _ _ H4) as [w4 p4].
  unfold pherm in p1, p2, p3, p4. apply Z.eqb_eq in p1, p2, p3, p4.
  constructor; auto.
  - rewrite (anti_edges _ _ _ _ _ _ _ _ _ _ _ _ H1 H2). unfold shared, veqb. cbn [fst snd]. zdec. reflexivity.
  - rewrite (anti_edges _ _ _ _ _ _ _ _ _ _ _ _ H2 H3). unfold shared, veqb. cbn [fst snd]. zdec. reflexivity.
  - rewrite (anti_edges _ _ _ _ _ _ _ _ _ _ _ _ H3 H4). unfold shared, veqb. cbn [fst snd]. zdec. reflexivity.
  - rewrite (anti_edges _ _ _ _ _ _ _ _ _ _ _ _ H4 H1). unfold shared, veqb. cbn [fst snd]. zdec. reflexivity.
  - rewrite (anti_edges _ _ _ _ _ _ _ _ _ _ _ _ H1 H3). unfold shared, veqb. cbn [fst snd]. zdec. reflexivity.
  - rewrite (anti_edges _ _ _ _ _ _ _ _ _ _ _ _ H2 H4). unfold shared, veqb. cbn [fst snd]. zdec. reflexivity.
Qed.

(** the loop product for any starting corner and any direction *)
Lemma loop_var_value r c x y E1 E2 E3 E4 : face_edges r c x y E1 E2 E3 E4 ->
  forall s d, (s < 4)%nat -> loop_var r c x y s d = Some (prod4 E1 E2 E3 E4).
Proof.
  intros F. pose proof (face_edges_cyc4 _ _ _ _ _ _ _ _ F) as C. destruct F as [H1 [H2 [H3 H4]]].
  pose proof (edge_swap _ _ _ _ _ _ _ H1) as S1. pose proof (edge_swap _ _ _ _ _ _ _ H2) as S2.
  pose proof (edge_swap _ _ _ _ _ _ _ H3) as S3. pose proof (edge_swap _ _ _ _ _ _ _ H4) as S4.
  pose proof (cyc4_rot_cyc _ _ _ _ _ C) as C1. pose proof (cyc4_rot_cyc _ _ _ _ _ C1) as C2.
  pose proof (cyc4_rot_cyc _ _ _ _ _ C2) as C3.
  pose proof (prod4_rot _ _ _ _ _ C) as R1. pose proof (prod4_rot _ _ _ _ _ C1) as R2.
  pose proof (prod4_rot _ _ _ _ _ C2) as R3.
  intros s d Hs.
  destruct s as [|[|[|[|s]]]]; [| | | |lia]; destruct d; unfold loop_var, Eof;
    cbv [corner Nat.modulo Nat.divmod Nat.add Nat.sub fst snd];
    rewrite ?H1, ?H2, ?H3, ?H4, ?S1, ?S2, ?S3, ?S4; cbn [omul]; f_equal;
    fold (prod4 E1 E2 E3 E4); fold (prod4 E2 E3 E4 E1); fold (prod4 E3 E4 E1 E2); fold (prod4 E4 E1 E2 E3);
    fold (prod4 (pneg E4) (pneg E3) (pneg E2) (pneg E1)); fold (prod4 (pneg E1) (pneg E4) (pneg E3) (pneg E2));
    fold (prod4 (pneg E2) (pneg E1) (pneg E4) (pneg E3)); fold (prod4 (pneg E3) (pneg E2) (pneg E1) (pneg E4)).
  - apply (prod4_rev _ _ _ _ _ C).
  - exact R1.
  - rewrite (prod4_rev _ _ _ _ _ C1). exact R1.
  - rewrite R2. exact R1.
  - rewrite (prod4_rev _ _ _ _ _ C2), R2. exact R1.
  - rewrite R3, R2. exact R1.
  - rewrite (prod4_rev _ _ _ _ _ C3), R3, R2. exact R1.
Qed.

(* ------------------------------------------------------------------------------------ *)
(** * the loop product commutes with every vertex / edge operator, every other loop product and
      every string of the encoded operator (from R alone) *)

Lemma anti_false_commutes a b : anti a b = false -> pcommutes a b = true.
Proof. unfold anti. destruct (pcommutes a b); [reflexivity|discriminate]. Qed.
Lemma commutes_anti_false a b : pcommutes a b = true -> anti a b = false.
Proof. unfold anti. intros ->. reflexivity. Qed.

Lemma loop_anti_vertex r c x y E1 E2 E3 E4 u v V : face_edges r c x y E1 E2 E3 E4 ->
  m_vertex r c u v = Some V -> anti (prod4 E1 E2 E3 E4) V = false.
Proof.
  intros F HV. pose proof (face_edges_cyc4 _ _ _ _ _ _ _ _ F) as C. destruct F as [H1 [H2 [H3 H4]]].
  destruct (vertex_wf _ _ _ _ _ HV) as [WV _].
  rewrite (anti_prod4 _ _ _ _ _ _ C WV). unfold anti.
  rewrite (edge_vertex_commutation _ _ _ _ _ _ _ _ _ _ H1 HV), (edge_vertex_commutation _ _ _ _ _ _ _ _ _ _ H2 HV),
          (edge_vertex_commutation _ _ _ _ _ _ _ _ _ _ H3 HV), (edge_vertex_commutation _ _ _ _ _ _ _ _ _ _ H4 HV).
  rewrite !negb_involutive.
  destruct (u =? x) eqn:A; destruct (u =? x + 1) eqn:B; destruct (v =? y) eqn:D; destruct (v =? y + 1) eqn:G;
    try reflexivity; exfalso; rewrite ?Z.eqb_eq in *; lia.
Qed.

Lemma loop_anti_edge r c x y E1 E2 E3 E4 kx ky lx ly E' : face_edges r c x y E1 E2 E3 E4 ->
  m_edge r c kx ky lx ly = Some E' -> anti (prod4 E1 E2 E3 E4) E' = false.
Proof.
  intros F HE. pose proof (face_edges_cyc4 _ _ _ _ _ _ _ _ F) as C. destruct F as [H1 [H2 [H3 H4]]].
  destruct (edge_wf _ _ _ _ _ _ _ HE) as [WE _].
  rewrite (anti_prod4 _ _ _ _ _ _ C WE).
  rewrite (anti_edges _ _ _ _ _ _ _ _ _ _ _ _ H1 HE), (anti_edges _ _ _ _ _ _ _ _ _ _ _ _ H2 HE),
          (anti_edges _ _ _ _ _ _ _ _ _ _ _ _ H3 HE), (anti_edges _ _ _ _ _ _ _ _ _ _ _ _ H4 HE).
  unfold shared. cbn [fst snd].
  set (m0 := veqb (x, y) (kx, ky) || veqb (x, y) (lx, ly)).
  set (m1 := veqb (x, y + 1) (kx, ky) || veqb (x, y + 1) (lx, ly)).
  set (m2 := veqb (x + 1, y + 1) (kx, ky) || veqb (x + 1, y + 1) (lx, ly)).
  set (m3 := veqb (x + 1, y) (kx, ky) || veqb (x + 1, y) (lx, ly)).
  clearbody m0 m1 m2 m3. destruct m0, m1, m2, m3; reflexivity.
Qed.

Lemma loop_anti_loop r c x y E1 E2 E3 E4 x' y' F1 F2 F3 F4 :
  face_edges r c x y E1 E2 E3 E4 -> face_edges r c x' y' F1 F2 F3 F4 ->
  anti (prod4 E1 E2 E3 E4) (prod4 F1 F2 F3 F4) = false.
Proof.
  intros F F'. pose proof (face_edges_cyc4 _ _ _ _ _ _ _ _ F) as C.
  pose proof (face_edges_cyc4 _ _ _ _ _ _ _ _ F') as C'.
  rewrite anti_sym, (anti_prod4 _ _ _ _ _ _ C' (prod4_wf _ _ _ _ _ C)).
  destruct F' as [H1 [H2 [H3 H4]]].
  rewrite (anti_sym F1), (anti_sym F2), (anti_sym F3), (anti_sym F4).
  rewrite (loop_anti_edge _ _ _ _ _ _ _ _ _ _ _ _ _ F H1), (loop_anti_edge _ _ _ _ _ _ _ _ _ _ _ _ _ F H2),
          (loop_anti_edge _ _ _ _ _ _ _ _ _ _ _ _ _ F H3), (loop_anti_edge _ _ _ _ _ _ _ _ _ _ _ _ _ F H4).
  reflexivity.
Qed.

Lemma loop_commutes_terms r c x y E1 E2 E3 E4 t p : face_edges r c x y E1 E2 E3 E4 ->
  In t (term_strings r c) -> t = Some p -> pcommutes p (prod4 E1 E2 E3 E4) = true.
Proof.
  intros F Ht ->. pose proof (face_edges_cyc4 _ _ _ _ _ _ _ _ F) as C.
  pose proof (prod4_wf _ _ _ _ _ C) as WL.
  rewrite pcommutes_sym. apply anti_false_commutes.
  unfold term_strings in Ht. apply in_app_or in Ht. destruct Ht as [H|H].
  - apply in_map_iff in H. destruct H as [i [H _]].
    destruct (vertex_at_some _ _ _ _ H) as [u [v [_ HV]]]. apply (loop_anti_vertex _ _ _ _ _ _ _ _ _ _ _ F HV).
  - destruct H as [H|H].
    { injection H as <-. apply commutes_anti_false. apply pcommutes_identity_r. }
    apply in_flat_map in H. destruct H as [[i j] [_ H]]. unfold hop_strings in H. cbn [fst snd] in H.
    destruct H as [H|[H|[]]]; apply omul_some in H; destruct H as [E [V [HE [HV ->]]]];
      destruct (edge_at_some _ _ _ _ _ HE) as [ix [iy [jx [jy [_ [_ HE']]]]]];
      destruct (vertex_at_some _ _ _ _ HV) as [u [v [_ HV']]];
      destruct (edge_wf _ _ _ _ _ _ _ HE') as [WE _]; destruct (vertex_wf _ _ _ _ _ HV') as [WV _];
      rewrite (anti_pmul_r _ _ _ _ WE WV WL),
              (loop_anti_edge _ _ _ _ _ _ _ _ _ _ _ _ _ F HE'), (loop_anti_vertex _ _ _ _ _ _ _ _ _ _ _ F HV');
      reflexivity.
Qed.

(* ------------------------------------------------------------------------------------ *)
(** * edge operators restricted to a window of valid sites *)

Lemma eq_of_shift a b ix iy jx jy :
  eq_of (ix + 2 * a) (iy + 2 * b) (jx + 2 * a) (jy + 2 * b) = eq_of ix iy jx jy.
Proof. unfold eq_of. rewrite ecase_shift, eqb_shift, mod2_shift. reflexivity. Qed.

(** the string of E_ij on the window [W], from coordinates only *)
Definition redge (W : list site) (ix iy jx jy : Z) : pstr :=
  {| pz := map (fun s => fst (elet ix iy jx jy s)) W;
     px := map (fun s => snd (elet ix iy jx jy s)) W;
     pq := eq_of ix iy jx jy |}.

Lemma wrestrict_edge r c W ix iy jx jy E :
  m_edge r c ix iy jx jy = Some E -> (forall s, In s W -> svalid r c s) ->
  wrestrict (map (sidx r c) W) E = redge W ix iy jx jy.
Proof.
  intros H V. pose proof (edge_char _ _ _ _ _ _ _ H) as C. cbv zeta in C.
  destruct C as [_ [_ [_ [_ [Q _]]]]].
  unfold wrestrict, redge, sel. rewrite !map_map. f_equal.
  - apply map_ext_in. intros s I. rewrite <- (edge_letter_site r c ix iy jx jy E s H (V s I)). reflexivity.
  - apply map_ext_in. intros s I. rewrite <- (edge_letter_site r c ix iy jx jy E s H (V s I)). reflexivity.
  - exact Q.
Qed.

Lemma redge_shift a b W ix iy jx jy :
  redge (map (shs a b) W) (ix + 2 * a) (iy + 2 * b) (jx + 2 * a) (jy + 2 * b) = redge W ix iy jx jy.
Proof.
  unfold redge. rewrite !map_map, eq_of_shift. f_equal; apply map_ext; intros s; rewrite elet_shift; reflexivity.
Qed.

Lemma supp_in_incl ps ps' u : (forall k, In k ps -> In k ps') -> supp_in ps u -> supp_in ps' u.
Proof. intros I S k Hk. apply S. intros C. apply Hk. apply I. exact C. Qed.

Lemma edge_supp_window r c W ix iy jx jy E : m_edge r c ix iy jx jy = Some E ->
  incl (esites_p true ix iy jx jy) W -> psupp (map (sidx r c) W) E.
Proof.
  intros H I. destruct (esites_supp _ _ _ _ _ _ _ H) as [Sz Sx].
  assert (J : forall k, In k (map (sidx r c) (esites_p (epres r c ix iy jx jy) ix iy jx jy)) -> In k (map (sidx r c) W)).
  { intros k Hk. apply in_map_iff in Hk. destruct Hk as [s [<- Hs]]. apply in_map. apply I.
    unfold esites_p in *. destruct (epres r c ix iy jx jy); [exact Hs|].
    apply in_app_or in Hs. destruct Hs as [Hs|[]]. apply in_or_app. left. exact Hs. }
  split; eapply supp_in_incl; eauto.
Qed.

Lemma site_eqb_eq s s' : site_eqb s s' = true -> s = s'.
Proof.
  destruct s as [x y|x y], s' as [u v|u v]; cbn; try discriminate; intros H;
    apply andb_true_iff in H; destruct H as [H1 H2]; apply Z.eqb_eq in H1, H2; subst; reflexivity.
Qed.
Definition sincl (l W : list site) : bool := forallb (fun s => existsb (site_eqb s) W) l.
Lemma sincl_sound l W : sincl l W = true -> incl l W.
Proof.
  unfold sincl. rewrite forallb_forall. intros H s I. specialize (H s I). apply existsb_exists in H.
  destruct H as [s' [I' E]]. apply site_eqb_eq in E. subst. exact I'.
Qed.

Lemma nodup_sidx r c W : (forall s, In s W -> svalid r c s) -> NoDup W -> NoDup (map (sidx r c) W).
Proof.
  induction W as [|s W IH]; intros V ND; [constructor|]. inversion ND as [|? ? Hn ND']; subst.
  cbn [map]. constructor.
  - intros I. apply in_map_iff in I. destruct I as [s' [E I]]. apply Hn.
    assert (Q : Nat.eqb (sidx r c s') (sidx r c s) = true) by (apply Nat.eqb_eq; exact E).
    rewrite (sidx_inj r c s' s (V s' (or_intror I)) (V s (or_introl eq_refl))) in Q.
    apply site_eqb_eq in Q. subst. exact I.
  - apply IH; [intros s' I; apply V; right; exact I|exact ND'].
Qed.

Lemma letter_at_pmul n k a b : wfp n a -> wfp n b ->
  letter_at k (pmul a b) = (xorb (fst (letter_at k a)) (fst (letter_at k b)), xorb (snd (letter_at k a)) (snd (letter_at k b))).
Proof.
  intros [Za Xa] [Zb Xb]. unfold letter_at, pmul. cbn [pz px fst snd]. rewrite !nth_bxor by congruence. reflexivity.
Qed.

(* ------------------------------------------------------------------------------------ *)
(** * faces with an auxiliary qubit: the loop product is the identity string, phase +1 *)

(** corners and auxiliary qubit of the face with lower corner (p, q) *)
Definition fwin (p q : Z) : list site := [SV p q; SV p (q + 1); SV (p + 1) (q + 1); SV (p + 1) q; SF p q].

Ltac nodup_sites :=
  repeat (constructor;
          [ cbn [In]; let HH := fresh "HH" in intros HH;
            repeat (destruct HH as [HH|HH]; [try discriminate HH; injection HH; intros; lia|]); exact HH | ]);
  constructor.

Lemma aux_core r c p q a b E1 E2 E3 E4 :
  (p = 0 /\ q = 0) \/ (p = 1 /\ q = 1) ->
  0 <= p + 2 * a < r - 1 -> 0 <= q + 2 * b < c - 1 ->
  m_edge r c (p + 2 * a) (q + 2 * b) (p + 2 * a) (q + 1 + 2 * b) = Some E1 ->
  m_edge r c (p + 2 * a) (q + 1 + 2 * b) (p + 1 + 2 * a) (q + 1 + 2 * b) = Some E2 ->
  m_edge r c (p + 1 + 2 * a) (q + 1 + 2 * b) (p + 1 + 2 * a) (q + 2 * b) = Some E3 ->
  m_edge r c (p + 1 + 2 * a) (q + 2 * b) (p + 2 * a) (q + 2 * b) = Some E4 ->
  prod4 E1 E2 E3 E4 = pidentity (m_nsites r c).
Proof.
  intros PQ Hx Hy H1 H2 H3 H4.
  destruct (edge_wf _ _ _ _ _ _ _ H1) as [w1 _]. destruct (edge_wf _ _ _ _ _ _ _ H2) as [w2 _].
  destruct (edge_wf _ _ _ _ _ _ _ H3) as [w3 _]. destruct (edge_wf _ _ _ _ _ _ _ H4) as [w4 _].
  set (W := map (shs a b) (fwin p q)).
  assert (V : forall s, In s W -> svalid r c s).
  { intros s I. unfold W, fwin in I. cbn [map shs In] in I.
    destruct I as [<-|[<-|[<-|[<-|[<-|[]]]]]]; cbn [svalid]; destruct PQ as [[-> ->]|[-> ->]]; lia. }
  assert (ND : NoDup (map (sidx r c) W)).
  { apply nodup_sidx; [exact V|]. unfold W, fwin. cbn [map shs]. nodup_sites. }
  assert (LT : forall k, In k (map (sidx r c) W) -> (k < nq r c)%nat).
  { intros k Hk. apply in_map_iff in Hk. destruct Hk as [s [<- I]]. apply sidx_lt; [lia|lia|apply V; exact I]. }
  pose proof (wrestrict_edge r c W _ _ _ _ _ H1 V) as R1. pose proof (wrestrict_edge r c W _ _ _ _ _ H2 V) as R2.
  pose proof (wrestrict_edge r c W _ _ _ _ _ H3 V) as R3. pose proof (wrestrict_edge r c W _ _ _ _ _ H4 V) as R4.
  unfold W in R1, R2, R3, R4. rewrite redge_shift in R1, R2, R3, R4. fold W in R1, R2, R3, R4.
  assert (S1 : psupp (map (sidx r c) W) E1).
  { apply (edge_supp_window _ _ _ _ _ _ _ _ H1). unfold W. rewrite esites_shift. apply incl_map. apply sincl_sound.
    destruct PQ as [[-> ->]|[-> ->]]; vm_compute; reflexivity. }
  assert (S2 : psupp (map (sidx r c) W) E2).
  { apply (edge_supp_window _ _ _ _ _ _ _ _ H2). unfold W. rewrite esites_shift. apply incl_map. apply sincl_sound.
    destruct PQ as [[-> ->]|[-> ->]]; vm_compute; reflexivity. }
  assert (S3 : psupp (map (sidx r c) W) E3).
  { apply (edge_supp_window _ _ _ _ _ _ _ _ H3). unfold W. rewrite esites_shift. apply incl_map. apply sincl_sound.
    destruct PQ as [[-> ->]|[-> ->]]; vm_compute; reflexivity. }
  assert (S4 : psupp (map (sidx r c) W) E4).
  { apply (edge_supp_window _ _ _ _ _ _ _ _ H4). unfold W. rewrite esites_shift. apply incl_map. apply sincl_sound.
    destruct PQ as [[-> ->]|[-> ->]]; vm_compute; reflexivity. }
  assert (w12 : wfp (nq r c) (pmul E1 E2)) by (apply pmul_wf; assumption).
  assert (w123 : wfp (nq r c) (pmul (pmul E1 E2) E3)) by (apply pmul_wf; assumption).
  assert (S12 : psupp (map (sidx r c) W) (pmul E1 E2)) by (apply (psupp_pmul (nq r c)); assumption).
  assert (S123 : psupp (map (sidx r c) W) (pmul (pmul E1 E2) E3)) by (apply (psupp_pmul (nq r c)); assumption).
  apply (restrict_eq (nq r c) (map (sidx r c) W)).
  - repeat apply pmul_wf; assumption.
  - apply pidentity_wf.
  - apply (psupp_pmul (nq r c)); assumption.
  - apply psupp_identity.
  - unfold prod4.
    rewrite (restrict_pmul (nq r c) _ _ E4 w123 w4 ND LT S123 S4).
    rewrite (restrict_pmul (nq r c) _ _ E3 w12 w3 ND LT S12 S3).
    rewrite (restrict_pmul (nq r c) _ E1 E2 w1 w2 ND LT S1 S2).
    rewrite R1, R2, R3, R4, restrict_identity. unfold W. rewrite !map_length.
    destruct PQ as [[-> ->]|[-> ->]]; vm_compute; reflexivity.
Qed.

Theorem loop_aux_identity r c x y E1 E2 E3 E4 : 0 <= x < r - 1 -> 0 <= y < c - 1 -> (x + y) mod 2 = 0 ->
  face_edges r c x y E1 E2 E3 E4 -> prod4 E1 E2 E3 E4 = pidentity (m_nsites r c).
Proof.
  intros Hx Hy Hp [H1 [H2 [H3 H4]]].
  apply (aux_core r c (x mod 2) (y mod 2) (x / 2) (y / 2)); try lia.
  - replace (x mod 2 + 2 * (x / 2)) with x by lia. replace (y mod 2 + 2 * (y / 2)) with y by lia.
    replace (y mod 2 + 1 + 2 * (y / 2)) with (y + 1) by lia. exact H1.
  - replace (x mod 2 + 2 * (x / 2)) with x by lia. replace (x mod 2 + 1 + 2 * (x / 2)) with (x + 1) by lia.
    replace (y mod 2 + 1 + 2 * (y / 2)) with (y + 1) by lia. exact H2.
  - replace (x mod 2 + 1 + 2 * (x / 2)) with (x + 1) by lia. replace (y mod 2 + 2 * (y / 2)) with y by lia.
    replace (y mod 2 + 1 + 2 * (y / 2)) with (y + 1) by lia. exact H3.
  - replace (x mod 2 + 2 * (x / 2)) with x by lia. replace (x mod 2 + 1 + 2 * (x / 2)) with (x + 1) by lia.
    replace (y mod 2 + 2 * (y / 2)) with y by lia. exact H4.
Qed.

(* ------------------------------------------------------------------------------------ *)
(** * faces without auxiliary qubit: the loop product has the letter Z on the corner (x, y) *)

Lemma nonaux_core r c p q a b E1 E2 E3 E4 :
  (p = 0 /\ q = 1) \/ (p = 1 /\ q = 0) ->
  0 <= p + 2 * a < r - 1 -> 0 <= q + 2 * b < c - 1 ->
  m_edge r c (p + 2 * a) (q + 2 * b) (p + 2 * a) (q + 1 + 2 * b) = Some E1 ->
  m_edge r c (p + 2 * a) (q + 1 + 2 * b) (p + 1 + 2 * a) (q + 1 + 2 * b) = Some E2 ->
  m_edge r c (p + 1 + 2 * a) (q + 1 + 2 * b) (p + 1 + 2 * a) (q + 2 * b) = Some E3 ->
  m_edge r c (p + 1 + 2 * a) (q + 2 * b) (p + 2 * a) (q + 2 * b) = Some E4 ->
  letter_at (sidx r c (SV (p + 2 * a) (q + 2 * b))) (prod4 E1 E2 E3 E4) = lZ.
Proof.
  intros PQ Hx Hy H1 H2 H3 H4.
  destruct (edge_wf _ _ _ _ _ _ _ H1) as [w1 _]. destruct (edge_wf _ _ _ _ _ _ _ H2) as [w2 _].
  destruct (edge_wf _ _ _ _ _ _ _ H3) as [w3 _]. destruct (edge_wf _ _ _ _ _ _ _ H4) as [w4 _].
  assert (V : svalid r c (SV (p + 2 * a) (q + 2 * b))) by (cbn [svalid]; lia).
  unfold prod4.
  rewrite (letter_at_pmul (nq r c)), (letter_at_pmul (nq r c)), (letter_at_pmul (nq r c));
    try assumption; repeat apply pmul_wf; try assumption.
  rewrite (edge_letter_site _ _ _ _ _ _ _ _ H1 V), (edge_letter_site _ _ _ _ _ _ _ _ H2 V),
          (edge_letter_site _ _ _ _ _ _ _ _ H3 V), (edge_letter_site _ _ _ _ _ _ _ _ H4 V).
  change (SV (p + 2 * a) (q + 2 * b)) with (shs a b (SV p q)). rewrite !elet_shift.
  destruct PQ as [[-> ->]|[-> ->]]; vm_compute; reflexivity.
Qed.

Lemma nth_true_existsb l : forall k, nth k l false = true -> existsb (fun b : bool => b) l = true.
Proof.
  induction l as [|h t IH]; intros [|k] H; cbn in *; try discriminate.
  - rewrite H. reflexivity.
  - rewrite (IH k H). apply orb_true_r.
Qed.

Theorem loop_nonaux_nontrivial r c x y E1 E2 E3 E4 : 0 <= x < r - 1 -> 0 <= y < c - 1 -> (x + y) mod 2 = 1 ->
  face_edges r c x y E1 E2 E3 E4 -> nontrivial (prod4 E1 E2 E3 E4) = true.
Proof.
  intros Hx Hy Hp [H1 [H2 [H3 H4]]].
  assert (L : letter_at (sidx r c (SV (x mod 2 + 2 * (x / 2)) (y mod 2 + 2 * (y / 2)))) (prod4 E1 E2 E3 E4) = lZ).
  { apply (nonaux_core r c (x mod 2) (y mod 2) (x / 2) (y / 2)); try lia.
    - replace (x mod 2 + 2 * (x / 2)) with x by lia. replace (y mod 2 + 2 * (y / 2)) with y by lia.
      replace (y mod 2 + 1 + 2 * (y / 2)) with (y + 1) by lia. exact H1.
    - replace (x mod 2 + 2 * (x / 2)) with x by lia. replace (x mod 2 + 1 + 2 * (x / 2)) with (x + 1) by lia.
      replace (y mod 2 + 1 + 2 * (y / 2)) with (y + 1) by lia. exact H2.
    - replace (x mod 2 + 1 + 2 * (x / 2)) with (x + 1) by lia. replace (y mod 2 + 2 * (y / 2)) with y by lia.
      replace (y mod 2 + 1 + 2 * (y / 2)) with (y + 1) by lia. exact H3.
    - replace (x mod 2 + 2 * (x / 2)) with x by lia. replace (x mod 2 + 1 + 2 * (x / 2)) with (x + 1) by lia.
      replace (y mod 2 + 2 * (y / 2)) with y by lia. exact H4. }
  unfold letter_at, lZ in L. injection L as Lz _.
  unfold nontrivial. apply orb_true_iff. left. exact (nth_true_existsb _ _ Lz).
Qed.

(* ------------------------------------------------------------------------------------ *)
(** * the loop statements, every shape *)

(** the loop product around every face, on strings (no bound on r, c):
    - does not depend on the starting corner nor on the direction;
    - is the identity string on faces with an auxiliary qubit ((x + y) even);
    - elsewhere is a non-trivial Hermitian involution commuting with every other loop product and
      with every string the encoder can insert on this shape *)
Theorem loops_all r c x y : 0 <= x < r - 1 -> 0 <= y < c - 1 ->
  exists Lp, loop r c x y = Some Lp /\ wfp (nq r c) Lp /\
    (forall s d, (s < 4)%nat -> loop_var r c x y s d = Some Lp) /\
    (is_aux x y = true -> Lp = pidentity (m_nsites r c)) /\
    (is_aux x y = false ->
       pherm Lp = true /\ pmul Lp Lp = pidentity (m_nsites r c) /\ nontrivial Lp = true) /\
    (forall x' y' Lp', 0 <= x' < r - 1 -> 0 <= y' < c - 1 -> loop r c x' y' = Some Lp' ->
                       pcommutes Lp Lp' = true) /\
    (forall t p, In t (term_strings r c) -> t = Some p -> pcommutes p Lp = true).
Proof.
  intros Hx Hy. destruct (face_edges_exist r c x y Hx Hy) as [E1 [E2 [E3 [E4 F]]]].
  pose proof (face_edges_cyc4 _ _ _ _ _ _ _ _ F) as C.
  pose proof (loop_var_value _ _ _ _ _ _ _ _ F) as LV.
  exists (prod4 E1 E2 E3 E4).
  split; [exact (LV 0%nat true ltac:(lia))|]. split; [apply (prod4_wf _ _ _ _ _ C)|].
  split; [exact LV|]. split; [|split; [|split]].
  - unfold is_aux. intros A. apply Z.eqb_eq in A. apply (loop_aux_identity r c x y); assumption.
  - unfold is_aux. intros A. apply Z.eqb_neq in A. split; [|split].
    + unfold pherm. apply Z.eqb_eq. apply (prod4_herm _ _ _ _ _ C).
    + rewrite (prod4_involution _ _ _ _ _ C), nq_nsites by lia. reflexivity.
    + apply (loop_nonaux_nontrivial r c x y); try assumption. lia.
  - intros x' y' Lp' Hx' Hy' HL'. destruct (face_edges_exist r c x' y' Hx' Hy') as [F1 [F2 [F3 [F4 F']]]].
    pose proof (loop_var_value _ _ _ _ _ _ _ _ F' 0%nat true ltac:(lia)) as LV'.
    fold (loop r c x' y') in LV'. rewrite HL' in LV'. injection LV' as ->.
    apply anti_false_commutes. apply (loop_anti_loop _ _ _ _ _ _ _ _ _ _ _ _ _ _ F F').
  - intros t p Ht Hp. apply (loop_commutes_terms _ _ _ _ _ _ _ _ t p F Ht Hp).
Qed.

(* ------------------------------------------------------------------------------------ *)
(** * the same at the level of matrices (every commutative *-ring with i*i = -1) *)
Section MatricesAll.
  Context {K : Scalar} {L : ScalarLaws K}.
  Local Open Scope K_scope.
  Add Ring KringCl : (s_ring K L).

  (** loop products as matrices, every shape *)
  Theorem loop_matrices_all r c x y : (0 <= x < r - 1)%Z -> (0 <= y < c - 1)%Z ->
    exists Lp, loop r c x y = Some Lp /\
      (is_aux x y = true -> meq (K:=K) (nq r c) (pmatrix Lp) mid) /\
      (is_aux x y = false ->
         hermitian (K:=K) (nq r c) (pmatrix Lp) /\
         meq (K:=K) (nq r c) (mmul (nq r c) (pmatrix Lp) (pmatrix Lp)) mid /\
         (forall x' y' Lp', (0 <= x' < r - 1)%Z -> (0 <= y' < c - 1)%Z -> loop r c x' y' = Some Lp' ->
                            commM (K:=K) (nq r c) (pmatrix Lp) (pmatrix Lp'))).
  Proof.
    intros Hx Hy.
    destruct (loops_all r c x y Hx Hy) as [Lp [HL [W [_ [A [B [B4 _]]]]]]].
    exists Lp. split; [exact HL|]. split.
    - intros Ha. rewrite (A Ha). intros rr cc Hrr Hcc. apply pidentity_matrix; unfold nq in *; assumption.
    - intros Ha. destruct (B Ha) as [B1 [B2 _]]. split; [|split].
      + apply pherm_sound. exact B1.
      + eapply meq_trans; [apply meq_sym; apply (pmul_matrix (nq r c)); assumption|].
        rewrite B2. intros rr cc Hrr Hcc. apply pidentity_matrix; unfold nq in *; assumption.
      + intros x' y' Lp' Hx' Hy' HL'. apply pcommutes_sound; auto.
        * apply (loop_wf r c x' y' Lp' HL').
        * apply (B4 x' y' Lp' Hx' Hy' HL').
  Qed.

  (** the encoded operator commutes with the loop product around every face, every shape *)
  Theorem encoded_commutes_with_loops_all r c :
    forall (half : K) isz symb (hs : list (coeffs (K:=K))) op,
      encode half isz symb r c hs = Some op ->
      forall x y Lp, (0 <= x < r - 1)%Z -> (0 <= y < c - 1)%Z -> loop r c x y = Some Lp ->
        commM (K:=K) (nq r c) (opmatrix op) (pmatrix Lp).
  Proof.
    intros half isz symb hs op H x y Lp Hx Hy HL.
    destruct (loops_all r c x y Hx Hy) as [Lp0 [HL0 [W [_ [_ [_ [_ B5]]]]]]].
    rewrite HL in HL0. injection HL0 as <-.
    apply opmatrix_commutes; [exact W|].
    apply (encode_strings half isz symb (fun p => wfp (nq r c) p /\ pcommutes p Lp = true) r c hs op); [|exact H].
    intros t p Ht Hp. split; [exact (term_strings_wf r c t p Ht Hp)|]. exact (B5 t p Ht Hp).
  Qed.
End MatricesAll.

(* ------------------------------------------------------------------------------------ *)
(** * the decision procedures of CompactRel are true on EVERY shape
      (what CompactBounded.sweep_upto_6 evaluates for r, c <= 6) *)

Lemma peqb_refl p : peqb p p = true.
Proof. unfold peqb. rewrite !beq_refl, Z.eqb_refl. reflexivity. Qed.

Lemma coords_in_inv r c x y : In (x, y) (coords r c) -> 0 <= x < r /\ 0 <= y < c.
Proof.
  unfold coords. intros H. apply in_flat_map in H. destruct H as [x' [Hx H]].
  apply in_map_iff in H. destruct H as [y' [E Hy]]. injection E as -> ->.
  split; apply zrange_in_inv; assumption.
Qed.

Lemma dedges_in_inv r c ix iy jx jy : In ((ix, iy), (jx, jy)) (dedges r c) ->
  (0 <= ix < r /\ 0 <= iy < c) /\ (0 <= jx < r /\ 0 <= jy < c) /\ is_nn ix iy jx jy = true.
Proof.
  unfold dedges. intros H. apply filter_In in H. destruct H as [H NN]. cbn [fst snd] in NN.
  apply in_prod_iff in H. destruct H as [Hi Hj]. apply coords_in_inv in Hi, Hj. auto.
Qed.

Theorem rel_ok_all r c : 1 <= r -> 1 <= c -> rel_ok r c = true.
Proof.
  intros Hr Hc. unfold rel_ok. apply andb_true_iff. split; apply forallb_forall.
  - intros [x y] I. apply coords_in_inv in I. destruct I as [Ix Iy].
    destruct (vertex_defined r c x y Ix Iy) as [V HV]. unfold vertex_ok, Vof. cbn [fst snd]. rewrite HV. cbn [otest].
    apply (vertex_wf _ _ _ _ _ HV).
  - intros [[ix iy] [jx jy]] I. apply dedges_in_inv in I. destruct I as [[Iix Iiy] [[Ijx Ijy] NN]].
    destruct (edge_defined r c ix iy jx jy Iix Iiy Ijx Ijy NN) as [E HE].
    destruct (edge_wf _ _ _ _ _ _ _ HE) as [WE PE].
    unfold edge_ok, Eof. cbn [fst snd]. rewrite HE. cbn [otest].
    rewrite PE, (edge_swap _ _ _ _ _ _ _ HE). cbn [otest andb]. rewrite peqb_refl.
    unfold pherm in PE. apply Z.eqb_eq in PE.
    rewrite (pmul_self (nq r c) E WE PE), (nq_nsites r c Hr Hc), peqb_refl. cbn [andb].
    apply andb_true_iff. split; apply forallb_forall.
    + intros [u v] Iv. apply coords_in_inv in Iv. destruct Iv as [Iu Iv].
      destruct (vertex_defined r c u v Iu Iv) as [V HV]. unfold Vof. cbn [fst snd]. rewrite HV. cbn [otest].
      rewrite (edge_vertex_commutation _ _ _ _ _ _ _ _ _ _ HE HV). unfold veqb. cbn [fst snd]. apply eqb_reflx.
    + intros [[kx ky] [lx ly]] I'. apply dedges_in_inv in I'. destruct I' as [[Ikx Iky] [[Ilx Ily] NN']].
      destruct (edge_defined r c kx ky lx ly Ikx Iky Ilx Ily NN') as [E' HE'].
      unfold Eof. cbn [fst snd]. rewrite HE'. cbn [otest].
      rewrite (R_edge_edge _ _ _ _ _ _ _ _ _ _ _ _ HE HE'). apply eqb_reflx.
Qed.

Theorem loops_ok_all r c : loops_ok r c = true.
Proof.
  unfold loops_ok. apply forallb_forall. intros [x y] I. apply faces_in_inv in I. destruct I as [Hx Hy].
  destruct (loops_all r c x y Hx Hy) as [Lp [HL [W [LV [A [B [B4 B5]]]]]]].
  unfold face_ok. rewrite HL. cbn [otest]. apply andb_true_iff. split.
  - cbn [forallb].
    rewrite (LV 0%nat true), (LV 0%nat false), (LV 1%nat true), (LV 1%nat false),
            (LV 2%nat true), (LV 2%nat false), (LV 3%nat true), (LV 3%nat false) by lia.
    cbn [otest]. rewrite peqb_refl. reflexivity.
  - destruct (is_aux x y) eqn:Ha.
    + rewrite (A eq_refl). apply peqb_refl.
    + destruct (B eq_refl) as [B1 [B2 B3]]. rewrite B1, B2, B3, peqb_refl. cbn [andb].
      apply andb_true_iff. split; apply forallb_forall.
      * intros [x' y'] I'. apply faces_in_inv in I'. destruct I' as [Hx' Hy']. cbn [fst snd].
        destruct (loops_all r c x' y' Hx' Hy') as [Lp' [HL' _]]. rewrite HL'. cbn [otest].
        apply (B4 x' y' Lp' Hx' Hy' HL').
      * intros [p|] It; cbn [commutes_opt]; [apply (B5 (Some p) p It eq_refl)|reflexivity].
Qed.

(** unbounded counterpart of CompactBounded.sweep_upto_6 *)
Theorem shape_ok_all r c : 1 <= r -> 1 <= c -> shape_ok (r, c) = true.
Proof.
  intros Hr Hc. unfold shape_ok. cbn [fst snd]. rewrite (rel_ok_all r c Hr Hc), loops_ok_all. reflexivity.
Qed.
