(** Executable model of the COMPOSITE gate classes of qib.operator.gates
    (ControlledGate, MultiplexedGate, BlockEncodingGate, TimeEvolutionGate, PrepareGate,
    GeneralGate) over ABSTRACT leaves.  No proofs here.

    Matrices are [BMx K] (rows/columns = bit lists, wire 0 first = most significant =
    numpy's kron order).  The combinators in the first part are the targets of the
    translator gen/gates_comp.py: it turns the numpy expressions found in the source into
    terms over [kron], [mdiag], [vcompl], [onehot], [madd], [mscal], [mopp], [msub], [block2],
    [block_diag], [madj], [mtransp], [mid]. *)
From Qib Require Export Base.BMx.

Definition allP {A} (P : A -> Prop) : list A -> Prop :=
  fix go (l : list A) : Prop := match l with [] => True | x :: l' => P x /\ go l' end.

Section CompModel.
  Context {K : Scalar}.
  Local Open Scope K_scope.

  (** ---- numpy expression combinators ------------------------------------------------ *)
  (** np.diag(v) for a vector v indexed by bit lists *)
  Definition mdiag (v : bits -> K) : BMx K := fun r c => if beq r c then v r else 0.
  (** 1 - v *)
  Definition vcompl (v : bits -> K) : bits -> K := fun b => 1 - v b.
  (** cidx = np.zeros(2**n); cidx[ic] = 1   (numpy index ic <-> bit list with b2n = ic) *)
  Definition onehot (ic : nat) : bits -> K := fun b => if Nat.eqb (b2n b) ic then 1 else 0.
  Definition mopp (A : BMx K) : BMx K := fun r c => - A r c.
  Definition msub (A B : BMx K) : BMx K := fun r c => A r c - B r c.
  (** A.T *)
  Definition mtransp (A : BMx K) : BMx K := fun r c => A c r.
  (** np.block([[A, B], [C, D]]) with square blocks of equal size: the new wire is the
      most significant one *)
  Definition block2 (A B C D : BMx K) : BMx K := fun r c =>
    match r, c with
    | rb :: r', cb :: c' =>
        (if rb then (if cb then D else C) else (if cb then B else A)) r' c'
    | _, _ => 0
    end.
  (** block-diagonal matrix whose block number k (read off the first nc bits) is F k *)
  Definition bdiag (nc : nat) (F : bits -> BMx K) : BMx K := fun r c =>
    if beq (firstn nc r) (firstn nc c) then F (firstn nc r) (skipn nc r) (skipn nc c) else 0.
  (** scipy.linalg.block_diag of the list ms for 2^nc blocks of equal size 2^nt *)
  Definition block_diag (nc : nat) (ms : list (BMx K)) : BMx K :=
    bdiag nc (fun k => nth (b2n k) ms mzero).

  (** ---- ControlledGate.as_matrix ---------------------------------------------------- *)
  (** the loop   ic = 0; for j in range(ncontrols): if ctrl_state[j] == 1: ic += 1 << (ncontrols-1-j)
      with the loop body as a parameter (the translator regenerates the body) *)
  Definition bz (b : bool) : Z := if b then 1%Z else 0%Z.
  Definition ctrl_loop (step : Z -> Z -> Z -> Z -> Z) (init : Z) (ncontrols : nat) (ctrl_state : list bool) : Z :=
    fold_left (fun ic j => step (Z.of_nat ncontrols) (bz (nth j ctrl_state false)) (Z.of_nat j) ic)
              (seq 0 ncontrols) init.
  (** body as it is in the source today: (ncontrols, ctrl_state[j], j, ic) -> new ic *)
  Definition ctrl_step (ncontrols csj j ic : Z) : Z :=
    if Z.eqb csj 1 then (ic + Z.shiftl 1 (ncontrols - 1 - j))%Z else ic.
  Definition ctrl_index (pat : list bool) : nat := Z.to_nat (ctrl_loop ctrl_step 0%Z (length pat) pat).

  (** np.kron(np.diag(1 - cidx), np.identity(..)) + np.kron(np.diag(cidx), tgmat) *)
  Definition ctrl_mat_at (nc ic : nat) (U : BMx K) : BMx K :=
    let cidx := onehot ic in
    madd (kron nc (mdiag (vcompl cidx)) mid) (kron nc (mdiag cidx) U).
  Definition ctrl_mat (pat : list bool) (U : BMx K) : BMx K :=
    ctrl_mat_at (length pat) (ctrl_index pat) U.

  (** ---- BlockEncodingGate ----------------------------------------------------------- *)
  Inductive bemethod := Wx | Wxi | BR.
  Definition benc_mat (m : bemethod) (H Sq : BMx K) : BMx K :=
    match m with
    | Wx => block2 H (mscal sI Sq) (mscal sI Sq) H
    | Wxi => block2 H (mscal (- sI) Sq) (mscal (- sI) Sq) H
    | BR => block2 H Sq Sq (mopp H)
    end.
  Definition benc_inv_method (m : bemethod) : bemethod :=
    match m with Wx => Wxi | Wxi => Wx | BR => BR end.
  Definition benc_herm (m : bemethod) : bool :=
    match m with Wx => false | Wxi => false | BR => true end.

  (** ---- TimeEvolutionGate: the argument handed to expm ------------------------------ *)
  Definition tevo_arg (t : K) (H : BMx K) : BMx K := mscal (- sI * t) H.
  (** qUCC: expm(T - T^dagger) *)
  Definition qucc_arg (T : BMx K) : BMx K := msub T (madj T).
  Definition antiherm (n : nat) (A : BMx K) : Prop := meq n (madj A) (mopp A).

  (** ---- PrepareGate ----------------------------------------------------------------- *)
  Definition is_zero_idx (c : bits) : bool := forallb negb c.
  (** Q[:, 0] = -Q[:, 0] *)
  Definition negcol0 (Q : BMx K) : BMx K := fun r c => if is_zero_idx c then - Q r c else Q r c.
  (** Q0 = what np.linalg.qr returned, flip = (np.dot(x, Q0[:,0]) < 0) *)
  Definition prep_mat (Q0 : BMx K) (flip tr : bool) : BMx K :=
    let Q := if flip then negcol0 Q0 else Q0 in
    if tr then mtransp Q else Q.

  (** ---- GeneralGate: constructor decision rule and is_hermitian ---------------------- *)
  (** np.allclose(A, B) for an entrywise closeness test [close a b] (numpy:
      |a - b| <= atol + rtol * |b|) *)
  Definition allclose (close : K -> K -> bool) (n : nat) (A B : BMx K) : bool :=
    forallb (fun r => forallb (fun c => close (A r c) (B r c)) (all_bits n)) (all_bits n).
  Definition shape_ok (n : nat) (rows : list (list K)) : bool :=
    Nat.eqb (length rows) (2 ^ n) && forallb (fun row => Nat.eqb (length row) (2 ^ n)) rows.
  (** accepted (true) / ValueError (false) *)
  Definition general_accept (close : K -> K -> bool) (n : nat) (rows : list (list K)) : bool :=
    shape_ok n rows && allclose close n (mmul n (mxl rows) (madj (mxl rows))) mid.
  Definition general_is_hermitian (close : K -> K -> bool) (n : nat) (M : BMx K) : bool :=
    allclose close n M (madj M).

  (** ---- gate trees ------------------------------------------------------------------ *)
  (** "E is what scipy.linalg.expm returns on A" (relation, so that the correspondence run
      can take E from the implementation) *)
  Variable is_expm : nat -> BMx K -> BMx K -> Prop.

  (** particles are numbered by the harness *)
  Inductive cgate :=
  | Leaf (nw : nat) (U Ui : BMx K) (h : bool) (ps : list nat)
      (* any elementary gate: its matrix, the matrix of its inverse(), its is_hermitian() *)
  | Ctrl (pat : list bool) (cq : list nat) (g : cgate)
  | Mux (nc : nat) (cq : list nat) (gs : list cgate)
  | BEnc (m : bemethod) (n : nat) (H Sq : BMx K) (aux hp : list nat)
  | TEvo (n : nat) (H : BMx K) (t : K) (E Ei : BMx K) (hp : list nat)
  | Prep (n : nat) (Q0 : BMx K) (flip tr : bool) (qs : list nat)
  | Gen (n : nat) (M : BMx K) (h : bool) (ps : list nat).

  Fixpoint num_wires (g : cgate) : nat :=
    match g with
    | Leaf nw _ _ _ _ => nw
    | Ctrl pat _ g' => length pat + num_wires g'
    | Mux nc _ gs => nc + (match gs with [] => 0 | g0 :: _ => num_wires g0 end)
    | BEnc _ n _ _ _ _ => Datatypes.S n
    | TEvo n _ _ _ _ _ => n
    | Prep n _ _ _ _ => n
    | Gen n _ _ _ => n
    end.

  Fixpoint matrix (g : cgate) : BMx K :=
    match g with
    | Leaf _ U _ _ _ => U
    | Ctrl pat _ g' => ctrl_mat pat (matrix g')
    | Mux nc _ gs => block_diag nc (map matrix gs)
    | BEnc m _ H Sq _ _ => benc_mat m H Sq
    | TEvo _ _ _ E _ _ => E
    | Prep _ Q0 flip tr _ => prep_mat Q0 flip tr
    | Gen _ M _ _ => M
    end.

  (** number of rows numpy reports (kron multiplies, block_diag adds, np.block doubles) *)
  Fixpoint shape (g : cgate) : nat :=
    match g with
    | Leaf nw _ _ _ _ => 2 ^ nw
    | Ctrl pat _ g' => 2 ^ length pat * shape g'
    | Mux _ _ gs => fold_right (fun x acc => (shape x + acc)%nat) 0%nat gs
    | BEnc _ n _ _ _ _ => 2 ^ n + 2 ^ n
    | TEvo n _ _ _ _ _ => 2 ^ n
    | Prep n _ _ _ _ => 2 ^ n
    | Gen n _ _ _ => 2 ^ n
    end.

  Fixpoint is_herm (g : cgate) : bool :=
    match g with
    | Leaf _ _ _ h _ => h
    | Ctrl _ _ g' => is_herm g'
    | Mux _ _ gs => forallb is_herm gs
    | BEnc m _ _ _ _ _ => benc_herm m
    | TEvo _ _ _ _ _ _ => false
    | Prep _ _ _ _ _ => false
    | Gen _ _ h _ => h
    end.

  Fixpoint particles (g : cgate) : list nat :=
    match g with
    | Leaf _ _ _ _ ps => ps
    | Ctrl _ cq g' => cq ++ particles g'
    | Mux _ cq gs => cq ++ (match gs with [] => [] | g0 :: _ => particles g0 end)
    | BEnc _ _ _ _ aux hp => aux ++ hp
    | TEvo _ _ _ _ _ hp => hp
    | Prep _ _ _ _ qs => qs
    | Gen _ _ _ ps => ps
    end.

  (** inverse() of the (repaired) code *)
  Fixpoint inverse (g : cgate) : cgate :=
    match g with
    | Leaf nw U Ui h ps => Leaf nw Ui U h ps
    | Ctrl pat cq g' => Ctrl pat cq (inverse g')
    | Mux nc cq gs => Mux nc cq (map inverse gs)
    | BEnc m n H Sq aux hp => BEnc (benc_inv_method m) n H Sq aux hp
    | TEvo n H t E Ei hp => TEvo n H (- t) Ei E hp
    | Prep n Q0 flip tr qs => Prep n Q0 flip (negb tr) qs
    | Gen n M h ps => Gen n (madj M) h ps
    end.

  Definition real_orth (n : nat) (Q : BMx K) : Prop :=
    (forall r c, length r = n -> length c = n -> (Q r c)^* = Q r c)
    /\ meq n (mmul n Q (mtransp Q)) mid /\ meq n (mmul n (mtransp Q) Q) mid.

  (** what the nesting theorem assumes about the parts *)
  Fixpoint wf (g : cgate) : Prop :=
    match g with
    | Leaf nw U Ui h _ => unitary nw U /\ meq nw Ui (madj U) /\ (h = true -> hermitian nw U)
    | Ctrl _ _ g' => wf g'
    | Mux nc _ gs =>
        length gs = 2 ^ nc /\
        let nt : nat := match gs with [] => 0%nat | g0 :: _ => num_wires g0 end in
        allP (fun x => wf x /\ num_wires x = nt) gs
    | BEnc _ n H Sq _ _ =>
        hermitian n H /\ hermitian n Sq /\ meq n (mmul n H Sq) (mmul n Sq H)
        /\ meq n (madd (mmul n H H) (mmul n Sq Sq)) mid
    | TEvo n H t E Ei _ =>
        hermitian n H /\ t^* = t /\ is_expm n (tevo_arg t H) E /\ is_expm n (tevo_arg (- t) H) Ei
    | Prep n Q0 _ _ _ => real_orth n Q0
    | Gen n M h _ => unitary n M /\ (h = true -> hermitian n M)
    end.
End CompModel.

Arguments cgate K : clear implicits.
