(** Instantiation of the generic gate theorems at the complex numbers (Coquelicot's C = R * R),
    and the meaning of the translator's atom specifications over real parameters.
    This is the only place where the standard library's real-number axioms enter. *)
From Coq Require Import Reals Lra.
From Coquelicot Require Import Complex.
From Qib Require Export Gates.ElemProofs.

Definition CS : Scalar := {|
  T := C; s0 := RtoC 0; s1 := RtoC 1; sI := Ci;
  sadd := Cplus; smul := Cmult; ssub := Cminus; sopp := Copp; sconj := Cconj |}.

Canonical Structure CS.

Lemma CS_laws : ScalarLaws CS.
Proof.
  constructor.
  - exact C_ring_theory.
  - intros [a b] [c d]. apply injective_projections; cbn; ring.
  - intros [a b] [c d]. apply injective_projections; cbn; ring.
  - intros [a b]. apply injective_projections; cbn; ring.
  - apply injective_projections; cbn; ring.
  - apply injective_projections; cbn; ring.
  - apply injective_projections; cbn; ring.
  - intros [a b]. apply injective_projections; cbn; ring.
  - apply injective_projections; cbn; ring.
Qed.
#[export] Existing Instance CS_laws.

Local Open Scope R_scope.

(** ------------------------------------------------------------------ meaning of the ASTs *)
Fixpoint reval (par : nat -> R) (atm : nat -> C) (e : rexpr) : R :=
  match e with
  | RPar k => par k
  | RAtom k => fst (atm k)
  | RNum z => IZR z
  | RPi => PI
  | RNeg a => - reval par atm a
  | RAdd a b => reval par atm a + reval par atm b
  | RSub a b => reval par atm a - reval par atm b
  | RMul a b => reval par atm a * reval par atm b
  | RDiv a b => reval par atm a / reval par atm b
  end.

Fixpoint sumsq (par : nat -> R) (ks : list nat) : R :=
  match ks with [] => 0 | k :: ks' => par k * par k + sumsq par ks' end.

(** np.cos / np.sin / np.sqrt on reals are cos / sin / sqrt; np.exp(1j*x) is cos x + i sin x
    (the complex exponential; its identification with the power series is background);
    np.linalg.norm is the Euclidean norm *)
Definition aeval (par : nat -> R) (atm : nat -> C) (a : aspec) : C :=
  match a with
  | APar k => RtoC (par k)
  | ACos e => RtoC (cos (reval par atm e))
  | ASin e => RtoC (sin (reval par atm e))
  | AExpI e => (cos (reval par atm e), sin (reval par atm e))
  | ASqrt e => RtoC (sqrt (reval par atm e))
  | ANorm ks => RtoC (sqrt (sumsq par ks))
  | AInv k => RtoC (/ fst (atm k))
  end.

Definition c0 : C := RtoC 0.
Fixpoint atoms_aux (par : nat -> R) (specs : list aspec) (done : list C) : list C :=
  match specs with
  | [] => done
  | a :: rest => atoms_aux par rest (done ++ [aeval par (fun k => nth k done c0) a])
  end.
Definition rpar (params : list R) : nat -> R := fun k => nth k params 0.
Definition atoms_R (specs : list aspec) (params : list R) : list C :=
  atoms_aux (rpar params) specs [].

(** the matrix a gate with real parameters [params] (and integer parameter n) reports;
    g is the value of the `== 0` guard, constrained by [guard_ok] *)
Definition matrix_R (db : gatedb) (c : gcls) (n : nat) (params : list R) (g : bool) : BMx CS :=
  db_mat db CS c g n (atoms_R (db_atoms db c) params).

Definition guard_ok (db : gatedb) (c : gcls) (params : list R) (g : bool) : Prop :=
  match db_guard db c with
  | None => g = false
  | Some k => g = true <-> fst (nth k (atoms_R (db_atoms db c) params) c0) = 0
  end.

(** parameters / integer parameter / matrix of the gate inverse() constructs *)
Definition inv_params (db : gatedb) (c : gcls) (params : list R) : list R :=
  match db_inv db c with
  | InvNew _ (MParams ps) _ _ _ => map (reval (rpar params) (fun _ => c0)) ps
  | _ => params
  end.
Definition inv_n (db : gatedb) (c : gcls) (n : nat) : nat :=
  match db_inv db c with
  | InvNew _ _ (NWConst m) _ _ => m
  | _ => n
  end.
Definition inv_matrix_R (db : gatedb) (c : gcls) (n : nat) (params : list R) (g g' : bool) : BMx CS :=
  match db_inv db c with
  | InvNew _ MAdjSelf _ _ _ => madj (matrix_R db c n params g)
      (* GeneralGate(self.as_matrix().conj().T, nw) reports the matrix it was given *)
  | _ => matrix_R db (inv_cls c (db_inv db c)) (inv_n db c n) (inv_params db c params) g'
  end.

(** ------------------------------------------------------------------ side conditions over R *)
Local Open Scope K_scope.

Lemma real_R (x : R) : sconj (RtoC x : CS) = RtoC x.
Proof. apply injective_projections; cbn; ring. Qed.

Lemma cs_R (x : R) :
  (RtoC (cos x) : CS) * RtoC (cos x) + (RtoC (sin x) : CS) * RtoC (sin x) = 1.
Proof.
  apply injective_projections; cbn; [|ring].
  pose proof (sin2_cos2 x) as H. unfold Rsqr in H. lra.
Qed.

Lemma expi_unit (x : R) : ((cos x, sin x) : CS) * ((cos x, sin x) : CS)^* = 1.
Proof.
  apply injective_projections; cbn; [|ring].
  pose proof (sin2_cos2 x) as H. unfold Rsqr in H. lra.
Qed.

(** Euler: the exp atom is cos + i sin *)
Lemma expi_euler (x : R) : ((cos x, sin x) : CS) = RtoC (cos x) + sI * RtoC (sin x).
Proof. apply injective_projections; cbn; ring. Qed.

Lemma sqrt_sq_R (x : R) : (0 <= x)%R -> (RtoC (sqrt x) : CS) * RtoC (sqrt x) = RtoC x.
Proof. intros H. apply injective_projections; cbn; [|ring]. rewrite sqrt_sqrt by exact H. ring. Qed.

Lemma two_R : (RtoC 2 : CS) = 1 + 1.
Proof. apply injective_projections; cbn; ring. Qed.

Lemma inv_R (x : R) : x <> 0%R -> (RtoC (/ x) : CS) * RtoC x = 1.
Proof. intros H. apply injective_projections; cbn; [|ring]. field. exact H. Qed.

Lemma sqrt2_neq0 : sqrt 2 <> 0%R.
Proof. apply Rgt_not_eq. apply sqrt_lt_R0. lra. Qed.

Lemma sumsq_nonneg par ks : (0 <= sumsq par ks)%R.
Proof. induction ks as [|k ks IH]; cbn; [lra|]. pose proof (Rle_0_sqr (par k)) as H. unfold Rsqr in H. lra. Qed.

Lemma RtoC_add_K (x y : R) : (RtoC (x + y) : CS) = RtoC x + RtoC y.
Proof. apply injective_projections; cbn; ring. Qed.
Lemma RtoC_mul_K (x y : R) : (RtoC (x * y) : CS) = RtoC x * RtoC y.
Proof. apply injective_projections; cbn; ring. Qed.
Lemma RtoC_opp_K (x : R) : (RtoC (- x) : CS) = - RtoC x.
Proof. apply injective_projections; cbn; ring. Qed.

(** trigonometric facts in the form the inverse()/group-law obligations need *)
Lemma cos_neg_eq (a b : R) : a = (- b)%R -> (RtoC (cos a) : CS) = RtoC (cos b).
Proof. intros ->. rewrite cos_neg. reflexivity. Qed.
Lemma sin_neg_eq (a b : R) : a = (- b)%R -> (RtoC (sin a) : CS) = - RtoC (sin b).
Proof. intros ->. rewrite sin_neg. apply RtoC_opp_K. Qed.
Lemma expi_neg_eq (a b : R) : a = (- b)%R -> ((cos a, sin a) : CS) = ((cos b, sin b) : CS)^*.
Proof. intros ->. rewrite cos_neg, sin_neg. reflexivity. Qed.
Lemma cos_add_K (a b : R) :
  (RtoC (cos (a + b)) : CS) = RtoC (cos a) * RtoC (cos b) - RtoC (sin a) * RtoC (sin b).
Proof. rewrite cos_plus. apply injective_projections; cbn; ring. Qed.
Lemma sin_add_K (a b : R) :
  (RtoC (sin (a + b)) : CS) = RtoC (sin a) * RtoC (cos b) + RtoC (cos a) * RtoC (sin b).
Proof. rewrite sin_plus. apply injective_projections; cbn; ring. Qed.

(** cos(pi/4) = sin(pi/4) = 1/sqrt 2 *)
Lemma cos_PI4_K : (RtoC (cos (PI / 4)) : CS) = RtoC (/ sqrt 2).
Proof. rewrite cos_PI4. f_equal. unfold Rdiv. ring. Qed.
Lemma sin_PI4_K : (RtoC (sin (PI / 4)) : CS) = RtoC (/ sqrt 2).
Proof. rewrite sin_PI4. f_equal. unfold Rdiv. ring. Qed.

(** ---- the atom bundles of ElemProofs hold for the real functions *)
Lemma cs_ok_R (x : R) : cs_ok (RtoC (cos x) : CS) (RtoC (sin x)).
Proof. repeat split; try apply real_R. apply cs_R. Qed.

Lemma h_ok_R : h_ok (RtoC (sqrt 2) : CS) (RtoC (/ sqrt 2)).
Proof.
  repeat split; try apply real_R.
  - rewrite sqrt_sq_R by lra. apply two_R.
  - apply inv_R. apply sqrt2_neq0.
Qed.

Lemma unit_ok_R (x : R) : unit_ok ((cos x, sin x) : CS).
Proof. apply expi_unit. Qed.

Lemma nrm_ok_R (v0 v1 v2 : R) :
  let t := sqrt (v0 * v0 + (v1 * v1 + (v2 * v2 + 0)))%R in
  t <> 0%R ->
  nrm_ok (RtoC v0 : CS) (RtoC v1) (RtoC v2) (RtoC t) (RtoC (/ t)).
Proof.
  intros t Ht. repeat split; try apply real_R.
  - unfold t. rewrite sqrt_sq_R.
    + rewrite <- !RtoC_mul_K, <- !RtoC_add_K. f_equal. ring.
    + pose proof (Rle_0_sqr v0); pose proof (Rle_0_sqr v1); pose proof (Rle_0_sqr v2).
      unfold Rsqr in *. lra.
  - apply inv_R. exact Ht.
Qed.

(** the norm of the negated vector is the norm *)
Lemma norm_neg (v0 v1 v2 : R) :
  sqrt (- v0 * - v0 + (- v1 * - v1 + (- v2 * - v2 + 0)))%R = sqrt (v0 * v0 + (v1 * v1 + (v2 * v2 + 0)))%R.
Proof. f_equal. ring. Qed.

(** unfolding of the generated data at concrete parameter lists: the caller unfolds the
    generated constants (Run.GenGates.gen_unfold) between the two steps *)
Ltac expose_R1 :=
  cbv [matrix_R inv_matrix_R inv_params inv_n inv_cls guard_ok].
Ltac expose_R2 :=
  cbv [matrix_R inv_matrix_R inv_params inv_n inv_cls guard_ok
       atoms_R atoms_aux aeval reval rpar sumsq nth app map c0];
  repeat match goal with
         | |- context [fst (RtoC ?x)] => change (fst (RtoC x)) with x
         | H : context [fst (RtoC ?x)] |- _ => change (fst (RtoC x)) with x in H
         end.
