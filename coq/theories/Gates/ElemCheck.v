(** Case type and checker of the correspondence run for the elementary gates
    (evaluated with vm_compute against the database Run.GenGates.gen_db regenerated from the
    source; floats = binary64 pairs with tolerance 2^-40, constant gates exactly over Z[i]). *)
From Qib Require Export Gates.ElemModel Base.Inst.
From Coq Require PrimFloat.

Inductive gcase :=
| CMatF (c : gcls) (g : bool) (n : nat) (atoms : list F.FI) (expected : list (list F.FI))
    (* as_matrix() of class c: guard value, integer parameter, harness-computed atom values *)
| CMatZ (c : gcls) (n : nat) (expected : list (list ZI))
    (* atom-free class, exact *)
| CInvF (c : gcls) (g : bool) (n : nat) (atoms : list F.FI)
        (g' : bool) (inv_atoms : list F.FI) (expected : list (list F.FI))
    (* inverse().as_matrix(): atoms of the constructed gate computed by the harness from the
       generated argument expressions and the target class's atom specs *)
| CInvZ (c : gcls) (n : nat) (expected : list (list ZI))
| CFlags (c : gcls) (n : nat) (herm : bool) (nw : nat) (rows : nat)
| CInvCls (c c' : gcls)
| CPart (c : gcls) (env : list (nat * aval)) (parts inv_parts : list (option nat)).

Module FTol.
  Import PrimFloat.
  Definition tol : float := 0x1p-40%float.
End FTol.
Definition tol := FTol.tol.

Definition fmat_close (a b : list (list F.FI)) : bool := list_eqb (list_eqb (F.fi_close tol)) a b.
Definition zmat_eqb (a b : list (list ZI)) : bool := list_eqb (list_eqb zi_eqb) a b.

Definition inv_mat (K : Scalar) (db : gatedb) (c : gcls) (g : bool) (n : nat) (atoms : list K)
           (g' : bool) (inv_atoms : list K) : BMx K :=
  match db_inv db c with
  | InvSelf => db_mat db K c g n atoms
  | InvNew _ MAdjSelf _ _ _ => madj (db_mat db K c g n atoms)
  | InvNew c' (MParams _) nw _ _ =>
      db_mat db K c' g' (match nw with NWSelf => n | NWConst m => m end) inv_atoms
  end.

Definition env_of (l : list (nat * aval)) : penv :=
  fun a => match assoc a l with Some v => v | None => VNone end.

Definition onat_eqb (a b : option nat) : bool :=
  match a, b with
  | Some x, Some y => Nat.eqb x y
  | None, None => true
  | _, _ => false
  end.

Definition gcls_eqb (a b : gcls) : bool :=
  match a, b with
  | cIdentityGate, cIdentityGate | cPauliXGate, cPauliXGate | cPauliYGate, cPauliYGate
  | cPauliZGate, cPauliZGate | cHadamardGate, cHadamardGate | cSxGate, cSxGate
  | cRxGate, cRxGate | cRyGate, cRyGate | cRzGate, cRzGate | cRotationGate, cRotationGate
  | cSGate, cSGate | cSAdjGate, cSAdjGate | cTGate, cTGate | cTAdjGate, cTAdjGate
  | cPhaseFactorGate, cPhaseFactorGate | cRxxGate, cRxxGate | cRyyGate, cRyyGate
  | cRzzGate, cRzzGate | cISwapGate, cISwapGate | cGeneralGate, cGeneralGate => true
  | _, _ => false
  end.

Definition check (db : gatedb) (k : gcase) : bool :=
  match k with
  | CMatF c g n atoms expected =>
      let nw := db_nw db c n in
      dims expected (2 ^ nw) && Nat.eqb (db_dim db c n) (2 ^ nw)
      && fmat_close (dense nw (db_mat db F.FI c g n atoms)) expected
  | CMatZ c n expected =>
      let nw := db_nw db c n in
      dims expected (2 ^ nw) && zmat_eqb (dense nw (db_mat db ZI c false n [])) expected
  | CInvF c g n atoms g' inv_atoms expected =>
      let nw := db_nw db c n in
      dims expected (2 ^ nw)
      && fmat_close (dense nw (inv_mat F.FI db c g n atoms g' inv_atoms)) expected
  | CInvZ c n expected =>
      let nw := db_nw db c n in
      dims expected (2 ^ nw) && zmat_eqb (dense nw (inv_mat ZI db c false n [] false [])) expected
  | CFlags c n herm nw rows =>
      Bool.eqb (db_herm db c) herm && Nat.eqb (db_nw db c n) nw && Nat.eqb (db_dim db c n) rows
      && Nat.eqb rows (2 ^ nw)
  | CInvCls c c' => gcls_eqb (inv_cls c (db_inv db c)) c'
  | CPart c env parts inv_parts =>
      list_eqb onat_eqb (eval_pform (db_part db c) (env_of env)) parts
      && list_eqb onat_eqb (inv_particles db c (env_of env)) inv_parts
  end.

Definition bad_cases_db (db : gatedb) (cs : list (nat * gcase)) : list nat :=
  map fst (filter (fun c => negb (check db (snd c))) cs).
