(** Controlled and multiplexed gates: block-diagonal algebra, for every number of control
    and target wires. *)
From Qib Require Export Gates.CompModel.

Section CompCtrl.
  Context {K : Scalar} {L : ScalarLaws K}.
  Local Open Scope K_scope.
  Add Ring KringCC : (s_ring K L).

  (** ---- small matrix algebra -------------------------------------------------------- *)
  Lemma hermitian_meq n (A B : BMx K) : meq n A B -> hermitian n A -> hermitian n B.
  Proof.
    intros E H. unfold hermitian in *.
    eapply meq_trans; [apply madj_meq; apply meq_sym; exact E|].
    eapply meq_trans; [exact H|exact E].
  Qed.

  Lemma unitary_inv_l n (U : BMx K) : unitary n U -> meq n (mmul n (madj U) U) mid.
  Proof. intros [_ H]. exact H. Qed.

  Lemma inverse_of_adj n (U V : BMx K) : unitary n U -> meq n V (madj U) -> meq n (mmul n V U) mid.
  Proof.
    intros [_ H] E. eapply meq_trans; [apply mmul_meq; [exact E|apply meq_refl]|exact H].
  Qed.

  (** ---- split of an index into control part and target part ------------------------- *)
  Lemma b2n_eqb_beq (a b : bits) : length a = length b -> Nat.eqb (b2n a) (b2n b) = beq a b.
  Proof.
    intros Hl. destruct (beq a b) eqn:E.
    - apply beq_eq in E. subst. apply Nat.eqb_refl.
    - apply Nat.eqb_neq. intros H. apply b2n_inj in H; [|exact Hl].
      subst. rewrite beq_refl in E. discriminate.
  Qed.

  (** ---- block-diagonal matrices ------------------------------------------------------ *)
  Lemma bdiag_meq nc nt (F G : bits -> BMx K) :
    (forall k, length k = nc -> meq nt (F k) (G k)) -> meq (nc + nt) (bdiag nc F) (bdiag nc G).
  Proof.
    intros H r c Hr Hc. unfold bdiag.
    destruct (split_bits nc nt r Hr) as [Hr1 [Hr2 _]].
    destruct (split_bits nc nt c Hc) as [Hc1 [Hc2 _]].
    destruct (beq (firstn nc r) (firstn nc c)); [|reflexivity].
    apply H; assumption.
  Qed.

  Lemma bdiag_madj nc (F : bits -> BMx K) r c :
    madj (bdiag nc F) r c = bdiag nc (fun k => madj (F k)) r c.
  Proof.
    unfold madj, bdiag. rewrite (beq_sym (firstn nc c)).
    destruct (beq (firstn nc r) (firstn nc c)) eqn:E.
    - apply beq_eq in E. rewrite E. reflexivity.
    - apply (conj_0 K L).
  Qed.

  Lemma mid_split nc nt (r c : bits) :
    length r = (nc + nt)%nat -> length c = (nc + nt)%nat ->
    mid (K:=K) r c = if beq (firstn nc r) (firstn nc c) then mid (skipn nc r) (skipn nc c) else 0.
  Proof.
    intros Hr Hc. rewrite <- (kron_mid nc nt r c Hr Hc). unfold kron, mid.
    destruct (beq (firstn nc r) (firstn nc c)), (beq (skipn nc r) (skipn nc c)); ring.
  Qed.

  Lemma bdiag_mid nc nt : meq (nc + nt) (bdiag nc (fun _ => mid (K:=K))) mid.
  Proof.
    intros r c Hr Hc. rewrite (mid_split nc nt r c Hr Hc). reflexivity.
  Qed.

  Lemma bdiag_mmul nc nt (F G : bits -> BMx K) :
    meq (nc + nt) (mmul (nc + nt) (bdiag nc F) (bdiag nc G))
        (bdiag nc (fun k => mmul nt (F k) (G k))).
  Proof.
    intros r c Hr Hc. unfold mmul. rewrite bsum_add.
    destruct (split_bits nc nt r Hr) as [Hr1 [Hr2 _]].
    destruct (split_bits nc nt c Hc) as [Hc1 [Hc2 _]].
    set (rc := firstn nc r) in *. set (rt := skipn nc r) in *.
    set (cc := firstn nc c) in *. set (ct := skipn nc c) in *.
    transitivity (bsum nc (fun a => (if beq rc a then 1 else 0)
                    * (if beq a cc then bsum nt (fun b => F rc rt b * G a b ct) else 0))).
    { apply bsum_ext. intros a Ha.
      destruct (beq rc a) eqn:E1; destruct (beq a cc) eqn:E2.
      - transitivity (bsum nt (fun b => F rc rt b * G a b ct)); [|ring].
        apply bsum_ext. intros b Hb. unfold bdiag.
        rewrite !firstn_app_len, !skipn_app_len by assumption.
        fold rc rt cc ct. rewrite E1, E2. reflexivity.
      - transitivity (0 : K); [|ring]. apply bsum_zero. intros b Hb. unfold bdiag.
        rewrite !firstn_app_len, !skipn_app_len by assumption.
        fold rc rt cc ct. rewrite E2. ring.
      - transitivity (0 : K); [|ring]. apply bsum_zero. intros b Hb. unfold bdiag.
        rewrite !firstn_app_len, !skipn_app_len by assumption.
        fold rc rt cc ct. rewrite E1. ring.
      - transitivity (0 : K); [|ring]. apply bsum_zero. intros b Hb. unfold bdiag.
        rewrite !firstn_app_len, !skipn_app_len by assumption.
        fold rc rt cc ct. rewrite E1. ring. }
    rewrite (bsum_delta_l nc rc (fun a => if beq a cc then bsum nt (fun b => F rc rt b * G a b ct) else 0) Hr1).
    unfold bdiag. fold rc rt cc ct. reflexivity.
  Qed.

  Lemma unitary_bdiag nc nt (F : bits -> BMx K) :
    (forall k, length k = nc -> unitary nt (F k)) -> unitary (nc + nt) (bdiag nc F).
  Proof.
    intros H. split.
    - eapply meq_trans.
      { apply mmul_meq; [apply meq_refl|]. intros r c _ _. apply bdiag_madj. }
      eapply meq_trans; [apply bdiag_mmul|].
      eapply meq_trans; [|apply bdiag_mid].
      apply bdiag_meq. intros k Hk. apply (H k Hk).
    - eapply meq_trans.
      { apply mmul_meq; [|apply meq_refl]. intros r c _ _. apply bdiag_madj. }
      eapply meq_trans; [apply bdiag_mmul|].
      eapply meq_trans; [|apply bdiag_mid].
      apply bdiag_meq. intros k Hk. apply (H k Hk).
  Qed.

  Lemma hermitian_bdiag nc nt (F : bits -> BMx K) :
    (forall k, length k = nc -> hermitian nt (F k)) -> hermitian (nc + nt) (bdiag nc F).
  Proof.
    intros H. unfold hermitian.
    eapply meq_trans; [intros r c _ _; apply bdiag_madj|].
    apply bdiag_meq. intros k Hk. apply (H k Hk).
  Qed.

  (** ---- the control index ------------------------------------------------------------ *)
  Lemma shiftl_1_pow k : (0 <= k)%Z -> Z.shiftl 1 k = (2 ^ k)%Z.
  Proof. intros Hk. rewrite Z.shiftl_mul_pow2 by exact Hk. lia. Qed.

  Lemma skipn_S_tl {A} (l : list A) j : skipn (Datatypes.S j) l = tl (skipn j l).
  Proof.
    revert l; induction j as [|j IH]; intros l.
    - destruct l; reflexivity.
    - destruct l as [|a l]; [reflexivity|]. rewrite skipn_cons. rewrite IH. reflexivity.
  Qed.

  (** loop invariant: after processing the bits at positions j0 .. j0+len-1 the accumulator
      grew by the value of that segment shifted to its place *)
  Lemma ctrl_loop_seq (n : nat) (cs : list bool) : forall (len j0 : nat) (acc : Z),
    (j0 + len <= n)%nat -> length cs = n ->
    fold_left (fun ic j => ctrl_step (Z.of_nat n) (bz (nth j cs false)) (Z.of_nat j) ic) (seq j0 len) acc
    = (acc + Z.of_nat (b2n (firstn len (skipn j0 cs))) * 2 ^ Z.of_nat (n - j0 - len))%Z.
  Proof.
    induction len as [|len IH]; intros j0 acc Hb Hl.
    - cbn. lia.
    - cbn [seq fold_left]. rewrite IH by lia.
      assert (Hj : (j0 < length cs)%nat) by lia.
      destruct (skipn j0 cs) as [|x rest] eqn:Es.
      { apply (f_equal (@length bool)) in Es. rewrite skipn_length in Es. cbn in Es. lia. }
      assert (Hx : nth j0 cs false = x).
      { rewrite <- (firstn_skipn j0 cs) at 1. rewrite app_nth2; rewrite firstn_length; [|lia].
        replace (j0 - Nat.min j0 (length cs))%nat with 0%nat by lia. rewrite Es. reflexivity. }
      assert (Hs : skipn (Datatypes.S j0) cs = rest).
      { rewrite skipn_S_tl, Es. reflexivity. }
      rewrite Hs, Hx. cbn [firstn b2n].
      assert (Hlr : length rest = (n - j0 - 1)%nat).
      { apply (f_equal (@length bool)) in Es. rewrite skipn_length in Es. cbn in Es. lia. }
      rewrite firstn_length, Hlr. replace (Nat.min len (n - j0 - 1)) with len by lia.
      unfold ctrl_step. destruct x; cbn [bz Z.eqb Pos.eqb].
      + rewrite shiftl_1_pow by lia.
        rewrite Nat2Z.inj_add, Z.mul_add_distr_r.
        replace (Z.of_nat (2 ^ len)) with (2 ^ Z.of_nat len)%Z
          by (rewrite Nat2Z.inj_pow; reflexivity).
        rewrite <- Z.pow_add_r by lia.
        replace (Z.of_nat (n - j0 - Datatypes.S len)) with (Z.of_nat (n - Datatypes.S j0 - len)) by lia.
        replace (Z.of_nat len + Z.of_nat (n - Datatypes.S j0 - len))%Z
          with (Z.of_nat n - 1 - Z.of_nat j0)%Z by lia.
        lia.
      + replace (Z.of_nat (n - j0 - Datatypes.S len)) with (Z.of_nat (n - Datatypes.S j0 - len)) by lia.
        cbn [Nat.add]. lia.
  Qed.

  Lemma ctrl_loop_ext step step' init n cs :
    (forall a b c d, step a b c d = step' a b c d) ->
    ctrl_loop step init n cs = ctrl_loop step' init n cs.
  Proof.
    intros H. unfold ctrl_loop. generalize (seq 0 n). intros l. revert init.
    induction l as [|x l IH]; intros init; [reflexivity|]. cbn [fold_left]. rewrite H. apply IH.
  Qed.

  (** the integer the loop computes is the pattern read most-significant-control first *)
  Lemma ctrl_index_b2n pat : ctrl_index pat = b2n pat.
  Proof.
    unfold ctrl_index, ctrl_loop.
    rewrite (ctrl_loop_seq (length pat) pat (length pat) 0 0%Z) by lia.
    cbn [skipn]. rewrite firstn_all.
    replace (length pat - 0 - length pat)%nat with 0%nat by lia.
    cbn [Z.of_nat Z.pow]. rewrite Z.mul_1_r, Z.add_0_l. apply Nat2Z.id.
  Qed.

  (** ---- controlled gate = block diagonal with one distinguished block ---------------- *)
  Definition ctrl_blocks (pat : list bool) (U : BMx K) : bits -> BMx K :=
    fun k => if beq k pat then U else mid.

  Lemma ctrl_mat_bdiag pat (U : BMx K) r c :
    length (firstn (length pat) r) = length pat ->
    ctrl_mat pat U r c = bdiag (length pat) (ctrl_blocks pat U) r c.
  Proof.
    intros Hl. unfold ctrl_mat, ctrl_mat_at, madd, kron, mdiag, vcompl, onehot, bdiag, ctrl_blocks.
    rewrite ctrl_index_b2n. rewrite (b2n_eqb_beq _ pat Hl).
    destruct (beq (firstn (length pat) r) (firstn (length pat) c));
      destruct (beq (firstn (length pat) r) pat); ring.
  Qed.

  Lemma ctrl_mat_bdiag_meq pat nt (U : BMx K) :
    meq (length pat + nt) (ctrl_mat pat U) (bdiag (length pat) (ctrl_blocks pat U)).
  Proof.
    intros r c Hr Hc. apply ctrl_mat_bdiag.
    destruct (split_bits (length pat) nt r Hr) as [H _]. exact H.
  Qed.

  (** C02: the controlled gate applies U exactly on the control pattern (both row and column
      control bits equal the pattern) and is the identity elsewhere *)
  Theorem ctrl_mat_entries pat nt (U : BMx K) r c :
    length r = (length pat + nt)%nat -> length c = (length pat + nt)%nat ->
    ctrl_mat pat U r c =
      if beq (firstn (length pat) r) pat && beq (firstn (length pat) c) pat
      then U (skipn (length pat) r) (skipn (length pat) c)
      else mid r c.
  Proof.
    intros Hr Hc. rewrite (ctrl_mat_bdiag_meq pat nt U r c Hr Hc).
    destruct (split_bits (length pat) nt r Hr) as [Hr1 [Hr2 Er]].
    destruct (split_bits (length pat) nt c Hc) as [Hc1 [Hc2 Ec]].
    rewrite (mid_split (length pat) nt r c Hr Hc).
    unfold bdiag, ctrl_blocks.
    destruct (beq (firstn (length pat) r) (firstn (length pat) c)) eqn:E.
    - apply beq_eq in E. rewrite <- E.
      destruct (beq (firstn (length pat) r) pat); reflexivity.
    - destruct (beq (firstn (length pat) r) pat) eqn:E1; [|reflexivity].
      destruct (beq (firstn (length pat) c) pat) eqn:E2; [|reflexivity].
      apply beq_eq in E1, E2. rewrite E1, E2, beq_refl in E. discriminate.
  Qed.

  Lemma ctrl_blocks_meq pat nt (U V : BMx K) : meq nt U V ->
    forall k, length k = length pat -> meq nt (ctrl_blocks pat U k) (ctrl_blocks pat V k).
  Proof. intros E k _. unfold ctrl_blocks. destruct (beq k pat); [exact E|apply meq_refl]. Qed.

  Lemma ctrl_mat_meq pat nt (U V : BMx K) : meq nt U V ->
    meq (length pat + nt) (ctrl_mat pat U) (ctrl_mat pat V).
  Proof.
    intros E.
    eapply meq_trans; [apply ctrl_mat_bdiag_meq|].
    eapply meq_trans; [|apply meq_sym; apply ctrl_mat_bdiag_meq].
    apply bdiag_meq. apply ctrl_blocks_meq. exact E.
  Qed.

  Theorem ctrl_mat_unitary pat nt (U : BMx K) :
    unitary nt U -> unitary (length pat + nt) (ctrl_mat pat U).
  Proof.
    intros HU. eapply unitary_meq; [apply meq_sym; apply ctrl_mat_bdiag_meq|].
    apply unitary_bdiag. intros k _. unfold ctrl_blocks.
    destruct (beq k pat); [exact HU|apply unitary_mid].
  Qed.

  Theorem ctrl_mat_hermitian pat nt (U : BMx K) :
    hermitian nt U -> hermitian (length pat + nt) (ctrl_mat pat U).
  Proof.
    intros HU. eapply hermitian_meq; [apply meq_sym; apply ctrl_mat_bdiag_meq|].
    apply hermitian_bdiag. intros k _. unfold ctrl_blocks.
    destruct (beq k pat); [exact HU|apply madj_mid].
  Qed.

  (** the controlled adjoint is the adjoint of the controlled gate *)
  Theorem ctrl_mat_madj pat nt (U : BMx K) :
    meq (length pat + nt) (ctrl_mat pat (madj U)) (madj (ctrl_mat pat U)).
  Proof.
    eapply meq_trans; [apply ctrl_mat_bdiag_meq|].
    eapply meq_trans; [|apply madj_meq; apply meq_sym; apply ctrl_mat_bdiag_meq].
    eapply meq_trans; [|intros r c _ _; symmetry; apply bdiag_madj].
    apply bdiag_meq. intros k _. unfold ctrl_blocks.
    destruct (beq k pat); [apply meq_refl|apply meq_sym; apply madj_mid].
  Qed.

  Theorem ctrl_mat_mmul pat nt (U V : BMx K) :
    meq (length pat + nt) (mmul (length pat + nt) (ctrl_mat pat U) (ctrl_mat pat V))
        (ctrl_mat pat (mmul nt U V)).
  Proof.
    eapply meq_trans; [apply mmul_meq; apply ctrl_mat_bdiag_meq|].
    eapply meq_trans; [apply bdiag_mmul|].
    eapply meq_trans; [|apply meq_sym; apply ctrl_mat_bdiag_meq].
    apply bdiag_meq. intros k _. unfold ctrl_blocks.
    destruct (beq k pat); [apply meq_refl|apply mmul_id_l].
  Qed.

  (** ---- multiplexer ------------------------------------------------------------------- *)
  (** C02: the k-th target acts when the controls read k, nothing connects different k *)
  Theorem block_diag_entries nc (ms : list (BMx K)) r c :
    block_diag nc ms r c =
      if beq (firstn nc r) (firstn nc c)
      then nth (b2n (firstn nc r)) ms mzero (skipn nc r) (skipn nc c)
      else 0.
  Proof. reflexivity. Qed.

  Lemma block_diag_all nc (ms : list (BMx K)) (P : BMx K -> Prop) :
    length ms = 2 ^ nc -> Forall P ms -> forall k, length k = nc -> P (nth (b2n k) ms mzero).
  Proof.
    intros Hl HF k Hk. rewrite Forall_forall in HF. apply HF. apply nth_In.
    rewrite Hl, <- Hk. apply b2n_bound.
  Qed.

  Theorem block_diag_unitary nc nt (ms : list (BMx K)) :
    length ms = 2 ^ nc -> Forall (unitary nt) ms -> unitary (nc + nt) (block_diag nc ms).
  Proof.
    intros Hl HF. apply unitary_bdiag. intros k Hk.
    apply (block_diag_all nc ms (unitary nt) Hl HF k Hk).
  Qed.

  Theorem block_diag_hermitian nc nt (ms : list (BMx K)) :
    length ms = 2 ^ nc -> Forall (hermitian nt) ms -> hermitian (nc + nt) (block_diag nc ms).
  Proof.
    intros Hl HF. apply hermitian_bdiag. intros k Hk.
    apply (block_diag_all nc ms (hermitian nt) Hl HF k Hk).
  Qed.

  (** blockwise related lists give related block-diagonal matrices *)
  Lemma block_diag_rel nc (ms ms' : list (BMx K)) (R : BMx K -> BMx K -> Prop) :
    length ms = 2 ^ nc -> Forall2 R ms ms' ->
    forall k, length k = nc -> R (nth (b2n k) ms mzero) (nth (b2n k) ms' mzero).
  Proof.
    intros Hl HF k Hk.
    assert (Hb : b2n k < length ms) by (rewrite Hl, <- Hk; apply b2n_bound).
    clear Hl Hk. revert Hb. generalize (b2n k). induction HF as [|x y l l' Hxy HF IH]; intros i Hi.
    - cbn in Hi. lia.
    - destruct i as [|i]; cbn; [exact Hxy|]. apply IH. cbn in Hi. lia.
  Qed.

  Theorem block_diag_madj nc nt (ms ms' : list (BMx K)) :
    length ms = 2 ^ nc -> Forall2 (fun A A' => meq nt A' (madj A)) ms ms' ->
    meq (nc + nt) (block_diag nc ms') (madj (block_diag nc ms)).
  Proof.
    intros Hl HF. unfold block_diag.
    eapply meq_trans; [|intros r c _ _; symmetry; apply bdiag_madj].
    apply bdiag_meq. intros k Hk.
    apply (block_diag_rel nc ms ms' (fun A A' => meq nt A' (madj A)) Hl HF k Hk).
  Qed.
End CompCtrl.
