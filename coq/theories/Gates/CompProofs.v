(** Composite gates nested to ANY depth: unitarity, shape, inverse, Hermiticity flag, by
    structural induction over gate trees (custom principle for the nested [list cgate]). *)
From Qib Require Export Gates.CompBlock.

Section CompProofs.
  Context {K : Scalar} {L : ScalarLaws K}.
  Local Open Scope K_scope.
  Add Ring KringCP : (s_ring K L).

  (** background mathematics about the matrix exponential (NOT proved here; true of the
      real matrix exponential): exp of an anti-Hermitian matrix is unitary, and
      exp(A^dagger) = exp(A)^dagger. [is_expm n A E] reads "E is expm(A)". *)
  Variable is_expm : nat -> BMx K -> BMx K -> Prop.
  Hypothesis expm_antiherm_unitary :
    forall n A E, is_expm n A E -> antiherm n A -> unitary n E.
  Hypothesis expm_adjoint :
    forall n A E A' E', is_expm n A E -> is_expm n A' E' -> meq n A' (madj A) -> meq n E' (madj E).

  Notation wf := (wf is_expm).

  (** ---- induction principle for the nested type ---------------------------------------- *)
  Section Ind.
    Variable P : cgate K -> Prop.
    Hypothesis HLeaf : forall nw U Ui h ps, P (Leaf nw U Ui h ps).
    Hypothesis HCtrl : forall pat cq g, P g -> P (Ctrl pat cq g).
    Hypothesis HMux : forall nc cq gs, Forall P gs -> P (Mux nc cq gs).
    Hypothesis HBEnc : forall m n H Sq aux hp, P (BEnc m n H Sq aux hp).
    Hypothesis HTEvo : forall n H t E Ei hp, P (TEvo n H t E Ei hp).
    Hypothesis HPrep : forall n Q0 flip tr qs, P (Prep n Q0 flip tr qs).
    Hypothesis HGen : forall n M h ps, P (Gen n M h ps).

    Fixpoint cgate_ind' (g : cgate K) : P g :=
      match g with
      | Leaf nw U Ui h ps => HLeaf nw U Ui h ps
      | Ctrl pat cq g' => HCtrl pat cq g' (cgate_ind' g')
      | Mux nc cq gs =>
          HMux nc cq gs
            ((fix go (l : list (cgate K)) : Forall P l :=
                match l with
                | [] => Forall_nil P
                | x :: l' => Forall_cons x (cgate_ind' x) (go l')
                end) gs)
      | BEnc m n H Sq aux hp => HBEnc m n H Sq aux hp
      | TEvo n H t E Ei hp => HTEvo n H t E Ei hp
      | Prep n Q0 flip tr qs => HPrep n Q0 flip tr qs
      | Gen n M h ps => HGen n M h ps
      end.
  End Ind.

  Lemma allP_Forall {A} (P : A -> Prop) l : allP P l <-> Forall P l.
  Proof.
    induction l as [|x l IH]; cbn; split; intros H.
    - constructor.
    - exact I.
    - destruct H as [H1 H2]. constructor; [exact H1|apply IH; exact H2].
    - inversion H; subst. split; [assumption|apply IH; assumption].
  Qed.

  Definition mux_nt (gs : list (cgate K)) : nat :=
    match gs with [] => 0%nat | g0 :: _ => num_wires g0 end.

  Lemma wf_mux nc cq gs :
    wf (Mux nc cq gs) <->
    length gs = 2 ^ nc /\ Forall (fun x => wf x /\ num_wires x = mux_nt gs) gs.
  Proof. cbn [CompModel.wf]. cbv zeta. rewrite allP_Forall. reflexivity. Qed.

  Lemma num_wires_mux nc cq gs : num_wires (Mux nc cq gs) = (nc + mux_nt gs)%nat.
  Proof. reflexivity. Qed.

  (** ---- C01: unitary, and of the size numpy reports -------------------------------------- *)
  Theorem matrix_unitary : forall g, wf g -> unitary (num_wires g) (matrix g).
  Proof.
    induction g using cgate_ind'; intros W.
    - destruct W as [HU _]. exact HU.
    - cbn [num_wires matrix]. apply ctrl_mat_unitary. apply IHg. exact W.
    - apply wf_mux in W. destruct W as [Hl HF].
      rewrite num_wires_mux. cbn [matrix].
      apply block_diag_unitary; [rewrite map_length; exact Hl|].
      rewrite Forall_forall in *. intros M HM. apply in_map_iff in HM.
      destruct HM as [x [<- Hx]]. destruct (HF x Hx) as [Wx <-]. apply H; assumption.
    - destruct W as [H1 [H2 [H3 H4]]]. cbn [num_wires matrix].
      apply benc_mat_unitary. constructor; assumption.
    - destruct W as [H1 [H2 [H3 H4]]]. cbn [num_wires matrix].
      apply (expm_antiherm_unitary n _ E H3). apply tevo_arg_antiherm; assumption.
    - cbn [num_wires matrix]. apply prep_mat_unitary. exact W.
    - destruct W as [HU _]. exact HU.
  Qed.

  Theorem shape_wires : forall g, wf g -> shape g = 2 ^ num_wires g.
  Proof.
    induction g using cgate_ind'; intros W; cbn [shape num_wires]; try reflexivity.
    - rewrite IHg by exact W. rewrite Nat.pow_add_r. reflexivity.
    - apply wf_mux in W. destruct W as [Hl HF].
      assert (E : forall l : list (cgate K),
                 Forall (fun x => wf x -> shape x = 2 ^ num_wires x) l ->
                 Forall (fun x => wf x /\ num_wires x = mux_nt gs) l ->
                 fold_right (fun x acc => (shape x + acc)%nat) 0%nat l = (length l * 2 ^ mux_nt gs)%nat).
      { induction l as [|x l IH]; intros H1 H2; [reflexivity|].
        pose proof (Forall_inv H1) as Hx1. pose proof (Forall_inv_tail H1) as Ht1.
        pose proof (Forall_inv H2) as [Wx Ex]. pose proof (Forall_inv_tail H2) as Ht2.
        cbn [fold_right length]. cbv beta in Hx1.
        rewrite Hx1 by exact Wx. rewrite Ex. rewrite IH by assumption. lia. }
      rewrite (E gs H HF), Hl. fold (mux_nt gs). rewrite Nat.pow_add_r. reflexivity.
    - cbn. lia.
  Qed.

  (** ---- C03: inverse() ----------------------------------------------------------------------- *)
  Theorem inverse_num_wires : forall g : cgate K, num_wires (inverse g) = num_wires g.
  Proof.
    induction g using cgate_ind'; cbn [inverse num_wires]; try reflexivity.
    - rewrite IHg. reflexivity.
    - f_equal. destruct gs as [|g0 gs]; [reflexivity|]. cbn [map]. exact (Forall_inv H).
  Qed.

  Theorem inverse_particles : forall g : cgate K, particles (inverse g) = particles g.
  Proof.
    induction g using cgate_ind'; cbn [inverse particles]; try reflexivity.
    - rewrite IHg. reflexivity.
    - f_equal. destruct gs as [|g0 gs]; [reflexivity|]. cbn [map]. exact (Forall_inv H).
  Qed.

  Theorem inverse_is_herm : forall g : cgate K, is_herm (inverse g) = is_herm g.
  Proof.
    induction g using cgate_ind'; cbn [inverse is_herm]; try reflexivity.
    - exact IHg.
    - induction H as [|x l Hx HF IH]; [reflexivity|]. cbn [map forallb]. rewrite Hx, IH. reflexivity.
    - destruct m; reflexivity.
  Qed.

  Lemma mux_nt_map_inverse (gs : list (cgate K)) : mux_nt (map inverse gs) = mux_nt gs.
  Proof. destruct gs as [|g0 gs]; [reflexivity|]. cbn. apply inverse_num_wires. Qed.

  Theorem inverse_adjoint : forall g, wf g ->
    meq (num_wires g) (matrix (inverse g)) (madj (matrix g)).
  Proof.
    induction g using cgate_ind'; intros W.
    - destruct W as [_ [E _]]. cbn [inverse matrix num_wires]. exact E.
    - cbn [inverse matrix num_wires].
      eapply meq_trans; [apply ctrl_mat_meq; apply IHg; exact W|]. apply ctrl_mat_madj.
    - apply wf_mux in W. destruct W as [Hl HF].
      rewrite num_wires_mux. cbn [inverse matrix]. rewrite map_map.
      apply block_diag_madj; [rewrite map_length; exact Hl|].
      clear Hl. revert H HF. generalize (mux_nt gs). intros nt H HF.
      induction gs as [|x l IH]; cbn [map]; constructor.
      + pose proof (Forall_inv HF) as [Wx <-]. apply (Forall_inv H). exact Wx.
      + apply IH; [exact (Forall_inv_tail H)|exact (Forall_inv_tail HF)].
    - destruct W as [H1 [H2 _]]. cbn [inverse matrix num_wires]. apply benc_mat_inverse; assumption.
    - destruct W as [H1 [H2 [H3 H4]]]. cbn [inverse matrix num_wires].
      apply (expm_adjoint n _ E _ Ei H3 H4). apply tevo_arg_neg; assumption.
    - cbn [inverse matrix num_wires]. apply prep_mat_inverse. exact W.
    - cbn [inverse matrix num_wires]. apply meq_refl.
  Qed.

  (** inverse() really inverts *)
  Theorem inverse_inverts : forall g, wf g ->
    meq (num_wires g) (mmul (num_wires g) (matrix (inverse g)) (matrix g)) mid
    /\ meq (num_wires g) (mmul (num_wires g) (matrix g) (matrix (inverse g))) mid.
  Proof.
    intros g W. pose proof (matrix_unitary g W) as [U1 U2]. pose proof (inverse_adjoint g W) as E.
    split.
    - eapply meq_trans; [apply mmul_meq; [exact E|apply meq_refl]|exact U2].
    - eapply meq_trans; [apply mmul_meq; [apply meq_refl|exact E]|exact U1].
  Qed.

  (** the inverse is again a well-formed gate (so inverse().inverse() etc. are covered) *)
  Theorem inverse_wf : forall g, wf g -> wf (inverse g).
  Proof.
    induction g using cgate_ind'; intros W.
    - destruct W as [HU [E Hh]]. cbn [inverse CompModel.wf].
      assert (E' : meq nw U (madj Ui)).
      { apply meq_sym. eapply meq_trans; [apply madj_meq; exact E|apply madj_invol]. }
      split; [|split].
      + eapply unitary_meq; [apply meq_sym; exact E|]. apply unitary_madj. exact HU.
      + exact E'.
      + intros Hh'. specialize (Hh Hh').
        eapply hermitian_meq; [apply meq_sym; exact E|]. apply hermitian_madj. exact Hh.
    - cbn [inverse CompModel.wf]. apply IHg. exact W.
    - apply wf_mux in W. destruct W as [Hl HF]. cbn [inverse]. apply wf_mux.
      split; [rewrite map_length; exact Hl|]. rewrite mux_nt_map_inverse.
      clear Hl. revert H HF. generalize (mux_nt gs). intros nt H HF.
      induction gs as [|x l IH]; cbn [map]; constructor.
      + pose proof (Forall_inv HF) as [Wx Ex].
        split; [apply (Forall_inv H); exact Wx|]. rewrite inverse_num_wires. exact Ex.
      + apply IH; [exact (Forall_inv_tail H)|exact (Forall_inv_tail HF)].
    - destruct W as [H1 [H2 [H3 H4]]]. cbn [inverse CompModel.wf]. repeat split; assumption.
    - destruct W as [H1 [H2 [H3 H4]]]. cbn [inverse CompModel.wf].
      assert (Ht : (- t)^* = - t) by (rewrite (conj_opp K L), H2; reflexivity).
      repeat split; try assumption.
      replace (- - t) with t by ring. exact H3.
    - exact W.
    - destruct W as [HU Hh]. cbn [inverse CompModel.wf]. split.
      + apply unitary_madj. exact HU.
      + intros Hh'. apply hermitian_madj. apply Hh. exact Hh'.
  Qed.

  (** ---- C16: the delegated Hermiticity flag is sound ------------------------------------ *)
  Theorem is_herm_sound : forall g, wf g -> is_herm g = true -> hermitian (num_wires g) (matrix g).
  Proof.
    induction g using cgate_ind'; intros W Hf.
    - destruct W as [_ [_ Hh]]. apply Hh. exact Hf.
    - cbn [num_wires matrix]. apply ctrl_mat_hermitian. apply IHg; assumption.
    - apply wf_mux in W. destruct W as [Hl HF].
      rewrite num_wires_mux. cbn [matrix]. cbn [is_herm] in Hf.
      apply block_diag_hermitian; [rewrite map_length; exact Hl|].
      rewrite forallb_forall in Hf.
      rewrite Forall_forall in *. intros M HM. apply in_map_iff in HM.
      destruct HM as [x [<- Hx]]. destruct (HF x Hx) as [Wx <-]. apply H; auto.
    - destruct W as [H1 [H2 _]]. cbn [num_wires matrix]. cbn [is_herm] in Hf.
      apply benc_mat_hermitian; assumption.
    - discriminate.
    - discriminate.
    - destruct W as [_ Hh]. apply Hh. exact Hf.
  Qed.

  (** ---- C02: what the matrix of a controlled / multiplexed tree node is -------------------- *)
  Theorem matrix_ctrl_entries pat cq (g : cgate K) r c :
    length r = num_wires (Ctrl pat cq g) -> length c = num_wires (Ctrl pat cq g) ->
    matrix (Ctrl pat cq g) r c =
      if beq (firstn (length pat) r) pat && beq (firstn (length pat) c) pat
      then matrix g (skipn (length pat) r) (skipn (length pat) c)
      else mid r c.
  Proof. intros Hr Hc. cbn [matrix]. apply (ctrl_mat_entries pat (num_wires g)); assumption. Qed.

  Theorem matrix_mux_entries nc cq (gs : list (cgate K)) r c :
    length gs = 2 ^ nc -> length r = num_wires (Mux nc cq gs) ->
    matrix (Mux nc cq gs) r c =
      if beq (firstn nc r) (firstn nc c)
      then matrix (nth (b2n (firstn nc r)) gs (Gen 0 mzero false [])) (skipn nc r) (skipn nc c)
      else 0.
  Proof.
    intros Hl Hr. cbn [matrix]. rewrite block_diag_entries.
    destruct (beq (firstn nc r) (firstn nc c)); [|reflexivity].
    assert (Hb : b2n (firstn nc r) < length gs).
    { rewrite Hl. pose proof (b2n_bound (firstn nc r)) as B. rewrite firstn_length in B.
      rewrite num_wires_mux in Hr. replace (Nat.min nc (length r)) with nc in B by lia. exact B. }
    rewrite (nth_indep _ mzero (matrix (Gen 0 mzero false []))) by (rewrite map_length; exact Hb).
    rewrite map_nth. reflexivity.
  Qed.
End CompProofs.
