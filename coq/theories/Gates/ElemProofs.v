(** Generic (any commutative *-ring with i*i = -1) lemmas and tactics for the closed-form
    matrices of the elementary gates.  The closed forms themselves are regenerated from the
    source on every run (Run.GenGates) and the theorems about them are in coq/props/C0x.v; they
    are proved there with the shape-agnostic tactics of this file
    (enumerate the entries; cbv; push conjugation to the atoms; [ring] modulo side equations). *)
From Qib Require Export Gates.ElemModel.

Lemma bits1 (r : list bool) : length r = 1%nat -> r = [false] \/ r = [true].
Proof. destruct r as [|[] [|]]; cbn; intros H; try discriminate; auto. Qed.
Lemma bits2 (r : list bool) : length r = 2%nat ->
  r = [false; false] \/ r = [false; true] \/ r = [true; false] \/ r = [true; true].
Proof. destruct r as [|[] [|[] [|]]]; cbn; intros H; try discriminate; auto. Qed.

(** enumerate row/column indices of an n-wire matrix goal, n = 1, 2 *)
Ltac enum_bits r H :=
  first
    [ destruct (bits1 r H) as [-> | ->]
    | destruct (bits2 r H) as [-> | [-> | [-> | ->]]] ].

Ltac enum_entries :=
  let r := fresh "r" in let c := fresh "c" in
  let Hr := fresh "Hr" in let Hc := fresh "Hc" in
  intros r c Hr Hc; enum_bits r Hr; enum_bits c Hc.

(** reduce a matrix expression at concrete indices to a ring expression over the atoms *)
Ltac mx_cbv :=
  cbv [mmul madj madd mscal mid mzero kron mxl mx2 mscid bsum lsum all_bits map app fold_right
       b2n nth length Nat.pow Nat.mul Nat.add Init.Nat.pow Init.Nat.mul Init.Nat.add
       beq Bool.eqb andb firstn skipn hermitian].

(** push conjugation down to the atoms; atoms with a hypothesis [a^* = a] lose it *)
Ltac conj_push :=
  match goal with
  | L : ScalarLaws ?K |- _ =>
      repeat first
        [ rewrite (conj_add K L) | rewrite (conj_mul K L) | rewrite (conj_opp K L)
        | rewrite (@conj_sub K L) | rewrite (conj_0 K L) | rewrite (conj_1 K L)
        | rewrite (conj_I K L) | rewrite (conj_inv K L)
        | match goal with H : sconj ?a = ?a |- _ => rewrite H end ]
  end.

Ltac pose_I2 I2 :=
  match goal with L : ScalarLaws ?K |- _ => pose proof (I_sq K L) as I2 end.

(** [mx_ring [eqs]]: the goal is an equation between entries *)
Tactic Notation "mx_ring" "[" constr_list(l) "]" :=
  let I2 := fresh "I2" in
  pose_I2 I2; mx_cbv; conj_push; ring [I2 l].

(** goals [meq n A B] over concrete n = 1, 2 *)
Tactic Notation "mx_meq" "[" constr_list(l) "]" :=
  let I2 := fresh "I2" in
  pose_I2 I2; enum_entries; mx_cbv; conj_push; ring [I2 l].

Tactic Notation "mx_unitary" "[" constr_list(l) "]" :=
  let I2 := fresh "I2" in
  pose_I2 I2; split; enum_entries; mx_cbv; conj_push; ring [I2 l].

Tactic Notation "mx_hermitian" "[" constr_list(l) "]" :=
  let I2 := fresh "I2" in
  pose_I2 I2; unfold hermitian; enum_entries; mx_cbv; conj_push; ring [I2 l].

Section ElemProofs.
  Context {K : Scalar} {L : ScalarLaws K}.
  Local Open Scope K_scope.
  Add Ring KringElem : (s_ring K L).

  (** ---- side equations in the monomial form [ring [..]] wants *)
  Lemma cs_mono (c s : K) : c * c + s * s = 1 -> c * c = 1 - s * s.
  Proof. intros H. rewrite <- H. ring. Qed.

  (** h = 1/sqrt 2 :  r*r = 2, h*r = 1  ==>  2 h h = 1 *)
  Lemma h_mono (r h : K) : r * r = 1 + 1 -> h * r = 1 -> (1 + 1) * (h * h) = 1.
  Proof.
    intros Hr Hh. rewrite <- Hr.
    transitivity ((h * r) * (h * r)); [ring|]. rewrite Hh. ring.
  Qed.

  (** unit vector n = v / |v| :  t*t = v.v, it*t = 1  ==>  monomial form of |n|^2 = 1 *)
  Lemma n_mono (v0 v1 v2 t it : K) :
    t * t = v0 * v0 + v1 * v1 + v2 * v2 -> it * t = 1 ->
    v0 * v0 * (it * it) = 1 - v1 * v1 * (it * it) - v2 * v2 * (it * it).
  Proof.
    intros Ht Hi.
    assert (E : (v0 * v0 + v1 * v1 + v2 * v2) * (it * it) = 1).
    { rewrite <- Ht. transitivity ((it * t) * (it * t)); [ring|]. rewrite Hi. ring. }
    rewrite <- E. ring.
  Qed.

  (** unit-modulus atom, both orders *)
  Lemma unit_comm (x : K) : x * x^* = 1 -> x^* * x = 1.
  Proof. intros H. rewrite <- H. ring. Qed.

  (** ---- hypotheses on atoms, bundled per atom family.  They are the algebraic content of
           "c = cos x, s = sin x", "r = sqrt 2, h = 1/r", "x = exp(i y)", "t = |v|, it = 1/t"
           (ElemReal proves them for the real functions). *)
  Definition cs_ok (c s : K) : Prop := c^* = c /\ s^* = s /\ c * c + s * s = 1.
  Definition h_ok (r h : K) : Prop := r^* = r /\ h^* = h /\ r * r = 1 + 1 /\ h * r = 1.
  Definition unit_ok (x : K) : Prop := x * x^* = 1.
  Definition nrm_ok (v0 v1 v2 t it : K) : Prop :=
    v0^* = v0 /\ v1^* = v1 /\ v2^* = v2 /\ t^* = t /\ it^* = it /\
    t * t = v0 * v0 + v1 * v1 + v2 * v2 /\ it * t = 1.

  (** ---- scalar multiples of the identity, any number of wires (PhaseFactorGate) *)
  Lemma mscid_mmul n (a b : K) : meq n (mmul n (mscid a) (mscid b)) (mscid (a * b)).
  Proof.
    intros r c Hr Hc. unfold mmul, mscid.
    transitivity (a * bsum n (fun k => mid r k * (b * mid k c))).
    { rewrite <- bsum_scal. apply bsum_ext. intros k _. ring. }
    pose proof (mmul_id_l n (fun k c => b * mid (K:=K) k c) r c Hr Hc) as E.
    unfold mmul in E. rewrite E. ring.
  Qed.

  Lemma mscid_madj n (a : K) : meq n (madj (mscid a)) (mscid (a^*)).
  Proof.
    intros r c Hr Hc. unfold madj, mscid. rewrite (conj_mul K L).
    pose proof (madj_mid (K:=K) n r c Hr Hc) as E. unfold madj in E. rewrite E. reflexivity.
  Qed.

  Lemma mscid_1 n : meq n (mscid (1 : K)) mid.
  Proof. intros r c _ _. unfold mscid. ring. Qed.

  Lemma mscid_ext n (a b : K) : a = b -> meq n (mscid a) (mscid b).
  Proof. intros ->. apply meq_refl. Qed.

  Lemma mscid_unitary n (x : K) : x * x^* = 1 -> unitary n (mscid x).
  Proof.
    intros H. split.
    - eapply meq_trans; [apply mmul_meq; [apply meq_refl|apply mscid_madj]|].
      eapply meq_trans; [apply mscid_mmul|]. rewrite H. apply mscid_1.
    - eapply meq_trans; [apply mmul_meq; [apply mscid_madj|apply meq_refl]|].
      eapply meq_trans; [apply mscid_mmul|]. rewrite (unit_comm x H). apply mscid_1.
  Qed.

  Lemma mscid_inverse n (x y : K) : y * x = 1 -> meq n (mmul n (mscid y) (mscid x)) mid.
  Proof. intros H. eapply meq_trans; [apply mscid_mmul|]. rewrite H. apply mscid_1. Qed.

  (** ---- the adjoint of a unitary is its inverse (inverse() forms that hand
           self.as_matrix().conj().T to GeneralGate) *)
  Lemma unitary_adj_inverse n (U : BMx K) : unitary n U -> meq n (mmul n (madj U) U) mid.
  Proof. intros [_ H]. exact H. Qed.
End ElemProofs.

(** ---- particles: everything depends on the attribute environment only extensionally *)
Lemma eval_parg_ext (e e' : penv) q : (forall a, e a = e' a) -> eval_parg e q = eval_parg e' q.
Proof.
  intros H. destruct q as [a| | |l]; cbn; try reflexivity; [apply H|].
  f_equal. induction l as [|a l IH]; cbn; [reflexivity|]. rewrite H, IH. reflexivity.
Qed.

Lemma forallb_truthy_ext (e e' : penv) g : (forall a, e a = e' a) ->
  forallb (fun a => truthy (e a)) g = forallb (fun a => truthy (e' a)) g.
Proof. intros H. induction g as [|a g IH]; cbn; [reflexivity|]. rewrite H, IH. reflexivity. Qed.

Lemma eval_pform_ext f (e e' : penv) : (forall a, e a = e' a) -> eval_pform f e = eval_pform f e'.
Proof.
  intros H. destruct f as [g els|a]; cbn.
  - rewrite (forallb_truthy_ext e e' g H). destruct (forallb _ g); [|reflexivity].
    induction els as [|a els IH]; cbn; [reflexivity|]. rewrite H, IH. reflexivity.
  - rewrite H. reflexivity.
Qed.

Lemma inv_env_ext f (e e' : penv) : (forall a, e a = e' a) -> forall a, inv_env f e a = inv_env f e' a.
Proof.
  intros H a. destruct f as [|c m nw attrs on]; cbn; [apply H|].
  destruct on as [[g sets]|].
  - rewrite (forallb_truthy_ext e e' g H). destruct (forallb _ g).
    + destruct (assoc a sets); [apply eval_parg_ext; exact H|].
      destruct (assoc a attrs); [apply eval_parg_ext; exact H|reflexivity].
    + destruct (assoc a attrs); [apply eval_parg_ext; exact H|reflexivity].
  - destruct (assoc a attrs); [apply eval_parg_ext; exact H|reflexivity].
Qed.

Lemma inv_particles_ext db c (e e' : penv) : (forall a, e a = e' a) ->
  inv_particles db c e = inv_particles db c e'.
Proof. intros H. unfold inv_particles. apply eval_pform_ext. apply inv_env_ext. exact H. Qed.

(** an environment over the four attribute slots the translator uses *)
Definition env4 (v0 v1 v2 v3 : aval) (rest : penv) : penv :=
  fun a => match a with
           | 0 => v0 | 1 => v1 | 2 => v2 | 3 => v3
           | Datatypes.S (Datatypes.S (Datatypes.S (Datatypes.S _))) => rest a
           end.
Lemma env4_eta (e : penv) : forall a, e a = env4 (e 0) (e 1) (e 2) (e 3) e a.
Proof. intros [|[|[|[|a]]]]; reflexivity. Qed.

(** destructors: put the conjugation facts and the monomial side equation into the context *)
Ltac cs_hyps H M :=
  let Hc := fresh "Hc" in let Hs := fresh "Hs" in let H1 := fresh "H1" in
  destruct H as (Hc & Hs & H1); pose proof (cs_mono _ _ H1) as M.
Ltac h_hyps H M :=
  let Hr := fresh "Hr" in let Hh := fresh "Hh" in let H1 := fresh "H1" in let H2 := fresh "H2" in
  destruct H as (Hr & Hh & H1 & H2); pose proof (h_mono _ _ H1 H2) as M.
Ltac nrm_hyps H M :=
  let H0 := fresh "Hv" in let H1 := fresh "Hv" in let H2 := fresh "Hv" in
  let Ht := fresh "Ht" in let Hi := fresh "Hi" in let N1 := fresh "N" in let N2 := fresh "N" in
  destruct H as (H0 & H1 & H2 & Ht & Hi & N1 & N2); pose proof (n_mono _ _ _ _ _ N1 N2) as M.

