(** Elementary gates of qib/operator/gates.py: the data types the translator gen/gates.py
    emits (Run.GenGates) and their executable meaning.  No proofs in this file.

    A class is described by
      - a closed-form matrix *template* over atoms (K-valued inputs; one per maximal
        np.cos / np.sin / np.exp / np.sqrt / np.linalg.norm sub-expression, per reciprocal of
        such an expression, and per numeric parameter used directly in an entry),
      - the defining expression of every atom ([aspec], an AST over the gate's real parameters),
      - the is_hermitian constant, num_wires, the reported array dimension,
      - the form of inverse() and of particles(). *)
From Qib Require Export Base.BMx.

(** class names (the translator fails closed on a Gate subclass that is neither listed here
    nor in its list of composite classes) *)
Inductive gcls :=
| cIdentityGate | cPauliXGate | cPauliYGate | cPauliZGate | cHadamardGate | cSxGate
| cRxGate | cRyGate | cRzGate | cRotationGate
| cSGate | cSAdjGate | cTGate | cTAdjGate | cPhaseFactorGate
| cRxxGate | cRyyGate | cRzzGate | cISwapGate
| cGeneralGate.   (* only as the target of an inverse() form; its matrix is user data *)

(** real-valued expressions over the numeric parameters of a gate *)
Inductive rexpr :=
| RPar (k : nat)          (* k-th real parameter (a 3-vector counts as 3 parameters) *)
| RAtom (k : nat)         (* value of the (real) atom k, e.g. theta = norm(ntheta) *)
| RNum (z : Z)
| RPi
| RNeg (a : rexpr)
| RAdd (a b : rexpr) | RSub (a b : rexpr) | RMul (a b : rexpr) | RDiv (a b : rexpr).

(** defining expression of an atom *)
Inductive aspec :=
| APar (k : nat)          (* the parameter itself, used as a matrix entry *)
| ACos (e : rexpr)        (* np.cos(e) *)
| ASin (e : rexpr)        (* np.sin(e) *)
| AExpI (e : rexpr)       (* np.exp(1j*e) *)
| ASqrt (e : rexpr)       (* np.sqrt(e) *)
| ANorm (ks : list nat)   (* np.linalg.norm of the listed parameters *)
| AInv (k : nat).         (* 1 / (real atom k) *)

(** attributes holding particles are numbered by the translator *)
Inductive aval := VNone | VObj (p : nat) | VList (l : list nat).
Definition penv := nat -> aval.

(** argument expressions for particle attributes *)
Inductive pargexp :=
| QSelf (a : nat)         (* self.<a> *)
| QNone                   (* None / parameter default *)
| QNil                    (* [] *)
| QList (l : list nat).   (* the objects self.<a1>, self.<a2>, ... as a list *)

(** what particles() returns *)
Inductive pform :=
| PFGuard (guard : list nat) (elems : list nat)
    (* if all guard attributes are truthy: [self.e1, self.e2, ...] else [] *)
| PFAttrList (a : nat).   (* return self.<a> (a list-valued attribute) *)

(** matrix argument of a constructor call inside inverse() *)
Inductive matarg :=
| MParams (ps : list rexpr)   (* the real parameters handed to the constructor *)
| MAdjSelf.                   (* self.as_matrix().conj().T handed to GeneralGate *)
Inductive nwarg := NWSelf | NWConst (n : nat).

Inductive invform :=
| InvSelf
| InvNew (c : gcls) (m : matarg) (nw : nwarg)
         (attrs : list (nat * pargexp))        (* attribute values after __init__ *)
         (on : option (list nat * list (nat * pargexp))).
             (* Some (g, sets): `if self.g1 and ...: inv.on(...)` assigning the attributes in sets *)

(** everything the translator extracts, indexed by class *)
Record gatedb := {
  db_nparams : gcls -> nat;
  db_atoms : gcls -> list aspec;
  db_guard : gcls -> option nat;   (* Some k: `if atom_k == 0` selects the alternative closed form *)
  db_mat : forall K : Scalar, gcls -> bool -> nat -> list K -> BMx K;
      (* class, guard value, integer parameter (nwires), atom values *)
  db_nw : gcls -> nat -> nat;      (* num_wires (function of the integer parameter) *)
  db_dim : gcls -> nat -> nat;     (* number of rows/columns of the reported array *)
  db_herm : gcls -> bool;          (* is_hermitian() *)
  db_inv : gcls -> invform;
  db_part : gcls -> pform;
  db_islist : nat -> bool }.       (* attribute kind: list of particles / single particle *)

(** ------------------------------------------------------------------ particles *)
Definition truthy (v : aval) : bool :=
  match v with VNone => false | VObj _ => true | VList [] => false | VList _ => true end.

Definition entries (v : aval) : list (option nat) :=
  match v with VNone => [None] | VObj p => [Some p] | VList l => map Some l end.

Definition eval_pform (f : pform) (e : penv) : list (option nat) :=
  match f with
  | PFGuard g els =>
      if forallb (fun a => truthy (e a)) g then flat_map (fun a => entries (e a)) els else []
  | PFAttrList a => match e a with VList l => map Some l | _ => [] end
  end.

Definition eval_parg (e : penv) (q : pargexp) : aval :=
  match q with
  | QSelf a => e a
  | QNone => VNone
  | QNil => VList []
  | QList l => VList (flat_map (fun a => match e a with VObj p => [p] | _ => [] end) l)
  end.

Fixpoint assoc {A} (a : nat) (l : list (nat * A)) : option A :=
  match l with
  | [] => None
  | (b, v) :: l' => if Nat.eqb a b then Some v else assoc a l'
  end.

(** attribute environment of the object inverse() returns *)
Definition inv_env (f : invform) (e : penv) : penv :=
  match f with
  | InvSelf => e
  | InvNew _ _ _ attrs on =>
      let e0 := fun a => match assoc a attrs with Some q => eval_parg e q | None => VNone end in
      match on with
      | Some (g, sets) =>
          if forallb (fun a => truthy (e a)) g
          then fun a => match assoc a sets with Some q => eval_parg e q | None => e0 a end
          else e0
      | None => e0
      end
  end.

Definition inv_cls (c : gcls) (f : invform) : gcls :=
  match f with InvSelf => c | InvNew c' _ _ _ _ => c' end.

Definition inv_particles (db : gatedb) (c : gcls) (e : penv) : list (option nat) :=
  eval_pform (db_part db (inv_cls c (db_inv db c))) (inv_env (db_inv db c) e).

Definition typed_env (db : gatedb) (e : penv) : Prop :=
  forall a, match e a with VList _ => db_islist db a = true | _ => db_islist db a = false end.

(** ------------------------------------------------------------------ matrices *)
(** shape of a list-of-rows literal *)
Definition dims {A} (rows : list (list A)) (d : nat) : bool :=
  Nat.eqb (length rows) d && forallb (fun r => Nat.eqb (length r) d) rows.

Section Mx.
  Context {K : Scalar}.
  Local Open Scope K_scope.
  (** small integer constants of the source as ring elements *)
  Fixpoint kpos (n : nat) : K := match n with O => 0 | Datatypes.S O => 1 | Datatypes.S m => kpos m + 1 end.

  Definition mx2 (a b c d : K) : BMx K := mxl [[a; b]; [c; d]].
  (** scalar multiple of the identity, any number of wires *)
  Definition mscid (a : K) : BMx K := fun r c => a * mid r c.
End Mx.
