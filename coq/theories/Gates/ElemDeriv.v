(** The generator of the Euler form: d/dtheta R_P(theta) at 0 is -i P / 2, entrywise
    (real and imaginary part), with Coquelicot's [is_derive].  Together with the group law
    (ElemSpec.rot_group) this identifies theta |-> R_P(theta) as the one-parameter group generated
    by -i P / 2; that this group is the power series exp(-i theta P / 2) is background. *)
From Coq Require Import Reals Lra.
From Coquelicot Require Import Coquelicot.
From Qib Require Export Gates.ElemSpec Gates.ElemReal.
Local Open Scope R_scope.

(** entry of R_P(theta) = cos(theta/2) d - i sin(theta/2) p  with d = delta_rc, p = P_rc *)
Definition euler_entry (d p : C) (th : R) : C :=
  Cplus (Cmult (RtoC (cos (th / 2))) d) (Cmult (Copp (Cmult Ci (RtoC (sin (th / 2))))) p).

Lemma euler_entry_derive (d p : C) :
  let g := Cmult (Cmult (Copp Ci) (RtoC (/ 2))) p in
  is_derive (fun th => fst (euler_entry d p th)) 0 (fst g) /\
  is_derive (fun th => snd (euler_entry d p th)) 0 (snd g).
Proof.
  destruct d as [d1 d2], p as [p1 p2]. cbv [euler_entry Cplus Cmult Copp Ci RtoC fst snd]. split.
  - auto_derive; [trivial|]. replace (0 * / 2) with 0 by lra. rewrite cos_0, sin_0. lra.
  - auto_derive; [trivial|]. replace (0 * / 2) with 0 by lra. rewrite cos_0, sin_0. lra.
Qed.

Lemma rot_spec_entry (P : BMx CS) (th : R) r c :
  rot_spec P (RtoC (cos (th / 2)) : CS) (RtoC (sin (th / 2))) r c = euler_entry (mid r c) (P r c) th.
Proof. reflexivity. Qed.

Lemma rot_spec_generator (P : BMx CS) r c :
  let g := Cmult (Cmult (Copp Ci) (RtoC (/ 2))) (P r c) in
  is_derive (fun th => fst (rot_spec P (RtoC (cos (th / 2)) : CS) (RtoC (sin (th / 2))) r c)) 0 (fst g) /\
  is_derive (fun th => snd (rot_spec P (RtoC (cos (th / 2)) : CS) (RtoC (sin (th / 2))) r c)) 0 (snd g).
Proof. exact (euler_entry_derive (mid r c) (P r c)). Qed.
