(** C03, circuit level: "for every circuit C and register, the matrix of C.inverse() times the
    matrix of C is the identity".

    A circuit is the list of its gates; a gate of a circuit is its matrix together with the
    register wires of its particles (Qib.Embed.CircModel, imported read-only: [cmat] is the
    loop of Circuit.as_matrix, [E] is Gate.as_circuit_matrix = [embed] (C04)).
    Circuit.inverse() is `Circuit([g.inverse() for g in reversed(self.gates)])`: the reversed
    list with every gate replaced by its inverse().  What C03 shows per gate, for every gate
    kind and every nesting, is exactly the hypothesis [inv_ok] below: inverse() reports the
    adjoint matrix and the same particles in the same order (hence the same wires).

    The theorems are for every circuit length, every register size, every assignment of
    distinct in-range wires; proofs by induction on the gate list. *)
From Qib Require Export Embed.CircProofs.

Section CircInverse.
  Context {K : Scalar} {L : ScalarLaws K}.
  Local Open Scope K_scope.
  Add Ring KringCI : (s_ring K L).

  Variable nw : nat.

  (** gi is an inverse() of g: same wires (same particles, same order), adjoint matrix *)
  Definition inv_ok (g gi : cgate K) : Prop :=
    g_wires gi = g_wires g /\ meq (length (g_wires g)) (g_mat gi) (madj (g_mat g)).

  (** the inverse() with literally the adjoint matrix *)
  Definition adj_gate (g : cgate K) : cgate K := {| g_mat := madj (g_mat g); g_wires := g_wires g |}.
  Lemma adj_gate_ok g : inv_ok g (adj_gate g).
  Proof. split; [reflexivity|apply meq_refl]. Qed.

  (** one gate: E(inverse g) E(g) = 1 and E(g) E(inverse g) = 1 *)
  Lemma E_inverse_l (g gi : cgate K) : gate_ok nw g -> inv_ok g gi ->
    meq nw (mmul nw (E nw gi) (E nw g)) mid.
  Proof.
    intros [W [U1 U2]] [Hw Hm]. unfold E. rewrite Hw.
    eapply meq_trans; [apply embed_mmul; exact W|].
    eapply meq_trans; [|apply embed_mid; exact W].
    apply embed_meq.
    eapply meq_trans; [apply mmul_meq; [exact Hm|apply meq_refl]|]. exact U2.
  Qed.
  Lemma E_inverse_r (g gi : cgate K) : gate_ok nw g -> inv_ok g gi ->
    meq nw (mmul nw (E nw g) (E nw gi)) mid.
  Proof.
    intros [W [U1 U2]] [Hw Hm]. unfold E. rewrite Hw.
    eapply meq_trans; [apply embed_mmul; exact W|].
    eapply meq_trans; [|apply embed_mid; exact W].
    apply embed_meq.
    eapply meq_trans; [apply mmul_meq; [apply meq_refl|exact Hm]|]. exact U1.
  Qed.

  (** the circuit matrix of (g :: c) and of (c ++ [g]) *)
  Lemma cmat_cons (g : cgate K) c : meq nw (cmat nw (g :: c)) (mmul nw (cmat nw c) (E nw g)).
  Proof.
    change (g :: c) with ([g] ++ c). eapply meq_trans; [apply cmat_app|].
    apply mmul_meq; [apply meq_refl|apply cmat_one].
  Qed.
  Lemma cmat_snoc (g : cgate K) c : meq nw (cmat nw (c ++ [g])) (mmul nw (E nw g) (cmat nw c)).
  Proof. eapply meq_trans; [apply cmat_app|]. apply mmul_meq; [apply cmat_one|apply meq_refl]. Qed.

  (** A (B C) D with B C = 1 *)
  Lemma sandwich (A B C D : BMx K) : meq nw (mmul nw B C) mid ->
    meq nw (mmul nw (mmul nw A B) (mmul nw C D)) (mmul nw A D).
  Proof.
    intros H.
    eapply meq_trans; [apply mmul_assoc|]. apply mmul_meq; [apply meq_refl|].
    eapply meq_trans; [apply meq_sym; apply mmul_assoc|].
    eapply meq_trans; [apply mmul_meq; [exact H|apply meq_refl]|]. apply mmul_id_l.
  Qed.

  (** [ci] is the reversed list of inverses of [c]: Forall2 inv_ok (rev c) ci, stated on c itself *)
  Inductive inverse_of : circuit K -> circuit K -> Prop :=
  | inverse_of_nil : inverse_of [] []
  | inverse_of_cons g gi c ci : inv_ok g gi -> inverse_of c ci -> inverse_of (g :: c) (ci ++ [gi]).

  (** MAIN (relational form): inverse circuit times circuit = 1, and circuit times inverse = 1 *)
  Theorem cmat_inverse_of (c ci : circuit K) : Forall (gate_ok nw) c -> inverse_of c ci ->
    meq nw (mmul nw (cmat nw ci) (cmat nw c)) mid /\ meq nw (mmul nw (cmat nw c) (cmat nw ci)) mid.
  Proof.
    intros HF HI. induction HI as [|g gi c ci Hg HI IH].
    - split; (eapply meq_trans; [apply mmul_meq; apply cmat_nil|apply mmul_id_l]).
    - inversion HF as [|? ? Gok HF']; subst. destruct (IH HF') as [IH1 IH2]. split.
      + (* (E gi * cmat ci) * (cmat c * E g) *)
        eapply meq_trans; [apply mmul_meq; [apply cmat_snoc|apply cmat_cons]|].
        eapply meq_trans; [apply sandwich; exact IH1|]. apply E_inverse_l; assumption.
      + (* (cmat c * E g) * (E gi * cmat ci) *)
        eapply meq_trans; [apply mmul_meq; [apply cmat_cons|apply cmat_snoc]|].
        eapply meq_trans; [apply sandwich; apply E_inverse_r; assumption|]. exact IH2.
  Qed.

  (** Circuit.inverse() as the code writes it: [ginv g for g in reversed(gates)] *)
  Definition circuit_inverse (ginv : cgate K -> cgate K) (c : circuit K) : circuit K := map ginv (rev c).

  Lemma circuit_inverse_is_inverse_of ginv (c : circuit K) :
    (forall g, In g c -> inv_ok g (ginv g)) -> inverse_of c (circuit_inverse ginv c).
  Proof.
    unfold circuit_inverse. induction c as [|g c IH]; intros H; [constructor|].
    cbn [rev]. rewrite map_app. cbn [map]. constructor.
    - apply H. left. reflexivity.
    - apply IH. intros x Hx. apply H. right. exact Hx.
  Qed.

  (** MAIN (functional form), on the total circuit matrix (empty product = 1) *)
  Theorem cmat_circuit_inverse ginv (c : circuit K) :
    Forall (gate_ok nw) c -> (forall g, In g c -> inv_ok g (ginv g)) ->
    meq nw (mmul nw (cmat nw (circuit_inverse ginv c)) (cmat nw c)) mid
    /\ meq nw (mmul nw (cmat nw c) (cmat nw (circuit_inverse ginv c))) mid.
  Proof. intros HF HI. apply cmat_inverse_of; [exact HF|]. apply circuit_inverse_is_inverse_of. exact HI. Qed.

  (** ... and on what Circuit.as_matrix returns (first gate special-cased; the empty circuit
      raises, and so does its inverse): whenever the circuit has a matrix, so has its inverse,
      and the two multiply to the identity on both sides *)
  Theorem circuit_matrix_inverse ginv (c : circuit K) M :
    Forall (gate_ok nw) c -> (forall g, In g c -> inv_ok g (ginv g)) ->
    circuit_matrix nw c = Some M ->
    exists Mi, circuit_matrix nw (circuit_inverse ginv c) = Some Mi
               /\ meq nw (mmul nw Mi M) mid /\ meq nw (mmul nw M Mi) mid.
  Proof.
    intros HF HI HM.
    assert (Hne : circuit_inverse ginv c <> []).
    { destruct c as [|g c]; [discriminate|]. unfold circuit_inverse. cbn [rev]. rewrite map_app.
      intros H. apply app_eq_nil in H. destruct H as [_ H]. discriminate H. }
    destruct (circuit_matrix_some nw _ Hne) as [Mi HMi]. exists Mi. split; [exact HMi|].
    destruct (cmat_circuit_inverse ginv c HF HI) as [H1 H2].
    pose proof (circuit_matrix_cmat nw _ _ HM) as EM.
    pose proof (circuit_matrix_cmat nw _ _ HMi) as EMi.
    split.
    - eapply meq_trans; [apply mmul_meq; [exact EMi|exact EM]|]. exact H1.
    - eapply meq_trans; [apply mmul_meq; [exact EM|exact EMi]|]. exact H2.
  Qed.

  (** the inverse circuit consists of admissible gates again (so it can be inverted again) *)
  Lemma inv_ok_gate_ok g gi : gate_ok nw g -> inv_ok g gi -> gate_ok nw gi.
  Proof.
    intros [W U] [Hw Hm]. split; rewrite Hw; [exact W|].
    eapply unitary_meq; [apply meq_sym; exact Hm|]. apply unitary_madj. exact U.
  Qed.
  Theorem circuit_inverse_gate_ok ginv (c : circuit K) :
    Forall (gate_ok nw) c -> (forall g, In g c -> inv_ok g (ginv g)) ->
    Forall (gate_ok nw) (circuit_inverse ginv c).
  Proof.
    intros HF HI. unfold circuit_inverse. apply Forall_forall. intros x Hx.
    apply in_map_iff in Hx. destruct Hx as [g [<- Hg]]. apply in_rev in Hg.
    apply (inv_ok_gate_ok g); [|apply HI; exact Hg].
    rewrite Forall_forall in HF. apply HF. exact Hg.
  Qed.

  (** reversing is needed: without it the statement is false in general (see the Example in
      coq/props/C03i.v); what holds without reversal is only the product in the wrong order *)
End CircInverse.
