(** Mathematical definitions of the named elementary gates, written once by hand
    (independent of the source), and the algebra that justifies the Euler closed forms:
    P*P = 1  ==>  R_P(c,s) := c 1 - i s P  satisfies the one-parameter-group law under the
    addition formulas, and R_P(1,0) = 1.  (That this group is exp(-i theta P/2) is the power
    series identity exp(-i t P) = cos t - i sin t P for P*P = 1: background, not proved here.) *)
From Qib Require Export Gates.ElemProofs.

Section Spec.
  Context {K : Scalar} {L : ScalarLaws K}.
  Local Open Scope K_scope.
  Add Ring KringSpec : (s_ring K L).

  (** Pauli matrices *)
  Definition pX : BMx K := mx2 0 1 1 0.
  Definition pY : BMx K := mx2 0 (- sI) sI 0.
  Definition pZ : BMx K := mx2 1 0 0 (- (1)).
  (** diagonal one-qubit matrix *)
  Definition pdiag (a b : K) : BMx K := mx2 a 0 0 b.
  (** two-qubit Pauli products, first factor on the first (most significant) wire *)
  Definition pXX : BMx K := kron 1 pX pX.
  Definition pYY : BMx K := kron 1 pY pY.
  Definition pZZ : BMx K := kron 1 pZ pZ.
  (** n . sigma *)
  Definition nsigma (n0 n1 n2 : K) : BMx K :=
    madd (madd (mscal n0 pX) (mscal n1 pY)) (mscal n2 pZ).

  (** R_P(theta) = cos(theta/2) 1 - i sin(theta/2) P, carried by c = cos(theta/2), s = sin(theta/2) *)
  Definition rot_spec (P : BMx K) (c s : K) : BMx K :=
    madd (mscal c mid) (mscal (- (sI * s)) P).

  (** Hadamard = (X + Z)/sqrt 2, h = 1/sqrt 2 *)
  Definition spec_H (h : K) : BMx K := mscal h (madd pX pZ).
  (** S = diag(1, i),  T = diag(1, e^{i pi/4}) with w = e^{i pi/4} *)
  Definition spec_S : BMx K := pdiag 1 sI.
  Definition spec_T (w : K) : BMx K := pdiag 1 w.
  (** iSWAP: |00> -> |00>, |01> -> i|10>, |10> -> i|01>, |11> -> |11> *)
  Definition spec_iswap : BMx K := fun r c =>
    match r, c with
    | [false; false], [false; false] => 1
    | [true; false], [false; true] => sI
    | [false; true], [true; false] => sI
    | [true; true], [true; true] => 1
    | _, _ => 0
    end.

  (** ---- bilinearity of the matrix product *)
  Lemma mmul_madd_l n (A B C : BMx K) :
    meq n (mmul n (madd A B) C) (madd (mmul n A C) (mmul n B C)).
  Proof.
    intros r c _ _. unfold mmul, madd. rewrite <- bsum_add_fn. apply bsum_ext. intros k _. ring.
  Qed.
  Lemma mmul_madd_r n (A B C : BMx K) :
    meq n (mmul n A (madd B C)) (madd (mmul n A B) (mmul n A C)).
  Proof.
    intros r c _ _. unfold mmul, madd. rewrite <- bsum_add_fn. apply bsum_ext. intros k _. ring.
  Qed.
  Lemma mmul_mscal_l n a (A B : BMx K) : meq n (mmul n (mscal a A) B) (mscal a (mmul n A B)).
  Proof.
    intros r c _ _. unfold mmul, mscal. rewrite <- bsum_scal. apply bsum_ext. intros k _. ring.
  Qed.
  Lemma mmul_mscal_r n a (A B : BMx K) : meq n (mmul n A (mscal a B)) (mscal a (mmul n A B)).
  Proof.
    intros r c _ _. unfold mmul, mscal. rewrite <- bsum_scal. apply bsum_ext. intros k _. ring.
  Qed.

  (** ---- group law of the Euler form, for any involution P on n wires *)
  Lemma rot_group n (P : BMx K) (c1 s1 c2 s2 : K) :
    meq n (mmul n P P) mid ->
    meq n (mmul n (rot_spec P c1 s1) (rot_spec P c2 s2))
          (rot_spec P (c1 * c2 - s1 * s2) (s1 * c2 + c1 * s2)).
  Proof.
    intros HP r c Hr Hc. pose proof (I_sq K L) as I2.
    pose proof (mmul_id_l n P r c Hr Hc) as E1.
    pose proof (mmul_id_r n P r c Hr Hc) as E2.
    pose proof (mmul_id_l n mid r c Hr Hc) as E3.
    pose proof (HP r c Hr Hc) as E4.
    unfold mmul in E1, E2, E3, E4.
    unfold mmul, rot_spec, madd, mscal.
    transitivity (c1 * c2 * bsum n (fun k => mid r k * mid k c)
                  + c1 * (- (sI * s2)) * bsum n (fun k => mid r k * P k c)
                  + (- (sI * s1)) * c2 * bsum n (fun k => P r k * mid k c)
                  + (- (sI * s1)) * (- (sI * s2)) * bsum n (fun k => P r k * P k c)).
    { rewrite <- !bsum_scal, <- !bsum_add_fn. apply bsum_ext. intros k _. ring. }
    rewrite E1, E2, E3, E4. ring [I2].
  Qed.

  Lemma rot_zero n (P : BMx K) : meq n (rot_spec P 1 0) mid.
  Proof. intros r c _ _. unfold rot_spec, madd, mscal. ring. Qed.

  (** consequently R_P(c,s) is inverted by R_P(c,-s) when c*c + s*s = 1 *)
  Lemma rot_inverse n (P : BMx K) (c s : K) :
    meq n (mmul n P P) mid -> c * c + s * s = 1 ->
    meq n (mmul n (rot_spec P c (- s)) (rot_spec P c s)) mid.
  Proof.
    intros HP H. eapply meq_trans; [apply rot_group; exact HP|].
    replace (c * c - - s * s) with (1 : K) by (rewrite <- H; ring).
    replace (- s * c + c * s) with (0 : K) by ring.
    apply rot_zero.
  Qed.

  (** ---- the six generators are involutions *)
  Lemma pX_sq : meq 1 (mmul 1 pX pX) mid.
  Proof. unfold pX. mx_meq []. Qed.
  Lemma pY_sq : meq 1 (mmul 1 pY pY) mid.
  Proof. unfold pY. mx_meq []. Qed.
  Lemma pZ_sq : meq 1 (mmul 1 pZ pZ) mid.
  Proof. unfold pZ. mx_meq []. Qed.
  Lemma pXX_sq : meq 2 (mmul 2 pXX pXX) mid.
  Proof. unfold pXX, pX. mx_meq []. Qed.
  Lemma pYY_sq : meq 2 (mmul 2 pYY pYY) mid.
  Proof. unfold pYY, pY. mx_meq []. Qed.
  Lemma pZZ_sq : meq 2 (mmul 2 pZZ pZZ) mid.
  Proof. unfold pZZ, pZ. mx_meq []. Qed.
  (** (n.sigma)^2 = |n|^2 1 *)
  Lemma nsigma_sq (n0 n1 n2 : K) : n0 * n0 + n1 * n1 + n2 * n2 = 1 ->
    meq 1 (mmul 1 (nsigma n0 n1 n2) (nsigma n0 n1 n2)) mid.
  Proof.
    intros H. assert (M : n0 * n0 = 1 - n1 * n1 - n2 * n2) by (rewrite <- H; ring).
    unfold nsigma, pX, pY, pZ. mx_meq [M].
  Qed.

  (** the generators are Hermitian (so -i theta P / 2 is anti-Hermitian) *)
  Lemma pX_herm : hermitian 1 pX.
  Proof. unfold pX. mx_hermitian []. Qed.
  Lemma pY_herm : hermitian 1 pY.
  Proof. unfold pY. mx_hermitian []. Qed.
  Lemma pZ_herm : hermitian 1 pZ.
  Proof. unfold pZ. mx_hermitian []. Qed.
  Lemma pXX_herm : hermitian 2 pXX.
  Proof. unfold pXX, pX. mx_hermitian []. Qed.
  Lemma pYY_herm : hermitian 2 pYY.
  Proof. unfold pYY, pY. mx_hermitian []. Qed.
  Lemma pZZ_herm : hermitian 2 pZZ.
  Proof. unfold pZZ, pZ. mx_hermitian []. Qed.

  (** Pauli relations used as sanity anchors of the specs: XY = iZ, S*S = Z, T*T = S (w*w = i) *)
  Lemma pX_pY : meq 1 (mmul 1 pX pY) (mscal sI pZ).
  Proof. unfold pX, pY, pZ. mx_meq []. Qed.
  Lemma spec_S_sq : meq 1 (mmul 1 spec_S spec_S) pZ.
  Proof. unfold spec_S, pdiag, pZ. mx_meq []. Qed.
  Lemma spec_T_sq (w : K) : w * w = sI -> meq 1 (mmul 1 (spec_T w) (spec_T w)) spec_S.
  Proof. intros H. unfold spec_T, spec_S, pdiag. mx_meq [H]. Qed.
  (** 2 iSWAP = (1 + ZZ) + i (XX + YY) *)
  Lemma spec_iswap_pauli :
    meq 2 (mscal (1 + 1) spec_iswap) (madd (madd mid pZZ) (mscal sI (madd pXX pYY))).
  Proof. unfold spec_iswap, pXX, pYY, pZZ, pX, pY, pZ. mx_meq []. Qed.
End Spec.
