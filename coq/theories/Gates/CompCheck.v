(** Case types and checkers for the composite-gate correspondence runs (vm_compute).
    The same model definitions (Gates.CompModel) are evaluated on Gaussian integers (exact
    leaves), on binary64 pairs (leaves that went through cos/sin/exp/sqrtm/qr/expm) and on
    Gaussian rationals (GeneralGate decision rule with the numpy tolerances). *)
From Qib Require Export Gates.CompModel Base.Inst.
From Coq Require Import QArith Qabs.
From Coq Require PrimFloat.

Section TreeCheck.
  Context {K : Scalar}.
  Variable eqK : K -> K -> bool.

  Definition mat_eqK (a b : list (list K)) : bool := list_eqb (list_eqb eqK) a b.

  (** what the implementation reported for a gate tree built through the public API *)
  Record expect := {
    e_nw : nat;                    (* num_wires *)
    e_shape : nat;                 (* as_matrix().shape[0] *)
    e_mat : list (list K);         (* as_matrix() *)
    e_herm : bool;                 (* is_hermitian() *)
    e_inw : nat;                   (* inverse().num_wires *)
    e_imat : list (list K);        (* inverse().as_matrix() *)
    e_parts : option (list nat);   (* particles(), None when not all bound *)
    e_iparts : option (list nat)   (* inverse().particles() *)
  }.

  Definition opt_parts_ok (model : list nat) (e : option (list nat)) : bool :=
    match e with None => true | Some l => list_eqb Nat.eqb model l end.

  Definition check_tree (g : cgate K) (e : expect) : bool :=
    Nat.eqb (num_wires g) (e_nw e)
    && Nat.eqb (shape g) (e_shape e)
    && mat_eqK (dense (e_nw e) (matrix g)) (e_mat e)
    && Bool.eqb (is_herm g) (e_herm e)
    && Nat.eqb (num_wires (inverse g)) (e_inw e)
    && mat_eqK (dense (e_nw e) (matrix (inverse g))) (e_imat e)
    && opt_parts_ok (particles g) (e_parts e)
    && opt_parts_ok (particles (inverse g)) (e_iparts e).

  Definition bad_trees (cs : list (nat * (cgate K * expect))) : list nat :=
    map fst (filter (fun c => negb (check_tree (fst (snd c)) (snd (snd c)))) cs).
End TreeCheck.

Definition bad_cases_zi := bad_trees (K:=ZI) zi_eqb.

Module FT. Import PrimFloat. Definition ftol : float := 0x1p-40%float. End FT.
Definition ftol := FT.ftol.
Definition bad_cases_fi := bad_trees (K:=F.FI) (F.fi_close ftol).

(** ---- GeneralGate decision rule with numpy's default tolerances (exact rationals) -------- *)
(** the binary64 values of the literals 1e-05 and 1e-08 (np.allclose defaults) *)
Definition np_rtol : Q := Qmake 0x14f8b588e368f1%Z (2 ^ 69)%positive.
Definition np_atol : Q := Qmake 0xabcc77118461d%Z (2 ^ 78)%positive.

Definition q_abs2 (a : QI) : Q := Qred (fst a * fst a + snd a * snd a).
(** |b| for b with a vanishing real or imaginary part (all the harness generates) *)
Definition q_abs1 (b : QI) : Q := Qred (Qabs (fst b) + Qabs (snd b)).
(** numpy: |a - b| <= atol + rtol * |b|, compared on squares *)
Definition np_close (a b : QI) : bool :=
  let t := Qred (np_atol + np_rtol * q_abs1 b) in
  Qle_bool (q_abs2 (ssub a b)) (Qred (t * t)).

Inductive gcase :=
| GTol (rtol atol : Q)                                   (* defaults of np.allclose in this numpy *)
| GAccept (n : nat) (rows : list (list QI)) (accepted : bool)
| GHerm (n : nat) (rows : list (list QI)) (herm : bool).

Definition check_g (c : gcase) : bool :=
  match c with
  | GTol r a => Qeq_bool r np_rtol && Qeq_bool a np_atol
  | GAccept n rows acc => Bool.eqb (general_accept np_close n rows) acc
  | GHerm n rows h => Bool.eqb (general_is_hermitian np_close n (mxl rows)) h
  end.

Definition bad_cases_g (cs : list (nat * gcase)) : list nat :=
  map fst (filter (fun c => negb (check_g (snd c))) cs).

(** short names for the generated case files *)
Definition zm : list (list ZI) -> BMx ZI := mxl (K:=ZI).
Definition fm : list (list F.FI) -> BMx F.FI := mxl (K:=F.FI).
Definition zcase (g : cgate ZI) (nw shp : nat) (mat : list (list ZI)) (herm : bool) (inw : nat)
    (imat : list (list ZI)) (parts iparts : option (list nat)) : cgate ZI * expect (K:=ZI) :=
  (g, Build_expect (K:=ZI) nw shp mat herm inw imat parts iparts).
Definition fcase (g : cgate F.FI) (nw shp : nat) (mat : list (list F.FI)) (herm : bool) (inw : nat)
    (imat : list (list F.FI)) (parts iparts : option (list nat)) : cgate F.FI * expect (K:=F.FI) :=
  (g, Build_expect (K:=F.FI) nw shp mat herm inw imat parts iparts).
