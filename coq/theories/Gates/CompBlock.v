(** Block encodings (the three np.block layouts), the argument of expm, PrepareGate and the
    GeneralGate decision rule. *)
From Qib Require Export Gates.CompCtrl.

Section CompBlock.
  Context {K : Scalar} {L : ScalarLaws K}.
  Local Open Scope K_scope.
  Add Ring KringCB : (s_ring K L).

  (** ---- 2x2 block matrices ----------------------------------------------------------- *)
  Lemma block2_mmul n (A B C D A' B' C' D' : BMx K) :
    meq (Datatypes.S n) (mmul (Datatypes.S n) (block2 A B C D) (block2 A' B' C' D'))
      (block2 (madd (mmul n A A') (mmul n B C')) (madd (mmul n A B') (mmul n B D'))
              (madd (mmul n C A') (mmul n D C')) (madd (mmul n C B') (mmul n D D'))).
  Proof.
    intros r c Hr Hc. destruct r as [|rb r]; [discriminate|]. destruct c as [|cb c]; [discriminate|].
    unfold mmul. rewrite bsum_S. cbn [block2]. unfold madd, mmul.
    destruct rb, cb; reflexivity.
  Qed.

  Lemma block2_madj (A B C D : BMx K) r c :
    madj (block2 A B C D) r c = block2 (madj A) (madj C) (madj B) (madj D) r c.
  Proof.
    unfold madj. destruct r as [|rb r], c as [|cb c]; cbn [block2]; try apply (conj_0 K L).
    destruct rb, cb; reflexivity.
  Qed.

  Lemma block2_mid n : meq (Datatypes.S n) (block2 mid mzero mzero mid) (mid (K:=K)).
  Proof.
    intros r c Hr Hc. destruct r as [|rb r]; [discriminate|]. destruct c as [|cb c]; [discriminate|].
    cbn [block2]. unfold mid, mzero. cbn [beq]. destruct rb, cb; cbn [Bool.eqb andb]; reflexivity.
  Qed.

  Lemma block2_meq n (A B C D A' B' C' D' : BMx K) :
    meq n A A' -> meq n B B' -> meq n C C' -> meq n D D' ->
    meq (Datatypes.S n) (block2 A B C D) (block2 A' B' C' D').
  Proof.
    intros HA HB HC HD r c Hr Hc.
    destruct r as [|rb r]; [discriminate|]. destruct c as [|cb c]; [discriminate|].
    cbn in Hr, Hc. injection Hr as Hr. injection Hc as Hc. cbn [block2].
    destruct rb, cb; [apply HD|apply HC|apply HB|apply HA]; assumption.
  Qed.

  (** ---- products of scalar multiples of Hermitian matrices --------------------------- *)
  Lemma mscal_mmul_adj n a b (X Y : BMx K) : hermitian n Y ->
    meq n (mmul n (mscal a X) (madj (mscal b Y))) (mscal (a * b^*) (mmul n X Y)).
  Proof.
    intros HY r c Hr Hc. unfold mmul, mscal, madj. rewrite <- bsum_scal.
    apply bsum_ext. intros k Hk. rewrite (conj_mul K L).
    pose proof (HY k c Hk Hc) as E. unfold madj in E. rewrite E. ring.
  Qed.

  Lemma mscal_adj_mmul n a b (X Y : BMx K) : hermitian n X ->
    meq n (mmul n (madj (mscal a X)) (mscal b Y)) (mscal (a^* * b) (mmul n X Y)).
  Proof.
    intros HX r c Hr Hc. unfold mmul, mscal, madj. rewrite <- bsum_scal.
    apply bsum_ext. intros k Hk. rewrite (conj_mul K L).
    pose proof (HX r k Hr Hk) as E. unfold madj in E. rewrite E. ring.
  Qed.

  (** ---- the general layout  [[a H, b S], [c S, d H]] --------------------------------- *)
  Definition bform (a b c d : K) (H Sq : BMx K) : BMx K :=
    block2 (mscal a H) (mscal b Sq) (mscal c Sq) (mscal d H).

  Record be_hyps (n : nat) (H Sq : BMx K) : Prop := {
    be_H : hermitian n H;
    be_S : hermitian n Sq;
    be_comm : meq n (mmul n H Sq) (mmul n Sq H);
    be_sq : meq n (madd (mmul n H H) (mmul n Sq Sq)) mid }.

  Lemma bform_madj n a b c d (H Sq : BMx K) : hermitian n H -> hermitian n Sq ->
    meq (Datatypes.S n) (madj (bform a b c d H Sq)) (bform (a^*) (c^*) (b^*) (d^*) H Sq).
  Proof.
    intros HH HS. unfold bform.
    eapply meq_trans; [intros r c0 _ _; apply block2_madj|].
    apply block2_meq; intros r c0 Hr Hc; unfold madj, mscal; rewrite (conj_mul K L);
      first [ pose proof (HH r c0 Hr Hc) as E | pose proof (HS r c0 Hr Hc) as E ];
      unfold madj in E; try (rewrite E; reflexivity).
    - pose proof (HS r c0 Hr Hc) as E'. unfold madj in E'. rewrite E'. reflexivity.
    - pose proof (HS r c0 Hr Hc) as E'. unfold madj in E'. rewrite E'. reflexivity.
  Qed.

  Theorem bform_unitary n a b c d (H Sq : BMx K) :
    be_hyps n H Sq ->
    a * a^* = 1 -> b * b^* = 1 -> c * c^* = 1 -> d * d^* = 1 ->
    a * c^* + b * d^* = 0 -> a^* * b + c^* * d = 0 ->
    unitary (Datatypes.S n) (bform a b c d H Sq).
  Proof.
    intros [HH HS Hcomm Hsq] Ha Hb Hc Hd Hx Hy.
    assert (Hx' : c * a^* + d * b^* = 0).
    { transitivity ((a * c^* + b * d^*)^*); [|rewrite Hx; apply (conj_0 K L)].
      rewrite (conj_add K L), !(conj_mul K L), !(conj_inv K L). ring. }
    assert (Hy' : b^* * a + d^* * c = 0).
    { transitivity ((a^* * b + c^* * d)^*); [|rewrite Hy; apply (conj_0 K L)].
      rewrite (conj_add K L), !(conj_mul K L), !(conj_inv K L). ring. }
    split.
    - unfold bform.
      eapply meq_trans; [apply mmul_meq; [apply meq_refl|intros r c0 _ _; apply block2_madj]|].
      eapply meq_trans; [apply block2_mmul|].
      eapply meq_trans; [|apply block2_mid].
      apply block2_meq; intros r c0 Hr Hc0; unfold madd.
      + rewrite (mscal_mmul_adj n a a H H HH r c0 Hr Hc0), (mscal_mmul_adj n b b Sq Sq HS r c0 Hr Hc0).
        unfold mscal. rewrite Ha, Hb. rewrite <- (Hsq r c0 Hr Hc0). unfold madd. ring.
      + rewrite (mscal_mmul_adj n a c H Sq HS r c0 Hr Hc0), (mscal_mmul_adj n b d Sq H HH r c0 Hr Hc0).
        unfold mscal, mzero. rewrite <- (Hcomm r c0 Hr Hc0).
        transitivity ((a * c^* + b * d^*) * mmul n H Sq r c0); [ring|]. rewrite Hx. ring.
      + rewrite (mscal_mmul_adj n c a Sq H HH r c0 Hr Hc0), (mscal_mmul_adj n d b H Sq HS r c0 Hr Hc0).
        unfold mscal, mzero. rewrite <- (Hcomm r c0 Hr Hc0).
        transitivity ((c * a^* + d * b^*) * mmul n H Sq r c0); [ring|]. rewrite Hx'. ring.
      + rewrite (mscal_mmul_adj n c c Sq Sq HS r c0 Hr Hc0), (mscal_mmul_adj n d d H H HH r c0 Hr Hc0).
        unfold mscal. rewrite Hc, Hd. rewrite <- (Hsq r c0 Hr Hc0). unfold madd. ring.
    - unfold bform.
      eapply meq_trans; [apply mmul_meq; [intros r c0 _ _; apply block2_madj|apply meq_refl]|].
      eapply meq_trans; [apply block2_mmul|].
      eapply meq_trans; [|apply block2_mid].
      assert (Ha' : a^* * a = 1) by (rewrite <- Ha; ring).
      assert (Hb' : b^* * b = 1) by (rewrite <- Hb; ring).
      assert (Hc' : c^* * c = 1) by (rewrite <- Hc; ring).
      assert (Hd' : d^* * d = 1) by (rewrite <- Hd; ring).
      apply block2_meq; intros r c0 Hr Hc0; unfold madd.
      + rewrite (mscal_adj_mmul n a a H H HH r c0 Hr Hc0), (mscal_adj_mmul n c c Sq Sq HS r c0 Hr Hc0).
        unfold mscal. rewrite Ha', Hc'. rewrite <- (Hsq r c0 Hr Hc0). unfold madd. ring.
      + rewrite (mscal_adj_mmul n a b H Sq HH r c0 Hr Hc0), (mscal_adj_mmul n c d Sq H HS r c0 Hr Hc0).
        unfold mscal, mzero. rewrite <- (Hcomm r c0 Hr Hc0).
        transitivity ((a^* * b + c^* * d) * mmul n H Sq r c0); [ring|]. rewrite Hy. ring.
      + rewrite (mscal_adj_mmul n b a Sq H HS r c0 Hr Hc0), (mscal_adj_mmul n d c H Sq HH r c0 Hr Hc0).
        unfold mscal, mzero. rewrite <- (Hcomm r c0 Hr Hc0).
        transitivity ((b^* * a + d^* * c) * mmul n H Sq r c0); [ring|]. rewrite Hy'. ring.
      + rewrite (mscal_adj_mmul n b b Sq Sq HS r c0 Hr Hc0), (mscal_adj_mmul n d d H H HH r c0 Hr Hc0).
        unfold mscal. rewrite Hb', Hd'. rewrite <- (Hsq r c0 Hr Hc0). unfold madd. ring.
  Qed.

  (** ---- the three methods of the code ------------------------------------------------- *)
  Definition benc_coeffs (m : bemethod) : K * K * K * K :=
    match m with
    | Wx => (1, sI, sI, 1)
    | Wxi => (1, - sI, - sI, 1)
    | BR => (1, 1, 1, - (1))
    end.
  Definition bform4 (q : K * K * K * K) (H Sq : BMx K) : BMx K :=
    let '(a, b, c, d) := q in bform a b c d H Sq.

  Lemma benc_mat_bform m (H Sq : BMx K) r c :
    benc_mat m H Sq r c = bform4 (benc_coeffs m) H Sq r c.
  Proof.
    destruct m; unfold benc_mat, benc_coeffs, bform4, bform;
      destruct r as [|rb r], c as [|cb c]; cbn [block2]; try reflexivity;
      destruct rb, cb; unfold mscal, mopp; ring.
  Qed.

  Theorem benc_mat_unitary m n (H Sq : BMx K) :
    be_hyps n H Sq -> unitary (Datatypes.S n) (benc_mat m H Sq).
  Proof.
    intros Hy. pose proof (conj_I K L) as CI. pose proof (I_sq K L) as I2.
    pose proof (conj_1 K L) as C1.
    eapply unitary_meq; [intros r c _ _; symmetry; apply benc_mat_bform|].
    destruct m; unfold benc_coeffs, bform4; apply bform_unitary; try exact Hy;
      rewrite ?(conj_opp K L), ?CI, ?C1; ring [I2].
  Qed.

  (** C02: the encoded operator is the top-left block (auxiliary qubit |0><0|) *)
  Theorem benc_mat_top_left m (H Sq : BMx K) r c :
    benc_mat m H Sq (false :: r) (false :: c) = H r c.
  Proof. destruct m; reflexivity. Qed.

  (** inverse() per method: Wx <-> Wxi, R is its own inverse *)
  Theorem benc_mat_inverse m n (H Sq : BMx K) : hermitian n H -> hermitian n Sq ->
    meq (Datatypes.S n) (benc_mat (benc_inv_method m) H Sq) (madj (benc_mat m H Sq)).
  Proof.
    intros HH HS. pose proof (conj_I K L) as CI. pose proof (conj_1 K L) as C1.
    eapply meq_trans; [intros r c _ _; apply benc_mat_bform|].
    eapply meq_trans; [|apply madj_meq; intros r c _ _; symmetry; apply benc_mat_bform].
    destruct m; unfold benc_inv_method, benc_coeffs, bform4;
      (eapply meq_trans; [|apply meq_sym; apply bform_madj; assumption]);
      rewrite ?(conj_opp K L), ?CI, ?C1; unfold bform;
      apply block2_meq; intros r c _ _; unfold mscal; ring.
  Qed.

  (** C16: method R claims to be Hermitian, and is *)
  Theorem benc_mat_hermitian m n (H Sq : BMx K) : hermitian n H -> hermitian n Sq ->
    benc_herm m = true -> hermitian (Datatypes.S n) (benc_mat m H Sq).
  Proof.
    intros HH HS Hm. destruct m; try discriminate.
    unfold hermitian. apply meq_sym. apply (benc_mat_inverse BR n H Sq HH HS).
  Qed.

  (** ---- the argument of expm ----------------------------------------------------------- *)
  Theorem tevo_arg_antiherm n t (H : BMx K) : hermitian n H -> t^* = t -> antiherm n (tevo_arg t H).
  Proof.
    intros HH Ht r c Hr Hc. pose proof (conj_I K L) as CI.
    unfold madj, mopp, tevo_arg, mscal.
    rewrite !(conj_mul K L), (conj_opp K L), CI, Ht.
    pose proof (HH r c Hr Hc) as E. unfold madj in E. rewrite E. ring.
  Qed.

  Lemma tevo_arg_neg n t (H : BMx K) : hermitian n H -> t^* = t ->
    meq n (tevo_arg (- t) H) (madj (tevo_arg t H)).
  Proof.
    intros HH Ht r c Hr Hc. pose proof (conj_I K L) as CI.
    unfold madj, tevo_arg, mscal.
    rewrite !(conj_mul K L), (conj_opp K L), CI, Ht.
    pose proof (HH r c Hr Hc) as E. unfold madj in E. rewrite E. ring.
  Qed.

  Theorem qucc_arg_antiherm n (T : BMx K) : antiherm n (qucc_arg T).
  Proof.
    intros r c _ _. unfold madj, mopp, qucc_arg, msub, madj.
    rewrite conj_sub, (conj_inv K L). ring.
  Qed.

  (** ---- PrepareGate -------------------------------------------------------------------- *)
  Lemma real_orth_unitary n (Q : BMx K) : real_orth n Q -> unitary n Q.
  Proof.
    intros [Hre [H1 H2]]. split.
    - eapply meq_trans; [|exact H1]. apply mmul_meq; [apply meq_refl|].
      intros r c Hr Hc. unfold madj, mtransp. apply Hre; assumption.
    - eapply meq_trans; [|exact H2]. apply mmul_meq; [|apply meq_refl].
      intros r c Hr Hc. unfold madj, mtransp. apply Hre; assumption.
  Qed.

  Lemma real_orth_transp n (Q : BMx K) : real_orth n Q -> real_orth n (mtransp Q).
  Proof.
    intros [Hre [H1 H2]]. split; [|split].
    - intros r c Hr Hc. unfold mtransp. apply Hre; assumption.
    - exact H2.
    - exact H1.
  Qed.

  Lemma is_zero_idx_eq (r c : bits) : length r = length c ->
    is_zero_idx r = true -> is_zero_idx c = true -> r = c.
  Proof.
    revert c; induction r as [|x r IH]; intros [|y c] Hl Hr Hc; try discriminate; [reflexivity|].
    cbn in Hr, Hc. apply andb_true_iff in Hr, Hc. destruct Hr as [Hx Hr], Hc as [Hy Hc].
    destruct x, y; try discriminate. f_equal. apply IH; auto.
  Qed.

  (** negating one column of a real orthogonal matrix keeps it real orthogonal *)
  Theorem negcol0_real_orth n (Q : BMx K) : real_orth n Q -> real_orth n (negcol0 Q).
  Proof.
    intros [Hre [H1 H2]]. split; [|split].
    - intros r c Hr Hc. unfold negcol0. destruct (is_zero_idx c);
        rewrite ?(conj_opp K L), Hre by assumption; reflexivity.
    - intros r c Hr Hc. rewrite <- (H1 r c Hr Hc). unfold mmul, mtransp, negcol0.
      apply bsum_ext. intros k _. destruct (is_zero_idx k); ring.
    - intros r c Hr Hc. unfold mmul, mtransp, negcol0.
      transitivity ((if is_zero_idx r then - (1) else 1) * (if is_zero_idx c then - (1) else 1)
                    * mmul n (mtransp Q) Q r c).
      { unfold mmul, mtransp. rewrite <- bsum_scal. apply bsum_ext. intros k _.
        destruct (is_zero_idx r), (is_zero_idx c); ring. }
      rewrite (H2 r c Hr Hc). unfold mid.
      destruct (beq r c) eqn:E.
      + apply beq_eq in E. subst c. destruct (is_zero_idx r); ring.
      + ring.
  Qed.

  Theorem prep_mat_real_orth n (Q0 : BMx K) flip tr : real_orth n Q0 -> real_orth n (prep_mat Q0 flip tr).
  Proof.
    intros H. unfold prep_mat.
    assert (H' : real_orth n (if flip then negcol0 Q0 else Q0))
      by (destruct flip; [apply negcol0_real_orth|]; exact H).
    destruct tr; [apply real_orth_transp|]; exact H'.
  Qed.

  Theorem prep_mat_unitary n (Q0 : BMx K) flip tr : real_orth n Q0 -> unitary n (prep_mat Q0 flip tr).
  Proof. intros H. apply real_orth_unitary. apply prep_mat_real_orth. exact H. Qed.

  (** inverse(): the same vector with the transpose flag negated *)
  Theorem prep_mat_inverse n (Q0 : BMx K) flip tr : real_orth n Q0 ->
    meq n (prep_mat Q0 flip (negb tr)) (madj (prep_mat Q0 flip tr)).
  Proof.
    intros H r c Hr Hc.
    pose proof (prep_mat_real_orth n Q0 flip false H) as [Hre _].
    unfold madj. unfold prep_mat in *. destruct tr; cbn [negb]; unfold mtransp.
    - symmetry. apply Hre; assumption.
    - symmetry. apply Hre; assumption.
  Qed.

  (** C02: when QR returned +-x as first column and flip records the sign test, the first
      column of the gate (first row when transposed) is x *)
  Theorem prep_mat_first_column (Q0 : BMx K) (x : bits -> K) (flip tr : bool) (z : bits) :
    is_zero_idx z = true ->
    (forall r, Q0 r z = (if flip then - x r else x r) :> K) ->
    forall r, (if tr then prep_mat Q0 flip tr z r else prep_mat Q0 flip tr r z) = x r.
  Proof.
    intros Hz Hq r. unfold prep_mat, mtransp, negcol0.
    destruct tr, flip; rewrite ?Hz, Hq; ring.
  Qed.

  (** x_i = sign(v_i) * sqrt|v_i| has unit 2-norm when v is 1-norm normalised:
      w = |v|, a = sqrt w, sg = sign v *)
  Theorem prep_vec_unit_norm n (sg a w : bits -> K) :
    (forall r, length r = n -> a r * a r = w r) ->
    (forall r, length r = n -> sg r * sg r * w r = w r) ->
    bsum n w = 1 ->
    bsum n (fun r => (sg r * a r) * (sg r * a r)) = 1.
  Proof.
    intros Ha Hs Hw. rewrite <- Hw. apply bsum_ext. intros r Hr.
    rewrite <- (Hs r Hr), <- (Ha r Hr). ring.
  Qed.

  (** ---- GeneralGate -------------------------------------------------------------------- *)
  Lemma allclose_spec (close : K -> K -> bool) n (A B : BMx K) :
    allclose close n A B = true <->
    (forall r c, length r = n -> length c = n -> close (A r c) (B r c) = true).
  Proof.
    unfold allclose. rewrite forallb_forall. split.
    - intros H r c Hr Hc. specialize (H r (all_bits_complete n r Hr)).
      rewrite forallb_forall in H. apply H. apply all_bits_complete. exact Hc.
    - intros H r Hr. rewrite forallb_forall. intros c Hc.
      apply H; eapply all_bits_length; eassumption.
  Qed.

  (** the constructor's rule: accepted => the right shape and allclose(M M^dagger, I) *)
  Theorem general_accept_spec (close : K -> K -> bool) n rows :
    general_accept close n rows = true ->
    length rows = 2 ^ n /\ Forall (fun row => length row = 2 ^ n) rows /\
    (forall r c, length r = n -> length c = n ->
       close (mmul n (mxl rows) (madj (mxl rows)) r c) (mid r c) = true).
  Proof.
    unfold general_accept, shape_ok. intros H.
    apply andb_true_iff in H. destruct H as [H1 H2].
    apply andb_true_iff in H1. destruct H1 as [Hl Hrows].
    split; [apply Nat.eqb_eq; exact Hl|]. split.
    - rewrite Forall_forall. rewrite forallb_forall in Hrows.
      intros row Hin. apply Nat.eqb_eq. apply Hrows. exact Hin.
    - apply allclose_spec. exact H2.
  Qed.

  (** is_hermitian() is exactly "allclose(M, M^dagger)" *)
  Theorem general_is_hermitian_iff (close : K -> K -> bool) n (M : BMx K) :
    general_is_hermitian close n M = true <->
    (forall r c, length r = n -> length c = n -> close (M r c) (madj M r c) = true).
  Proof. apply allclose_spec. Qed.

  (** with an exact closeness test both are exact *)
  Corollary general_exact_unitary (close : K -> K -> bool) n rows :
    (forall a b, close a b = true -> a = b) ->
    general_accept close n rows = true ->
    meq n (mmul n (mxl rows) (madj (mxl rows))) mid.
  Proof.
    intros Hc H r c Hr Hc0. apply Hc. apply (general_accept_spec close n rows H); assumption.
  Qed.

  Lemma hermitian_madj n (M : BMx K) : hermitian n M -> hermitian n (madj M).
  Proof.
    intros H. unfold hermitian in *.
    eapply meq_trans; [apply madj_invol|]. apply meq_sym. exact H.
  Qed.
End CompBlock.
