(** Commutation, Hermiticity, parse/print, refactor, operator algebra. *)
From Qib Require Export Pauli.PauliProofs.
From Coq Require Import Ascii.
Ltac Zify.zify_post_hook ::= Z.to_euclidean_division_equations.

Section Proofs2.
  Context {K : Scalar} {L : ScalarLaws K}.
  Local Open Scope K_scope.
  Add Ring KringP2 : (s_ring K L).

  Fixpoint zeros (n : nat) : bits := match n with O => [] | Datatypes.S n' => false :: zeros n' end.
  Lemma zeros_length n : length (zeros n) = n.
  Proof. induction n; cbn; congruence. Qed.

  Lemma bxor_comm (a b : list bool) : bxor a b = bxor b a.
  Proof.
    revert b; induction a as [|x a IH]; intros [|y b]; try reflexivity.
    rewrite !bxor_cons, IH, xorb_comm. reflexivity.
  Qed.
  Lemma dotb_comm (a b : list bool) : dotb a b = dotb b a.
  Proof.
    revert b; induction a as [|x a IH]; intros [|y b]; try reflexivity.
    cbn. rewrite IH, andb_comm. reflexivity.
  Qed.

  (** the monomial matrix Z^z X^x has a unit entry in column 0...0 *)
  Lemma zx_mat_unit zs : forall xs, length zs = length xs ->
    zx_mat zs xs xs (zeros (length xs)) * zx_mat zs xs xs (zeros (length xs)) = 1 :> K.
  Proof.
    induction zs as [|z zs IH]; intros [|x xs] H; try discriminate; [cbn; ring|].
    cbn in H. injection H as H. cbn [length zeros zx_mat].
    specialize (IH xs H).
    set (M := zx_mat zs xs xs (zeros (length xs))) in *.
    transitivity (zx_entry z x x false * zx_entry z x x false * (M * M) : K); [ring|].
    rewrite IH. destruct z, x; cbn; ring.
  Qed.

  Lemma mmul_pmatrix n p p' r c : wfp n p -> wfp n p' -> length r = n -> length c = n ->
    mmul n (pmatrix p) (pmatrix p') r c
    = mipz (pq p + dotz (pz p) (px p)) * mipz (pq p' + dotz (pz p') (px p'))
      * sgn (dotb (px p) (pz p')) * zx_mat (bxor (pz p) (pz p')) (bxor (px p) (px p')) r c :> K.
  Proof.
    intros [Hz Hx] [Hz' Hx'] Hr Hc. unfold mmul, pmatrix.
    transitivity (mipz (pq p + dotz (pz p) (px p)) * mipz (pq p' + dotz (pz p') (px p'))
                  * bsum n (fun k => zx_mat (pz p) (px p) r k * zx_mat (pz p') (px p') k c) : K).
    { rewrite <- bsum_scal. apply bsum_ext; intros k _; ring. }
    rewrite (zx_mul n) by assumption. ring.
  Qed.

  Lemma sgn_parity a b : sgn (a + b) = 1 :> K -> sgn a = sgn b :> K.
  Proof.
    rewrite sgn_add. intros H.
    transitivity (sgn a * (sgn b * sgn b) : K); [rewrite sgn_sq; ring|].
    transitivity (sgn a * sgn b * sgn b : K); [ring|]. rewrite H. ring.
  Qed.

  Lemma even_mod2 (k : nat) : (Z.of_nat k mod 2 =? 0)%Z = Nat.even k.
  Proof.
    destruct (Nat.even k) eqn:E.
    - apply Nat.even_spec in E. destruct E as [m ->]. apply Z.eqb_eq. lia.
    - assert (O : Nat.odd k = true) by (rewrite <- Nat.negb_even, E; reflexivity).
      apply Nat.odd_spec in O. destruct O as [m ->]. apply Z.eqb_neq. lia.
  Qed.

  Lemma pcommutes_even p p' :
    pcommutes p p' = Nat.even (dotb (px p) (pz p') + dotb (px p') (pz p)).
  Proof.
    unfold pcommutes, dotz. rewrite <- Nat2Z.inj_add, even_mod2.
    rewrite (dotb_comm (pz p) (px p')). reflexivity.
  Qed.

  Theorem pcommutes_sound n p p' : wfp n p -> wfp n p' -> pcommutes p p' = true ->
    meq (K:=K) n (mmul n (pmatrix p) (pmatrix p')) (mmul n (pmatrix p') (pmatrix p)).
  Proof.
    intros W W' Hc r c Hr Hcc.
    rewrite !(mmul_pmatrix n) by assumption.
    rewrite pcommutes_even in Hc.
    assert (S : sgn (dotb (px p) (pz p')) = sgn (dotb (px p') (pz p)) :> K).
    { apply sgn_parity. unfold sgn. rewrite Hc. reflexivity. }
    rewrite S, (bxor_comm (pz p')), (bxor_comm (px p')). ring.
  Qed.

  (** completeness needs 2 <> 0 in K *)
  Theorem pcommutes_complete n p p' : (1 + 1 : K) <> 0 -> wfp n p -> wfp n p' ->
    meq (K:=K) n (mmul n (pmatrix p) (pmatrix p')) (mmul n (pmatrix p') (pmatrix p)) ->
    pcommutes p p' = true.
  Proof.
    intros Two W W' E.
    destruct (pcommutes p p') eqn:Hc; [reflexivity|exfalso].
    rewrite pcommutes_even in Hc.
    destruct W as [Hz Hx], W' as [Hz' Hx'].
    set (X := bxor (px p) (px p')).
    assert (HX : length X = n) by (apply bxor_len; assumption).
    specialize (E X (zeros (length X)) HX ltac:(rewrite zeros_length; exact HX)).
    rewrite !(mmul_pmatrix n) in E; try (split; assumption); try assumption;
      try (rewrite zeros_length; assumption).
    rewrite (bxor_comm (pz p')), (bxor_comm (px p')) in E. fold X in E.
    assert (U := zx_mat_unit (bxor (pz p) (pz p')) X
                   ltac:(rewrite HX; apply bxor_len; assumption)).
    set (M := zx_mat (bxor (pz p) (pz p')) X X (zeros (length X))) in *.
    assert (S : sgn (dotb (px p) (pz p')) = - sgn (dotb (px p') (pz p)) :> K).
    { unfold sgn. rewrite Nat.even_add in Hc.
      destruct (Nat.even (dotb (px p) (pz p'))), (Nat.even (dotb (px p') (pz p)));
        try discriminate; ring. }
    rewrite S in E.
    set (a := mipz (pq p + dotz (pz p) (px p)) : K) in *.
    set (b := mipz (pq p' + dotz (pz p') (px p')) : K) in *.
    set (s := sgn (dotb (px p') (pz p)) : K) in *.
    assert (Ua : a * mipz (- (pq p + dotz (pz p) (px p))) = 1) by apply mipz_unit.
    assert (Ub : b * mipz (- (pq p' + dotz (pz p') (px p'))) = 1) by apply mipz_unit.
    assert (Us : s * s = 1) by apply sgn_sq.
    set (a' := mipz (- (pq p + dotz (pz p) (px p))) : K) in *.
    set (b' := mipz (- (pq p' + dotz (pz p') (px p'))) : K) in *.
    apply Two.
    transitivity ((a * b * s * M + a * b * s * M) * (a' * b' * s * M) : K).
    { transitivity ((a * a') * (b * b') * (s * s) * (M * M) + (a * a') * (b * b') * (s * s) * (M * M) : K);
        [rewrite Ua, Ub, Us, U; ring | ring]. }
    transitivity ((a * b * - s * M + - (a * b * - s * M)) * (a' * b' * s * M) : K); [|ring].
    f_equal. rewrite E at 1. ring.
  Qed.

  (* ---------- Hermiticity ---------- *)
  Lemma letter_entry_herm z x r c : (letter_entry z x c r)^* = letter_entry z x r c :> K.
  Proof.
    pose proof (conj_I K L) as CI.
    destruct z, x, r, c; cbn;
      rewrite ?(conj_opp K L), ?CI, ?(conj_1 K L), ?(conj_0 K L); ring.
  Qed.

  Lemma letters_mat_herm zs : forall xs r c,
    (letters_mat zs xs c r)^* = letters_mat zs xs r c :> K.
  Proof.
    induction zs as [|z zs IH]; intros xs r c.
    - destruct xs, r, c; cbn; rewrite ?(conj_1 K L), ?(conj_0 K L); reflexivity.
    - destruct xs as [|x xs]; [destruct r, c; cbn; apply (conj_0 K L)|].
      destruct r as [|rb r], c as [|cb c]; cbn [letters_mat]; try apply (conj_0 K L).
      rewrite (conj_mul K L), IH, letter_entry_herm. reflexivity.
  Qed.

  Lemma conj_mipz_even q : (q mod 2 = 0)%Z -> (mipz q)^* = mipz q :> K.
  Proof.
    intros H. unfold mipz.
    destruct (mod4_cases q) as [E | [E | [E | E]]]; rewrite E; try lia.
    - apply (conj_1 K L).
    - rewrite (conj_opp K L), (conj_1 K L). reflexivity.
  Qed.
  Lemma conj_mipz_odd q : (q mod 2 = 1)%Z -> (mipz q)^* = - mipz q :> K.
  Proof.
    pose proof (conj_I K L) as CI.
    intros H. unfold mipz.
    destruct (mod4_cases q) as [E | [E | [E | E]]]; rewrite E; try lia.
    - rewrite (conj_opp K L), CI. reflexivity.
    - exact CI.
  Qed.

  Theorem pherm_sound n p : pherm p = true -> hermitian (K:=K) n (pmatrix p).
  Proof.
    intros H r c _ _. unfold madj. rewrite !pmatrix_kron.
    rewrite (conj_mul K L), letters_mat_herm.
    unfold pherm in H. apply Z.eqb_eq in H. rewrite (conj_mipz_even _ H). reflexivity.
  Qed.

  Theorem pherm_complete n p : (1 + 1 : K) <> 0 -> wfp n p ->
    hermitian (K:=K) n (pmatrix p) -> pherm p = true.
  Proof.
    intros Two [Hz Hx] Hh. destruct (pherm p) eqn:E; [reflexivity|exfalso].
    unfold pherm in E. apply Z.eqb_neq in E.
    assert (O : (pq p mod 2 = 1)%Z) by lia.
    assert (HX : length (px p) = n) by assumption.
    specialize (Hh (px p) (zeros (length (px p))) HX ltac:(rewrite zeros_length; exact HX)).
    unfold madj in Hh. rewrite !pmatrix_kron in Hh.
    rewrite (conj_mul K L), letters_mat_herm, (conj_mipz_odd _ O) in Hh.
    rewrite letters_zx in Hh.
    assert (U := zx_mat_unit (pz p) (px p) ltac:(congruence)).
    set (M := zx_mat (pz p) (px p) (px p) (zeros (length (px p)))) in *.
    set (a := mipz (pq p) : K) in *. set (d := mipz (dotz (pz p) (px p)) : K) in *.
    assert (Ua : a * mipz (- pq p) = 1) by apply mipz_unit.
    assert (Ud : d * mipz (- dotz (pz p) (px p)) = 1) by apply mipz_unit.
    set (a' := mipz (- pq p) : K) in *. set (d' := mipz (- dotz (pz p) (px p)) : K) in *.
    apply Two.
    transitivity ((a * (d * M) + a * (d * M)) * (a' * d' * M) : K).
    { transitivity ((a * a') * (d * d') * (M * M) + (a * a') * (d * d') * (M * M) : K);
        [rewrite Ua, Ud, U; ring | ring]. }
    transitivity ((- a * (d * M) + a * (d * M)) * (a' * d' * M) : K); [|ring].
    rewrite Hh. reflexivity.
  Qed.

  (* ---------- refactor_phase / refactor_sign ---------- *)
  Theorem refactor_phase_ok p r c :
    mipz (fst (refactor_phase p)) * pmatrix (snd (refactor_phase p)) r c = pmatrix p r c :> K.
  Proof. unfold refactor_phase, pmatrix. cbn [fst snd pz px pq]. rewrite !mipz_add, mipz_0. ring. Qed.

  Theorem refactor_sign_ok p r c : (0 <= pq p < 4)%Z ->
    mipz (fst (refactor_sign p)) * pmatrix (snd (refactor_sign p)) r c = pmatrix p r c :> K
    /\ (0 <= pq (snd (refactor_sign p)) < 2)%Z
    /\ (fst (refactor_sign p) = 0 \/ fst (refactor_sign p) = 2)%Z.
  Proof.
    intros Hq. unfold refactor_sign. destruct (Z.ltb_spec (pq p) 2).
    - cbn [fst snd]. rewrite mipz_0. split; [ring|]. split; [lia|left; reflexivity].
    - cbn [fst snd]. split; [|split; [cbn [pq]; lia|right; reflexivity]].
      unfold pmatrix. cbn [pz px pq]. rewrite <- mipz_mod.
      rewrite (mipz_add (pq p mod 2)), (mipz_add (pq p)).
      replace (pq p mod 2)%Z with (pq p - 2)%Z by lia.
      set (d := mipz (dotz (pz p) (px p)) : K).
      set (M := zx_mat (pz p) (px p) r c).
      transitivity (mipz (2 + (pq p - 2)) * d * M : K).
      { rewrite mipz_add, mipz_mod. ring. }
      replace (2 + (pq p - 2))%Z with (pq p) by lia. ring.
  Qed.

  (* ---------- PauliOperator ---------- *)
  Lemma peqb_eq p p' : peqb p p' = true -> p = p'.
  Proof.
    unfold peqb. intros H. apply andb_true_iff in H. destruct H as [H Hq].
    apply andb_true_iff in H. destruct H as [Hz Hx].
    apply beq_eq in Hz. apply beq_eq in Hx. apply Z.eqb_eq in Hq.
    destruct p, p'; cbn in *; congruence.
  Qed.

  Lemma opmatrix_cons (w : wstr (K:=K)) op r c :
    opmatrix (w :: op) r c = wmatrix w r c + opmatrix op r c.
  Proof. reflexivity. Qed.

  Lemma opmatrix_nil r c : opmatrix ([] : list (wstr (K:=K))) r c = 0.
  Proof. reflexivity. Qed.

  Lemma opmatrix_app (a b : list (wstr (K:=K))) r c :
    opmatrix (a ++ b) r c = opmatrix a r c + opmatrix b r c.
  Proof.
    induction a as [|w a IH]; [cbn [app]; rewrite opmatrix_nil; ring|].
    rewrite <- app_comm_cons, !opmatrix_cons, IH. ring.
  Qed.

  Lemma opmatrix_rev (a : list (wstr (K:=K))) r c : opmatrix (rev a) r c = opmatrix a r c.
  Proof.
    induction a as [|w a IH]; [reflexivity|].
    cbn [rev]. rewrite opmatrix_app, IH, !opmatrix_cons, opmatrix_nil. ring.
  Qed.

  Theorem add_pauli_string_matrix (op : list (wstr (K:=K))) ps r c :
    opmatrix (add_pauli_string op ps) r c = opmatrix op r c + wmatrix ps r c.
  Proof.
    induction op as [|w op IH]; [cbn [add_pauli_string]; rewrite opmatrix_cons, !opmatrix_nil; ring|].
    cbn [add_pauli_string]. destruct (peqb (fst w) (fst ps)) eqn:E.
    - apply peqb_eq in E. rewrite !opmatrix_cons. unfold wmatrix. cbn [fst snd].
      rewrite E. ring.
    - rewrite !opmatrix_cons, IH. ring.
  Qed.

  Lemma rzws_aux_matrix negl (Hn : forall w : K, negl w = true -> w = 0) rop : forall len r c,
    opmatrix (rzws_aux negl rop len) r c = opmatrix rop r c.
  Proof.
    induction rop as [|w rop IH]; intros len r c; [reflexivity|].
    cbn [rzws_aux]. destruct (negl (snd w) && Nat.ltb 1 len) eqn:E.
    - apply andb_true_iff in E. destruct E as [E _]. apply Hn in E.
      rewrite IH, opmatrix_cons. unfold wmatrix. rewrite E. ring.
    - rewrite !opmatrix_cons, IH. reflexivity.
  Qed.

  Theorem remove_zero_weight_strings_matrix negl (Hn : forall w : K, negl w = true -> w = 0)
      (op : list (wstr (K:=K))) r c :
    opmatrix (remove_zero_weight_strings negl op) r c = opmatrix op r c.
  Proof.
    unfold remove_zero_weight_strings.
    rewrite opmatrix_rev, (rzws_aux_matrix negl Hn), opmatrix_rev. reflexivity.
  Qed.

  Lemma rzws_aux_nonempty negl (rop : list (wstr (K:=K))) : forall len,
    len = length rop -> (1 <= len)%nat -> (1 <= length (rzws_aux negl rop len))%nat.
  Proof.
    induction rop as [|w rop IH]; intros len Hl H1; [cbn in *; lia|].
    cbn [rzws_aux]. destruct (negl (snd w) && Nat.ltb 1 len) eqn:E.
    - apply andb_true_iff in E. destruct E as [_ E]. apply Nat.ltb_lt in E.
      apply IH; cbn in Hl; lia.
    - cbn. lia.
  Qed.

  Theorem remove_zero_weight_strings_keeps_one negl (op : list (wstr (K:=K))) :
    (1 <= length op)%nat -> (1 <= length (remove_zero_weight_strings negl op))%nat.
  Proof.
    intros H. unfold remove_zero_weight_strings. rewrite rev_length.
    apply rzws_aux_nonempty; rewrite ?rev_length; auto.
  Qed.
End Proofs2.

(* ---------- constructor decision rule ---------- *)
Lemma pauli_ctor_spec z x q :
  match pauli_ctor z x q with
  | Some p => length z = length x /\ Forall (fun v => v = 0 \/ v = 1)%Z z
              /\ Forall (fun v => v = 0 \/ v = 1)%Z x
              /\ wfp (length z) p /\ (0 <= pq p < 4)%Z /\ (pq p = q mod 4)%Z
              /\ map b2z (pz p) = z /\ map b2z (px p) = x
  | None => ~ (length z = length x /\ Forall (fun v => v = 0 \/ v = 1)%Z z
              /\ Forall (fun v => v = 0 \/ v = 1)%Z x)
  end.
Proof.
  assert (F : forall l, forallb is01 l = true <-> Forall (fun v => v = 0 \/ v = 1)%Z l).
  { intros l. rewrite forallb_forall, Forall_forall. split; intros H v Hv; specialize (H v Hv);
      unfold is01 in *; lia. }
  assert (R : forall l, Forall (fun v => v = 0 \/ v = 1)%Z l -> map b2z (map (Z.eqb 1) l) = l).
  { induction 1 as [|v l [->| ->] _ IH]; cbn; congruence. }
  unfold pauli_ctor.
  destruct (Nat.eqb_spec (length z) (length x)) as [El|El]; cbn [negb].
  2:{ intros [H _]. contradiction. }
  destruct (forallb is01 z) eqn:Fz; cbn [negb].
  2:{ intros [_ [H _]]. apply F in H. congruence. }
  destruct (forallb is01 x) eqn:Fx; cbn [negb].
  2:{ intros [_ [_ H]]. apply F in H. congruence. }
  apply F in Fz. apply F in Fx. cbn [pz px pq].
  repeat split; cbn [pz px pq]; auto; try (rewrite map_length; congruence); try lia.
Qed.

(* ---------- parse (print p) = p ---------- *)
Lemma parse_letters_print zs : forall xs, length zs = length xs ->
  parse_letters (map (fun zx => letter (fst zx) (snd zx)) (combine zs xs)) = Some (zs, xs).
Proof.
  induction zs as [|z zs IH]; intros [|x xs] H; try discriminate; [reflexivity|].
  cbn in H. injection H as H. cbn [combine map parse_letters fst snd].
  rewrite (IH xs H). destruct z, x; reflexivity.
Qed.

Lemma strip_ws_letters zs : forall xs,
  strip_ws (map (fun zx => letter (fst zx) (snd zx)) (combine zs xs))
  = map (fun zx => letter (fst zx) (snd zx)) (combine zs xs).
Proof.
  induction zs as [|z zs IH]; intros [|x xs]; try reflexivity.
  cbn [combine map fst snd]. unfold strip_ws in *. cbn [filter].
  destruct z, x; cbn; rewrite IH; reflexivity.
Qed.

Lemma strip_ws_app a b : strip_ws (a ++ b) = strip_ws a ++ strip_ws b.
Proof. apply filter_app. Qed.

Theorem parse_print n p : wfp n p -> (0 <= pq p < 4)%Z ->
  pparse (pprint p) = Some p.
Proof.
  intros [Hz Hx] Hq. destruct p as [zs xs q]. cbn [pz px pq] in *.
  assert (Hl : length zs = length xs) by congruence.
  unfold pprint, pparse. cbn [pz px pq].
  assert (Q : (q = 0 \/ q = 1 \/ q = 2 \/ q = 3)%Z) by lia.
  rewrite strip_ws_app, strip_ws_letters.
  destruct zs as [|z zs], xs as [|x xs]; try discriminate.
  - destruct Q as [-> | [-> | [-> | ->]]]; reflexivity.
  - cbn in Hl. injection Hl as Hl. cbn [combine map fst snd].
    destruct Q as [-> | [-> | [-> | ->]]]; cbn [prefix Z.eqb filter app];
      destruct z, x; cbn; rewrite (parse_letters_print zs xs Hl); reflexivity.
Qed.
