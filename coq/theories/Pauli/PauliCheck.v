(** Case type and checker for the C09 correspondence run (evaluated with vm_compute). *)
From Qib Require Export Pauli.PauliModel Base.Inst.
From Coq Require Import Ascii.

Definition P3 := (list bool * list bool * Z)%type.
Definition mk (t : P3) : pstr := {| pz := fst (fst t); px := snd (fst t); pq := snd t |}.
Definition un (p : pstr) : P3 := (pz p, px p, pq p).
Definition p3_eqb (a b : P3) : bool :=
  beq (fst (fst a)) (fst (fst b)) && beq (snd (fst a)) (snd (fst b)) && Z.eqb (snd a) (snd b).

Inductive opev := OAdd (p : P3) (w : Z * Z) | ORemove (tol2 : Z).

Inductive pcase :=
| CMul (a b r : P3)
| CMat (a : P3) (m : list (list (Z * Z)))
| CComm (a b : P3) (r : bool)
| CHerm (a : P3) (r : bool)
| CPrint (a : P3) (s : list nat)
| CParse (s : list nat) (r : option P3)
| CRefP (a : P3) (f : Z * Z) (a' : P3)
| CRefS (a : P3) (f : Z * Z) (a' : P3)
| COp (ops : list opev) (final : list (P3 * (Z * Z))) (m : option (list (list (Z * Z))))
| CCtor (z x : list Z) (q : Z) (r : option P3)
| CWHerm (a : P3) (w : Z * Z) (r : bool)
| CWUnit (a : P3) (w : Z * Z) (r : bool)
| COpHerm (op : list (P3 * (Z * Z))) (r : bool)
| CPUnit (a : P3) (r : bool)
| CSet (a : P3) (edits : list (nat * (bool * bool))) (r : P3) (m : list (list (Z * Z))).

Definition mat_eqb (a b : list (list (Z * Z))) : bool := list_eqb (list_eqb zi_eqb) a b.

Definition opt_p3_eqb (a b : option P3) : bool :=
  match a, b with
  | Some u, Some v => p3_eqb u v
  | None, None => true
  | _, _ => false
  end.

Definition negl (tol2 : Z) (w : ZI) : bool := Z.leb (fst w * fst w + snd w * snd w) tol2.

Definition run_op (st : list (wstr (K:=ZI))) (e : opev) : list (wstr (K:=ZI)) :=
  match e with
  | OAdd p w => add_pauli_string st (mk p, w)
  | ORemove t => remove_zero_weight_strings (negl t) st
  end.

Definition nq (a : P3) : nat := length (fst (fst a)).

(** WeightedPauliString.is_hermitian: (phase[q] * weight).imag == 0 *)
Definition wherm_flag (a : P3) (w : Z * Z) : bool :=
  let t := smul (s:=ZI) (mipz (K:=ZI) (snd a)) w in zi_eqb (sconj (s:=ZI) t) t.

Definition check (c : pcase) : bool :=
  match c with
  | CMul a b r => p3_eqb (un (pmul (mk a) (mk b))) r
  | CMat a m => mat_eqb (dense (nq a) (pmatrix (K:=ZI) (mk a))) m
  | CComm a b r => Bool.eqb (pcommutes (mk a) (mk b)) r
  | CHerm a r => Bool.eqb (pherm (mk a)) r
  | CPrint a s => list_eqb Nat.eqb (map nat_of_ascii (pprint (mk a))) s
  | CParse s r => opt_p3_eqb (option_map un (pparse (map ascii_of_nat s))) r
  | CRefP a f a' =>
      let '(e, p) := refactor_phase (mk a) in zi_eqb (mipz (K:=ZI) e) f && p3_eqb (un p) a'
  | CRefS a f a' =>
      let '(e, p) := refactor_sign (mk a) in zi_eqb (mipz (K:=ZI) e) f && p3_eqb (un p) a'
  | COp ops final m =>
      let st := fold_left run_op ops [] in
      list_eqb (fun u v => p3_eqb (fst u) (fst v) && zi_eqb (snd u) (snd v))
               (map (fun u => (un (fst u), snd u)) st) final
      && match m, st with
         | Some m, w :: _ => mat_eqb (dense (length (pz (fst w))) (opmatrix st)) m
         | None, [] => true
         | _, _ => false
         end
  | CCtor z x q r => opt_p3_eqb (option_map un (pauli_ctor z x q)) r
  | CWHerm a w r => Bool.eqb (wherm_flag a w) r
  | CWUnit a w r => Bool.eqb (zi_eqb (smul (s:=ZI) w (sconj (s:=ZI) w)) (s1 (s:=ZI))) r
  | COpHerm op r => Bool.eqb (forallb (fun pw => wherm_flag (fst pw) (snd pw)) op) r
  | CPUnit a r => Bool.eqb true r
  | CSet a edits r m =>
      let p := fold_left (fun p e => set_pauli p (fst (snd e)) (snd (snd e)) (fst e)) edits (mk a) in
      p3_eqb (un p) r && mat_eqb (dense (nq a) (pmatrix (K:=ZI) p)) m
  end.

Definition bad_cases (cs : list (nat * pcase)) : list nat :=
  map fst (filter (fun c => negb (check (snd c))) cs).
