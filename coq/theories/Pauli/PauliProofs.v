(** Proofs about the Pauli-string model, for every string length n and over every
    commutative *-ring with i*i = -1. *)
From Qib Require Export Pauli.PauliModel.
From Coq Require Import Ascii.

Section Proofs.
  Context {K : Scalar} {L : ScalarLaws K}.
  Local Open Scope K_scope.
  Add Ring KringP : (s_ring K L).

  (* ---------- powers of -i indexed by Z ---------- *)
  Lemma mod4_cases (a : Z) : (a mod 4 = 0 \/ a mod 4 = 1 \/ a mod 4 = 2 \/ a mod 4 = 3)%Z.
  Proof. pose proof (Z.mod_pos_bound a 4 ltac:(lia)). lia. Qed.

  Lemma mipz_add (a b : Z) : mipz (a + b) = mipz a * mipz b :> K.
  Proof.
    pose proof (I_sq K L) as I2.
    unfold mipz. rewrite Z.add_mod by lia.
    destruct (mod4_cases a) as [-> | [-> | [-> | ->]]];
    destruct (mod4_cases b) as [-> | [-> | [-> | ->]]]; cbn; ring [I2].
  Qed.

  Lemma mipz_mod (a : Z) : mipz (a mod 4) = mipz a :> K.
  Proof. unfold mipz. rewrite Z.mod_mod by lia. reflexivity. Qed.

  Lemma mipz_0 : mipz 0 = 1 :> K.
  Proof. reflexivity. Qed.

  Lemma sgn_S k : sgn (Datatypes.S k) = - sgn k :> K.
  Proof. replace (Datatypes.S k) with (k + 1)%nat by lia. rewrite sgn_add. cbn. ring. Qed.

  Lemma mipz_2k (k : nat) : mipz (2 * Z.of_nat k) = sgn k :> K.
  Proof.
    induction k as [|k IH]; [reflexivity|].
    replace (2 * Z.of_nat (Datatypes.S k))%Z with (2 * Z.of_nat k + 2)%Z by lia.
    rewrite mipz_add, IH, sgn_S. cbn. ring.
  Qed.

  Lemma mipz_unit (a : Z) : mipz a * mipz (- a) = 1 :> K.
  Proof. rewrite <- mipz_add. replace (a + - a)%Z with 0%Z by lia. reflexivity. Qed.

  Lemma conj_mipz (a : Z) : (mipz a)^* = mipz (- a) :> K.
  Proof.
    pose proof (conj_I K L) as CI.
    unfold mipz.
    destruct (mod4_cases a) as [E | [E | [E | E]]]; rewrite E.
    - replace ((- a) mod 4)%Z with 0%Z by (rewrite Z.mod_opp_l_z; lia). apply (conj_1 K L).
    - replace ((- a) mod 4)%Z with 3%Z by (rewrite Z.mod_opp_l_nz; lia).
      rewrite (conj_opp K L), CI. ring.
    - replace ((- a) mod 4)%Z with 2%Z by (rewrite Z.mod_opp_l_nz; lia).
      rewrite (conj_opp K L), (conj_1 K L). reflexivity.
    - replace ((- a) mod 4)%Z with 1%Z by (rewrite Z.mod_opp_l_nz; lia). exact CI.
  Qed.

  (* ---------- Z^z X^x products, site by site ---------- *)
  Lemma zx_site z1 x1 z2 x2 r c :
    zx_entry z1 x1 r false * zx_entry z2 x2 false c + zx_entry z1 x1 r true * zx_entry z2 x2 true c
    = sgn (if x1 && z2 then 1 else 0) * zx_entry (xorb z1 z2) (xorb x1 x2) r c :> K.
  Proof. destruct z1, x1, z2, x2, r, c; cbn; ring. Qed.

  Lemma bxor_cons a b (l l' : list bool) : bxor (a :: l) (b :: l') = xorb a b :: bxor l l'.
  Proof. reflexivity. Qed.

  Lemma zx_mul n : forall zs1 xs1 zs2 xs2 r c,
    length zs1 = n -> length xs1 = n -> length zs2 = n -> length xs2 = n ->
    length r = n -> length c = n ->
    bsum n (fun k => zx_mat zs1 xs1 r k * zx_mat zs2 xs2 k c)
    = sgn (dotb xs1 zs2) * zx_mat (bxor zs1 zs2) (bxor xs1 xs2) r c :> K.
  Proof.
    induction n as [|n IH]; intros zs1 xs1 zs2 xs2 r c H1 H2 H3 H4 H5 H6.
    - destruct zs1, xs1, zs2, xs2, r, c; try discriminate. rewrite bsum_0. cbn. ring.
    - destruct zs1 as [|z1 zs1], xs1 as [|x1 xs1], zs2 as [|z2 zs2], xs2 as [|x2 xs2],
               r as [|rb r], c as [|cb c]; try discriminate.
      injection H1 as H1. injection H2 as H2. injection H3 as H3.
      injection H4 as H4. injection H5 as H5. injection H6 as H6.
      rewrite bsum_S. rewrite !bxor_cons. cbn [zx_mat dotb].
      transitivity
        ((zx_entry z1 x1 rb false * zx_entry z2 x2 false cb
          + zx_entry z1 x1 rb true * zx_entry z2 x2 true cb)
         * bsum n (fun k => zx_mat zs1 xs1 r k * zx_mat zs2 xs2 k c) : K).
      { set (S0 := bsum n (fun k => zx_mat zs1 xs1 r k * zx_mat zs2 xs2 k c) : K).
        transitivity (zx_entry z1 x1 rb false * zx_entry z2 x2 false cb * S0
                      + zx_entry z1 x1 rb true * zx_entry z2 x2 true cb * S0); [|ring].
        unfold S0. rewrite <- !bsum_scal. f_equal; apply bsum_ext; intros k _; ring. }
      rewrite (IH zs1 xs1 zs2 xs2 r c) by assumption.
      rewrite zx_site, sgn_add. ring.
  Qed.

  Lemma bxor_len (a b : list bool) n : length a = n -> length b = n -> length (bxor a b) = n.
  Proof. intros Ha Hb. rewrite bxor_length; congruence. Qed.

  (* ---------- T1: matrix = (-i)^q * Kronecker product of letters ---------- *)
  Lemma letter_site z x r c :
    letter_entry z x r c = mipz (Z.of_nat (if z && x then 1 else 0)) * zx_entry z x r c :> K.
  Proof.
    pose proof (I_sq K L) as I2.
    destruct z, x, r, c; cbn; ring [I2].
  Qed.

  Lemma letters_zx zs : forall xs r c,
    letters_mat zs xs r c = mipz (dotz zs xs) * zx_mat zs xs r c :> K.
  Proof.
    induction zs as [|z zs IH]; intros xs r c.
    - destruct xs, r, c; cbn; ring.
    - destruct xs as [|x xs]; [cbn; ring|].
      destruct r as [|rb r]; [cbn; ring|]. destruct c as [|cb c]; [cbn; ring|].
      cbn [letters_mat zx_mat]. rewrite IH, letter_site.
      unfold dotz. cbn [dotb]. rewrite Nat2Z.inj_add, mipz_add. ring.
  Qed.

  Theorem pmatrix_kron p r c :
    pmatrix p r c = mipz (pq p) * letters_mat (pz p) (px p) r c :> K.
  Proof. unfold pmatrix. rewrite letters_zx, mipz_add. ring. Qed.

  (* ---------- T2: product law ---------- *)
  Definition wfp (n : nat) (p : pstr) : Prop := length (pz p) = n /\ length (px p) = n.

  Theorem pmul_matrix n p p' : wfp n p -> wfp n p' ->
    meq (K:=K) n (pmatrix (pmul p p')) (mmul n (pmatrix p) (pmatrix p')).
  Proof.
    intros [Hz Hx] [Hz' Hx'] r c Hr Hc. unfold mmul, pmatrix, pmul. cbn [pz px pq].
    transitivity (mipz (pq p + dotz (pz p) (px p)) * mipz (pq p' + dotz (pz p') (px p'))
                  * bsum n (fun k => zx_mat (pz p) (px p) r k * zx_mat (pz p') (px p') k c) : K).
    2:{ rewrite <- bsum_scal. apply bsum_ext; intros k _; ring. }
    rewrite (zx_mul n) by assumption.
    rewrite <- mipz_2k.
    rewrite <- (mipz_mod (_ mod 4 + _)), Zplus_mod_idemp_l, mipz_mod.
    unfold qprod. rewrite <- !mipz_add. fold (dotz (px p) (pz p')).
    set (M := zx_mat _ _ r c).
    transitivity (mipz (pq p + dotz (pz p) (px p) + (pq p' + dotz (pz p') (px p'))
                        + 2 * dotz (px p) (pz p')) * M); [|rewrite !mipz_add; ring].
    f_equal. f_equal. ring.
  Qed.

  Lemma pmul_wf n p p' : wfp n p -> wfp n p' -> wfp n (pmul p p').
  Proof. intros [Hz Hx] [Hz' Hx']. split; cbn; apply bxor_len; assumption. Qed.
End Proofs.
