(** Unitarity of Pauli strings and weighted strings; Hermiticity flag of weighted strings
    (the Pauli part of properties C01 and C16). *)
From Qib Require Export Pauli.PauliProofs2.

Section Proofs3.
  Context {K : Scalar} {L : ScalarLaws K}.
  Local Open Scope K_scope.
  Add Ring KringP3 : (s_ring K L).

  (** the adjoint string: same letters, phase (-i)^(-q) *)
  Definition padj (p : pstr) : pstr := {| pz := pz p; px := px p; pq := Z.modulo (- pq p) 4 |}.

  Lemma padj_matrix p r c : pmatrix (padj p) r c = madj (pmatrix p) r c :> K.
  Proof.
    unfold madj. rewrite !pmatrix_kron. cbn [padj pz px pq].
    rewrite (conj_mul K L), letters_mat_herm, conj_mipz, mipz_mod. reflexivity.
  Qed.

  Lemma bxor_self (a : list bool) : bxor a a = zeros (length a).
  Proof. induction a as [|x a IH]; [reflexivity|]. rewrite bxor_cons, IH, xorb_nilpotent. reflexivity. Qed.

  Lemma dotb_zeros_l n b : dotnat (zeros n) b = 0%nat.
  Proof. revert b; induction n as [|n IH]; intros [|y b]; cbn; auto. Qed.

  Lemma zx_mat_zeros n : forall r c, length r = n -> length c = n ->
    zx_mat (zeros n) (zeros n) r c = (if beq r c then 1 else 0) :> K.
  Proof.
    induction n as [|n IH]; intros [|rb r] [|cb c] Hr Hc; try discriminate; [reflexivity|].
    cbn [zeros zx_mat beq]. injection Hr as Hr. injection Hc as Hc. rewrite (IH r c Hr Hc).
    destruct rb, cb; cbn; destruct (beq r c); ring.
  Qed.

  Lemma pmul_padj n p : wfp n p ->
    pz (pmul p (padj p)) = zeros n /\ px (pmul p (padj p)) = zeros n /\ pq (pmul p (padj p)) = 0%Z.
  Proof.
    intros [Hz Hx]. unfold pmul, padj. cbn [pz px pq].
    rewrite !bxor_self, Hz, Hx. repeat split.
    unfold qprod. rewrite !bxor_self, Hz, Hx. unfold dotz. rewrite dotb_zeros_l.
    rewrite (dotb_comm (px p) (pz p)).
    set (d := Z.of_nat (dotnat (pz p) (px p))).
    change (Z.of_nat 0) with 0%Z. clearbody d. lia.
  Qed.

  (** PauliString.is_unitary() = True is sound, for every length *)
  Theorem pmatrix_unitary n p : wfp n p -> unitary (K:=K) n (pmatrix p).
  Proof.
    intros W.
    assert (Wa : wfp n (padj p)) by (destruct W; split; assumption).
    assert (Wa' : wfp n (padj (padj p))) by (destruct Wa; split; assumption).
    assert (Id : forall q, wfp n q -> meq (K:=K) n (mmul n (pmatrix q) (madj (pmatrix q))) mid).
    { intros q Wq r c Hr Hc.
      transitivity (mmul n (pmatrix q) (pmatrix (padj q)) r c : K).
      { unfold mmul. apply bsum_ext. intros k _. rewrite padj_matrix. reflexivity. }
      assert (Wqa : wfp n (padj q)) by (destruct Wq; split; assumption).
      rewrite <- (pmul_matrix n q (padj q) Wq Wqa r c Hr Hc).
      destruct (pmul_padj n q Wq) as [E1 [E2 E3]].
      unfold pmatrix. rewrite E1, E2, E3. unfold dotz. rewrite dotb_zeros_l.
      rewrite (zx_mat_zeros n r c Hr Hc). unfold mid. cbn. ring. }
    split; [apply Id; exact W|].
    (* P† P = (P†)(P†)† *)
    intros r c Hr Hc.
    transitivity (mmul n (pmatrix (padj p)) (madj (pmatrix (padj p))) r c : K).
    { unfold mmul. apply bsum_ext. intros k _. rewrite padj_matrix. f_equal.
      unfold madj. rewrite padj_matrix. unfold madj. rewrite (conj_inv K L). reflexivity. }
    apply Id; assumption.
  Qed.

  (** WeightedPauliString.is_unitary(): |w| = 1, i.e. w w^* = 1 *)
  Theorem wmatrix_unitary n p (w : K) : wfp n p -> w * w^* = 1 -> unitary (K:=K) n (wmatrix (p, w)).
  Proof.
    intros W Hw. destruct (pmatrix_unitary n p W) as [U1 U2].
    split; intros r c Hr Hc.
    - transitivity ((w * w^*) * mmul n (pmatrix p) (madj (pmatrix p)) r c : K).
      { unfold mmul, wmatrix, madj. cbn [fst snd]. rewrite <- bsum_scal.
        apply bsum_ext. intros k _. rewrite (conj_mul K L). ring. }
      rewrite Hw, (U1 r c Hr Hc). ring.
    - transitivity ((w * w^*) * mmul n (madj (pmatrix p)) (pmatrix p) r c : K).
      { unfold mmul, wmatrix, madj. cbn [fst snd]. rewrite <- bsum_scal.
        apply bsum_ext. intros k _. rewrite (conj_mul K L). ring. }
      rewrite Hw, (U2 r c Hr Hc). ring.
  Qed.

  (** WeightedPauliString.is_hermitian(): (phase[q] * weight).imag == 0, i.e. the product is
      self-conjugate *)
  Theorem wmatrix_hermitian n p (w : K) :
    (mipz (pq p) * w)^* = mipz (pq p) * w -> hermitian (K:=K) n (wmatrix (p, w)).
  Proof.
    intros H r c _ _. unfold madj, wmatrix. cbn [fst snd]. rewrite !pmatrix_kron.
    rewrite !(conj_mul K L), letters_mat_herm.
    rewrite (conj_mul K L) in H.
    transitivity ((mipz (pq p))^* * w^* * letters_mat (pz p) (px p) r c : K); [ring|].
    rewrite H. ring.
  Qed.

  (** PauliOperator.is_hermitian(): all strings flagged Hermitian => Hermitian matrix *)
  Theorem opmatrix_hermitian n (op : list (wstr (K:=K))) :
    Forall (fun pw => (mipz (pq (fst pw)) * snd pw)^* = mipz (pq (fst pw)) * snd pw) op ->
    hermitian (K:=K) n (opmatrix op).
  Proof.
    intros F r c Hr Hc. unfold madj. induction F as [|[p w] op Hw F IH].
    - unfold opmatrix; cbn [fold_right]. apply (conj_0 K L).
    - change (opmatrix ((p, w) :: op) c r) with (wmatrix (p, w) c r + opmatrix op c r).
      change (opmatrix ((p, w) :: op) r c) with (wmatrix (p, w) r c + opmatrix op r c).
      rewrite (conj_add K L), IH.
      pose proof (wmatrix_hermitian n p w Hw r c Hr Hc) as E. unfold madj in E. rewrite E. reflexivity.
  Qed.
End Proofs3.

(** set_pauli changes exactly one site *)
Lemma upd_length l i v : length (upd l i v) = length l.
Proof. revert i; induction l as [|x l IH]; intros [|i]; cbn; auto. Qed.
Lemma nth_upd l : forall i j v, (i < length l)%nat ->
  nth j (upd l i v) false = if Nat.eqb i j then v else nth j l false.
Proof.
  induction l as [|x l IH]; intros [|i] [|j] v H; cbn in *; try lia; try reflexivity.
  apply IH. lia.
Qed.
Theorem set_pauli_spec n p zv xv i : wfp n p -> (i < n)%nat ->
  wfp n (set_pauli p zv xv i) /\ pq (set_pauli p zv xv i) = pq p /\
  forall j, get_pauli (set_pauli p zv xv i) j = if Nat.eqb i j then (zv, xv) else get_pauli p j.
Proof.
  intros [Hz Hx] Hi. split; [split; cbn; rewrite upd_length; assumption|]. split; [reflexivity|].
  intros j. unfold get_pauli, set_pauli. cbn [pz px]. rewrite !nth_upd by lia.
  destruct (Nat.eqb i j); reflexivity.
Qed.
