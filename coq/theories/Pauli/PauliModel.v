(** Executable model of qib.operator.pauli_operator (PauliString / WeightedPauliString /
    PauliOperator).  No proofs here. *)
From Qib Require Export Base.BMx Base.VecZ.
From Coq Require Import Ascii.

(** check-matrix representation: z, x bit lists and q in Z (kept reduced mod 4) *)
Record pstr := { pz : list bool; px : list bool; pq : Z }.

Notation b2z := bz (only parsing).
Notation dotb := dotnat (only parsing).
Definition dotz (a b : list bool) : Z := Z.of_nat (dotb a b).

(** constructor decision rule on raw integer data (None = ValueError) *)
Definition is01 (v : Z) : bool := Z.eqb v 0 || Z.eqb v 1.
Definition pauli_ctor (z x : list Z) (q : Z) : option pstr :=
  if negb (Nat.eqb (length z) (length x)) then None
  else if negb (forallb is01 z) then None
  else if negb (forallb is01 x) then None
  else Some {| pz := map (Z.eqb 1) z; px := map (Z.eqb 1) x; pq := Z.modulo q 4 |}.

(** PauliString.__matmul__ *)
Definition qprod (z x z' x' : list bool) : Z :=
  (dotz z x + dotz z' x' - dotz (bxor z z') (bxor x x') + 2 * dotz x z')%Z.
Definition pmul (p p' : pstr) : pstr :=
  {| pz := bxor (pz p) (pz p'); px := bxor (px p) (px p');
     pq := Z.modulo (pq p + pq p' + qprod (pz p) (px p) (pz p') (px p')) 4 |}.

Definition pcommutes (p p' : pstr) : bool :=
  Z.eqb (Z.modulo (dotz (px p) (pz p') + dotz (pz p) (px p')) 2) 0.
Definition pherm (p : pstr) : bool := Z.eqb (Z.modulo (pq p) 2) 0.

Definition list_beq (a b : list bool) : bool := beq a b.
Definition peqb (p p' : pstr) : bool :=
  beq (pz p) (pz p') && beq (px p) (px p') && Z.eqb (pq p) (pq p').

(** refactor_phase / refactor_sign: (returned factor as power of -i, new string) *)
Definition refactor_phase (p : pstr) : Z * pstr :=
  (pq p, {| pz := pz p; px := px p; pq := 0 |}).
Definition refactor_sign (p : pstr) : Z * pstr :=
  if Z.ltb (pq p) 2 then (0%Z, p)
  else (2%Z, {| pz := pz p; px := px p; pq := Z.modulo (pq p) 2 |}).

(** set_pauli(s, i) / get_pauli(i): in-place update of one site (index must be in range:
    numpy raises IndexError otherwise) *)
Fixpoint upd (l : list bool) (i : nat) (v : bool) : list bool :=
  match l, i with
  | [], _ => []
  | _ :: l', O => v :: l'
  | x :: l', Datatypes.S i' => x :: upd l' i' v
  end.
Definition set_pauli (p : pstr) (zv xv : bool) (i : nat) : pstr :=
  {| pz := upd (pz p) i zv; px := upd (px p) i xv; pq := pq p |}.
Definition get_pauli (p : pstr) (i : nat) : bool * bool := (nth i (pz p) false, nth i (px p) false).

(** printing / parsing *)
Local Open Scope char_scope.
Definition letter (z x : bool) : ascii :=
  if z then (if x then "Y" else "Z") else (if x then "X" else "I").
Definition prefix (q : Z) : list ascii :=
  if Z.eqb q 0 then [] else if Z.eqb q 1 then ["-"; "i"] else if Z.eqb q 2 then ["-"]
  else ["i"].
Definition pprint (p : pstr) : list ascii :=
  prefix (pq p) ++ map (fun zx => letter (fst zx) (snd zx)) (combine (pz p) (px p)).

Definition parse_letter (a : ascii) : option (bool * bool) :=
  if Ascii.eqb a "I" then Some (false, false)
  else if Ascii.eqb a "X" then Some (false, true)
  else if Ascii.eqb a "Y" then Some (true, true)
  else if Ascii.eqb a "Z" then Some (true, false)
  else None.
Fixpoint parse_letters (s : list ascii) : option (list bool * list bool) :=
  match s with
  | [] => Some ([], [])
  | a :: s' =>
    match parse_letter a, parse_letters s' with
    | Some (z, x), Some (zs, xs) => Some (z :: zs, x :: xs)
    | _, _ => None
    end
  end.
(** from_string: None = ValueError on a bad letter. Whitespace removal is applied first;
    the prefix tests are `startswith`, so the empty remainder is handled. *)
Definition strip_ws (s : list ascii) : list ascii := filter (fun a => negb (Ascii.eqb a " ")) s.
Definition pparse (s0 : list ascii) : option pstr :=
  let s := strip_ws s0 in
  let s := match s with c0 :: r0 => if Ascii.eqb c0 "+" then r0 else s | [] => s end in
  let qs :=
    match s with
    | c :: r =>
      if Ascii.eqb c "-" then
        match r with
        | c1 :: r1 => if Ascii.eqb c1 "i" then (1%Z, r1) else (2%Z, r)
        | [] => (2%Z, r)
        end
      else if Ascii.eqb c "i" then (3%Z, r)
      else (0%Z, s)
    | [] => (0%Z, s)
    end in
  match parse_letters (snd qs) with
  | Some (zs, xs) => Some {| pz := zs; px := xs; pq := fst qs |}
  | None => None
  end.

(** matrices *)
Section Mat.
  Context {K : Scalar}.
  Local Open Scope K_scope.

  Definition mipz (q : Z) : K :=
    match Z.modulo q 4 with
    | 0%Z => 1 | 1%Z => - sI | 2%Z => - (1) | _ => sI end.

  (** one site of Z^z X^x *)
  Definition zx_entry (z x r c : bool) : K :=
    if Bool.eqb r (xorb c x) then (if z && r then - (1) else 1) else 0.
  Fixpoint zx_mat (zs xs : list bool) (r c : bits) : K :=
    match zs, xs, r, c with
    | [], [], [], [] => 1
    | z :: zs', x :: xs', rb :: r', cb :: c' => zx_entry z x rb cb * zx_mat zs' xs' r' c'
    | _, _, _, _ => 0
    end.
  (** PauliString.as_matrix, as the code computes it *)
  Definition pmatrix (p : pstr) : BMx K :=
    fun r c => mipz (pq p + dotz (pz p) (px p)) * zx_mat (pz p) (px p) r c.

  (** specification: Kronecker product of the letters, site 0 first *)
  Definition letter_entry (z x r c : bool) : K :=
    match z, x with
    | false, false => if Bool.eqb r c then 1 else 0                    (* I *)
    | false, true => if Bool.eqb r c then 0 else 1                     (* X *)
    | true, false => if Bool.eqb r c then (if r then - (1) else 1) else 0   (* Z *)
    | true, true => if Bool.eqb r c then 0 else (if r then sI else - sI)  (* Y *)
    end.
  Fixpoint letters_mat (zs xs : list bool) (r c : bits) : K :=
    match zs, xs, r, c with
    | [], [], [], [] => 1
    | z :: zs', x :: xs', rb :: r', cb :: c' => letter_entry z x rb cb * letters_mat zs' xs' r' c'
    | _, _, _, _ => 0
    end.

  (** weighted strings and operators *)
  Definition wstr := (pstr * K)%type.
  Definition wmatrix (w : wstr) : BMx K := fun r c => snd w * pmatrix (fst w) r c.
  Definition opmatrix (op : list wstr) : BMx K :=
    fun r c => fold_right (fun w acc => wmatrix w r c + acc) 0 op.

  Fixpoint add_pauli_string (op : list wstr) (ps : wstr) : list wstr :=
    match op with
    | [] => [ps]
    | w :: op' => if peqb (fst w) (fst ps) then (fst w, snd w + snd ps) :: op'
                  else w :: add_pauli_string op' ps
    end.

  (** remove_zero_weight_strings: scan from the last index down, pop when the weight is
      negligible and more than one string remains. [negl] is the predicate |w| <= tol. *)
  Fixpoint rzws_aux (negl : K -> bool) (rev_op : list wstr) (len : nat) : list wstr :=
    match rev_op with
    | [] => []
    | w :: rest =>
      if negl (snd w) && Nat.ltb 1 len then rzws_aux negl rest (len - 1)
      else w :: rzws_aux negl rest len
    end.
  Definition remove_zero_weight_strings (negl : K -> bool) (op : list wstr) : list wstr :=
    rev (rzws_aux negl (rev op) (length op)).
End Mat.
