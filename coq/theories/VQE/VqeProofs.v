(** Proofs about expectation values and the qUCC generator (every size). *)
From Qib Require Export VQE.VqeModel Pauli.PauliProofs2.

(* ------------------------------------------------------------------ occupation strings *)
Lemma popcount_cons x b : popcount (x :: b) = ((if x then 1 else 0) + popcount b)%nat.
Proof. unfold popcount. cbn. destruct x; reflexivity. Qed.

Lemma ladder_spec cr : forall p b s b', ladder cr p b = Some (s, b') ->
  length b' = length b /\
  (popcount b' + (if cr then 0 else 1) = popcount b + (if cr then 1 else 0))%nat.
Proof.
  intros p b. revert p. induction b as [|x b IH]; intros p s b' H; [discriminate|].
  destruct p as [|p]; cbn [ladder] in H.
  - destruct (Bool.eqb x cr) eqn:E; [discriminate|]. injection H as _ <-.
    rewrite !popcount_cons. split; [reflexivity|].
    destruct x, cr; cbn in E; try discriminate; lia.
  - destruct (ladder cr p b) as [[s0 b0]|] eqn:E; [|discriminate]. injection H as _ <-.
    destruct (IH p s0 b0 E) as [Hl Hp]. rewrite !popcount_cons. cbn [length]. split; lia.
Qed.

Definition ncre (ops : list (bool * nat)) : nat := length (filter (fun o => fst o) ops).
Definition nann (ops : list (bool * nat)) : nat := length (filter (fun o => negb (fst o)) ops).

Lemma apply_ops_spec : forall ops b s b', apply_ops ops b = Some (s, b') ->
  length b' = length b /\ (popcount b' + nann ops = popcount b + ncre ops)%nat.
Proof.
  induction ops as [|[cr p] ops IH]; intros b s b' H.
  - injection H as _ <-. unfold nann, ncre. cbn. split; lia.
  - cbn [apply_ops] in H. destruct (apply_ops ops b) as [[s0 b0]|] eqn:E; [|discriminate].
    destruct (ladder cr p b0) as [[s1 b1]|] eqn:E1; [|discriminate]. injection H as _ <-.
    destruct (IH b s0 b0 E) as [Hl Hp]. destruct (ladder_spec cr p b0 s1 b1 E1) as [Hl1 Hp1].
    unfold nann, ncre in *. cbn [filter fst negb]. destruct cr; cbn [negb length]; split; lia.
Qed.

(** as many creators as annihilators *)
Definition balanced (kinds : list bool) : Prop :=
  length (filter (fun x => x) kinds) = length (filter negb kinds).
Definition balancedb (kinds : list bool) : bool :=
  Nat.eqb (length (filter (fun x => x) kinds)) (length (filter negb kinds)).
Lemma balancedb_ok kinds : balancedb kinds = true -> balanced kinds.
Proof. apply Nat.eqb_eq. Qed.

Lemma ncre_combine kinds : forall idx, length idx = length kinds ->
  ncre (combine kinds idx) = length (filter (fun x => x) kinds) /\
  nann (combine kinds idx) = length (filter negb kinds).
Proof.
  unfold ncre, nann. induction kinds as [|k kinds IH]; intros [|i idx] H; try discriminate.
  - split; reflexivity.
  - cbn in H. injection H as H. destruct (IH idx H) as [H1 H2].
    cbn [combine filter fst negb]. destruct k; cbn [negb length]; split; lia.
Qed.

Lemma all_idx_length L k : forall idx, In idx (all_idx L k) -> length idx = k.
Proof.
  induction k as [|k IH]; intros idx H; cbn [all_idx] in H.
  - destruct H as [<-|[]]. reflexivity.
  - apply in_flat_map in H. destruct H as [i [_ H]]. apply in_map_iff in H.
    destruct H as [idx' [<- H]]. cbn. f_equal. apply IH. exact H.
Qed.

(** every term of a balanced cluster operator maps a basis state to +- a basis state with the
    same particle number (or to 0) *)
Theorem term_conserves_number kinds idx b s b' :
  balanced kinds -> length idx = length kinds ->
  apply_ops (combine kinds idx) b = Some (s, b') ->
  length b' = length b /\ popcount b' = popcount b.
Proof.
  intros Hb Hl H. destruct (apply_ops_spec _ _ _ _ H) as [H1 H2].
  destruct (ncre_combine kinds idx Hl) as [E1 E2]. unfold balanced in Hb. split; lia.
Qed.

Section VqeProofs.
  Context {K : Scalar} {L : ScalarLaws K}.
  Local Open Scope K_scope.
  Add Ring KringVqe : (s_ring K L).

  (* ---------------------------------------------------------------- expectation values *)
  Definition expect_src_dagger : expect_src := {| ex_left := SConj; ex_mat := MId; ex_right := SId |}.

  Lemma expect_dagger n (P : BMx K) psi : expect expect_src_dagger n P psi = quad n P psi.
  Proof. reflexivity. Qed.

  Theorem quad_real n (P : BMx K) psi : hermitian n P -> (quad n P psi)^* = quad n P psi.
  Proof.
    intros H. unfold quad. rewrite bsum_conj.
    transitivity (bsum n (fun i => bsum n (fun j => (psi j)^* * P j i * psi i))).
    { apply bsum_ext; intros i Hi. rewrite bsum_conj. apply bsum_ext; intros j Hj.
      rewrite !(conj_mul K L), (conj_inv K L).
      assert (E : (P i j)^* = P j i) by (exact (H j i Hj Hi)).
      rewrite E. ring. }
    apply (bsum_swap n n (fun i j => (psi j)^* * P j i * psi i)).
  Qed.

  Theorem quad_phase n (P : BMx K) psi u : u * u^* = 1 ->
    quad n P (fun b => u * psi b) = quad n P psi.
  Proof.
    intros Hu. unfold quad. apply bsum_ext; intros i _. apply bsum_ext; intros j _.
    rewrite (conj_mul K L). ring [Hu].
  Qed.

  Theorem quad_eigen n (P : BMx K) psi lam :
    (forall i, length i = n -> mvec n P psi i = lam * psi i) -> norm2 n psi = 1 ->
    quad n P psi = lam.
  Proof.
    intros He Hn. unfold quad.
    transitivity (bsum n (fun i => lam * ((psi i)^* * psi i))).
    { apply bsum_ext; intros i Hi.
      transitivity ((psi i)^* * mvec n P psi i).
      - unfold mvec. rewrite <- bsum_scal. apply bsum_ext; intros j _. ring.
      - rewrite He by assumption. ring. }
    rewrite bsum_scal. unfold norm2 in Hn. rewrite Hn. ring.
  Qed.

  (** in the eigenbasis the expectation is the |psi_i|^2-weighted combination of the
      eigenvalues (the algebraic half of the Rayleigh bound) *)
  Theorem quad_diag n (d : bits -> K) psi :
    quad n (diag_mx d) psi = bsum n (fun i => d i * ((psi i)^* * psi i)).
  Proof.
    unfold quad, diag_mx. apply bsum_ext; intros i Hi.
    transitivity (bsum n (fun j => (if beq i j then 1 else 0) * ((psi i)^* * d j * psi j))).
    { apply bsum_ext; intros j _. destruct (beq i j); ring. }
    rewrite (bsum_delta_l n i (fun j => (psi i)^* * d j * psi j) Hi). ring.
  Qed.

  (** P = V D V^dagger (D = diag d): the columns of V are eigenvectors, d the eigenvalues *)
  Definition diagonalises (n : nat) (V : BMx K) (d : bits -> K) (P : BMx K) : Prop :=
    forall r c, length r = n -> length c = n -> P r c = bsum n (fun k => V r k * d k * (V c k)^*).
  (** phi = V^dagger psi : the coordinates of psi in the eigenbasis *)
  Definition vadj (n : nat) (V : BMx K) (psi : vec) : vec := fun k => bsum n (fun i => (V i k)^* * psi i).

  Lemma vadj_conj n V psi k : (vadj n V psi k)^* = bsum n (fun i => V i k * (psi i)^*).
  Proof.
    unfold vadj. rewrite bsum_conj. apply bsum_ext; intros i _.
    rewrite (conj_mul K L), (conj_inv K L). reflexivity.
  Qed.

  (** for EVERY P that is diagonalised by some V (no assumption on V here): the expectation is the
      combination of the eigenvalues with the weights |phi_k|^2 *)
  Theorem quad_eigenbasis n (P V : BMx K) d psi : diagonalises n V d P ->
    quad n P psi = bsum n (fun k => d k * ((vadj n V psi k)^* * vadj n V psi k)).
  Proof.
    intros HP. unfold quad.
    transitivity (bsum n (fun i => bsum n (fun j => bsum n (fun k =>
                   d k * ((V i k * (psi i)^*) * ((V j k)^* * psi j)))))).
    { apply bsum_ext; intros i Hi. apply bsum_ext; intros j Hj.
      rewrite (HP i j Hi Hj). rewrite <- bsum_scal, <- bsum_scal_r.
      apply bsum_ext; intros k _. ring. }
    transitivity (bsum n (fun i => bsum n (fun k => bsum n (fun j =>
                   d k * ((V i k * (psi i)^*) * ((V j k)^* * psi j)))))).
    { apply bsum_ext; intros i _.
      apply (bsum_swap n n (fun j k => d k * ((V i k * (psi i)^*) * ((V j k)^* * psi j)))). }
    rewrite (bsum_swap n n (fun i k => bsum n (fun j => d k * ((V i k * (psi i)^*) * ((V j k)^* * psi j))))).
    apply bsum_ext; intros k _. rewrite vadj_conj. unfold vadj.
    transitivity (bsum n (fun i => (d k * (V i k * (psi i)^*)) * bsum n (fun j => (V j k)^* * psi j))).
    { apply bsum_ext; intros i _. rewrite <- bsum_scal. apply bsum_ext; intros j _. ring. }
    rewrite bsum_scal_r.
    transitivity ((d k * bsum n (fun i => V i k * (psi i)^*)) * bsum n (fun j => (V j k)^* * psi j)); [|ring].
    f_equal. apply bsum_scal.
  Qed.

  Lemma norm2_quad_mid n (psi : vec (K:=K)) : norm2 n psi = quad n mid psi.
  Proof.
    unfold norm2, quad. apply bsum_ext; intros i Hi. symmetry.
    transitivity (bsum n (fun j => (if beq i j then 1 else 0) * ((psi i)^* * psi j))).
    { apply bsum_ext; intros j _. unfold mid. destruct (beq i j); ring. }
    apply (bsum_delta_l n i (fun j => (psi i)^* * psi j) Hi).
  Qed.

  (** a unitary change of basis keeps the norm *)
  Theorem vadj_norm n (V : BMx K) (psi : vec (K:=K)) : unitary n V -> norm2 n (vadj n V psi) = norm2 n psi.
  Proof.
    intros [HV _]. rewrite (norm2_quad_mid n psi).
    assert (D : diagonalises n V (fun _ => 1) mid).
    { intros r c Hr Hc. rewrite <- (HV r c Hr Hc). unfold mmul, madj.
      apply bsum_ext; intros k _. ring. }
    rewrite (quad_eigenbasis n mid V (fun _ => 1) psi D). unfold norm2.
    apply bsum_ext; intros k _. ring.
  Qed.

  (** the hypotheses are satisfiable: every diagonal matrix is diagonalised by the identity *)
  Lemma diagonalises_diag n (d : bits -> K) : diagonalises n mid d (diag_mx d).
  Proof.
    intros r c Hr Hc. unfold diag_mx. symmetry.
    transitivity (bsum n (fun k => (if beq r k then 1 else 0) * (d k * (mid c k)^*))).
    { apply bsum_ext; intros k _. unfold mid. ring. }
    rewrite (bsum_delta_l n r (fun k => d k * (mid c k)^*) Hr). unfold mid. rewrite (beq_sym c r).
    destruct (beq r c) eqn:E.
    - apply beq_eq in E. subst c. rewrite (conj_1 K L). ring.
    - rewrite (conj_0 K L). ring.
  Qed.

  (** Pauli operators with Hermitian strings and real weights are Hermitian *)
  Lemma opmatrix_hermitian n (op : list (wstr (K:=K))) :
    Forall (fun w => pherm (fst w) = true /\ (snd w)^* = snd w) op -> hermitian n (opmatrix op).
  Proof.
    intros H r c Hr Hc. unfold madj. induction H as [|w op [Hp Hw] _ IH].
    - change (opmatrix (K:=K) [] c r) with (0 : K). change (opmatrix (K:=K) [] r c) with (0 : K). apply (conj_0 K L).
    - change (opmatrix (w :: op) c r) with (wmatrix w c r + opmatrix op c r).
      change (opmatrix (w :: op) r c) with (wmatrix w r c + opmatrix op r c).
      rewrite (conj_add K L), IH. f_equal.
      unfold wmatrix. rewrite (conj_mul K L), Hw. f_equal.
      exact (pherm_sound n (fst w) Hp r c Hr Hc).
  Qed.

  (* ---------------------------------------------------------------- number conservation *)
  Definition NC (n : nat) (A : BMx K) : Prop :=
    forall r c, length r = n -> length c = n -> popcount r <> popcount c -> A r c = 0.
  Definition commutes (n : nat) (A B : BMx K) : Prop := meq n (mmul n A B) (mmul n B A).
  Definition antiherm (n : nat) (G : BMx K) : Prop := meq n (madj G) (mscal (- (1)) G).

  Lemma ops_mx_NC n ops : ncre ops = nann ops -> NC n (ops_mx ops).
  Proof.
    intros Hb r c Hr Hc Hne. unfold ops_mx.
    destruct (apply_ops ops c) as [[s b']|] eqn:E; [|reflexivity].
    destruct (beq r b') eqn:Eb; [|reflexivity]. apply beq_eq in Eb. subst b'.
    destruct (apply_ops_spec _ _ _ _ E) as [_ Hp]. exfalso. apply Hne. lia.
  Qed.

  Lemma cluster_NC n Lsites kinds (theta : list nat -> K) :
    balanced kinds -> NC n (cluster_mx Lsites kinds theta).
  Proof.
    intros Hb r c Hr Hc Hne. unfold cluster_mx. apply lsum_map_zero. intros idx Hi.
    apply all_idx_length in Hi. destruct (ncre_combine kinds idx Hi) as [E1 E2].
    rewrite (ops_mx_NC n (combine kinds idx)) by (try assumption; unfold balanced in Hb; lia). ring.
  Qed.

  Lemma NC_madj n A : NC n A -> NC n (madj A).
  Proof.
    intros H r c Hr Hc Hne. unfold madj. rewrite H by (try assumption; auto). apply (conj_0 K L).
  Qed.
  Lemma NC_madd n A B : NC n A -> NC n B -> NC n (madd A B).
  Proof. intros HA HB r c Hr Hc Hne. unfold madd. rewrite HA, HB by assumption. ring. Qed.
  Lemma NC_mscal n a A : NC n A -> NC n (mscal a A).
  Proof. intros HA r c Hr Hc Hne. unfold mscal. rewrite HA by assumption. ring. Qed.

  Lemma exponent_NC n sg T : NC n T -> NC n (exponent sg T).
  Proof. intros H. unfold exponent. apply NC_madd; [exact H|]. apply NC_mscal, NC_madj, H. Qed.

  (** no matrix element between different particle numbers <=> commutes with N (direction used) *)
  Theorem NC_commutes n A : NC n A -> commutes n A Nop.
  Proof.
    intros H r c Hr Hc. unfold mmul, Nop.
    transitivity (A r c * of_nat (popcount c)).
    { transitivity (bsum n (fun k => (A r k * of_nat (popcount c)) * (if beq k c then 1 else 0))).
      - apply bsum_ext; intros k _. destruct (beq k c); ring.
      - apply (bsum_delta_r n c (fun k => A r k * of_nat (popcount c)) Hc). }
    transitivity (of_nat (popcount r) * A r c).
    2:{ symmetry.
        transitivity (bsum n (fun k => (if beq r k then 1 else 0) * (of_nat (popcount k) * A k c))).
        - apply bsum_ext; intros k _. destruct (beq r k); ring.
        - apply (bsum_delta_l n r (fun k => of_nat (popcount k) * A k c) Hr). }
    destruct (Nat.eq_dec (popcount r) (popcount c)) as [E|E].
    - rewrite E. ring.
    - rewrite (H r c Hr Hc E). ring.
  Qed.

  Lemma commutes_meq n A A' B : meq n A A' -> commutes n A B -> commutes n A' B.
  Proof.
    intros E H. unfold commutes in *.
    eapply meq_trans; [apply mmul_meq; [apply meq_sym; exact E|apply meq_refl]|].
    eapply meq_trans; [exact H|]. apply mmul_meq; [apply meq_refl|exact E].
  Qed.

  Lemma commutes_mid n B : commutes n mid B.
  Proof.
    unfold commutes. eapply meq_trans; [apply mmul_id_l|]. apply meq_sym. apply mmul_id_r.
  Qed.

  Lemma commutes_mmul n A B C : commutes n A C -> commutes n B C -> commutes n (mmul n A B) C.
  Proof.
    intros HA HB. unfold commutes in *.
    eapply meq_trans; [apply mmul_assoc|].
    eapply meq_trans; [apply mmul_meq; [apply meq_refl|exact HB]|].
    eapply meq_trans; [apply meq_sym; apply mmul_assoc|].
    eapply meq_trans; [apply mmul_meq; [exact HA|apply meq_refl]|].
    apply mmul_assoc.
  Qed.

  (** T - T^dagger is anti-Hermitian, whatever T is *)
  Theorem exponent_antiherm n (T : BMx K) : antiherm n (exponent (-1) T).
  Proof.
    intros r c _ _. unfold exponent, madj, madd, mscal. cbn [zsgn].
    rewrite (conj_add K L), (conj_mul K L), (conj_opp K L), (conj_1 K L), (conj_inv K L). ring.
  Qed.

  (* ---------------------------------------------------------------- the ansatz matrix *)
  Definition qucc_ok (br : qucc_branch) : Prop :=
    Forall balanced (qb_kinds br) /\ Forall (fun s => s = (-1)%Z) (qb_signs br).

  Lemma generators_spec Lsites br thetas (G : BMx K) : In G (generators Lsites br thetas) ->
    exists kinds sg theta, In kinds (qb_kinds br) /\ In sg (qb_signs br) /\
                           G = exponent sg (cluster_mx Lsites kinds theta).
  Proof.
    unfold generators. intros H. apply in_map_iff in H. destruct H as [[[kinds sg] theta] [<- H]].
    apply in_combine_l in H. exists kinds, sg, theta. cbn [fst snd].
    split; [eapply in_combine_l; exact H|]. split; [eapply in_combine_r; exact H|reflexivity].
  Qed.

  Section Background.
    (** BACKGROUND (standard, not proved here): the matrix exponential of an anti-Hermitian
        matrix is unitary, and it commutes with everything its argument commutes with.
        [expm] models scipy.linalg.expm. *)
    Variable expm : BMx K -> BMx K.
    Hypothesis expm_unitary : forall n G, antiherm n G -> unitary n (expm G).
    Hypothesis expm_commutes : forall n G A, commutes n G A -> commutes n (expm G) A.

    Lemma factors_unitary n Gs : Forall (antiherm n) Gs -> unitary n (factors_mx expm n Gs).
    Proof.
      induction 1 as [|G Gs HG _ IH]; cbn [factors_mx]; [apply unitary_mid|].
      apply unitary_mmul; [apply expm_unitary; exact HG|exact IH].
    Qed.

    Lemma factors_commute n Gs A : Forall (fun G => commutes n G A) Gs ->
      commutes n (factors_mx expm n Gs) A.
    Proof.
      induction 1 as [|G Gs HG _ IH]; cbn [factors_mx]; [apply commutes_mid|].
      apply commutes_mmul; [apply expm_commutes; exact HG|exact IH].
    Qed.

    Theorem qucc_unitary_number Lsites br thetas : qucc_ok br ->
      unitary Lsites (qucc_mx expm Lsites br thetas) /\
      commutes Lsites (qucc_mx expm Lsites br thetas) Nop.
    Proof.
      intros [Hk Hs]. unfold qucc_mx. split.
      - apply factors_unitary. apply Forall_forall. intros G HG.
        destruct (generators_spec _ _ _ _ HG) as (kinds & sg & theta & _ & Hsg & ->).
        rewrite Forall_forall in Hs. rewrite (Hs sg Hsg). apply exponent_antiherm.
      - apply factors_commute. apply Forall_forall. intros G HG.
        destruct (generators_spec _ _ _ _ HG) as (kinds & sg & theta & Hkin & _ & ->).
        rewrite Forall_forall in Hk. apply NC_commutes, exponent_NC, cluster_NC, Hk, Hkin.
    Qed.
  End Background.
End VqeProofs.
