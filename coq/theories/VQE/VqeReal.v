(** The Rayleigh bound over the complex numbers (Coquelicot's C = R * R) for every operator that
    is unitarily diagonalisable with real eigenvalues.  (That every Hermitian matrix is, is the
    spectral theorem - BACKGROUND, not proved here.)  This is the only place of the VQE
    development where the standard library's real-number axioms enter. *)
From Coq Require Import Reals Lra.
From Coquelicot Require Import Complex.
From Qib Require Export VQE.VqeProofs.

Definition CV : Scalar := {|
  T := C; s0 := RtoC 0; s1 := RtoC 1; sI := Ci;
  sadd := Cplus; smul := Cmult; ssub := Cminus; sopp := Copp; sconj := Cconj |}.

Lemma CV_laws : ScalarLaws CV.
Proof.
  constructor.
  - exact C_ring_theory.
  - intros [a b] [c d]. apply injective_projections; cbn; ring.
  - intros [a b] [c d]. apply injective_projections; cbn; ring.
  - intros [a b]. apply injective_projections; cbn; ring.
  - apply injective_projections; cbn; ring.
  - apply injective_projections; cbn; ring.
  - apply injective_projections; cbn; ring.
  - intros [a b]. apply injective_projections; cbn; ring.
  - apply injective_projections; cbn; ring.
Qed.
#[export] Existing Instance CV_laws.

Local Open Scope R_scope.

(** weighted sums: eigenvalues dd x in [lo, hi], weights |ph x|^2 *)
Lemma wsum_bounds {A} (l : list A) (dd : A -> R) (ph : A -> C) (lo hi : R) :
  (forall x, In x l -> lo <= dd x <= hi) ->
  let S := lsum (K:=CV) (map (fun x => @smul CV (RtoC (dd x)) (@smul CV (@sconj CV (ph x)) (ph x))) l) in
  let W := lsum (K:=CV) (map (fun x => @smul CV (@sconj CV (ph x)) (ph x)) l) in
  lo * fst W <= fst S <= hi * fst W /\ snd S = 0 /\ snd W = 0 /\ 0 <= fst W.
Proof.
  induction l as [|x l IH]; intros H S W.
  - subst S W. cbn. repeat split; lra.
  - destruct IH as (I1 & I2 & I3 & I4); [intros y Hy; apply H; right; exact Hy|].
    destruct (H x (or_introl eq_refl)) as [Hlo Hhi].
    subst S W. cbn [map]. rewrite !lsum_cons.
    set (S' := lsum (K:=CV) (map (fun x => @smul CV (RtoC (dd x)) (@smul CV (@sconj CV (ph x)) (ph x))) l)) in *.
    set (W' := lsum (K:=CV) (map (fun x => @smul CV (@sconj CV (ph x)) (ph x)) l)) in *.
    destruct (ph x) as [a b]. destruct S' as [s1' s2']. destruct W' as [w1' w2'].
    cbn in *. subst s2' w2'.
    assert (Hw : 0 <= a * a + b * b) by nra.
    repeat split; try nra.
Qed.

(** Rayleigh bound: P = V D V^dagger with V unitary and real eigenvalues d_k in [lo, hi],
    psi^dagger psi = 1  ==>  psi^dagger P psi is real and lies in [lo, hi] *)
Theorem rayleigh_bounds n (P V : BMx CV) (d : bits -> R) (psi : vec (K:=CV)) (lo hi : R) :
  unitary n V -> diagonalises n V (fun k => RtoC (d k)) P ->
  (forall k, length k = n -> lo <= d k <= hi) -> norm2 n psi = RtoC 1 ->
  lo <= fst (quad n P psi) <= hi /\ snd (quad n P psi) = 0.
Proof.
  intros HV HP Hd Hn.
  rewrite (quad_eigenbasis n P V _ psi HP).
  pose proof (vadj_norm n V psi HV) as Hphi. rewrite Hn in Hphi.
  unfold norm2, bsum in *.
  destruct (wsum_bounds (all_bits n) d (vadj n V psi) lo hi) as (B1 & B2 & B3 & B4).
  { intros k Hk. apply Hd. eapply all_bits_length; eauto. }
  cbv zeta in B1, B2, B3, B4. rewrite Hphi in B1. cbn [fst RtoC] in B1. split; [lra|exact B2].
Qed.
