(** A VQE object used over time: the energy reported by EVERY run of ANY history is the
    expectation value, in the ansatz state built from the ansatz / initial state current at
    that run, of the operator object passed to that run AS IT IS AT THAT MOMENT - provided the
    energy function measures its argument ([OpArgument], what the translator reads from the
    source).  With a matrix cached by the identity of the operator object the statement is
    false ([cached_by_id_refuted]). *)
From Qib Require Export VQE.VqeHistModel VQE.VqeProofs Qubitization.HistGenericProofs.
From Qib Require Import Base.Inst.

Section VqeHistProofs.
  Context {K : Scalar}.
  Variable A : Type.
  Variable choose : (A -> K) -> A.
  Variable ex : expect_src.
  Variable n : nat.

  Notation vstate := (vstate (K:=K) A).
  Notation vsetter := (vsetter (K:=K) A).

  (** the inputs of a run: ansatz, initial state, the caller's operator objects *)
  Definition inputs (st : vstate) := (v_ans A st, v_init A st, v_ops A st).
  Definition iset (s : vsetter) (i : (A -> BMx K) * vec (K:=K) * list (BMx K)) :=
    match s with
    | VSetInit _ psi => (fst (fst i), psi, snd i)
    | VSetAnsatz _ f => (f, snd (fst i), snd i)
    | VNewOp _ P => (fst (fst i), snd (fst i), snd i ++ [P])
    | VMutOp _ a P => (fst (fst i), snd (fst i), set_nth a P (snd i))
    end.
  Fixpoint inputs_trace (i : (A -> BMx K) * vec (K:=K) * list (BMx K)) (cs : list (call vsetter vgetter)) :=
    match cs with
    | [] => []
    | CSet s :: r => inputs_trace (iset s i) r
    | CGet _ :: r => i :: inputs_trace i r
    end.

  Lemma inputs_vset s (st : vstate) : inputs (vset A s st) = iset s (inputs st).
  Proof. destruct s; reflexivity. Qed.
  Lemma inputs_vgeff sr g (st : vstate) : inputs (vgeff A choose ex n sr g st) = inputs st.
  Proof. destruct g; reflexivity. Qed.

  (** at every getter call the ansatz / initial state / operator objects are what the setter
      calls (the caller's replacements and IN-PLACE changes) made of them; runs do not touch them *)
  Theorem vqe_inputs_trace sr cs : forall st : vstate,
    map (fun x => inputs (snd x)) (handed_states (vset A) (vgeff A choose ex n sr) st cs)
    = inputs_trace (inputs st) cs.
  Proof.
    induction cs as [|[s|g] cs IH]; intros st; cbn [handed_states map inputs_trace snd].
    - reflexivity.
    - rewrite IH, inputs_vset. reflexivity.
    - rewrite IH, inputs_vgeff. reflexivity.
  Qed.

  Lemma set_nth_same a (P : BMx K) : forall l, (a < length l)%nat -> nth a (set_nth a P l) (fun _ _ => s0) = P.
  Proof.
    induction a as [|a IH]; intros [|x l] H; cbn in H; try lia; cbn [set_nth nth]; [reflexivity|].
    apply IH. lia.
  Qed.
  Lemma set_nth_other a b (P : BMx K) : a <> b -> forall l, nth b (set_nth a P l) (fun _ _ => s0) = nth b l (fun _ _ => s0).
  Proof.
    revert b. induction a as [|a IH]; intros [|b] Hab [|x l]; cbn [set_nth nth]; try reflexivity; try congruence.
    apply IH. congruence.
  Qed.

  (** an in-place change of operator object a is what the next run on a sees *)
  Lemma op_now_mut (st : vstate) a (P : BMx K) : (a < length (v_ops A st))%nat -> op_now A (vset A (VMutOp A a P) st) a = P.
  Proof. intros H. unfold op_now. cbn [vset v_ops]. apply set_nth_same. exact H. Qed.

  (** run(): for the source's energy function (it measures the operator object it was passed) *)
  Theorem run_reports_current sr (st : vstate) a : rs_op sr = OpArgument ->
    vview A choose ex n sr (VRun a) st
    = let f := fun x => expect ex n (op_now A st a) (mvec n (v_ans A st x) (v_init A st)) in
      VEnergy A f (choose f) (f (choose f)).
  Proof. intros H. cbn [vview]. unfold run_matrix, energy_fun. rewrite H. reflexivity. Qed.

  Definition reported (v : vvalue (K:=K) A) : option K :=
    match v with VEnergy _ _ _ e => Some e | VSec _ o => o end.
End VqeHistProofs.

(** an energy function that uses a matrix kept by the instance and validated by the identity of
    the operator object: run; change the operator in place; run again - the second run reports
    the expectation value of the OLD operator.  (0 qubits, scalars in Z[i], trivial ansatz.) *)
Lemma cached_by_id_refuted :
  let A := unit in
  let choose := fun _ : unit -> ZI => tt in
  let ex := {| ex_left := SConj; ex_mat := MId; ex_right := SId |} in
  let st0 := {| v_ans := fun _ : unit => mid (K:=ZI); v_init := fun _ => (1, 0)%Z; v_opt := None;
                v_ops := [fun _ _ => (2, 0)%Z]; v_cache := None |} in
  let cs := [CGet (VRun 0); CSet (VMutOp (K:=ZI) unit 0%nat (fun _ _ => (5, 0)%Z)); CGet (VRun 0)] in
  map (reported unit) (handed (vset unit) (vview unit choose ex 0 {| rs_op := OpCachedById |})
                              (vgeff unit choose ex 0 {| rs_op := OpCachedById |}) st0 cs)
  = [Some (2, 0)%Z; Some (2, 0)%Z] /\
  map (reported unit) (handed (vset unit) (vview unit choose ex 0 {| rs_op := OpArgument |})
                              (vgeff unit choose ex 0 {| rs_op := OpArgument |}) st0 cs)
  = [Some (2, 0)%Z; Some (5, 0)%Z].
Proof. split; vm_compute; reflexivity. Qed.
