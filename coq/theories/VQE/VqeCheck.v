(** Case type and checker for the C20 correspondence run (evaluated with vm_compute, exact
    Gaussian rationals).  The checker is parametric in the expectation functional regenerated
    from the source. *)
From Qib Require Export VQE.VqeModel VQE.VqeHistModel Pauli.PauliCheck Base.Inst.

(** events of a value history on ONE operator object and ONE state array: the harness re-reads
    the operator's strings / the state after every in-place change *)
Inductive hev :=
| HOp (op : list (P3 * QI))
| HPsi (psi : list QI)
| HMeasure.

Inductive vcase :=
| CExpect (n : nat) (op : list (P3 * QI)) (psi : list QI) (res : QI)
    (* measure_expectation_statevector(PauliOperator, state) *)
| CCluster (Lsites : nat) (kinds : list bool) (params : list QI) (m : list (list QI))
    (* Jordan-Wigner matrix of FieldOperatorTerm(kinds, params reshaped), as qUCC builds it *)
| CHistExpect (n : nat) (evs : list hev) (res : list QI).
    (* measure_expectation_statevector called repeatedly while the operator object and the state array are
       changed in place; res = the values returned, in order *)

Definition hev_call (e : hev) : call (msetter (K:=QI)) unit :=
  match e with
  | HOp op => HistGeneric.CSet (MSetOp (opmatrix (map (fun w => (mk (fst w), snd w)) op)))
  | HPsi psi => HistGeneric.CSet (MSetPsi (vec_of_list psi))
  | HMeasure => HistGeneric.CGet tt
  end.

Definition check (s : expect_src) (c : vcase) : bool :=
  match c with
  | CExpect n op psi res =>
      qi_eqb (expect (K:=QI) s n (opmatrix (map (fun w => (mk (fst w), snd w)) op)) (vec_of_list psi)) res
  | CCluster Lsites kinds params m =>
      list_eqb (list_eqb qi_eqb) (dense Lsites (cluster_mx (K:=QI) Lsites kinds (theta_of_list Lsites params))) m
  | CHistExpect n evs res =>
      list_eqb qi_eqb
        (handed mset (mview (K:=QI) s n) mgeff {| m_op := fun _ _ => s0; m_psi := fun _ => s0 |} (map hev_call evs))
        res
  end.

Definition bad_cases (s : expect_src) (cs : list (nat * vcase)) : list nat :=
  map fst (filter (fun c => negb (check s (snd c))) cs).
