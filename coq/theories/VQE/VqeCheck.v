(** Case type and checker for the C20 correspondence run (evaluated with vm_compute, exact
    Gaussian rationals).  The checker is parametric in the expectation functional regenerated
    from the source. *)
From Qib Require Export VQE.VqeModel Pauli.PauliCheck Base.Inst.

Inductive vcase :=
| CExpect (n : nat) (op : list (P3 * QI)) (psi : list QI) (res : QI)
    (* measure_expectation_statevector(PauliOperator, state) *)
| CCluster (Lsites : nat) (kinds : list bool) (params : list QI) (m : list (list QI)).
    (* Jordan-Wigner matrix of FieldOperatorTerm(kinds, params reshaped), as qUCC builds it *)

Definition check (s : expect_src) (c : vcase) : bool :=
  match c with
  | CExpect n op psi res =>
      qi_eqb (expect (K:=QI) s n (opmatrix (map (fun w => (mk (fst w), snd w)) op)) (vec_of_list psi)) res
  | CCluster Lsites kinds params m =>
      list_eqb (list_eqb qi_eqb) (dense Lsites (cluster_mx (K:=QI) Lsites kinds (theta_of_list Lsites params))) m
  end.

Definition bad_cases (s : expect_src) (cs : list (nat * vcase)) : list nat :=
  map fst (filter (fun c => negb (check s (snd c))) cs).
