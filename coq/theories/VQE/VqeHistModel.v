(** A VQE object used over time (no proofs here).

    The VQE instance holds the ansatz, the initial state and the optimal parameters of the
    last run; the operator is an object of the CALLER, passed to run() by reference, which the
    caller may replace or change in place between runs.  The world therefore contains the
    caller's operator objects ([v_ops], addressed by position = Python's id()).

    What the translator reads from VQE.run ([run_src]): whether the energy function measures
    the operator object it was passed ([OpArgument], as in the source) or a matrix the instance
    keeps and validates by the identity of the operator object ([OpCachedById], expressible so
    that the difference is a theorem, not an assumption).

    The optimiser is an arbitrary function [choose] from energy functions to parameter vectors
    (nothing about scipy is used): run() reports  f (choose f)  for the energy function f it
    built, and stores  choose f  as the optimal parameters. *)
From Qib Require Export VQE.VqeModel Qubitization.HistGeneric.

Inductive op_source := OpArgument | OpCachedById.
Record run_src := { rs_op : op_source }.

Section VqeHist.
  Context {K : Scalar}.
  Variable A : Type.                     (* parameter vectors *)
  Variable choose : (A -> K) -> A.       (* the optimiser *)
  Variable ex : expect_src.              (* measure_expectation_statevector, as translated *)
  Variable n : nat.                      (* number of qubits *)

  Record vstate := {
    v_ans : A -> BMx K;                  (* self.ansatz.as_matrix *)
    v_init : vec (K:=K);                 (* self.initial_state *)
    v_opt : option A;                    (* self._optimal_params *)
    v_ops : list (BMx K);                (* the caller's operator objects (matrix each one has NOW) *)
    v_cache : option (nat * BMx K)       (* only used by OpCachedById: (id of the operator, its matrix when cached) *)
  }.

  Inductive vsetter :=
  | VSetInit (psi : vec (K:=K))          (* initial_state replaced or overwritten in place *)
  | VSetAnsatz (f : A -> BMx K)          (* ansatz replaced *)
  | VNewOp (P : BMx K)                   (* the caller builds another operator object *)
  | VMutOp (a : nat) (P : BMx K).        (* the caller changes operator object a IN PLACE (add_pauli_string, weights, ...) *)
  Inductive vgetter :=
  | VRun (a : nat)                       (* run(operator object a) *)
  | VSecondary (a : nat).                (* expectation_secondary_ops([operator object a]) *)
  Inductive vvalue :=
  | VEnergy (f : A -> K) (x : A) (e : K) (* the energy function minimised, res.x, res.fun *)
  | VSec (o : option K).

  Fixpoint set_nth (k : nat) (P : BMx K) (l : list (BMx K)) : list (BMx K) :=
    match l, k with
    | [], _ => []
    | _ :: l', O => P :: l'
    | x :: l', Datatypes.S k' => x :: set_nth k' P l'
    end.

  Definition vset (s : vsetter) (st : vstate) : vstate :=
    match s with
    | VSetInit psi => {| v_ans := v_ans st; v_init := psi; v_opt := v_opt st; v_ops := v_ops st; v_cache := v_cache st |}
    | VSetAnsatz f => {| v_ans := f; v_init := v_init st; v_opt := v_opt st; v_ops := v_ops st; v_cache := v_cache st |}
    | VNewOp P => {| v_ans := v_ans st; v_init := v_init st; v_opt := v_opt st; v_ops := v_ops st ++ [P]; v_cache := v_cache st |}
    | VMutOp a P => {| v_ans := v_ans st; v_init := v_init st; v_opt := v_opt st; v_ops := set_nth a P (v_ops st); v_cache := v_cache st |}
    end.

  Definition op_now (st : vstate) (a : nat) : BMx K := nth a (v_ops st) (fun _ _ => s0).

  (** the matrix the energy function of run(operator a) uses *)
  Definition run_matrix (s : run_src) (st : vstate) (a : nat) : BMx K :=
    match rs_op s with
    | OpArgument => op_now st a
    | OpCachedById => match v_cache st with
                      | Some (a', M) => if Nat.eqb a' a then M else op_now st a
                      | None => op_now st a
                      end
    end.
  (** state = ansatz.as_matrix(params) @ initial_state ; energy = measure_expectation_statevector(op, state) *)
  Definition energy_fun (st : vstate) (M : BMx K) : A -> K :=
    fun x => expect ex n M (mvec n (v_ans st x) (v_init st)).

  Definition vview (s : run_src) (g : vgetter) (st : vstate) : vvalue :=
    match g with
    | VRun a => let f := energy_fun st (run_matrix s st a) in VEnergy f (choose f) (f (choose f))
    | VSecondary a => VSec (match v_opt st with
                            | None => None
                            | Some x => Some (energy_fun st (op_now st a) x)
                            end)
    end.
  Definition vgeff (s : run_src) (g : vgetter) (st : vstate) : vstate :=
    match g with
    | VRun a => let M := run_matrix s st a in
                {| v_ans := v_ans st; v_init := v_init st; v_opt := Some (choose (energy_fun st M)); v_ops := v_ops st;
                   v_cache := match rs_op s with OpArgument => v_cache st | OpCachedById => Some (a, M) end |}
    | VSecondary _ => st
    end.
End VqeHist.

(** value histories of measure_expectation_statevector on ONE operator object and ONE state
    array that are changed in place between the calls *)
Section ValueHist.
  Context {K : Scalar}.
  Variable ex : expect_src.
  Variable n : nat.
  Record mstate := { m_op : BMx K; m_psi : vec (K:=K) }.
  Inductive msetter := MSetOp (P : BMx K) | MSetPsi (psi : vec (K:=K)).
  Definition mset (s : msetter) (st : mstate) : mstate :=
    match s with
    | MSetOp P => {| m_op := P; m_psi := m_psi st |}
    | MSetPsi psi => {| m_op := m_op st; m_psi := psi |}
    end.
  Definition mview (_ : unit) (st : mstate) : K := expect ex n (m_op st) (m_psi st).
  Definition mgeff (_ : unit) (st : mstate) : mstate := st.
End ValueHist.
