(** Executable model of qib.algorithms.vqe:
      measure_expectation_statevector  (vqe.py)
      qUCC.as_matrix                   (ansatz/ansatz.py): the Jordan-Wigner matrix of the cluster
                                       operator and the exponent handed to expm.
    No proofs here. *)
From Qib Require Export Base.BMx Pauli.PauliModel.

(* ------------------------------------------------------------------ expectation values *)
(** what the source applies to the two copies of the state vector and to the operator matrix *)
Inductive skind := SId | SConj.
Inductive mkind := MId | MConj | MTrans | MAdj.
Record expect_src := { ex_left : skind; ex_mat : mkind; ex_right : skind }.

(** the code before the repair: (state.T @ M) @ state *)
Definition expect_src_unrepaired : expect_src := {| ex_left := SId; ex_mat := MId; ex_right := SId |}.

Section Expect.
  Context {K : Scalar}.
  Local Open Scope K_scope.

  Definition vec := bits -> K.
  Definition sfun (k : skind) (x : K) : K := match k with SId => x | SConj => x^* end.
  Definition mfun (k : mkind) (P : BMx K) : BMx K :=
    match k with
    | MId => P
    | MConj => fun r c => (P r c)^*
    | MTrans => fun r c => P c r
    | MAdj => madj P
    end.

  (** (left @ M) @ right  for 1-d arrays *)
  Definition expect (s : expect_src) (n : nat) (P : BMx K) (psi : vec) : K :=
    bsum n (fun i => bsum n (fun j =>
      sfun (ex_left s) (psi i) * mfun (ex_mat s) P i j * sfun (ex_right s) (psi j))).

  (** psi^dagger P psi *)
  Definition quad (n : nat) (P : BMx K) (psi : vec) : K :=
    bsum n (fun i => bsum n (fun j => (psi i)^* * P i j * psi j)).

  Definition norm2 (n : nat) (psi : vec) : K := bsum n (fun i => (psi i)^* * psi i).
  Definition mvec (n : nat) (P : BMx K) (psi : vec) : vec := fun i => bsum n (fun j => P i j * psi j).
  Definition vec_of_list (l : list K) : vec := fun b => nth (b2n b) l 0.
  Definition diag_mx (d : bits -> K) : BMx K := fun r c => if beq r c then d c else 0.
End Expect.

(* ------------------------------------------------------------------ fermionic operators on occupation strings *)
(** basis state = occupation bit string, site 0 first (most significant), as the
    Jordan-Wigner matrices of qib index it.  The JW string of site p carries Z on the sites
    AFTER p, so the sign of a_p / a_p^dagger is the parity of the occupations after p. *)
Definition popcount (b : bits) : nat := length (filter (fun x => x) b).
Definition parity (b : bits) : bool := Nat.odd (popcount b).

(** a_p (create = false) or a_p^dagger (create = true) on |b>: None = 0,
    Some (negative?, b') = +-|b'> *)
Fixpoint ladder (create : bool) (p : nat) (b : bits) {struct b} : option (bool * bits) :=
  match b with
  | [] => None
  | x :: b' =>
    match p with
    | O => if Bool.eqb x create then None else Some (parity b', create :: b')
    | Datatypes.S p' =>
      match ladder create p' b' with
      | Some (s, b'') => Some (s, x :: b'')
      | None => None
      end
    end
  end.

(** o_0 o_1 ... o_(k-1) |b>  (the last operator acts first) *)
Fixpoint apply_ops (ops : list (bool * nat)) (b : bits) : option (bool * bits) :=
  match ops with
  | [] => Some (false, b)
  | (cr, p) :: rest =>
    match apply_ops rest b with
    | None => None
    | Some (s, b') =>
      match ladder cr p b' with
      | None => None
      | Some (s', b'') => Some (xorb s s', b'')
      end
    end
  end.

(** all index tuples of [0,L)^k in row-major order (np.nditer / reshape order) *)
Fixpoint all_idx (L k : nat) : list (list nat) :=
  match k with
  | O => [[]]
  | Datatypes.S k' => flat_map (fun i => map (cons i) (all_idx L k')) (seq 0 L)
  end.
Definition flat_index (L : nat) (idx : list nat) : nat := fold_left (fun acc i => (acc * L + i)%nat) idx O.

(** what the translator extracts from qUCC.as_matrix for one setting of `excitations`:
    one operator-kind sequence (true = FERMI_CREATE) and one sign per exponential factor
    (the exponent is T + sign * T^dagger), in the order the factors are multiplied *)
Record qucc_branch := { qb_kinds : list (list bool); qb_signs : list Z }.

Section Cluster.
  Context {K : Scalar}.
  Local Open Scope K_scope.

  Definition ops_mx (ops : list (bool * nat)) : BMx K :=
    fun r c => match apply_ops ops c with
               | Some (s, b') => if beq r b' then (if s then - (1) else 1) else 0
               | None => 0
               end.

  (** Jordan-Wigner matrix of  sum_idx theta[idx] o_0(idx_0) ... o_(k-1)(idx_(k-1)) *)
  Definition cluster_mx (L : nat) (kinds : list bool) (theta : list nat -> K) : BMx K :=
    fun r c => lsum (map (fun idx => theta idx * ops_mx (combine kinds idx) r c)
                         (all_idx L (length kinds))).

  Definition theta_of_list (L : nat) (params : list K) : list nat -> K :=
    fun idx => nth (flat_index L idx) params 0.

  Definition zsgn (z : Z) : K := match z with Z0 => 0 | Zpos _ => 1 | Zneg _ => - (1) end.
  (** the argument of expm *)
  Definition exponent (sg : Z) (T : BMx K) : BMx K := madd T (mscal (zsgn sg) (madj T)).

  Fixpoint of_nat (k : nat) : K := match k with O => 0 | Datatypes.S k' => 1 + of_nat k' end.
  (** total particle number operator *)
  Definition Nop : BMx K := fun r c => if beq r c then of_nat (popcount c) else 0.

  (** product of the exponentials, [expm] abstract *)
  Fixpoint factors_mx (expm : BMx K -> BMx K) (n : nat) (Gs : list (BMx K)) : BMx K :=
    match Gs with
    | [] => mid
    | G :: rest => mmul n (expm G) (factors_mx expm n rest)
    end.
  Definition generators (L : nat) (br : qucc_branch) (thetas : list (list nat -> K)) : list (BMx K) :=
    map (fun t => exponent (snd (fst t)) (cluster_mx L (fst (fst t)) (snd t)))
        (combine (combine (qb_kinds br) (qb_signs br)) thetas).
  Definition qucc_mx (expm : BMx K -> BMx K) (L : nat) (br : qucc_branch)
             (thetas : list (list nat -> K)) : BMx K :=
    factors_mx expm L (generators L br thetas).
End Cluster.
