(** Executable model of gate embedding (qib.operator.gates._distribute_to_wires,
    qib.util.map_particle_to_wire, qib.util.permute_gate_wires).  No proofs here.

    Two worlds:
    - bit-list world (the SPECIFICATION vocabulary): [gather], [compl], [embed], [conj_by];
    - integer world (the PORT of the code): [distribute] on CSR data with Z arithmetic,
      [mp2w] (map_particle_to_wire), [permute_gate_wires] (numpy reshape/transpose/reshape). *)
From Qib Require Export Base.BMx.

(* ------------------------------------------------------------------ bit-list world *)
(** read the bits of [r] at the wires listed in [ord] (first listed wire first) *)
Definition gather (ord : list nat) (r : bits) : bits := map (fun w => nth w r false) ord.
Definition mem_nat (w : nat) (l : list nat) : bool := existsb (Nat.eqb w) l.
(** wires of an nw-wire register that are not in ws, ascending *)
Definition compl (nw : nat) (ws : list nat) : list nat :=
  filter (fun w => negb (mem_nat w ws)) (seq 0 nw).
Definition wire_order (nw : nat) (ws : list nat) : list nat := ws ++ compl nw ws.

Fixpoint index_of (x : nat) (l : list nat) : nat :=
  match l with
  | [] => 0
  | y :: l' => if Nat.eqb x y then 0 else Datatypes.S (index_of x l')
  end.
(** inverse of a permutation given as a list *)
Definition invperm (p : list nat) : list nat := map (fun s => index_of s p) (seq 0 (length p)).

Section Mat.
  Context {K : Scalar}.
  Local Open Scope K_scope.

  (** re-index rows and columns by a map on bit lists *)
  Definition conj_by (sigma : bits -> bits) (U : BMx K) : BMx K := fun r c => U (sigma r) (sigma c).

  (** SPEC: G on the wires ws (first listed wire = most significant gate index, wire 0 = most
      significant register bit), identity on every other wire *)
  Definition embed (nw : nat) (ws : list nat) (G : BMx K) : BMx K :=
    fun r c => G (gather ws r) (gather ws c) *
               (if beq (gather (compl nw ws) r) (gather (compl nw ws) c) then 1 else 0).

  (** permutation matrix of a map on bit lists:  P r k = [k = sigma r] *)
  Definition pmat (sigma : bits -> bits) : BMx K := fun r k => if beq (sigma r) k then 1 else 0.

  (** numpy, modelled: row-major reshape of a 2^n x 2^n matrix to a (2,)*2n tensor and back;
      np.transpose(a, axes)[i] = a[j] with j[axes[t]] = i[t] *)
  Definition np_mat_to_tensor (n : nat) (u : BMx K) : bits -> K := fun idx => u (firstn n idx) (skipn n idx).
  Definition np_tensor_to_mat (t : bits -> K) : BMx K := fun r c => t (r ++ c).
  Definition np_transpose (axes : list nat) (t : bits -> K) : bits -> K :=
    fun idx => t (gather (invperm axes) idx).
  (** skeleton of qib.util.permute_gate_wires; [axes] is the expression handed to np.transpose *)
  Definition permute_skel (axes : nat -> list nat -> list nat) (u : BMx K) (perm : list nat) : BMx K :=
    let nwires := length perm in
    np_tensor_to_mat (np_transpose (axes nwires perm) (np_mat_to_tensor nwires u)).
  Definition permute_axes (nwires : nat) (perm : list nat) : list nat :=
    perm ++ map (fun p => (nwires + p)%nat) perm.
  Definition permute_gate_wires := permute_skel permute_axes.
End Mat.

(* ------------------------------------------------------------------ integer world *)
Local Open Scope Z_scope.

Definition zrange (lo hi : Z) : list Z := map (fun i => lo + Z.of_nat i) (seq 0 (Z.to_nat (hi - lo))).
Definition znth (l : list Z) (i : Z) : Z := nth (Z.to_nat i) l 0.
Definition zlen {A} (l : list A) : Z := Z.of_nat (length l).
(** Python truthiness of an int *)
Definition truthy (x : Z) : bool := negb (x =? 0).
(** acc = 0; for b in rng: if cond b: acc += incr b *)
Definition accum (rng : list Z) (cond : Z -> bool) (incr : Z -> Z) : Z :=
  fold_left (fun acc b => if cond b then acc + incr b else acc) rng 0.
(** list(set(range(n)).difference(l)) -- CPython iterates a set of small ints ascending; the
    theorems do not depend on this order (see DistProofs) *)
Definition py_range_minus (n : Z) (l : list Z) : list Z :=
  filter (fun w => negb (existsb (Z.eqb w) l)) (zrange 0 n).
Definition py_assert {A} (b : bool) (k : option A) : option A := if b then k else None.

(** scipy CSR matrix as handed to _distribute_to_wires *)
Record csr (V : Type) := { c_nrows : Z; c_indptr : list Z; c_indices : list Z; c_data : list V }.
Arguments c_nrows {V}. Arguments c_indptr {V}. Arguments c_indices {V}. Arguments c_data {V}.
Arguments Build_csr {V}.
Definition c_nnz {V} (g : csr V) : Z := zlen (c_data g).

Definition triple (V : Type) := (Z * Z * V)%type.

(** the first loop nest: for j in rows: r = rowf j; for i in range(indptr[j], indptr[j+1]):
    c = colf indices[i]; rowind[i] = r; colind[i] = c  -- as the list of slot assignments *)
Definition csr_loop {V} (g : csr V) (rows : list Z) (rowf colf : Z -> Z) : list (Z * Z * Z) :=
  flat_map (fun j => let r := rowf j in
              map (fun i => (i, r, colf (znth (c_indices g) i)))
                  (zrange (znth (c_indptr g) j) (znth (c_indptr g) (j + 1)))) rows.
(** rowind[:nnz], colind[:nnz], values[:nnz] after the loop, for a canonical CSR (the loop
    writes slots 0..nnz-1 once each, in order); None = non-canonical CSR, outside the model *)
Fixpoint zlist_eqb (a b : list Z) : bool :=
  match a, b with
  | [], [] => true
  | x :: a', y :: b' => (x =? y) && zlist_eqb a' b'
  | _, _ => false
  end.
Definition base_block {V} (d : V) (g : csr V) (assigns : list (Z * Z * Z)) : option (list (triple V)) :=
  if zlist_eqb (map (fun a => fst (fst a)) assigns) (zrange 0 (c_nnz g))
  then Some (map (fun a => (snd (fst a), snd a, nth (Z.to_nat (fst (fst a))) (c_data g) d)) assigns)
  else None.
(** rowind[nnz*k:nnz*(k+1)] = rowind[:nnz] + koffset, same for colind, values = data *)
Definition shift_block {V} (koffset : Z) (base : list (triple V)) : list (triple V) :=
  map (fun t => (fst (fst t) + koffset, snd (fst t) + koffset, snd t)) base.

(** HAND PORT of _distribute_to_wires (gates.py); returns the (row, col, value) triples handed
    to csr_matrix((values, (rowind, colind))), None where the code asserts *)
Definition distribute {V} (d : V) (nwires : Z) (iwire0 : list Z) (g : csr V) : option (list (triple V)) :=
  let iwcompl0 := py_range_minus nwires iwire0 in
  py_assert (zlen iwire0 + zlen iwcompl0 =? nwires) (
  let m := zlen iwire0 in
  py_assert (m <=? nwires) (
  py_assert (c_nrows g =? 2 ^ m) (
  let iwire := map (fun b => nwires - 1 - znth iwire0 (m - 1 - b)) (zrange 0 m) in
  let iwcompl := map (fun b => nwires - 1 - znth iwcompl0 (nwires - m - 1 - b)) (zrange 0 (nwires - m)) in
  match base_block d g
          (csr_loop g (zrange 0 (2 ^ m))
             (fun j => accum (zrange 0 m) (fun b => truthy (Z.land j (Z.shiftl 1 b))) (fun b => Z.shiftl 1 (znth iwire b)))
             (fun ci => accum (zrange 0 m) (fun b => truthy (Z.land ci (Z.shiftl 1 b))) (fun b => Z.shiftl 1 (znth iwire b))))
  with
  | None => None
  | Some base =>
    Some (base ++ flat_map (fun k =>
            let koffset := accum (zrange 0 (nwires - m)) (fun b => truthy (Z.land k (Z.shiftl 1 b)))
                                 (fun b => Z.shiftl 1 (znth iwcompl b)) in
            shift_block koffset base) (zrange 1 (2 ^ (nwires - m))))
  end))).

(** map_particle_to_wire on a field list [(field id, nsites)]; particle = (field id, index).
    Skeleton with the four closed-form pieces as parameters. *)
Fixpoint mp2w_skel (hit skip : Z -> Z -> Z) (miss : Z) (fields : list (Z * Z)) (pf pidx : Z) (i : Z) : Z :=
  match fields with
  | [] => miss
  | (f, n) :: fs => if pf =? f then hit i pidx else mp2w_skel hit skip miss fs pf pidx (skip i n)
  end.
Definition mp2w (fields : list (Z * Z)) (p : Z * Z) : Z :=
  mp2w_skel Z.add Z.add (-1) fields (fst p) (snd p) 0.

(** Gate.as_circuit_matrix (every class funnels through this shape) *)
Inductive acm_result (V : Type) := AcmNotFound | AcmAssert | AcmOk (t : list (triple V)).
Arguments AcmNotFound {V}. Arguments AcmAssert {V}. Arguments AcmOk {V}.
Definition as_circuit_matrix {V} (d : V) (fields : list (Z * Z)) (prtcl : list (Z * Z)) (g : csr V) : acm_result V :=
  let iwire := map (mp2w fields) prtcl in
  if existsb (fun iw => iw <? 0) iwire then AcmNotFound
  else
    let nwires := fold_right Z.add 0 (map snd fields) in
    match distribute d nwires iwire g with
    | Some t => AcmOk t
    | None => AcmAssert
    end.

(** csr_matrix(dense 2^m x 2^m array): nonzero entries, row-major (scipy, modelled) *)
Definition csr_of_dense {V} (nz : V -> bool) (rows : list (list V)) : csr V :=
  let per_row := map (fun row => filter (fun cv => nz (snd cv)) (combine (zrange 0 (zlen row)) row)) rows in
  {| c_nrows := zlen rows;
     c_indptr := fold_left (fun acc row => acc ++ [last acc 0 + zlen row]) per_row [0];
     c_indices := flat_map (map fst) per_row;
     c_data := flat_map (map snd) per_row |}.

(** csr_matrix((values, (rowind, colind))) sums duplicate coordinates: dense entry of a triple list *)
Section Dense.
  Context {K : Scalar}.
  Local Open Scope K_scope.
  Definition b2z (b : bits) : Z := Z.of_nat (b2n b).
  Definition triples_entry (t : list (triple K)) (r c : bits) : K :=
    lsum (map (fun x => if (fst (fst x) =? b2z r)%Z && (snd (fst x) =? b2z c)%Z then snd x else 0) t).
  (** dense entry of a CSR matrix (duplicates summed) *)
  Definition csr_entry (g : csr K) (r c : bits) : K :=
    lsum (map (fun i => if (znth (c_indices g) i =? b2z c)%Z then nth (Z.to_nat i) (c_data g) 0 else 0)
              (zrange (znth (c_indptr g) (b2z r)) (znth (c_indptr g) (b2z r + 1)))).
End Dense.
