(** Executable model of qib.circuit.Circuit (matrix view, builder calls) and of
    qib.simulator.StatevectorSimulator.  No proofs here.
    A gate of a circuit is its own matrix together with the wires of its particles; copying a
    gate is the identity on this value level (aliasing is the subject of HeapModel). *)
From Qib Require Export Embed.EmbedModel.

Section Circ.
  Context {K : Scalar}.
  Local Open Scope K_scope.

  Record cgate := { g_mat : BMx K; g_wires : list nat }.
  Definition circuit := list cgate.

  (** Gate.as_circuit_matrix(fields) on an nw-wire register (C04) *)
  Definition E (nw : nat) (g : cgate) : BMx K := embed nw (g_wires g) (g_mat g).

  (** Circuit.as_matrix: mat = E(first gate); then mat = E(gate) @ mat; None = RuntimeError (no gates) *)
  Definition cm_step (nw : nat) (mat : BMx K) (g : cgate) : BMx K := mmul nw (E nw g) mat.
  Definition circuit_matrix (nw : nat) (c : circuit) : option (BMx K) :=
    match c with
    | [] => None
    | g :: gs => Some (fold_left (cm_step nw) gs (E nw g))
    end.
  (** total version (the empty product is 1) *)
  Definition cmat (nw : nat) (c : circuit) : BMx K := fold_left (cm_step nw) c mid.

  (** builder calls (gates are copied; on values a copy is the same value) *)
  Inductive builder :=
  | BAppendGate (g : cgate) | BAppendCircuit (o : circuit)
  | BPrependGate (g : cgate) | BPrependCircuit (o : circuit).
  Definition apply_builder (c : circuit) (b : builder) : circuit :=
    match b with
    | BAppendGate g => c ++ [g]
    | BAppendCircuit o => c ++ o
    | BPrependGate g => g :: c
    | BPrependCircuit o => o ++ c
    end.

  (** state vectors *)
  Definition vec := bits -> K.
  Definition mvmul (nw : nat) (A : BMx K) (v : vec) : vec := fun r => bsum nw (fun k => A r k * v k).
  Definition zeros (nw : nat) : bits := repeat false nw.
  Definition e0 (nw : nat) : vec := fun r => if beq r (zeros nw) then 1 else 0.
  (** StatevectorSimulator.run: psi = e_0; for g in gates: psi = E(g) @ psi *)
  Definition run_statevector (nw : nat) (c : circuit) : vec :=
    fold_left (fun psi g => mvmul nw (E nw g) psi) c (e0 nw).
  Definition norm2 (nw : nat) (v : vec) : K := bsum nw (fun r => (v r)^* * v r).
  Definition column0 (nw : nat) (A : BMx K) : vec := fun r => A r (zeros nw).
End Circ.
Arguments cgate K : clear implicits.
Arguments circuit K : clear implicits.
Arguments builder K : clear implicits.
