(** When is a memoised view as good as recomputing it?  ([ObsModel])
    [memo_sound]: if the cache is reset by every state change that can alter a view (on the
    reachable states) and queries hand out copies, then at the end of ANY history of state
    changes, queries and caller writes into the matrices handed out, the caller holds exactly
    what the recomputing semantics gives: every query returned the view of the state current at
    that moment, matrices handed out earlier were not changed by later calls, and the caller's
    writes into them affected nothing else.
    [memo_stale_refuted]: one state change that alters a view without resetting the cache gives
    the history  Query q; Ev e; Query q  on which the memo returns the old view.
    [memo_alias_refuted]: handing out the cache cell itself gives  Query q; Scribble 0 v; Query q
    on which the second query returns the caller's scribble.
    Instances: C04 (one gate object, re-bound / re-parametrised) and C05 (circuits). *)
From Qib Require Export Embed.ObsModel.
From Coq Require Import List Arith Bool Lia.
Import ListNotations.

Lemma nth_error_set_nth {A} (l : list A) i j a :
  nth_error (set_nth i a l) j = if Nat.eqb j i then option_map (fun _ => a) (nth_error l j) else nth_error l j.
Proof.
  revert i j; induction l as [|x l IH]; intros i j.
  - replace (set_nth i a []) with (@nil A) by (destruct i; reflexivity). destruct (Nat.eqb j i); destruct j; reflexivity.
  - destruct i as [|i], j as [|j]; cbn [set_nth nth_error Nat.eqb option_map]; try reflexivity. apply IH.
Qed.
Lemma length_set_nth {A} i (a : A) l : length (set_nth i a l) = length l.
Proof. revert i; induction l as [|x l IH]; intros [|i]; cbn; auto. Qed.
Lemma map_set_nth {A B} (f : A -> B) i a l : map f (set_nth i a l) = set_nth i (f a) (map f l).
Proof. revert i; induction l as [|x l IH]; intros [|i]; cbn; try reflexivity. rewrite IH. reflexivity. Qed.
Lemma set_nth_beyond {A} i (a : A) l : nth_error l i = None -> set_nth i a l = l.
Proof. revert i; induction l as [|x l IH]; intros [|i] H; cbn in *; try reflexivity; [discriminate|]. rewrite IH by exact H. reflexivity. Qed.
Lemma nodup_snoc {A} (l : list A) a : NoDup l -> ~ In a l -> NoDup (l ++ [a]).
Proof.
  induction l as [|x l IH]; intros ND Ha; [constructor; [intros []|constructor]|].
  inversion ND as [|? ? Hx ND']; subst. cbn. constructor.
  - intros Hin. apply in_app_or in Hin. destruct Hin as [Hin|[<-|[]]]; [contradiction|]. apply Ha. left. reflexivity.
  - apply IH; [exact ND'|]. intros Hin. apply Ha. right. exact Hin.
Qed.
Lemma nth_error_lt' {A} (l : list A) c x : nth_error l c = Some x -> c < length l.
Proof. intros H. apply nth_error_Some. rewrite H. discriminate. Qed.

(** writing into cell a changes, among pairwise distinct handles, exactly the one that is a *)
Lemma map_nth_error_set_nth {A} (store : list A) a v : forall l k,
  NoDup l -> nth_error l k = Some a -> a < length store ->
  map (nth_error (set_nth a v store)) l = set_nth k (Some v) (map (nth_error store) l).
Proof.
  induction l as [|x l IH]; intros k ND Hk Ha; [destruct k; discriminate|].
  inversion ND as [|? ? Hx ND']; subst. destruct k as [|k]; cbn in Hk.
  - injection Hk as ->. cbn [map set_nth]. f_equal.
    + rewrite nth_error_set_nth, Nat.eqb_refl. destruct (nth_error store a) eqn:E; [reflexivity|]. apply nth_error_None in E. lia.
    + apply map_ext_in. intros y Hy. rewrite nth_error_set_nth. destruct (Nat.eqb_spec y a) as [->|]; [contradiction|reflexivity].
  - cbn [map set_nth]. f_equal; [|apply IH; assumption].
    rewrite nth_error_set_nth. destruct (Nat.eqb_spec x a) as [->|]; [|reflexivity].
    exfalso. apply Hx. eapply nth_error_In. exact Hk.
Qed.

Section Sound.
  Variables (S E Q V : Type).
  Variable step : S -> E -> S.
  Variable view : S -> Q -> V.
  Variable qeqb : Q -> Q -> bool.
  Variable inval : E -> bool.
  Hypothesis qeqb_sound : forall a b, qeqb a b = true -> a = b.
  (** reachable states, and: a state change that does not reset the cache leaves every view as it is *)
  Variable I : S -> Prop.
  Hypothesis I_step : forall s e, I s -> I (step s e).
  Hypothesis stable : forall s e q, I s -> inval e = false -> view (step s e) q = view s q.

  Notation mstate := (mstate S Q V).
  Notation mstep := (mstep S E Q V step view qeqb inval false).
  Notation trace := (trace S E Q V step view).

  Definition R (m : mstate) (s : S) (out : list V) : Prop :=
    m_s _ _ _ m = s /\ I s /\
    mobs _ _ _ m = map Some out /\
    NoDup (m_out _ _ _ m) /\
    (forall a, In a (m_out _ _ _ m) -> a < length (m_store _ _ _ m)) /\
    (forall q a, m_cache _ _ _ m = Some (q, a) ->
                 nth_error (m_store _ _ _ m) a = Some (view s q) /\ ~ In a (m_out _ _ _ m)).

  Lemma mobs_extend (store : list V) x (out : list nat) :
    (forall a, In a out -> a < length store) -> map (nth_error (store ++ [x])) out = map (nth_error store) out.
  Proof. intros H. apply map_ext_in. intros a Ha. apply nth_error_app1. apply H. exact Ha. Qed.

  Lemma R_step m s out o :
    R m s out ->
    R (mstep m o)
      (match o with Ev e => step s e | _ => s end)
      (match o with Ev _ => out | Query q => out ++ [view s q] | Scribble k v => set_nth k v out end).
  Proof.
    intros [R0 [RI [R1 [R2 [R3 R4]]]]]. destruct m as [ms store cache mout]. cbn [m_s m_store m_cache m_out] in *.
    unfold mobs in R1. cbn [m_store m_out] in R1. subst ms.
    destruct o as [e|q|k v]; cbn [mstep ObsModel.mstep].
    - (* state change *)
      split; [reflexivity|]. split; [apply I_step; exact RI|]. split; [exact R1|]. split; [exact R2|]. split; [exact R3|].
      cbn [m_cache m_store m_out]. intros q a Hc. destruct (inval e) eqn:Ei; [discriminate|].
      destruct (R4 q a Hc) as [A B]. split; [|exact B]. rewrite stable by assumption. exact A.
    - (* query *)
      (* the cell holding the answer *)
      assert (L : exists store' cache' a,
                 lookup S Q V view qeqb {| m_s := s; m_store := store; m_cache := cache; m_out := mout |} q
                 = ({| m_s := s; m_store := store'; m_cache := cache'; m_out := mout |}, a)
                 /\ nth_error store' a = Some (view s q)
                 /\ map (nth_error store') mout = map Some out
                 /\ (forall b, In b mout -> b < length store')
                 /\ (forall q0 a0, cache' = Some (q0, a0) -> nth_error store' a0 = Some (view s q0) /\ ~ In a0 mout)).
      { assert (Miss : exists store' cache' a,
                  ({| m_s := s; m_store := store ++ [view s q]; m_cache := Some (q, length store); m_out := mout |}, length store)
                  = ({| m_s := s; m_store := store'; m_cache := cache'; m_out := mout |}, a)
                  /\ nth_error store' a = Some (view s q)
                  /\ map (nth_error store') mout = map Some out
                  /\ (forall b, In b mout -> b < length store')
                  /\ (forall q0 a0, cache' = Some (q0, a0) -> nth_error store' a0 = Some (view s q0) /\ ~ In a0 mout)).
        { exists (store ++ [view s q]), (Some (q, length store)), (length store). split; [reflexivity|].
          assert (Hn : nth_error (store ++ [view s q]) (length store) = Some (view s q))
            by (rewrite nth_error_app2 by lia; rewrite Nat.sub_diag; reflexivity).
          split; [exact Hn|]. split; [rewrite mobs_extend by exact R3; exact R1|]. split.
          - intros b Hb. rewrite app_length. specialize (R3 b Hb). cbn. lia.
          - intros q0 a0 H0. injection H0 as <- <-. split; [exact Hn|]. intros Hin. specialize (R3 _ Hin). lia. }
        unfold lookup. cbn [m_cache m_store m_s m_out]. destruct cache as [[q' a]|]; [|exact Miss].
        destruct (qeqb q q') eqn:Eq; [|exact Miss].
        apply qeqb_sound in Eq. subst q'. exists store, (Some (q, a)), a. split; [reflexivity|].
        destruct (R4 q a eq_refl) as [A B]. split; [exact A|]. split; [exact R1|]. split; [exact R3|exact R4]. }
      destruct L as [store' [cache' [a [-> [La [L1 [L3 L4]]]]]]].
      unfold hand_out. cbn [m_store m_s m_cache m_out]. rewrite La.
      split; [reflexivity|]. split; [exact RI|]. unfold mobs. cbn [m_store m_out m_cache].
      assert (Hn : nth_error (store' ++ [view s q]) (length store') = Some (view s q))
        by (rewrite nth_error_app2 by lia; rewrite Nat.sub_diag; reflexivity).
      split; [|split; [|split]].
      + rewrite !map_app. cbn [map]. rewrite Hn, mobs_extend by exact L3. rewrite L1. reflexivity.
      + apply nodup_snoc; [exact R2|]. intros Hin. specialize (L3 _ Hin). lia.
      + intros b Hb. rewrite app_length. cbn. apply in_app_or in Hb. destruct Hb as [Hb|[<-|[]]]; [specialize (L3 b Hb)|]; lia.
      + intros q0 a0 H0. destruct (L4 q0 a0 H0) as [A B]. split.
        * rewrite nth_error_app1 by (apply (nth_error_lt' _ _ _ A)). exact A.
        * intros Hin. apply in_app_or in Hin. destruct Hin as [Hin|[Hin|[]]]; [contradiction|].
          apply nth_error_lt' in A. lia.
    - (* the caller overwrites the k-th matrix it was handed *)
      assert (Hlen : length mout = length out) by (rewrite <- (map_length (nth_error store)), R1, map_length; reflexivity).
      cbn [m_s m_store m_cache m_out]. destruct (nth_error mout k) as [a|] eqn:Ek; cbn [m_s m_store m_cache m_out].
      + assert (Ha : a < length store) by (apply R3; eapply nth_error_In; exact Ek).
        split; [reflexivity|]. split; [exact RI|]. unfold mobs. cbn [m_store m_out]. split; [|split; [exact R2|split]].
        * rewrite (map_nth_error_set_nth store a v mout k R2 Ek Ha), R1, map_set_nth. reflexivity.
        * intros b Hb. rewrite length_set_nth. apply R3. exact Hb.
        * intros q0 a0 H0. destruct (R4 q0 a0 H0) as [A B]. split; [|exact B].
          rewrite nth_error_set_nth. destruct (Nat.eqb_spec a0 a) as [->|]; [|exact A].
          exfalso. apply B. eapply nth_error_In. exact Ek.
      + rewrite set_nth_beyond; [split; [reflexivity|]; split; [exact RI|]; split; [exact R1|]; split; [exact R2|]; split; [exact R3|exact R4]|]. apply nth_error_None. apply nth_error_None in Ek. lia.
  Qed.

  Lemma R_run es : forall m s out, R m s out -> mobs _ _ _ (fold_left mstep es m) = map Some (trace s out es).
  Proof.
    induction es as [|o es IH]; intros m s out HR; [destruct HR as [_ [_ [H _]]]; exact H|].
    cbn [fold_left]. pose proof (R_step m s out o HR) as HR'. destruct o; cbn [trace ObsModel.trace]; apply (IH _ _ _ HR').
  Qed.

  (** a memo that is reset whenever a view can change, and hands out copies, is invisible *)
  Theorem memo_sound s es :
    I s -> mobs _ _ _ (mrun S E Q V step view qeqb inval false s es) = map Some (trace s [] es).
  Proof.
    intros Hs. unfold mrun. apply R_run. unfold minit, R, mobs. cbn.
    repeat split; try assumption; try constructor; intros; try contradiction; discriminate.
  Qed.
End Sound.

Section Refuted.
  Variables (S E Q V : Type).
  Variable step : S -> E -> S.
  Variable view : S -> Q -> V.
  Variable qeqb : Q -> Q -> bool.
  Variable inval : E -> bool.

  (** a view-changing event that does not reset the cache: query, change, query again *)
  Theorem memo_stale_refuted alias s e q :
    qeqb q q = true -> inval e = false -> view (step s e) q <> view s q ->
    mobs _ _ _ (mrun S E Q V step view qeqb inval alias s [Query q; Ev e; Query q])
    <> map Some (trace S E Q V step view s [] [Query q; Ev e; Query q]).
  Proof.
    intros Hq Hi Hv. unfold mrun, mobs. destruct alias; cbn; rewrite Hi; cbn; rewrite Hq; cbn;
      intros H; injection H as H; apply Hv; congruence.
  Qed.

  (** handing out the cache cell itself: the caller's write into its matrix comes back from the next query *)
  Theorem memo_alias_refuted s q v :
    qeqb q q = true -> v <> view s q ->
    mobs _ _ _ (mrun S E Q V step view qeqb inval true s [Query q; Scribble 0 v; Query q])
    <> map Some (trace S E Q V step view s [] [Query q; Scribble 0 v; Query q]).
  Proof.
    intros Hq Hv. unfold mrun, mobs. cbn. rewrite Hq. cbn. intros H. injection H as H. apply Hv. congruence.
  Qed.
End Refuted.
