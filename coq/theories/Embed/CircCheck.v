(** Case type and checker for the C05 correspondence run (vm_compute, exact Gaussian integers).
    Matrices are re-materialised as lists after every gate (the same [embed], [mmul], [mvmul]
    definitions, evaluated with memoisation). *)
From Qib Require Export Embed.CircModel Embed.HeapModel Embed.EmbedCheck.
Local Open Scope Z_scope.

Definition dm := list (list (Z * Z)).
Definition gate_z := (dm * list nat)%type.
Definition to_cgate (g : gate_z) : cgate ZI := {| g_mat := mxl (K:=ZI) (fst g); g_wires := snd g |}.

Definition cm_dense (nw : nat) (gs : list gate_z) : dm :=
  fold_left (fun M g => dense nw (cm_step nw (mxl (K:=ZI) M) (to_cgate g))) gs (dense nw (mid (K:=ZI))).
Definition vec_of (nw : nat) (v : list (Z * Z)) : vec (K:=ZI) := fun r => nth (b2n r) v (0, 0).
Definition sv_dense (nw : nat) (gs : list gate_z) : list (Z * Z) :=
  fold_left (fun psi g => map (mvmul nw (E nw (to_cgate g)) (vec_of nw psi)) (all_bits nw)) gs
            (map (e0 (K:=ZI) nw) (all_bits nw)).

Inductive bop := OAppendGate (g : gate_z) | OAppendCircuit (o : list gate_z)
               | OPrependGate (g : gate_z) | OPrependCircuit (o : list gate_z).
Definition apply_bop (c : list gate_z) (b : bop) : list gate_z :=
  match b with
  | OAppendGate g => c ++ [g]
  | OAppendCircuit o => c ++ o
  | OPrependGate g => g :: c
  | OPrependCircuit o => o ++ c
  end.

Fixpoint gval_eqb (a b : gval) : bool :=
  match a, b with
  | GVal c1 p1 k1, GVal c2 p2 k2 =>
    Nat.eqb c1 c2 && zlist_eqb p1 p2 &&
    (fix le (x y : list gval) : bool :=
       match x, y with
       | [], [] => true
       | a' :: x', b' :: y' => gval_eqb a' b' && le x' y'
       | _, _ => false
       end) k1 k2
  end.

Inductive ccase :=
(** Circuit.as_matrix(fields) of a gate list given as (matrix, wires) *)
| CCirc (nw : nat) (gs : list gate_z) (exp : dm)
(** StatevectorSimulator.run *)
| CSv (nw : nat) (gs : list gate_z) (exp : list (Z * Z))
(** a sequence of builder calls on an initially empty circuit, then as_matrix *)
| CBuild (nw : nat) (ops : list bop) (exp : dm)
(** a history of gate constructions, circuit constructions (empty / from a list of caller objects),
    builder calls and mutations (of caller objects and through a circuit's own gate list): the values
    denoted by all circuits and by all caller objects afterwards *)
| CHist (es : list event) (circs : list (list gval)) (hs : list gval).

Definition check_with (ctor : bool) (deep : nat -> bool) (c : ccase) : bool :=
  match c with
  | CCirc nw gs exp => zmat_eqb (cm_dense nw gs) exp
  | CSv nw gs exp => list_eqb zi_eqb (sv_dense nw gs) exp
  | CBuild nw ops exp => zmat_eqb (cm_dense nw (fold_left apply_bop ops [])) exp
  | CHist es circs hs =>
      let s := run deep ctor es in
      list_eqb (list_eqb gval_eqb) (map (map erase) (circuits s)) circs
      && list_eqb gval_eqb (map erase (handles s)) hs
  end.

Definition bad_cases_with (ctor : bool) (deep : nat -> bool) (cs : list (nat * ccase)) : list nat :=
  map fst (filter (fun c => negb (check_with ctor deep (snd c))) cs).
