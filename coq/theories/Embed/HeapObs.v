(** The observation model (ObsModel/ObsProofs) instantiated
    (C05) on the heap of gate objects and circuits: queries of a circuit's gate list (what every
          view - matrix, statevector, tensor network - is computed from) between builder calls,
          list constructions and mutations;
    (C04) on one gate object: queries as_circuit_matrix(fields) between re-bindings /
          re-parametrisations of the object and of the objects reachable from it. *)
From Qib Require Export Embed.HeapProofs Embed.ObsProofs.
From Coq Require Import List Arith ZArith Bool Lia.
Import ListNotations.

(* ------------------------------------------------------------------ C05: circuits *)
Section CircuitViews.
  Variable deep : nat -> bool.
  Variable ctor : bool.
  Hypothesis all_deep : forall cls, deep cls = true.

  Definition hstate := (state * ghost)%type.
  Definition hstep (sg : hstate) (e : event) : hstate := (step deep ctor (fst sg) e, vstep ctor (fst sg) (snd sg) e).
  (** the gate list a by-value circuit denotes (None: no such circuit, or one the list constructor made by reference) *)
  Definition hview (sg : hstate) (c : nat) : option (list gval) :=
    match nth_error (snd sg) c with Some (true, _) => denotes (fst sg) c | _ => None end.
  Definition hinit : hstate := (init, []).
  Definition HInv (sg : hstate) : Prop := Inv (fst sg) (snd sg).

  (** events after which a cached view of some circuit may be out of date: everything except the construction
      of gate objects and mutations of the CALLER's objects *)
  Definition changes_circuits (e : event) : bool :=
    match e with ENew _ _ _ | EMutate _ _ _ | ESetKid _ _ _ _ => false | _ => true end.

  Lemma HInv_step sg e : HInv sg -> HInv (hstep sg e).
  Proof. destruct sg as [s gh]. apply step_inv. exact all_deep. Qed.

  (** what a query must return is the by-value reference *)
  Lemma hview_ghost sg c : HInv sg ->
    hview sg c = match nth_error (snd sg) c with Some (true, vl) => Some vl | _ => None end.
  Proof.
    destruct sg as [s gh]. intros [I0 [_ [_ I3]]]. unfold hview, denotes. cbn [fst snd] in *.
    destruct (nth_error gh c) as [[[|] vl]|] eqn:Eg; try reflexivity.
    destruct (nth_error (circuits s) c) as [l|] eqn:Ec; cbn [option_map].
    - destruct (I3 c l vl Ec Eg) as [_ [P2 _]]. rewrite P2. reflexivity.
    - apply nth_error_lt in Eg. apply nth_error_None in Ec. lia.
  Qed.

  (** gate constructions and mutations of the caller's objects leave every by-value circuit's view as it is *)
  Lemma hview_stable sg e c : HInv sg -> changes_circuits e = false -> hview (hstep sg e) c = hview sg c.
  Proof.
    intros HI He. rewrite (hview_ghost _ c (HInv_step sg e HI)), (hview_ghost sg c HI).
    destruct sg as [s gh]. unfold hstep. cbn [fst snd].
    destruct e; try discriminate; reflexivity.
  Qed.

  Definition hqeqb := Nat.eqb.
  Lemma hqeqb_sound a b : hqeqb a b = true -> a = b.
  Proof. apply Nat.eqb_eq. Qed.

  (** HISTORIES WITH OBSERVATIONS: in every history of builder calls, list constructions, mutations (of caller
      objects and through circuits' gate lists), queries and caller writes into the results, a cache of the
      queried view that is reset by every event other than gate construction / mutation of caller objects, and
      hands out copies, is indistinguishable from recomputation: each query returns what the circuit denotes by
      value at that moment, and results handed out earlier are snapshots. *)
  Theorem circuit_observations_by_value (inval : event -> bool) es :
    (forall e, changes_circuits e = true -> inval e = true) ->
    mobs _ _ _ (mrun _ _ _ _ hstep hview hqeqb inval false hinit es) = map Some (trace _ _ _ _ hstep hview hinit [] es).
  Proof.
    intros Hpol. apply (memo_sound _ _ _ _ hstep hview hqeqb inval hqeqb_sound HInv HInv_step).
    - intros sg e q HI Hi. apply hview_stable; [exact HI|].
      destruct (changes_circuits e) eqn:E; [rewrite (Hpol e E) in Hi; discriminate|reflexivity].
    - apply init_inv.
  Qed.
End CircuitViews.

(** a cache that one builder call does not reset is observable (here: prepend_circuit; any deep/ctor rules) *)
Theorem circuit_cache_not_reset_by_prepend_circuit_refuted deep ctor (inval : event -> bool) alias :
  inval (EPrependCircuit 0 1) = false ->
  let s0 := fold_left (hstep deep ctor) [ENew 0 [] []; ENewCircuit; ENewCircuit; EAppendGate 1 0; EAppendGate 0 0] hinit in
  let es := [Query 0; Ev (EPrependCircuit 0 1); Query 0] in
  mobs _ _ _ (mrun _ _ _ _ (hstep deep ctor) hview hqeqb inval alias s0 es)
  <> map Some (trace _ _ _ _ (hstep deep ctor) hview s0 [] es).
Proof.
  intros Hi s0 es. apply memo_stale_refuted; [reflexivity|exact Hi|].
  assert (Leaf : forall n i cls ps, copy deep n (GObj i cls ps []) = (GObj n cls ps [], Datatypes.S n)).
  { intros. rewrite copy_unfold. destruct (deep cls); reflexivity. }
  unfold s0, hinit, hstep, hview, denotes.
  repeat (cbn [fold_left fst snd step vstep init handles circuits next_id nth_error objs_of flat_map app copy_list
               upd_circ gupd replace_nth option_map map erase denotes]; rewrite ?Leaf).
  discriminate.
Qed.

(* ------------------------------------------------------------------ C04: one gate object *)
Section GateViews.
  Variables (Q V : Type).
  Variable qeqb : Q -> Q -> bool.
  Hypothesis qeqb_sound : forall a b, qeqb a b = true -> a = b.
  (** the register-level matrix as a function of the gate's VALUE and the field list *)
  Variable D : gval -> Q -> V.

  (** re-binding / re-parametrising the object reached through target_gate()/target_gates()[i] ...,
      or assigning one of its gate-valued fields *)
  Inductive gmut := GSet (path : list nat) (ps : list Z) | GSetKid (path : list nat) (i : nat) (new : gobj).
  Definition gstep (g : gobj) (e : gmut) : gobj :=
    match e with
    | GSet path ps => match follow g path with Some t => set_params (obj_id t) ps g | None => g end
    | GSetKid path i new => match follow g path with Some t => set_kid (obj_id t) i new g | None => g end
    end.
  Definition gview (g : gobj) (q : Q) : V := D (erase g) q.

  (** a memo reset by EVERY mutation of any reachable object, handing out copies, returns on every query the
      matrix of the gate's current value, and earlier results are snapshots *)
  Theorem gate_observations_current_value g es :
    mobs _ _ _ (mrun _ _ _ _ gstep gview qeqb (fun _ => true) false g es) = map Some (trace _ _ _ _ gstep gview g [] es).
  Proof.
    apply (memo_sound _ _ _ _ gstep gview qeqb (fun _ => true) qeqb_sound (fun _ => True)); [auto|discriminate|exact I].
  Qed.

  (** a memo that some view-changing mutation (e.g. of the target gate) does not reset returns the old matrix *)
  Theorem gate_cache_not_reset_refuted (inval : gmut -> bool) alias g e q :
    qeqb q q = true -> inval e = false -> D (erase (gstep g e)) q <> D (erase g) q ->
    let es := [Query q; Ev e; Query q] in
    mobs _ _ _ (mrun _ _ _ _ gstep gview qeqb inval alias g es) <> map Some (trace _ _ _ _ gstep gview g [] es).
  Proof. intros Hq Hi Hd es. apply memo_stale_refuted; assumption. Qed.

  (** handing out the cached matrix itself: the caller's write into it comes back from the next query *)
  Theorem gate_cache_alias_refuted (inval : gmut -> bool) g q v :
    qeqb q q = true -> v <> D (erase g) q ->
    let es := [Query q; Scribble 0 v; Query q] in
    mobs _ _ _ (mrun _ _ _ _ gstep gview qeqb inval true g es) <> map Some (trace _ _ _ _ gstep gview g [] es).
  Proof. intros Hq Hv es. apply memo_alias_refuted; assumption. Qed.
End GateViews.
