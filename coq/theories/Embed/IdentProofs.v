(** What an input is identified BY.  Three places where the code (or a plausible change of it)
    identifies an object by less than its full value, each with the positive statement (when the
    coarser identification is harmless) and the refutation (the inputs on which it is not); the
    harnesses checks/C04.py, checks/C05.py enumerate exactly these inputs.

    1. fields: map_particle_to_wire tests [p.field == f].  Field defines no __eq__ (translator:
       gen/embed.py check_field_identity), so this is object identity - the model's field ids.
       [mp2w_by key]: the same loop when fields are compared through [key] (a logical __eq__ on
       particle type / lattice / local dimension: key = that tuple).  Equal on every field list on
       which [key] separates the listed fields from the particle's field ([mp2w_by_separating]);
       wrong as soon as two listed fields share a key ([mp2w_coarse_equality_refuted]: two distinct
       fields on ONE lattice object).
    2. memory layout: permute_gate_wires reshapes with numpy's default order='C', which reads the
       LOGICAL row-major index order whatever the memory layout of the argument ([np_mat_to_tensor]).
       [np_mat_to_tensor_F] is what order='A' (or 'F') reads from a Fortran-contiguous argument
       (u.T, u.conj().T, np.asfortranarray(u)): the first tensor index varies fastest.  With it the
       function is no longer the conjugation by the wire permutation ([permute_fortran_refuted]);
       for the exchange of two wires it returns its argument unchanged ([permute_fortran_swap_is_identity]).
    3. cache keys: a memo whose key comparison [qeqb] identifies two queries on which the view
       differs returns the first answer for the second query ([memo_coarse_key_refuted]); instance:
       a gate's register matrix keyed on the SET of its wires - [embed] depends on their ORDER
       ([embed_depends_on_wire_order]: CNOT(a,b) vs CNOT(b,a)). *)
From Qib Require Import Embed.EmbedModel Embed.EmbedProofs Embed.WireProofs Embed.ObsProofs Base.Inst.
From Coq Require Import List ZArith Lia Bool.
Import ListNotations.

(* ------------------------------------------------------------------ 1. fields *)
Local Open Scope Z_scope.

Definition rekey (key : Z -> Z) (fields : list (Z * Z)) : list (Z * Z) :=
  map (fun fn => (key (fst fn), snd fn)) fields.
Definition mp2w_by (key : Z -> Z) (fields : list (Z * Z)) (p : Z * Z) : Z :=
  mp2w (rekey key fields) (key (fst p), snd p).

Lemma mp2w_skel_by_separating key fields pf idx i :
  (forall f, In f (map fst fields) -> key f = key pf -> f = pf) ->
  mp2w_skel Z.add Z.add (-1) (rekey key fields) (key pf) idx i = mp2w_skel Z.add Z.add (-1) fields pf idx i.
Proof.
  revert i; induction fields as [|[f n] fs IH]; intros i H; cbn [rekey map mp2w_skel fst snd]; [reflexivity|].
  destruct (Z.eqb_spec (key pf) (key f)) as [E|E].
  - assert (f = pf) as -> by (apply H; [left; reflexivity|symmetry; exact E]).
    rewrite Z.eqb_refl. reflexivity.
  - destruct (Z.eqb_spec pf f) as [->|N]; [contradiction E; reflexivity|].
    apply IH. intros f' Hin. apply H. right. exact Hin.
Qed.

(** comparing fields through [key] is comparing them by identity as long as no LISTED field shares
    its key with the particle's field without being that field *)
Theorem mp2w_by_separating key fields p :
  (forall f, In f (map fst fields) -> key f = key (fst p) -> f = fst p) ->
  mp2w_by key fields p = mp2w fields p.
Proof. intros H. unfold mp2w_by, mp2w. cbn [fst snd]. apply mp2w_skel_by_separating. exact H. Qed.

(** two distinct fields (ids 0 and 1, two sites each) built on one lattice object, compared by a
    logical equality that looks at the lattice: the particle (field 1, site 1) is wire 3 of the
    register [field 0; field 1], the coarse comparison answers wire 1 - a wire of the OTHER field *)
Theorem mp2w_coarse_equality_refuted :
  exists (key : Z -> Z) (fields : list (Z * Z)) (p : Z * Z),
    fields_ok fields /\ particle_ok fields p /\
    mp2w fields p = fsum [(0, 2)] + snd p /\ mp2w_by key fields p <> mp2w fields p /\
    particle_ok fields (0, mp2w_by key fields p).
Proof.
  exists (fun _ => 7), [(0, 2); (1, 2)], (1, 1).
  split; [|split; [|split; [|split]]].
  - split.
    + cbn. constructor; [intros [H|[]]; discriminate|]. constructor; [intros []|constructor].
    + intros f n [E|[E|[]]]; inversion E; lia.
  - exists 2. cbn. split; [right; left; reflexivity|lia].
  - vm_compute. reflexivity.
  - vm_compute. discriminate.
  - exists 2. replace (mp2w_by _ _ _) with 1 by (vm_compute; reflexivity).
    cbn [fst snd]. split; [left; reflexivity|lia].
Qed.

(* ------------------------------------------------------------------ 2. memory layout *)
Section Layout.
  Context {K : Scalar}.
  (** np.reshape(u, (2,)*2n, order='A') of a Fortran-contiguous 2^n x 2^n array u: elements are taken in
      column-major order and laid out with the FIRST index varying fastest, i.e. the row index of u is
      i_{n-1} ... i_0 (most significant first) and the column index i_{2n-1} ... i_n *)
  Definition np_mat_to_tensor_F (n : nat) (u : BMx K) : bits -> K :=
    fun idx => u (rev (firstn n idx)) (rev (skipn n idx)).
  (** permute_gate_wires with that first reshape (the transposition and the final C-ordered reshape unchanged) *)
  Definition permute_gate_wires_F (u : BMx K) (perm : list nat) : BMx K :=
    let n := length perm in
    np_tensor_to_mat (np_transpose (permute_axes n perm) (np_mat_to_tensor_F n u)).
End Layout.

Local Open Scope nat_scope.

(** on two wires, exchanging them: the Fortran-order reading returns the argument itself *)
Theorem permute_fortran_swap_is_identity {K : Scalar} (u : BMx K) r c :
  length r = 2 -> length c = 2 -> permute_gate_wires_F u [1; 0] r c = u r c.
Proof.
  intros Hr Hc.
  destruct r as [|r0 [|r1 [|? ?]]]; try discriminate. destruct c as [|c0 [|c1 [|? ?]]]; try discriminate.
  reflexivity.
Qed.

(** hence not the conjugation by the wire permutation: a 4 x 4 matrix that is not invariant under the exchange *)
Theorem permute_fortran_refuted :
  exists (u : BMx ZI) (perm : list nat), is_perm 2 perm /\
    dense 2 (permute_gate_wires_F u perm) <> dense 2 (permute_gate_wires u perm) /\
    dense 2 (permute_gate_wires u perm) = dense 2 (fun r c => u (gather (invperm perm) r) (gather (invperm perm) c)).
Proof.
  exists (mxl (K:=ZI) [[(1,0);(2,0);(3,0);(4,0)]; [(5,0);(6,0);(7,0);(8,0)];
                       [(9,0);(10,0);(11,0);(12,0)]; [(13,0);(14,0);(15,0);(16,0)]]%Z), [1; 0].
  split; [|split].
  - split; [|split; [reflexivity|]].
    + constructor; [intros [H|[]]; discriminate|]. constructor; [intros []|constructor].
    + intros x [<-|[<-|[]]]; lia.
  - vm_compute. discriminate.
  - vm_compute. reflexivity.
Qed.

(* ------------------------------------------------------------------ 3. cache keys *)
Section CoarseKey.
  Variables (S E Q V : Type).
  Variable step : S -> E -> S.
  Variable view : S -> Q -> V.
  Variable qeqb : Q -> Q -> bool.
  Variable inval : E -> bool.

  (** two queries the key comparison identifies although the view tells them apart: the second one is
      answered with the matrix of the first (with either hand-out policy) *)
  Theorem memo_coarse_key_refuted alias s q1 q2 :
    qeqb q2 q1 = true -> view s q2 <> view s q1 ->
    mobs _ _ _ (mrun S E Q V step view qeqb inval alias s [Query q1; Query q2])
    <> map Some (trace S E Q V step view s [] [Query q1; Query q2]).
  Proof.
    intros Hq Hv. unfold mrun, mobs. destruct alias; cbn; rewrite Hq; cbn;
      intros H; injection H as H; apply Hv; congruence.
  Qed.
End CoarseKey.

(** the register matrix of a gate depends on the ORDER of its wires, not only on their set:
    CNOT with control 0 / target 1 and with control 1 / target 0 on a two-wire register *)
Theorem embed_depends_on_wire_order :
  let cnot : BMx ZI := mxl (K:=ZI) [[(1,0);(0,0);(0,0);(0,0)]; [(0,0);(1,0);(0,0);(0,0)];
                                    [(0,0);(0,0);(0,0);(1,0)]; [(0,0);(0,0);(1,0);(0,0)]]%Z in
  (forall w, In w [0; 1] <-> In w [1; 0]) /\
  dense 2 (embed (K:=ZI) 2 [0; 1] cnot) <> dense 2 (embed (K:=ZI) 2 [1; 0] cnot).
Proof.
  cbv zeta. split.
  - intros w. cbn. intuition.
  - vm_compute. discriminate.
Qed.

(* ------------------------------------------------------------------ 3'. the statevector loop with a gate memo *)
From Qib Require Import Embed.CircProofs.

Section GateMemo.
  Context {K : Scalar} {L : ScalarLaws K}.
  Variable keyeq : cgate K -> cgate K -> bool.       (* do two gates have the same cache key *)
  Variable nw : nat.

  (** StatevectorSimulator.run with a per-run memo of embedded matrices: the matrix applied for a gate g is the
      embedded matrix of the FIRST gate of the run that has the key of g *)
  Fixpoint sv_memo (seen : list (cgate K)) (c : circuit K) (psi : vec (K:=K)) : vec (K:=K) :=
    match c with
    | [] => psi
    | g :: c' => match find (keyeq g) seen with
                 | Some h => sv_memo seen c' (mvmul nw (E nw h) psi)
                 | None => sv_memo (seen ++ [g]) c' (mvmul nw (E nw g) psi)
                 end
    end.
  Definition run_statevector_memo (c : circuit K) : vec (K:=K) := sv_memo [] c (e0 nw).

  (** the memo is invisible when equal keys imply equal register matrices *)
  Theorem statevector_memo_faithful_key (c : circuit K) :
    (forall g h, keyeq g h = true -> meq nw (E nw h) (E nw g)) ->
    veq nw (run_statevector_memo c) (run_statevector nw c).
  Proof.
    intros Hk. unfold run_statevector_memo, run_statevector.
    assert (G : forall c seen psi psi', veq nw psi psi' ->
                veq nw (sv_memo seen c psi) (fold_left (fun psi g => mvmul nw (E nw g) psi) c psi')).
    { clear c. induction c as [|g c IH]; intros seen psi psi' Hp; [exact Hp|].
      cbn [sv_memo fold_left]. destruct (find (keyeq g) seen) as [h|] eqn:Ef.
      - apply IH. apply mvmul_veq; [|exact Hp]. apply Hk. apply (find_some _ _ Ef).
      - apply IH. apply mvmul_veq; [apply meq_refl|exact Hp]. }
    apply G. intros r _. reflexivity.
  Qed.
End GateMemo.

Fixpoint leqb {A} (eqb : A -> A -> bool) (l1 l2 : list A) : bool :=
  match l1, l2 with
  | [], [] => true
  | x :: l1', y :: l2' => eqb x y && leqb eqb l1' l2'
  | _, _ => false
  end.
(** the key of the seeded change: the (small) gate matrix and the SET of wires *)
Definition keyeq_matrix_and_wire_set (g h : cgate ZI) : bool :=
  leqb (leqb zi_eqb) (dense (length (g_wires g)) (g_mat g)) (dense (length (g_wires h)) (g_mat h))
  && forallb (fun w => mem_nat w (g_wires h)) (g_wires g) && forallb (fun w => mem_nat w (g_wires g)) (g_wires h).

(** X on wire 0, then CNOT(control 0, target 1), then CNOT(control 1, target 0): the third gate has the key of the
    second and is applied with the second's register matrix; |00> ends in |10> instead of |01> *)
Theorem statevector_memo_keyed_on_wire_set_refuted :
  let X : BMx ZI := mxl (K:=ZI) [[(0,0);(1,0)]; [(1,0);(0,0)]]%Z in
  let cnot : BMx ZI := mxl (K:=ZI) [[(1,0);(0,0);(0,0);(0,0)]; [(0,0);(1,0);(0,0);(0,0)];
                                    [(0,0);(0,0);(0,0);(1,0)]; [(0,0);(0,0);(1,0);(0,0)]]%Z in
  let c : circuit ZI := [ {| g_mat := X; g_wires := [0] |}; {| g_mat := cnot; g_wires := [0; 1] |};
                          {| g_mat := cnot; g_wires := [1; 0] |} ] in
  map (run_statevector_memo keyeq_matrix_and_wire_set 2 c) (all_bits 2) <> map (run_statevector 2 c) (all_bits 2) /\
  run_statevector 2 c [false; true] = (1, 0)%Z /\
  run_statevector_memo keyeq_matrix_and_wire_set 2 c [true; false] = (1, 0)%Z.
Proof. cbv zeta. split; [vm_compute; discriminate|split; vm_compute; reflexivity]. Qed.
