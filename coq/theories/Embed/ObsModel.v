(** Observation calls interleaved with state changes (C04: as_circuit_matrix on one gate object
    whose particles / parameters are re-bound; C05: as_matrix / simulators on circuits between
    builder calls and mutations).

    The code as it is recomputes every view from the current state; [trace] is that semantics:
    a query hands out a fresh matrix holding the view of the state at that moment (a snapshot),
    and the caller may later overwrite a matrix it got back ([Scribble]).

    [mrun] is the same interface implemented with a memo: a one-entry cache keyed on the query
    argument (the field list), reset by the events [inval] selects, handing out either the cache
    cell itself ([alias = true]) or a copy.  ObsProofs shows when the two agree and exhibits the
    histories on which they differ otherwise -- these are the histories the harness runs.
    No proofs here. *)
From Coq Require Import List Arith Bool.
Import ListNotations.

Fixpoint set_nth {A} (i : nat) (a : A) (l : list A) : list A :=
  match l, i with
  | [], _ => []
  | _ :: l', O => a :: l'
  | y :: l', Datatypes.S i' => y :: set_nth i' a l'
  end.

Section Obs.
  Variables (S E Q V : Type).
  Variable step : S -> E -> S.          (* state change: builder call, re-binding, mutation ... *)
  Variable view : S -> Q -> V.          (* what a query must return: a function of the CURRENT state *)
  Variable qeqb : Q -> Q -> bool.

  Inductive oev :=
  | Ev (e : E)                          (* a state change *)
  | Query (q : Q)                       (* the k-th query hands out the k-th matrix *)
  | Scribble (k : nat) (v : V).         (* the caller overwrites the k-th matrix it was handed *)

  (** reference: the contents, at the end of the history, of the matrices handed out (in order) *)
  Fixpoint trace (s : S) (out : list V) (es : list oev) : list V :=
    match es with
    | [] => out
    | Ev e :: es' => trace (step s e) out es'
    | Query q :: es' => trace s (out ++ [view s q]) es'
    | Scribble k v :: es' => trace s (set_nth k v out) es'
    end.

  (** memoised implementation *)
  Variable inval : E -> bool.           (* which state changes reset the cache *)
  Variable alias : bool.                (* hand out the cache cell itself, or a copy *)

  Record mstate := { m_s : S;
                     m_store : list V;            (* matrix objects; index = identity *)
                     m_cache : option (Q * nat);  (* key, cell *)
                     m_out : list nat }.          (* cell of the k-th matrix handed out *)

  (** the cell holding the answer: the cached one on a hit, a newly computed one otherwise *)
  Definition lookup (m : mstate) (q : Q) : mstate * nat :=
    match m_cache m with
    | Some (q', a) =>
        if qeqb q q' then (m, a)
        else ({| m_s := m_s m; m_store := m_store m ++ [view (m_s m) q]; m_cache := Some (q, length (m_store m)); m_out := m_out m |},
              length (m_store m))
    | None => ({| m_s := m_s m; m_store := m_store m ++ [view (m_s m) q]; m_cache := Some (q, length (m_store m)); m_out := m_out m |},
               length (m_store m))
    end.
  Definition hand_out (m : mstate) (a : nat) : mstate :=
    if alias then {| m_s := m_s m; m_store := m_store m; m_cache := m_cache m; m_out := m_out m ++ [a] |}
    else match nth_error (m_store m) a with
         | Some v => {| m_s := m_s m; m_store := m_store m ++ [v]; m_cache := m_cache m; m_out := m_out m ++ [length (m_store m)] |}
         | None => m
         end.
  Definition mstep (m : mstate) (o : oev) : mstate :=
    match o with
    | Ev e => {| m_s := step (m_s m) e; m_store := m_store m; m_cache := if inval e then None else m_cache m; m_out := m_out m |}
    | Query q => let '(m', a) := lookup m q in hand_out m' a
    | Scribble k v =>
        match nth_error (m_out m) k with
        | Some a => {| m_s := m_s m; m_store := set_nth a v (m_store m); m_cache := m_cache m; m_out := m_out m |}
        | None => m
        end
    end.
  Definition minit (s : S) : mstate := {| m_s := s; m_store := []; m_cache := None; m_out := [] |}.
  Definition mrun (s : S) (es : list oev) : mstate := fold_left mstep es (minit s).
  (** what the caller sees at the end in the matrices it was handed *)
  Definition mobs (m : mstate) : list (option V) := map (nth_error (m_store m)) (m_out m).
End Obs.
Arguments Ev {E Q V}. Arguments Query {E Q V}. Arguments Scribble {E Q V}.
