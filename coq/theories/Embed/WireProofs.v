(** C04: map_particle_to_wire (offset by the sizes of the earlier fields, injective),
    Gate.as_circuit_matrix = embed on the wires of the particles, and when the port accepts. *)
From Qib Require Export Embed.DistProofs.
Local Open Scope Z_scope.

Definition fsum (fields : list (Z * Z)) : Z := fold_right Z.add 0 (map snd fields).
Definition fields_ok (fields : list (Z * Z)) : Prop :=
  NoDup (map fst fields) /\ (forall f n, In (f, n) fields -> 0 <= n).
(** particle (f, idx) lives in the field list *)
Definition particle_ok (fields : list (Z * Z)) (p : Z * Z) : Prop :=
  exists n, In (fst p, n) fields /\ 0 <= snd p < n.

Lemma fsum_cons f n fs : fsum ((f, n) :: fs) = n + fsum fs.
Proof. reflexivity. Qed.
Lemma fsum_app a b : fsum (a ++ b) = fsum a + fsum b.
Proof. unfold fsum. induction a as [|[f n] a IH]; cbn [app map fold_right snd]; [reflexivity|]. rewrite IH. lia. Qed.

(** wire = sum of the sizes of the fields listed before the particle's field + lattice index *)
Lemma mp2w_skel_found pre f n post idx i : ~ In f (map fst pre) ->
  mp2w_skel Z.add Z.add (-1) (pre ++ (f, n) :: post) f idx i = i + fsum pre + idx.
Proof.
  revert i; induction pre as [|[f0 n0] pre IH]; intros i H; cbn [app mp2w_skel].
  - rewrite Z.eqb_refl. unfold fsum. cbn. lia.
  - cbn [map fst] in H. destruct (Z.eqb_spec f f0) as [->|Hne]; [exfalso; apply H; left; reflexivity|].
    rewrite IH by (intros H'; apply H; right; exact H'). rewrite fsum_cons. lia.
Qed.
Lemma mp2w_found pre f n post idx : ~ In f (map fst pre) ->
  mp2w (pre ++ (f, n) :: post) (f, idx) = fsum pre + idx.
Proof. intros H. unfold mp2w. cbn [fst snd]. rewrite mp2w_skel_found by exact H. lia. Qed.

Lemma mp2w_skel_absent fields f idx i : ~ In f (map fst fields) ->
  mp2w_skel Z.add Z.add (-1) fields f idx i = -1.
Proof.
  revert i; induction fields as [|[f0 n0] fs IH]; intros i H; cbn [mp2w_skel]; [reflexivity|].
  cbn [map fst] in H. destruct (Z.eqb_spec f f0) as [->|Hne]; [exfalso; apply H; left; reflexivity|].
  apply IH. intros H'. apply H. right. exact H'.
Qed.
Lemma mp2w_absent fields p : ~ In (fst p) (map fst fields) -> mp2w fields p = -1.
Proof. intros H. unfold mp2w. apply mp2w_skel_absent. exact H. Qed.

Lemma mp2w_skel_range fields f idx i : fields_ok fields -> particle_ok fields (f, idx) ->
  i <= mp2w_skel Z.add Z.add (-1) fields f idx i < i + fsum fields.
Proof.
  revert i; induction fields as [|[f0 n0] fs IH]; intros i [ND Hn] [n [Hin Hidx]]; [destruct Hin|].
  cbn [fst snd] in *. cbn [mp2w_skel]. rewrite fsum_cons.
  assert (H0 : 0 <= n0) by (apply (Hn f0); left; reflexivity).
  assert (Fok : fields_ok fs).
  { split; [inversion ND; assumption|]. intros f' n' H'. apply (Hn f'). right. exact H'. }
  assert (Fs : 0 <= fsum fs).
  { clear -Fok. destruct Fok as [_ Hn]. induction fs as [|[f n] fs IH]; [unfold fsum; cbn; lia|].
    rewrite fsum_cons. assert (0 <= n) by (apply (Hn f); left; reflexivity).
    assert (0 <= fsum fs) by (apply IH; intros f' n' H'; apply (Hn f'); right; exact H'). lia. }
  destruct (Z.eqb_spec f f0) as [->|Hne].
  - destruct Hin as [E|Hin].
    + injection E as <-. lia.
    + exfalso. inversion ND as [|? ? Hnot _]; subst. apply Hnot.
      apply (in_map fst) in Hin. exact Hin.
  - destruct Hin as [E|Hin]; [injection E as -> _; congruence|].
    specialize (IH (i + n0) Fok (ex_intro _ n (conj Hin Hidx))). lia.
Qed.
Lemma mp2w_range fields p : fields_ok fields -> particle_ok fields p -> 0 <= mp2w fields p < fsum fields.
Proof.
  intros F P. destruct p as [f idx]. unfold mp2w. cbn [fst snd].
  pose proof (mp2w_skel_range fields f idx 0 F P). lia.
Qed.

(** -1 exactly when the particle's field is not listed *)
Lemma mp2w_absent_iff fields p : fields_ok fields -> 0 <= snd p ->
  (forall n, In (fst p, n) fields -> snd p < n) ->
  (mp2w fields p = -1 <-> ~ In (fst p) (map fst fields)).
Proof.
  intros F Hi Hb. split; [|apply mp2w_absent].
  intros E Hin. apply in_map_iff in Hin. destruct Hin as [[f n] [Ef Hin]]. cbn [fst] in Ef. subst f.
  assert (P : particle_ok fields p) by (exists n; split; [exact Hin|split; [exact Hi|apply Hb; exact Hin]]).
  pose proof (mp2w_range fields p F P). lia.
Qed.

Lemma mp2w_skel_inj fields f idx f' idx' i : fields_ok fields ->
  particle_ok fields (f, idx) -> particle_ok fields (f', idx') ->
  mp2w_skel Z.add Z.add (-1) fields f idx i = mp2w_skel Z.add Z.add (-1) fields f' idx' i ->
  f = f' /\ idx = idx'.
Proof.
  revert i; induction fields as [|[f0 n0] fs IH]; intros i F P P' E; [destruct P as [? [[] _]]|].
  assert (Fok : fields_ok fs).
  { destruct F as [ND Hn]. split; [inversion ND; assumption|]. intros g n H'. apply (Hn g). right. exact H'. }
  assert (Tail : forall g j, particle_ok ((f0, n0) :: fs) (g, j) -> g <> f0 -> particle_ok fs (g, j)).
  { intros g j [n [[X|X] B]] Hne; cbn [fst snd] in *; [injection X as -> _; congruence|exists n; split; assumption]. }
  assert (Head : forall j, particle_ok ((f0, n0) :: fs) (f0, j) -> 0 <= j < n0).
  { intros j [n [[X|X] B]]; cbn [fst snd] in *; [injection X as <-; exact B|].
    exfalso. destruct F as [ND _]. inversion ND as [|? ? Hnot _]; subst. apply Hnot.
    apply (in_map fst) in X. exact X. }
  cbn [mp2w_skel] in E.
  destruct (Z.eqb_spec f f0) as [->|Hne]; destruct (Z.eqb_spec f' f0) as [->|Hne'].
  - split; [reflexivity|lia].
  - pose proof (Head idx P). pose proof (mp2w_skel_range fs f' idx' (i + n0) Fok (Tail _ _ P' Hne')). lia.
  - pose proof (Head idx' P'). pose proof (mp2w_skel_range fs f idx (i + n0) Fok (Tail _ _ P Hne)). lia.
  - apply (IH (i + n0)); auto.
Qed.
Lemma mp2w_inj fields p p' : fields_ok fields -> particle_ok fields p -> particle_ok fields p' ->
  mp2w fields p = mp2w fields p' -> p = p'.
Proof.
  intros F P P' E. destruct p as [f idx], p' as [f' idx']. unfold mp2w in E. cbn [fst snd] in E.
  destruct (mp2w_skel_inj fields f idx f' idx' 0 F P P' E) as [-> ->]. reflexivity.
Qed.

(** wires of a list of distinct particles *)
Definition wires_of (fields : list (Z * Z)) (prtcl : list (Z * Z)) : list nat :=
  map (fun p => Z.to_nat (mp2w fields p)) prtcl.

Lemma wires_of_ok fields prtcl : fields_ok fields -> NoDup prtcl -> Forall (particle_ok fields) prtcl ->
  wires_ok (Z.to_nat (fsum fields)) (wires_of fields prtcl) /\ zw (wires_of fields prtcl) = map (mp2w fields) prtcl.
Proof.
  intros F ND A. rewrite Forall_forall in A. split; [split|].
  - unfold wires_of. apply NoDup_map_inj_in; [|exact ND]. intros p p' Hp Hp' E.
    pose proof (mp2w_range fields p F (A p Hp)). pose proof (mp2w_range fields p' F (A p' Hp')).
    apply (mp2w_inj fields); auto. lia.
  - intros w Hw. unfold wires_of in Hw. apply in_map_iff in Hw. destruct Hw as [p [<- Hp]].
    pose proof (mp2w_range fields p F (A p Hp)). lia.
  - unfold zw, wires_of. rewrite map_map. apply map_ext_in. intros p Hp.
    pose proof (mp2w_range fields p F (A p Hp)). lia.
Qed.

(** the port accepts a canonical CSR on distinct in-range wires *)
Lemma zlist_eqb_refl l : zlist_eqb l l = true.
Proof. induction l as [|x l IH]; cbn; [reflexivity|]. rewrite Z.eqb_refl, IH. reflexivity. Qed.

Definition csr_canonical {V} (m : nat) (g : csr V) : Prop :=
  c_nrows g = 2 ^ Z.of_nat m /\
  flat_map (fun j => zrange (znth (c_indptr g) j) (znth (c_indptr g) (j + 1))) (zrange 0 (2 ^ Z.of_nat m))
  = zrange 0 (c_nnz g).

Lemma distribute_total {V} (d : V) nw ws g : wires_ok nw ws -> csr_canonical (length ws) g ->
  exists T, distribute d (Z.of_nat nw) (zw ws) g = Some T.
Proof.
  intros W [En Ec]. apply distribute_accepts; [exact W|rewrite zlen_zw; exact En|].
  unfold base_block, csr_loop. rewrite map_flat_map, zlen_zw.
  replace (flat_map _ _) with (zrange 0 (c_nnz g)); [rewrite zlist_eqb_refl; eexists; reflexivity|].
  rewrite <- Ec. apply flat_map_ext. intros j. rewrite map_map. cbn [fst]. symmetry. apply map_id.
Qed.

Section Acm.
  Context {K : Scalar} {L : ScalarLaws K}.

  (** Gate.as_circuit_matrix: the register-level matrix of a gate bound to distinct particles is its own
      matrix on the wires of its particles (first listed particle = most significant gate index; wires
      numbered field by field in the order of the field list) tensored with the identity elsewhere *)
  Theorem as_circuit_matrix_entry fields prtcl (g : csr K) T :
    fields_ok fields -> NoDup prtcl -> Forall (particle_ok fields) prtcl ->
    csr_cols_ok (length prtcl) g ->
    as_circuit_matrix 0%K fields prtcl g = AcmOk T ->
    let nw := Z.to_nat (fsum fields) in
    forall r c, length r = nw -> length c = nw ->
      triples_entry T r c = embed nw (wires_of fields prtcl) (csr_entry g) r c.
  Proof.
    intros F ND A Cok H nw r c Hr Hc. unfold as_circuit_matrix in H.
    destruct (existsb _ _); [discriminate|].
    destruct (wires_of_ok fields prtcl F ND A) as [W Ez].
    fold (fsum fields) in H.
    assert (Fs : 0 <= fsum fields).
    { destruct F as [_ Hn]. clear -Hn. induction fields as [|[f n] fs IH]; [unfold fsum; cbn; lia|].
      rewrite fsum_cons. assert (0 <= n) by (apply (Hn f); left; reflexivity).
      assert (0 <= fsum fs) by (apply IH; intros f' n' H'; apply (Hn f'); right; exact H'). lia. }
    rewrite <- Ez in H. replace (fsum fields) with (Z.of_nat nw) in H by (unfold nw; lia).
    destruct (distribute _ _ _ _) as [T'|] eqn:ED; [|discriminate]. injection H as <-.
    apply (distribute_entry nw (wires_of fields prtcl) g T'); auto.
    unfold wires_of. rewrite map_length. exact Cok.
  Qed.
End Acm.

(* ------------------------------------------------------------------ no two triples share (row, col) *)
Lemma NoDup_flat_map {A B} (f : A -> list B) l :
  NoDup l -> (forall x, In x l -> NoDup (f x)) ->
  (forall x y b, In x l -> In y l -> In b (f x) -> In b (f y) -> x = y) ->
  NoDup (flat_map f l).
Proof.
  induction l as [|x l IH]; intros ND Hf Hd; [constructor|].
  inversion ND as [|? ? Hn ND']; subst. cbn [flat_map]. apply NoDup_app_intro.
  - apply Hf. left. reflexivity.
  - apply IH; [exact ND'|intros; apply Hf; right; assumption|].
    intros y z b Hy Hz. apply Hd; right; assumption.
  - intros b Hb Hb'. apply in_flat_map in Hb'. destruct Hb' as [y [Hy Hby]].
    assert (x = y) by (apply (Hd x y b); [left; reflexivity|right; exact Hy|exact Hb|exact Hby]).
    subst. contradiction.
Qed.
Lemma NoDup_map_inj_on {A B} (f : A -> B) l x y : NoDup (map f l) -> In x l -> In y l -> f x = f y -> x = y.
Proof.
  induction l as [|a l IH]; intros ND Hx Hy E; [destruct Hx|].
  cbn in ND. inversion ND as [|? ? Hn ND']; subst.
  destruct Hx as [->|Hx]; destruct Hy as [->|Hy]; auto.
  - exfalso. apply Hn. rewrite E. apply in_map. exact Hy.
  - exfalso. apply Hn. rewrite <- E. apply in_map. exact Hx.
Qed.

(** every scattered (row, replica) pair is a register index, and determines the pair *)
Lemma scatter_pair_inj nw ws j k j' k' : wires_ok nw ws ->
  0 <= j < 2 ^ Z.of_nat (length ws) -> 0 <= k < 2 ^ Z.of_nat (length (compl nw ws)) ->
  0 <= j' < 2 ^ Z.of_nat (length ws) -> 0 <= k' < 2 ^ Z.of_nat (length (compl nw ws)) ->
  rowf nw ws j + koff nw ws k = rowf nw ws j' + koff nw ws k' -> j = j' /\ k = k'.
Proof.
  intros W Hj Hk Hj' Hk' E.
  pose proof (compl_length nw ws W) as El. pose proof (wire_order_perm nw ws W) as P.
  set (a := zbits (length ws) j'). set (b := zbits (length (compl nw ws)) k').
  set (r := gather (invperm (wire_order nw ws)) (a ++ b)).
  assert (Lr : length r = nw).
  { unfold r. rewrite gather_length, invperm_length. destruct P as [_ [Hl _]]. exact Hl. }
  assert (Lab : length (a ++ b) = nw) by (rewrite app_length; unfold a, b; rewrite !zbits_length; lia).
  assert (G : gather (wire_order nw ws) r = a ++ b) by (apply (gather_invperm_r nw); assumption).
  unfold wire_order in G. rewrite gather_app in G.
  apply app_eq_len in G; [|rewrite gather_length; unfold a; rewrite zbits_length; reflexivity].
  destruct G as [Ga Gb].
  assert (E' : (rowf nw ws j' + koff nw ws k' =? b2z r) = true).
  { rewrite (scatter_eqb nw ws j' k' r W Hj' Hk' Lr). rewrite Ga, Gb. unfold a, b.
    rewrite !b2z_zbits by assumption. rewrite !Z.eqb_refl. reflexivity. }
  assert (E'' : (rowf nw ws j + koff nw ws k =? b2z r) = true) by (rewrite E; exact E').
  rewrite (scatter_eqb nw ws j k r W Hj Hk Lr) in E''. apply andb_true_iff in E''.
  rewrite (scatter_eqb nw ws j' k' r W Hj' Hk' Lr) in E'. apply andb_true_iff in E'.
  destruct E' as [A1 A2]. destruct E'' as [B1 B2].
  apply Z.eqb_eq in A1, A2, B1, B2. split; congruence.
Qed.

Section NoDupKeys.
  Context {K : Scalar} {L : ScalarLaws K}.

  Definition keys (t : list (triple K)) : list (Z * Z) := map (fun x => (fst (fst x), snd (fst x))) t.
  (** column indices within each CSR row are distinct (scipy: canonical format) *)
  Definition csr_rows_nodup (m : nat) (g : csr K) : Prop :=
    forall j, 0 <= j < 2 ^ Z.of_nat m ->
      NoDup (map (znth (c_indices g)) (zrange (znth (c_indptr g) j) (znth (c_indptr g) (j + 1)))).

  Theorem distribute_keys_nodup nw ws (g : csr K) T :
    wires_ok nw ws -> csr_cols_ok (length ws) g -> csr_rows_nodup (length ws) g ->
    distribute 0%K (Z.of_nat nw) (zw ws) g = Some T -> NoDup (keys T).
  Proof.
    intros W Cok Rok HT.
    destruct (distribute_inv 0%K nw ws g T W HT) as [En [base [EB ->]]].
    pose proof (compl_length nw ws W) as El.
    assert (Em : zlen (zw ws) = Z.of_nat (length ws)) by apply zlen_zw.
    assert (EK : Z.of_nat nw - zlen (zw ws) = Z.of_nat (length (compl nw ws))) by (rewrite Em; lia).
    assert (ET : base ++ flat_map (fun k => shift_block (koff nw ws k) base) (zrange 1 (2 ^ (Z.of_nat nw - zlen (zw ws))))
                 = flat_map (fun k => shift_block (koff nw ws k) base) (zrange 0 (2 ^ Z.of_nat (length (compl nw ws))))).
    { rewrite (zrange_cons 0) by lia. cbn [flat_map]. rewrite koff_0, shift_block_0, EK. reflexivity. }
    rewrite ET. clear ET.
    unfold base_block in EB. destruct (zlist_eqb _ _); [|discriminate]. injection EB as <-.
    unfold keys, shift_block, csr_loop. rewrite Em.
    rewrite map_flat_map.
    apply NoDup_flat_map; [apply zrange_NoDup| |].
    - intros k Hk. apply in_zrange in Hk. rewrite !map_map. rewrite !map_flat_map.
      apply NoDup_flat_map; [apply zrange_NoDup| |].
      + intros j Hj. apply in_zrange in Hj. rewrite !map_map. cbn [fst snd].
        apply NoDup_map_inj_in; [|apply zrange_NoDup].
        intros i i' Hi Hi' E. injection E as E.
        assert (X : znth (c_indices g) i = znth (c_indices g) i').
        { apply (scatter_pair_inj nw ws _ k _ k W); try assumption;
            [apply (Cok j i Hj Hi)|apply (Cok j i' Hj Hi')]. }
        apply (NoDup_map_inj_on (znth (c_indices g)) _ i i' (Rok j Hj) Hi Hi' X).
      + intros j j' b Hj Hj' Hb Hb'. apply in_zrange in Hj, Hj'.
        rewrite !map_map in Hb, Hb'. cbn [fst snd] in Hb, Hb'.
        apply in_map_iff in Hb, Hb'. destruct Hb as [i [<- Hi]]. destruct Hb' as [i' [E Hi']].
        injection E as E1 _.
        apply (scatter_pair_inj nw ws j' k j k W) in E1; try assumption. destruct E1 as [-> _]. reflexivity.
    - intros k k' b Hk Hk' Hb Hb'. apply in_zrange in Hk, Hk'.
      rewrite !map_map, !map_flat_map in Hb, Hb'.
      apply in_flat_map in Hb, Hb'. destruct Hb as [j [Hj Hb]]. destruct Hb' as [j' [Hj' Hb']].
      apply in_zrange in Hj, Hj'.
      rewrite !map_map in Hb, Hb'. cbn [fst snd] in Hb, Hb'.
      apply in_map_iff in Hb, Hb'. destruct Hb as [i [<- Hi]]. destruct Hb' as [i' [E Hi']].
      injection E as E1 _.
      apply (scatter_pair_inj nw ws j' k' j k W) in E1; try assumption. destruct E1 as [_ ->]. reflexivity.
  Qed.
End NoDupKeys.

(* ------------------------------------------------------------------ the complement-size assert *)
(** the code's first assert (len(iwire) + len(iwcompl) == nwires) holds exactly for distinct
    wires inside the register *)
Lemma filter_length_split {A} (f : A -> bool) l :
  (length (filter f l) + length (filter (fun x => negb (f x)) l) = length l)%nat.
Proof. induction l as [|x l IH]; cbn; [reflexivity|]. destruct (f x); cbn; lia. Qed.

Lemma complement_assert_iff (nwires : Z) (iwire : list Z) : 0 <= nwires ->
  (zlen iwire + zlen (py_range_minus nwires iwire) = nwires
   <-> NoDup iwire /\ forall w, In w iwire -> 0 <= w < nwires).
Proof.
  intros Hn. unfold py_range_minus, zlen.
  set (inl := fun w => existsb (Z.eqb w) iwire).
  assert (Hin : forall w, inl w = true <-> In w iwire).
  { intros w. unfold inl. rewrite existsb_exists. split.
    - intros [x [Hx E]]. apply Z.eqb_eq in E. subst. exact Hx.
    - intros H. exists w. split; [exact H|apply Z.eqb_refl]. }
  pose proof (filter_length_split inl (zrange 0 nwires)) as S. unfold inl in S at 2. cbv beta in S.
  assert (Lr : length (zrange 0 nwires) = Z.to_nat nwires).
  { unfold zrange. rewrite map_length, seq_length. f_equal. lia. }
  set (F := filter inl (zrange 0 nwires)) in *.
  assert (NF : NoDup F) by (apply NoDup_filter, zrange_NoDup).
  assert (IF : incl F iwire).
  { intros w Hw. apply filter_In in Hw. apply Hin. tauto. }
  split.
  - intros E.
    assert (Le : length iwire = length F) by lia.
    assert (I2 : incl iwire F).
    { apply NoDup_length_incl; [exact NF|lia|exact IF]. }
    split.
    + apply (@NoDup_incl_NoDup Z F iwire NF); [lia|exact IF].
    + intros w Hw. apply I2 in Hw. apply filter_In in Hw. apply in_zrange. tauto.
  - intros [ND Hb].
    assert (I2 : incl iwire F).
    { intros w Hw. apply filter_In. split; [apply in_zrange, Hb, Hw|apply Hin, Hw]. }
    assert (Le : length iwire = length F).
    { apply Nat.le_antisymm; [apply (@NoDup_incl_length Z iwire F ND I2)|apply (@NoDup_incl_length Z F iwire NF IF)]. }
    lia.
Qed.

(** for wires that are not distinct or not inside the register the code raises AssertionError *)
Lemma distribute_refuses {V} (d : V) nwires iwire g : 0 <= nwires ->
  ~ (NoDup iwire /\ forall w, In w iwire -> 0 <= w < nwires) -> distribute d nwires iwire g = None.
Proof.
  intros Hn H. unfold distribute, py_assert.
  destruct (Z.eqb_spec (zlen iwire + zlen (py_range_minus nwires iwire)) nwires) as [E|E]; [|reflexivity].
  exfalso. apply H. apply (complement_assert_iff nwires iwire Hn). exact E.
Qed.
