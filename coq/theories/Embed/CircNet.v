(** C05 (d),(e): Circuit.as_tensornet and TensorNetworkSimulator.run.
    Model of /repo/src/qib/circuit/circuit.py l.105-143 (identity-wire network; per gate: merge of
    the gate's network onto the output legs of its wires, re-transposition) and of
    /repo/src/qib/simulator/tensor_network_simulator.py (|0> leaves merged onto the input legs), on
    top of the network model Qib.TN (merge, transpose) and the circuit model Qib.Embed.CircModel.
    Theorems: the circuit network is consistent, has 2*nw open axes of dimension 2, its defining sum
    is the circuit matrix reshaped (outputs, then inputs); the simulator network's defining sum is
    column 0 of the circuit matrix.  Each gate enters through its network and the hypothesis that
    this network's value is the gate's matrix reshaped (proved for the gate classes in Qib.GateNet). *)
From Qib Require Export TN.TNMergeValue Embed.CircProofs.
From Coq Require Import Permutation.
Local Open Scope nat_scope.

(** bit -> index along an axis of dimension 2 *)
Definition b2d (b : bool) : nat := if b then 1 else 0.

(* ------------------------------------------------------------------ keyed sums over binary indices = sums over bit lists *)
Definition env_bits (a : nat) (b : bits) (j0 : nat -> nat) : nat -> nat :=
  fun r => if (a <=? r) && (r <? a + length b) then b2d (nth (r - a) b false) else j0 r.

Section KsumBits.
  Context {K : Scalar} {L : ScalarLaws K}.
  Local Open Scope K_scope.
  Add Ring KringCN0 : (s_ring K L).
  Notation ksumN := (ksum (K:=K) Nat.eqb).

  Lemma ksum_bits (F : (nat -> nat) -> K) : resp F -> forall k a j0,
    ksumN (map (fun r => (r, 2)) (seq a k)) F j0 = bsum k (fun b => F (env_bits a b j0)).
  Proof.
    intros RF. induction k as [|k IH]; intros a j0.
    - cbn [seq map ksum]. rewrite bsum_0. apply RF. intros r. unfold env_bits. cbn [length].
      destruct (Nat.leb_spec a r), (Nat.ltb_spec r (a + 0)); cbn [andb]; try reflexivity; lia.
    - cbn [seq map ksum]. rewrite !lsum_cons, lsum_nil, bsum_S, !IH.
      assert (E : forall x b r, env_bits (Datatypes.S a) b (upd Nat.eqb j0 a (b2d x)) r = env_bits a (x :: b) j0 r).
      { intros x b r. unfold env_bits, upd. cbn [length].
        destruct (Nat.leb_spec (Datatypes.S a) r), (Nat.ltb_spec r (Datatypes.S a + length b)),
                 (Nat.leb_spec a r), (Nat.ltb_spec r (a + Datatypes.S (length b))); cbn [andb]; try lia.
        - replace (r - a)%nat with (Datatypes.S (r - Datatypes.S a))%nat by lia. reflexivity.
        - destruct (Nat.eqb_spec r a); [lia | reflexivity].
        - destruct (Nat.eqb_spec r a); [|lia]. subst. rewrite Nat.sub_diag. reflexivity.
        - destruct (Nat.eqb_spec r a); [lia | reflexivity]. }
      transitivity (bsum k (fun b => F (env_bits a (false :: b) j0)) + bsum k (fun b => F (env_bits a (true :: b) j0))); [|reflexivity].
      rewrite (bsum_ext k (fun b => F (env_bits (Datatypes.S a) b (upd Nat.eqb j0 a 0))) (fun b => F (env_bits a (false :: b) j0)))
        by (intros b _; apply RF; intros r; apply (E false)).
      rewrite (bsum_ext k (fun b => F (env_bits (Datatypes.S a) b (upd Nat.eqb j0 a 1))) (fun b => F (env_bits a (true :: b) j0)))
        by (intros b _; apply RF; intros r; apply (E true)).
      ring.
  Qed.
End KsumBits.

(* ------------------------------------------------------------------ the model *)
Definition zseqn (n : nat) : list Z := map Z.of_nat (seq 0 n).

(** stn.add_tensor(SymbolicTensor(-1, 2*wiredims, 2*list(range(nwires)), None)); stn.generate_bonds()
    for qubit wires: every wire is one bond carrying the output leg i and the input leg nw+i *)
Definition id_net (nw : nat) : net :=
  mkN [(VT, mkT VT (repeat 2 (2 * nw)) (zseqn nw ++ zseqn nw) (-1)%Z)]
      (map (fun i => (Z.of_nat i, mkB (Z.of_nat i) [VT; VT])) (seq 0 nw)).

(** a gate as Circuit.as_tensornet sees it: its network (gate.as_tensornet().net), the wires of its
    particles (iwire), and the iteration orders of the two Python sets of shared ids inside merge *)
Record ngate := mkNG { ng_net : net; ng_wires : list nat; ng_ordT : list Z; ng_ordB : list Z }.

(** perm = list(range(2*nwires)); for i in iwire: perm.remove(i); perm += iwire   (None = ValueError) *)
Definition gate_perm (nw : nat) (ws : list nat) : option (list nat) :=
  option_map (fun l => l ++ ws) (ofold (fun l i => nremove1 i l) ws (seq 0 (2 * nw))).

(** one iteration of the loop over the gates; np.argsort of a permutation is its inverse *)
Definition gate_step (nw : nat) (net0 : net) (g : ngate) : option net :=
  let ws := ng_wires g in
  let k := length ws in
  match num_open_axes (ng_net g) with
  | None => None
  | Some a =>
      if negb (Nat.eqb a (2 * k)) then None            (* assert gate_net.num_open_axes == 2*len(prtcl) *)
      else match merge net0 (ng_net g) (combine ws (seq k k)) (ng_ordT g) (ng_ordB g) with
           | None => None
           | Some m =>
               match gate_perm nw ws with
               | None => None
               | Some perm => transpose m (map Z.of_nat (invperm perm))
               end
           end
  end.

Definition circuit_net (nw : nat) (gs : list ngate) : option net := ofold (gate_step nw) gs (id_net nw).

(* ------------------------------------------------------------------ small facts *)
Lemma nth_error_repeat {A} (x : A) n i : i < n -> nth_error (repeat x n) i = Some x.
Proof. revert i. induction n as [|n IH]; intros [|i] H; cbn; try lia; [reflexivity | apply IH; lia]. Qed.
Lemma nth_repeat_lt {A} (x d : A) n i : i < n -> nth i (repeat x n) d = x.
Proof. intros H. apply nth_error_nth. apply nth_error_repeat. exact H. Qed.
Lemma zcount_nodup x l : NoDup l -> In x l -> zcount x l = 1.
Proof.
  induction 1 as [|y l Hy ND IH]; [intros []|]. intros [->|Hin]; rewrite zcount_cons.
  - rewrite Z.eqb_refl. assert (E : zcount x l = 0) by (apply zcount_0; exact Hy). rewrite E. reflexivity.
  - destruct (Z.eqb_spec x y); [subst; contradiction|]. rewrite (IH Hin). reflexivity.
Qed.
Lemma zseqn_nodup n : NoDup (zseqn n).
Proof. unfold zseqn. apply FinFun.Injective_map_NoDup; [intros a b E; lia | apply seq_NoDup]. Qed.
Lemma zseqn_length n : length (zseqn n) = n.
Proof. unfold zseqn. rewrite map_length, seq_length. reflexivity. Qed.
Lemma zseqn_nth n i : i < n -> nth_error (zseqn n) i = Some (Z.of_nat i).
Proof. intros H. unfold zseqn. rewrite nth_error_map, (nth_error_nth' _ 0) by (rewrite seq_length; exact H). rewrite seq_nth by exact H. reflexivity. Qed.
Lemma id_bonds_keys nw : dkeys (bonds (id_net nw)) = zseqn nw.
Proof. unfold id_net, dkeys, zseqn. cbn [bonds]. rewrite map_map. reflexivity. Qed.
Lemma id_bonds_get nw kb : dget kb (bonds (id_net nw)) = if zmem kb (zseqn nw) then Some (mkB kb [VT; VT]) else None.
Proof.
  destruct (zmem kb (zseqn nw)) eqn:E.
  - apply zmem_In in E. apply In_dget; [rewrite id_bonds_keys; apply zseqn_nodup|].
    unfold zseqn in E. apply in_map_iff in E. destruct E as [i [<- Hi]]. unfold id_net. cbn [bonds].
    apply in_map_iff. exists i. auto.
  - apply dget_None. rewrite id_bonds_keys. apply zmem_false. exact E.
Qed.

Theorem id_net_WF nw : WF (id_net nw).
Proof.
  split; [|left; reflexivity].
  assert (Lb : length (zseqn nw ++ zseqn nw) = 2 * nw) by (rewrite app_length, zseqn_length; lia).
  constructor.
  - cbn. constructor; [intros []|constructor].
  - rewrite id_bonds_keys. apply zseqn_nodup.
  - intros k t [E|[]]. injection E as <- <-. cbn [t_id t_shape t_bids]. split; [reflexivity|]. rewrite repeat_length, Lb. reflexivity.
  - intros k b Hin. unfold id_net in Hin. cbn [bonds] in Hin. apply in_map_iff in Hin. destruct Hin as [i [E _]].
    injection E as <- <-. cbn. split; [reflexivity | lia].
  - intros k kb. unfold cntT, cntB. rewrite id_bonds_get. cbn [tensors id_net dget].
    destruct (Z.eqb_spec k VT) as [->|Hk].
    + cbn [t_bids]. rewrite zcount_app. destruct (zmem kb (zseqn nw)) eqn:E.
      * apply zmem_In in E. rewrite (zcount_nodup kb _ (zseqn_nodup nw) E). reflexivity.
      * apply zmem_false in E. apply zcount_0 in E. rewrite E. reflexivity.
    + destruct (zmem kb (zseqn nw)); [|reflexivity]. cbn [b_tids]. rewrite !zcount_cons, zcount_nil.
      destruct (Z.eqb_spec k VT); [contradiction | reflexivity].
  - intros kb. exists 2. intros k t ax [E|[]] Hn. injection E as <- <-. cbn [t_bids t_shape] in *.
    apply nth_error_repeat. assert (ax < length (zseqn nw ++ zseqn nw)) by (apply nth_error_Some; congruence). lia.
Qed.

Lemma id_net_vshape nw : vshape (id_net nw) = repeat 2 (2 * nw).
Proof. reflexivity. Qed.

Section IdValue.
  Context {K : Scalar} {L : ScalarLaws K}.
  Local Open Scope K_scope.
  Add Ring KringCN1 : (s_ring K L).

  Lemma b2d_lt b : (b2d b < 2)%nat. Proof. destruct b; cbn; lia. Qed.
  Lemma b2d_inj a b : b2d a = b2d b -> a = b. Proof. destruct a, b; cbn; congruence. Qed.

  (** open legs that read given bits: the product of deltas is the Kronecker delta of the bit lists *)
  Lemma deltas_bits (c r : bits) : forall (vbl : list Z) (s : Z -> nat),
    length c = length r -> length vbl = length r ->
    (forall i, (i < length r)%nat -> s (nth i vbl 0%Z) = b2d (nth i r false)) ->
    deltas (K:=K) (map b2d c) vbl s = if beq c r then 1 else 0.
  Proof.
    revert r. induction c as [|c0 c IH]; intros [|r0 r] [|v vbl] s Lc Lv Hs; cbn in Lc, Lv; try discriminate.
    - reflexivity.
    - cbn [map deltas beq]. pose proof (Hs O ltac:(cbn; lia)) as H0. cbn [nth] in H0. rewrite H0.
      rewrite (IH r vbl s) by (try lia; intros i Hi; apply (Hs (Datatypes.S i)); cbn; lia).
      unfold delta. destruct c0, r0; cbn; destruct (beq c r); ring.
  Qed.

  Theorem id_net_value nw (data : Z -> list nat -> K) (ro ci : bits) :
    length ro = nw -> length ci = nw ->
    defining_sum (id_net nw) data (map b2d (ro ++ ci)) = mid ro ci.
  Proof.
    intros Lr Lc. pose proof (id_net_WF nw) as [W0 _].
    set (vb := zseqn nw ++ zseqn nw). set (x := map b2d (ro ++ ci)).
    assert (Lx : length x = length vb).
    { unfold x, vb. rewrite map_length, !app_length, !zseqn_length. lia. }
    unfold defining_sum. change (real_tensors (id_net nw)) with (@nil tensor). change (vbids (id_net nw)) with vb.
    rewrite bond_kd_kdB, id_bonds_keys.
    assert (Hsub : forall b, In b vb -> In b (zseqn nw)) by (intros b Hb; apply in_app_or in Hb; tauto).
    assert (Hrng : forall k b, nth_error vb k = Some b -> (nth k x O < bond_dim (id_net nw) b)%nat).
    { intros k b Hk.
      assert (Hd : bond_dim (id_net nw) b = 2%nat).
      { pose proof (bond_dim_spec (id_net nw) VT _ k b W0 (or_introl eq_refl) Hk) as Sp. cbn [t_shape] in Sp.
        rewrite nth_error_repeat in Sp; [congruence|].
        assert (k < length vb)%nat by (apply nth_error_Some; congruence).
        unfold vb in H. rewrite app_length, zseqn_length in H. lia. }
      rewrite Hd.
      assert (Hk' : (k < length x)%nat) by (rewrite Lx; apply nth_error_Some; congruence).
      unfold x in Hk' |- *. rewrite (nth_indep _ O (b2d false)) by exact Hk'. rewrite map_nth. apply b2d_lt. }
    cbn [map]. rewrite lprod_nil.
    rewrite (open_elim (zseqn nw) (bond_dim (id_net nw)) vb x (zseqn_nodup nw) Hsub Lx Hrng (fun _ => 1) (fun _ => O))
      by (intros e e' _; reflexivity).
    assert (ECB : CB (zseqn nw) vb = []).
    { unfold CB. apply filter_all_false. intros b Hb. apply negb_false_iff, zmem_In. unfold vb. apply in_or_app. left. exact Hb. }
    rewrite ECB. cbn [kdB map ksum]. rewrite kmul_1_r.
    unfold x, vb. rewrite map_app, deltas_app by (rewrite map_length, zseqn_length; exact Lr).
    assert (Hxv : forall i, (i < nw)%nat -> xv (zseqn nw ++ zseqn nw) (map b2d ro ++ map b2d ci) (Z.of_nat i) = b2d (nth i ro false)).
    { intros i Hi. unfold xv.
      destruct (zindex_first (Z.of_nat i) (zseqn nw ++ zseqn nw) i) as [q [Hq Hle]].
      { rewrite nth_error_app1 by (rewrite zseqn_length; exact Hi). apply zseqn_nth. exact Hi. }
      rewrite Hq. apply zindex_sound in Hq. destruct Hq as [Hq _].
      rewrite nth_error_app1 in Hq by (rewrite zseqn_length; lia). rewrite zseqn_nth in Hq by lia.
      injection Hq as Hq. apply Nat2Z.inj in Hq. subst q.
      rewrite app_nth1 by (rewrite map_length; lia).
      rewrite (nth_indep _ O (b2d false)) by (rewrite map_length; lia). apply map_nth. }
    assert (Hnth : forall i, (i < nw)%nat -> nth i (zseqn nw) 0%Z = Z.of_nat i).
    { intros i Hi. apply nth_error_nth. apply zseqn_nth. exact Hi. }
    rewrite (deltas_bits ro ro (zseqn nw)), (deltas_bits ci ro (zseqn nw)).
    - rewrite beq_refl, kmul_1_l. unfold mid. rewrite beq_sym. reflexivity.
    - congruence.
    - rewrite zseqn_length. congruence.
    - intros i Hi. rewrite Hnth by lia. apply Hxv. lia.
    - reflexivity.
    - rewrite zseqn_length. congruence.
    - intros i Hi. rewrite Hnth by lia. apply Hxv. lia.
  Qed.
End IdValue.

(* ------------------------------------------------------------------ list facts for the gate step *)
Lemma nremove1_filter x l : NoDup l -> In x l -> nremove1 x l = Some (filter (fun y => negb (Nat.eqb y x)) l).
Proof.
  intros ND Hin. pose proof (rm1_filter x l ND) as E. unfold rm1 in E. destruct (nremove1 x l) as [l'|] eqn:R; [congruence|].
  exfalso. clear E ND. induction l as [|z l IH]; [destruct Hin|]. cbn in R. destruct (Nat.eqb_spec z x); [discriminate|].
  destruct (nremove1 x l); [discriminate|]. destruct Hin as [Hin|Hin]; [congruence | auto].
Qed.
Lemma ofold_nremove ws : forall l, NoDup l -> NoDup ws -> (forall w, In w ws -> In w l) ->
  ofold (fun l i => nremove1 i l) ws l = Some (filter (fun i => negb (mem_nat i ws)) l).
Proof.
  induction ws as [|w ws IH]; intros l ND NDw Sub; cbn [ofold].
  - f_equal. symmetry. apply filter_all_true. reflexivity.
  - inversion NDw as [|? ? Hw NDw']; subst.
    rewrite (nremove1_filter w l ND (Sub w (or_introl eq_refl))).
    rewrite IH; [|apply NoDup_filter; exact ND | exact NDw'|].
    + f_equal. rewrite filter_filter. apply filter_ext. intros i. cbn [mem_nat existsb]. fold (mem_nat i ws).
      destruct (Nat.eqb i w); reflexivity.
    + intros w' Hw'. apply filter_In. split; [apply Sub; right; exact Hw'|].
      apply negb_true_iff, Nat.eqb_neq. intros ->. contradiction.
Qed.
Lemma gate_perm_spec nw ws : wires_ok (2 * nw) ws -> gate_perm nw ws = Some (compl (2 * nw) ws ++ ws).
Proof.
  intros [ND Hlt]. unfold gate_perm. rewrite (ofold_nremove ws (seq 0 (2 * nw)) (seq_NoDup _ _) ND).
  - reflexivity.
  - intros w Hw. apply in_seq. specialize (Hlt w Hw). lia.
Qed.
Lemma gate_perm_is_perm N ws : wires_ok N ws -> is_perm N (compl N ws ++ ws).
Proof.
  intros W. pose proof W as [ND Hb]. split; [|split].
  - apply EmbedProofs.NoDup_app_intro; [apply NoDup_filter, seq_NoDup | exact ND|].
    intros x Hc Hx. apply in_compl in Hc. tauto.
  - rewrite app_length. pose proof (compl_length N ws W). lia.
  - intros x Hx. apply in_app_or in Hx. destruct Hx as [H|H]; [apply in_compl in H; tauto | apply Hb, H].
Qed.

Lemma combine_map_fst {A B} (a : list A) (b : list B) : length a = length b -> map fst (combine a b) = a.
Proof. revert b. induction a as [|x a IH]; intros [|y b] H; cbn in *; try discriminate; [reflexivity|]. f_equal. apply IH. lia. Qed.
Lemma combine_map_snd {A B} (a : list A) (b : list B) : length a = length b -> map snd (combine a b) = b.
Proof. revert b. induction a as [|x a IH]; intros [|y b] H; cbn in *; try discriminate; [reflexivity|]. f_equal. apply IH. lia. Qed.

Lemma join_axes_spec N (joins : list (nat * nat)) i :
  In i (join_axes N joins) <-> In i (map fst joins) \/ exists b, In b (map snd joins) /\ i = N + b.
Proof.
  unfold join_axes. rewrite in_flat_map. split.
  - intros [j [Hj [E|[E|[]]]]]; [left; subst; apply in_map; exact Hj | right; exists (snd j); split; [apply in_map; exact Hj | auto]].
  - intros [H|[b [H E]]]; apply in_map_iff in H; destruct H as [j [Ej Hj]]; exists j; (split; [exact Hj|]); [left; exact Ej | right; left; subst; reflexivity].
Qed.

(** the open axes that survive the merge of a gate on wires ws: the other axes of the circuit
    network in order, then the gate's k output axes *)
Lemma gate_kept_axes N ws k : length ws = k -> (forall w, In w ws -> w < N) ->
  kept_axes N (combine ws (seq k k)) (N + (2 * k)) = compl N ws ++ seq N k.
Proof.
  intros Lw Hlt. unfold kept_axes.
  assert (F : map fst (combine ws (seq k k)) = ws) by (apply combine_map_fst; rewrite seq_length; exact Lw).
  assert (S : map snd (combine ws (seq k k)) = seq k k) by (apply combine_map_snd; rewrite seq_length; exact Lw).
  replace (N + 2 * k) with (N + (k + k)) by lia. rewrite seq_app, seq_app, !filter_app. cbn [Nat.add].
  f_equal; [|rewrite <- app_nil_r; f_equal].
  - unfold compl. apply filter_ext_in. intros i Hi. apply in_seq in Hi. f_equal.
    change (mem_nat i ws) with (nmem i ws).
    destruct (nmem i ws) eqn:E.
    + apply nmem_In. apply join_axes_spec. left. rewrite F. apply nmem_In. exact E.
    + apply nmem_false. rewrite join_axes_spec, F, S. intros [H|[b [Hb Eq]]]; [apply nmem_false in E; contradiction | lia].
  - apply filter_all_true. intros i Hi. apply in_seq in Hi. apply negb_true_iff, nmem_false.
    rewrite join_axes_spec, F, S. intros [H|[b [Hb Eq]]]; [specialize (Hlt i H); lia | apply in_seq in Hb; lia].
  - apply filter_all_false. intros i Hi. apply in_seq in Hi. apply negb_false_iff, nmem_In.
    rewrite join_axes_spec, S. right. exists (i - N). split; [apply in_seq; lia | lia].
Qed.

Lemma map_const_repeat {A B} (c : B) (f : A -> B) l : (forall x, In x l -> f x = c) -> map f l = repeat c (length l).
Proof. induction l as [|x l IH]; intros H; [reflexivity|]. cbn. rewrite (H x (or_introl eq_refl)), IH; [reflexivity|]. intros; apply H; right; assumption. Qed.

Lemma nindex_index_of x l : In x l -> nindex x l = Some (index_of x l).
Proof.
  induction l as [|y l IH]; [intros []|]. intros H. cbn. rewrite (Nat.eqb_sym x y).
  destruct (Nat.eqb_spec y x); [reflexivity|]. destruct H as [H|H]; [contradiction|]. rewrite (IH H). reflexivity.
Qed.

Lemma env_of_nth keep y p : NoDup keep -> p < length keep -> env_of keep y (nth p keep 0) = nth p y 0.
Proof.
  intros ND Hp. unfold env_of. rewrite (nindex_nth keep p (nth p keep 0) ND); [reflexivity|].
  apply nth_error_nth'. exact Hp.
Qed.

Lemma nth_map_b2d l p : nth p (map b2d l) 0 = b2d (nth p l false).
Proof. change 0 with (b2d false). apply map_nth. Qed.

(* ------------------------------------------------------------------ left multiplication by an embedded gate, entrywise *)
(** the register index that carries the bits b on the wires ws and the bits of r elsewhere *)
Definition scatter (nw : nat) (ws : list nat) (b r : bits) : bits :=
  map (fun ax => if mem_nat ax ws then nth (index_of ax ws) b false else nth ax r false) (seq 0 nw).

Section EmbedEntry.
  Context {K : Scalar} {L : ScalarLaws K}.
  Local Open Scope K_scope.
  Add Ring KringCN2 : (s_ring K L).

  Lemma scatter_length nw ws b r : length (scatter nw ws b r) = nw.
  Proof. unfold scatter. rewrite map_length, seq_length. reflexivity. Qed.

  Lemma unwire_scatter nw ws (b r : bits) : wires_ok nw ws -> length b = length ws -> length r = nw ->
    gather (invperm (wire_order nw ws)) (b ++ gather (compl nw ws) r) = scatter nw ws b r.
  Proof.
    intros W Lb Lr. pose proof (wire_order_perm nw ws W) as P. pose proof P as [_ [Lwo _]].
    apply (nth_ext _ _ false false).
    - rewrite gather_length, invperm_length, scatter_length. exact Lwo.
    - intros ax Hax. rewrite gather_length, invperm_length, Lwo in Hax.
      rewrite nth_gather by (rewrite invperm_length, Lwo; exact Hax).
      rewrite nth_invperm by (rewrite Lwo; exact Hax).
      unfold scatter. rewrite nth_map_seq by exact Hax. unfold wire_order.
      destruct (mem_nat ax ws) eqn:E.
      + apply mem_nat_In in E. rewrite index_of_app_l by exact E.
        apply app_nth1. rewrite Lb. apply index_of_lt. exact E.
      + assert (Hn : ~ In ax ws) by (intros H; apply mem_nat_In in H; congruence).
        assert (Hc : In ax (compl nw ws)) by (apply in_compl; auto).
        rewrite index_of_app_r by exact Hn. rewrite app_nth2 by lia.
        replace (length ws + index_of ax (compl nw ws) - length b)%nat with (index_of ax (compl nw ws)) by lia.
        rewrite nth_gather by (apply index_of_lt; exact Hc). rewrite nth_index_of by exact Hc. reflexivity.
  Qed.

  (** (E(g) M)[ro, ci] = sum over the bits b of the gate's input index of G[ro on ws, b] * M[ro with b on ws, ci] *)
  Lemma embed_mmul_entry nw ws (G M : BMx K) (ro ci : bits) : wires_ok nw ws -> length ro = nw ->
    mmul nw (embed nw ws G) M ro ci
    = bsum (length ws) (fun b => G (gather ws ro) b * M (scatter nw ws b ro) ci).
  Proof.
    intros W Lr. pose proof (wire_order_bij nw ws W) as Hb. pose proof (compl_length nw ws W) as Hl.
    set (k := length ws) in *. set (cp := compl nw ws) in *.
    set (tau := gather (invperm (wire_order nw ws))).
    unfold mmul.
    rewrite <- (bsum_reindex nw tau (gather (wire_order nw ws)) _ (bij_on_sym _ _ _ Hb)). cbv beta.
    match goal with |- bsum nw ?F = _ => set (F0 := F) end.
    transitivity (bsum (k + length cp) F0); [rewrite Hl; reflexivity|].
    rewrite bsum_add. unfold F0. apply bsum_ext. intros b Lb.
    transitivity (bsum (length cp) (fun t => (if beq (gather cp ro) t then 1 else 0) * (G (gather ws ro) b * M (tau (b ++ t)) ci))).
    - apply bsum_ext. intros t Lt.
      assert (Lq : length (b ++ t) = nw) by (rewrite app_length; lia).
      destruct Hb as [_ Hb2]. destruct (Hb2 (b ++ t) Lq) as [_ Eq]. fold tau in Eq.
      unfold wire_order in Eq. rewrite gather_app in Eq. fold cp in Eq.
      assert (E1 : gather ws (tau (b ++ t)) = b /\ gather cp (tau (b ++ t)) = t).
      {
        assert (Ll : length (gather ws (tau (b ++ t))) = length b) by (rewrite gather_length; fold k; lia).
        clear - Eq Ll. revert Eq Ll. generalize (gather ws (tau (b ++ t))) (gather cp (tau (b ++ t))).
        intros l1 l2. revert l1. induction b as [|x b IH]; intros [|y l1] Eq Ll; cbn in *; try discriminate; [auto|].
        injection Eq as -> Eq. destruct (IH l1 Eq ltac:(lia)) as [-> ->]. auto. }
      destruct E1 as [E1 E2]. unfold embed. fold cp. rewrite E1, E2. ring.
    - rewrite bsum_delta_l by apply gather_length.
      unfold tau, cp. rewrite unwire_scatter; [reflexivity | exact W | exact Lb | exact Lr].
  Qed.
End EmbedEntry.

(* ------------------------------------------------------------------ one gate *)
Section GateStep.
  Context {K : Scalar} {L : ScalarLaws K}.
  Local Open Scope K_scope.
  Add Ring KringCN3 : (s_ring K L).
  Notation ksumN := (ksum (K:=K) Nat.eqb).

  (** "the network [n] on [w] wires has the value [M] reshaped": consistent, 2w open axes of
      dimension 2, defining sum at (output bits, input bits) = M[output, input] *)
  Definition net_is_matrix (data : Z -> list nat -> K) (w : nat) (n : net) (M : BMx K) : Prop :=
    WF n /\ vshape n = repeat 2 (2 * w) /\
    forall ro ci : bits, length ro = w -> length ci = w -> defining_sum n data (map b2d (ro ++ ci)) = M ro ci.

  Lemma nat_axes_of_nat n t (l : list nat) : dget VT (tensors n) = Some t -> nat_axes n (map Z.of_nat l) = l.
  Proof.
    intros H. unfold nat_axes. rewrite H. unfold norm_axes. rewrite !map_map. rewrite <- (map_id l) at 2.
    apply map_ext. intros a. destruct (Z.ltb_spec (Z.of_nat a) 0); [lia|]. apply Nat2Z.id.
  Qed.

  Theorem gate_step_value nw net0 (g : ngate) net' data (M G : BMx K) :
    net_is_matrix data nw net0 M -> wires_ok nw (ng_wires g) ->
    net_is_matrix data (length (ng_wires g)) (ng_net g) G ->
    gate_step nw net0 g = Some net' ->
    net_is_matrix data nw net' (mmul nw (embed nw (ng_wires g) G) M).
  Proof.
    intros [W0 [S0 V0]] Wws [Wg [Sg Vg]] H.
    set (ws := ng_wires g) in *. set (k := length ws) in *. set (N := (2 * nw)%nat) in *.
    destruct Wws as [NDws Hws].
    assert (WwsN : wires_ok N ws) by (split; [exact NDws | intros w Hw; specialize (Hws w Hw); unfold N; lia]).
    unfold gate_step in H. fold ws k in H.
    destruct (num_open_axes (ng_net g)) as [a|]; [|discriminate].
    destruct (negb (a =? 2 * k)%nat); [discriminate|].
    destruct (merge net0 (ng_net g) (combine ws (seq k k)) (ng_ordT g) (ng_ordB g)) as [m|] eqn:Hm; [|discriminate].
    rewrite (gate_perm_spec nw ws WwsN) in H. fold N in H.
    set (C := compl N ws) in *. set (perm := C ++ ws) in *. set (ip := invperm perm) in *.
    pose proof (gate_perm_is_perm N ws WwsN) as Pperm. fold C perm in Pperm.
    pose proof Pperm as [NDperm [Lperm Hperm]].
    pose proof (is_perm_invperm N perm Pperm) as Pip. fold ip in Pip. pose proof Pip as [NDip [Lip Hip]].
    assert (LC : (length C + k = N)%nat) by (pose proof (compl_length N ws WwsN); fold C k in H0; lia).
    (* the merge *)
    set (joins := combine ws (seq k k)) in *.
    assert (Fj : map fst joins = ws) by (apply combine_map_fst; rewrite seq_length; reflexivity).
    assert (Sj : map snd joins = seq k k) by (apply combine_map_snd; rewrite seq_length; reflexivity).
    assert (Lj : length joins = k) by (rewrite <- (map_length fst), Fj; reflexivity).
    pose proof (merge_WF net0 (ng_net g) joins _ _ m W0 Wg Hm) as Wm.
    destruct (merge_value net0 (ng_net g) joins _ _ m data [] W0 Wg Hm) as [Sm _]. cbv zeta in Sm.
    rewrite S0, Sg, !repeat_length in Sm. fold N in Sm.
    assert (Ekeep : kept_axes N joins (N + 2 * k) = C ++ seq N k).
    { apply gate_kept_axes; [reflexivity|]. intros w Hw. apply (proj2 WwsN). exact Hw. }
    rewrite Ekeep in Sm.
    assert (Lkeep : length (C ++ seq N k) = N) by (rewrite app_length, seq_length; exact LC).
    assert (NDkeep : NoDup (C ++ seq N k)).
    { rewrite <- Ekeep. apply NoDup_filter, seq_NoDup. }
    assert (Smm : vshape m = repeat 2%nat N).
    { transitivity (repeat 2%nat (length (C ++ seq N k))); [|rewrite Lkeep; reflexivity].
      rewrite Sm. apply map_const_repeat. intros i Hi. rewrite <- repeat_app. apply nth_repeat_lt.
      apply in_app_or in Hi. destruct Hi as [Hi|Hi]; [apply in_compl in Hi; lia | apply in_seq in Hi; lia]. }
    (* the transposition *)
    pose proof (sstep_WF m (STrans (map Z.of_nat ip)) net' Wm I H) as W'.
    destruct (transpose_spec m _ net' H) as [t [Ht [_ [_ En']]]].
    rewrite (nat_axes_of_nat m t ip Ht) in En'.
    assert (Stm : t_shape t = repeat 2%nat N) by (unfold vshape in Smm; rewrite Ht in Smm; exact Smm).
    assert (S' : vshape net' = repeat 2%nat N).
    { rewrite En'. unfold vshape. cbn [tensors]. rewrite dget_dset, Z.eqb_refl. cbn [transposed t_shape].
      transitivity (repeat 2%nat (length ip)); [|rewrite Lip; reflexivity].
      rewrite Stm. apply map_const_repeat. intros i Hi. apply nth_repeat_lt. apply Hip. exact Hi. }
    split; [exact W'|]. split; [exact S'|].
    intros ro ci Lro Lci.
    set (x := map b2d (ro ++ ci)).
    assert (Lx : length x = N) by (unfold x; rewrite map_length, app_length; unfold N; lia).
    rewrite (transpose_value m _ net' data x Wm H) by (rewrite map_length, Lip; exact Lx).
    rewrite (nat_axes_of_nat m t ip Ht).
    (* y: position p of the merged network reads x at perm[p] *)
    assert (Ey : untranspose ip x = map (fun p => nth (nth p perm O) x O) (seq 0 N)).
    { unfold untranspose. rewrite Lip. apply map_ext_in. intros p Hp. apply in_seq in Hp. f_equal.
      unfold idx_n. rewrite (nindex_nth ip (nth p perm O) p NDip); [reflexivity|].
      assert (Hpp : (nth p perm O < N)%nat) by (apply Hperm, nth_In; lia).
      rewrite (nth_error_nth' ip O) by lia. f_equal. unfold ip. rewrite nth_invperm by lia.
      apply index_of_nth; [exact NDperm | lia]. }
    set (y := untranspose ip x) in *.
    assert (Ly : length y = length (kept_axes (length (vshape net0)) joins (length (vshape net0) + length (vshape (ng_net g))))).
    { rewrite S0, Sg, !repeat_length. fold N. rewrite Ekeep, Lkeep, Ey, map_length, seq_length. reflexivity. }
    rewrite (merge_value_injective_joins net0 (ng_net g) joins _ _ m data y W0 Wg Hm
               ltac:(rewrite Fj; exact NDws) ltac:(rewrite Sj; apply seq_NoDup) Ly).
    rewrite S0, Sg, !repeat_length. fold N. rewrite Ekeep, Fj, Lj.
    set (e0 := env_of (C ++ seq N k) y).
    (* what the kept axes read *)
    assert (He0 : forall p, (p < N)%nat -> e0 (nth p (C ++ seq N k) O) = nth (nth p perm O) x O).
    { intros p Hp. unfold e0. rewrite env_of_nth by (auto; lia). rewrite Ey.
      rewrite (nth_map_seq (fun q => nth (nth q perm O) x O) N p O Hp). reflexivity. }
    assert (HeC : forall ax, (ax < N)%nat -> ~ In ax ws -> e0 ax = nth ax x O).
    { intros ax Hax Hn. assert (Hc : In ax C) by (apply in_compl; auto).
      destruct (In_nth C ax O Hc) as [p [Hp Ep]].
      specialize (He0 p ltac:(lia)). unfold perm in He0. rewrite !app_nth1 in He0 by exact Hp. rewrite Ep in He0. exact He0. }
    assert (HeG : forall r, (r < k)%nat -> e0 (N + r)%nat = nth (nth r ws O) x O).
    { intros r Hr. specialize (He0 (length C + r)%nat ltac:(lia)). unfold perm in He0.
      rewrite !app_nth2 in He0 by lia. replace (length C + r - length C)%nat with r in He0 by lia.
      rewrite seq_nth in He0 by exact Hr. exact He0. }
    (* binary indices *)
    transitivity (ksumN (map (fun r => (r, 2%nat)) (seq 0 k))
                    (fun j => defining_sum net0 data (dot_idx1 N joins e0 j) * defining_sum (ng_net g) data (dot_idx2 N (2 * k) joins e0 j))
                    (fun _ => O)).
    { f_equal. apply map_ext_in. intros r Hr. apply in_seq in Hr. f_equal. apply nth_repeat_lt.
      apply (proj2 WwsN). apply nth_In. fold k. lia. }
    rewrite ksum_bits.
    2:{ intros j j' Hj. unfold dot_idx1, dot_idx2. f_equal; f_equal; apply map_ext; intros ax;
        [destruct (nindex ax (map fst joins)) | destruct (nindex ax (map snd joins))]; auto. }
    rewrite (embed_mmul_entry nw ws G M ro ci (conj NDws Hws) Lro). fold k.
    apply bsum_ext. intros b Lb.
    assert (Hj : forall r, (r < k)%nat -> env_bits 0 b (fun _ => O) r = b2d (nth r b false)).
    { intros r Hr. unfold env_bits. cbn [Nat.leb andb Nat.add]. rewrite Lb.
      destruct (Nat.ltb_spec r k); [|lia]. rewrite Nat.sub_0_r. reflexivity. }
    set (j := env_bits 0 b (fun _ => O)) in *.
    assert (E1 : dot_idx1 N joins e0 j = map b2d (scatter nw ws b ro ++ ci)).
    { unfold dot_idx1. rewrite Fj. apply (nth_ext _ _ O O).
      - rewrite !map_length, seq_length, app_length, scatter_length. unfold N. lia.
      - intros p Hp. rewrite map_length, seq_length in Hp. rewrite nth_map_seq by exact Hp. rewrite nth_map_b2d.
        destruct (Nat.lt_ge_cases p nw) as [Hlt|Hge].
        + rewrite app_nth1 by (rewrite scatter_length; exact Hlt). unfold scatter. rewrite nth_map_seq by exact Hlt.
          destruct (mem_nat p ws) eqn:E.
          * apply mem_nat_In in E. rewrite (nindex_index_of p ws E). apply Hj. apply index_of_lt. exact E.
          * assert (Hn : ~ In p ws) by (intros Hi; apply mem_nat_In in Hi; congruence).
            rewrite (proj2 (nindex_None p ws) Hn). rewrite (HeC p Hp Hn). unfold x. rewrite nth_map_b2d.
            rewrite app_nth1 by lia. reflexivity.
        + assert (Hn : ~ In p ws) by (intros Hi; specialize (Hws p Hi); lia).
          rewrite (proj2 (nindex_None p ws) Hn). rewrite (HeC p Hp Hn). unfold x. rewrite nth_map_b2d.
          rewrite !app_nth2 by (rewrite ?scatter_length; lia). rewrite scatter_length, Lro. reflexivity. }
    assert (E2 : dot_idx2 N (2 * k) joins e0 j = map b2d (gather ws ro ++ b)).
    { unfold dot_idx2. rewrite Sj. apply (nth_ext _ _ O O).
      - rewrite !map_length, seq_length, app_length, gather_length. fold k. lia.
      - intros p Hp. rewrite map_length, seq_length in Hp. rewrite nth_map_seq by exact Hp. rewrite nth_map_b2d.
        destruct (Nat.lt_ge_cases p k) as [Hlt|Hge].
        + rewrite (proj2 (nindex_None p (seq k k))) by (rewrite in_seq; lia).
          rewrite (HeG p Hlt). unfold x. rewrite nth_map_b2d.
          assert (Hw : (nth p ws O < nw)%nat) by (apply Hws, nth_In; exact Hlt).
          rewrite app_nth1 by lia. rewrite app_nth1 by (rewrite gather_length; exact Hlt).
          rewrite nth_gather by exact Hlt. reflexivity.
        + rewrite (nindex_nth (seq k k) (p - k) p (seq_NoDup _ _)).
          2:{ rewrite (nth_error_nth' _ O) by (rewrite seq_length; lia). rewrite seq_nth by lia. f_equal. lia. }
          rewrite Hj by lia. rewrite app_nth2 by (rewrite gather_length; exact Hge). rewrite gather_length. reflexivity. }
    rewrite E1, E2.
    rewrite (V0 _ ci (scatter_length nw ws b ro) Lci), (Vg _ b (gather_length ws ro) Lb). ring.
  Qed.
End GateStep.

(* ------------------------------------------------------------------ the whole circuit *)
Section CircuitNet.
  Context {K : Scalar} {L : ScalarLaws K}.
  Local Open Scope K_scope.
  Add Ring KringCN4 : (s_ring K L).
  Notation ksumN := (ksum (K:=K) Nat.eqb).

  (** every gate sits on distinct wires of the register and its own network has the value of its
      matrix (Qib.GateNet proves this for the gate classes; PrepareGate is the known exception) *)
  Definition gates_sem (data : Z -> list nat -> K) (nw : nat) (gs : list (ngate * BMx K)) : Prop :=
    Forall (fun p => wires_ok nw (ng_wires (fst p)) /\
                     net_is_matrix data (length (ng_wires (fst p))) (ng_net (fst p)) (snd p)) gs.
  Definition circuit_of (gs : list (ngate * BMx K)) : circuit K :=
    map (fun p => {| g_mat := snd p; g_wires := ng_wires (fst p) |}) gs.

  Theorem id_net_is_matrix (data : Z -> list nat -> K) nw : net_is_matrix data nw (id_net nw) mid.
  Proof.
    split; [apply id_net_WF|]. split; [apply id_net_vshape|]. intros ro ci Lr Lc. apply id_net_value; assumption.
  Qed.

  Lemma circuit_fold (data : Z -> list nat -> K) nw (gs : list (ngate * BMx K)) : forall net0 M net',
    net_is_matrix data nw net0 M -> gates_sem data nw gs ->
    ofold (gate_step nw) (map fst gs) net0 = Some net' ->
    net_is_matrix data nw net' (fold_left (cm_step nw) (circuit_of gs) M).
  Proof.
    induction gs as [|[g G] gs IH]; intros net0 M net' H0 Hs H.
    - cbn in H. injection H as <-. exact H0.
    - cbn [map fst ofold] in H. destruct (gate_step nw net0 g) as [net1|] eqn:St; [|discriminate].
      inversion Hs as [|? ? [Hw Hg] Hs']; subst. cbn [fst snd] in Hw, Hg.
      cbn [circuit_of map fold_left]. apply (IH net1 _ net'); [|exact Hs' | exact H].
      unfold cm_step, E. cbn [g_wires g_mat fst snd].
      exact (gate_step_value nw net0 g net1 data M G H0 Hw Hg St).
  Qed.

  (** C05 (d): the circuit's tensor network is consistent, has 2*nw open axes of dimension 2 and its
      value is the circuit matrix reshaped to (outputs, inputs) *)
  Theorem circuit_net_is_matrix (data : Z -> list nat -> K) nw (gs : list (ngate * BMx K)) net' :
    gates_sem data nw gs -> circuit_net nw (map fst gs) = Some net' ->
    net_is_matrix data nw net' (cmat nw (circuit_of gs)).
  Proof. intros Hs H. exact (circuit_fold data nw gs (id_net nw) mid net' (id_net_is_matrix data nw) Hs H). Qed.
End CircuitNet.

(* ------------------------------------------------------------------ the tensor-network simulator *)
(** init_net of TensorNetworkSimulator.run for qubit wires: one vector tensor i (dataref "|0>_2",
    here the integer [ref]) per wire with its leg on bond i, the virtual tensor last, bonds (-1, i) *)
Definition init_net (nw : nat) (ref : Z) : net :=
  mkN (map (fun i => (Z.of_nat i, mkT (Z.of_nat i) [2] [Z.of_nat i] ref)) (seq 0 nw)
       ++ [(VT, mkT VT (repeat 2 nw) (zseqn nw) (-1)%Z)])
      (map (fun i => (Z.of_nat i, mkB (Z.of_nat i) [VT; Z.of_nat i])) (seq 0 nw)).

(** net.merge(init_net, [(len(local_dims) + i, i) for i in range(len(local_dims))]) *)
Definition simulator_net (nw : nat) (cnet : net) (ref : Z) (ordT ordB : list Z) : option net :=
  merge cnet (init_net nw ref) (combine (seq nw nw) (seq 0 nw)) ordT ordB.

Lemma VT_notin_zseqn n : ~ In VT (zseqn n).
Proof. unfold zseqn, VT. intros H. apply in_map_iff in H. destruct H as [i [E _]]. lia. Qed.

Lemma init_tensor_keys nw ref : dkeys (tensors (init_net nw ref)) = zseqn nw ++ [VT].
Proof. unfold init_net, dkeys, zseqn. cbn [tensors]. rewrite map_app, map_map. reflexivity. Qed.
Lemma init_bond_keys nw ref : dkeys (bonds (init_net nw ref)) = zseqn nw.
Proof. unfold init_net, dkeys, zseqn. cbn [bonds]. rewrite map_map. reflexivity. Qed.
Lemma init_tensor_nodup nw ref : NoDup (dkeys (tensors (init_net nw ref))).
Proof. rewrite init_tensor_keys. apply NoDup_snoc; [apply zseqn_nodup | apply VT_notin_zseqn]. Qed.

Lemma init_tensor_in nw ref k t : In (k, t) (tensors (init_net nw ref)) <->
  (In k (zseqn nw) /\ t = mkT k [2] [k] ref) \/ (k = VT /\ t = mkT VT (repeat 2 nw) (zseqn nw) (-1)%Z).
Proof.
  unfold init_net. cbn [tensors]. rewrite in_app_iff, in_map_iff. cbn [In]. split.
  - intros [[i [E Hi]]|[E|[]]]; [left | right]; injection E as <- <-; [|auto].
    split; [apply in_map; exact Hi | reflexivity].
  - intros [[Hk ->]|[-> ->]]; [left | right; left; reflexivity].
    unfold zseqn in Hk. apply in_map_iff in Hk. destruct Hk as [i [<- Hi]]. exists i. auto.
Qed.
Lemma init_tensor_get nw ref k : dget k (tensors (init_net nw ref)) =
  if zmem k (zseqn nw) then Some (mkT k [2] [k] ref)
  else if Z.eqb k VT then Some (mkT VT (repeat 2 nw) (zseqn nw) (-1)%Z) else None.
Proof.
  destruct (zmem k (zseqn nw)) eqn:E.
  - apply zmem_In in E. apply In_dget; [apply init_tensor_nodup|]. apply init_tensor_in. left. auto.
  - destruct (Z.eqb_spec k VT) as [->|Hk].
    + apply In_dget; [apply init_tensor_nodup|]. apply init_tensor_in. right. auto.
    + apply dget_None. rewrite init_tensor_keys, in_app_iff. apply zmem_false in E. cbn. intuition congruence.
Qed.
Lemma init_bond_get nw ref kb : dget kb (bonds (init_net nw ref)) = if zmem kb (zseqn nw) then Some (mkB kb [VT; kb]) else None.
Proof.
  destruct (zmem kb (zseqn nw)) eqn:E.
  - apply zmem_In in E. apply In_dget; [rewrite init_bond_keys; apply zseqn_nodup|].
    unfold zseqn in E. apply in_map_iff in E. destruct E as [i [<- Hi]]. unfold init_net. cbn [bonds].
    apply in_map_iff. exists i. auto.
  - apply dget_None. rewrite init_bond_keys. apply zmem_false. exact E.
Qed.

Theorem init_net_WF nw ref : WF (init_net nw ref).
Proof.
  split; [|rewrite init_tensor_keys; apply in_or_app; right; left; reflexivity].
  constructor.
  - apply init_tensor_nodup.
  - rewrite init_bond_keys. apply zseqn_nodup.
  - intros k t Hin. apply init_tensor_in in Hin. destruct Hin as [[_ ->]|[-> ->]]; cbn [t_id t_shape t_bids].
    + auto.
    + split; [reflexivity|]. rewrite repeat_length, zseqn_length. reflexivity.
  - intros k b Hin. unfold init_net in Hin. cbn [bonds] in Hin. apply in_map_iff in Hin. destruct Hin as [i [E _]].
    injection E as <- <-. cbn. split; [reflexivity | lia].
  - intros k kb. unfold cntT, cntB. rewrite init_tensor_get, init_bond_get.
    destruct (zmem k (zseqn nw)) eqn:Ek; destruct (zmem kb (zseqn nw)) eqn:Ekb; cbn [t_bids b_tids].
    + rewrite !zcount_cons, !zcount_nil. apply zmem_In in Ek.
      destruct (Z.eqb_spec k VT) as [->|_]; [exfalso; eapply VT_notin_zseqn; eauto|].
      rewrite (Z.eqb_sym kb k). reflexivity.
    + rewrite zcount_cons, zcount_nil. apply zmem_In in Ek. apply zmem_false in Ekb.
      destruct (Z.eqb_spec kb k); [subst; contradiction | reflexivity].
    + rewrite !zcount_cons, zcount_nil. apply zmem_false in Ek. apply zmem_In in Ekb.
      destruct (Z.eqb_spec k VT) as [->|Hk].
      * cbn [t_bids]. rewrite (zcount_nodup kb _ (zseqn_nodup nw) Ekb).
        destruct (Z.eqb_spec VT kb); [subst; exfalso; eapply VT_notin_zseqn; eauto | reflexivity].
      * destruct (Z.eqb_spec k kb); [subst; contradiction | reflexivity].
    + apply zmem_false in Ekb. destruct (Z.eqb k VT); [|reflexivity]. cbn [t_bids]. apply zcount_0. exact Ekb.
  - intros kb. exists 2. intros k t ax Hin Hn. apply init_tensor_in in Hin.
    destruct Hin as [[_ ->]|[-> ->]]; cbn [t_bids t_shape] in *.
    + destruct ax as [|[|ax]]; cbn in *; congruence.
    + apply nth_error_repeat. rewrite <- (zseqn_length nw). apply nth_error_Some. congruence.
Qed.

Section Simulator.
  Context {K : Scalar} {L : ScalarLaws K}.
  Local Open Scope K_scope.
  Add Ring KringCN5 : (s_ring K L).
  Notation ksumN := (ksum (K:=K) Nat.eqb).

  (** the entry "|0>_2" of the data dictionary: ket0 = zeros(2); ket0[0] = 1 *)
  Definition is_ket0 (data : Z -> list nat -> K) (ref : Z) : Prop :=
    forall v, data ref [v] = if Nat.eqb v 0 then 1 else 0.

  Lemma prod_ket0 (z : bits) :
    lprod (map (fun b => if Nat.eqb (b2d b) 0 then 1 else 0 : K) z) = if beq z (repeat false (length z)) then 1 else 0.
  Proof.
    induction z as [|b z IH]; [reflexivity|]. cbn [map length repeat beq]. rewrite lprod_cons, IH.
    destruct b; cbn; [ring|]. destruct (beq z (repeat false (length z))); ring.
  Qed.

  Lemma init_real_tensors nw ref :
    real_tensors (init_net nw ref) = map (fun i => mkT (Z.of_nat i) [2%nat] [Z.of_nat i] ref) (seq 0 nw).
  Proof.
    unfold real_tensors, init_net. cbn [tensors]. rewrite filter_app. cbn [filter]. unfold is_real at 2. cbn [fst].
    rewrite Z.eqb_refl. cbn [negb]. rewrite app_nil_r.
    rewrite filter_all_true; [rewrite map_map; reflexivity|].
    intros [k t] Hin. apply in_map_iff in Hin. destruct Hin as [i [E _]]. injection E as <- _. unfold is_real. cbn [fst].
    apply negb_true_iff, Z.eqb_neq. unfold VT. lia.
  Qed.

  Theorem init_net_value nw ref (data : Z -> list nat -> K) (z : bits) : is_ket0 data ref -> length z = nw ->
    defining_sum (init_net nw ref) data (map b2d z) = if beq z (zeros nw) then 1 else 0.
  Proof.
    intros Hk Lz. pose proof (init_net_WF nw ref) as [W0 _].
    set (vb := zseqn nw). set (x := map b2d z).
    assert (Lx : length x = length vb) by (unfold x, vb; rewrite map_length, zseqn_length; exact Lz).
    assert (Hvb : vbids (init_net nw ref) = vb).
    { unfold vbids. rewrite init_tensor_get. rewrite (proj2 (zmem_false VT (zseqn nw)) (VT_notin_zseqn nw)). reflexivity. }
    unfold defining_sum. rewrite Hvb, bond_kd_kdB, init_bond_keys, init_real_tensors.
    assert (Hrng : forall k b, nth_error vb k = Some b -> (nth k x O < bond_dim (init_net nw ref) b)%nat).
    { intros k b Hkb.
      assert (Hvt : In (VT, mkT VT (repeat 2%nat nw) (zseqn nw) (-1)%Z) (tensors (init_net nw ref))) by (apply init_tensor_in; right; auto).
      pose proof (bond_dim_spec (init_net nw ref) VT _ k b W0 Hvt Hkb) as Sp. cbn [t_shape] in Sp.
      assert (Hk' : (k < nw)%nat) by (rewrite <- (zseqn_length nw); apply nth_error_Some; fold vb; congruence).
      rewrite nth_error_repeat in Sp by exact Hk'. injection Sp as <-. unfold x. rewrite nth_map_b2d. apply b2d_lt. }
    set (G := fun s : Z -> nat => lprod (map (fun t => data (t_ref t) (map s (t_bids t)))
                                       (map (fun i => mkT (Z.of_nat i) [2%nat] [Z.of_nat i] ref) (seq 0 nw)))).
    assert (RG : resp G).
    { intros e e' He. unfold G. apply lprod_map_ext. intros t _. f_equal. apply map_ext. intros; apply He. }
    match goal with |- _ = ?R =>
      change (ksum Z.eqb (kdB (bond_dim (init_net nw ref)) (zseqn nw)) (fun s => G s * deltas x vb s) (fun _ => O) = R) end.
    rewrite (open_elim (zseqn nw) (bond_dim (init_net nw ref)) vb x (zseqn_nodup nw) (fun b Hb => Hb) Lx Hrng G (fun _ => O) RG).
    assert (ECB : CB (zseqn nw) vb = []).
    { unfold CB. apply filter_all_false. intros b Hb. apply negb_false_iff, zmem_In. exact Hb. }
    rewrite ECB. cbn [kdB map ksum].
    assert (Hxv : forall i, (i < nw)%nat -> xv vb x (Z.of_nat i) = b2d (nth i z false)).
    { intros i Hi. unfold xv.
      destruct (zindex_first (Z.of_nat i) vb i (zseqn_nth nw i Hi)) as [q [Hq Hle]].
      rewrite Hq. apply zindex_sound in Hq. destruct Hq as [Hq _]. unfold vb in Hq.
      rewrite zseqn_nth in Hq by lia. injection Hq as Hq. apply Nat2Z.inj in Hq. subst q.
      unfold x. apply nth_map_b2d. }
    assert (Hnth : forall i, (i < nw)%nat -> nth i (zseqn nw) 0%Z = Z.of_nat i).
    { intros i Hi. apply nth_error_nth. apply zseqn_nth. exact Hi. }
    unfold x at 1. rewrite (deltas_bits z z vb).
    2:{ reflexivity. }
    2:{ unfold vb. rewrite zseqn_length. congruence. }
    2:{ intros i Hi. unfold vb. rewrite Hnth by lia. apply Hxv. lia. }
    rewrite beq_refl, kmul_1_l.
    unfold G. rewrite map_map. cbn [t_ref t_bids map].
    transitivity (lprod (map (fun b => if Nat.eqb (b2d b) 0 then 1 else 0 : K) z)).
    - rewrite <- (map_nth_seq z false). rewrite map_map, Lz. apply lprod_map_ext. intros i Hi. apply in_seq in Hi.
      rewrite Hk. rewrite (over_in Z.eqb zeqb_eq).
      + rewrite Hxv by lia. reflexivity.
      + rewrite kdB_keys. unfold OB. apply filter_In. split; [|apply zmem_In]; unfold vb, zseqn; apply in_map; apply in_seq; lia.
    - rewrite prod_ket0, Lz. reflexivity.
  Qed.

  (** C05 (e): the network the tensor-network simulator contracts has nw open axes of dimension 2 and
      its value is column 0 of the matrix the circuit network stands for *)
  Theorem simulator_net_value nw cnet (M : BMx K) ref ordT ordB snet (data : Z -> list nat -> K) :
    net_is_matrix data nw cnet M -> is_ket0 data ref ->
    simulator_net nw cnet ref ordT ordB = Some snet ->
    WF snet /\ vshape snet = repeat 2%nat nw /\
    forall ro : bits, length ro = nw -> defining_sum snet data (map b2d ro) = M ro (zeros nw).
  Proof.
    intros [Wc [Sc Vc]] Hk H. unfold simulator_net in H.
    pose proof (init_net_WF nw ref) as Wi.
    set (joins := combine (seq nw nw) (seq 0 nw)) in *.
    assert (Fj : map fst joins = seq nw nw) by (apply combine_map_fst; rewrite !seq_length; reflexivity).
    assert (Sj : map snd joins = seq 0 nw) by (apply combine_map_snd; rewrite !seq_length; reflexivity).
    assert (Lj : length joins = nw) by (rewrite <- (map_length fst), Fj, seq_length; reflexivity).
    assert (Si : vshape (init_net nw ref) = repeat 2%nat nw).
    { unfold vshape. rewrite init_tensor_get. rewrite (proj2 (zmem_false VT (zseqn nw)) (VT_notin_zseqn nw)). reflexivity. }
    assert (Ekeep : kept_axes (2 * nw) joins (2 * nw + nw) = seq 0 nw).
    { unfold kept_axes. replace (2 * nw + nw)%nat with (nw + (nw + nw))%nat by lia. rewrite seq_app, !filter_app. cbn [Nat.add].
      rewrite <- app_nil_r. f_equal.
      - apply filter_all_true. intros i Hi. apply in_seq in Hi. apply negb_true_iff, nmem_false.
        rewrite join_axes_spec, Fj, Sj. intros [Hin|[b [Hb E]]]; [apply in_seq in Hin; lia | lia].
      - apply filter_all_false. intros i Hi. apply in_seq in Hi. apply negb_false_iff, nmem_In.
        rewrite join_axes_spec, Fj, Sj. destruct (Nat.lt_ge_cases i (2 * nw)).
        + left. apply in_seq. lia.
        + right. exists (i - 2 * nw)%nat. split; [apply in_seq; lia | lia]. }
    split; [exact (merge_WF _ _ _ _ _ _ Wc Wi H)|].
    destruct (merge_value cnet (init_net nw ref) joins ordT ordB snet data [] Wc Wi H) as [Ss _]. cbv zeta in Ss.
    rewrite Sc, Si, !repeat_length, Ekeep in Ss.
    split.
    { transitivity (repeat 2%nat (length (seq 0 nw))); [|rewrite seq_length; reflexivity].
      rewrite Ss. apply map_const_repeat. intros i Hi. apply in_seq in Hi.
      rewrite <- repeat_app. apply nth_repeat_lt. lia. }
    intros ro Lro.
    assert (Ly : length (map b2d ro) = length (kept_axes (length (vshape cnet)) joins (length (vshape cnet) + length (vshape (init_net nw ref))))).
    { rewrite Sc, Si, !repeat_length, Ekeep, map_length, seq_length. exact Lro. }
    rewrite (merge_value_injective_joins cnet (init_net nw ref) joins ordT ordB snet data (map b2d ro) Wc Wi H
               ltac:(rewrite Fj; apply seq_NoDup) ltac:(rewrite Sj; apply seq_NoDup) Ly).
    rewrite Sc, Si, !repeat_length, Ekeep, Fj, Lj.
    set (e0 := env_of (seq 0 nw) (map b2d ro)).
    assert (He0 : forall ax, (ax < nw)%nat -> e0 ax = b2d (nth ax ro false)).
    { intros ax Hax. pose proof (env_of_nth (seq 0 nw) (map b2d ro) ax (seq_NoDup _ _)) as E.
      rewrite seq_length, seq_nth in E by exact Hax. cbn [Nat.add] in E. unfold e0. rewrite (E Hax). apply nth_map_b2d. }
    transitivity (ksumN (map (fun r => (r, 2%nat)) (seq 0 nw))
                    (fun j => defining_sum cnet data (dot_idx1 (2 * nw) joins e0 j)
                              * defining_sum (init_net nw ref) data (dot_idx2 (2 * nw) nw joins e0 j))
                    (fun _ => O)).
    { f_equal. apply map_ext_in. intros r Hr. apply in_seq in Hr. f_equal. apply nth_repeat_lt.
      rewrite seq_nth by lia. lia. }
    rewrite ksum_bits.
    2:{ intros j j' Hj. unfold dot_idx1, dot_idx2. f_equal; f_equal; apply map_ext; intros ax;
        [destruct (nindex ax (map fst joins)) | destruct (nindex ax (map snd joins))]; auto. }
    transitivity (bsum nw (fun b => M ro b * (if beq b (zeros nw) then 1 else 0))).
    2:{ apply (bsum_delta_r nw (zeros nw) (fun b => M ro b)). apply repeat_length. }
    apply bsum_ext. intros b Lb.
    assert (Hj : forall r, (r < nw)%nat -> env_bits 0 b (fun _ => O) r = b2d (nth r b false)).
    { intros r Hr. unfold env_bits. cbn [Nat.leb andb Nat.add]. rewrite Lb.
      destruct (Nat.ltb_spec r nw); [|lia]. rewrite Nat.sub_0_r. reflexivity. }
    set (j := env_bits 0 b (fun _ => O)) in *.
    assert (E1 : dot_idx1 (2 * nw) joins e0 j = map b2d (ro ++ b)).
    { unfold dot_idx1. rewrite Fj. apply (nth_ext _ _ O O).
      - rewrite !map_length, seq_length, app_length. lia.
      - intros p Hp. rewrite map_length, seq_length in Hp. rewrite nth_map_seq by exact Hp. rewrite nth_map_b2d.
        destruct (Nat.lt_ge_cases p nw) as [Hlt|Hge].
        + rewrite (proj2 (nindex_None p (seq nw nw))) by (rewrite in_seq; lia).
          rewrite (He0 p Hlt). rewrite app_nth1 by lia. reflexivity.
        + rewrite (nindex_nth (seq nw nw) (p - nw) p (seq_NoDup _ _)).
          2:{ rewrite (nth_error_nth' _ O) by (rewrite seq_length; lia). rewrite seq_nth by lia. f_equal. lia. }
          rewrite Hj by lia. rewrite app_nth2 by lia. rewrite Lro. reflexivity. }
    assert (E2 : dot_idx2 (2 * nw) nw joins e0 j = map b2d b).
    { unfold dot_idx2. rewrite Sj. apply (nth_ext _ _ O O).
      - rewrite !map_length, seq_length. lia.
      - intros p Hp. rewrite map_length, seq_length in Hp. rewrite nth_map_seq by exact Hp. rewrite nth_map_b2d.
        rewrite (nindex_nth (seq 0 nw) p p (seq_NoDup _ _)).
        2:{ rewrite (nth_error_nth' _ O) by (rewrite seq_length; lia). rewrite seq_nth by lia. reflexivity. }
        apply Hj. exact Hp. }
    rewrite E1, E2. rewrite (Vc ro b Lro Lb), (init_net_value nw ref data b Hk Lb). reflexivity.
  Qed.
End Simulator.

(* ------------------------------------------------------------------ what the library's contraction returns *)
Section Contracted.
  Context {K : Scalar} {L : ScalarLaws K}.
  Local Open Scope K_scope.

  Lemma WF_shape_vshape n : WF n -> shape n = Some (vshape n).
  Proof. intros [_ HV]. unfold shape, vshape. destruct (In_key_dget _ _ HV) as [t ->]. reflexivity. Qed.

  Lemma bits_in_range (z : bits) m : length z = m -> in_range (repeat 2 m) (map b2d z).
  Proof.
    intros Lz. split; [rewrite map_length, repeat_length; exact Lz|]. intros k d Hk.
    assert (k < m) by (rewrite <- (repeat_length 2 m); apply nth_error_Some; congruence).
    rewrite nth_error_repeat in Hk by assumption. injection Hk as <-. rewrite nth_map_b2d. apply b2d_lt.
  Qed.

  (** contract_einsum() + to_full_tensor on a network that stands for the matrix M *)
  Theorem einsum_of_matrix_net (data : Z -> list nat -> K) w n (M : BMx K) v am :
    net_is_matrix data w n M -> contract_einsum n data = Some (v, am) ->
    fst (to_full_tensor v am) = repeat 2 (2 * w) /\
    forall ro ci : bits, length ro = w -> length ci = w -> snd (to_full_tensor v am) (map b2d (ro ++ ci)) = M ro ci.
  Proof.
    intros [W [S V]] H. destruct (contract_einsum_correct n data v am W H) as [shp [Hs [Hf Hv]]].
    rewrite (WF_shape_vshape n W), S in Hs. injection Hs as <-. split; [exact Hf|].
    intros ro ci Lr Lc. rewrite Hv; [apply V; assumption|]. apply bits_in_range. rewrite app_length. lia.
  Qed.

  (** TensorNetworkSimulator.run: to_full_tensor applied to net.contract_einsum() of the merged network is the
      first column of the circuit matrix, i.e. what StatevectorSimulator.run computes *)
  Theorem tn_simulator_first_column (data : Z -> list nat -> K) nw (gs : list (ngate * BMx K)) cnet ref ordT ordB snet :
    gates_sem data nw gs -> circuit_net nw (map fst gs) = Some cnet -> is_ket0 data ref ->
    simulator_net nw cnet ref ordT ordB = Some snet ->
    WF snet /\ vshape snet = repeat 2 nw /\
    (forall ro : bits, length ro = nw ->
       defining_sum snet data (map b2d ro) = column0 nw (cmat nw (circuit_of gs)) ro /\
       defining_sum snet data (map b2d ro) = run_statevector nw (circuit_of gs) ro) /\
    (forall v am, contract_einsum snet data = Some (v, am) ->
       fst (to_full_tensor v am) = repeat 2 nw /\
       forall ro : bits, length ro = nw -> snd (to_full_tensor v am) (map b2d ro) = column0 nw (cmat nw (circuit_of gs)) ro).
  Proof.
    intros Hs Hc Hk Hm. pose proof (circuit_net_is_matrix data nw gs cnet Hs Hc) as NM.
    destruct (simulator_net_value nw cnet _ ref ordT ordB snet data NM Hk Hm) as [W [S V]].
    split; [exact W|]. split; [exact S|]. split.
    - intros ro Lr. split; [apply V; exact Lr|]. rewrite (run_statevector_column0 nw (circuit_of gs) ro Lr). apply V. exact Lr.
    - intros v am H. destruct (contract_einsum_correct snet data v am W H) as [shp [Hsh [Hf Hv]]].
      rewrite (WF_shape_vshape snet W), S in Hsh. injection Hsh as <-. split; [exact Hf|].
      intros ro Lr. rewrite Hv by (apply bits_in_range; exact Lr). apply V. exact Lr.
  Qed.
End Contracted.

(* ------------------------------------------------------------------ separate data dictionaries *)
(** The datarefs of a network are opaque keys of the data dictionary.  [retag rho n] re-keys them;
    its value under [data] is the value of n under [data o rho].  With this, gate networks that were
    each analysed under their own dictionary (Qib.GateNet uses the same small codes for every gate)
    are put under ONE dictionary, as TensorNetwork.merge does with the (distinct) dataref strings. *)
Definition retag_t (rho : Z -> Z) (t : tensor) : tensor := mkT (t_id t) (t_shape t) (t_bids t) (rho (t_ref t)).
Definition retag (rho : Z -> Z) (n : net) : net :=
  mkN (map (fun kt => (fst kt, retag_t rho (snd kt))) (tensors n)) (bonds n).

Lemma retag_keys rho n : dkeys (tensors (retag rho n)) = dkeys (tensors n).
Proof. unfold retag, dkeys. cbn [tensors]. rewrite map_map. reflexivity. Qed.
Lemma retag_get rho n k : dget k (tensors (retag rho n)) = option_map (retag_t rho) (dget k (tensors n)).
Proof.
  unfold retag. cbn [tensors]. rewrite (dget_map_val (fun kt => retag_t rho (snd kt))).
  destruct (dget k (tensors n)); reflexivity.
Qed.
Lemma retag_bond_dim rho n b : bond_dim (retag rho n) b = bond_dim n b.
Proof. unfold bond_dim, retag. cbn [tensors]. induction (tensors n) as [|[k t] T IH]; [reflexivity|]. cbn. rewrite IH. reflexivity. Qed.

Lemma retag_WF rho n : WF n -> WF (retag rho n).
Proof.
  intros [W HV]. split; [|rewrite retag_keys; exact HV]. constructor.
  - rewrite retag_keys. apply (wf_ndT n W).
  - apply (wf_ndB n W).
  - intros k t Hin. unfold retag in Hin. cbn [tensors] in Hin. apply in_map_iff in Hin.
    destruct Hin as [[k0 t0] [E Hin]]. injection E as <- <-. cbn [retag_t t_id t_shape t_bids]. apply (wf_T n W). exact Hin.
  - apply (wf_B n W).
  - intros k kb. transitivity (cntT n k kb); [|apply (wf_inc n W)].
    unfold cntT. rewrite retag_get. destruct (dget k (tensors n)); reflexivity.
  - intros kb. destruct (wf_dim n W kb) as [d Hd]. exists d. intros k t ax Hin Hn.
    unfold retag in Hin. cbn [tensors] in Hin. apply in_map_iff in Hin.
    destruct Hin as [[k0 t0] [E Hin]]. injection E as <- <-. cbn [retag_t t_bids t_shape] in *. eapply Hd; eauto.
Qed.

Section Retag.
  Context {K : Scalar} {L : ScalarLaws K}.
  Local Open Scope K_scope.

  Lemma retag_value rho n (data : Z -> list nat -> K) x :
    defining_sum (retag rho n) data x = defining_sum n (fun r => data (rho r)) x.
  Proof.
    unfold defining_sum.
    assert (Ekd : bond_kd (retag rho n) = bond_kd n).
    { unfold bond_kd. cbn [retag bonds]. apply map_ext. intros kb. rewrite retag_bond_dim. reflexivity. }
    assert (Evb : vbids (retag rho n) = vbids n).
    { unfold vbids. rewrite retag_get. destruct (dget VT (tensors n)); reflexivity. }
    rewrite Ekd, Evb. apply ksum_ext_all. intros s. f_equal.
    unfold retag. rewrite (real_tensors_map (retag_t rho) (tensors n) (bonds n)). rewrite map_map.
    destruct n; reflexivity.
  Qed.

  Lemma net_is_matrix_retag rho (data : Z -> list nat -> K) w n (M : BMx K) :
    net_is_matrix (fun r => data (rho r)) w n M -> net_is_matrix data w (retag rho n) M.
  Proof.
    intros [W [S V]]. split; [apply retag_WF; exact W|]. split.
    - unfold vshape. rewrite retag_get. unfold vshape in S. destruct (dget VT (tensors n)); exact S.
    - intros ro ci Lr Lc. rewrite retag_value. apply V; assumption.
  Qed.

  (** gate k of N gates gets the datarefs r*N + k; the common dictionary looks entry z up in the
      dictionary of gate (z mod N) at reference (z / N) *)
  Definition tag_of (N k : nat) (r : Z) : Z := (r * Z.of_nat N + Z.of_nat k)%Z.
  Definition common_data (datas : list (Z -> list nat -> K)) : Z -> list nat -> K :=
    fun z => nth (Z.to_nat (z mod Z.of_nat (length datas))) datas (fun _ _ => 0) (z / Z.of_nat (length datas))%Z.

  Lemma common_data_tag datas k r : (k < length datas)%nat ->
    common_data datas (tag_of (length datas) k r) = nth k datas (fun _ _ => 0) r.
  Proof.
    intros Hk. unfold common_data, tag_of. set (N := Z.of_nat (length datas)).
    assert (HN : (0 < N)%Z) by (unfold N; lia).
    assert (Hm : ((r * N + Z.of_nat k) mod N = Z.of_nat k)%Z).
    { rewrite Z.add_comm, Z.mod_add by lia. apply Z.mod_small. unfold N. lia. }
    assert (Hd : ((r * N + Z.of_nat k) / N = r)%Z).
    { rewrite Z.add_comm, Z.div_add by lia. rewrite Z.div_small by (unfold N; lia). lia. }
    rewrite Hm, Hd, Nat2Z.id. reflexivity.
  Qed.

  (** gates analysed one by one, each under its own dictionary, form a circuit under the common one *)
  Definition tagged_gates (specs : list (ngate * BMx K * (Z -> list nat -> K))) : list (ngate * BMx K) :=
    map (fun p => let '(k, (g, G, _)) := p in
                  (mkNG (retag (tag_of (length specs) k) (ng_net g)) (ng_wires g) (ng_ordT g) (ng_ordB g), G))
        (combine (seq 0 (length specs)) specs).

  Theorem gates_sem_tagged nw (specs : list (ngate * BMx K * (Z -> list nat -> K))) :
    Forall (fun s => let '(g, G, d) := s in
                     wires_ok nw (ng_wires g) /\ net_is_matrix d (length (ng_wires g)) (ng_net g) G) specs ->
    gates_sem (common_data (map snd specs)) nw (tagged_gates specs).
  Proof.
    intros H. unfold gates_sem, tagged_gates. apply Forall_forall. intros [g' G'] Hin.
    apply in_map_iff in Hin. destruct Hin as [[k [[g G] d]] [E Hin]]. injection E as <- <-.
    cbn [fst snd ng_wires ng_net].
    pose proof (in_combine_l _ _ _ _ Hin) as Hk. apply in_seq in Hk.
    pose proof (in_combine_r _ _ _ _ Hin) as Hs.
    rewrite Forall_forall in H. specialize (H _ Hs). cbn in H. destruct H as [Hw Hn].
    split; [exact Hw|]. apply net_is_matrix_retag.
    assert (Ed : nth k (map snd specs) (fun _ _ => 0) = d).
    { destruct (In_nth_error _ _ Hin) as [i Hi].
      assert (i < length (combine (seq 0 (length specs)) specs))%nat by (apply nth_error_Some; congruence).
      rewrite combine_length, seq_length, Nat.min_id in H.
      pose proof (nth_error_nth _ _ (O, (g, G, d)) Hi) as Hi'. rewrite combine_nth in Hi' by (rewrite seq_length; reflexivity).
      injection Hi' as E1 E2. rewrite seq_nth in E1 by exact H. cbn in E1. subst i.
      rewrite (nth_indep _ _ (snd (g, G, d))) by (rewrite map_length; exact H). rewrite map_nth, E2. reflexivity. }
    destruct Hn as [W [S V]]. split; [exact W|]. split; [exact S|].
    intros ro ci Lr Lc. rewrite <- (V ro ci Lr Lc). apply defining_sum_data_ext.
    intros t _ idx. rewrite <- (map_length snd specs). rewrite common_data_tag by (rewrite map_length; lia).
    rewrite Ed. reflexivity.
  Qed.
End Retag.
