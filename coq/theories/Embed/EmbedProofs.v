(** C04, bit-list level: the embedding [embed nw ws G] (G on wires ws, identity elsewhere) is
    conjugation of G (x) 1 by a wire permutation; it is multiplicative, commutes with the
    adjoint, maps 1 to 1 and unitaries to unitaries.  permute_gate_wires is conjugation by
    the permutation matrix.  For every register size, every selection of distinct wires and
    every commutative *-ring. *)
From Qib Require Export Embed.EmbedModel.
From Coq Require Import Permutation.

(* ------------------------------------------------------------------ lists *)
Lemma gather_length ord r : length (gather ord r) = length ord.
Proof. apply map_length. Qed.
Lemma gather_app a b r : gather (a ++ b) r = gather a r ++ gather b r.
Proof. apply map_app. Qed.
Lemma nth_gather ord r t : t < length ord -> nth t (gather ord r) false = nth (nth t ord 0) r false.
Proof.
  intros H. unfold gather.
  rewrite (nth_indep _ false (nth 0 r false)) by (rewrite map_length; exact H).
  apply (map_nth (fun w => nth w r false) ord 0 t).
Qed.

Definition is_perm (n : nat) (l : list nat) : Prop :=
  NoDup l /\ length l = n /\ (forall x, In x l -> x < n).

Lemma is_perm_complete n l x : is_perm n l -> x < n -> In x l.
Proof.
  intros [ND [Hl Hb]] Hx.
  assert (I : incl (seq 0 n) l).
  { apply NoDup_length_incl; [exact ND | rewrite seq_length; lia |].
    intros y Hy. apply in_seq. specialize (Hb y Hy). lia. }
  apply I. apply in_seq. lia.
Qed.

Lemma index_of_lt x l : In x l -> index_of x l < length l.
Proof.
  induction l as [|y l IH]; intros H; [destruct H|]. cbn.
  destruct (Nat.eqb_spec x y); [lia|]. destruct H as [->|H]; [congruence|]. specialize (IH H). lia.
Qed.
Lemma nth_index_of x l d : In x l -> nth (index_of x l) l d = x.
Proof.
  induction l as [|y l IH]; intros H; [destruct H|]. cbn.
  destruct (Nat.eqb_spec x y); [congruence|]. destruct H as [->|H]; [congruence|]. apply IH, H.
Qed.
Lemma index_of_nth t l d : NoDup l -> t < length l -> index_of (nth t l d) l = t.
Proof.
  revert t; induction l as [|y l IH]; intros t ND H; [cbn in H; lia|].
  inversion ND as [|? ? Hn ND']; subst. destruct t as [|t]; cbn.
  - rewrite Nat.eqb_refl. reflexivity.
  - cbn in H. destruct (Nat.eqb_spec (nth t l d) y) as [E|E].
    + exfalso. apply Hn. rewrite <- E. apply nth_In. lia.
    + f_equal. apply IH; [exact ND'|lia].
Qed.
Lemma index_of_inj x y l : In x l -> In y l -> index_of x l = index_of y l -> x = y.
Proof.
  intros Hx Hy E. rewrite <- (nth_index_of x l 0 Hx), <- (nth_index_of y l 0 Hy), E. reflexivity.
Qed.

Lemma NoDup_map_inj_in {A B} (f : A -> B) l :
  (forall x y, In x l -> In y l -> f x = f y -> x = y) -> NoDup l -> NoDup (map f l).
Proof.
  induction l as [|a l IH]; intros Hinj ND; [constructor|].
  inversion ND as [|? ? Hn ND']; subst. cbn. constructor.
  - intros H. apply in_map_iff in H. destruct H as [b [E Hb]].
    assert (b = a) by (apply Hinj; [right; exact Hb|left; reflexivity|exact E]). subst. contradiction.
  - apply IH; [|exact ND']. intros x y Hx Hy. apply Hinj; right; assumption.
Qed.

Lemma invperm_length p : length (invperm p) = length p.
Proof. unfold invperm. rewrite map_length, seq_length. reflexivity. Qed.
Lemma nth_invperm p s : s < length p -> nth s (invperm p) 0 = index_of s p.
Proof.
  intros H. unfold invperm.
  rewrite (nth_indep _ 0 (index_of 0 p)) by (rewrite map_length, seq_length; exact H).
  rewrite (map_nth (fun s => index_of s p) (seq 0 (length p)) 0 s). rewrite seq_nth by exact H. reflexivity.
Qed.

Lemma is_perm_invperm n p : is_perm n p -> is_perm n (invperm p).
Proof.
  intros P. pose proof P as [ND [Hl Hb]]. split; [|split].
  - unfold invperm. apply NoDup_map_inj_in; [|apply seq_NoDup].
    intros x y Hx Hy. apply in_seq in Hx. apply in_seq in Hy.
    apply index_of_inj; apply (is_perm_complete n); auto; lia.
  - rewrite invperm_length. exact Hl.
  - intros x Hx. unfold invperm in Hx. apply in_map_iff in Hx. destruct Hx as [s [<- Hs]].
    apply in_seq in Hs. rewrite <- Hl. apply index_of_lt. apply (is_perm_complete n); auto; lia.
Qed.

Lemma gather_invperm_l n ord r : is_perm n ord -> length r = n ->
  gather (invperm ord) (gather ord r) = r.
Proof.
  intros P Hr. pose proof P as [ND [Hl Hb]].
  apply (nth_ext _ _ false false).
  - rewrite gather_length, invperm_length. lia.
  - intros s Hs. rewrite gather_length, invperm_length in Hs.
    rewrite nth_gather by (rewrite invperm_length; exact Hs).
    rewrite nth_invperm by exact Hs.
    assert (I : In s ord) by (apply (is_perm_complete n); auto; lia).
    rewrite nth_gather by (apply index_of_lt; exact I).
    rewrite nth_index_of by exact I. reflexivity.
Qed.
Lemma gather_invperm_r n ord r : is_perm n ord -> length r = n ->
  gather ord (gather (invperm ord) r) = r.
Proof.
  intros P Hr. pose proof P as [ND [Hl Hb]].
  apply (nth_ext _ _ false false).
  - rewrite gather_length. lia.
  - intros t Ht. rewrite gather_length in Ht.
    rewrite nth_gather by exact Ht.
    assert (B : nth t ord 0 < length ord) by (rewrite Hl; apply Hb; apply nth_In; exact Ht).
    rewrite nth_gather by (rewrite invperm_length; exact B).
    rewrite nth_invperm by exact B.
    rewrite index_of_nth by assumption. reflexivity.
Qed.

(** the wires of a gate followed by the remaining wires form a permutation of the register *)
Lemma mem_nat_In w l : mem_nat w l = true <-> In w l.
Proof.
  unfold mem_nat. rewrite existsb_exists. split.
  - intros [x [Hx E]]. apply Nat.eqb_eq in E. subst. exact Hx.
  - intros H. exists w. split; [exact H|apply Nat.eqb_refl].
Qed.
Lemma in_compl nw ws w : In w (compl nw ws) <-> w < nw /\ ~ In w ws.
Proof.
  unfold compl. rewrite filter_In, in_seq, negb_true_iff. split.
  - intros [H1 H2]. split; [lia|]. intros H. apply mem_nat_In in H. congruence.
  - intros [H1 H2]. split; [lia|]. destruct (mem_nat w ws) eqn:E; [|reflexivity].
    apply mem_nat_In in E. contradiction.
Qed.
Lemma NoDup_app_intro {A} (a b : list A) :
  NoDup a -> NoDup b -> (forall x, In x a -> ~ In x b) -> NoDup (a ++ b).
Proof.
  induction a as [|x a IH]; intros Ha Hb Hd; [exact Hb|].
  inversion Ha as [|? ? Hn Ha']; subst. cbn. constructor.
  - intros H. apply in_app_or in H. destruct H as [H|H]; [contradiction|].
    apply (Hd x); [left; reflexivity|exact H].
  - apply IH; auto. intros y Hy. apply Hd. right. exact Hy.
Qed.

Definition wires_ok (nw : nat) (ws : list nat) : Prop := NoDup ws /\ (forall w, In w ws -> w < nw).

Lemma compl_length nw ws : wires_ok nw ws -> length ws + length (compl nw ws) = nw.
Proof.
  intros [ND Hb].
  assert (P : Permutation (ws ++ compl nw ws) (seq 0 nw)).
  { apply NoDup_Permutation.
    - apply NoDup_app_intro; [exact ND|apply NoDup_filter, seq_NoDup|].
      intros x Hx Hc. apply in_compl in Hc. tauto.
    - apply seq_NoDup.
    - intros x. rewrite in_app_iff, in_compl, in_seq. split.
      + intros [H|[H _]]; [specialize (Hb x H)|]; lia.
      + intros H. destruct (in_dec Nat.eq_dec x ws); [left; assumption|right; split; [lia|assumption]]. }
  apply Permutation_length in P. rewrite app_length, seq_length in P. exact P.
Qed.

Lemma wire_order_perm nw ws : wires_ok nw ws -> is_perm nw (wire_order nw ws).
Proof.
  intros W. pose proof W as [ND Hb]. unfold wire_order. split; [|split].
  - apply NoDup_app_intro; [exact ND|apply NoDup_filter, seq_NoDup|].
    intros x Hx Hc. apply in_compl in Hc. tauto.
  - rewrite app_length. apply compl_length. exact W.
  - intros x Hx. apply in_app_or in Hx. destruct Hx as [H|H]; [apply Hb, H|apply in_compl in H; tauto].
Qed.

(* ------------------------------------------------------------------ all_bits, re-indexing sums *)
Lemma all_bits_NoDup n : NoDup (all_bits n).
Proof.
  induction n as [|n IH]; cbn; [constructor; [intros []|constructor]|].
  apply NoDup_app_intro.
  - apply NoDup_map_inj_in; [|exact IH]. intros x y _ _ E. injection E. auto.
  - apply NoDup_map_inj_in; [|exact IH]. intros x y _ _ E. injection E. auto.
  - intros x Hx Hy. apply in_map_iff in Hx. apply in_map_iff in Hy.
    destruct Hx as [a [<- _]]. destruct Hy as [b [E _]]. discriminate.
Qed.

Section Reindex.
  Context {K : Scalar} {L : ScalarLaws K}.
  Local Open Scope K_scope.
  Add Ring KringE : (s_ring K L).

  Lemma lsum_perm (l l' : list K) : Permutation l l' -> lsum l = lsum l'.
  Proof.
    induction 1; rewrite ?lsum_cons, ?lsum_nil; try reflexivity.
    - rewrite IHPermutation. reflexivity.
    - ring.
    - congruence.
  Qed.

  (** a bijection of the index set does not change a sum over all indices *)
  Definition bij_on (n : nat) (sigma tau : bits -> bits) : Prop :=
    (forall b, length b = n -> length (sigma b) = n /\ tau (sigma b) = b) /\
    (forall b, length b = n -> length (tau b) = n /\ sigma (tau b) = b).

  Lemma bsum_reindex n sigma tau (f : bits -> K) : bij_on n sigma tau ->
    bsum n (fun k => f (sigma k)) = bsum n f.
  Proof.
    intros [Hs Ht]. unfold bsum. rewrite <- (map_map sigma f).
    apply lsum_perm. apply Permutation_map. apply NoDup_Permutation.
    - apply NoDup_map_inj_in; [|apply all_bits_NoDup].
      intros x y Hx Hy E. apply all_bits_length in Hx. apply all_bits_length in Hy.
      destruct (Hs x Hx) as [_ Ex]. destruct (Hs y Hy) as [_ Ey]. congruence.
    - apply all_bits_NoDup.
    - intros b. split.
      + intros H. apply in_map_iff in H. destruct H as [a [<- Ha]]. apply all_bits_length in Ha.
        apply all_bits_complete. apply Hs, Ha.
      + intros H. apply all_bits_length in H. destruct (Ht b H) as [Hl E].
        apply in_map_iff. exists (tau b). split; [exact E|apply all_bits_complete, Hl].
  Qed.

  Lemma bij_on_sym n sigma tau : bij_on n sigma tau -> bij_on n tau sigma.
  Proof. intros [A B]. split; assumption. Qed.

  Lemma gather_bij n ord : is_perm n ord -> bij_on n (gather ord) (gather (invperm ord)).
  Proof.
    intros P. pose proof P as [_ [Hl _]]. split; intros b Hb; split.
    - rewrite gather_length. exact Hl.
    - apply (gather_invperm_l n); assumption.
    - rewrite gather_length, invperm_length. exact Hl.
    - apply (gather_invperm_r n); assumption.
  Qed.

  (* ---------------------------------------------------------------- conjugation by a bijection *)
  Lemma conj_by_mmul n sigma tau (A B : BMx K) : bij_on n sigma tau ->
    meq n (mmul n (conj_by sigma A) (conj_by sigma B)) (conj_by sigma (mmul n A B)).
  Proof.
    intros Hb r c Hr Hc. unfold mmul, conj_by.
    apply (bsum_reindex n sigma tau (fun k => A (sigma r) k * B k (sigma c)) Hb).
  Qed.

  Lemma conj_by_madj sigma (A : BMx K) r c : madj (conj_by sigma A) r c = conj_by sigma (madj A) r c.
  Proof. reflexivity. Qed.

  Lemma conj_by_mid n sigma tau : bij_on n sigma tau -> meq n (conj_by sigma (mid (K:=K))) mid.
  Proof.
    intros [Hs _] r c Hr Hc. unfold conj_by, mid.
    destruct (beq r c) eqn:E.
    - apply beq_eq in E. subst. rewrite beq_refl. reflexivity.
    - destruct (beq (sigma r) (sigma c)) eqn:E2; [|reflexivity].
      apply beq_eq in E2. destruct (Hs r Hr) as [_ Er]. destruct (Hs c Hc) as [_ Ec].
      assert (r = c) by congruence. subst. rewrite beq_refl in E. discriminate.
  Qed.

  Lemma conj_by_meq n sigma tau (A B : BMx K) : bij_on n sigma tau ->
    meq n A B -> meq n (conj_by sigma A) (conj_by sigma B).
  Proof. intros [Hs _] E r c Hr Hc. unfold conj_by. apply E; apply Hs; assumption. Qed.

  Lemma conj_by_unitary n sigma tau (U : BMx K) : bij_on n sigma tau ->
    unitary n U -> unitary n (conj_by sigma U).
  Proof.
    intros Hb [U1 U2]. split.
    - eapply meq_trans; [apply mmul_meq; [apply meq_refl|intros r c _ _; apply conj_by_madj]|].
      eapply meq_trans; [apply (conj_by_mmul n sigma tau); exact Hb|].
      eapply meq_trans; [apply (conj_by_meq n sigma tau); [exact Hb|exact U1]|].
      apply (conj_by_mid n sigma tau Hb).
    - eapply meq_trans; [apply mmul_meq; [intros r c _ _; apply conj_by_madj|apply meq_refl]|].
      eapply meq_trans; [apply (conj_by_mmul n sigma tau); exact Hb|].
      eapply meq_trans; [apply (conj_by_meq n sigma tau); [exact Hb|exact U2]|].
      apply (conj_by_mid n sigma tau Hb).
  Qed.

  (** conjugation by the permutation matrix:  P U P^dagger = U re-indexed *)
  Lemma conj_by_is_pmat_conjugation n sigma tau (U : BMx K) : bij_on n sigma tau ->
    meq n (mmul n (mmul n (pmat sigma) U) (madj (pmat sigma))) (conj_by sigma U).
  Proof.
    intros [Hs _] r c Hr Hc. unfold mmul, madj, pmat, conj_by.
    transitivity (bsum n (fun l => U (sigma r) l * (if beq (sigma c) l then 1 else 0))).
    { apply bsum_ext. intros l Hl.
      rewrite (bsum_delta_l n (sigma r) (fun k => U k l)) by (apply Hs; exact Hr).
      destruct (beq (sigma c) l); rewrite ?(conj_1 K L), ?(conj_0 K L); reflexivity. }
    transitivity (bsum n (fun l => U (sigma r) l * (if beq l (sigma c) then 1 else 0))).
    { apply bsum_ext. intros l _. rewrite beq_sym. reflexivity. }
    apply (bsum_delta_r n (sigma c) (fun l => U (sigma r) l)). apply Hs. exact Hc.
  Qed.

  Lemma pmat_unitary n sigma tau : bij_on n sigma tau -> unitary n (pmat (K:=K) sigma).
  Proof.
    intros Hb. pose proof Hb as [Hs Ht].
    assert (E : forall r k, length r = n -> length k = n -> beq (sigma r) k = beq r (tau k)).
    { intros r k Hr Hk. destruct (beq (sigma r) k) eqn:E1; destruct (beq r (tau k)) eqn:E2; try reflexivity.
      - apply beq_eq in E1. subst k. destruct (Hs r Hr) as [_ Er]. rewrite Er, beq_refl in E2. discriminate.
      - apply beq_eq in E2. subst r. destruct (Ht k Hk) as [_ Ek]. rewrite Ek, beq_refl in E1. discriminate. }
    split; intros r c Hr Hc; unfold mmul, madj, pmat, mid.
    - transitivity (bsum n (fun k => (if beq (sigma r) k then 1 else 0) * (if beq (sigma c) k then 1 else 0) : K)).
      { apply bsum_ext. intros k _. destruct (beq (sigma c) k); rewrite ?(conj_1 K L), ?(conj_0 K L); reflexivity. }
      rewrite (bsum_delta_l n (sigma r) (fun k => if beq (sigma c) k then 1 else 0)) by (apply Hs; exact Hr).
      destruct (beq r c) eqn:E1.
      + apply beq_eq in E1. subst. rewrite beq_refl. reflexivity.
      + destruct (beq (sigma c) (sigma r)) eqn:E2; [|reflexivity].
        apply beq_eq in E2. destruct (Hs r Hr) as [_ Er]. destruct (Hs c Hc) as [_ Ec].
        assert (r = c) by congruence. subst. rewrite beq_refl in E1. discriminate.
    - transitivity (bsum n (fun k => (if beq k (tau r) then 1 else 0) * (if beq k (tau c) then 1 else 0) : K)).
      { apply bsum_ext. intros k Hk. rewrite !E by assumption.
        destruct (beq k (tau r)); rewrite ?(conj_1 K L), ?(conj_0 K L); reflexivity. }
      transitivity (bsum n (fun k => (if beq (tau r) k then 1 else 0) * (if beq k (tau c) then 1 else 0) : K)).
      { apply bsum_ext. intros k _. rewrite (beq_sym k (tau r)). reflexivity. }
      rewrite (bsum_delta_l n (tau r) (fun k => if beq k (tau c) then 1 else 0)) by (apply Ht; exact Hr).
      destruct (beq r c) eqn:E1.
      + apply beq_eq in E1. subst. rewrite beq_refl. reflexivity.
      + destruct (beq (tau r) (tau c)) eqn:E2; [|reflexivity].
        apply beq_eq in E2. destruct (Ht r Hr) as [_ Er]. destruct (Ht c Hc) as [_ Ec].
        assert (r = c) by congruence. subst. rewrite beq_refl in E1. discriminate.
  Qed.

  (* ---------------------------------------------------------------- embed *)
  (** embed = (G (x) 1) re-indexed by "gate wires first, then the others" *)
  Lemma embed_as_conj nw ws (G : BMx K) r c :
    embed nw ws G r c = conj_by (gather (wire_order nw ws)) (kron (length ws) G mid) r c.
  Proof.
    unfold embed, conj_by, kron, wire_order, mid. rewrite !gather_app.
    rewrite !firstn_app_len, !skipn_app_len by apply gather_length. reflexivity.
  Qed.

  Lemma wire_order_bij nw ws : wires_ok nw ws ->
    bij_on nw (gather (wire_order nw ws)) (gather (invperm (wire_order nw ws))).
  Proof. intros W. apply gather_bij. apply wire_order_perm. exact W. Qed.

  Lemma embed_meq nw ws (G G' : BMx K) : meq (length ws) G G' -> meq nw (embed nw ws G) (embed nw ws G').
  Proof. intros E r c _ _. unfold embed. rewrite E by apply gather_length. reflexivity. Qed.

  Lemma embed_mmul nw ws (G H : BMx K) : wires_ok nw ws ->
    meq nw (mmul nw (embed nw ws G) (embed nw ws H)) (embed nw ws (mmul (length ws) G H)).
  Proof.
    intros W. pose proof (wire_order_bij nw ws W) as Hb.
    pose proof (compl_length nw ws W) as Hl.
    set (m := length ws) in *. set (sigma := gather (wire_order nw ws)) in *.
    eapply meq_trans.
    { apply mmul_meq; intros r c _ _; apply embed_as_conj. }
    fold m sigma.
    eapply meq_trans; [apply (conj_by_mmul nw sigma _ _ _ Hb)|].
    intros r c Hr Hc. rewrite embed_as_conj. fold m sigma. unfold conj_by.
    destruct Hb as [Hs _].
    assert (Er : length (sigma r) = (m + length (compl nw ws))%nat) by (rewrite Hl; apply Hs; exact Hr).
    assert (Ec : length (sigma c) = (m + length (compl nw ws))%nat) by (rewrite Hl; apply Hs; exact Hc).
    rewrite <- Hl.
    rewrite (kron_mmul m (length (compl nw ws)) G mid H mid (sigma r) (sigma c) Er Ec).
    apply (kron_meq m (length (compl nw ws))); try assumption; [apply meq_refl|apply mmul_id_l].
  Qed.

  Lemma embed_madj nw ws (G : BMx K) : meq nw (madj (embed nw ws G)) (embed nw ws (madj G)).
  Proof.
    intros r c _ _. unfold madj, embed. rewrite (conj_mul K L). f_equal.
    rewrite beq_sym. destruct (beq _ _); [apply (conj_1 K L)|apply (conj_0 K L)].
  Qed.

  Lemma embed_mid nw ws : wires_ok nw ws -> meq nw (embed nw ws (mid (K:=K))) mid.
  Proof.
    intros W. pose proof (wire_order_bij nw ws W) as Hb.
    pose proof (compl_length nw ws W) as Hl.
    intros r c Hr Hc. rewrite embed_as_conj.
    transitivity (conj_by (gather (wire_order nw ws)) (mid (K:=K)) r c).
    - unfold conj_by. destruct Hb as [Hs _].
      apply (kron_mid (length ws) (length (compl nw ws))); rewrite Hl; apply Hs; assumption.
    - apply (conj_by_mid nw _ _ Hb); assumption.
  Qed.

  Lemma embed_unitary nw ws (U : BMx K) : wires_ok nw ws ->
    unitary (length ws) U -> unitary nw (embed nw ws U).
  Proof.
    intros W [U1 U2]. split.
    - eapply meq_trans; [apply mmul_meq; [apply meq_refl|apply embed_madj]|].
      eapply meq_trans; [apply embed_mmul; exact W|].
      eapply meq_trans; [apply embed_meq; exact U1|]. apply embed_mid. exact W.
    - eapply meq_trans; [apply mmul_meq; [apply embed_madj|apply meq_refl]|].
      eapply meq_trans; [apply embed_mmul; exact W|].
      eapply meq_trans; [apply embed_meq; exact U2|]. apply embed_mid. exact W.
  Qed.

  (* ---------------------------------------------------------------- permute_gate_wires *)
  Lemma index_of_app_l x a b : In x a -> index_of x (a ++ b) = index_of x a.
  Proof.
    induction a as [|y a IH]; intros H; [destruct H|]. cbn.
    destruct (Nat.eqb_spec x y); [reflexivity|]. destruct H as [->|H]; [congruence|]. f_equal. apply IH, H.
  Qed.
  Lemma index_of_app_r x a b : ~ In x a -> index_of x (a ++ b) = (length a + index_of x b)%nat.
  Proof.
    induction a as [|y a IH]; intros H; [reflexivity|]. cbn.
    destruct (Nat.eqb_spec x y); [subst; exfalso; apply H; left; reflexivity|].
    f_equal. apply IH. intros H'. apply H. right. exact H'.
  Qed.
  Lemma index_of_map_add n x l : index_of (n + x) (map (fun p => (n + p)%nat) l) = index_of x l.
  Proof.
    induction l as [|y l IH]; [reflexivity|]. cbn.
    destruct (Nat.eqb_spec x y); destruct (Nat.eqb_spec (n + x) (n + y)); lia.
  Qed.

  Lemma seq_add_map a b k : seq (a + b) k = map (fun s => (a + s)%nat) (seq b k).
  Proof.
    revert b; induction k as [|k IH]; intros b; [reflexivity|]. cbn [seq map]. f_equal.
    rewrite <- IH. f_equal. lia.
  Qed.

  Lemma invperm_permute_axes n perm : is_perm n perm ->
    invperm (permute_axes n perm) = invperm perm ++ map (fun s => (n + s)%nat) (invperm perm).
  Proof.
    intros P. pose proof P as [ND [Hl Hb]].
    unfold invperm, permute_axes. rewrite app_length, map_length, Hl.
    rewrite seq_app, map_app. f_equal.
    - apply map_ext_in. intros s Hs. apply in_seq in Hs.
      apply index_of_app_l. apply (is_perm_complete n); auto; lia.
    - cbn [Nat.add]. rewrite <- (Nat.add_0_r n) at 1. rewrite seq_add_map, !map_map.
      apply map_ext_in. intros s Hs. apply in_seq in Hs.
      rewrite index_of_app_r.
      + rewrite Hl, index_of_map_add. reflexivity.
      + intros H. apply Hb in H. lia.
  Qed.

  Lemma permute_gate_wires_conj n (u : BMx K) perm : is_perm n perm ->
    meq n (permute_gate_wires u perm) (conj_by (gather (invperm perm)) u).
  Proof.
    intros P r c Hr Hc. pose proof P as [ND [Hl Hb]].
    unfold permute_gate_wires, permute_skel, np_tensor_to_mat, np_transpose, np_mat_to_tensor, conj_by.
    rewrite Hl, (invperm_permute_axes n perm P), gather_app.
    assert (E : gather (map (fun s => (n + s)%nat) (invperm perm)) (r ++ c) = gather (invperm perm) c).
    { unfold gather. rewrite map_map. apply map_ext. intros s.
      rewrite app_nth2 by lia. f_equal. lia. }
    assert (E' : gather (invperm perm) (r ++ c) = gather (invperm perm) r).
    { unfold gather. apply map_ext_in. intros s Hs.
      apply (is_perm_invperm n perm P) in Hs. apply app_nth1. lia. }
    rewrite E, E'.
    rewrite firstn_app_len, skipn_app_len by (rewrite gather_length, invperm_length; exact Hl).
    reflexivity.
  Qed.

  (** permute_gate_wires u perm = P u P^dagger with P the (unitary) permutation matrix of perm *)
  Lemma permute_gate_wires_pmat n (u : BMx K) perm : is_perm n perm ->
    let P := pmat (gather (invperm perm)) in
    meq n (permute_gate_wires u perm) (mmul n (mmul n P u) (madj P)) /\ unitary n P.
  Proof.
    intros Pm. cbv zeta.
    assert (Hb : bij_on n (gather (invperm perm)) (gather (invperm (invperm perm)))).
    { apply gather_bij. apply is_perm_invperm. exact Pm. }
    split.
    - eapply meq_trans; [apply permute_gate_wires_conj; exact Pm|].
      apply meq_sym. apply (conj_by_is_pmat_conjugation n _ _ u Hb).
    - apply (pmat_unitary n _ _ Hb).
  Qed.

  (** the embedding is the wire permutation of G (x) 1 that permute_gate_wires performs *)
  Lemma embed_is_permute nw ws (G : BMx K) : wires_ok nw ws ->
    meq nw (embed nw ws G)
           (permute_gate_wires (kron (length ws) G mid) (invperm (wire_order nw ws))).
  Proof.
    intros W. pose proof (wire_order_perm nw ws W) as P.
    pose proof (is_perm_invperm nw _ P) as P'.
    eapply meq_trans; [|apply meq_sym; apply permute_gate_wires_conj; exact P'].
    intros r c Hr Hc. rewrite embed_as_conj. unfold conj_by.
    (* gather (invperm (invperm wo)) = gather wo on length-nw lists: both invert gather (invperm wo) *)
    assert (E : forall b, length b = nw ->
                gather (invperm (invperm (wire_order nw ws))) b = gather (wire_order nw ws) b).
    { intros b Hb.
      pose proof (gather_invperm_l nw (wire_order nw ws) b P Hb) as E1.
      rewrite <- E1 at 1.
      apply (gather_invperm_l nw (invperm (wire_order nw ws))); [exact P'|].
      rewrite gather_length. destruct P as [_ [Hl _]]. exact Hl. }
    rewrite !E by assumption. reflexivity.
  Qed.
End Reindex.
