(** C04: scipy's csr_matrix(dense array), as modelled by [csr_of_dense] (non-zero entries, row-major,
    indptr = running row counts), DENOTES the dense matrix it was built from, is canonical and has
    in-range columns.  With this, Gate.as_circuit_matrix is tied to the gate's OWN dense matrix
    ([mxl G]) and not only to the denotation [csr_entry] of an arbitrary CSR structure. *)
From Qib Require Export Embed.WireProofs.
Local Open Scope Z_scope.

(* ------------------------------------------------------------------ running counts *)
Fixpoint psums {A} (s : Z) (l : list (list A)) : list Z :=
  match l with
  | [] => []
  | x :: l' => (s + zlen x) :: psums (s + zlen x) l'
  end.
(** number of elements in the first k lists *)
Definition offs {A} (l : list (list A)) (k : nat) : Z := zlen (concat (firstn k l)).

Lemma zlen_app {A} (a b : list A) : zlen (a ++ b) = zlen a + zlen b.
Proof. unfold zlen. rewrite app_length. lia. Qed.
Lemma zlen_nonneg {A} (a : list A) : 0 <= zlen a.
Proof. unfold zlen. lia. Qed.

Lemma offs_0 {A} (l : list (list A)) : offs l 0 = 0.
Proof. reflexivity. Qed.
Lemma offs_cons {A} (x : list A) l k : offs (x :: l) (Datatypes.S k) = zlen x + offs l k.
Proof. unfold offs. cbn [firstn concat]. apply zlen_app. Qed.
Lemma offs_S {A} (l : list (list A)) : forall j, (j < length l)%nat ->
  offs l (Datatypes.S j) = offs l j + zlen (nth j l []).
Proof.
  induction l as [|x l IH]; intros j Hj; [cbn in Hj; lia|].
  destruct j as [|j].
  - rewrite offs_cons, !offs_0. cbn [nth]. lia.
  - rewrite !offs_cons. cbn [nth length] in *. rewrite IH by lia. lia.
Qed.
Lemma offs_nonneg {A} (l : list (list A)) k : 0 <= offs l k.
Proof. apply zlen_nonneg. Qed.
Lemma offs_all {A} (l : list (list A)) : offs l (length l) = zlen (concat l).
Proof. unfold offs. rewrite firstn_all. reflexivity. Qed.

Lemma fold_indptr {A} (l : list (list A)) : forall acc s,
  fold_left (fun acc row => acc ++ [last acc 0 + zlen row]) l (acc ++ [s]) = (acc ++ [s]) ++ psums s l.
Proof.
  induction l as [|x l IH]; intros acc s; cbn [fold_left psums]; [rewrite app_nil_r; reflexivity|].
  rewrite last_last. rewrite (IH (acc ++ [s]) (s + zlen x)). rewrite <- app_assoc. reflexivity.
Qed.
Lemma nth_psums {A} (l : list (list A)) : forall s k, (k < length l)%nat ->
  nth k (psums s l) 0 = s + offs l (Datatypes.S k).
Proof.
  induction l as [|x l IH]; intros s k Hk; [cbn in Hk; lia|].
  destruct k as [|k]; cbn [psums nth].
  - rewrite offs_cons, offs_0. lia.
  - cbn [length] in Hk. rewrite IH by lia. rewrite (offs_cons x l (Datatypes.S k)). lia.
Qed.
(** indptr[k] = number of stored entries in the rows before k *)
Lemma indptr_nth {A} (l : list (list A)) k : (k <= length l)%nat ->
  znth (fold_left (fun acc row => acc ++ [last acc 0 + zlen row]) l [0]) (Z.of_nat k) = offs l k.
Proof.
  intros Hk. change [0] with ([] ++ [0]). rewrite fold_indptr. unfold znth. rewrite Nat2Z.id.
  cbn [app]. destruct k as [|k]; [reflexivity|]. cbn [nth]. rewrite nth_psums by lia. lia.
Qed.

(** the stored entries of row j sit at positions offs j .. offs (j+1) of the concatenation *)
Lemma nth_concat_slice {A} (l : list (list A)) d : forall j t, (j < length l)%nat ->
  (t < length (nth j l []))%nat ->
  nth (Z.to_nat (offs l j) + t) (concat l) d = nth t (nth j l []) d.
Proof.
  induction l as [|x l IH]; intros j t Hj Ht; [cbn in Hj; lia|].
  destruct j as [|j]; cbn [nth concat] in *.
  - rewrite offs_0. cbn. apply app_nth1. exact Ht.
  - rewrite offs_cons. pose proof (offs_nonneg l j). unfold zlen at 1.
    replace (Z.to_nat (Z.of_nat (length x) + offs l j) + t)%nat with (length x + (Z.to_nat (offs l j) + t))%nat by lia.
    rewrite app_nth2_plus. apply IH; [cbn [length] in Hj; lia|exact Ht].
Qed.

Lemma zrange_len lo n : zrange lo (lo + Z.of_nat n) = map (fun t => lo + Z.of_nat t) (seq 0 n).
Proof. unfold zrange. replace (Z.to_nat (lo + Z.of_nat n - lo)) with n by lia. reflexivity. Qed.
Lemma seq_plus k n : seq k n = map (fun t => (k + t)%nat) (seq 0 n).
Proof.
  revert k; induction n as [|n IH]; intros k; [reflexivity|].
  cbn [seq map]. f_equal; [lia|]. rewrite (IH (Datatypes.S k)), <- seq_shift, map_map.
  apply map_ext. intros t. lia.
Qed.
Lemma zrange_app a b c : a <= b <= c -> zrange a b ++ zrange b c = zrange a c.
Proof.
  intros H. unfold zrange.
  replace (Z.to_nat (c - a)) with (Z.to_nat (b - a) + Z.to_nat (c - b))%nat by lia.
  rewrite seq_app, map_app. f_equal. cbn [plus].
  rewrite (seq_plus (Z.to_nat (b - a))), map_map. apply map_ext. intros t. lia.
Qed.

(* ------------------------------------------------------------------ csr_matrix(dense) denotes the dense matrix *)
Section CsrDense.
  Context {K : Scalar} {L : ScalarLaws K}.
  Add Ring csr_kring : (s_ring K L).
  Local Open Scope K_scope.

  Variable nz : K -> bool.
  Hypothesis nz_zero : forall v, nz v = false -> v = 0.

  Definition row_entries (vals : list K) : list (Z * K) :=
    filter (fun cv => nz (snd cv)) (combine (zrange 0 (zlen vals)) vals).
  Definition per_row (rows : list (list K)) : list (list (Z * K)) := map row_entries rows.

  Lemma csr_of_dense_unfold rows :
    csr_of_dense nz rows =
    {| c_nrows := zlen rows;
       c_indptr := fold_left (fun acc row => acc ++ [last acc 0%Z + zlen row]%Z) (per_row rows) [0%Z];
       c_indices := map fst (concat (per_row rows));
       c_data := map snd (concat (per_row rows)) |}.
  Proof. unfold csr_of_dense, per_row, row_entries. rewrite !flat_map_concat_map, !concat_map, !map_map. reflexivity. Qed.

  Lemma per_row_length rows : length (per_row rows) = length rows.
  Proof. apply map_length. Qed.
  Lemma per_row_nth rows j : nth j (per_row rows) [] = row_entries (nth j rows []).
  Proof. unfold per_row. change (@nil (Z * K)) with (row_entries []). apply map_nth. Qed.

  Lemma lsum_filter {A} (P : A -> bool) (F : A -> K) l :
    lsum (map F (filter P l)) = lsum (map (fun p => if P p then F p else 0) l).
  Proof.
    induction l as [|x l IH]; [reflexivity|]. cbn [filter map]. destruct (P x).
    - cbn [map]. rewrite !lsum_cons, IH. reflexivity.
    - rewrite lsum_cons, IH. ring.
  Qed.

  (** the stored entries of one dense row, summed against a column index, give that row's entry *)
  Lemma row_entries_sum vals (c : nat) : (c < length vals)%nat ->
    lsum (map (fun p : Z * K => if (fst p =? Z.of_nat c)%Z then snd p else 0) (row_entries vals)) = nth c vals 0.
  Proof.
    intros Hc. unfold row_entries. rewrite lsum_filter.
    rewrite (lsum_map_ext _ (fun p : Z * K => if (fst p =? Z.of_nat c)%Z then snd p else 0)).
    2:{ intros [i v] _. cbn [fst snd]. destruct (nz v) eqn:E; [reflexivity|]. rewrite (nz_zero v E). destruct (i =? _)%Z; reflexivity. }
    assert (Hl : length (zrange 0 (zlen vals)) = length vals).
    { unfold zrange. rewrite map_length, seq_length. unfold zlen. lia. }
    rewrite (combine_as_map _ _ 0%Z 0 Hl), map_map, Hl.
    rewrite (lsum_map_single _ (seq 0 (length vals)) c); [| apply seq_NoDup | apply in_seq; lia |].
    - cbn [fst snd]. unfold zrange. unfold zlen. rewrite Z.sub_0_r, Nat2Z.id.
      rewrite (nth_indep _ 0%Z (0 + Z.of_nat 0)%Z) by (rewrite map_length, seq_length; exact Hc).
      rewrite (map_nth (fun i => (0 + Z.of_nat i)%Z) (seq 0 (length vals)) 0%nat c), seq_nth by exact Hc.
      replace (0 + Z.of_nat (0 + c) =? Z.of_nat c)%Z with true by (symmetry; apply Z.eqb_eq; lia). reflexivity.
    - intros t Ht Hne. apply in_seq in Ht. cbn [fst snd]. unfold zrange, zlen. rewrite Z.sub_0_r, Nat2Z.id.
      rewrite (nth_indep _ 0%Z (0 + Z.of_nat 0)%Z) by (rewrite map_length, seq_length; lia).
      rewrite (map_nth (fun i => (0 + Z.of_nat i)%Z) (seq 0 (length vals)) 0%nat t), seq_nth by lia.
      replace (0 + Z.of_nat (0 + t) =? Z.of_nat c)%Z with false by (symmetry; apply Z.eqb_neq; lia). reflexivity.
  Qed.

  Lemma row_entries_cols vals p : In p (row_entries vals) -> (0 <= fst p < zlen vals)%Z.
  Proof.
    unfold row_entries. intros H. apply filter_In in H. destruct H as [H _]. destruct p as [i v].
    apply in_combine_l in H. apply in_zrange in H. exact H.
  Qed.

  (** positions of row j in the CSR arrays *)
  Lemma csr_row_slice rows (j : nat) : (j < length rows)%nat ->
    let g := csr_of_dense nz rows in
    let row := row_entries (nth j rows []) in
    zrange (znth (c_indptr g) (Z.of_nat j)) (znth (c_indptr g) (Z.of_nat j + 1))
    = map (fun t => (offs (per_row rows) j + Z.of_nat t)%Z) (seq 0 (length row)) /\
    forall t, (t < length row)%nat ->
      let i := (offs (per_row rows) j + Z.of_nat t)%Z in
      (znth (c_indices g) i, nth (Z.to_nat i) (c_data g) 0) = nth t row (0%Z, 0).
  Proof.
    intros Hj g row. unfold g. rewrite csr_of_dense_unfold. cbn [c_indptr c_indices c_data].
    split.
    - replace (Z.of_nat j + 1)%Z with (Z.of_nat (Datatypes.S j)) by lia.
      rewrite !indptr_nth by (rewrite per_row_length; lia).
      rewrite offs_S by (rewrite per_row_length; exact Hj). rewrite per_row_nth. fold row.
      unfold zlen. apply zrange_len.
    - intros t Ht. set (i := (offs (per_row rows) j + Z.of_nat t)%Z). unfold znth. pose proof (offs_nonneg (per_row rows) j).
      replace (Z.to_nat i) with (Z.to_nat (offs (per_row rows) j) + t)%nat by (unfold i; lia).
      set (X := concat (per_row rows)). set (n := (Z.to_nat (offs (per_row rows) j) + t)%nat).
      assert (E1 : nth n (map fst X) 0%Z = fst (nth n X (0%Z, 0 : K))) by exact (map_nth fst X (0%Z, 0 : K) n).
      assert (E2 : nth n (map snd X) (0 : K) = snd (nth n X (0%Z, 0 : K))) by exact (map_nth snd X (0%Z, 0 : K) n).
      rewrite E1, E2. unfold X, n.
      rewrite nth_concat_slice by (rewrite ?per_row_length, ?per_row_nth; assumption).
      rewrite per_row_nth. fold row. destruct (nth t row (0%Z, 0)); reflexivity.
  Qed.

  Theorem csr_of_dense_entry (m : nat) rows (r c : bits) :
    length rows = (2 ^ m)%nat -> Forall (fun row => length row = (2 ^ m)%nat) rows ->
    length r = m -> length c = m ->
    csr_entry (csr_of_dense nz rows) r c = mxl rows r c.
  Proof.
    intros Hrows Hcols Hr Hc.
    assert (Hj : (b2n r < length rows)%nat) by (rewrite Hrows, <- Hr; apply b2n_bound).
    unfold csr_entry, b2z. destruct (csr_row_slice rows (b2n r) Hj) as [Hz Hs]. cbv zeta in Hz, Hs.
    rewrite Hz, map_map.
    set (row := row_entries (nth (b2n r) rows [])) in *.
    rewrite (lsum_map_ext _ (fun t => let p := nth t row (0%Z, 0) in if (fst p =? Z.of_nat (b2n c))%Z then snd p else 0)).
    2:{ intros t Ht. apply in_seq in Ht. specialize (Hs t ltac:(lia)). cbv zeta. rewrite <- Hs. cbn [fst snd]. reflexivity. }
    transitivity (lsum (map (fun p : Z * K => if (fst p =? Z.of_nat (b2n c))%Z then snd p else 0) row)).
    { rewrite (list_as_map_nth row (0%Z, 0)) at 2. rewrite map_map. reflexivity. }
    unfold row. rewrite row_entries_sum; [reflexivity|].
    rewrite Forall_forall in Hcols. rewrite (Hcols (nth (b2n r) rows [])) by (apply nth_In; exact Hj).
    rewrite <- Hc. apply b2n_bound.
  Qed.

  Theorem csr_of_dense_cols_ok (m : nat) rows :
    length rows = (2 ^ m)%nat -> Forall (fun row => length row = (2 ^ m)%nat) rows ->
    csr_cols_ok m (csr_of_dense nz rows).
  Proof.
    intros Hrows Hcols j i Hj Hi.
    assert (P2 : (2 ^ Z.of_nat m)%Z = Z.of_nat (2 ^ m)) by (rewrite Nat2Z.inj_pow; reflexivity).
    assert (Hjn : (Z.to_nat j < length rows)%nat) by lia.
    destruct (csr_row_slice rows (Z.to_nat j) Hjn) as [Hz Hs]. cbv zeta in Hz, Hs.
    rewrite Z2Nat.id in Hz by lia. rewrite Hz in Hi. apply in_map_iff in Hi. destruct Hi as [t [<- Ht]].
    apply in_seq in Ht. specialize (Hs t ltac:(lia)).
    set (row := row_entries (nth (Z.to_nat j) rows [])) in *.
    assert (Hin : In (nth t row (0%Z, 0)) row) by (apply nth_In; lia).
    apply row_entries_cols in Hin. rewrite <- Hs in Hin. cbn [fst] in Hin.
    rewrite Forall_forall in Hcols. unfold zlen in Hin.
    rewrite (Hcols (nth (Z.to_nat j) rows [])) in Hin by (apply nth_In; exact Hjn). lia.
  Qed.

  Lemma ranges_concat {A} (l : list (list A)) : forall k, (k <= length l)%nat ->
    flat_map (fun j => zrange (offs l j) (offs l (Datatypes.S j))) (seq 0 k) = zrange 0 (offs l k).
  Proof.
    induction k as [|k IH]; intros Hk; [reflexivity|].
    rewrite seq_S, flat_map_app, IH by lia. cbn [flat_map plus]. rewrite app_nil_r.
    apply zrange_app. pose proof (offs_nonneg l k). rewrite offs_S by lia. pose proof (zlen_nonneg (nth k l [])). lia.
  Qed.

  Theorem csr_of_dense_canonical (m : nat) rows :
    length rows = (2 ^ m)%nat -> csr_canonical m (csr_of_dense nz rows).
  Proof.
    intros Hrows.
    assert (P2 : (2 ^ Z.of_nat m)%Z = Z.of_nat (2 ^ m)) by (rewrite Nat2Z.inj_pow; reflexivity).
    split.
    - unfold csr_of_dense, c_nrows, zlen. rewrite Hrows. lia.
    - rewrite P2, zrange_0_nat. rewrite flat_map_concat_map, map_map.
      rewrite csr_of_dense_unfold. unfold c_nnz. cbn [c_indptr c_data].
      rewrite (map_ext_in _ (fun j => zrange (offs (per_row rows) j) (offs (per_row rows) (Datatypes.S j)))).
      + rewrite <- flat_map_concat_map, ranges_concat by (rewrite per_row_length; lia).
        rewrite <- Hrows, <- (per_row_length rows), offs_all. unfold zlen. rewrite map_length. reflexivity.
      + intros j Hj. apply in_seq in Hj. replace (Z.of_nat j + 1)%Z with (Z.of_nat (Datatypes.S j)) by lia.
        rewrite !indptr_nth by (rewrite per_row_length; lia). reflexivity.
  Qed.
End CsrDense.

(* ------------------------------------------------------------------ Gate.as_circuit_matrix on the gate's own dense matrix *)
Section AcmDense.
  Context {K : Scalar} {L : ScalarLaws K}.
  Local Open Scope K_scope.
  Variable nz : K -> bool.
  Hypothesis nz_zero : forall v, nz v = false -> v = 0.

  Lemma fsum_nonneg fields : fields_ok fields -> (0 <= fsum fields)%Z.
  Proof.
    intros [_ Hn]. induction fields as [|[f n] fs IH]; [unfold fsum; cbn; lia|].
    rewrite fsum_cons. assert (0 <= n)%Z by (apply (Hn f); left; reflexivity).
    assert (0 <= fsum fs)%Z by (apply IH; intros f' n' H'; apply (Hn f'); right; exact H'). lia.
  Qed.

  (** for a gate bound to distinct particles of listed fields, with a dense 2^m x 2^m matrix G:
      csr_matrix(G) is accepted by the funnel (no RuntimeError, no AssertionError) and the register-level
      matrix is G ITSELF on the wires of the particles, identity on every other wire *)
  Theorem as_circuit_matrix_of_dense fields prtcl (G : list (list K)) :
    fields_ok fields -> NoDup prtcl -> Forall (particle_ok fields) prtcl ->
    length G = (2 ^ length prtcl)%nat -> Forall (fun row => length row = (2 ^ length prtcl)%nat) G ->
    let nw := Z.to_nat (fsum fields) in
    exists T, as_circuit_matrix 0 fields prtcl (csr_of_dense nz G) = AcmOk T /\
      forall r c, length r = nw -> length c = nw ->
        triples_entry T r c = embed nw (wires_of fields prtcl) (mxl G) r c.
  Proof.
    intros F ND A HG HR nw.
    destruct (wires_of_ok fields prtcl F ND A) as [W Ez].
    assert (Hlen : length (wires_of fields prtcl) = length prtcl) by (unfold wires_of; apply map_length).
    pose proof (fsum_nonneg fields F) as Fs.
    assert (Hacc : exists T, as_circuit_matrix 0 fields prtcl (csr_of_dense nz G) = AcmOk T).
    { unfold as_circuit_matrix.
      replace (existsb (fun iw => (iw <? 0)%Z) (map (mp2w fields) prtcl)) with false.
      2:{ symmetry. apply not_true_is_false. intros E. apply existsb_exists in E. destruct E as [w [Hw Hneg]].
          apply in_map_iff in Hw. destruct Hw as [p [<- Hp]]. rewrite Forall_forall in A.
          pose proof (mp2w_range fields p F (A p Hp)). apply Z.ltb_lt in Hneg. lia. }
      fold (fsum fields). rewrite <- Ez. replace (fsum fields) with (Z.of_nat nw) by (unfold nw; lia).
      destruct (distribute_total (0 : K) nw (wires_of fields prtcl) (csr_of_dense nz G) W) as [T HT].
      - rewrite Hlen. apply csr_of_dense_canonical. exact HG.
      - rewrite HT. exists T. reflexivity. }
    destruct Hacc as [T HT]. exists T. split; [exact HT|].
    intros r c Hr Hc.
    rewrite (as_circuit_matrix_entry fields prtcl (csr_of_dense nz G) T F ND A
               (csr_of_dense_cols_ok nz (length prtcl) G HG HR) HT r c Hr Hc).
    unfold embed. rewrite (csr_of_dense_entry nz nz_zero (length prtcl) G); auto;
      unfold gather; rewrite map_length; exact Hlen.
  Qed.
End AcmDense.
