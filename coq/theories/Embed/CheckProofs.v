(** The memoised evaluation used by the C05 checker (matrices re-materialised as lists after
    every gate) computes the model's circuit matrix: [mxl (dense n A)] is A on length-n indices. *)
From Qib Require Export Embed.CircCheck Embed.CircProofs.

Lemma all_bits_len n : length (all_bits n) = 2 ^ n.
Proof. induction n as [|n IH]; [reflexivity|]. cbn [all_bits]. rewrite app_length, !map_length, IH. cbn. lia. Qed.

Lemma nth_all_bits n : forall r, length r = n -> nth (b2n r) (all_bits n) [] = r.
Proof.
  induction n as [|n IH]; intros r Hr.
  - destruct r; [reflexivity|discriminate].
  - destruct r as [|x r]; [discriminate|]. cbn in Hr. injection Hr as Hr.
    cbn [all_bits b2n]. rewrite Hr. pose proof (b2n_bound r) as B. rewrite Hr in B.
    destruct x.
    + rewrite app_nth2 by (rewrite map_length, all_bits_len; lia).
      rewrite map_length, all_bits_len. replace (2 ^ n + b2n r - 2 ^ n) with (b2n r) by lia.
      rewrite (nth_indep _ [] (true :: [])) by (rewrite map_length, all_bits_len; exact B).
      rewrite (map_nth (cons true) (all_bits n) [] (b2n r)). rewrite IH by exact Hr. reflexivity.
    + cbn [Nat.add]. rewrite app_nth1 by (rewrite map_length, all_bits_len; exact B).
      rewrite (nth_indep _ [] (false :: [])) by (rewrite map_length, all_bits_len; exact B).
      rewrite (map_nth (cons false) (all_bits n) [] (b2n r)). rewrite IH by exact Hr. reflexivity.
Qed.

Section MxlDense.
  Context {K : Scalar}.
  Lemma mxl_dense n (A : BMx K) : meq n (mxl (dense n A)) A.
  Proof.
    intros r c Hr Hc. unfold mxl, dense.
    pose proof (b2n_bound r) as Br. rewrite Hr in Br. pose proof (b2n_bound c) as Bc. rewrite Hc in Bc.
    rewrite (nth_indep _ [] ((fun r0 => map (fun c0 => A r0 c0) (all_bits n)) []))
      by (rewrite map_length, all_bits_len; exact Br).
    rewrite (map_nth (fun r0 => map (fun c0 => A r0 c0) (all_bits n)) (all_bits n) [] (b2n r)).
    rewrite nth_all_bits by exact Hr.
    rewrite (nth_indep _ s0 ((fun c0 => A r c0) [])) by (rewrite map_length, all_bits_len; exact Bc).
    rewrite (map_nth (fun c0 => A r c0) (all_bits n) [] (b2n c)).
    rewrite nth_all_bits by exact Hc. reflexivity.
  Qed.
End MxlDense.

Local Existing Instance ZI_laws.
(** the checker's circuit matrix is the model's *)
Theorem cm_dense_correct nw (gs : list gate_z) :
  meq nw (mxl (K:=ZI) (cm_dense nw gs)) (cmat nw (map to_cgate gs)).
Proof.
  unfold cm_dense, cmat.
  assert (G : forall gs M (X : BMx ZI), meq nw (mxl (K:=ZI) M) X ->
            meq nw (mxl (K:=ZI) (fold_left (fun M g => dense nw (cm_step nw (mxl (K:=ZI) M) (to_cgate g))) gs M))
                   (fold_left (cm_step nw) (map to_cgate gs) X)).
  { clear gs. induction gs as [|g gs IH]; intros M X H; [exact H|]. cbn [fold_left map]. apply IH.
    eapply meq_trans; [apply mxl_dense|].
    unfold cm_step. apply mmul_meq; [apply meq_refl|exact H]. }
  apply G. apply mxl_dense.
Qed.
