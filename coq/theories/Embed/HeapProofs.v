(** C05 (c): histories.  For every sequence of builder calls interleaved with mutations of the
    caller's gate objects (attribute assignment / mutators on the object itself or on targets
    reached through target_gate()/target_gates(), assignment of gate-valued fields), every
    circuit denotes the gates as they were when added -- provided every __copy__ is deep in
    its gate-valued fields.  Invariant: no object of a circuit is reachable from a caller
    handle.  Conversely a single shallow rule on a class with a gate-valued field breaks it. *)
From Qib Require Export Embed.HeapModel.
From Coq Require Import List Arith ZArith Bool Lia.
Import ListNotations.

Section GobjInd.
  Variable P : gobj -> Prop.
  Hypothesis H : forall i cls ps ks, Forall P ks -> P (GObj i cls ps ks).
  Fixpoint gobj_ind' (g : gobj) : P g :=
    match g with
    | GObj i cls ps ks =>
      H i cls ps ks ((fix f (l : list gobj) : Forall P l :=
                        match l with
                        | [] => Forall_nil _
                        | k :: l' => Forall_cons _ (gobj_ind' k) (f l')
                        end) ks)
    end.
End GobjInd.

Lemma in_flat_map_ids x ks : In x (flat_map ids ks) <-> exists k, In k ks /\ In x (ids k).
Proof. apply in_flat_map. Qed.

Lemma set_params_notin x ps g : ~ In x (ids g) -> set_params x ps g = g.
Proof.
  induction g as [i cls ps0 ks IH] using gobj_ind'. intros Hn. cbn in *.
  destruct (Nat.eqb_spec i x) as [->|Hne]; [exfalso; apply Hn; left; reflexivity|].
  f_equal. rewrite <- (map_id ks) at 2. apply map_ext_in. intros k Hk.
  rewrite Forall_forall in IH. apply IH; [exact Hk|]. intros Hx. apply Hn. right.
  apply in_flat_map. exists k. split; assumption.
Qed.
Lemma set_kid_notin x i new g : ~ In x (ids g) -> set_kid x i new g = g.
Proof.
  induction g as [j cls ps0 ks IH] using gobj_ind'. intros Hn. cbn in *.
  destruct (Nat.eqb_spec j x) as [->|Hne]; [exfalso; apply Hn; left; reflexivity|].
  f_equal. rewrite <- (map_id ks) at 2. apply map_ext_in. intros k Hk.
  rewrite Forall_forall in IH. apply IH; [exact Hk|]. intros Hx. apply Hn. right.
  apply in_flat_map. exists k. split; assumption.
Qed.
Lemma ids_set_params x ps g : ids (set_params x ps g) = ids g.
Proof.
  induction g as [i cls ps0 ks IH] using gobj_ind'. cbn. f_equal.
  induction IH as [|k ks Hk Hks IHk]; [reflexivity|]. cbn. rewrite Hk, IHk. reflexivity.
Qed.
Lemma in_replace_nth {A} (i : nat) (a : A) l y : In y (replace_nth i a l) -> y = a \/ In y l.
Proof.
  revert i; induction l as [|z l IH]; intros i Hy; [destruct i; destruct Hy|].
  destruct i; cbn in Hy.
  - destruct Hy as [<-|Hy]; [left; reflexivity|right; right; exact Hy].
  - destruct Hy as [<-|Hy]; [right; left; reflexivity|].
    destruct (IH i Hy) as [->|H']; [left; reflexivity|right; right; exact H'].
Qed.
Lemma ids_set_kid x i new g y : In y (ids (set_kid x i new g)) -> In y (ids g) \/ In y (ids new).
Proof.
  revert y. induction g as [j cls ps0 ks IH] using gobj_ind'. intros y Hy. cbn in Hy.
  destruct Hy as [<-|Hy]; [left; left; reflexivity|].
  rewrite Forall_forall in IH.
  assert (M : forall k', In k' (map (set_kid x i new) ks) -> forall z, In z (ids k') ->
                         In z (flat_map ids ks) \/ In z (ids new)).
  { intros k' Hk' z Hz. apply in_map_iff in Hk'. destruct Hk' as [k [<- Hk]].
    destruct (IH k Hk z Hz) as [A|A]; [left; apply in_flat_map; exists k; split; assumption|right; exact A]. }
  apply in_flat_map in Hy. destruct Hy as [k' [Hk' Hz]].
  destruct (Nat.eqb j x).
  - apply in_replace_nth in Hk'. destruct Hk' as [->|Hk']; [right; exact Hz|].
    destruct (M k' Hk' y Hz) as [A|A]; [left; right; exact A|right; exact A].
  - destruct (M k' Hk' y Hz) as [A|A]; [left; right; exact A|right; exact A].
Qed.

Lemma follow_ids g path t : follow g path = Some t -> In (obj_id t) (ids g).
Proof.
  revert g; induction path as [|i p IH]; intros g H; cbn in H.
  - injection H as <-. destruct g; left; reflexivity.
  - destruct (nth_error (obj_kids g) i) as [k|] eqn:E; [|discriminate].
    destruct g as [j cls ps ks]. cbn in *. right. apply in_flat_map. exists k.
    split; [eapply nth_error_In; exact E|apply IH; exact H].
Qed.

(* ------------------------------------------------------------------ copy *)
Section Copy.
  Variable deep : nat -> bool.

  Lemma copy_list_eq n l :
    (fix cl (l : list gobj) (n : nat) {struct l} : list gobj * nat :=
       match l with
       | [] => ([], n)
       | k :: l' => let '(k', n1) := copy deep n k in let '(l'', n2) := cl l' n1 in (k' :: l'', n2)
       end) l n = copy_list deep n l.
  Proof. revert n; induction l as [|k l IH]; intros n; [reflexivity|]. cbn. destruct (copy deep n k). rewrite IH. reflexivity. Qed.

  Lemma copy_unfold n i cls ps ks :
    copy deep n (GObj i cls ps ks) =
    if deep cls then let '(ks', n') := copy_list deep n ks in (GObj n' cls ps ks', Datatypes.S n')
    else (GObj n cls ps ks, Datatypes.S n).
  Proof. cbn [copy]. rewrite copy_list_eq. reflexivity. Qed.

  (** a copy denotes the same value, whatever the rules *)
  Lemma copy_erase g : forall n, erase (fst (copy deep n g)) = erase g /\ n < snd (copy deep n g).
  Proof.
    induction g as [i cls ps ks IH] using gobj_ind'. intros n. rewrite copy_unfold.
    destruct (deep cls); [|cbn; split; [reflexivity|lia]].
    assert (L : forall n, map erase (fst (copy_list deep n ks)) = map erase ks /\ n <= snd (copy_list deep n ks)).
    { clear n. induction ks as [|k ks IHk]; intros n; [cbn; split; [reflexivity|lia]|].
      inversion IH as [|? ? Hk Hks]; subst. cbn [copy_list].
      destruct (copy deep n k) as [k' n1] eqn:Ek. destruct (copy_list deep n1 ks) as [l'' n2] eqn:El.
      cbn [fst snd map]. destruct (Hk n) as [A B]. rewrite Ek in A, B. cbn in A, B.
      destruct (IHk Hks n1) as [C D]. rewrite El in C, D. cbn in C, D. split; [congruence|lia]. }
    destruct (L n) as [A B]. destruct (copy_list deep n ks) as [ks' n']. cbn in *. split; [congruence|lia].
  Qed.
  Lemma copy_list_erase l : forall n, map erase (fst (copy_list deep n l)) = map erase l /\ n <= snd (copy_list deep n l).
  Proof.
    induction l as [|k l IH]; intros n; [cbn; split; [reflexivity|lia]|]. cbn [copy_list].
    destruct (copy deep n k) as [k' n1] eqn:Ek. destruct (copy_list deep n1 l) as [l'' n2] eqn:El.
    cbn [fst snd map]. destruct (copy_erase k n) as [A B]. rewrite Ek in A, B. cbn in A, B.
    destruct (IH n1) as [C D]. rewrite El in C, D. cbn in C, D. split; [congruence|lia].
  Qed.

  (** with deep rules every object of the copy is fresh *)
  Hypothesis all_deep : forall cls, deep cls = true.
  Lemma copy_fresh g : forall n y, In y (ids (fst (copy deep n g))) -> n <= y < snd (copy deep n g).
  Proof.
    induction g as [i cls ps ks IH] using gobj_ind'. intros n y. rewrite copy_unfold, all_deep.
    assert (L : forall n y, In y (ids_l (fst (copy_list deep n ks))) -> n <= y < snd (copy_list deep n ks)).
    { clear n y. induction ks as [|k ks IHk]; intros n y; [cbn; intros []|].
      inversion IH as [|? ? Hk Hks]; subst. cbn [copy_list].
      destruct (copy deep n k) as [k' n1] eqn:Ek. destruct (copy_list deep n1 ks) as [l'' n2] eqn:El.
      cbn [fst snd]. unfold ids_l. cbn [flat_map]. intros Hy. apply in_app_or in Hy.
      pose proof (copy_erase k n) as [_ B]. rewrite Ek in B. cbn in B.
      pose proof (copy_list_erase ks n1) as [_ D]. rewrite El in D. cbn in D.
      destruct Hy as [Hy|Hy].
      - specialize (Hk n y). rewrite Ek in Hk. cbn in Hk. specialize (Hk Hy). lia.
      - specialize (IHk Hks n1 y). rewrite El in IHk. cbn in IHk. specialize (IHk Hy). lia. }
    specialize (L n). pose proof (copy_list_erase ks n) as [_ D].
    destruct (copy_list deep n ks) as [ks' n']. cbn in *. intros [<-|Hy]; [lia|].
    specialize (L y Hy). lia.
  Qed.
  Lemma copy_list_fresh l : forall n y, In y (ids_l (fst (copy_list deep n l))) -> n <= y < snd (copy_list deep n l).
  Proof.
    induction l as [|k l IH]; intros n y; [cbn; intros []|]. cbn [copy_list].
    destruct (copy deep n k) as [k' n1] eqn:Ek. destruct (copy_list deep n1 l) as [l'' n2] eqn:El.
    cbn [fst snd]. unfold ids_l. cbn [flat_map]. intros Hy. apply in_app_or in Hy.
    pose proof (copy_erase k n) as [_ B]. rewrite Ek in B. cbn in B.
    pose proof (copy_list_erase l n1) as [_ D]. rewrite El in D. cbn in D.
    destruct Hy as [Hy|Hy].
    - pose proof (copy_fresh k n y) as F. rewrite Ek in F. cbn in F. specialize (F Hy). lia.
    - specialize (IH n1 y). rewrite El in IH. cbn in IH. specialize (IH Hy). lia.
  Qed.
End Copy.

(* ------------------------------------------------------------------ invariant *)
Definition Inv (s : state) (v : list (list gval)) : Prop :=
  (forall i, In i (ids_l (handles s)) -> i < next_id s) /\
  (forall c, In c (circuits s) -> forall i, In i (ids_l c) -> i < next_id s /\ ~ In i (ids_l (handles s))) /\
  map (map erase) (circuits s) = v.

Lemma ids_l_app a b : ids_l (a ++ b) = ids_l a ++ ids_l b.
Proof. apply flat_map_app. Qed.
Lemma ids_l_in g l i : In g l -> In i (ids g) -> In i (ids_l l).
Proof. intros Hg Hi. apply in_flat_map. exists g. split; assumption. Qed.

Lemma nth_error_map' {A B} (f : A -> B) l k : nth_error (map f l) k = option_map f (nth_error l k).
Proof. revert k; induction l as [|x l IH]; intros [|k]; cbn; auto. Qed.
Lemma map_replace_nth {A B} (f : A -> B) i a l : map f (replace_nth i a l) = replace_nth i (f a) (map f l).
Proof. revert i; induction l as [|x l IH]; intros [|i]; cbn; try reflexivity. rewrite IH. reflexivity. Qed.

Lemma in_upd_circ cs k f c : In c (upd_circ cs k f) ->
  In c cs \/ exists l, nth_error cs k = Some l /\ c = f l.
Proof.
  unfold upd_circ. destruct (nth_error cs k) as [l|] eqn:E; [|left; assumption].
  intros H. apply in_replace_nth in H. destruct H as [->|H]; [right; exists l; split; reflexivity|left; exact H].
Qed.

Lemma map_set_params_id x ps (c : list gobj) : ~ In x (ids_l c) -> map (set_params x ps) c = c.
Proof.
  intros H. rewrite <- (map_id c) at 2. apply map_ext_in. intros g Hg. apply set_params_notin.
  intros Hx. apply H. apply (ids_l_in g); assumption.
Qed.
Lemma map_set_kid_id x i new (c : list gobj) : ~ In x (ids_l c) -> map (set_kid x i new) c = c.
Proof.
  intros H. rewrite <- (map_id c) at 2. apply map_ext_in. intros g Hg. apply set_kid_notin.
  intros Hx. apply H. apply (ids_l_in g); assumption.
Qed.
Lemma ids_l_set_params x ps l : ids_l (map (set_params x ps) l) = ids_l l.
Proof. unfold ids_l. induction l as [|g l IH]; [reflexivity|]. cbn. rewrite ids_set_params, IH. reflexivity. Qed.

(** a mutation of an object of the caller leaves every circuit untouched *)
Lemma circuits_untouched s v x (F : nat -> gobj -> gobj) :
  Inv s v -> In x (ids_l (handles s)) ->
  (forall c, ~ In x (ids_l c) -> map (F x) c = c) ->
  map (map (F x)) (circuits s) = circuits s.
Proof.
  intros [_ [I2 _]] Hx HF. rewrite <- (map_id (circuits s)) at 2. apply map_ext_in. intros c Hc.
  apply HF. intros Hin. destruct (I2 c Hc x Hin) as [_ N]. contradiction.
Qed.

Lemma inv_builder s v c new n' (f : list gobj -> list gobj) (fv : list gval -> list gval) :
  Inv s v -> next_id s <= n' ->
  (forall i, In i (ids_l new) -> next_id s <= i < n') ->
  (forall l i, In i (ids_l (f l)) -> In i (ids_l l) \/ In i (ids_l new)) ->
  (forall l, map erase (f l) = fv (map erase l)) ->
  Inv {| handles := handles s; circuits := upd_circ (circuits s) c f; next_id := n' |}
      (match nth_error v c with Some l => replace_nth c (fv l) v | None => v end).
Proof.
  intros [I1 [I2 I3]] Hn Hnew Hf Hfv. split; [|split]; cbn [handles circuits next_id].
  - intros i Hi. specialize (I1 i Hi). lia.
  - intros c' Hc' i Hi. apply in_upd_circ in Hc'. destruct Hc' as [Hc'|[l [El ->]]].
    + destruct (I2 c' Hc' i Hi) as [A B]. split; [lia|exact B].
    + destruct (Hf l i Hi) as [Hl|Hl].
      * apply nth_error_In in El. destruct (I2 l El i Hl) as [A B]. split; [lia|exact B].
      * specialize (Hnew i Hl). split; [lia|]. intros Hh. specialize (I1 i Hh). lia.
  - subst v. unfold upd_circ. rewrite nth_error_map'.
    destruct (nth_error (circuits s) c) as [l|]; cbn [option_map]; [|reflexivity].
    rewrite map_replace_nth, Hfv. reflexivity.
Qed.

Section Step.
  Variable deep : nat -> bool.
  Hypothesis all_deep : forall cls, deep cls = true.

  Lemma step_inv s v e : Inv s v -> Inv (step deep s e) (vstep s v e).
  Proof.
    intros I. pose proof I as [I1 [I2 I3]].
    destruct e as [cls ps kids| |h path ps|h path i h2|c h|c h|c c2|c c2]; cbn [step vstep].
    - (* ENew *)
      set (ks := flat_map _ kids).
      assert (Hks : forall i, In i (flat_map ids ks) -> In i (ids_l (handles s))).
      { intros i Hi. apply in_flat_map in Hi. destruct Hi as [k [Hk Hi]].
        unfold ks in Hk. apply in_flat_map in Hk. destruct Hk as [hh [_ Hk]].
        destruct (nth_error (handles s) hh) as [g|] eqn:E; [|destruct Hk].
        destruct Hk as [<-|[]]. apply nth_error_In in E. apply (ids_l_in g); assumption. }
      split; [|split]; cbn [handles circuits next_id].
      + intros i Hi. rewrite ids_l_app in Hi. apply in_app_or in Hi. destruct Hi as [Hi|Hi].
        * specialize (I1 i Hi). lia.
        * unfold ids_l in Hi. cbn in Hi. rewrite app_nil_r in Hi. destruct Hi as [<-|Hi]; [lia|].
          specialize (I1 i (Hks i Hi)). lia.
      + intros c Hc i Hi. destruct (I2 c Hc i Hi) as [A B]. split; [lia|].
        rewrite ids_l_app. intros Hx. apply in_app_or in Hx. destruct Hx as [Hx|Hx]; [contradiction|].
        unfold ids_l in Hx. cbn in Hx. rewrite app_nil_r in Hx. destruct Hx as [<-|Hx]; [lia|].
        apply B, Hks, Hx.
      + exact I3.
    - (* ENewCircuit *)
      split; [|split]; cbn [handles circuits next_id].
      + exact I1.
      + intros c Hc i Hi. apply in_app_or in Hc. destruct Hc as [Hc|[<-|[]]]; [apply (I2 c Hc i Hi)|destruct Hi].
      + rewrite map_app, I3. reflexivity.
    - (* EMutate *)
      destruct (nth_error (handles s) h) as [g|] eqn:Eg; [|exact I].
      destruct (follow g path) as [t|] eqn:Et; [|exact I].
      assert (Hx : In (obj_id t) (ids_l (handles s))).
      { apply nth_error_In in Eg. apply (ids_l_in g); [exact Eg|]. apply (follow_ids g path t Et). }
      rewrite (circuits_untouched s v (obj_id t) (fun x => set_params x ps) I Hx)
        by (intros c Hc; apply map_set_params_id; exact Hc).
      split; [|split]; cbn [handles circuits next_id]; rewrite ?ids_l_set_params; assumption.
    - (* ESetKid *)
      destruct (nth_error (handles s) h) as [g|] eqn:Eg; [|exact I].
      destruct (nth_error (handles s) h2) as [new|] eqn:En; [|exact I].
      destruct (follow g path) as [t|] eqn:Et; [|exact I].
      destruct (occurs (obj_id t) new); [exact I|].
      assert (Hx : In (obj_id t) (ids_l (handles s))).
      { apply nth_error_In in Eg. apply (ids_l_in g); [exact Eg|]. apply (follow_ids g path t Et). }
      rewrite (circuits_untouched s v (obj_id t) (fun x => set_kid x i new) I Hx)
        by (intros c Hc; apply map_set_kid_id; exact Hc).
      assert (Hsub : forall y, In y (ids_l (map (set_kid (obj_id t) i new) (handles s))) -> In y (ids_l (handles s))).
      { intros y Hy. apply in_flat_map in Hy. destruct Hy as [g' [Hg' Hy]].
        apply in_map_iff in Hg'. destruct Hg' as [g0 [<- Hg0]].
        apply ids_set_kid in Hy. destruct Hy as [Hy|Hy].
        - apply (ids_l_in g0); assumption.
        - apply nth_error_In in En. apply (ids_l_in new); assumption. }
      split; [|split]; cbn [handles circuits next_id].
      + intros y Hy. apply I1, Hsub, Hy.
      + intros c Hc y Hy. destruct (I2 c Hc y Hy) as [A B]. split; [exact A|]. intros Hh. apply B, Hsub, Hh.
      + exact I3.
    - (* EAppendGate *)
      destruct (nth_error (handles s) h) as [g|] eqn:Eg; [|exact I].
      pose proof (copy_erase deep g (next_id s)) as [Ee En].
      pose proof (copy_fresh deep all_deep g (next_id s)) as Fr.
      destruct (copy deep (next_id s) g) as [g' n']. cbn [fst snd] in *.
      apply (inv_builder s v c [g'] n' (fun l => l ++ [g']) (fun l => l ++ [erase g])); auto; try lia.
      + intros y Hy. unfold ids_l in Hy. cbn in Hy. rewrite app_nil_r in Hy. apply Fr, Hy.
      + intros l y Hy. rewrite ids_l_app in Hy. apply in_app_or in Hy. tauto.
      + intros l. rewrite map_app. cbn. rewrite Ee. reflexivity.
    - (* EPrependGate *)
      destruct (nth_error (handles s) h) as [g|] eqn:Eg; [|exact I].
      pose proof (copy_erase deep g (next_id s)) as [Ee En].
      pose proof (copy_fresh deep all_deep g (next_id s)) as Fr.
      destruct (copy deep (next_id s) g) as [g' n']. cbn [fst snd] in *.
      apply (inv_builder s v c [g'] n' (fun l => g' :: l) (fun l => erase g :: l)); auto; try lia.
      + intros y Hy. unfold ids_l in Hy. cbn in Hy. rewrite app_nil_r in Hy. apply Fr, Hy.
      + intros l y Hy. change (g' :: l) with ([g'] ++ l) in Hy. rewrite ids_l_app in Hy. apply in_app_or in Hy. tauto.
      + intros l. cbn. rewrite Ee. reflexivity.
    - (* EAppendCircuit *)
      rewrite <- I3, nth_error_map'.
      destruct (nth_error (circuits s) c2) as [o|] eqn:Eo; cbn [option_map]; [|rewrite I3; exact I].
      pose proof (copy_list_erase deep o (next_id s)) as [Ee En].
      pose proof (copy_list_fresh deep all_deep o (next_id s)) as Fr.
      destruct (copy_list deep (next_id s) o) as [o' n']. cbn [fst snd] in *.
      apply (inv_builder s (map (map erase) (circuits s)) c o' n' (fun l => l ++ o') (fun l => l ++ map erase o));
        [rewrite I3; exact I|exact En|exact Fr| |].
      + intros l y Hy. rewrite ids_l_app in Hy. apply in_app_or in Hy. tauto.
      + intros l. rewrite map_app, Ee. reflexivity.
    - (* EPrependCircuit *)
      rewrite <- I3, nth_error_map'.
      destruct (nth_error (circuits s) c2) as [o|] eqn:Eo; cbn [option_map]; [|rewrite I3; exact I].
      pose proof (copy_list_erase deep o (next_id s)) as [Ee En].
      pose proof (copy_list_fresh deep all_deep o (next_id s)) as Fr.
      destruct (copy_list deep (next_id s) o) as [o' n']. cbn [fst snd] in *.
      apply (inv_builder s (map (map erase) (circuits s)) c o' n' (fun l => o' ++ l) (fun l => map erase o ++ l));
        [rewrite I3; exact I|exact En|exact Fr| |].
      + intros l y Hy. rewrite ids_l_app in Hy. apply in_app_or in Hy. tauto.
      + intros l. rewrite map_app, Ee. reflexivity.
  Qed.

  Lemma vrun_inv es : forall s v, Inv s v -> Inv (fst (vrun deep s v es)) (snd (vrun deep s v es)).
  Proof. induction es as [|e es IH]; intros s v I; [exact I|]. cbn [vrun]. apply IH. apply step_inv. exact I. Qed.

  Lemma init_inv : Inv init [].
  Proof. split; [|split]; cbn; try reflexivity; intros; contradiction. Qed.

  Lemma vrun_fst es : forall s v, fst (vrun deep s v es) = fold_left (step deep) es s.
  Proof. induction es as [|e es IH]; intros s v; [reflexivity|]. cbn. apply IH. Qed.

  (** HISTORIES: after any sequence of builder calls and mutations, every circuit denotes the
      values its gates had when they were added *)
  Theorem histories_by_value es :
    map (map erase) (circuits (run deep es)) = snd (vrun deep init [] es).
  Proof.
    pose proof (vrun_inv es init [] init_inv) as [_ [_ I3]].
    rewrite vrun_fst in I3. exact I3.
  Qed.

  (** and no object of a circuit is reachable from a caller handle *)
  Theorem histories_separated es c i :
    In c (circuits (run deep es)) -> In i (ids_l c) -> ~ In i (ids_l (handles (run deep es))).
  Proof.
    pose proof (vrun_inv es init [] init_inv) as [_ [I2 _]].
    rewrite vrun_fst in I2. intros Hc Hi. apply (I2 c Hc i Hi).
  Qed.
End Step.

(** conversely: one shallow __copy__ on a class with a gate-valued field breaks by-value capture *)
Theorem shallow_copy_refuted (deep : nat -> bool) cls0 : deep cls0 = false ->
  let es := [ENew cls0 [] []; ENew cls0 [] [0]; ENewCircuit; EAppendGate 0 1; EMutate 0 [] [1%Z]] in
  map (map erase) (circuits (run deep es)) <> snd (vrun deep init [] es).
Proof.
  intros H. cbv zeta. unfold run. cbn [fold_left vrun step vstep init handles circuits next_id
    nth_error flat_map app follow obj_id obj_kids fst snd erase map].
  rewrite !copy_unfold, H. cbn. discriminate.
Qed.
