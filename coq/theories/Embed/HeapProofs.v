(** C05 (c): histories.  For every sequence of builder calls interleaved with mutations of the
    caller's gate objects (attribute assignment / mutators on the object itself or on targets
    reached through target_gate()/target_gates(), assignment of gate-valued fields), with
    circuits made by the list constructor from the caller's objects and with mutations through
    a circuit's own gate list (c.gates[i]...), every circuit that was not made by a non-copying
    list constructor denotes the gates as they were when added (and as mutated through its own
    gate list) -- provided every __copy__ is deep in its gate-valued fields.
    Invariant: the objects of such a circuit are pairwise distinct, not reachable from a caller
    handle and not shared with any other circuit.  Conversely a single shallow rule on a class
    with a gate-valued field breaks it, and so does the non-copying list constructor for the
    circuit it makes. *)
From Qib Require Export Embed.HeapModel.
From Coq Require Import List Arith ZArith Bool Lia.
Import ListNotations.

Section GobjInd.
  Variable P : gobj -> Prop.
  Hypothesis H : forall i cls ps ks, Forall P ks -> P (GObj i cls ps ks).
  Fixpoint gobj_ind' (g : gobj) : P g :=
    match g with
    | GObj i cls ps ks =>
      H i cls ps ks ((fix f (l : list gobj) : Forall P l :=
                        match l with
                        | [] => Forall_nil _
                        | k :: l' => Forall_cons _ (gobj_ind' k) (f l')
                        end) ks)
    end.
End GobjInd.

Lemma in_flat_map_ids x ks : In x (flat_map ids ks) <-> exists k, In k ks /\ In x (ids k).
Proof. apply in_flat_map. Qed.

Lemma set_params_notin x ps g : ~ In x (ids g) -> set_params x ps g = g.
Proof.
  induction g as [i cls ps0 ks IH] using gobj_ind'. intros Hn. cbn in *.
  destruct (Nat.eqb_spec i x) as [->|Hne]; [exfalso; apply Hn; left; reflexivity|].
  f_equal. rewrite <- (map_id ks) at 2. apply map_ext_in. intros k Hk.
  rewrite Forall_forall in IH. apply IH; [exact Hk|]. intros Hx. apply Hn. right.
  apply in_flat_map. exists k. split; assumption.
Qed.
Lemma set_kid_notin x i new g : ~ In x (ids g) -> set_kid x i new g = g.
Proof.
  induction g as [j cls ps0 ks IH] using gobj_ind'. intros Hn. cbn in *.
  destruct (Nat.eqb_spec j x) as [->|Hne]; [exfalso; apply Hn; left; reflexivity|].
  f_equal. rewrite <- (map_id ks) at 2. apply map_ext_in. intros k Hk.
  rewrite Forall_forall in IH. apply IH; [exact Hk|]. intros Hx. apply Hn. right.
  apply in_flat_map. exists k. split; assumption.
Qed.
Lemma ids_set_params x ps g : ids (set_params x ps g) = ids g.
Proof.
  induction g as [i cls ps0 ks IH] using gobj_ind'. cbn. f_equal.
  induction IH as [|k ks Hk Hks IHk]; [reflexivity|]. cbn. rewrite Hk, IHk. reflexivity.
Qed.
Lemma in_replace_nth {A} (i : nat) (a : A) l y : In y (replace_nth i a l) -> y = a \/ In y l.
Proof.
  revert i; induction l as [|z l IH]; intros i Hy; [destruct i; destruct Hy|].
  destruct i; cbn in Hy.
  - destruct Hy as [<-|Hy]; [left; reflexivity|right; right; exact Hy].
  - destruct Hy as [<-|Hy]; [right; left; reflexivity|].
    destruct (IH i Hy) as [->|H']; [left; reflexivity|right; right; exact H'].
Qed.
Lemma ids_set_kid x i new g y : In y (ids (set_kid x i new g)) -> In y (ids g) \/ In y (ids new).
Proof.
  revert y. induction g as [j cls ps0 ks IH] using gobj_ind'. intros y Hy. cbn in Hy.
  destruct Hy as [<-|Hy]; [left; left; reflexivity|].
  rewrite Forall_forall in IH.
  assert (M : forall k', In k' (map (set_kid x i new) ks) -> forall z, In z (ids k') ->
                         In z (flat_map ids ks) \/ In z (ids new)).
  { intros k' Hk' z Hz. apply in_map_iff in Hk'. destruct Hk' as [k [<- Hk]].
    destruct (IH k Hk z Hz) as [A|A]; [left; apply in_flat_map; exists k; split; assumption|right; exact A]. }
  apply in_flat_map in Hy. destruct Hy as [k' [Hk' Hz]].
  destruct (Nat.eqb j x).
  - apply in_replace_nth in Hk'. destruct Hk' as [->|Hk']; [right; exact Hz|].
    destruct (M k' Hk' y Hz) as [A|A]; [left; right; exact A|right; exact A].
  - destruct (M k' Hk' y Hz) as [A|A]; [left; right; exact A|right; exact A].
Qed.

Lemma follow_ids g path t : follow g path = Some t -> In (obj_id t) (ids g).
Proof.
  revert g; induction path as [|i p IH]; intros g H; cbn in H.
  - injection H as <-. destruct g; left; reflexivity.
  - destruct (nth_error (obj_kids g) i) as [k|] eqn:E; [|discriminate].
    destruct g as [j cls ps ks]. cbn in *. right. apply in_flat_map. exists k.
    split; [eapply nth_error_In; exact E|apply IH; exact H].
Qed.


Lemma nodup_app {A} (a b : list A) : NoDup a -> NoDup b -> (forall x, In x a -> ~ In x b) -> NoDup (a ++ b).
Proof.
  induction a as [|y a IH]; intros Ha Hb Hd; [exact Hb|]. inversion Ha as [|? ? Hy Ha']; subst. cbn. constructor.
  - intros Hin. apply in_app_or in Hin. destruct Hin as [Hin|Hin]; [contradiction|]. apply (Hd y); [left; reflexivity|exact Hin].
  - apply IH; [exact Ha'|exact Hb|]. intros x Hx. apply Hd. right. exact Hx.
Qed.
Lemma nodup_app_inv {A} (a b : list A) : NoDup (a ++ b) -> NoDup a /\ NoDup b /\ (forall x, In x a -> ~ In x b).
Proof.
  induction a as [|y a IH]; intros H; [split; [constructor|split; [exact H|intros x []]]|].
  cbn in H. inversion H as [|? ? Hy H']; subst. destruct (IH H') as [A1 [A2 A3]]. split; [|split; [exact A2|]].
  - constructor; [|exact A1]. intros Hin. apply Hy. apply in_or_app. left. exact Hin.
  - intros x [<-|Hx] Hb; [apply Hy; apply in_or_app; right; exact Hb|apply (A3 x Hx Hb)].
Qed.

(* ------------------------------------------------------------------ copy *)
Section Copy.
  Variable deep : nat -> bool.

  Lemma copy_list_eq n l :
    (fix cl (l : list gobj) (n : nat) {struct l} : list gobj * nat :=
       match l with
       | [] => ([], n)
       | k :: l' => let '(k', n1) := copy deep n k in let '(l'', n2) := cl l' n1 in (k' :: l'', n2)
       end) l n = copy_list deep n l.
  Proof. revert n; induction l as [|k l IH]; intros n; [reflexivity|]. cbn. destruct (copy deep n k). rewrite IH. reflexivity. Qed.

  Lemma copy_unfold n i cls ps ks :
    copy deep n (GObj i cls ps ks) =
    if deep cls then let '(ks', n') := copy_list deep n ks in (GObj n' cls ps ks', Datatypes.S n')
    else (GObj n cls ps ks, Datatypes.S n).
  Proof. cbn [copy]. rewrite copy_list_eq. reflexivity. Qed.

  (** a copy denotes the same value, whatever the rules *)
  Lemma copy_erase g : forall n, erase (fst (copy deep n g)) = erase g /\ n < snd (copy deep n g).
  Proof.
    induction g as [i cls ps ks IH] using gobj_ind'. intros n. rewrite copy_unfold.
    destruct (deep cls); [|cbn; split; [reflexivity|lia]].
    assert (L : forall n, map erase (fst (copy_list deep n ks)) = map erase ks /\ n <= snd (copy_list deep n ks)).
    { clear n. induction ks as [|k ks IHk]; intros n; [cbn; split; [reflexivity|lia]|].
      inversion IH as [|? ? Hk Hks]; subst. cbn [copy_list].
      destruct (copy deep n k) as [k' n1] eqn:Ek. destruct (copy_list deep n1 ks) as [l'' n2] eqn:El.
      cbn [fst snd map]. destruct (Hk n) as [A B]. rewrite Ek in A, B. cbn in A, B.
      destruct (IHk Hks n1) as [C D]. rewrite El in C, D. cbn in C, D. split; [congruence|lia]. }
    destruct (L n) as [A B]. destruct (copy_list deep n ks) as [ks' n']. cbn in *. split; [congruence|lia].
  Qed.
  Lemma copy_list_erase l : forall n, map erase (fst (copy_list deep n l)) = map erase l /\ n <= snd (copy_list deep n l).
  Proof.
    induction l as [|k l IH]; intros n; [cbn; split; [reflexivity|lia]|]. cbn [copy_list].
    destruct (copy deep n k) as [k' n1] eqn:Ek. destruct (copy_list deep n1 l) as [l'' n2] eqn:El.
    cbn [fst snd map]. destruct (copy_erase k n) as [A B]. rewrite Ek in A, B. cbn in A, B.
    destruct (IH n1) as [C D]. rewrite El in C, D. cbn in C, D. split; [congruence|lia].
  Qed.

  (** with deep rules every object of the copy is fresh *)
  Hypothesis all_deep : forall cls, deep cls = true.
  Lemma copy_fresh g : forall n y, In y (ids (fst (copy deep n g))) -> n <= y < snd (copy deep n g).
  Proof.
    induction g as [i cls ps ks IH] using gobj_ind'. intros n y. rewrite copy_unfold, all_deep.
    assert (L : forall n y, In y (ids_l (fst (copy_list deep n ks))) -> n <= y < snd (copy_list deep n ks)).
    { clear n y. induction ks as [|k ks IHk]; intros n y; [cbn; intros []|].
      inversion IH as [|? ? Hk Hks]; subst. cbn [copy_list].
      destruct (copy deep n k) as [k' n1] eqn:Ek. destruct (copy_list deep n1 ks) as [l'' n2] eqn:El.
      cbn [fst snd]. unfold ids_l. cbn [flat_map]. intros Hy. apply in_app_or in Hy.
      pose proof (copy_erase k n) as [_ B]. rewrite Ek in B. cbn in B.
      pose proof (copy_list_erase ks n1) as [_ D]. rewrite El in D. cbn in D.
      destruct Hy as [Hy|Hy].
      - specialize (Hk n y). rewrite Ek in Hk. cbn in Hk. specialize (Hk Hy). lia.
      - specialize (IHk Hks n1 y). rewrite El in IHk. cbn in IHk. specialize (IHk Hy). lia. }
    specialize (L n). pose proof (copy_list_erase ks n) as [_ D].
    destruct (copy_list deep n ks) as [ks' n']. cbn in *. intros [<-|Hy]; [lia|].
    specialize (L y Hy). lia.
  Qed.
  Lemma copy_list_fresh l : forall n y, In y (ids_l (fst (copy_list deep n l))) -> n <= y < snd (copy_list deep n l).
  Proof.
    induction l as [|k l IH]; intros n y; [cbn; intros []|]. cbn [copy_list].
    destruct (copy deep n k) as [k' n1] eqn:Ek. destruct (copy_list deep n1 l) as [l'' n2] eqn:El.
    cbn [fst snd]. unfold ids_l. cbn [flat_map]. intros Hy. apply in_app_or in Hy.
    pose proof (copy_erase k n) as [_ B]. rewrite Ek in B. cbn in B.
    pose proof (copy_list_erase l n1) as [_ D]. rewrite El in D. cbn in D.
    destruct Hy as [Hy|Hy].
    - pose proof (copy_fresh k n y) as F. rewrite Ek in F. cbn in F. specialize (F Hy). lia.
    - specialize (IH n1 y). rewrite El in IH. cbn in IH. specialize (IH Hy). lia.
  Qed.
  Lemma copy_list_nodup_aux l :
    Forall (fun g => forall n, NoDup (ids (fst (copy deep n g)))) l ->
    forall n, NoDup (ids_l (fst (copy_list deep n l))).
  Proof.
    induction l as [|k l IH]; intros HF n; [constructor|]. inversion HF as [|? ? Hk Hl]; subst. cbn [copy_list].
    destruct (copy deep n k) as [k' n1] eqn:Ek. destruct (copy_list deep n1 l) as [l'' n2] eqn:El.
    cbn [fst]. unfold ids_l. cbn [flat_map]. apply nodup_app.
    - specialize (Hk n). rewrite Ek in Hk. exact Hk.
    - specialize (IH Hl n1). rewrite El in IH. exact IH.
    - intros x Hx Hy.
      pose proof (copy_fresh k n x) as F1. rewrite Ek in F1. cbn in F1. specialize (F1 Hx).
      pose proof (copy_list_fresh l n1 x) as F2. rewrite El in F2. cbn in F2. specialize (F2 Hy). lia.
  Qed.
  Lemma copy_nodup g : forall n, NoDup (ids (fst (copy deep n g))).
  Proof.
    induction g as [i cls ps ks IH] using gobj_ind'. intros n. rewrite copy_unfold, all_deep.
    pose proof (copy_list_nodup_aux ks IH n) as ND.
    pose proof (copy_list_fresh ks n) as Fr.
    destruct (copy_list deep n ks) as [ks' n']. cbn [fst snd ids] in *. constructor; [|exact ND].
    intros Hin. specialize (Fr n' Hin). lia.
  Qed.
  Lemma copy_list_nodup l n : NoDup (ids_l (fst (copy_list deep n l))).
  Proof. apply copy_list_nodup_aux. apply Forall_forall. intros g _. apply copy_nodup. Qed.
End Copy.

(* ------------------------------------------------------------------ lists, indices *)
Lemma ids_l_app a b : ids_l (a ++ b) = ids_l a ++ ids_l b.
Proof. apply flat_map_app. Qed.
Lemma ids_l_in g l i : In g l -> In i (ids g) -> In i (ids_l l).
Proof. intros Hg Hi. apply in_flat_map. exists g. split; assumption. Qed.

Lemma nth_error_map' {A B} (f : A -> B) l k : nth_error (map f l) k = option_map f (nth_error l k).
Proof. revert k; induction l as [|x l IH]; intros [|k]; cbn; auto. Qed.
Lemma map_replace_nth {A B} (f : A -> B) i a l : map f (replace_nth i a l) = replace_nth i (f a) (map f l).
Proof. revert i; induction l as [|x l IH]; intros [|i]; cbn; try reflexivity. rewrite IH. reflexivity. Qed.
Lemma length_replace_nth {A} i (a : A) l : length (replace_nth i a l) = length l.
Proof. revert i; induction l as [|x l IH]; intros [|i]; cbn; auto. Qed.
Lemma replace_nth_same {A} i (a : A) l : nth_error l i = Some a -> replace_nth i a l = l.
Proof. revert i; induction l as [|x l IH]; intros [|i] H; cbn in *; try discriminate; [congruence|]. rewrite IH by exact H. reflexivity. Qed.
Lemma nth_error_replace_nth {A} (l : list A) c c' a :
  nth_error (replace_nth c a l) c' = if Nat.eqb c' c then option_map (fun _ => a) (nth_error l c') else nth_error l c'.
Proof.
  revert c c'; induction l as [|x l IH]; intros c c'.
  - replace (replace_nth c a []) with (@nil A) by (destruct c; reflexivity).
    destruct (Nat.eqb c' c); destruct c'; reflexivity.
  - destruct c as [|c], c' as [|c']; cbn [replace_nth nth_error Nat.eqb option_map]; try reflexivity. apply IH.
Qed.
Lemma nth_error_snoc {A} (l : list A) a c :
  nth_error (l ++ [a]) c = if Nat.ltb c (length l) then nth_error l c else if Nat.eqb c (length l) then Some a else None.
Proof.
  destruct (Nat.ltb_spec c (length l)) as [H|H]; [apply nth_error_app1; exact H|].
  rewrite nth_error_app2 by exact H. destruct (Nat.eqb_spec c (length l)) as [->|Hne].
  - rewrite Nat.sub_diag. reflexivity.
  - destruct (c - length l) as [|k] eqn:E; [lia|]. destruct k; reflexivity.
Qed.
Lemma nth_error_lt {A} (l : list A) c x : nth_error l c = Some x -> c < length l.
Proof. intros H. apply nth_error_Some. rewrite H. discriminate. Qed.

Lemma nth_upd_circ cs c f c' :
  nth_error (upd_circ cs c f) c' = if Nat.eqb c' c then option_map f (nth_error cs c') else nth_error cs c'.
Proof.
  unfold upd_circ. destruct (nth_error cs c) as [l|] eqn:E.
  - rewrite nth_error_replace_nth. destruct (Nat.eqb_spec c' c) as [->|]; [rewrite E|]; reflexivity.
  - destruct (Nat.eqb_spec c' c) as [->|]; [rewrite E|]; reflexivity.
Qed.
Lemma length_upd_circ cs c f : length (upd_circ cs c f) = length cs.
Proof. unfold upd_circ. destruct (nth_error cs c); [apply length_replace_nth|reflexivity]. Qed.
Lemma nth_gupd gh c f c' :
  nth_error (gupd gh c f) c' =
  if Nat.eqb c' c then option_map (fun bl => (fst bl, f (snd bl))) (nth_error gh c') else nth_error gh c'.
Proof.
  unfold gupd. destruct (nth_error gh c) as [[b l]|] eqn:E.
  - rewrite nth_error_replace_nth. destruct (Nat.eqb_spec c' c) as [->|]; [rewrite E|]; reflexivity.
  - destruct (Nat.eqb_spec c' c) as [->|]; [rewrite E|]; reflexivity.
Qed.
Lemma length_gupd gh c f : length (gupd gh c f) = length gh.
Proof. unfold gupd. destruct (nth_error gh c) as [[b l]|]; [apply length_replace_nth|reflexivity]. Qed.

Lemma map_set_params_id x ps (c : list gobj) : ~ In x (ids_l c) -> map (set_params x ps) c = c.
Proof.
  intros H. rewrite <- (map_id c) at 2. apply map_ext_in. intros g Hg. apply set_params_notin.
  intros Hx. apply H. apply (ids_l_in g); assumption.
Qed.
Lemma map_set_kid_id x i new (c : list gobj) : ~ In x (ids_l c) -> map (set_kid x i new) c = c.
Proof.
  intros H. rewrite <- (map_id c) at 2. apply map_ext_in. intros g Hg. apply set_kid_notin.
  intros Hx. apply H. apply (ids_l_in g); assumption.
Qed.
Lemma ids_l_set_params x ps l : ids_l (map (set_params x ps) l) = ids_l l.
Proof. unfold ids_l. induction l as [|g l IH]; [reflexivity|]. cbn. rewrite ids_set_params, IH. reflexivity. Qed.

Lemma nodup_ids_l_in l g : NoDup (ids_l l) -> In g l -> NoDup (ids g).
Proof.
  induction l as [|g0 l IH]; intros ND Hin; [destruct Hin|]. destruct Hin as [<-|Hg].
  - unfold ids_l in ND. cbn in ND. apply nodup_app_inv in ND. tauto.
  - unfold ids_l in ND. cbn in ND. apply nodup_app_inv in ND. apply IH; tauto.
Qed.

(** in a list of pairwise distinct objects a relabelling touches exactly the object that carries the label *)
Lemma map_set_params_at x ps : forall (l : list gobj) i g,
  NoDup (ids_l l) -> nth_error l i = Some g -> In x (ids g) ->
  map (set_params x ps) l = replace_nth i (set_params x ps g) l.
Proof.
  induction l as [|g0 l IH]; intros i g ND Hn Hx; [destruct i; discriminate|].
  unfold ids_l in ND. cbn [flat_map] in ND. apply nodup_app_inv in ND. destruct ND as [N0 [Nl Nd]].
  destruct i as [|i]; cbn in Hn.
  - injection Hn as ->. cbn [map replace_nth]. f_equal. apply map_set_params_id. apply Nd. exact Hx.
  - cbn [map replace_nth]. f_equal.
    + apply set_params_notin. intros H0. apply (Nd x H0). apply (ids_l_in g); [eapply nth_error_In; exact Hn|exact Hx].
    + apply IH; assumption.
Qed.

(** a mutation at the end of a path, on an object graph without sharing, is the value-level [vset] *)
Lemma erase_set_params_follow ps : forall path g t,
  NoDup (ids g) -> follow g path = Some t -> erase (set_params (obj_id t) ps g) = vset path ps (erase g).
Proof.
  induction path as [|i path IH]; intros [j cls p0 ks] t ND H; cbn [follow] in H.
  - injection H as <-. cbn [obj_id set_params erase vset]. rewrite Nat.eqb_refl. f_equal. f_equal.
    apply map_set_params_id. cbn [ids] in ND. inversion ND; assumption.
  - cbn [obj_kids] in H. destruct (nth_error ks i) as [k|] eqn:Ek; [|discriminate].
    pose proof (follow_ids k path t H) as Hx. cbn [ids] in ND. inversion ND as [|? ? Hj Nks]; subst.
    assert (Hxin : In (obj_id t) (flat_map ids ks)) by (apply (ids_l_in k); [eapply nth_error_In; exact Ek|exact Hx]).
    cbn [set_params erase vset]. destruct (Nat.eqb_spec j (obj_id t)) as [->|Hne]; [contradiction|].
    rewrite (map_set_params_at (obj_id t) ps ks i k Nks Ek Hx), map_replace_nth, nth_error_map', Ek. cbn [option_map].
    rewrite (IH k t); [reflexivity| |exact H]. apply (nodup_ids_l_in ks); [exact Nks|eapply nth_error_In; exact Ek].
Qed.
Lemma vset_follow_none ps : forall path g, follow g path = None -> vset path ps (erase g) = erase g.
Proof.
  induction path as [|i path IH]; intros [j cls p0 ks] H; cbn [follow] in H; [discriminate|].
  cbn [obj_kids] in H. cbn [erase vset]. rewrite nth_error_map'.
  destruct (nth_error ks i) as [k|] eqn:Ek; cbn [option_map]; [|reflexivity].
  rewrite (IH k H). rewrite replace_nth_same; [reflexivity|]. rewrite nth_error_map', Ek. reflexivity.
Qed.
Lemma erase_relabel_circuit ps l i g path t :
  NoDup (ids_l l) -> nth_error l i = Some g -> follow g path = Some t ->
  map erase (map (set_params (obj_id t) ps) l) = replace_nth i (vset path ps (erase g)) (map erase l).
Proof.
  intros ND Hn Hf. rewrite (map_set_params_at (obj_id t) ps l i g ND Hn (follow_ids g path t Hf)), map_replace_nth.
  rewrite (erase_set_params_follow ps path g t); [reflexivity| |exact Hf].
  apply (nodup_ids_l_in l); [exact ND|eapply nth_error_In; exact Hn].
Qed.

(* ------------------------------------------------------------------ invariant *)
(** [pure]: the circuit is held by value.  Its objects are pairwise distinct, below next_id, not
    reachable from a caller handle, not shared with any other circuit, and denote the ghost value. *)
Definition Inv (s : state) (gh : ghost) : Prop :=
  length gh = length (circuits s) /\
  (forall x, In x (ids_l (handles s)) -> x < next_id s) /\
  (forall c l x, nth_error (circuits s) c = Some l -> In x (ids_l l) -> x < next_id s) /\
  (forall c l vl, nth_error (circuits s) c = Some l -> nth_error gh c = Some (true, vl) ->
     NoDup (ids_l l) /\ map erase l = vl /\
     (forall x, In x (ids_l l) -> ~ In x (ids_l (handles s))) /\
     (forall x c' l', In x (ids_l l) -> c' <> c -> nth_error (circuits s) c' = Some l' -> ~ In x (ids_l l'))).

Lemma init_inv : Inv init [].
Proof.
  split; [reflexivity|]. split; [intros x []|]. split; intros c; destruct c; cbn; intros; discriminate.
Qed.

(** relabelling events (attribute assignment on some object, anywhere in the heap) *)
Lemma inv_relabel s gh (F : gobj -> gobj) gh' :
  Inv s gh ->
  (forall g y, In y (ids (F g)) -> In y (ids g) \/ In y (ids_l (handles s))) ->
  length gh' = length gh ->
  (forall c l vl', nth_error (circuits s) c = Some l -> nth_error gh' c = Some (true, vl') ->
     exists vl, nth_error gh c = Some (true, vl) /\ ids_l (map F l) = ids_l l /\ map erase (map F l) = vl') ->
  Inv (relabel F s) gh'.
Proof.
  intros [I0 [I1 [I2 I3]]] HF Hlen Hp.
  assert (HFl : forall l y, In y (ids_l (map F l)) -> In y (ids_l l) \/ In y (ids_l (handles s))).
  { intros l y Hy. apply in_flat_map in Hy. destruct Hy as [g' [Hg' Hy]]. apply in_map_iff in Hg'.
    destruct Hg' as [g [<- Hg]]. destruct (HF g y Hy) as [A|A]; [left; apply (ids_l_in g); assumption|right; exact A]. }
  split; [|split; [|split]]; cbn [relabel handles circuits next_id].
  - rewrite map_length. congruence.
  - intros x Hx. destruct (HFl _ x Hx) as [A|A]; apply I1; exact A.
  - intros c l x Hc Hx. rewrite nth_error_map' in Hc. destruct (nth_error (circuits s) c) as [l0|] eqn:E; [|discriminate].
    injection Hc as <-. destruct (HFl _ x Hx) as [A|A]; [apply (I2 c l0 x E A)|apply I1; exact A].
  - intros c l vl' Hc Hg. rewrite nth_error_map' in Hc. destruct (nth_error (circuits s) c) as [l0|] eqn:E; [|discriminate].
    injection Hc as <-. destruct (Hp c l0 vl' E Hg) as [vl [Hgh [Hids Her]]].
    destruct (I3 c l0 vl E Hgh) as [P1 [P2 [P3 P4]]]. rewrite Hids. split; [exact P1|]. split; [exact Her|]. split.
    + intros x Hx Hh. destruct (HFl _ x Hh) as [A|A]; apply (P3 x Hx A).
    + intros x c' l' Hx Hne Hc'. rewrite nth_error_map' in Hc'.
      destruct (nth_error (circuits s) c') as [l1|] eqn:E1; [|discriminate]. injection Hc' as <-.
      intros Hin. destruct (HFl _ x Hin) as [A|A]; [apply (P4 x c' l1 Hx Hne E1 A)|apply (P3 x Hx A)].
Qed.

(** builder calls: fresh, pairwise distinct copies are put at one end of circuit c *)
Lemma inv_builder s gh c new n' (f : list gobj -> list gobj) (fv : list gval -> list gval) :
  Inv s gh -> next_id s <= n' ->
  (forall x, In x (ids_l new) -> next_id s <= x < n') ->
  NoDup (ids_l new) ->
  (forall l x, In x (ids_l (f l)) <-> In x (ids_l l) \/ In x (ids_l new)) ->
  (forall l, NoDup (ids_l l) -> (forall x, In x (ids_l l) -> ~ In x (ids_l new)) -> NoDup (ids_l (f l))) ->
  (forall l, map erase (f l) = fv (map erase l)) ->
  Inv {| handles := handles s; circuits := upd_circ (circuits s) c f; next_id := n' |} (gupd gh c fv).
Proof.
  intros [I0 [I1 [I2 I3]]] Hn Hnew NDnew Hf Hnd Hfv.
  split; [|split; [|split]]; cbn [handles circuits next_id].
  - rewrite length_gupd, length_upd_circ. exact I0.
  - intros x Hx. specialize (I1 x Hx). lia.
  - intros c1 l1 x Hc Hx. rewrite nth_upd_circ in Hc. destruct (Nat.eqb_spec c1 c) as [->|Hne].
    + destruct (nth_error (circuits s) c) as [l|] eqn:E; [|discriminate]. injection Hc as <-.
      apply Hf in Hx. destruct Hx as [A|A]; [specialize (I2 c l x E A); lia|specialize (Hnew x A); lia].
    + specialize (I2 c1 l1 x Hc Hx). lia.
  - intros c1 l1 vl1 Hc Hg. rewrite nth_upd_circ in Hc. rewrite nth_gupd in Hg.
    destruct (Nat.eqb_spec c1 c) as [->|Hne].
    + destruct (nth_error (circuits s) c) as [l|] eqn:E; [|discriminate]. injection Hc as <-.
      destruct (nth_error gh c) as [[b vl]|] eqn:Eg; [|discriminate]. cbn in Hg. injection Hg as -> <-.
      destruct (I3 c l vl E Eg) as [P1 [P2 [P3 P4]]].
      assert (Hdis : forall x, In x (ids_l l) -> ~ In x (ids_l new)).
      { intros x Hx Hy. specialize (I2 c l x E Hx). specialize (Hnew x Hy). lia. }
      split; [apply Hnd; assumption|]. split; [rewrite Hfv, P2; reflexivity|]. split.
      * intros x Hx Hh. apply Hf in Hx. destruct Hx as [A|A]; [apply (P3 x A Hh)|].
        specialize (I1 x Hh). specialize (Hnew x A). lia.
      * intros x c' l' Hx Hne Hc'. rewrite nth_upd_circ in Hc'. destruct (Nat.eqb_spec c' c) as [->|_]; [contradiction|].
        apply Hf in Hx. destruct Hx as [A|A]; [apply (P4 x c' l' A Hne Hc')|].
        intros Hin. specialize (I2 c' l' x Hc' Hin). specialize (Hnew x A). lia.
    + destruct (I3 c1 l1 vl1 Hc Hg) as [P1 [P2 [P3 P4]]]. split; [exact P1|]. split; [exact P2|]. split; [exact P3|].
      intros x c' l' Hx Hne' Hc'. rewrite nth_upd_circ in Hc'. destruct (Nat.eqb_spec c' c) as [->|Hne2].
      * destruct (nth_error (circuits s) c) as [l|] eqn:E; [|discriminate]. injection Hc' as <-.
        intros Hin. apply Hf in Hin. destruct Hin as [A|A]; [apply (P4 x c l Hx Hne' E A)|].
        specialize (I2 c1 l1 x Hc Hx). specialize (Hnew x A). lia.
      * apply (P4 x c' l' Hx Hne' Hc').
Qed.

(** a new circuit at the end: either made of fresh pairwise distinct objects (by value) or of caller objects *)
Lemma inv_snoc s gh o b vl n' :
  Inv s gh -> next_id s <= n' ->
  (forall x, In x (ids_l o) -> (In x (ids_l (handles s)) /\ b = false) \/ next_id s <= x < n') ->
  (b = true -> NoDup (ids_l o) /\ map erase o = vl) ->
  Inv {| handles := handles s; circuits := circuits s ++ [o]; next_id := n' |} (gh ++ [(b, vl)]).
Proof.
  intros [I0 [I1 [I2 I3]]] Hn Ho Hb.
  split; [|split; [|split]]; cbn [handles circuits next_id].
  - rewrite !app_length, I0. reflexivity.
  - intros x Hx. specialize (I1 x Hx). lia.
  - intros c l x Hc Hx. rewrite nth_error_snoc in Hc. destruct (Nat.ltb c (length (circuits s))).
    + specialize (I2 c l x Hc Hx). lia.
    + destruct (Nat.eqb c (length (circuits s))); [|discriminate]. injection Hc as <-.
      destruct (Ho x Hx) as [[A _]|A]; [specialize (I1 x A); lia|lia].
  - intros c l vl1 Hc Hg. rewrite nth_error_snoc in Hc. rewrite nth_error_snoc in Hg. rewrite I0 in Hg.
    destruct (Nat.ltb_spec c (length (circuits s))) as [Hlt|Hge].
    + destruct (I3 c l vl1 Hc Hg) as [P1 [P2 [P3 P4]]]. split; [exact P1|]. split; [exact P2|]. split; [exact P3|].
      intros x c' l' Hx Hne Hc'. rewrite nth_error_snoc in Hc'. destruct (Nat.ltb c' (length (circuits s))).
      * apply (P4 x c' l' Hx Hne Hc').
      * destruct (Nat.eqb c' (length (circuits s))); [|discriminate]. injection Hc' as <-.
        intros Hin. destruct (Ho x Hin) as [[A _]|A]; [apply (P3 x Hx A)|specialize (I2 c l x Hc Hx); lia].
    + destruct (Nat.eqb_spec c (length (circuits s))) as [->|]; [|discriminate]. injection Hc as <-. injection Hg as -> <-.
      destruct (Hb eq_refl) as [B1 B2]. split; [exact B1|]. split; [exact B2|].
      assert (Hfresh : forall x, In x (ids_l o) -> next_id s <= x).
      { intros x Hx. destruct (Ho x Hx) as [[_ A]|A]; [discriminate|lia]. }
      split.
      * intros x Hx Hh. specialize (Hfresh x Hx). specialize (I1 x Hh). lia.
      * intros x c' l' Hx Hne Hc'. rewrite nth_error_snoc in Hc'. destruct (Nat.ltb_spec c' (length (circuits s))).
        -- intros Hin. specialize (Hfresh x Hx). specialize (I2 c' l' x Hc' Hin). lia.
        -- destruct (Nat.eqb_spec c' (length (circuits s))); [contradiction|discriminate].
Qed.

(** the ghost may change on circuits that are not by value, and be restated on those that are *)
Lemma inv_ghost s gh gh' :
  Inv s gh -> length gh' = length gh ->
  (forall c l vl', nth_error (circuits s) c = Some l -> nth_error gh' c = Some (true, vl') ->
     exists vl, nth_error gh c = Some (true, vl) /\ map erase l = vl') ->
  Inv s gh'.
Proof.
  intros [I0 [I1 [I2 I3]]] Hlen Hp. split; [congruence|]. split; [exact I1|]. split; [exact I2|].
  intros c l vl' Hc Hg. destruct (Hp c l vl' Hc Hg) as [vl [Hgh Her]].
  destruct (I3 c l vl Hc Hgh) as [P1 [_ [P3 P4]]]. split; [exact P1|]. split; [exact Her|]. split; [exact P3|exact P4].
Qed.

Lemma objs_of_ids s hs x : In x (ids_l (objs_of s hs)) -> In x (ids_l (handles s)).
Proof.
  intros Hi. apply in_flat_map in Hi. destruct Hi as [k [Hk Hi]]. unfold objs_of in Hk. apply in_flat_map in Hk.
  destruct Hk as [hh [_ Hk]]. destruct (nth_error (handles s) hh) as [g|] eqn:E; [|destruct Hk].
  destruct Hk as [<-|[]]. apply nth_error_In in E. apply (ids_l_in g); assumption.
Qed.

Section Step.
  Variable deep : nat -> bool.
  Variable ctor : bool.
  Hypothesis all_deep : forall cls, deep cls = true.

  Lemma step_inv s gh e : Inv s gh -> Inv (step deep ctor s e) (vstep ctor s gh e).
  Proof.
    intros I. pose proof I as [I0 [I1 [I2 I3]]].
    destruct e as [cls ps kids| |h path ps|h path i h2|c h|c h|c c2|c c2|hs|c i path ps]; cbn [step vstep].
    - (* ENew *)
      split; [|split; [|split]]; cbn [handles circuits next_id].
      + exact I0.
      + intros x Hx. rewrite ids_l_app in Hx. apply in_app_or in Hx. destruct Hx as [Hx|Hx]; [specialize (I1 x Hx); lia|].
        unfold ids_l in Hx. cbn in Hx. rewrite app_nil_r in Hx. destruct Hx as [<-|Hx]; [lia|].
        specialize (I1 x (objs_of_ids s kids x Hx)). lia.
      + intros c l x Hc Hx. specialize (I2 c l x Hc Hx). lia.
      + intros c l vl Hc Hg. destruct (I3 c l vl Hc Hg) as [P1 [P2 [P3 P4]]]. split; [exact P1|]. split; [exact P2|].
        split; [|exact P4]. intros x Hx Hh. rewrite ids_l_app in Hh. apply in_app_or in Hh.
        destruct Hh as [Hh|Hh]; [apply (P3 x Hx Hh)|]. unfold ids_l in Hh. cbn in Hh. rewrite app_nil_r in Hh.
        destruct Hh as [<-|Hh]; [specialize (I2 c l _ Hc Hx); lia|apply (P3 x Hx (objs_of_ids s kids x Hh))].
    - (* ENewCircuit *)
      apply (inv_snoc s gh [] true [] (next_id s) I); [lia|intros x []|intros _; split; [constructor|reflexivity]].
    - (* EMutate *)
      destruct (nth_error (handles s) h) as [g|] eqn:Eg; [|exact I].
      destruct (follow g path) as [t|] eqn:Et; [|exact I].
      assert (Hx : In (obj_id t) (ids_l (handles s))).
      { apply nth_error_In in Eg. apply (ids_l_in g); [exact Eg|]. apply (follow_ids g path t Et). }
      apply (inv_relabel s gh _ gh I); [intros g0 y Hy; left; rewrite ids_set_params in Hy; exact Hy|reflexivity|].
      intros c l vl' Hc Hg. exists vl'. split; [exact Hg|]. split; [apply ids_l_set_params|].
      destruct (I3 c l vl' Hc Hg) as [_ [P2 [P3 _]]]. rewrite map_set_params_id; [exact P2|].
      intros Hin. apply (P3 _ Hin Hx).
    - (* ESetKid *)
      destruct (nth_error (handles s) h) as [g|] eqn:Eg; [|exact I].
      destruct (nth_error (handles s) h2) as [new|] eqn:En; [|exact I].
      destruct (follow g path) as [t|] eqn:Et; [|exact I].
      destruct (occurs (obj_id t) new); [exact I|].
      assert (Hx : In (obj_id t) (ids_l (handles s))).
      { apply nth_error_In in Eg. apply (ids_l_in g); [exact Eg|]. apply (follow_ids g path t Et). }
      apply (inv_relabel s gh _ gh I); [|reflexivity|].
      + intros g0 y Hy. apply ids_set_kid in Hy. destruct Hy as [Hy|Hy]; [left; exact Hy|right].
        apply nth_error_In in En. apply (ids_l_in new); assumption.
      + intros c l vl' Hc Hg. exists vl'. split; [exact Hg|]. destruct (I3 c l vl' Hc Hg) as [_ [P2 [P3 _]]].
        rewrite map_set_kid_id; [split; [reflexivity|exact P2]|]. intros Hin. apply (P3 _ Hin Hx).
    - (* EAppendGate *)
      destruct (nth_error (handles s) h) as [g|] eqn:Eg; [|exact I].
      pose proof (copy_erase deep g (next_id s)) as [Ee En].
      pose proof (copy_fresh deep all_deep g (next_id s)) as Fr.
      pose proof (copy_nodup deep all_deep g (next_id s)) as Nd.
      destruct (copy deep (next_id s) g) as [g' n']. cbn [fst snd] in *.
      apply (inv_builder s gh c [g'] n' (fun l => l ++ [g']) (fun l => l ++ [erase g])); auto; try lia.
      + intros y Hy. unfold ids_l in Hy. cbn in Hy. rewrite app_nil_r in Hy. apply Fr, Hy.
      + unfold ids_l. cbn. rewrite app_nil_r. exact Nd.
      + intros l y. rewrite ids_l_app. split; [apply in_app_or|apply in_or_app].
      + intros l Nl Hd. rewrite ids_l_app. apply nodup_app; [exact Nl| |exact Hd]. unfold ids_l. cbn. rewrite app_nil_r. exact Nd.
      + intros l. rewrite map_app. cbn. rewrite Ee. reflexivity.
    - (* EPrependGate *)
      destruct (nth_error (handles s) h) as [g|] eqn:Eg; [|exact I].
      pose proof (copy_erase deep g (next_id s)) as [Ee En].
      pose proof (copy_fresh deep all_deep g (next_id s)) as Fr.
      pose proof (copy_nodup deep all_deep g (next_id s)) as Nd.
      destruct (copy deep (next_id s) g) as [g' n']. cbn [fst snd] in *.
      assert (Nd' : NoDup (ids_l [g'])) by (unfold ids_l; cbn; rewrite app_nil_r; exact Nd).
      apply (inv_builder s gh c [g'] n' (fun l => g' :: l) (fun l => erase g :: l)); auto; try lia.
      + intros y Hy. unfold ids_l in Hy. cbn in Hy. rewrite app_nil_r in Hy. apply Fr, Hy.
      + intros l y. change (g' :: l) with ([g'] ++ l). rewrite ids_l_app. split; intros H.
        * apply in_app_or in H. tauto.
        * apply in_or_app. tauto.
      + intros l Nl Hd. change (g' :: l) with ([g'] ++ l). rewrite ids_l_app. apply nodup_app; [exact Nd'|exact Nl|].
        intros x Hx Hl. apply (Hd x Hl Hx).
      + intros l. cbn. rewrite Ee. reflexivity.
    - (* EAppendCircuit *)
      unfold denotes. destruct (nth_error (circuits s) c2) as [o|] eqn:Eo; cbn [option_map]; [|exact I].
      pose proof (copy_list_erase deep o (next_id s)) as [Ee En].
      pose proof (copy_list_fresh deep all_deep o (next_id s)) as Fr.
      pose proof (copy_list_nodup deep all_deep o (next_id s)) as Nd.
      destruct (copy_list deep (next_id s) o) as [o' n']. cbn [fst snd] in *.
      apply (inv_builder s gh c o' n' (fun l => l ++ o') (fun l => l ++ map erase o)); auto.
      + intros l y. rewrite ids_l_app. split; [apply in_app_or|apply in_or_app].
      + intros l Nl Hd. rewrite ids_l_app. apply nodup_app; assumption.
      + intros l. rewrite map_app, Ee. reflexivity.
    - (* EPrependCircuit *)
      unfold denotes. destruct (nth_error (circuits s) c2) as [o|] eqn:Eo; cbn [option_map]; [|exact I].
      pose proof (copy_list_erase deep o (next_id s)) as [Ee En].
      pose proof (copy_list_fresh deep all_deep o (next_id s)) as Fr.
      pose proof (copy_list_nodup deep all_deep o (next_id s)) as Nd.
      destruct (copy_list deep (next_id s) o) as [o' n']. cbn [fst snd] in *.
      apply (inv_builder s gh c o' n' (fun l => o' ++ l) (fun l => map erase o ++ l)); auto.
      + intros l y. rewrite ids_l_app. split; intros H.
        * apply in_app_or in H. tauto.
        * apply in_or_app. tauto.
      + intros l Nl Hd. rewrite ids_l_app. apply nodup_app; [exact Nd|exact Nl|]. intros x Hx Hl. apply (Hd x Hl Hx).
      + intros l. rewrite map_app, Ee. reflexivity.
    - (* ENewCircuitOf *)
      destruct ctor.
      + pose proof (copy_list_erase deep (objs_of s hs) (next_id s)) as [Ee En].
        pose proof (copy_list_fresh deep all_deep (objs_of s hs) (next_id s)) as Fr.
        pose proof (copy_list_nodup deep all_deep (objs_of s hs) (next_id s)) as Nd.
        destruct (copy_list deep (next_id s) (objs_of s hs)) as [o' n']. cbn [fst snd] in *.
        apply (inv_snoc s gh o' true _ n' I En); [intros x Hx; right; apply Fr, Hx|intros _; split; [exact Nd|exact Ee]].
      + apply (inv_snoc s gh (objs_of s hs) false _ (next_id s) I); [lia| |discriminate].
        intros x Hx. left. split; [apply (objs_of_ids s hs x Hx)|reflexivity].
    - (* EMutateGate *)
      set (fv := fun l : list gval => match nth_error l i with Some v => replace_nth i (vset path ps v) l | None => l end).
      assert (Noop : forall l0, nth_error (circuits s) c = Some l0 ->
                (nth_error l0 i = None \/ exists g, nth_error l0 i = Some g /\ follow g path = None) -> Inv s (gupd gh c fv)).
      { intros l0 Ec Hno. apply inv_ghost with gh; [exact I|apply length_gupd|]. intros c1 l vl' Hc Hg. rewrite nth_gupd in Hg.
        destruct (Nat.eqb_spec c1 c) as [->|Hne]; [|exists vl'; split; [exact Hg|apply (I3 c1 l vl' Hc Hg)]].
        destruct (nth_error gh c) as [[b vl]|] eqn:Eg; [|discriminate]. cbn in Hg. injection Hg as -> <-.
        exists vl. split; [reflexivity|]. rewrite Ec in Hc. injection Hc as <-.
        destruct (I3 c l0 vl Ec Eg) as [_ [P2 _]]. subst vl. unfold fv. rewrite nth_error_map'.
        destruct Hno as [Hn|[g [Hn Hf]]]; rewrite Hn; cbn [option_map]; [reflexivity|].
        rewrite (vset_follow_none ps path g Hf). symmetry. apply replace_nth_same. rewrite nth_error_map', Hn. reflexivity. }
      destruct (nth_error (circuits s) c) as [l0|] eqn:Ec.
      2:{ apply inv_ghost with gh; [exact I|apply length_gupd|]. intros c1 l vl' Hc Hg. rewrite nth_gupd in Hg.
          destruct (Nat.eqb_spec c1 c) as [->|]; [congruence|]. exists vl'. split; [exact Hg|apply (I3 c1 l vl' Hc Hg)]. }
      destruct (nth_error l0 i) as [g|] eqn:Ei; [|apply (Noop l0 eq_refl); left; exact Ei].
      destruct (follow g path) as [t|] eqn:Et; [|apply (Noop l0 eq_refl); right; exists g; split; [exact Ei|exact Et]].
      clear Noop.
      assert (Hx : In (obj_id t) (ids_l l0)).
      { apply (ids_l_in g); [eapply nth_error_In; exact Ei|apply (follow_ids g path t Et)]. }
      apply (inv_relabel s gh _ (gupd gh c fv) I); [intros g0 y Hy; left; rewrite ids_set_params in Hy; exact Hy|apply length_gupd|].
      intros c1 l vl' Hc Hg. rewrite nth_gupd in Hg. destruct (Nat.eqb_spec c1 c) as [->|Hne].
      + destruct (nth_error gh c) as [[b vl]|] eqn:Eg; [|discriminate]. cbn in Hg. injection Hg as -> <-.
        rewrite Ec in Hc. injection Hc as <-. exists vl. split; [reflexivity|]. split; [apply ids_l_set_params|].
        destruct (I3 c l0 vl Ec Eg) as [P1 [P2 _]]. subst vl.
        rewrite (erase_relabel_circuit ps l0 i g path t P1 Ei Et). unfold fv. rewrite nth_error_map', Ei. reflexivity.
      + exists vl'. split; [exact Hg|]. split; [apply ids_l_set_params|].
        destruct (I3 c1 l vl' Hc Hg) as [_ [P2 [_ P4]]]. rewrite map_set_params_id; [exact P2|].
        intros Hin. apply (P4 (obj_id t) c l0 Hin (not_eq_sym Hne) Ec Hx).
  Qed.

  Lemma vrun_inv es : forall s gh, Inv s gh -> Inv (fst (vrun deep ctor s gh es)) (snd (vrun deep ctor s gh es)).
  Proof. induction es as [|e es IH]; intros s gh I; [exact I|]. cbn [vrun]. apply IH. apply step_inv. exact I. Qed.

  Lemma vrun_fst es : forall s gh, fst (vrun deep ctor s gh es) = fold_left (step deep ctor) es s.
  Proof. induction es as [|e es IH]; intros s gh; [reflexivity|]. cbn. apply IH. Qed.

  (** HISTORIES: after any sequence of builder calls, list constructions and mutations (of the
      caller's objects and through the circuits' own gate lists) every by-value circuit denotes
      the values its gates had when they were added (as mutated through its own gate list) *)
  Theorem histories_by_value es c l vl :
    nth_error (circuits (run deep ctor es)) c = Some l ->
    nth_error (snd (vrun deep ctor init [] es)) c = Some (true, vl) ->
    map erase l = vl.
  Proof.
    pose proof (vrun_inv es init [] init_inv) as [_ [_ [_ I3]]]. rewrite vrun_fst in I3.
    intros Hc Hg. apply (I3 c l vl Hc Hg).
  Qed.

  (** and its objects are pairwise distinct, not reachable from a caller handle, not shared with another circuit *)
  Theorem histories_separated es c l vl :
    nth_error (circuits (run deep ctor es)) c = Some l ->
    nth_error (snd (vrun deep ctor init [] es)) c = Some (true, vl) ->
    NoDup (ids_l l) /\
    (forall x, In x (ids_l l) -> ~ In x (ids_l (handles (run deep ctor es)))) /\
    (forall x c' l', In x (ids_l l) -> c' <> c -> nth_error (circuits (run deep ctor es)) c' = Some l' -> ~ In x (ids_l l')).
  Proof.
    pose proof (vrun_inv es init [] init_inv) as [_ [_ [_ I3]]]. rewrite vrun_fst in I3.
    intros Hc Hg. destruct (I3 c l vl Hc Hg) as [P1 [_ [P3 P4]]]. split; [exact P1|]. split; [exact P3|exact P4].
  Qed.

  (** the ghost has one entry per circuit *)
  Lemma histories_ghost_length es : length (snd (vrun deep ctor init [] es)) = length (circuits (run deep ctor es)).
  Proof. pose proof (vrun_inv es init [] init_inv) as [I0 _]. rewrite vrun_fst in I0. exact I0. Qed.

  (** histories in which every circuit is by value: no list constructor, or a copying one *)
  Definition not_list_ctor (e : event) : Prop := match e with ENewCircuitOf _ => False | _ => True end.
  Definition all_pure (gh : ghost) : Prop := forall c b vl, nth_error gh c = Some (b, vl) -> b = true.

  Lemma vstep_all_pure s gh e : ctor = true \/ not_list_ctor e -> all_pure gh -> all_pure (vstep ctor s gh e).
  Proof.
    intros Hc Hp.
    assert (G : forall c f, all_pure (gupd gh c f)).
    { intros c f c' b vl H. rewrite nth_gupd in H. destruct (Nat.eqb c' c); [|apply (Hp c' b vl H)].
      destruct (nth_error gh c') as [[b0 l0]|] eqn:E; [|discriminate]. cbn in H. injection H as <- _. apply (Hp c' b0 l0 E). }
    assert (Sn : forall b0 v0, b0 = true -> all_pure (gh ++ [(b0, v0)])).
    { intros b0 v0 Hb c' b vl H. rewrite nth_error_snoc in H. destruct (Nat.ltb c' (length gh)); [apply (Hp c' b vl H)|].
      destruct (Nat.eqb c' (length gh)); [|discriminate]. injection H as <- _. exact Hb. }
    destruct e as [cls ps kids| |h path ps|h path i h2|c h|c h|c c2|c c2|hs|c i path ps]; cbn [vstep]; try exact Hp.
    - apply Sn. reflexivity.
    - destruct (nth_error (handles s) h); [apply G|exact Hp].
    - destruct (nth_error (handles s) h); [apply G|exact Hp].
    - destruct (denotes s c2); [apply G|exact Hp].
    - destruct (denotes s c2); [apply G|exact Hp].
    - apply Sn. destruct Hc as [Hc|[]]. exact Hc.
    - apply G.
  Qed.

  Lemma nth_error_ext' {A} : forall (a b : list A), (forall c, nth_error a c = nth_error b c) -> a = b.
  Proof.
    induction a as [|x a IH]; intros [|y b] H; [reflexivity|specialize (H 0); discriminate|specialize (H 0); discriminate|].
    pose proof (H 0) as H0. cbn in H0. injection H0 as ->. f_equal. apply IH. intros c. apply (H (Datatypes.S c)).
  Qed.

  Theorem histories_by_value_all es :
    ctor = true \/ Forall not_list_ctor es ->
    map (map erase) (circuits (run deep ctor es)) = map snd (snd (vrun deep ctor init [] es)).
  Proof.
    intros Hc.
    assert (P : forall es s gh, (ctor = true \/ Forall not_list_ctor es) -> all_pure gh -> all_pure (snd (vrun deep ctor s gh es))).
    { clear es Hc. induction es as [|e es IH]; intros s gh Hc Hp; [exact Hp|]. cbn [vrun]. apply IH.
      - destruct Hc as [Hc|Hc]; [left; exact Hc|right; inversion Hc; assumption].
      - apply vstep_all_pure; [|exact Hp]. destruct Hc as [Hc|Hc]; [left; exact Hc|right; inversion Hc; assumption]. }
    specialize (P es init [] Hc). assert (P0 : all_pure []) by (intros c b vl H; destruct c; discriminate). specialize (P P0).
    pose proof (vrun_inv es init [] init_inv) as [I0 [_ [_ I3]]]. rewrite vrun_fst in I0, I3. fold (run deep ctor es) in I0, I3.
    apply nth_error_ext'. intros c. rewrite !nth_error_map'.
    destruct (nth_error (circuits (run deep ctor es)) c) as [l|] eqn:El;
      destruct (nth_error (snd (vrun deep ctor init [] es)) c) as [[b vl]|] eqn:Eg; cbn [option_map].
    - rewrite (P c b vl Eg) in Eg. destruct (I3 c l vl El Eg) as [_ [P2 _]]. cbn. rewrite P2. reflexivity.
    - apply nth_error_lt in El. apply nth_error_None in Eg. lia.
    - apply nth_error_lt in Eg. apply nth_error_None in El. lia.
    - reflexivity.
  Qed.
End Step.

(** conversely: one shallow __copy__ on a class with a gate-valued field breaks by-value capture *)
Theorem shallow_copy_refuted (deep : nat -> bool) (ctor : bool) cls0 : deep cls0 = false ->
  let es := [ENew cls0 [] []; ENew cls0 [] [0]; ENewCircuit; EAppendGate 0 1; EMutate 0 [] [1%Z]] in
  exists l vl, nth_error (circuits (run deep ctor es)) 0 = Some l /\
               nth_error (snd (vrun deep ctor init [] es)) 0 = Some (true, vl) /\ map erase l <> vl.
Proof.
  intros H. cbv zeta. unfold run. cbn [fold_left vrun step vstep init handles circuits next_id
    nth_error flat_map app follow obj_id obj_kids fst snd erase map objs_of].
  rewrite !copy_unfold, H. cbn. eexists. eexists. split; [reflexivity|]. split; [reflexivity|discriminate].
Qed.

(** and the non-copying list constructor breaks it for the circuit it makes (the known finding
    Circuit.__init__:gates-captured-by-reference): x = Gate(); c = Circuit([x]); mutate x *)
Theorem ctor_by_reference_refuted (deep : nat -> bool) cls0 :
  let es := [ENew cls0 [] []; ENewCircuitOf [0]; EMutate 0 [] [1%Z]] in
  exists l, nth_error (circuits (run deep false es)) 0 = Some l /\
            nth_error (snd (vrun deep false init [] es)) 0 = Some (false, [GVal cls0 [] []]) /\
            map erase l <> [GVal cls0 [] []].
Proof. cbv zeta. cbn. eexists. split; [reflexivity|]. split; [reflexivity|discriminate]. Qed.
