(** Circuits whose element list also holds control instructions (barrier, measurement, delay).
    Circuit.as_matrix skips them (`if isinstance(gate, ControlInstruction): continue`), and so does
    StatevectorSimulator.run (since the repair 34f716a in /repo); both loops are pinned in that shape by
    gen/embed.py.  Here: the two loops with the skip are the loops of CircModel on the gates alone, hence
    the statevector is still column 0 of the matrix. *)
From Qib Require Import Embed.CircProofs.

Section CircCtrl.
  Context {K : Scalar} {L : ScalarLaws K}.

  Inductive celem := CGate (g : cgate K) | CCtrl.

  Definition gates_of (c : list celem) : circuit K :=
    flat_map (fun e => match e with CGate g => [g] | CCtrl => [] end) c.

  (** the as_matrix loop (total version) with the skip *)
  Definition cmat_e (nw : nat) (c : list celem) : BMx K :=
    fold_left (fun mat e => match e with CGate g => cm_step nw mat g | CCtrl => mat end) c mid.

  (** the statevector loop with the skip *)
  Definition run_statevector_e (nw : nat) (c : list celem) : vec (K:=K) :=
    fold_left (fun psi e => match e with CGate g => mvmul nw (E nw g) psi | CCtrl => psi end) c (e0 nw).

  Lemma cmat_e_gates nw c : cmat_e nw c = cmat nw (gates_of c).
  Proof.
    unfold cmat_e, cmat. generalize (mid (K:=K)) as acc.
    induction c as [|e c IH]; intros acc; [reflexivity|].
    destruct e as [g|]; cbn [fold_left gates_of flat_map app]; apply IH.
  Qed.

  Lemma run_statevector_e_gates nw c : run_statevector_e nw c = run_statevector nw (gates_of c).
  Proof.
    unfold run_statevector_e, run_statevector. generalize (e0 (K:=K) nw) as acc.
    induction c as [|e c IH]; intros acc; [reflexivity|].
    destruct e as [g|]; cbn [fold_left gates_of flat_map app]; apply IH.
  Qed.

  Lemma run_statevector_e_column0 nw c r :
    length r = nw -> run_statevector_e nw c r = cmat_e nw c r (zeros nw).
  Proof.
    intros H. rewrite run_statevector_e_gates, cmat_e_gates. apply run_statevector_column0. exact H.
  Qed.
End CircCtrl.
