(** C04, integer level: the port [distribute] of _distribute_to_wires (Z arithmetic on CSR
    data: bit tests j & (1 << b), increments 1 << iwire[b], replication over the complementary
    wires) produces exactly the triples of [embed]: for every register size, every list of
    distinct wires, every canonical CSR matrix.
    Key fact ("a sum of distinct powers of two has exactly those bits"), in the form used
    here: the scattered row index of gate row a on wires ws plus the offset of the k-th
    replica equals the register index whose bits on ws are a and on the other wires are k. *)
From Qib Require Export Embed.EmbedProofs.
From Coq Require Import Permutation.
Local Open Scope Z_scope.

(* ------------------------------------------------------------------ ranges, integer sums *)
Lemma in_zrange x lo hi : In x (zrange lo hi) <-> lo <= x < hi.
Proof.
  unfold zrange. rewrite in_map_iff. split.
  - intros [i [<- Hi]]. apply in_seq in Hi. lia.
  - intros H. exists (Z.to_nat (x - lo)). split; [lia|apply in_seq; lia].
Qed.
Lemma zrange_NoDup lo hi : NoDup (zrange lo hi).
Proof. unfold zrange. apply NoDup_map_inj_in; [|apply seq_NoDup]. intros; lia. Qed.
Lemma zrange_0_nat n : zrange 0 (Z.of_nat n) = map Z.of_nat (seq 0 n).
Proof. unfold zrange. rewrite Z.sub_0_r, Nat2Z.id. apply map_ext. intros; lia. Qed.
Lemma zrange_cons lo hi : lo < hi -> zrange lo hi = lo :: zrange (lo + 1) hi.
Proof.
  intros H. unfold zrange.
  replace (Z.to_nat (hi - lo)) with (Datatypes.S (Z.to_nat (hi - (lo + 1)))) by lia.
  cbn [seq map]. f_equal; [lia|]. rewrite <- seq_shift, map_map. apply map_ext. intros; lia.
Qed.

Definition zsum (l : list Z) : Z := fold_right Z.add 0 l.
Lemma zsum_app a b : zsum (a ++ b) = zsum a + zsum b.
Proof. unfold zsum in *. induction a as [|x a IH]; cbn [app fold_right]; [reflexivity|]. rewrite IH. lia. Qed.
Lemma zsum_perm l l' : Permutation l l' -> zsum l = zsum l'.
Proof. unfold zsum. induction 1; cbn [fold_right]; lia. Qed.
Lemma accum_zsum rng cond incr :
  accum rng cond incr = zsum (map (fun b => if cond b then incr b else 0) rng).
Proof.
  unfold accum.
  assert (G : forall acc : Z, fold_left (fun (acc b : Z) => if cond b then acc + incr b else acc) rng acc
                          = acc + zsum (map (fun b => if cond b then incr b else 0) rng)).
  { unfold zsum. induction rng as [|b rng IH]; intros acc; cbn [fold_left map fold_right]; [lia|].
    rewrite IH. destruct (cond b); lia. }
  rewrite G. lia.
Qed.

(** sum of 2^(nw-1-w) over the wires w whose bit is set *)
Definition wsum (nw : Z) (l : list (bool * Z)) : Z :=
  zsum (map (fun xw : bool * Z => if fst xw then 2 ^ (nw - 1 - snd xw) else 0) l).
Lemma wsum_app nw a b : wsum nw (a ++ b) = wsum nw a + wsum nw b.
Proof. unfold wsum. rewrite map_app. apply zsum_app. Qed.
Lemma wsum_perm nw l l' : Permutation l l' -> wsum nw l = wsum nw l'.
Proof. intros P. unfold wsum. apply zsum_perm. apply Permutation_map. exact P. Qed.

(* ------------------------------------------------------------------ bits of b2z *)
Lemma b2z_bound a : 0 <= b2z a < 2 ^ Z.of_nat (length a).
Proof.
  unfold b2z. pose proof (b2n_bound a) as H. split; [lia|].
  apply Nat2Z.inj_lt in H. rewrite Nat2Z.inj_pow in H. exact H.
Qed.
Lemma b2z_cons x a : b2z (x :: a) = (if x then 2 ^ Z.of_nat (length a) else 0) + b2z a.
Proof.
  unfold b2z. cbn [b2n]. rewrite Nat2Z.inj_add. destruct x; [|reflexivity].
  rewrite Nat2Z.inj_pow. reflexivity.
Qed.
Lemma b2z_inj a b : length a = length b -> b2z a = b2z b -> a = b.
Proof. intros Hl E. apply b2n_inj; [exact Hl|]. unfold b2z in E. lia. Qed.

Lemma testbit_small y l q : 0 <= y < 2 ^ l -> 0 <= l <= q -> Z.testbit y q = false.
Proof.
  intros Hy Hq. rewrite <- (Z.mod_small y (2 ^ l)) by exact Hy.
  apply Z.mod_pow2_bits_high. lia.
Qed.
Lemma testbit_pow2_add_high y l : 0 <= l -> 0 <= y < 2 ^ l -> Z.testbit (2 ^ l + y) l = true.
Proof.
  intros Hl Hy. replace l with (0 + l) at 2 by lia.
  rewrite <- Z.div_pow2_bits by lia.
  replace ((2 ^ l + y) / 2 ^ l) with 1; [reflexivity|].
  apply (Z.div_unique_pos _ _ 1 y); lia.
Qed.
Lemma testbit_pow2_add_low y l q : 0 <= q < l -> 0 <= y < 2 ^ l -> Z.testbit (2 ^ l + y) q = Z.testbit y q.
Proof.
  intros Hq Hy. rewrite <- (Z.mod_pow2_bits_low (2 ^ l + y) l q) by lia.
  replace ((2 ^ l + y) mod 2 ^ l) with y; [reflexivity|].
  apply (Z.mod_unique_pos _ _ 1 y); lia.
Qed.

(** bit b (from the least significant end) of b2z a is the entry |a|-1-b of a *)
Lemma testbit_b2z a t : (t < length a)%nat ->
  Z.testbit (b2z a) (Z.of_nat (length a - 1 - t)) = nth t a false.
Proof.
  revert t; induction a as [|x a IH]; intros t Ht; [cbn in Ht; lia|].
  cbn [length] in *. rewrite b2z_cons. pose proof (b2z_bound a) as B.
  destruct t as [|t].
  - replace (Datatypes.S (length a) - 1 - 0)%nat with (length a) by lia. cbn [nth].
    destruct x.
    + apply testbit_pow2_add_high; lia.
    + cbn [Z.add]. apply (testbit_small _ (Z.of_nat (length a))); lia.
  - replace (Datatypes.S (length a) - 1 - Datatypes.S t)%nat with (length a - 1 - t)%nat by lia.
    cbn [nth]. rewrite <- IH by lia.
    destruct x; [|reflexivity]. apply testbit_pow2_add_low; lia.
Qed.

(** the code's bit test *)
Lemma truthy_land_testbit j b : 0 <= b -> truthy (Z.land j (Z.shiftl 1 b)) = Z.testbit j b.
Proof.
  intros Hb. rewrite Z.shiftl_1_l. unfold truthy.
  destruct (Z.testbit j b) eqn:E.
  - apply negb_true_iff. apply Z.eqb_neq. intros H.
    assert (T : Z.testbit (Z.land j (2 ^ b)) b = false) by (rewrite H; apply Z.bits_0).
    rewrite Z.land_spec, E, Z.pow2_bits_true in T by lia. discriminate.
  - apply negb_false_iff. apply Z.eqb_eq. apply Z.bits_inj'. intros q Hq.
    rewrite Z.land_spec, Z.bits_0, Z.pow2_bits_eqb by lia.
    destruct (Z.eqb_spec b q); [subst; rewrite E|]; cbn; [reflexivity|apply andb_false_r].
Qed.

(* ------------------------------------------------------------------ lists as maps over indices *)
Lemma list_as_map_nth {A} (l : list A) d : l = map (fun t => nth t l d) (seq 0 (length l)).
Proof.
  apply (nth_ext _ _ d d).
  - rewrite map_length, seq_length. reflexivity.
  - intros t Ht.
    rewrite (nth_indep (map _ _) d (nth 0 l d)) by (rewrite map_length, seq_length; exact Ht).
    rewrite (map_nth (fun t => nth t l d) (seq 0 (length l)) 0%nat t), seq_nth by exact Ht. reflexivity.
Qed.
Lemma rev_seq m : rev (seq 0 m) = map (fun t => (m - 1 - t)%nat) (seq 0 m).
Proof.
  apply (nth_ext _ _ 0%nat 0%nat).
  - rewrite rev_length, map_length. reflexivity.
  - intros t Ht. rewrite rev_length, seq_length in Ht.
    rewrite rev_nth by (rewrite seq_length; exact Ht). rewrite seq_length, seq_nth by lia.
    rewrite (nth_indep (map _ _) 0%nat ((fun t => (m - 1 - t)%nat) 0%nat)) by (rewrite map_length, seq_length; exact Ht).
    rewrite (map_nth (fun t => (m - 1 - t)%nat) (seq 0 m) 0%nat t), seq_nth by exact Ht. lia.
Qed.
Lemma combine_as_map {A B} (a : list A) (b : list B) da db : length a = length b ->
  combine a b = map (fun t => (nth t a da, nth t b db)) (seq 0 (length a)).
Proof.
  revert b; induction a as [|x a IH]; intros [|y b] H; try discriminate; [reflexivity|].
  cbn in H. injection H as H. cbn [combine length seq map nth]. f_equal.
  rewrite <- seq_shift, map_map. rewrite (IH b H). apply map_ext. intros; reflexivity.
Qed.

(* ------------------------------------------------------------------ scattering = weighted sum over wires *)
Section Scatter.
  Variable nw : nat.
  Definition zw (ws : list nat) : list Z := map Z.of_nat ws.
  Definition rev_pos (ws : list nat) : list Z :=
    let m := zlen (zw ws) in
    map (fun b => Z.of_nat nw - 1 - znth (zw ws) (m - 1 - b)) (zrange 0 m).

  Lemma znth_zw ws t : (t < length ws)%nat -> znth (zw ws) (Z.of_nat t) = Z.of_nat (nth t ws 0%nat).
  Proof.
    intros H. unfold znth, zw. rewrite Nat2Z.id.
    rewrite (nth_indep _ 0 (Z.of_nat 0)) by (rewrite map_length; exact H). apply map_nth.
  Qed.

  (** the accumulation loop over the bits of (b2z a), positions reversed as in the code, is the
      weighted sum over the wire list *)
  Lemma scatter_wsum (ws : list nat) (a : bits) :
    length a = length ws -> (forall w, In w ws -> (w < nw)%nat) ->
    accum (zrange 0 (zlen (zw ws)))
          (fun b => truthy (Z.land (b2z a) (Z.shiftl 1 b)))
          (fun b => Z.shiftl 1 (znth (rev_pos ws) b))
    = wsum (Z.of_nat nw) (combine a (zw ws)).
  Proof.
    intros Hl Hb. set (m := length ws).
    assert (Em : zlen (zw ws) = Z.of_nat m) by (unfold zlen, zw; rewrite map_length; reflexivity).
    rewrite accum_zsum, Em, zrange_0_nat, map_map.
    (* term for bit b: a[m-1-b] ? 2^(nw-1-ws[m-1-b]) : 0 *)
    transitivity (zsum (map (fun b => if nth (m - 1 - b) a false
                                      then 2 ^ (Z.of_nat nw - 1 - Z.of_nat (nth (m - 1 - b) ws 0%nat)) else 0)
                            (seq 0 m))).
    { f_equal. apply map_ext_in. intros b Hin. apply in_seq in Hin.
      rewrite truthy_land_testbit by lia.
      replace (Z.of_nat b) with (Z.of_nat (length a - 1 - (m - 1 - b))) at 1 by (rewrite Hl; fold m; lia).
      rewrite testbit_b2z by (rewrite Hl; fold m; lia).
      destruct (nth (m - 1 - b) a false); [|reflexivity].
      assert (E : znth (rev_pos ws) (Z.of_nat b) = Z.of_nat nw - 1 - Z.of_nat (nth (m - 1 - b) ws 0%nat)).
      { unfold rev_pos. rewrite Em, zrange_0_nat, map_map. unfold znth at 1. rewrite Nat2Z.id.
        rewrite (nth_indep _ 0 ((fun x => Z.of_nat nw - 1 - znth (zw ws) (Z.of_nat m - 1 - Z.of_nat x)) 0%nat))
          by (rewrite map_length, seq_length; lia).
        rewrite (map_nth (fun x => Z.of_nat nw - 1 - znth (zw ws) (Z.of_nat m - 1 - Z.of_nat x)) (seq 0 m) 0%nat b).
        rewrite seq_nth by lia. cbn [Nat.add].
        replace (Z.of_nat m - 1 - Z.of_nat b) with (Z.of_nat (m - 1 - b)) by lia.
        rewrite znth_zw by (fold m; lia). reflexivity. }
      rewrite E. rewrite Z.shiftl_1_l. reflexivity. }
    (* reverse the order of summation *)
    transitivity (zsum (map (fun t => if nth t a false
                                      then 2 ^ (Z.of_nat nw - 1 - Z.of_nat (nth t ws 0%nat)) else 0)
                            (seq 0 m))).
    { rewrite <- (map_map (fun b => (m - 1 - b)%nat)
                          (fun t => if nth t a false then 2 ^ (Z.of_nat nw - 1 - Z.of_nat (nth t ws 0%nat)) else 0)).
      rewrite <- rev_seq. apply zsum_perm. apply Permutation_map. apply Permutation_sym, Permutation_rev. }
    unfold wsum.
    rewrite (combine_as_map a (zw ws) false 0) by (unfold zw; rewrite map_length; exact Hl).
    rewrite map_map, Hl. fold m. f_equal. apply map_ext_in. intros t Ht. apply in_seq in Ht.
    cbn [fst snd]. destruct (nth t a false); [|reflexivity].
    change (nth t (zw ws) 0) with (znth (zw ws) (Z.of_nat t)) || idtac.
    assert (E : nth t (zw ws) 0 = Z.of_nat (nth t ws 0%nat)).
    { pose proof (znth_zw ws t ltac:(fold m; lia)) as Z1. unfold znth in Z1. rewrite Nat2Z.id in Z1. exact Z1. }
    rewrite E. reflexivity.
  Qed.

  (** b2z is the weighted sum over all wires *)
  Lemma b2z_wsum_aux (r : bits) (s : nat) : (s + length r = nw)%nat ->
    b2z r = wsum (Z.of_nat nw) (combine r (map Z.of_nat (seq s (length r)))).
  Proof.
    revert s; induction r as [|x r IH]; intros s H; [reflexivity|].
    cbn [length] in *. cbn [seq map combine]. unfold wsum in *. cbn [map zsum fold_right fst snd].
    rewrite b2z_cons. rewrite (IH (Datatypes.S s)) by lia. f_equal.
    destruct x; [|reflexivity]. f_equal. lia.
  Qed.
  Lemma b2z_wsum (r : bits) : length r = nw ->
    b2z r = wsum (Z.of_nat nw) (combine r (map Z.of_nat (seq 0 nw))).
  Proof. intros H. rewrite (b2z_wsum_aux r 0) by lia. rewrite H. reflexivity. Qed.

  (** gathering along a permutation of the wires does not change the weighted sum *)
  Lemma wsum_gather (ord : list nat) (r : bits) : is_perm nw ord -> length r = nw ->
    wsum (Z.of_nat nw) (combine (gather ord r) (zw ord)) = b2z r.
  Proof.
    intros P Hr. rewrite (b2z_wsum r Hr). apply wsum_perm.
    assert (E1 : combine (gather ord r) (zw ord) = map (fun w => (nth w r false, Z.of_nat w)) ord).
    { unfold gather, zw. clear. induction ord as [|w ord IH]; [reflexivity|]. cbn. f_equal. exact IH. }
    assert (E2 : combine r (map Z.of_nat (seq 0 nw)) = map (fun w => (nth w r false, Z.of_nat w)) (seq 0 nw)).
    { rewrite (combine_as_map r (map Z.of_nat (seq 0 nw)) false 0) by (rewrite map_length, seq_length; exact Hr).
      rewrite Hr. apply map_ext_in. intros t Ht. apply in_seq in Ht. f_equal.
      rewrite (nth_indep _ 0 (Z.of_nat 0)) by (rewrite map_length, seq_length; lia).
      rewrite map_nth, seq_nth by lia. reflexivity. }
    rewrite E1, E2. apply Permutation_map.
    destruct P as [ND [Hl Hb]]. apply NoDup_Permutation; [exact ND|apply seq_NoDup|].
    intros x. rewrite in_seq. split; [intros H; specialize (Hb x H); lia|].
    intros H. apply (is_perm_complete nw); [split; [exact ND|split; assumption]|lia].
  Qed.
End Scatter.
