(** C04, integer level: the port [distribute] of _distribute_to_wires (Z arithmetic on CSR
    data: bit tests j & (1 << b), increments 1 << iwire[b], replication over the complementary
    wires) produces exactly the triples of [embed]: for every register size, every list of
    distinct wires, every canonical CSR matrix.
    Key fact ("a sum of distinct powers of two has exactly those bits"), in the form used
    here: the scattered row index of gate row a on wires ws plus the offset of the k-th
    replica equals the register index whose bits on ws are a and on the other wires are k. *)
From Qib Require Export Embed.EmbedProofs.
From Coq Require Import Permutation.
Local Open Scope Z_scope.

(* ------------------------------------------------------------------ ranges, integer sums *)
Lemma in_zrange x lo hi : In x (zrange lo hi) <-> lo <= x < hi.
Proof.
  unfold zrange. rewrite in_map_iff. split.
  - intros [i [<- Hi]]. apply in_seq in Hi. lia.
  - intros H. exists (Z.to_nat (x - lo)). split; [lia|apply in_seq; lia].
Qed.
Lemma zrange_NoDup lo hi : NoDup (zrange lo hi).
Proof. unfold zrange. apply NoDup_map_inj_in; [|apply seq_NoDup]. intros; lia. Qed.
Lemma zrange_0_nat n : zrange 0 (Z.of_nat n) = map Z.of_nat (seq 0 n).
Proof. unfold zrange. rewrite Z.sub_0_r, Nat2Z.id. apply map_ext. intros; lia. Qed.
Lemma zrange_cons lo hi : lo < hi -> zrange lo hi = lo :: zrange (lo + 1) hi.
Proof.
  intros H. unfold zrange.
  replace (Z.to_nat (hi - lo)) with (Datatypes.S (Z.to_nat (hi - (lo + 1)))) by lia.
  cbn [seq map]. f_equal; [lia|]. rewrite <- seq_shift, map_map. apply map_ext. intros; lia.
Qed.

Definition zsum (l : list Z) : Z := fold_right Z.add 0 l.
Lemma zsum_app a b : zsum (a ++ b) = zsum a + zsum b.
Proof. unfold zsum in *. induction a as [|x a IH]; cbn [app fold_right]; [reflexivity|]. rewrite IH. lia. Qed.
Lemma zsum_perm l l' : Permutation l l' -> zsum l = zsum l'.
Proof. unfold zsum. induction 1; cbn [fold_right]; lia. Qed.
Lemma accum_zsum rng cond incr :
  accum rng cond incr = zsum (map (fun b => if cond b then incr b else 0) rng).
Proof.
  unfold accum.
  assert (G : forall acc : Z, fold_left (fun (acc b : Z) => if cond b then acc + incr b else acc) rng acc
                          = acc + zsum (map (fun b => if cond b then incr b else 0) rng)).
  { unfold zsum. induction rng as [|b rng IH]; intros acc; cbn [fold_left map fold_right]; [lia|].
    rewrite IH. destruct (cond b); lia. }
  rewrite G. lia.
Qed.

(** sum of 2^(nw-1-w) over the wires w whose bit is set *)
Definition wsum (nw : Z) (l : list (bool * Z)) : Z :=
  zsum (map (fun xw : bool * Z => if fst xw then 2 ^ (nw - 1 - snd xw) else 0) l).
Lemma wsum_app nw a b : wsum nw (a ++ b) = wsum nw a + wsum nw b.
Proof. unfold wsum. rewrite map_app. apply zsum_app. Qed.
Lemma wsum_perm nw l l' : Permutation l l' -> wsum nw l = wsum nw l'.
Proof. intros P. unfold wsum. apply zsum_perm. apply Permutation_map. exact P. Qed.

(* ------------------------------------------------------------------ bits of b2z *)
Lemma b2z_bound a : 0 <= b2z a < 2 ^ Z.of_nat (length a).
Proof.
  unfold b2z. pose proof (b2n_bound a) as H. split; [lia|].
  apply Nat2Z.inj_lt in H. rewrite Nat2Z.inj_pow in H. exact H.
Qed.
Lemma b2z_cons x a : b2z (x :: a) = (if x then 2 ^ Z.of_nat (length a) else 0) + b2z a.
Proof.
  unfold b2z. cbn [b2n]. rewrite Nat2Z.inj_add. destruct x; [|reflexivity].
  rewrite Nat2Z.inj_pow. reflexivity.
Qed.
Lemma b2z_inj a b : length a = length b -> b2z a = b2z b -> a = b.
Proof. intros Hl E. apply b2n_inj; [exact Hl|]. unfold b2z in E. lia. Qed.

Lemma testbit_small y l q : 0 <= y < 2 ^ l -> 0 <= l <= q -> Z.testbit y q = false.
Proof.
  intros Hy Hq. rewrite <- (Z.mod_small y (2 ^ l)) by exact Hy.
  apply Z.mod_pow2_bits_high. lia.
Qed.
Lemma testbit_pow2_add_high y l : 0 <= l -> 0 <= y < 2 ^ l -> Z.testbit (2 ^ l + y) l = true.
Proof.
  intros Hl Hy. replace l with (0 + l) at 2 by lia.
  rewrite <- Z.div_pow2_bits by lia.
  replace ((2 ^ l + y) / 2 ^ l) with 1; [reflexivity|].
  apply (Z.div_unique_pos _ _ 1 y); lia.
Qed.
Lemma testbit_pow2_add_low y l q : 0 <= q < l -> 0 <= y < 2 ^ l -> Z.testbit (2 ^ l + y) q = Z.testbit y q.
Proof.
  intros Hq Hy. rewrite <- (Z.mod_pow2_bits_low (2 ^ l + y) l q) by lia.
  replace ((2 ^ l + y) mod 2 ^ l) with y; [reflexivity|].
  apply (Z.mod_unique_pos _ _ 1 y); lia.
Qed.

(** bit b (from the least significant end) of b2z a is the entry |a|-1-b of a *)
Lemma testbit_b2z a t : (t < length a)%nat ->
  Z.testbit (b2z a) (Z.of_nat (length a - 1 - t)) = nth t a false.
Proof.
  revert t; induction a as [|x a IH]; intros t Ht; [cbn in Ht; lia|].
  cbn [length] in *. rewrite b2z_cons. pose proof (b2z_bound a) as B.
  destruct t as [|t].
  - replace (Datatypes.S (length a) - 1 - 0)%nat with (length a) by lia. cbn [nth].
    destruct x.
    + apply testbit_pow2_add_high; lia.
    + cbn [Z.add]. apply (testbit_small _ (Z.of_nat (length a))); lia.
  - replace (Datatypes.S (length a) - 1 - Datatypes.S t)%nat with (length a - 1 - t)%nat by lia.
    cbn [nth]. rewrite <- IH by lia.
    destruct x; [|reflexivity]. apply testbit_pow2_add_low; lia.
Qed.

(** the code's bit test *)
Lemma truthy_land_testbit j b : 0 <= b -> truthy (Z.land j (Z.shiftl 1 b)) = Z.testbit j b.
Proof.
  intros Hb. rewrite Z.shiftl_1_l. unfold truthy.
  destruct (Z.testbit j b) eqn:E.
  - apply negb_true_iff. apply Z.eqb_neq. intros H.
    assert (T : Z.testbit (Z.land j (2 ^ b)) b = false) by (rewrite H; apply Z.bits_0).
    rewrite Z.land_spec, E, Z.pow2_bits_true in T by lia. discriminate.
  - apply negb_false_iff. apply Z.eqb_eq. apply Z.bits_inj'. intros q Hq.
    rewrite Z.land_spec, Z.bits_0, Z.pow2_bits_eqb by lia.
    destruct (Z.eqb_spec b q); [subst; rewrite E|]; cbn; [reflexivity|apply andb_false_r].
Qed.

(* ------------------------------------------------------------------ lists as maps over indices *)
Lemma list_as_map_nth {A} (l : list A) d : l = map (fun t => nth t l d) (seq 0 (length l)).
Proof.
  apply (nth_ext _ _ d d).
  - rewrite map_length, seq_length. reflexivity.
  - intros t Ht.
    rewrite (nth_indep (map _ _) d (nth 0 l d)) by (rewrite map_length, seq_length; exact Ht).
    rewrite (map_nth (fun t => nth t l d) (seq 0 (length l)) 0%nat t), seq_nth by exact Ht. reflexivity.
Qed.
Lemma rev_seq m : rev (seq 0 m) = map (fun t => (m - 1 - t)%nat) (seq 0 m).
Proof.
  apply (nth_ext _ _ 0%nat 0%nat).
  - rewrite rev_length, map_length. reflexivity.
  - intros t Ht. rewrite rev_length, seq_length in Ht.
    rewrite rev_nth by (rewrite seq_length; exact Ht). rewrite seq_length, seq_nth by lia.
    rewrite (nth_indep (map _ _) 0%nat ((fun t => (m - 1 - t)%nat) 0%nat)) by (rewrite map_length, seq_length; exact Ht).
    rewrite (map_nth (fun t => (m - 1 - t)%nat) (seq 0 m) 0%nat t), seq_nth by exact Ht. lia.
Qed.
Lemma combine_as_map {A B} (a : list A) (b : list B) da db : length a = length b ->
  combine a b = map (fun t => (nth t a da, nth t b db)) (seq 0 (length a)).
Proof.
  revert b; induction a as [|x a IH]; intros [|y b] H; try discriminate; [reflexivity|].
  cbn in H. injection H as H. cbn [combine length seq map nth]. f_equal.
  rewrite <- seq_shift, map_map. rewrite (IH b H). apply map_ext. intros; reflexivity.
Qed.

(* ------------------------------------------------------------------ scattering = weighted sum over wires *)
Section Scatter.
  Variable nw : nat.
  Definition zw (ws : list nat) : list Z := map Z.of_nat ws.
  Definition rev_pos (ws : list nat) : list Z :=
    let m := zlen (zw ws) in
    map (fun b => Z.of_nat nw - 1 - znth (zw ws) (m - 1 - b)) (zrange 0 m).

  Lemma znth_zw ws t : (t < length ws)%nat -> znth (zw ws) (Z.of_nat t) = Z.of_nat (nth t ws 0%nat).
  Proof.
    intros H. unfold znth, zw. rewrite Nat2Z.id.
    rewrite (nth_indep _ 0 (Z.of_nat 0)) by (rewrite map_length; exact H). apply map_nth.
  Qed.

  (** the accumulation loop over the bits of (b2z a), positions reversed as in the code, is the
      weighted sum over the wire list *)
  Lemma scatter_wsum (ws : list nat) (a : bits) :
    length a = length ws -> (forall w, In w ws -> (w < nw)%nat) ->
    accum (zrange 0 (zlen (zw ws)))
          (fun b => truthy (Z.land (b2z a) (Z.shiftl 1 b)))
          (fun b => Z.shiftl 1 (znth (rev_pos ws) b))
    = wsum (Z.of_nat nw) (combine a (zw ws)).
  Proof.
    intros Hl Hb. set (m := length ws).
    assert (Em : zlen (zw ws) = Z.of_nat m) by (unfold zlen, zw; rewrite map_length; reflexivity).
    rewrite accum_zsum, Em, zrange_0_nat, map_map.
    (* term for bit b: a[m-1-b] ? 2^(nw-1-ws[m-1-b]) : 0 *)
    transitivity (zsum (map (fun b => if nth (m - 1 - b) a false
                                      then 2 ^ (Z.of_nat nw - 1 - Z.of_nat (nth (m - 1 - b) ws 0%nat)) else 0)
                            (seq 0 m))).
    { f_equal. apply map_ext_in. intros b Hin. apply in_seq in Hin.
      rewrite truthy_land_testbit by lia.
      replace (Z.of_nat b) with (Z.of_nat (length a - 1 - (m - 1 - b))) at 1 by (rewrite Hl; fold m; lia).
      rewrite testbit_b2z by (rewrite Hl; fold m; lia).
      destruct (nth (m - 1 - b) a false); [|reflexivity].
      assert (E : znth (rev_pos ws) (Z.of_nat b) = Z.of_nat nw - 1 - Z.of_nat (nth (m - 1 - b) ws 0%nat)).
      { unfold rev_pos. rewrite Em, zrange_0_nat, map_map. unfold znth at 1. rewrite Nat2Z.id.
        rewrite (nth_indep _ 0 ((fun x => Z.of_nat nw - 1 - znth (zw ws) (Z.of_nat m - 1 - Z.of_nat x)) 0%nat))
          by (rewrite map_length, seq_length; lia).
        rewrite (map_nth (fun x => Z.of_nat nw - 1 - znth (zw ws) (Z.of_nat m - 1 - Z.of_nat x)) (seq 0 m) 0%nat b).
        rewrite seq_nth by lia. cbn [Nat.add].
        replace (Z.of_nat m - 1 - Z.of_nat b) with (Z.of_nat (m - 1 - b)) by lia.
        rewrite znth_zw by (fold m; lia). reflexivity. }
      rewrite E. rewrite Z.shiftl_1_l. reflexivity. }
    (* reverse the order of summation *)
    transitivity (zsum (map (fun t => if nth t a false
                                      then 2 ^ (Z.of_nat nw - 1 - Z.of_nat (nth t ws 0%nat)) else 0)
                            (seq 0 m))).
    { rewrite <- (map_map (fun b => (m - 1 - b)%nat)
                          (fun t => if nth t a false then 2 ^ (Z.of_nat nw - 1 - Z.of_nat (nth t ws 0%nat)) else 0)).
      rewrite <- rev_seq. apply zsum_perm. apply Permutation_map. apply Permutation_sym, Permutation_rev. }
    unfold wsum.
    rewrite (combine_as_map a (zw ws) false 0) by (unfold zw; rewrite map_length; exact Hl).
    rewrite map_map, Hl. fold m. f_equal. apply map_ext_in. intros t Ht. apply in_seq in Ht.
    cbn [fst snd]. destruct (nth t a false); [|reflexivity].
    change (nth t (zw ws) 0) with (znth (zw ws) (Z.of_nat t)) || idtac.
    assert (E : nth t (zw ws) 0 = Z.of_nat (nth t ws 0%nat)).
    { pose proof (znth_zw ws t ltac:(fold m; lia)) as Z1. unfold znth in Z1. rewrite Nat2Z.id in Z1. exact Z1. }
    rewrite E. reflexivity.
  Qed.

  (** b2z is the weighted sum over all wires *)
  Lemma b2z_wsum_aux (r : bits) (s : nat) : (s + length r = nw)%nat ->
    b2z r = wsum (Z.of_nat nw) (combine r (map Z.of_nat (seq s (length r)))).
  Proof.
    revert s; induction r as [|x r IH]; intros s H; [reflexivity|].
    cbn [length] in *. cbn [seq map combine]. unfold wsum in *. cbn [map zsum fold_right fst snd].
    rewrite b2z_cons. rewrite (IH (Datatypes.S s)) by lia. f_equal.
    destruct x; [|reflexivity]. f_equal. lia.
  Qed.
  Lemma b2z_wsum (r : bits) : length r = nw ->
    b2z r = wsum (Z.of_nat nw) (combine r (map Z.of_nat (seq 0 nw))).
  Proof. intros H. rewrite (b2z_wsum_aux r 0) by lia. rewrite H. reflexivity. Qed.

  (** gathering along a permutation of the wires does not change the weighted sum *)
  Lemma wsum_gather (ord : list nat) (r : bits) : is_perm nw ord -> length r = nw ->
    wsum (Z.of_nat nw) (combine (gather ord r) (zw ord)) = b2z r.
  Proof.
    intros P Hr. rewrite (b2z_wsum r Hr). apply wsum_perm.
    assert (E1 : combine (gather ord r) (zw ord) = map (fun w => (nth w r false, Z.of_nat w)) ord).
    { unfold gather, zw. clear. induction ord as [|w ord IH]; [reflexivity|]. cbn. f_equal. exact IH. }
    assert (E2 : combine r (map Z.of_nat (seq 0 nw)) = map (fun w => (nth w r false, Z.of_nat w)) (seq 0 nw)).
    { rewrite (combine_as_map r (map Z.of_nat (seq 0 nw)) false 0) by (rewrite map_length, seq_length; exact Hr).
      rewrite Hr. apply map_ext_in. intros t Ht. apply in_seq in Ht. f_equal.
      rewrite (nth_indep _ 0 (Z.of_nat 0)) by (rewrite map_length, seq_length; lia).
      rewrite map_nth, seq_nth by lia. reflexivity. }
    rewrite E1, E2. apply Permutation_map.
    destruct P as [ND [Hl Hb]]. apply NoDup_Permutation; [exact ND|apply seq_NoDup|].
    intros x. rewrite in_seq. split; [intros H; specialize (Hb x H); lia|].
    intros H. apply (is_perm_complete nw); [split; [exact ND|split; assumption]|lia].
  Qed.
End Scatter.

(* ------------------------------------------------------------------ the port, unfolded *)
Lemma filter_map_comm {A B} (f : B -> bool) (g : A -> B) l :
  filter f (map g l) = map g (filter (fun x => f (g x)) l).
Proof. induction l as [|x l IH]; cbn; [reflexivity|]. destruct (f (g x)); cbn; rewrite IH; reflexivity. Qed.

Lemma py_range_minus_compl nw ws : py_range_minus (Z.of_nat nw) (zw ws) = zw (compl nw ws).
Proof.
  unfold py_range_minus, compl, zw. rewrite zrange_0_nat, filter_map_comm. f_equal.
  apply filter_ext. intros w. f_equal. unfold mem_nat.
  induction ws as [|x ws IH]; cbn; [reflexivity|]. rewrite IH. f_equal.
  destruct (Nat.eqb_spec w x); destruct (Z.eqb_spec (Z.of_nat w) (Z.of_nat x)); try reflexivity; lia.
Qed.

Lemma zlen_zw ws : zlen (zw ws) = Z.of_nat (length ws).
Proof. unfold zlen, zw. rewrite map_length. reflexivity. Qed.

Lemma accum_false rng cond incr : (forall b, In b rng -> cond b = false) -> accum rng cond incr = 0.
Proof.
  intros H. rewrite accum_zsum. unfold zsum. induction rng as [|b rng IH]; [reflexivity|].
  cbn [map fold_right]. rewrite H by (left; reflexivity). rewrite IH; [reflexivity|].
  intros; apply H; right; assumption.
Qed.

Lemma map_flat_map {A B C} (f : B -> C) (F : A -> list B) l :
  map f (flat_map F l) = flat_map (fun x => map f (F x)) l.
Proof. induction l as [|x l IH]; cbn; [reflexivity|]. rewrite map_app, IH. reflexivity. Qed.

Lemma combine_app_len {A B} (a1 a2 : list A) (b1 b2 : list B) : length a1 = length b1 ->
  combine (a1 ++ a2) (b1 ++ b2) = combine a1 b1 ++ combine a2 b2.
Proof.
  revert b1; induction a1 as [|x a1 IH]; intros [|y b1] H; try discriminate; [reflexivity|].
  cbn in *. injection H as H. rewrite IH by exact H. reflexivity.
Qed.

Definition zbits (m : nat) (j : Z) : bits := n2b m (Z.to_nat j).
Lemma zbits_length m j : length (zbits m j) = m.
Proof. apply n2b_length. Qed.
Lemma b2z_zbits m j : 0 <= j < 2 ^ Z.of_nat m -> b2z (zbits m j) = j.
Proof.
  intros H. unfold b2z, zbits. rewrite b2n_n2b; [lia|].
  apply Nat2Z.inj_lt. rewrite Nat2Z.inj_pow. change (Z.of_nat 2) with 2. lia.
Qed.
Lemma app_eq_len {A} (a1 b1 a2 b2 : list A) : length a1 = length a2 -> a1 ++ b1 = a2 ++ b2 -> a1 = a2 /\ b1 = b2.
Proof.
  revert a2; induction a1 as [|x a1 IH]; intros [|y a2] Hl E; try discriminate; [split; [reflexivity|exact E]|].
  cbn in *. injection E as -> E. injection Hl as Hl. destruct (IH a2 Hl E) as [-> ->]. split; reflexivity.
Qed.

Section Port.
  Variable nw : nat.
  Variable ws : list nat.
  Hypothesis W : wires_ok nw ws.
  Let m := length ws.
  Let cs := compl nw ws.
  Let nwz := Z.of_nat nw.
  Let mz := Z.of_nat m.

  (** row/column scattering and replica offset, literally as they appear in the port *)
  Definition rowf (j : Z) : Z :=
    accum (zrange 0 (zlen (zw ws))) (fun b => truthy (Z.land j (Z.shiftl 1 b)))
          (fun b => Z.shiftl 1 (znth (rev_pos nw ws) b)).
  Definition cpos : list Z :=
    map (fun b => Z.of_nat nw - 1 - znth (zw (compl nw ws)) (Z.of_nat nw - zlen (zw ws) - 1 - b))
        (zrange 0 (Z.of_nat nw - zlen (zw ws))).
  Definition koff (k : Z) : Z :=
    accum (zrange 0 (Z.of_nat nw - zlen (zw ws))) (fun b => truthy (Z.land k (Z.shiftl 1 b)))
          (fun b => Z.shiftl 1 (znth cpos b)).

  Lemma cs_len : (m + length cs = nw)%nat.
  Proof. apply compl_length. exact W. Qed.

  Lemma cpos_eq : cpos = rev_pos nw cs.
  Proof.
    unfold cpos, rev_pos. pose proof cs_len as E. cbv zeta.
    replace (zlen (zw cs)) with (Z.of_nat nw - zlen (zw ws)) by (rewrite !zlen_zw; fold m; lia).
    reflexivity.
  Qed.

  Lemma rowf_wsum a : length a = m -> rowf (b2z a) = wsum nwz (combine a (zw ws)).
  Proof. intros Ha. unfold rowf. apply scatter_wsum; [exact Ha|apply W]. Qed.
  Lemma koff_wsum b : length b = length cs -> koff (b2z b) = wsum nwz (combine b (zw cs)).
  Proof.
    intros Hb. unfold koff. pose proof cs_len as E. rewrite cpos_eq.
    replace (Z.of_nat nw - zlen (zw ws)) with (zlen (zw cs)) by (rewrite !zlen_zw; fold m; lia).
    apply scatter_wsum; [exact Hb|]. intros w Hw. apply in_compl in Hw. tauto.
  Qed.
  Lemma koff_0 : koff 0 = 0.
  Proof. apply accum_false. intros b _. rewrite Z.land_0_l. reflexivity. Qed.

  (** a sum of distinct powers of two has exactly those bits *)
  Lemma scatter_sum_iff a b r : length a = m -> length b = length cs -> length r = nw ->
    (wsum nwz (combine a (zw ws)) + wsum nwz (combine b (zw cs)) = b2z r
     <-> a = gather ws r /\ b = gather cs r).
  Proof.
    intros Ha Hb Hr. pose proof cs_len as E.
    pose proof (wire_order_perm nw ws W) as P.
    assert (S1 : wsum nwz (combine a (zw ws)) + wsum nwz (combine b (zw cs))
                 = wsum nwz (combine (a ++ b) (zw (wire_order nw ws)))).
    { unfold wire_order, zw. rewrite map_app. fold (zw ws) (zw (compl nw ws)).
      rewrite combine_app_len by (unfold zw; rewrite map_length; exact Ha). apply eq_sym, wsum_app. }
    rewrite S1.
    set (r' := gather (invperm (wire_order nw ws)) (a ++ b)).
    assert (Lab : length (a ++ b) = nw) by (rewrite app_length; lia).
    assert (G' : gather (wire_order nw ws) r' = a ++ b) by (apply (gather_invperm_r nw); assumption).
    assert (Lr' : length r' = nw).
    { unfold r'. rewrite gather_length, invperm_length. destruct P as [_ [Hl _]]. exact Hl. }
    rewrite <- G'. unfold nwz. rewrite (wsum_gather nw _ r' P Lr').
    split.
    - intros Eb. apply b2z_inj in Eb; [|congruence].
      rewrite Eb in G'. unfold wire_order in G'. rewrite gather_app in G'.
      apply app_eq_len in G'; [|rewrite gather_length; fold m; lia].
      destruct G' as [G1 G2]. split; symmetry; assumption.
    - intros [-> ->]. f_equal. unfold r'. rewrite <- gather_app. apply (gather_invperm_l nw); assumption.
  Qed.
End Port.

(** which (row, replica) pairs land on a given register index *)
Lemma scatter_eqb nw ws j k r : wires_ok nw ws ->
  0 <= j < 2 ^ Z.of_nat (length ws) -> 0 <= k < 2 ^ Z.of_nat (length (compl nw ws)) -> length r = nw ->
  (rowf nw ws j + koff nw ws k =? b2z r)
  = (j =? b2z (gather ws r)) && (k =? b2z (gather (compl nw ws) r)).
Proof.
  intros W Hj Hk Hr.
  assert (Xa : exists a, length a = length ws /\ b2z a = j)
    by (exists (zbits (length ws) j); split; [apply zbits_length|apply b2z_zbits; exact Hj]).
  assert (Xb : exists b, length b = length (compl nw ws) /\ b2z b = k)
    by (exists (zbits (length (compl nw ws)) k); split; [apply zbits_length|apply b2z_zbits; exact Hk]).
  destruct Xa as [a [La <-]]. destruct Xb as [b [Lb <-]].
  rewrite (rowf_wsum nw ws W a La), (koff_wsum nw ws W b Lb).
  pose proof (scatter_sum_iff nw ws W a b r La Lb Hr) as I.
  destruct (Z.eqb_spec (wsum (Z.of_nat nw) (combine a (zw ws)) + wsum (Z.of_nat nw) (combine b (zw (compl nw ws)))) (b2z r)) as [E|E].
  - apply I in E. destruct E as [-> ->]. rewrite !Z.eqb_refl. reflexivity.
  - destruct (Z.eqb_spec (b2z a) (b2z (gather ws r))) as [E1|E1]; [|reflexivity].
    destruct (Z.eqb_spec (b2z b) (b2z (gather (compl nw ws) r))) as [E2|E2]; [|reflexivity].
    exfalso. apply E, I. split; apply b2z_inj; try assumption; rewrite gather_length; assumption.
Qed.

(** unfolding of the port for distinct in-range wires *)
Lemma distribute_inv {V} (d : V) nw ws g T : wires_ok nw ws ->
  distribute d (Z.of_nat nw) (zw ws) g = Some T ->
  c_nrows g = 2 ^ zlen (zw ws) /\
  exists base,
    base_block d g (csr_loop g (zrange 0 (2 ^ zlen (zw ws))) (rowf nw ws) (rowf nw ws)) = Some base /\
    T = base ++ flat_map (fun k => shift_block (koff nw ws k) base)
                         (zrange 1 (2 ^ (Z.of_nat nw - zlen (zw ws)))).
Proof.
  intros W. unfold distribute. rewrite py_range_minus_compl. unfold py_assert.
  destruct (zlen (zw ws) + zlen (zw (compl nw ws)) =? Z.of_nat nw); [|discriminate].
  destruct (zlen (zw ws) <=? Z.of_nat nw); [|discriminate].
  destruct (Z.eqb_spec (c_nrows g) (2 ^ zlen (zw ws))) as [En|]; [|discriminate].
  intros H. split; [exact En|].
  match type of H with match ?B with _ => _ end = _ => destruct B as [base|] eqn:EB; [|discriminate] end.
  exists base. split; [exact EB|]. injection H as <-. reflexivity.
Qed.

(** the port accepts exactly when the asserts hold; for distinct in-range wires they do *)
Lemma distribute_accepts {V} (d : V) nw ws g : wires_ok nw ws ->
  c_nrows g = 2 ^ zlen (zw ws) ->
  (exists base, base_block d g (csr_loop g (zrange 0 (2 ^ zlen (zw ws))) (rowf nw ws) (rowf nw ws)) = Some base) ->
  exists T, distribute d (Z.of_nat nw) (zw ws) g = Some T.
Proof.
  intros W En [base EB]. unfold distribute. rewrite py_range_minus_compl. unfold py_assert.
  pose proof (compl_length nw ws W) as E.
  replace (zlen (zw ws) + zlen (zw (compl nw ws)) =? Z.of_nat nw) with true
    by (symmetry; apply Z.eqb_eq; rewrite !zlen_zw; lia).
  replace (zlen (zw ws) <=? Z.of_nat nw) with true by (symmetry; apply Z.leb_le; rewrite zlen_zw; lia).
  rewrite En, Z.eqb_refl.
  change (base_block d g _) with
    (base_block d g (csr_loop g (zrange 0 (2 ^ zlen (zw ws))) (rowf nw ws) (rowf nw ws))).
  rewrite EB. eexists. reflexivity.
Qed.

Section Main.
  Context {K : Scalar} {L : ScalarLaws K}.
  Local Open Scope K_scope.
  Add Ring KringD : (s_ring K L).

  Lemma te_app (a b : list (triple K)) r c :
    triples_entry a r c + triples_entry b r c = triples_entry (a ++ b) r c.
  Proof. unfold triples_entry. rewrite map_app. symmetry. apply lsum_app. Qed.
  Lemma te_flat_map {A} (F : A -> list (triple K)) l r c :
    triples_entry (flat_map F l) r c = lsum (map (fun x => triples_entry (F x) r c) l).
  Proof.
    induction l as [|x l IH]; cbn [flat_map map]; [reflexivity|].
    rewrite <- te_app, lsum_cons, IH. reflexivity.
  Qed.
  Lemma lsum_zrange_single (f : Z -> K) lo hi a : (lo <= a < hi)%Z ->
    (forall x, (lo <= x < hi)%Z -> x <> a -> f x = 0) -> lsum (map f (zrange lo hi)) = f a.
  Proof.
    intros Ha Hz. apply lsum_map_single; [apply zrange_NoDup|apply in_zrange; exact Ha|].
    intros x Hx. apply Hz. apply in_zrange. exact Hx.
  Qed.

  Definition csr_cols_ok (m : nat) (g : csr K) : Prop :=
    forall j i, (0 <= j < 2 ^ Z.of_nat m)%Z ->
      In i (zrange (znth (c_indptr g) j) (znth (c_indptr g) (j + 1))) ->
      (0 <= znth (c_indices g) i < 2 ^ Z.of_nat m)%Z.

  (** one replica block, as a double sum over gate rows and their CSR entries *)
  Definition block_sum (nw : nat) (ws : list nat) (g : csr K) (o : Z) (r c : bits) : K :=
    lsum (map (fun j =>
      lsum (map (fun i => if ((rowf nw ws j + o =? b2z r) && (rowf nw ws (znth (c_indices g) i) + o =? b2z c))%Z
                          then nth (Z.to_nat i) (c_data g) 0 else 0)
                (zrange (znth (c_indptr g) j) (znth (c_indptr g) (j + 1)))))
      (zrange 0 (2 ^ zlen (zw ws)))).

  Lemma block_entry nw ws (g : csr K) base o r c :
    base_block 0 g (csr_loop g (zrange 0 (2 ^ zlen (zw ws))) (rowf nw ws) (rowf nw ws)) = Some base ->
    triples_entry (shift_block o base) r c = block_sum nw ws g o r c.
  Proof.
    unfold base_block. destruct (zlist_eqb _ _); [|discriminate]. intros H. injection H as <-.
    unfold shift_block, csr_loop. rewrite !map_flat_map.
    rewrite te_flat_map. unfold block_sum. apply lsum_map_ext. intros j _.
    unfold triples_entry. rewrite !map_map. apply lsum_map_ext. intros i _. cbn [fst snd]. reflexivity.
  Qed.

  Lemma shift_block_0 (base : list (triple K)) : shift_block 0 base = base.
  Proof.
    unfold shift_block. rewrite <- (map_id base) at 2. apply map_ext.
    intros [[a b] v]. cbn [fst snd]. rewrite !Z.add_0_r. reflexivity.
  Qed.

  (** MAIN: the triples produced by the port are the entries of the embedding *)
  Theorem distribute_entry nw ws (g : csr K) T :
    wires_ok nw ws -> csr_cols_ok (length ws) g ->
    distribute 0 (Z.of_nat nw) (zw ws) g = Some T ->
    forall r c, length r = nw -> length c = nw ->
      triples_entry T r c = embed nw ws (csr_entry g) r c.
  Proof.
    intros W Cok HT r c Hr Hc.
    destruct (distribute_inv 0 nw ws g T W HT) as [En [base [EB ->]]].
    pose proof (compl_length nw ws W) as El.
    set (cs := compl nw ws) in *. set (m := length ws) in *.
    assert (Em : zlen (zw ws) = Z.of_nat m) by apply zlen_zw.
    assert (EK : (Z.of_nat nw - zlen (zw ws) = Z.of_nat (length cs))%Z) by (rewrite Em; lia).
    set (kr := b2z (gather cs r)). set (kc := b2z (gather cs c)).
    set (jr := b2z (gather ws r)). set (jc := b2z (gather ws c)).
    assert (Bkr : (0 <= kr < 2 ^ Z.of_nat (length cs))%Z).
    { unfold kr. pose proof (b2z_bound (gather cs r)) as B. rewrite gather_length in B. exact B. }
    assert (Bjr : (0 <= jr < 2 ^ Z.of_nat m)%Z).
    { unfold jr. pose proof (b2z_bound (gather ws r)) as B. rewrite gather_length in B. exact B. }
    (* all replicas, k = 0 included *)
    rewrite <- te_app, te_flat_map.
    rewrite <- (shift_block_0 base) at 1. rewrite <- (koff_0 nw ws) at 1.
    rewrite <- (lsum_cons (triples_entry (shift_block (koff nw ws 0) base) r c)).
    change (triples_entry (shift_block (koff nw ws 0) base) r c
            :: map (fun k => triples_entry (shift_block (koff nw ws k) base) r c) (zrange 1 (2 ^ (Z.of_nat nw - zlen (zw ws)))))
      with (map (fun k => triples_entry (shift_block (koff nw ws k) base) r c)
                (0%Z :: zrange (0 + 1) (2 ^ (Z.of_nat nw - zlen (zw ws))))).
    rewrite <- zrange_cons by (rewrite EK; lia).
    rewrite EK.
    (* only the replica k = kr contributes *)
    rewrite (lsum_zrange_single _ 0 (2 ^ Z.of_nat (length cs)) kr Bkr).
    2:{ intros k Hk Hne. rewrite (block_entry nw ws g base _ r c EB). unfold block_sum.
        apply lsum_map_zero. intros j Hj. apply in_zrange in Hj. rewrite Em in Hj.
        apply lsum_map_zero. intros i _.
        rewrite (scatter_eqb nw ws j k r W Hj Hk Hr). fold cs kr.
        replace (k =? kr)%Z with false by (symmetry; apply Z.eqb_neq; exact Hne).
        rewrite andb_false_r. reflexivity. }
    rewrite (block_entry nw ws g base _ r c EB). unfold block_sum. rewrite Em.
    (* only the gate row j = jr contributes *)
    rewrite (lsum_zrange_single _ 0 (2 ^ Z.of_nat m) jr Bjr).
    2:{ intros j Hj Hne. apply lsum_map_zero. intros i _.
        rewrite (scatter_eqb nw ws j kr r W Hj Bkr Hr). fold jr.
        replace (j =? jr)%Z with false by (symmetry; apply Z.eqb_neq; exact Hne). reflexivity. }
    unfold embed. fold cs.
    transitivity (lsum (map (fun i => if (kr =? kc)%Z
                                      then (if (znth (c_indices g) i =? jc)%Z then nth (Z.to_nat i) (c_data g) 0 else 0)
                                      else 0)
                            (zrange (znth (c_indptr g) jr) (znth (c_indptr g) (jr + 1))))).
    { apply lsum_map_ext. intros i Hi.
      rewrite (scatter_eqb nw ws jr kr r W Bjr Bkr Hr). fold jr cs kr. rewrite !Z.eqb_refl. cbn [andb].
      rewrite (scatter_eqb nw ws _ kr c W (Cok jr i Bjr Hi) Bkr Hc). fold jc cs kc.
      destruct (znth (c_indices g) i =? jc)%Z; destruct (kr =? kc)%Z; reflexivity. }
    destruct (Z.eqb_spec kr kc) as [E|E].
    - unfold kr, kc in E. apply b2z_inj in E; [|rewrite !gather_length; reflexivity].
      rewrite E, beq_refl. unfold csr_entry. fold jr jc. ring.
    - destruct (beq (gather cs r) (gather cs c)) eqn:B.
      + apply beq_eq in B. exfalso. apply E. unfold kr, kc. rewrite B. reflexivity.
      + rewrite lsum_map_zero by reflexivity. ring.
  Qed.
End Main.
