(** C05 (a), (b): the circuit matrix is the product of the embedded gate matrices in
    application order; builder calls compose; the statevector simulator returns column 0 of the
    circuit matrix, of unit norm when all gates are unitary.  For every circuit length, register
    size and wire pattern. *)
From Qib Require Export Embed.CircModel Embed.EmbedProofs.

Section CircProofs.
  Context {K : Scalar} {L : ScalarLaws K}.
  Local Open Scope K_scope.
  Add Ring KringC : (s_ring K L).

  Variable nw : nat.

  (** running the loop from an accumulator M multiplies M from the left by the circuit matrix *)
  Lemma cm_fold_from (c : circuit K) : forall M, meq nw (fold_left (cm_step nw) c M) (mmul nw (cmat nw c) M).
  Proof.
    induction c as [|g c IH]; intros M.
    - cbn. apply meq_sym. apply mmul_id_l.
    - cbn [fold_left]. unfold cmat. cbn [fold_left].
      eapply meq_trans; [apply IH|].
      eapply meq_trans; [|apply mmul_meq; [apply meq_sym; apply IH|apply meq_refl]].
      unfold cm_step.
      eapply meq_trans; [|apply meq_sym; apply mmul_assoc].
      apply mmul_meq; [apply meq_refl|].
      eapply meq_trans; [|apply meq_sym; apply mmul_assoc].
      apply mmul_meq; [apply meq_refl|]. apply meq_sym. apply mmul_id_l.
  Qed.

  Lemma cmat_nil : meq nw (cmat nw ([] : circuit K)) mid.
  Proof. apply meq_refl. Qed.
  Lemma cmat_one (g : cgate K) : meq nw (cmat nw [g]) (E nw g).
  Proof. unfold cmat. cbn. unfold cm_step. apply mmul_id_r. Qed.

  (** (a) concatenation = product, later circuit on the left *)
  Theorem cmat_app (c1 c2 : circuit K) : meq nw (cmat nw (c1 ++ c2)) (mmul nw (cmat nw c2) (cmat nw c1)).
  Proof. unfold cmat at 1. rewrite fold_left_app. apply cm_fold_from. Qed.

  (** the code's loop (first gate special-cased) computes cmat *)
  Lemma circuit_matrix_cmat (c : circuit K) M : circuit_matrix nw c = Some M -> meq nw M (cmat nw c).
  Proof.
    destruct c as [|g gs]; [discriminate|]. unfold circuit_matrix. intros H. injection H as <-.
    eapply meq_trans; [apply cm_fold_from|].
    apply meq_sym. eapply meq_trans; [apply (cmat_app [g] gs)|].
    apply mmul_meq; [apply meq_refl|]. apply cmat_one.
  Qed.
  Lemma circuit_matrix_some (c : circuit K) : c <> [] -> exists M, circuit_matrix nw c = Some M.
  Proof. destruct c; [congruence|]. intros _. eexists. reflexivity. Qed.

  Theorem circuit_matrix_app (c1 c2 : circuit K) M1 M2 M :
    circuit_matrix nw c1 = Some M1 -> circuit_matrix nw c2 = Some M2 ->
    circuit_matrix nw (c1 ++ c2) = Some M -> meq nw M (mmul nw M2 M1).
  Proof.
    intros H1 H2 H.
    eapply meq_trans; [apply circuit_matrix_cmat; exact H|].
    eapply meq_trans; [apply cmat_app|].
    apply mmul_meq; apply meq_sym; apply circuit_matrix_cmat; assumption.
  Qed.

  (** the four builder calls *)
  Theorem builder_matrix (c : circuit K) (b : builder K) :
    meq nw (cmat nw (apply_builder c b))
        match b with
        | BAppendGate g => mmul nw (E nw g) (cmat nw c)
        | BAppendCircuit o => mmul nw (cmat nw o) (cmat nw c)
        | BPrependGate g => mmul nw (cmat nw c) (E nw g)
        | BPrependCircuit o => mmul nw (cmat nw c) (cmat nw o)
        end.
  Proof.
    destruct b as [g|o|g|o]; cbn [apply_builder].
    - eapply meq_trans; [apply cmat_app|]. apply mmul_meq; [apply cmat_one|apply meq_refl].
    - apply cmat_app.
    - change (g :: c) with ([g] ++ c). eapply meq_trans; [apply cmat_app|].
      apply mmul_meq; [apply meq_refl|apply cmat_one].
    - apply cmat_app.
  Qed.

  (* ---------------------------------------------------------------- statevector *)
  Definition veq (v w : vec (K:=K)) : Prop := forall r, length r = nw -> v r = w r.

  Lemma mvmul_veq A A' v v' : meq nw A A' -> veq v v' -> veq (mvmul nw A v) (mvmul nw A' v').
  Proof.
    intros HA Hv r Hr. unfold mvmul. apply bsum_ext. intros k Hk. rewrite HA, Hv by assumption. reflexivity.
  Qed.
  Lemma mvmul_mmul A B v : veq (mvmul nw (mmul nw A B) v) (mvmul nw A (mvmul nw B v)).
  Proof.
    intros r Hr. unfold mvmul, mmul.
    transitivity (bsum nw (fun k => bsum nw (fun j => A r j * B j k * v k))).
    { apply bsum_ext. intros k _. rewrite <- bsum_scal_r. reflexivity. }
    rewrite bsum_swap. apply bsum_ext. intros j _. rewrite <- bsum_scal. apply bsum_ext. intros k _. ring.
  Qed.
  Lemma mvmul_mid v : veq (mvmul nw mid v) v.
  Proof. intros r Hr. unfold mvmul, mid. apply (bsum_delta_l nw r v Hr). Qed.

  Lemma sv_fold_from (c : circuit K) : forall psi,
    veq (fold_left (fun psi g => mvmul nw (E nw g) psi) c psi) (mvmul nw (cmat nw c) psi).
  Proof.
    induction c as [|g c IH]; intros psi.
    - cbn. intros r Hr. symmetry. apply mvmul_mid. exact Hr.
    - cbn [fold_left]. intros r Hr. rewrite IH by exact Hr.
      change (g :: c) with ([g] ++ c).
      rewrite (mvmul_veq _ _ psi psi (cmat_app [g] c) (fun _ _ => eq_refl) r Hr).
      rewrite (mvmul_mmul _ _ _ r Hr).
      apply mvmul_veq; [apply meq_refl| |exact Hr].
      apply mvmul_veq; [apply meq_sym; apply cmat_one|intros ? ?; reflexivity].
  Qed.

  Lemma zeros_length : length (zeros nw) = nw.
  Proof. apply repeat_length. Qed.

  (** (b) the statevector simulator returns the first column of the circuit matrix *)
  Theorem run_statevector_column0 (c : circuit K) :
    veq (run_statevector nw c) (column0 nw (cmat nw c)).
  Proof.
    intros r Hr. unfold run_statevector. rewrite sv_fold_from by exact Hr.
    unfold mvmul, e0, column0. apply (bsum_delta_r nw (zeros nw) (fun k => cmat nw c r k) zeros_length).
  Qed.

  (** unitarity of the circuit matrix *)
  Definition gate_ok (g : cgate K) : Prop :=
    wires_ok nw (g_wires g) /\ unitary (length (g_wires g)) (g_mat g).

  Lemma fold_unitary (c : circuit K) : Forall gate_ok c ->
    forall M, unitary nw M -> unitary nw (fold_left (cm_step nw) c M).
  Proof.
    induction c as [|g c IH]; intros H M HM; [exact HM|].
    inversion H as [|? ? [W U] H']; subst. cbn [fold_left]. apply IH; [exact H'|].
    unfold cm_step. apply unitary_mmul; [|exact HM]. apply embed_unitary; assumption.
  Qed.
  Theorem cmat_unitary (c : circuit K) : Forall gate_ok c -> unitary nw (cmat nw c).
  Proof. intros H. apply fold_unitary; [exact H|apply unitary_mid]. Qed.

  Lemma column0_norm (U : BMx K) : unitary nw U -> norm2 nw (column0 nw U) = 1.
  Proof.
    intros [_ U2]. specialize (U2 (zeros nw) (zeros nw) zeros_length zeros_length).
    unfold mmul, madj, mid in U2. rewrite beq_refl in U2. exact U2.
  Qed.

  Theorem run_statevector_unit_norm (c : circuit K) : Forall gate_ok c ->
    norm2 nw (run_statevector nw c) = 1.
  Proof.
    intros H. rewrite <- (column0_norm (cmat nw c) (cmat_unitary c H)).
    unfold norm2. apply bsum_ext. intros r Hr. rewrite run_statevector_column0 by exact Hr. reflexivity.
  Qed.
End CircProofs.
