(** Aliasing model for C05 (c): Python gate objects as identity-labelled trees.
    Two occurrences of the same label are the same object; a mutation of an object rewrites
    every occurrence of its label (in the caller's handles AND in the circuits), which is
    exactly what a heap with references does on acyclic object graphs.  copy(g) follows the
    per-class __copy__ rules (deep or shallow in the gate-valued fields).
    Circuits come into being empty (builder circuits) or through the list constructor
    Circuit([g1, ...]), which keeps the caller's objects unless [ctor] (= it copies); a circuit's
    own gates can be mutated through circuit.gates[i].  No proofs here. *)
From Coq Require Import List Arith ZArith Bool Lia.
Import ListNotations.

(** object: identity, class code, non-gate attributes (opaque integers), gate-valued fields *)
Inductive gobj := GObj (id : nat) (cls : nat) (params : list Z) (kids : list gobj).
(** value of an object: what it denotes, identities erased *)
Inductive gval := GVal (cls : nat) (params : list Z) (kids : list gval).

Fixpoint erase (g : gobj) : gval :=
  match g with GObj _ cls ps ks => GVal cls ps (map erase ks) end.
Fixpoint ids (g : gobj) : list nat :=
  match g with GObj i _ _ ks => i :: flat_map ids ks end.
Definition ids_l (l : list gobj) : list nat := flat_map ids l.
Definition obj_id (g : gobj) : nat := match g with GObj i _ _ _ => i end.
Definition obj_kids (g : gobj) : list gobj := match g with GObj _ _ _ ks => ks end.

(** copy(g): class rule deep -> fresh object whose gate-valued fields are copies (recursively,
    each by its own class rule); shallow -> fresh object sharing the field objects *)
Fixpoint copy (deep : nat -> bool) (next : nat) (g : gobj) {struct g} : gobj * nat :=
  match g with
  | GObj _ cls ps ks =>
    if deep cls then
      let '(ks', n') :=
        (fix cl (l : list gobj) (n : nat) {struct l} : list gobj * nat :=
           match l with
           | [] => ([], n)
           | k :: l' => let '(k', n1) := copy deep n k in
                        let '(l'', n2) := cl l' n1 in (k' :: l'', n2)
           end) ks next in
      (GObj n' cls ps ks', Datatypes.S n')
    else (GObj next cls ps ks, Datatypes.S next)
  end.
Fixpoint copy_list (deep : nat -> bool) (next : nat) (l : list gobj) : list gobj * nat :=
  match l with
  | [] => ([], next)
  | k :: l' => let '(k', n1) := copy deep next k in
               let '(l'', n2) := copy_list deep n1 l' in (k' :: l'', n2)
  end.

(** attribute assignment / public mutator on the object labelled x *)
Fixpoint set_params (x : nat) (ps' : list Z) (g : gobj) : gobj :=
  match g with
  | GObj i cls ps ks => GObj i cls (if Nat.eqb i x then ps' else ps) (map (set_params x ps') ks)
  end.
Fixpoint replace_nth {A} (i : nat) (a : A) (l : list A) : list A :=
  match l, i with
  | [], _ => []
  | _ :: l', O => a :: l'
  | y :: l', Datatypes.S i' => y :: replace_nth i' a l'
  end.
(** assignment of a gate-valued field: obj.tgate = new / obj.tgates[i] = new *)
Fixpoint set_kid (x : nat) (i : nat) (new : gobj) (g : gobj) : gobj :=
  match g with
  | GObj j cls ps ks =>
    let ks' := map (set_kid x i new) ks in
    GObj j cls ps (if Nat.eqb j x then replace_nth i new ks' else ks')
  end.

(** follow target_gate() / target_gates()[i] *)
Fixpoint follow (g : gobj) (path : list nat) : option gobj :=
  match path with
  | [] => Some g
  | i :: p => match nth_error (obj_kids g) i with Some k => follow k p | None => None end
  end.

Record state := { handles : list gobj; circuits : list (list gobj); next_id : nat }.
Definition init : state := {| handles := []; circuits := []; next_id := 0 |}.

Inductive event :=
| ENew (cls : nat) (ps : list Z) (kids : list nat)         (* caller constructs a gate from earlier handles *)
| ENewCircuit
| EMutate (h : nat) (path : list nat) (ps : list Z)        (* attribute assignment / mutator on a reachable object *)
| ESetKid (h : nat) (path : list nat) (i : nat) (h2 : nat) (* gate-valued field := another caller object *)
| EAppendGate (c h : nat) | EPrependGate (c h : nat)
| EAppendCircuit (c c2 : nat) | EPrependCircuit (c c2 : nat)
| ENewCircuitOf (hs : list nat)                            (* other = Circuit([handles...]) *)
| EMutateGate (c i : nat) (path : list nat) (ps : list Z). (* mutation through circuit c's gate list: c.gates[i]..., *)

Definition upd_circ (cs : list (list gobj)) (c : nat) (f : list gobj -> list gobj) : list (list gobj) :=
  match nth_error cs c with Some l => replace_nth c (f l) cs | None => cs end.

(** does the object labelled x occur inside new?  (obj.tgate = new with obj inside new would tie a knot) *)
Definition occurs (x : nat) (g : gobj) : bool := existsb (Nat.eqb x) (ids g).

Definition objs_of (s : state) (hs : list nat) : list gobj :=
  flat_map (fun h => match nth_error (handles s) h with Some g => [g] | None => [] end) hs.

(** relabel-everywhere: what an assignment to an attribute of the object labelled x does to the heap *)
Definition relabel (F : gobj -> gobj) (s : state) : state :=
  {| handles := map F (handles s); circuits := map (map F) (circuits s); next_id := next_id s |}.

Definition step (deep : nat -> bool) (ctor : bool) (s : state) (e : event) : state :=
  match e with
  | ENew cls ps kids =>
      let ks := objs_of s kids in
      {| handles := handles s ++ [GObj (next_id s) cls ps ks]; circuits := circuits s; next_id := Datatypes.S (next_id s) |}
  | ENewCircuit => {| handles := handles s; circuits := circuits s ++ [[]]; next_id := next_id s |}
  | EMutate h path ps =>
      match nth_error (handles s) h with
      | Some g =>
        match follow g path with
        | Some t => relabel (set_params (obj_id t) ps) s
        | None => s
        end
      | None => s
      end
  | ESetKid h path i h2 =>
      match nth_error (handles s) h, nth_error (handles s) h2 with
      | Some g, Some new =>
        match follow g path with
        | Some t =>
          if occurs (obj_id t) new then s
          else relabel (set_kid (obj_id t) i new) s
        | None => s
        end
      | _, _ => s
      end
  | EAppendGate c h =>
      match nth_error (handles s) h with
      | Some g => let '(g', n) := copy deep (next_id s) g in
                  {| handles := handles s; circuits := upd_circ (circuits s) c (fun l => l ++ [g']); next_id := n |}
      | None => s
      end
  | EPrependGate c h =>
      match nth_error (handles s) h with
      | Some g => let '(g', n) := copy deep (next_id s) g in
                  {| handles := handles s; circuits := upd_circ (circuits s) c (fun l => g' :: l); next_id := n |}
      | None => s
      end
  | EAppendCircuit c c2 =>
      match nth_error (circuits s) c2 with
      | Some o => let '(o', n) := copy_list deep (next_id s) o in
                  {| handles := handles s; circuits := upd_circ (circuits s) c (fun l => l ++ o'); next_id := n |}
      | None => s
      end
  | EPrependCircuit c c2 =>
      match nth_error (circuits s) c2 with
      | Some o => let '(o', n) := copy_list deep (next_id s) o in
                  {| handles := handles s; circuits := upd_circ (circuits s) c (fun l => o' ++ l); next_id := n |}
      | None => s
      end
  | ENewCircuitOf hs =>
      if ctor then
        let '(o', n) := copy_list deep (next_id s) (objs_of s hs) in
        {| handles := handles s; circuits := circuits s ++ [o']; next_id := n |}
      else {| handles := handles s; circuits := circuits s ++ [objs_of s hs]; next_id := next_id s |}
  | EMutateGate c i path ps =>
      match nth_error (circuits s) c with
      | Some l =>
        match nth_error l i with
        | Some g =>
          match follow g path with
          | Some t => relabel (set_params (obj_id t) ps) s
          | None => s
          end
        | None => s
        end
      | None => s
      end
  end.
Definition run (deep : nat -> bool) (ctor : bool) (es : list event) : state := fold_left (step deep ctor) es init.

(** reference semantics of the builder calls: circuits hold VALUES, taken when a gate is added;
    mutations of the caller's objects never touch them.  The ghost keeps, per circuit, a flag
    "by value" (false for a circuit the list constructor made from the caller's objects without
    copying: the known finding) and the value list the circuit must denote.
    append_circuit(c, c2) takes what c2 denotes NOW (for a by-value c2 that is its ghost value). *)
Definition ghost := list (bool * list gval).

(** the value-level counterpart of a mutation at the end of a path *)
Fixpoint vset (path : list nat) (ps : list Z) (v : gval) {struct path} : gval :=
  match v with
  | GVal cls p ks =>
    match path with
    | [] => GVal cls ps ks
    | i :: path' => GVal cls p (match nth_error ks i with Some k => replace_nth i (vset path' ps k) ks | None => ks end)
    end
  end.

Definition gupd (gh : ghost) (c : nat) (f : list gval -> list gval) : ghost :=
  match nth_error gh c with Some (b, l) => replace_nth c (b, f l) gh | None => gh end.
Definition denotes (s : state) (c : nat) : option (list gval) := option_map (map erase) (nth_error (circuits s) c).

Definition vstep (ctor : bool) (s : state) (gh : ghost) (e : event) : ghost :=
  match e with
  | ENewCircuit => gh ++ [(true, [])]
  | ENewCircuitOf hs => gh ++ [(ctor, map erase (objs_of s hs))]
  | EAppendGate c h => match nth_error (handles s) h with Some g => gupd gh c (fun l => l ++ [erase g]) | None => gh end
  | EPrependGate c h => match nth_error (handles s) h with Some g => gupd gh c (fun l => erase g :: l) | None => gh end
  | EAppendCircuit c c2 => match denotes s c2 with Some o => gupd gh c (fun l => l ++ o) | None => gh end
  | EPrependCircuit c c2 => match denotes s c2 with Some o => gupd gh c (fun l => o ++ l) | None => gh end
  | EMutateGate c i path ps =>
      gupd gh c (fun l => match nth_error l i with Some v => replace_nth i (vset path ps v) l | None => l end)
  | _ => gh
  end.
Fixpoint vrun (deep : nat -> bool) (ctor : bool) (s : state) (gh : ghost) (es : list event) : state * ghost :=
  match es with
  | [] => (s, gh)
  | e :: es' => vrun deep ctor (step deep ctor s e) (vstep ctor s gh e) es'
  end.
