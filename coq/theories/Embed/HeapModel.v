(** Aliasing model for C05 (c): Python gate objects as identity-labelled trees.
    Two occurrences of the same label are the same object; a mutation of an object rewrites
    every occurrence of its label (in the caller's handles AND in the circuits), which is
    exactly what a heap with references does on acyclic object graphs.  copy(g) follows the
    per-class __copy__ rules (deep or shallow in the gate-valued fields).  No proofs here. *)
From Coq Require Import List Arith ZArith Bool Lia.
Import ListNotations.

(** object: identity, class code, non-gate attributes (opaque integers), gate-valued fields *)
Inductive gobj := GObj (id : nat) (cls : nat) (params : list Z) (kids : list gobj).
(** value of an object: what it denotes, identities erased *)
Inductive gval := GVal (cls : nat) (params : list Z) (kids : list gval).

Fixpoint erase (g : gobj) : gval :=
  match g with GObj _ cls ps ks => GVal cls ps (map erase ks) end.
Fixpoint ids (g : gobj) : list nat :=
  match g with GObj i _ _ ks => i :: flat_map ids ks end.
Definition ids_l (l : list gobj) : list nat := flat_map ids l.
Definition obj_id (g : gobj) : nat := match g with GObj i _ _ _ => i end.
Definition obj_kids (g : gobj) : list gobj := match g with GObj _ _ _ ks => ks end.

(** copy(g): class rule deep -> fresh object whose gate-valued fields are copies (recursively,
    each by its own class rule); shallow -> fresh object sharing the field objects *)
Fixpoint copy (deep : nat -> bool) (next : nat) (g : gobj) {struct g} : gobj * nat :=
  match g with
  | GObj _ cls ps ks =>
    if deep cls then
      let '(ks', n') :=
        (fix cl (l : list gobj) (n : nat) {struct l} : list gobj * nat :=
           match l with
           | [] => ([], n)
           | k :: l' => let '(k', n1) := copy deep n k in
                        let '(l'', n2) := cl l' n1 in (k' :: l'', n2)
           end) ks next in
      (GObj n' cls ps ks', Datatypes.S n')
    else (GObj next cls ps ks, Datatypes.S next)
  end.
Fixpoint copy_list (deep : nat -> bool) (next : nat) (l : list gobj) : list gobj * nat :=
  match l with
  | [] => ([], next)
  | k :: l' => let '(k', n1) := copy deep next k in
               let '(l'', n2) := copy_list deep n1 l' in (k' :: l'', n2)
  end.

(** attribute assignment / public mutator on the object labelled x *)
Fixpoint set_params (x : nat) (ps' : list Z) (g : gobj) : gobj :=
  match g with
  | GObj i cls ps ks => GObj i cls (if Nat.eqb i x then ps' else ps) (map (set_params x ps') ks)
  end.
Fixpoint replace_nth {A} (i : nat) (a : A) (l : list A) : list A :=
  match l, i with
  | [], _ => []
  | _ :: l', O => a :: l'
  | y :: l', Datatypes.S i' => y :: replace_nth i' a l'
  end.
(** assignment of a gate-valued field: obj.tgate = new / obj.tgates[i] = new *)
Fixpoint set_kid (x : nat) (i : nat) (new : gobj) (g : gobj) : gobj :=
  match g with
  | GObj j cls ps ks =>
    let ks' := map (set_kid x i new) ks in
    GObj j cls ps (if Nat.eqb j x then replace_nth i new ks' else ks')
  end.

(** follow target_gate() / target_gates()[i] *)
Fixpoint follow (g : gobj) (path : list nat) : option gobj :=
  match path with
  | [] => Some g
  | i :: p => match nth_error (obj_kids g) i with Some k => follow k p | None => None end
  end.

Record state := { handles : list gobj; circuits : list (list gobj); next_id : nat }.
Definition init : state := {| handles := []; circuits := []; next_id := 0 |}.

Inductive event :=
| ENew (cls : nat) (ps : list Z) (kids : list nat)         (* caller constructs a gate from earlier handles *)
| ENewCircuit
| EMutate (h : nat) (path : list nat) (ps : list Z)        (* attribute assignment / mutator on a reachable object *)
| ESetKid (h : nat) (path : list nat) (i : nat) (h2 : nat) (* gate-valued field := another caller object *)
| EAppendGate (c h : nat) | EPrependGate (c h : nat)
| EAppendCircuit (c c2 : nat) | EPrependCircuit (c c2 : nat).

Definition upd_circ (cs : list (list gobj)) (c : nat) (f : list gobj -> list gobj) : list (list gobj) :=
  match nth_error cs c with Some l => replace_nth c (f l) cs | None => cs end.

(** does the object labelled x occur inside new?  (obj.tgate = new with obj inside new would tie a knot) *)
Definition occurs (x : nat) (g : gobj) : bool := existsb (Nat.eqb x) (ids g).

Definition step (deep : nat -> bool) (s : state) (e : event) : state :=
  match e with
  | ENew cls ps kids =>
      let ks := flat_map (fun h => match nth_error (handles s) h with Some g => [g] | None => [] end) kids in
      {| handles := handles s ++ [GObj (next_id s) cls ps ks]; circuits := circuits s; next_id := Datatypes.S (next_id s) |}
  | ENewCircuit => {| handles := handles s; circuits := circuits s ++ [[]]; next_id := next_id s |}
  | EMutate h path ps =>
      match nth_error (handles s) h with
      | Some g =>
        match follow g path with
        | Some t => {| handles := map (set_params (obj_id t) ps) (handles s);
                       circuits := map (map (set_params (obj_id t) ps)) (circuits s); next_id := next_id s |}
        | None => s
        end
      | None => s
      end
  | ESetKid h path i h2 =>
      match nth_error (handles s) h, nth_error (handles s) h2 with
      | Some g, Some new =>
        match follow g path with
        | Some t =>
          if occurs (obj_id t) new then s
          else {| handles := map (set_kid (obj_id t) i new) (handles s);
                  circuits := map (map (set_kid (obj_id t) i new)) (circuits s); next_id := next_id s |}
        | None => s
        end
      | _, _ => s
      end
  | EAppendGate c h =>
      match nth_error (handles s) h with
      | Some g => let '(g', n) := copy deep (next_id s) g in
                  {| handles := handles s; circuits := upd_circ (circuits s) c (fun l => l ++ [g']); next_id := n |}
      | None => s
      end
  | EPrependGate c h =>
      match nth_error (handles s) h with
      | Some g => let '(g', n) := copy deep (next_id s) g in
                  {| handles := handles s; circuits := upd_circ (circuits s) c (fun l => g' :: l); next_id := n |}
      | None => s
      end
  | EAppendCircuit c c2 =>
      match nth_error (circuits s) c2 with
      | Some o => let '(o', n) := copy_list deep (next_id s) o in
                  {| handles := handles s; circuits := upd_circ (circuits s) c (fun l => l ++ o'); next_id := n |}
      | None => s
      end
  | EPrependCircuit c c2 =>
      match nth_error (circuits s) c2 with
      | Some o => let '(o', n) := copy_list deep (next_id s) o in
                  {| handles := handles s; circuits := upd_circ (circuits s) c (fun l => o' ++ l); next_id := n |}
      | None => s
      end
  end.
Definition run (deep : nat -> bool) (es : list event) : state := fold_left (step deep) es init.

(** reference semantics of the builder calls: circuits hold VALUES, taken when a gate is added;
    mutations of the caller's objects never touch them *)
Definition vstep (s : state) (v : list (list gval)) (e : event) : list (list gval) :=
  let vupd c f := match nth_error v c with Some l => replace_nth c (f l) v | None => v end in
  match e with
  | ENewCircuit => v ++ [[]]
  | EAppendGate c h => match nth_error (handles s) h with Some g => vupd c (fun l => l ++ [erase g]) | None => v end
  | EPrependGate c h => match nth_error (handles s) h with Some g => vupd c (fun l => erase g :: l) | None => v end
  | EAppendCircuit c c2 => match nth_error v c2 with Some o => vupd c (fun l => l ++ o) | None => v end
  | EPrependCircuit c c2 => match nth_error v c2 with Some o => vupd c (fun l => o ++ l) | None => v end
  | _ => v
  end.
Fixpoint vrun (deep : nat -> bool) (s : state) (v : list (list gval)) (es : list event) : state * list (list gval) :=
  match es with
  | [] => (s, v)
  | e :: es' => vrun deep (step deep s e) (vstep s v e) es'
  end.
