(** Case type and checker for the C04 correspondence run (evaluated with vm_compute, exact
    Gaussian-integer data). *)
From Qib Require Export Embed.EmbedModel Base.Inst.
Local Open Scope Z_scope.

Definition zt := (Z * Z * (Z * Z))%type.
Definition zt_eqb (a b : zt) : bool :=
  (fst (fst a) =? fst (fst b)) && (snd (fst a) =? snd (fst b)) && zi_eqb (snd a) (snd b).
Definition zmat_eqb (a b : list (list (Z * Z))) : bool := list_eqb (list_eqb zi_eqb) a b.
Definition zi_nz (v : Z * Z) : bool := negb (zi_eqb v (0, 0)).

Definition mk_csr (nrows : Z) (indptr indices : list Z) (data : list (Z * Z)) : csr ZI :=
  Build_csr nrows indptr indices data.
Definition csr_eqb (a b : csr ZI) : bool :=
  (c_nrows a =? c_nrows b) && zlist_eqb (c_indptr a) (c_indptr b) && zlist_eqb (c_indices a) (c_indices b)
  && list_eqb zi_eqb (c_data a) (c_data b).

Definition opt_triples_eqb (a b : option (list zt)) : bool :=
  match a, b with
  | Some x, Some y => list_eqb zt_eqb x y
  | None, None => true
  | _, _ => false
  end.

Inductive ecase :=
(** _distribute_to_wires(nwires, iwire, csr): the raw (row, col, value) arrays, None = AssertionError *)
| CDist (nw : Z) (iw : list Z) (nrows : Z) (indptr indices : list Z) (data : list (Z * Z)) (exp : option (list zt))
(** csr_matrix(dense) *)
| CCsr (rows : list (list (Z * Z))) (nrows : Z) (indptr indices : list Z) (data : list (Z * Z))
(** map_particle_to_wire *)
| CMp2w (fields : list (Z * Z)) (p : Z * Z) (exp : Z)
(** permute_gate_wires *)
| CPerm (u : list (list (Z * Z))) (perm : list nat) (exp : list (list (Z * Z)))
(** Gate.as_circuit_matrix(fields): 0 = "not found" RuntimeError, 1 = AssertionError, 2 = triples *)
| CAcm (fields : list (Z * Z)) (prtcl : list (Z * Z)) (nrows : Z) (indptr indices : list Z) (data : list (Z * Z))
       (kind : Z) (exp : list zt)
(** the SPECIFICATION embed against the dense register matrix the implementation returns *)
| CEmbed (nw : nat) (ws : list nat) (g : list (list (Z * Z))) (exp : list (list (Z * Z)))
(** dense matrix denoted by the raw triples (duplicates summed) against toarray() *)
| CTriples (nw : nat) (t : list zt) (exp : list (list (Z * Z))).

Definition check (c : ecase) : bool :=
  match c with
  | CDist nw iw nrows indptr indices data exp =>
      opt_triples_eqb (distribute (V:=ZI) (0, 0) nw iw (mk_csr nrows indptr indices data)) exp
  | CCsr rows nrows indptr indices data =>
      csr_eqb (csr_of_dense zi_nz rows) (mk_csr nrows indptr indices data)
  | CMp2w fields p exp => mp2w fields p =? exp
  | CPerm u perm exp =>
      zmat_eqb (dense (length perm) (permute_gate_wires (K:=ZI) (mxl (K:=ZI) u) perm)) exp
  | CAcm fields prtcl nrows indptr indices data kind exp =>
      match as_circuit_matrix (V:=ZI) (0, 0) fields prtcl (mk_csr nrows indptr indices data) with
      | AcmNotFound => kind =? 0
      | AcmAssert => kind =? 1
      | AcmOk t => (kind =? 2) && list_eqb zt_eqb t exp
      end
  | CEmbed nw ws g exp => zmat_eqb (dense nw (embed (K:=ZI) nw ws (mxl (K:=ZI) g))) exp
  | CTriples nw t exp => zmat_eqb (dense nw (triples_entry (K:=ZI) t)) exp
  end.

Definition bad_cases (cs : list (nat * ecase)) : list nat :=
  map fst (filter (fun c => negb (check (snd c))) cs).
