(** Correspondence cases for Embed/CircNet.v: the model's circuit network / simulator network
    against the symbolic networks the implementation builds (terms produced by gen/circnet.py). *)
From Qib Require Import Embed.CircNet TN.TNCheck.
Local Open Scope Z_scope.

Inductive cn_case :=
| CNCirc (nw : nat) (gs : list (ndesc * list nat * list Z * list Z)) (expected : ndesc)
    (* per gate: gate.as_tensornet().net, iwire, recorded iteration orders of the shared tensor / bond ids *)
| CNSim (nw : nat) (cnet : ndesc) (ref : Z) (ordT ordB : list Z) (expected : ndesc).

Definition check (c : cn_case) : bool :=
  match c with
  | CNCirc nw gs expected =>
      opt_eqb ndesc_eqb
        (option_map un_net (circuit_net nw (map (fun g => mkNG (mk_net (fst (fst (fst g)))) (snd (fst (fst g))) (snd (fst g)) (snd g)) gs)))
        (Some expected)
  | CNSim nw cnet ref ordT ordB expected =>
      opt_eqb ndesc_eqb (option_map un_net (simulator_net nw (mk_net cnet) ref ordT ordB)) (Some expected)
  end.

Definition bad_cases (cs : list (nat * cn_case)) : list nat :=
  map fst (filter (fun p => negb (check (snd p))) cs).
