(** C06 - the bridge: the GENERIC defining sum (TN.TNValue.defining_sum: sum over all
    assignments of all bonds of the product of all tensor entries, open legs read off the
    virtual tensor) of the network that ControlledGate.as_tensornet builds equals the chain
    semantics [ctrl_chain_val], for every number of controls >= 1, every control pattern,
    every number of targets and EVERY data dictionary. *)
From Qib Require Export GateNet.GateNetValue.
Local Open Scope Z_scope.

Section Bridge.
  Context {K : Scalar} {L : ScalarLaws K}.
  Local Open Scope K_scope.
  Add Ring KringGB : (s_ring K L).

  Variable data : Z -> list nat -> K.

  (** position (relative to the first chain bond) of the bond that carries the control value
      into a chain of k cross tensors: their first vertical bond, or the final bond *)
  Definition uppos (k : nat) : nat := if (k =? 0)%nat then 0%nat else 2%nat.

  Definition bit01 (a b : bool) : K := if Bool.eqb a b then 1 else 0.

  (** product of the cross-tensor entries along the chain, reading the chain bonds of [rest]
      from offset [off]; includes the open-leg constraints of the control wires *)
  Fixpoint pprod (cs : list (Z * bool * bool)) (off : nat) (rest : bits) : K :=
    match cs with
    | [] => 1
    | (r, xo, xi) :: cs' =>
        (bit01 xo (nth off rest false) * bit01 xi (nth (off + 1) rest false)
         * data r [nb (nth off rest false); nb (nth (off + 1) rest false); nb (nth (off + 2) rest false);
                   nb (nth (off + 3 + uppos (length cs')) rest false)])
        * pprod cs' (off + 3) rest
    end.

  Lemma pprod_shift cs : forall off a b c rest,
    pprod cs (3 + off) (a :: b :: c :: rest) = pprod cs off rest.
  Proof.
    induction cs as [|[[r xo] xi] cs IH]; intros off a b c rest; [reflexivity|].
    cbn [pprod].
    replace (3 + off + 1)%nat with (3 + (off + 1))%nat by lia.
    replace (3 + off + 2)%nat with (3 + (off + 2))%nat by lia.
    replace (3 + off + 3 + uppos (length cs))%nat with (3 + (off + 3 + uppos (length cs)))%nat by lia.
    replace (3 + off + 3)%nat with (3 + (off + 3))%nat by lia.
    rewrite IH. reflexivity.
  Qed.

  Definition nat3 (c : Z * bool * bool) : Z * nat * nat := (fst (fst c), nb (snd (fst c)), nb (snd c)).

  (** the sum over the chain bonds is the chain semantics *)
  Lemma chain_bits cs : forall (A Fin : nat -> K),
    bsum (3 * length cs + 1)
         (fun rest => A (nb (nth (uppos (length cs)) rest false)) * pprod cs 0 rest
                      * Fin (nb (nth (3 * length cs) rest false)))
    = chain_sum data (map nat3 cs) A Fin.
  Proof.
    induction cs as [|[[r xo] xi] cs IH]; intros A Fin.
    - cbn [length Nat.mul Nat.add map chain_sum uppos Nat.eqb pprod]. rewrite bsum_S, !bsum_0. cbn [nth nb]. ring.
    - cbn [length map chain_sum nat3 fst snd].
      replace (3 * S (length cs) + 1)%nat with (S (S (S (3 * length cs + 1)))) by lia.
      rewrite <- IH. rewrite !bsum_S.
      rewrite <- !bsum_add_fn. apply bsum_ext. intros rest Hr.
      cbn [uppos Nat.eqb pprod nth Nat.add].
      change (pprod cs 3 ?l) with (pprod cs (3 + 0) l).
      rewrite !pprod_shift.
      replace (3 * S (length cs))%nat with (S (S (S (3 * length cs)))) by lia. cbn [nth].
      unfold bit01. destruct xo, xi; cbn [Bool.eqb nb]; ring.
  Qed.

  (* ---------------------------------------------------------------- positions of the final network *)
  Variables (m nt : nat) (pt : list bool).
  Hypothesis Hpt : length pt = m.
  Let nc : nat := S m.
  Definition B0f (p0 : bool) : nat := (2 * nt + (if p0 then 0 else 2))%nat.
  Definition upos (p0 : bool) : nat := (B0f p0 + uppos m)%nat.

  Lemma ufin_pos p0 : ufin m nt p0 = Some (Z.of_nat (upos p0)).
  Proof.
    unfold ufin, fin, up1, upos, uppos, B0f. destruct (m =? 0)%nat eqn:E; [apply Nat.eqb_eq in E; subst|]; f_equal; f_equal; lia.
  Qed.

  Lemma ctg_pos p0 : map Z.to_nat (ctgf nt (fin m nt p0) (2 * nt)) = (B0f p0 + 3 * m)%nat :: seq 0 (2 * nt).
  Proof.
    unfold ctgf. cbn [Nat.add seq map Nat.eqb]. f_equal; [unfold fin, B0f; lia|].
    rewrite map_map. rewrite (map_seq_shift _ 1 (2 * nt)). rewrite <- (map_id (seq 0 (2 * nt))) at 2.
    apply map_ext_in. intros q Hq. apply in_seq in Hq. ncases.
  Qed.

  Definition outs_pos (p0 : bool) : list nat := map (fun j => (B0f p0 + 3 * j)%nat) (seq 0 m).
  Definition ins_pos (p0 : bool) : list nat := map (fun j => (B0f p0 + 3 * j + 1)%nat) (seq 0 m).
  Definition uo_pos (p0 : bool) : nat := if p0 then upos p0 else (2 * nt)%nat.
  Definition ui_pos (p0 : bool) : nat := if p0 then upos p0 else (2 * nt + 1)%nat.

  Lemma oax_pos p0 :
    map Z.to_nat (oaxl m nt p0 (o0 nt p0 (ufin m nt p0)) (i0 nt p0 (ufin m nt p0)) nt nt m m)
    = (uo_pos p0 :: outs_pos p0) ++ seq 0 nt ++ (ui_pos p0 :: ins_pos p0) ++ seq nt nt.
  Proof.
    rewrite ufin_pos. unfold oaxl. rewrite map_map.
    apply (nth_ext _ _ O O).
    - rewrite map_length, seq_length, !app_length. cbn [length]. unfold outs_pos, ins_pos. rewrite !map_length, !seq_length. lia.
    - intros q Hq. rewrite map_length, seq_length in Hq. rewrite nth_map_seq by exact Hq. cbn [Nat.add].
      unfold oaxf, o0, i0, uo_pos, ui_pos, outs_pos, ins_pos.
      destruct (Nat.eqb_spec q 0).
      { subst q. cbn [app nth]. destruct p0; lia. }
      destruct (Nat.ltb_spec q (S m)).
      { rewrite app_nth1 by (cbn [length]; rewrite map_length, seq_length; lia).
        destruct q as [|q']; [lia|]. cbn [nth]. rewrite nth_map_seq by lia.
        destruct (Nat.leb_spec (S q') m); [|lia]. unfold B0f. destruct p0; lia. }
      rewrite app_nth2 by (cbn [length]; rewrite map_length, seq_length; lia).
      cbn [length]. rewrite map_length, seq_length.
      destruct (Nat.ltb_spec q (S m + nt)).
      { rewrite app_nth1 by (rewrite seq_length; lia). rewrite seq_nth by lia.
        destruct (Nat.ltb_spec (q - S m) nt); lia. }
      rewrite app_nth2 by (rewrite seq_length; lia). rewrite seq_length.
      destruct (Nat.eqb_spec q (S m + nt)).
      { subst q. replace (S m + nt - S m - nt)%nat with 0%nat by lia. cbn [app nth]. destruct p0; lia. }
      destruct (Nat.ltb_spec q (S m + nt + S m)).
      { rewrite app_nth1 by (cbn [length]; rewrite map_length, seq_length; lia).
        replace (q - S m - nt)%nat with (S (q - S m - nt - 1)) by lia. cbn [nth]. rewrite nth_map_seq by lia.
        destruct (Nat.leb_spec (q - (S m + nt)) m); [|lia]. unfold B0f. destruct p0; lia. }
      rewrite app_nth2 by (cbn [length]; rewrite map_length, seq_length; lia).
      cbn [length]. rewrite map_length, seq_length, seq_nth by lia.
      destruct (Nat.ltb_spec (q - (S m + nt + S m)) nt); lia.
  Qed.

  Lemma cc_pos p0 j : (j < m)%nat ->
    map Z.to_nat (ccrow nt p0 m (fin m nt p0) j)
    = [(B0f p0 + 3 * j)%nat; (B0f p0 + (3 * j + 1))%nat; (B0f p0 + (3 * j + 2))%nat;
       (B0f p0 + (3 * j + 3 + uppos (m - j - 1)))%nat].
  Proof.
    intros Hj. unfold ccrow, fin, uppos, B0f. cbn [map].
    destruct (Nat.ltb_spec (S j) m), (Nat.eqb_spec (m - j - 1) 0); try lia; repeat (f_equal; try lia).
  Qed.

  (* ---------------------------------------------------------------- the cross tensors of the sum *)
  Definition cs3 (ps : list bool) (xos xis : bits) : list (Z * bool * bool) :=
    combine (combine (map refof ps) xos) xis.

  Lemma cs3_length ps xos xis : length xos = length ps -> length xis = length ps -> length (cs3 ps xos xis) = length ps.
  Proof. intros H1 H2. unfold cs3. rewrite !combine_length, map_length. lia. Qed.

  Lemma cc_part (rest : bits) : forall k j0 ps xos xis,
    length ps = k -> length xos = k -> length xis = k ->
    lprod (map (fun j => data (refof (nth (j - j0) ps false))
                             [nb (nth (3 * j) rest false); nb (nth (3 * j + 1) rest false);
                              nb (nth (3 * j + 2) rest false);
                              nb (nth (3 * j + 3 + uppos (j0 + k - j - 1)) rest false)]) (seq j0 k))
    * ((if beq xos (map (fun j => nth (3 * j) rest false) (seq j0 k)) then 1 else 0)
       * (if beq xis (map (fun j => nth (3 * j + 1) rest false) (seq j0 k)) then 1 else 0))
    = pprod (cs3 ps xos xis) (3 * j0) rest.
  Proof.
    induction k as [|k IH]; intros j0 ps xos xis Hp Ho Hi.
    - destruct ps; [|discriminate]. destruct xos; [|discriminate]. destruct xis; [|discriminate]. cbn. ring.
    - destruct ps as [|p ps]; [discriminate|]. destruct xos as [|xo xos]; [discriminate|]. destruct xis as [|xi xis]; [discriminate|].
      cbn [length] in Hp, Ho, Hi. cbn [seq map lprod fold_right cs3 combine pprod beq]. fold (cs3 ps xos xis).
      rewrite cs3_length by lia.
      assert (E : map (fun j => data (refof (nth (j - j0) (p :: ps) false))
                        [nb (nth (3 * j) rest false); nb (nth (3 * j + 1) rest false); nb (nth (3 * j + 2) rest false);
                         nb (nth (3 * j + 3 + uppos (j0 + S k - j - 1)) rest false)]) (seq (S j0) k)
                  = map (fun j => data (refof (nth (j - S j0) ps false))
                        [nb (nth (3 * j) rest false); nb (nth (3 * j + 1) rest false); nb (nth (3 * j + 2) rest false);
                         nb (nth (3 * j + 3 + uppos (S j0 + k - j - 1)) rest false)]) (seq (S j0) k)).
      { apply map_ext_in. intros j Hj. apply in_seq in Hj.
        replace (j - j0)%nat with (S (j - S j0)) by lia. cbn [nth].
        replace (j0 + S k - j - 1)%nat with (S j0 + k - j - 1)%nat by lia. reflexivity. }
      rewrite E.
      replace (3 * j0 + 3)%nat with (3 * S j0)%nat by lia.
      rewrite <- (IH (S j0) ps xos xis) by lia.
      rewrite Nat.sub_diag. cbn [nth].
      replace (j0 + S k - j0 - 1)%nat with (length ps) by lia.
      unfold lprod, bit01.
      destruct (Bool.eqb xo (nth (3 * j0) rest false)), (Bool.eqb xi (nth (3 * j0 + 1) rest false)),
               (beq xos (map (fun j => nth (3 * j) rest false) (seq (S j0) k))),
               (beq xis (map (fun j => nth (3 * j + 1) rest false) (seq (S j0) k))); cbn [andb]; ring.
  Qed.

  Lemma nat3_cs3 ps xos xis :
    map nat3 (cs3 ps xos xis) = combine (combine (map refof ps) (map nb xos)) (map nb xis).
  Proof.
    unfold cs3. revert xos xis. induction ps as [|p ps IH]; intros xos xis; [reflexivity|].
    destruct xos as [|xo xos]; [reflexivity|]. destruct xis as [|xi xis]; [reflexivity|].
    cbn [map combine nat3 fst snd]. f_equal. apply IH.
  Qed.

  Lemma lprod_app (a b : list K) : lprod (a ++ b) = lprod a * lprod b.
  Proof. unfold lprod. induction a as [|x a IH]; cbn [app fold_right]; [ring|]. rewrite IH. ring. Qed.

  Lemma lprod_cons (x : K) l : lprod (x :: l) = x * lprod l.
  Proof. reflexivity. Qed.

  (* ---------------------------------------------------------------- the real tensors of the final network *)
  Lemma Tfinal_real p0 B :
    real_tensors (mkN (Tfinal m nt p0 pt) B)
    = mkT 0 (2 :: repeat 2 (2 * nt))%nat (ctgf nt (fin m nt p0) (2 * nt)) REF_main
      :: map (fun j => mkx (nc + j) (nth j (xs0 nt p0 (ufin m nt p0)) []))
             (seq 0 (length (xs0 nt p0 (ufin m nt p0))))
      ++ map (fun j => mkc pt (1 + j) (ccrow nt p0 m (fin m nt p0) j)) (seq 0 m).
  Proof.
    unfold real_tensors, Tfinal, Tform, Traw. cbn [tensors filter]. unfold is_real at 1 2. cbn [fst].
    unfold VT. cbn [Z.eqb Pos.eqb negb map snd]. f_equal. fold VT.
    rewrite filter_app, map_app.
    rewrite !real_tens by (intros j; unfold VT; lia). rewrite !snd_tens, ccl_length. f_equal.
    apply map_ext_in. intros j Hj. apply in_seq in Hj. unfold ccl. rewrite nth_map_seq by lia. reflexivity.
  Qed.

  Lemma Tfinal_vbids p0 B :
    vbids (mkN (Tfinal m nt p0 pt) B) = oaxl m nt p0 (o0 nt p0 (ufin m nt p0)) (i0 nt p0 (ufin m nt p0)) nt nt m m.
  Proof. unfold vbids, Tfinal, Tform, Traw, VT. cbn [tensors dget Z.eqb Pos.eqb t_bids]. reflexivity. Qed.

  (* ---------------------------------------------------------------- the summand on a split assignment *)
  Variables (xo0 xi0 : bool) (xos xis ot it : bits).
  Hypothesis Hxos : length xos = m.
  Hypothesis Hxis : length xis = m.
  Hypothesis Hot : length ot = nt.
  Hypothesis Hit : length it = nt.
  Let xb : bits := (xo0 :: xos) ++ ot ++ (xi0 :: xis) ++ it.
  Let cs : list (Z * bool * bool) := cs3 pt xos xis.

  Lemma cs_len : length cs = m.
  Proof. unfold cs. rewrite cs3_length; lia. Qed.

  (** the cross tensors and the control open legs *)
  Lemma cc_factor p0 (pre rest : bits) : length pre = B0f p0 ->
    lprod (map (fun t => data (fst t) (map nb (rd (pre ++ rest) (snd t))))
               (map (fun t => (t_ref t, map Z.to_nat (t_bids t)))
                    (map (fun j => mkc pt (1 + j) (ccrow nt p0 m (fin m nt p0) j)) (seq 0 m))))
    * ((if beq xos (rd (pre ++ rest) (outs_pos p0)) then 1 else 0)
       * (if beq xis (rd (pre ++ rest) (ins_pos p0)) then 1 else 0))
    = pprod cs 0 rest.
  Proof.
    intros Hpre. unfold cs. transitivity (pprod (cs3 pt xos xis) (3 * 0) rest); [|reflexivity].
    rewrite <- (cc_part rest m 0 pt xos xis Hpt Hxos Hxis).
    assert (R : forall q, nth (B0f p0 + q) (pre ++ rest) false = nth q rest false).
    { intros q. rewrite <- Hpre. apply app_nth2_plus. }
    f_equal.
    - f_equal. rewrite !map_map. apply map_ext_in. intros j Hj. apply in_seq in Hj.
      cbn [fst snd mkc t_ref t_bids]. rewrite cc_pos by lia. cbn [rd map]. rewrite !R.
      replace (1 + j - 1)%nat with j by lia. rewrite Nat.sub_0_r. cbn [Nat.add].
      fold (refof (nth j pt false)). reflexivity.
    - assert (E1 : rd (pre ++ rest) (outs_pos p0) = map (fun j => nth (3 * j) rest false) (seq 0 m)).
      { unfold rd, outs_pos. rewrite map_map. apply map_ext. intros j. apply R. }
      assert (E2 : rd (pre ++ rest) (ins_pos p0) = map (fun j => nth (3 * j + 1) rest false) (seq 0 m)).
      { unfold rd, ins_pos. rewrite map_map. apply map_ext. intros j.
        replace (B0f p0 + 3 * j + 1)%nat with (B0f p0 + (3 * j + 1))%nat by lia. apply R. }
      rewrite E1, E2. reflexivity.
  Qed.

  Lemma outs_len p0 : length (outs_pos p0) = m.
  Proof. unfold outs_pos. rewrite map_length, seq_length. reflexivity. Qed.
  Lemma ins_len p0 : length (ins_pos p0) = m.
  Proof. unfold ins_pos. rewrite map_length, seq_length. reflexivity. Qed.

  (** the open-leg constraints, by group of wires *)
  Lemma vt_factor p0 (bs : bits) :
    (if beq xb (rd bs ((uo_pos p0 :: outs_pos p0) ++ seq 0 nt ++ (ui_pos p0 :: ins_pos p0) ++ seq nt nt)) then 1 else 0)
    = (bit01 xo0 (nth (uo_pos p0) bs false) * bit01 xi0 (nth (ui_pos p0) bs false))
      * (((if beq xos (rd bs (outs_pos p0)) then 1 else 0) * (if beq xis (rd bs (ins_pos p0)) then 1 else 0))
         * ((if beq ot (rd bs (seq 0 nt)) then 1 else 0) * (if beq it (rd bs (seq nt nt)) then 1 else 0))).
  Proof.
    unfold xb. rewrite !rd_app, !rd_cons.
    rewrite if_beq_app by (cbn [length]; rewrite rd_length, outs_len; lia).
    rewrite if_beq_app by (rewrite rd_length, seq_length; lia).
    rewrite if_beq_app by (cbn [length]; rewrite rd_length, ins_len; lia).
    cbn [beq]. unfold bit01.
    destruct (Bool.eqb xo0 (nth (uo_pos p0) bs false)), (Bool.eqb xi0 (nth (ui_pos p0) bs false)),
             (beq xos (rd bs (outs_pos p0))), (beq xis (rd bs (ins_pos p0))),
             (beq ot (rd bs (seq 0 nt))), (beq it (rd bs (seq nt nt))); cbn [andb]; ring.
  Qed.

  Definition Fterm (bs : bits) (t : Z * list nat) : K := data (fst t) (map nb (rd bs (snd t))).
  Definition ts_of (l : list tensor) : list (Z * list nat) := map (fun t => (t_ref t, map Z.to_nat (t_bids t))) l.

  (** the summand of the defining sum on an assignment split into the bonds before the chain
      and the chain bonds *)
  Lemma summand_split p0 B (pre rest : bits) :
    length pre = B0f p0 -> length rest = (3 * m + 1)%nat ->
    lprod (map (Fterm (pre ++ rest)) (ts_of (real_tensors (mkN (Tfinal m nt p0 pt) B))))
    * (if beq xb (rd (pre ++ rest) (map Z.to_nat (vbids (mkN (Tfinal m nt p0 pt) B)))) then 1 else 0)
    = (data REF_main (nb (nth (3 * m) rest false) :: map nb (firstn (2 * nt) pre))
       * lprod (map (Fterm (pre ++ rest))
                    (ts_of (map (fun j => mkx (nc + j) (nth j (xs0 nt p0 (ufin m nt p0)) []))
                                (seq 0 (length (xs0 nt p0 (ufin m nt p0))))))))
      * ((bit01 xo0 (nth (uo_pos p0) (pre ++ rest) false) * bit01 xi0 (nth (ui_pos p0) (pre ++ rest) false))
         * (pprod cs 0 rest
            * ((if beq ot (firstn nt pre) then 1 else 0) * (if beq it (firstn nt (skipn nt pre)) then 1 else 0)))).
  Proof.
    intros Hpre Hrest.
    assert (HB0 : (2 * nt <= B0f p0)%nat) by (unfold B0f; lia).
    rewrite Tfinal_real, Tfinal_vbids, oax_pos, vt_factor.
    unfold ts_of. rewrite !map_cons, !map_app. rewrite lprod_cons, lprod_app.
    pose proof (cc_factor p0 pre rest Hpre) as CF. unfold ts_of in *.
    assert (R : forall q, nth (B0f p0 + q) (pre ++ rest) false = nth q rest false).
    { intros q. rewrite <- Hpre. apply app_nth2_plus. }
    assert (E0 : Fterm (pre ++ rest) (t_ref (mkT 0 (2 :: repeat 2 (2 * nt))%nat (ctgf nt (fin m nt p0) (2 * nt)) REF_main),
                                        map Z.to_nat (t_bids (mkT 0 (2 :: repeat 2 (2 * nt))%nat (ctgf nt (fin m nt p0) (2 * nt)) REF_main)))
                 = data REF_main (nb (nth (3 * m) rest false) :: map nb (firstn (2 * nt) pre))).
    { unfold Fterm. cbn [fst snd t_ref t_bids]. rewrite ctg_pos, rd_cons, R. cbn [map]. do 3 f_equal.
      rewrite rd_seq by (rewrite app_length; lia). cbn [skipn]. rewrite firstn_app.
      replace (2 * nt - length pre)%nat with 0%nat by lia. cbn [firstn]. apply app_nil_r. }
    rewrite E0.
    assert (E1 : rd (pre ++ rest) (seq 0 nt) = firstn nt pre).
    { rewrite rd_seq by (rewrite app_length; lia). cbn [skipn]. rewrite firstn_app.
      replace (nt - length pre)%nat with 0%nat by lia. cbn [firstn]. apply app_nil_r. }
    assert (E2 : rd (pre ++ rest) (seq nt nt) = firstn nt (skipn nt pre)).
    { rewrite rd_seq by (rewrite app_length; lia). rewrite skipn_app.
      replace (nt - length pre)%nat with 0%nat by lia. cbn [skipn]. rewrite firstn_app, skipn_length.
      replace (nt - (length pre - nt))%nat with 0%nat by lia. cbn [firstn]. apply app_nil_r. }
    rewrite E1, E2. rewrite <- CF. unfold Fterm. ring.
  Qed.

  Lemma collapse_targets (G : bits -> bits -> K) :
    bsum nt (fun t1 => bsum nt (fun t2 => G t1 t2 * ((if beq ot t1 then 1 else 0) * (if beq it t2 then 1 else 0))))
    = G ot it.
  Proof.
    transitivity (bsum nt (fun t1 => (if beq ot t1 then 1 else 0) * G t1 it)).
    - apply bsum_ext. intros t1 H1.
      transitivity (bsum nt (fun t2 => (if beq it t2 then 1 else 0) * ((if beq ot t1 then 1 else 0) * G t1 t2))).
      + apply bsum_ext. intros t2 H2. ring.
      + apply (bsum_delta_l nt it (fun t2 => (if beq ot t1 then 1 else 0) * G t1 t2) Hit).
    - apply (bsum_delta_l nt ot (fun t1 => G t1 it) Hot).
  Qed.

  (** everything but the target constraints *)
  Definition Hsum p0 (pre rest : bits) : K :=
    (data REF_main (nb (nth (3 * m) rest false) :: map nb (firstn (2 * nt) pre))
     * lprod (map (Fterm (pre ++ rest))
                  (ts_of (map (fun j => mkx (nc + j) (nth j (xs0 nt p0 (ufin m nt p0)) []))
                              (seq 0 (length (xs0 nt p0 (ufin m nt p0))))))))
    * ((bit01 xo0 (nth (uo_pos p0) (pre ++ rest) false) * bit01 xi0 (nth (ui_pos p0) (pre ++ rest) false))
       * pprod cs 0 rest).

  Lemma Nfinal_split p0 : Nfinal m nt p0 = (B0f p0 + (3 * m + 1))%nat.
  Proof. unfold Nfinal, B0f. cbv zeta. lia. Qed.

  Lemma bits_sum_split p0 B :
    bits_sum (Nfinal m nt p0) (ts_of (real_tensors (mkN (Tfinal m nt p0 pt) B)))
             (map Z.to_nat (vbids (mkN (Tfinal m nt p0 pt) B))) data xb
    = bsum (B0f p0) (fun pre => bsum (3 * m + 1) (Hsum p0 pre)
                                * ((if beq ot (firstn nt pre) then 1 else 0) * (if beq it (firstn nt (skipn nt pre)) then 1 else 0))).
  Proof.
    unfold bits_sum. rewrite Nfinal_split, bsum_add. apply bsum_ext. intros pre Hpre.
    rewrite <- bsum_scal_r. apply bsum_ext. intros rest Hrest.
    pose proof (summand_split p0 B pre rest Hpre Hrest) as Q. unfold Fterm, ts_of in *. rewrite Q.
    unfold Hsum, Fterm, ts_of. ring.
  Qed.

  Definition target (p0 : bool) : K :=
    bsum (3 * m + 1)
         (fun rest => firstA data p0 xo0 xi0 (nb (nth (uppos m) rest false)) * pprod cs 0 rest
                      * data REF_main (nb (nth (3 * m) rest false) :: map nb ot ++ map nb it)).

  Lemma bridge_pos B :
    bits_sum (Nfinal m nt true) (ts_of (real_tensors (mkN (Tfinal m nt true pt) B)))
             (map Z.to_nat (vbids (mkN (Tfinal m nt true pt) B))) data xb
    = target true.
  Proof.
    rewrite bits_sum_split. unfold B0f. replace (2 * nt + 0)%nat with (nt + nt)%nat by lia.
    rewrite bsum_add.
    transitivity (bsum nt (fun t1 => bsum nt (fun t2 =>
        bsum (3 * m + 1) (Hsum true (t1 ++ t2)) * ((if beq ot t1 then 1 else 0) * (if beq it t2 then 1 else 0))))).
    { apply bsum_ext. intros t1 H1. apply bsum_ext. intros t2 H2.
      rewrite firstn_app_len by exact H1. rewrite skipn_app_len by exact H1. rewrite firstn_all2 by lia. reflexivity. }
    rewrite (collapse_targets (fun t1 t2 => bsum (3 * m + 1) (Hsum true (t1 ++ t2)))).
    unfold target. apply bsum_ext. intros rest Hrest. unfold Hsum.
    assert (Hpre : length (ot ++ it) = B0f true) by (rewrite app_length; unfold B0f; lia).
    assert (EX : xs0 nt true (ufin m nt true) = []) by reflexivity.
    rewrite EX. cbn [length seq map ts_of lprod fold_right].
    unfold uo_pos, ui_pos, upos. rewrite <- Hpre, app_nth2_plus.
    rewrite firstn_all2 by (rewrite app_length; lia).
    unfold firstA. rewrite !delta_nb, map_app. unfold bit01. ring.
  Qed.

  Lemma bridge_neg B :
    bits_sum (Nfinal m nt false) (ts_of (real_tensors (mkN (Tfinal m nt false pt) B)))
             (map Z.to_nat (vbids (mkN (Tfinal m nt false pt) B))) data xb
    = target false.
  Proof.
    rewrite bits_sum_split. unfold B0f. replace (2 * nt + 2)%nat with (nt + (nt + 2))%nat by lia.
    rewrite bsum_add.
    transitivity (bsum nt (fun t1 => bsum nt (fun t2 =>
        bsum 2 (fun xx => bsum (3 * m + 1) (Hsum false (t1 ++ t2 ++ xx)))
        * ((if beq ot t1 then 1 else 0) * (if beq it t2 then 1 else 0))))).
    { apply bsum_ext. intros t1 H1. rewrite bsum_add. apply bsum_ext. intros t2 H2.
      rewrite <- bsum_scal_r. apply bsum_ext. intros xx Hxx.
      rewrite firstn_app_len by exact H1. rewrite skipn_app_len by exact H1.
      rewrite firstn_app_len by exact H2. reflexivity. }
    rewrite (collapse_targets (fun t1 t2 => bsum 2 (fun xx => bsum (3 * m + 1) (Hsum false (t1 ++ t2 ++ xx))))).
    rewrite !bsum_S, !bsum_0. unfold target. rewrite <- !bsum_add_fn. apply bsum_ext. intros rest Hrest.
    assert (EX : xs0 nt false (ufin m nt false)
                 = [[Z.of_nat (2 * nt); Z.of_nat (upos false)]; [Z.of_nat (upos false); Z.of_nat (2 * nt + 1)]]).
    { unfold xs0. rewrite ufin_pos. reflexivity. }
    assert (Q : forall a b,
      Hsum false (ot ++ it ++ [a; b]) rest
      = data REF_main (nb (nth (3 * m) rest false) :: map nb ot ++ map nb it)
        * (data REF_PauliX [nb a; nb (nth (uppos m) rest false)] * data REF_PauliX [nb (nth (uppos m) rest false); nb b])
        * ((bit01 xo0 a * bit01 xi0 b) * pprod cs 0 rest)).
    { intros a b. unfold Hsum. rewrite EX. cbn [length seq map ts_of mkx t_ref t_bids nth lprod fold_right Fterm fst snd rd].
      rewrite !Nat2Z.id.
      assert (Hpre : length (ot ++ it ++ [a; b]) = (upos false - uppos m)%nat).
      { rewrite !app_length. cbn [length]. unfold upos, B0f. lia. }
      assert (U : nth (upos false) ((ot ++ it ++ [a; b]) ++ rest) false = nth (uppos m) rest false).
      { replace (upos false) with (length (ot ++ it ++ [a; b]) + uppos m)%nat by (rewrite Hpre; unfold upos; lia).
        apply app_nth2_plus. }
      assert (A0 : nth (2 * nt) ((ot ++ it ++ [a; b]) ++ rest) false = a).
      { rewrite app_nth1 by (rewrite !app_length; cbn [length]; lia).
        rewrite app_assoc. rewrite app_nth2 by (rewrite app_length; lia). rewrite app_length.
        replace (2 * nt - (length ot + length it))%nat with 0%nat by lia. reflexivity. }
      assert (A1 : nth (2 * nt + 1) ((ot ++ it ++ [a; b]) ++ rest) false = b).
      { rewrite app_nth1 by (rewrite !app_length; cbn [length]; lia).
        rewrite app_assoc. rewrite app_nth2 by (rewrite app_length; lia). rewrite app_length.
        replace (2 * nt + 1 - (length ot + length it))%nat with 1%nat by lia. reflexivity. }
      unfold Fterm, uo_pos, ui_pos. cbn [fst snd rd map]. rewrite U, A0, A1.
      replace (firstn (2 * nt) (ot ++ it ++ [a; b])) with (ot ++ it).
      2:{ rewrite app_assoc. symmetry. apply firstn_app_len. rewrite app_length. lia. }
      rewrite map_app. ring. }
    rewrite !Q. unfold firstA, bit01.
    destruct xo0, xi0; cbn [Bool.eqb nb]; ring.
  Qed.

  (** the bridge *)
  Theorem ctrl_bridge p0 :
    defining_sum (net_of (ctrl_build (Z.of_nat (S m)) (Z.of_nat nt) (map b2z (p0 :: pt)))) data (map nb xb)
    = ctrl_chain_val (S m) nt (map b2z (p0 :: pt)) data (map nb xb).
  Proof.
    destruct (ctrl_build_WF m nt p0 pt Hpt) as [B [E [HB W]]]. rewrite E. unfold net_of. cbn [s_T s_B].
    rewrite (dsum_bits _ (Nfinal m nt p0)); try assumption.
    2:{ intros k t H. apply (Tfinal_tensors m nt p0 pt Hpt k t H). }
    2:{ intros k t H. apply (Tfinal_tensors m nt p0 pt Hpt k t H). }
    2:{ rewrite Tfinal_vbids, oaxl_length. unfold xb. rewrite !app_length. cbn [length]. lia. }
    fold (ts_of (real_tensors (mkN (Tfinal m nt p0 pt) B))).
    transitivity (target p0); [destruct p0; [apply bridge_pos | apply bridge_neg]|].
    unfold xb. rewrite <- Hpt at 1.
    rewrite ctrl_chain_val_split by lia.
    rewrite <- nat3_cs3. fold cs. rewrite <- chain_bits, cs_len. reflexivity.
  Qed.
End Bridge.



