(** C06 - executable model of the tensor-network forms of the gates
    (/repo/src/qib/operator/gates.py: every [as_tensornet], and TensorNetwork.wrap of
    /repo/src/qib/tensor_network/tensor_network.py).

    The symbolic networks are values of the generic model [Qib.TN.TNModel.net] (association
    lists in Python dict order); they are produced by BUILD PROGRAMS that follow the Python
    statements one by one (SymbolicTensor(..) + add_tensor, add_bond(SymbolicBond(..)),
    [x.bids[e] = bid_next], [bid_next += 1], for-loops, if/else).  The text of the build
    programs below is exactly what the translator gen/gatenet.py emits from the current
    source (module Run.GenGateNet); coq/props/C06.v proves [gen_* = *] by reflexivity on
    every run, so the theorems are about the statements the code contains now.

    Exceptions of the Python code (ValueError of SymbolicTensor / SymbolicBond / add_tensor /
    add_bond, IndexError of a list subscript, KeyError of get_tensor) clear the flag [s_ok].
    No proofs in this file. *)
From Qib Require Export TN.TNModel TN.TNValue Base.BMx.
Local Open Scope Z_scope.

(* ------------------------------------------------------------------ build state *)
Record bst := mkS { s_T : dict tensor; s_B : dict bond; s_next : Z; s_ok : bool }.

(** SymbolicTensorNetwork() *)
Definition st0 : bst := mkS [] [] 0 true.
Definition fail (st : bst) : bst := mkS (s_T st) (s_B st) (s_next st) false.
Definition chk (b : bool) (st : bst) : bst := if b then st else fail st.

(** t = SymbolicTensor(tid, shape, bids, dataref); stn.add_tensor(t) *)
Definition new_tensor (st : bst) (tid : Z) (shp : list nat) (bids : list Z) (ref : Z) : bst :=
  chk (Nat.eqb (length shp) (length bids) && negb (dhas tid (s_T st)))
      (mkS (s_T st ++ [(tid, mkT tid shp bids ref)]) (s_B st) (s_next st) (s_ok st)).

(** stn.add_bond(SymbolicBond(bid, tids)) *)
Definition add_bond (st : bst) (bid : Z) (tids : list Z) : bst :=
  chk (Nat.leb 2 (length tids) && negb (dhas bid (s_B st)))
      (mkS (s_T st) (s_B st ++ [(bid, mkB bid (zsort tids))]) (s_next st) (s_ok st)).

(** x.bids[ax] = v   for the tensor object x that was added under the key tid
    (stn.get_tensor(tid).bids[ax] = v is the same statement) *)
Definition set_bid (st : bst) (tid ax v : Z) : bst :=
  match dget tid (s_T st) with
  | None => fail st
  | Some t =>
      chk ((0 <=? ax) && (ax <? Z.of_nat (length (t_bids t))))
          (mkS (dset tid (set_bids t (set_nth (Z.to_nat ax) v (t_bids t))) (s_T st))
               (s_B st) (s_next st) (s_ok st))
  end.

(** bid_next = v ; bid_next += 1 *)
Definition set_next (st : bst) (v : Z) : bst := mkS (s_T st) (s_B st) v (s_ok st).
Definition incr (st : bst) : bst := set_next st (s_next st + 1).

(** for i in range(a, b): body *)
Definition zrange (a b : Z) : list Z := map (fun k => a + Z.of_nat k) (seq 0 (Z.to_nat (b - a))).
Definition zfor (a b : Z) (body : Z -> bst -> bst) (st : bst) : bst :=
  fold_left (fun s i => body i s) (zrange a b) st.

(** k * (v,)  /  k * [v] *)
Definition zrep {A} (v : A) (k : Z) : list A := repeat v (Z.to_nat k).
(** list(range(a, b, 2)) *)
Definition zrange2 (a b : Z) : list Z :=
  map (fun k => a + 2 * Z.of_nat k) (seq 0 (Z.to_nat ((b - a + 1) / 2))).

(** self.ctrl_state[e]: the subscript check, and the value *)
Definition chk_idx (l : list Z) (e : Z) (st : bst) : bst :=
  chk ((0 <=? e) && (e <? Z.of_nat (length l))) st.
Definition csget (l : list Z) (e : Z) : Z := nth (Z.to_nat e) l 0.

Definition net_of (st : bst) : net := mkN (s_T st) (s_B st).

(* ------------------------------------------------------------------ dataref codes *)
(** strings of the Python code, numbered by the translator (gen/gatenet.py REFS) *)
Definition REF_none : Z := -1.       (* None (virtual tensor) *)
Definition REF_main : Z := 0.        (* the gate's own tensor: "ctrl_<hash>", "<hash>", wrap dataref, "Phase(..)" *)
Definition REF_neg : Z := 1.         (* "ctrl_cross_neg" *)
Definition REF_pos : Z := 2.         (* "ctrl_cross_pos" *)
Definition REF_PauliX : Z := 3.      (* "PauliX" *)
Definition REF_ket0 : Z := 4.        (* "|0>_2" *)
Definition REF_bad : Z := -9.

(* ------------------------------------------------------------------ TensorNetwork.wrap *)
(** wrap(a, dataref) for a.shape = shp *)
Definition wrap_build (shp : list nat) : bst :=
  let ndim := Z.of_nat (length shp) in
  let st := st0 in
  let st := new_tensor st 0 shp (zrange 0 ndim) REF_main in
  let st := new_tensor st (-1) shp (zrange 0 ndim) REF_none in
  let st := zfor 0 ndim (fun i st =>
    let st := add_bond st i [-1; 0] in
    st) st in
  st.

(* ------------------------------------------------------------------ ControlledGate *)
Definition ctrl_build (ncontrols ntargets : Z) (ctrl_state : list Z) : bst :=
  let st := st0 in
  let st := new_tensor st 0 ([2%nat] ++ zrep 2%nat (2 * ntargets)) (zrep (-1) (Z.of_nat (length ([2%nat] ++ zrep 2%nat (2 * ntargets))))) REF_main in
  let st := new_tensor st (-1) (zrep 2%nat (2 * (ncontrols + ntargets))) (zrep (-1) (2 * (ncontrols + ntargets))) REF_none in
  let st := set_next st 0 in
  let st := zfor 0 ntargets (fun i st =>
    let st := add_bond st (s_next st) [-1; 0] in
    let st := set_bid st 0 (1 + i) (s_next st) in
    let st := set_bid st (-1) (ncontrols + i) (s_next st) in
    let st := incr st in
    st) st in
  let st := zfor 0 ntargets (fun i st =>
    let st := add_bond st (s_next st) [-1; 0] in
    let st := set_bid st 0 (1 + ntargets + i) (s_next st) in
    let st := set_bid st (-1) (2 * ncontrols + ntargets + i) (s_next st) in
    let st := incr st in
    st) st in
  let st := chk_idx ctrl_state 0 st in
  let st := if (csget ctrl_state 0 =? 0) then (
    let st := new_tensor st ncontrols [2%nat; 2%nat] [s_next st; -1] REF_PauliX in
    let st := add_bond st (s_next st) [-1; ncontrols] in
    let st := set_bid st (-1) 0 (s_next st) in
    let st := incr st in
    let st := new_tensor st (ncontrols + 1) [2%nat; 2%nat] [-1; s_next st] REF_PauliX in
    let st := add_bond st (s_next st) [-1; ncontrols + 1] in
    let st := set_bid st (-1) (ncontrols + ntargets) (s_next st) in
    let st := incr st in
    st) else st in
  let st := zfor 1 ncontrols (fun i st =>
    let st := chk_idx ctrl_state i st in
    let j := csget ctrl_state i in
    let st := new_tensor st i (nth (Z.to_nat j) [[2%nat; 2%nat; 2%nat; 2%nat]; [2%nat; 2%nat; 2%nat; 2%nat]] []) [s_next st; s_next st + 1; -1; -1] (nth (Z.to_nat j) [REF_neg; REF_pos] REF_bad) in
    let st := add_bond st (s_next st) [-1; i] in
    let st := set_bid st (-1) i (s_next st) in
    let st := incr st in
    let st := add_bond st (s_next st) [-1; i] in
    let st := set_bid st (-1) (ncontrols + ntargets + i) (s_next st) in
    let st := incr st in
    let st := if (i =? 1) then (
      let st := chk_idx ctrl_state 0 st in
      let st := if (csget ctrl_state 0 =? 1) then (
        let st := add_bond st (s_next st) [-1; -1; i] in
        let st := set_bid st (-1) 0 (s_next st) in
        let st := set_bid st (-1) (ncontrols + ntargets) (s_next st) in
        let st := set_bid st i 2 (s_next st) in
        let st := incr st in
        st) else (
        let st := add_bond st (s_next st) [ncontrols; ncontrols + 1; i] in
        let st := set_bid st ncontrols 1 (s_next st) in
        let st := set_bid st (ncontrols + 1) 0 (s_next st) in
        let st := set_bid st i 2 (s_next st) in
        let st := incr st in
        st) in
      st) else (
      let st := add_bond st (s_next st) [i - 1; i] in
      let st := set_bid st (i - 1) 3 (s_next st) in
      let st := set_bid st i 2 (s_next st) in
      let st := incr st in
      st) in
    st) st in
  let st := if (ncontrols =? 1) then (
    let st := chk_idx ctrl_state 0 st in
    let st := if (csget ctrl_state 0 =? 1) then (
      let st := add_bond st (s_next st) [0; -1; -1] in
      let st := set_bid st 0 0 (s_next st) in
      let st := set_bid st (-1) 0 (s_next st) in
      let st := set_bid st (-1) (ncontrols + ntargets) (s_next st) in
      let st := incr st in
      st) else (
      let st := add_bond st (s_next st) [0; 1; 2] in
      let st := set_bid st 0 0 (s_next st) in
      let st := set_bid st ncontrols 1 (s_next st) in
      let st := set_bid st (ncontrols + 1) 0 (s_next st) in
      let st := incr st in
      st) in
    st) else (
    let st := add_bond st (s_next st) [0; ncontrols - 1] in
    let st := set_bid st 0 0 (s_next st) in
    let st := set_bid st (ncontrols - 1) 3 (s_next st) in
    let st := incr st in
    st) in
  st.

(** the "wire crossing" tensors: index tuples set to 1 on np.zeros((2,2,2,2)) *)
Definition cross_pos_entries : list (list nat) :=
  [[0; 0; 0; 0]; [1; 1; 1; 1]; [0; 0; 1; 0]; [1; 1; 0; 0]]%nat.
Definition cross_neg_entries : list (list nat) :=
  [[1; 1; 0; 0]; [0; 0; 1; 1]; [1; 1; 1; 0]; [0; 0; 0; 0]]%nat.
(** data["PauliX"] = np.array([[0, 1], [1, 0]]) *)
Definition paulix_rows : list (list Z) := [[0; 1]; [1; 0]].

(* ------------------------------------------------------------------ MultiplexedGate *)
Definition mux_build (ncontrols ntargets : Z) : bst :=
  let st := st0 in
  let st := new_tensor st 0 (zrep 2%nat ncontrols ++ zrep 2%nat (2 * ntargets)) (zrep (-1) (Z.of_nat (length (zrep 2%nat ncontrols ++ zrep 2%nat (2 * ntargets))))) REF_main in
  let st := new_tensor st (-1) (zrep 2%nat (2 * (ncontrols + ntargets))) (zrep (-1) (2 * (ncontrols + ntargets))) REF_none in
  let st := set_next st 0 in
  let st := zfor 0 ntargets (fun i st =>
    let st := add_bond st (s_next st) [-1; 0] in
    let st := set_bid st (-1) (ncontrols + i) (s_next st) in
    let st := set_bid st 0 (ncontrols + i) (s_next st) in
    let st := incr st in
    st) st in
  let st := zfor 0 ntargets (fun i st =>
    let st := add_bond st (s_next st) [-1; 0] in
    let st := set_bid st (-1) (2 * ncontrols + ntargets + i) (s_next st) in
    let st := set_bid st 0 (ncontrols + ntargets + i) (s_next st) in
    let st := incr st in
    st) st in
  let st := zfor 0 ncontrols (fun i st =>
    let st := add_bond st (s_next st) [-1; -1; 0] in
    let st := set_bid st (-1) i (s_next st) in
    let st := set_bid st (-1) (ncontrols + ntargets + i) (s_next st) in
    let st := set_bid st 0 i (s_next st) in
    let st := incr st in
    st) st in
  st.

(* ------------------------------------------------------------------ PhaseFactorGate *)
Definition phase_build (nwires : Z) : bst :=
  let st := st0 in
  let st := zfor 0 nwires (fun i st =>
    let st := new_tensor st i [2%nat; 2%nat] [2 * i; 2 * i + 1] REF_main in
    st) st in
  let st := new_tensor st (-1) (zrep 2%nat (2 * nwires)) (zrange2 0 (2 * nwires) ++ zrange2 1 (2 * nwires)) REF_none in
  let st := zfor 0 nwires (fun i st =>
    let st := add_bond st (2 * i) [-1; i] in
    let st := add_bond st (2 * i + 1) [-1; i] in
    st) st in
  st.

(* ------------------------------------------------------------------ PrepareGate *)
Definition prep_build (nqubits : Z) (transpose : bool) : bst :=
  let st := st0 in
  let st := new_tensor st 0 (zrep 2%nat nqubits) (zrange 0 nqubits) REF_main in
  let st := zfor 0 nqubits (fun i st =>
    let st := new_tensor st (1 + i) [2%nat] [nqubits + i] REF_ket0 in
    st) st in
  let st := new_tensor st (-1) (zrep 2%nat (2 * nqubits)) (if negb transpose then zrange 0 (2 * nqubits) else zrange nqubits (2 * nqubits) ++ zrange 0 nqubits) REF_none in
  let st := zfor 0 nqubits (fun i st =>
    let st := add_bond st i [-1; 0] in
    st) st in
  let st := zfor 0 nqubits (fun i st =>
    let st := add_bond st (nqubits + i) [-1; 1 + i] in
    st) st in
  st.
(** data["|0>_2"] = np.array([1, 0]) *)
Definition ket0_entries : list Z := [1; 0].

(* ------------------------------------------------------------------ nested controlled gates *)
(** a ControlledGate whose target is a ControlledGate is rebuilt as ONE controlled gate:
    ControlledGate(self.tgate.tgate, self.ncontrols + self.tgate.ncontrols,
                   self.ctrl_state + self.tgate.ctrl_state).as_tensornet() *)
Inductive cnest :=
| NLeaf (ntargets : Z)
| NCtrl (ncontrols : Z) (ctrl_state : list Z) (g : cnest).

Fixpoint flatten (ncontrols : Z) (ctrl_state : list Z) (g : cnest) : Z * list Z * Z :=
  match g with
  | NLeaf nt => (ncontrols, ctrl_state, nt)
  | NCtrl nc' cs' g' => flatten (ncontrols + nc') (ctrl_state ++ cs') g'
  end.
(** the constructor of the flattened gate raises when len(ctrl_state) != ncontrols *)
Definition cnest_build (g : cnest) : bst :=
  match g with
  | NLeaf nt => fail st0            (* not a controlled gate *)
  | NCtrl nc cs g' =>
      let '(n, c, nt) := flatten nc cs g' in
      chk (Z.eqb (Z.of_nat (length c)) n) (ctrl_build n nt c)
  end.

(* ------------------------------------------------------------------ tensor data *)
Section Data.
  Context {K : Scalar}.
  Local Open Scope K_scope.

  Fixpoint leqb_nat (a b : list nat) : bool :=
    match a, b with
    | [], [] => true
    | x :: a', y :: b' => Nat.eqb x y && leqb_nat a' b'
    | _, _ => false
    end.
  Definition nb (b : bool) : nat := if b then 1%nat else 0%nat.
  Definition bn (v : nat) : bool := negb (Nat.eqb v 0).
  Definition zk (z : Z) : K := match z with Z0 => 0 | Zpos _ => 1 | Zneg _ => - (1) end.

  (** np.reshape(M, 2n * (2,)) of a 2^n x 2^n matrix, row-major: entry [o_0..o_{n-1}, i_0..i_{n-1}] *)
  Definition reshape_mx (n : nat) (M : BMx K) : list nat -> K :=
    fun idx => M (map bn (firstn n idx)) (map bn (skipn n idx)).

  (** np.stack((reshape(identity), reshape(U)), axis=0) *)
  Definition ctg_data (nt : nat) (U : BMx K) : list nat -> K :=
    fun idx => match idx with
               | k :: r => if bn k then reshape_mx nt U r else reshape_mx nt mid r
               | [] => 0
               end.
  (** np.zeros(..) with the listed entries set to 1 *)
  Definition entries_data (es : list (list nat)) : list nat -> K :=
    fun idx => if existsb (leqb_nat idx) es then 1 else 0.
  Definition rows_data (rows : list (list Z)) : list nat -> K :=
    fun idx => match idx with
               | [a; b] => zk (nth b (nth a rows []) 0%Z)
               | _ => 0
               end.
  Definition vec_data (v : list Z) : list nat -> K :=
    fun idx => match idx with [a] => zk (nth a v 0%Z) | _ => 0 end.

  (** data dictionary of a controlled gate with target matrix U on nt wires *)
  Definition ctrl_data (nt : nat) (U : BMx K) : Z -> list nat -> K :=
    fun ref =>
      if Z.eqb ref REF_main then ctg_data nt U
      else if Z.eqb ref REF_neg then entries_data cross_neg_entries
      else if Z.eqb ref REF_pos then entries_data cross_pos_entries
      else if Z.eqb ref REF_PauliX then rows_data paulix_rows
      else fun _ => 0.

  (** np.reshape(np.stack([g.as_matrix() for g in tgates]), nc*(2,) + 2nt*(2,)) *)
  Definition mux_data (nc nt : nat) (Us : list (BMx K)) : Z -> list nat -> K :=
    fun ref idx =>
      if Z.eqb ref REF_main
      then reshape_mx nt (nth (b2n (map bn (firstn nc idx))) Us mzero) (skipn nc idx)
      else 0.

  (** exp(i phi / nwires) * identity(2) for the atom w = exp(i phi / nwires) *)
  Definition phase_data (w : K) : Z -> list nat -> K :=
    fun ref idx =>
      if Z.eqb ref REF_main then match idx with [a; b] => if Nat.eqb a b then w else 0 | _ => 0 end
      else 0.

  (** x reshaped to nqubits * (2,), and |0> *)
  Definition prep_data (x : bits -> K) : Z -> list nat -> K :=
    fun ref idx =>
      if Z.eqb ref REF_main then x (map bn idx)
      else if Z.eqb ref REF_ket0 then vec_data ket0_entries idx
      else 0.

  (** ---- value of the controlled-gate network specialised to its chain structure:
      the sum over the vertical control bonds, top-down.  [A u] is the weight with which the
      first control hands the value u to the chain (shared open bond or X sandwich), each
      cross tensor maps it to the weight of its downward leg, [Fin] is the controlled
      target tensor. *)
  Fixpoint chain_sum (data : Z -> list nat -> K) (cs : list (Z * nat * nat))
                     (A : nat -> K) (Fin : nat -> K) : K :=
    match cs with
    | [] => A 0%nat * Fin 0%nat + A 1%nat * Fin 1%nat
    | (r, o, i) :: cs' =>
        chain_sum data cs'
          (fun d => A 0%nat * data r [o; i; 0%nat; d] + A 1%nat * data r [o; i; 1%nat; d]) Fin
    end.

  Definition ctrl_chain_val (nc nt : nat) (ctrl_state : list Z) (data : Z -> list nat -> K)
                            (x : list nat) : K :=
    let oc := firstn nc x in
    let ot := firstn nt (skipn nc x) in
    let ic := firstn nc (skipn (nc + nt) x) in
    let it := firstn nt (skipn (nc + nt + nc) x) in
    let o0 := hd 0%nat oc in
    let i0 := hd 0%nat ic in
    let A := if Z.eqb (csget ctrl_state 0) 0
             then fun u => data REF_PauliX [o0; u] * data REF_PauliX [u; i0]
             else fun u => delta o0 u * delta i0 u in
    let refs := map (fun j => nth (Z.to_nat j) [REF_neg; REF_pos] REF_bad) (tl ctrl_state) in
    chain_sum data (combine (combine refs (tl oc)) (tl ic)) A
              (fun k => data REF_main (k :: ot ++ it)).

  (** wrap(a): the data dictionary { dataref: a } *)
  Definition wrap_data (a : list nat -> K) : Z -> list nat -> K :=
    fun ref => if Z.eqb ref REF_main then a else fun _ => 0.
End Data.
