(** C06 - structure of the multiplexer, phase-factor, prepare and wrap networks, for every
    width: the build programs end without an exception in an explicitly known network that
    satisfies the incidence invariant WF; bonds are 0..N-1 in this order. *)
From Qib Require Export GateNet.GateNetCtrl.
Local Open Scope Z_scope.

(** dictionaries with the gate tensor 0 and the virtual tensor -1 *)
Definition T2 (s0 s1 : list nat) (cb ob : list Z) : dict tensor :=
  [(0, mkT 0 s0 cb REF_main); (-1, mkT (-1) s1 ob REF_none)].

Lemma cT_T2 s0 s1 cb ob k kb :
  cT (T2 s0 s1 cb ob) k kb = if k =? 0 then zcount kb cb else if k =? -1 then zcount kb ob else 0%nat.
Proof. unfold cT, T2. cbn [dget]. destruct (k =? 0); [reflexivity|]. destruct (k =? -1); reflexivity. Qed.

Lemma set2_0 s0 s1 cb ob B n ok ax v axz :
  axz = Z.of_nat ax -> (ax < length cb)%nat ->
  set_bid (mkS (T2 s0 s1 cb ob) B n ok) 0 axz v = mkS (T2 s0 s1 (set_nth ax v cb) ob) B n ok.
Proof.
  intros -> H. erewrite set_bid_ok; [|reflexivity|cbn [t_bids]; lia].
  cbn [t_bids]. rewrite Nat2Z.id. reflexivity.
Qed.
Lemma set2_v s0 s1 cb ob B n ok ax v axz :
  axz = Z.of_nat ax -> (ax < length ob)%nat ->
  set_bid (mkS (T2 s0 s1 cb ob) B n ok) (-1) axz v = mkS (T2 s0 s1 cb (set_nth ax v ob)) B n ok.
Proof.
  intros -> H. erewrite set_bid_ok; [|reflexivity|cbn [t_bids]; lia].
  cbn [t_bids]. rewrite Nat2Z.id. reflexivity.
Qed.

(** WF from the invariant when the dimensions are not all 2 (wrap) *)
Lemma WF_of_Inv_dims T B n :
  Inv T B n -> NoDup (dkeys T) -> In VT (dkeys T) ->
  (forall k t, In (k, t) T -> t_id t = k /\ length (t_shape t) = length (t_bids t)
                             /\ forall b, In b (t_bids t) -> 0 <= b < Z.of_nat n) ->
  (forall kb, exists d, forall k t ax, In (k, t) T ->
       nth_error (t_bids t) ax = Some kb -> nth_error (t_shape t) ax = Some d) ->
  WF (mkN T B).
Proof.
  intros I ND HV HT HD. split; [|exact HV]. constructor; cbn [tensors bonds].
  - exact ND.
  - rewrite (inv_keys _ _ _ I). apply NoDup_zseq.
  - intros k t Hin. destruct (HT k t Hin) as [E1 [E2 _]]. split; assumption.
  - apply (inv_B _ _ _ I).
  - intros k kb. unfold cntT, cntB. cbn [tensors bonds]. fold (cT T k kb). fold (cB B kb k).
    destruct (Z_lt_ge_dec kb 0) as [Hneg|Hpos]; [|destruct (Z_lt_ge_dec kb (Z.of_nat n)) as [Hlt|Hge]].
    2:{ apply (inv_bal _ _ _ I). lia. }
    all: assert (E1 : cT T k kb = 0%nat)
      by (unfold cT; destruct (dget k T) eqn:E; [|reflexivity]; apply zcount_0; intros Hin;
          apply dget_In in E; destruct (HT k t E) as [_ [_ R]]; specialize (R kb Hin); lia).
    all: assert (E2 : cB B kb k = 0%nat)
      by (unfold cB; destruct (dget kb B) eqn:E; [|reflexivity]; apply dget_Some_key in E;
          rewrite (inv_keys _ _ _ I), In_zseq in E; lia).
    all: congruence.
  - exact HD.
Qed.

(* ================================================================== MultiplexedGate *)
Section Mux.
  Variables (nc nt : nat).

  Definition mctg (f1 f2 k : nat) (p : nat) : Z :=
    if (p <? nc)%nat then (if (p <? k)%nat then Z.of_nat (2 * nt + p)%nat else -1)
    else if (p <? nc + nt)%nat then (if (p - nc <? f1)%nat then Z.of_nat (p - nc)%nat else -1)
    else (if (p - (nc + nt) <? f2)%nat then Z.of_nat (nt + (p - (nc + nt)))%nat else -1).
  Definition moax (f1 f2 k : nat) (p : nat) : Z :=
    if (p <? nc)%nat then (if (p <? k)%nat then Z.of_nat (2 * nt + p)%nat else -1)
    else if (p <? nc + nt)%nat then (if (p - nc <? f1)%nat then Z.of_nat (p - nc)%nat else -1)
    else if (p <? nc + nt + nc)%nat
         then (if (p - (nc + nt) <? k)%nat then Z.of_nat (2 * nt + (p - (nc + nt)))%nat else -1)
    else (if (p - (nc + nt + nc) <? f2)%nat then Z.of_nat (nt + (p - (nc + nt + nc)))%nat else -1).
  Definition mctgl f1 f2 k : list Z := map (mctg f1 f2 k) (seq 0 (nc + 2 * nt)%nat).
  Definition moaxl f1 f2 k : list Z := map (moax f1 f2 k) (seq 0 (2 * (nc + nt))%nat).

  Lemma mctgl_length f1 f2 k : length (mctgl f1 f2 k) = (nc + 2 * nt)%nat.
  Proof. unfold mctgl. rewrite map_length, seq_length. reflexivity. Qed.
  Lemma moaxl_length f1 f2 k : length (moaxl f1 f2 k) = (2 * (nc + nt))%nat.
  Proof. unfold moaxl. rewrite map_length, seq_length. reflexivity. Qed.

  Definition ms0 : list nat := (repeat 2 nc ++ repeat 2 (2 * nt))%nat.
  Definition ms1 : list nat := repeat 2%nat (2 * (nc + nt))%nat.
  Definition TM f1 f2 k : dict tensor := T2 ms0 ms1 (mctgl f1 f2 k) (moaxl f1 f2 k).

  Ltac mform :=
    unfold mctgl, moaxl; rewrite ?set_nth_map_seq by lia;
    apply map_ext_in; intros q Hq; apply in_seq in Hq; unfold mctg, moax; ncases.
  Ltac mnth :=
    rewrite ?nth_set_nth, ?set_nth_length, ?mctgl_length, ?moaxl_length; unfold mctgl, moaxl;
    rewrite ?nth_map_seq by lia; unfold mctg, moax; cbn [Nat.add]; ncases.
  Ltac mfills :=
    repeat (rewrite zcount_fill;
            [ | rewrite ?set_nth_length, ?mctgl_length, ?moaxl_length; lia | mnth | lia ]).
  Ltac mcnt := unfold mctgl, moaxl; apply zcount_map_seq_0; intros q Hq; unfold mctg, moax; ncases.

  Definition PM (f1 f2 k n : nat) (st : bst) : Prop :=
    exists B, st = mkS (TM f1 f2 k) B (Z.of_nat n) true /\ Inv (TM f1 f2 k) B n.

  Definition mbody1 (i : Z) (st : bst) : bst :=
    let st := add_bond st (s_next st) [-1; 0] in
    let st := set_bid st (-1) (Z.of_nat nc + i) (s_next st) in
    let st := set_bid st 0 (Z.of_nat nc + i) (s_next st) in
    let st := incr st in
    st.
  Definition mbody2 (i : Z) (st : bst) : bst :=
    let st := add_bond st (s_next st) [-1; 0] in
    let st := set_bid st (-1) (2 * Z.of_nat nc + Z.of_nat nt + i) (s_next st) in
    let st := set_bid st 0 (Z.of_nat nc + Z.of_nat nt + i) (s_next st) in
    let st := incr st in
    st.
  Definition mbody3 (i : Z) (st : bst) : bst :=
    let st := add_bond st (s_next st) [-1; -1; 0] in
    let st := set_bid st (-1) i (s_next st) in
    let st := set_bid st (-1) (Z.of_nat nc + Z.of_nat nt + i) (s_next st) in
    let st := set_bid st 0 i (s_next st) in
    let st := incr st in
    st.

  Lemma mstep1 k st : (k < nt)%nat -> PM k 0 0 k st -> PM (S k) 0 0 (S k) (mbody1 (Z.of_nat (0 + k)) st).
  Proof.
    intros Hk [B [-> I]]. unfold mbody1, TM. cbn [Nat.add s_next].
    rewrite add_bond_ok by (cbn [length]; try lia; apply (Inv_fresh' _ _ _ I)). cbn [s_next].
    rewrite (set2_v _ _ _ _ _ _ _ (nc + k)) by (try lia; rewrite moaxl_length; lia).
    cbn [s_next].
    rewrite (set2_0 _ _ _ _ _ _ _ (nc + k)) by (try lia; rewrite mctgl_length; lia).
    cbn [s_next].
    rewrite incr_eq.
    assert (E1 : set_nth (nc + k) (Z.of_nat k) (mctgl k 0 0) = mctgl (S k) 0 0) by mform.
    assert (E2 : set_nth (nc + k) (Z.of_nat k) (moaxl k 0 0) = moaxl (S k) 0 0) by mform.
    exists (B ++ bonds_of k [[-1; 0]]). split; [rewrite E1, E2; reflexivity|].
    unfold TM. rewrite <- E1, <- E2. replace (S k) with (k + length [[-1; 0]%Z])%nat by (cbn [length]; lia).
    apply (Inv_adds _ _ _ _ _ I).
    - intros L [<-|[]]. cbn. lia.
    - intros k' kb Hkb. unfold TM. rewrite !cT_T2.
      destruct (k' =? 0); [mfills; zcases|]. destruct (k' =? -1); [mfills; zcases|]. reflexivity.
    - intros [|j] k' Hj; [|cbn in Hj; lia]. rewrite Nat.add_0_r. cbn [nth]. rewrite cT_T2. smallcount.
      destruct (Z.eqb_spec k' 0) as [->|N0].
      { mfills. rewrite Z.eqb_refl. replace (zcount (Z.of_nat k) (mctgl k 0 0)) with 0%nat by (symmetry; mcnt). reflexivity. }
      destruct (Z.eqb_spec k' (-1)) as [->|N1].
      { mfills. rewrite Z.eqb_refl. replace (zcount (Z.of_nat k) (moaxl k 0 0)) with 0%nat by (symmetry; mcnt). reflexivity. }
      zcases.
  Qed.

  Lemma mstep2 k st : (k < nt)%nat -> PM nt k 0 (nt + k) st -> PM nt (S k) 0 (nt + S k) (mbody2 (Z.of_nat (0 + k)) st).
  Proof.
    intros Hk [B [-> I]]. unfold mbody2, TM. cbn [Nat.add s_next].
    rewrite add_bond_ok by (cbn [length]; try lia; apply (Inv_fresh' _ _ _ I)). cbn [s_next].
    rewrite (set2_v _ _ _ _ _ _ _ (nc + nt + nc + k)) by (try lia; rewrite moaxl_length; lia).
    cbn [s_next].
    rewrite (set2_0 _ _ _ _ _ _ _ (nc + nt + k)) by (try lia; rewrite mctgl_length; lia).
    cbn [s_next].
    rewrite incr_eq.
    assert (E1 : set_nth (nc + nt + k) (Z.of_nat (nt + k)) (mctgl nt k 0) = mctgl nt (S k) 0) by mform.
    assert (E2 : set_nth (nc + nt + nc + k) (Z.of_nat (nt + k)) (moaxl nt k 0) = moaxl nt (S k) 0) by mform.
    exists (B ++ bonds_of (nt + k) [[-1; 0]]). split.
    { rewrite E1, E2. replace (nt + S k)%nat with (S (nt + k)) by lia. reflexivity. }
    unfold TM. rewrite <- E1, <- E2. replace (nt + S k)%nat with (nt + k + length [[-1; 0]%Z])%nat by (cbn [length]; lia).
    apply (Inv_adds _ _ _ _ _ I).
    - intros L [<-|[]]. cbn. lia.
    - intros k' kb Hkb. unfold TM. rewrite !cT_T2.
      destruct (k' =? 0); [mfills; zcases|]. destruct (k' =? -1); [mfills; zcases|]. reflexivity.
    - intros [|j] k' Hj; [|cbn in Hj; lia]. rewrite Nat.add_0_r. cbn [nth]. rewrite cT_T2. smallcount.
      destruct (Z.eqb_spec k' 0) as [->|N0].
      { mfills. rewrite Z.eqb_refl. replace (zcount (Z.of_nat (nt + k)) (mctgl nt k 0)) with 0%nat by (symmetry; mcnt). reflexivity. }
      destruct (Z.eqb_spec k' (-1)) as [->|N1].
      { mfills. rewrite Z.eqb_refl. replace (zcount (Z.of_nat (nt + k)) (moaxl nt k 0)) with 0%nat by (symmetry; mcnt). reflexivity. }
      zcases.
  Qed.

  Lemma mstep3 k st : (k < nc)%nat -> PM nt nt k (2 * nt + k) st -> PM nt nt (S k) (2 * nt + S k) (mbody3 (Z.of_nat (0 + k)) st).
  Proof.
    intros Hk [B [-> I]]. unfold mbody3, TM. cbn [Nat.add s_next].
    rewrite add_bond_ok by (cbn [length]; try lia; apply (Inv_fresh' _ _ _ I)). cbn [s_next].
    rewrite (set2_v _ _ _ _ _ _ _ k) by (try lia; rewrite moaxl_length; lia).
    cbn [s_next].
    rewrite (set2_v _ _ _ _ _ _ _ (nc + nt + k)) by (try lia; rewrite set_nth_length, moaxl_length; lia).
    cbn [s_next].
    rewrite (set2_0 _ _ _ _ _ _ _ k) by (try lia; rewrite mctgl_length; lia).
    cbn [s_next].
    rewrite incr_eq.
    assert (E1 : set_nth k (Z.of_nat (2 * nt + k)) (mctgl nt nt k) = mctgl nt nt (S k)) by mform.
    assert (E2 : set_nth (nc + nt + k) (Z.of_nat (2 * nt + k)) (set_nth k (Z.of_nat (2 * nt + k)) (moaxl nt nt k)) = moaxl nt nt (S k)) by mform.
    exists (B ++ bonds_of (2 * nt + k) [[-1; -1; 0]]). split.
    { rewrite E1, E2. replace (2 * nt + S k)%nat with (S (2 * nt + k)) by lia. reflexivity. }
    unfold TM. rewrite <- E1, <- E2.
    replace (2 * nt + S k)%nat with (2 * nt + k + length [[-1; -1; 0]%Z])%nat by (cbn [length]; lia).
    apply (Inv_adds _ _ _ _ _ I).
    - intros L [<-|[]]. cbn. lia.
    - intros k' kb Hkb. unfold TM. rewrite !cT_T2.
      destruct (k' =? 0); [mfills; zcases|]. destruct (k' =? -1); [mfills; zcases|]. reflexivity.
    - intros [|j] k' Hj; [|cbn in Hj; lia]. rewrite Nat.add_0_r. cbn [nth]. rewrite cT_T2. smallcount.
      destruct (Z.eqb_spec k' 0) as [->|N0].
      { mfills. rewrite Z.eqb_refl. replace (zcount (Z.of_nat (2 * nt + k)) (mctgl nt nt k)) with 0%nat by (symmetry; mcnt). reflexivity. }
      destruct (Z.eqb_spec k' (-1)) as [->|N1].
      { mfills. rewrite Z.eqb_refl. replace (zcount (Z.of_nat (2 * nt + k)) (moaxl nt nt k)) with 0%nat by (symmetry; mcnt). reflexivity. }
      zcases.
  Qed.

  Definition minit : bst :=
    set_next
      (new_tensor
         (new_tensor st0 0 (zrep 2%nat (Z.of_nat nc) ++ zrep 2%nat (2 * Z.of_nat nt))
                     (zrep (-1) (Z.of_nat (length (zrep 2%nat (Z.of_nat nc) ++ zrep 2%nat (2 * Z.of_nat nt))))) REF_main)
         (-1) (zrep 2%nat (2 * (Z.of_nat nc + Z.of_nat nt))) (zrep (-1) (2 * (Z.of_nat nc + Z.of_nat nt))) REF_none)
      0.

  Lemma mux_build_phases :
    mux_build (Z.of_nat nc) (Z.of_nat nt)
    = zfor 0 (Z.of_nat nc) mbody3 (zfor 0 (Z.of_nat nt) mbody2 (zfor 0 (Z.of_nat nt) mbody1 minit)).
  Proof. reflexivity. Qed.

  Lemma minit_PM : PM 0 0 0 0 minit.
  Proof.
    exists []. split; [|apply Inv_init]. unfold minit, st0.
    assert (S1 : zrep 2%nat (Z.of_nat nc) ++ zrep 2%nat (2 * Z.of_nat nt) = ms0).
    { unfold ms0, zrep. repeat f_equal; lia. }
    rewrite S1.
    assert (S2 : zrep (-1) (Z.of_nat (length ms0)) = mctgl 0 0 0).
    { rewrite zrep_nat. unfold ms0. rewrite app_length, !repeat_length, repeat_map_seq. unfold mctgl.
      apply map_ext_in. intros q Hq. unfold mctg. ncases. }
    rewrite S2.
    assert (S3 : zrep 2%nat (2 * (Z.of_nat nc + Z.of_nat nt)) = ms1).
    { unfold zrep, ms1. f_equal. lia. }
    rewrite S3.
    assert (S4 : zrep (-1) (2 * (Z.of_nat nc + Z.of_nat nt)) = moaxl 0 0 0).
    { unfold zrep. replace (Z.to_nat (2 * (Z.of_nat nc + Z.of_nat nt))) with (2 * (nc + nt))%nat by lia.
      rewrite repeat_map_seq. unfold moaxl. apply map_ext_in. intros q Hq. unfold moax. ncases. }
    rewrite S4.
    rewrite new_tensor_ok; [|unfold ms0; rewrite mctgl_length, app_length, !repeat_length; reflexivity | reflexivity].
    rewrite new_tensor_ok; [|unfold ms1; rewrite moaxl_length, repeat_length; reflexivity | reflexivity].
    reflexivity.
  Qed.

  Definition TMfinal : dict tensor := TM nt nt nc.
  Definition NMfinal : nat := (2 * nt + nc)%nat.

  Theorem mux_build_WF :
    exists B, mux_build (Z.of_nat nc) (Z.of_nat nt) = mkS TMfinal B (Z.of_nat NMfinal) true
              /\ dkeys B = zseq NMfinal /\ WF (mkN TMfinal B).
  Proof.
    rewrite mux_build_phases.
    assert (H1 : PM nt 0 0 nt (zfor 0 (Z.of_nat nt) mbody1 minit)).
    { rewrite (zfor_nat 0 nt).
      apply (fold_seq_ind (fun k => PM k 0 0 k) (fun i s => mbody1 (Z.of_nat i) s) 0 nt minit minit_PM
                          (fun k s Hk P => mstep1 k s Hk P)). }
    assert (H2 : PM nt nt 0 (nt + nt) (zfor 0 (Z.of_nat nt) mbody2 (zfor 0 (Z.of_nat nt) mbody1 minit))).
    { rewrite (zfor_nat 0 nt).
      apply (fold_seq_ind (fun k => PM nt k 0 (nt + k)) (fun i s => mbody2 (Z.of_nat i) s) 0 nt).
      - rewrite Nat.add_0_r. exact H1.
      - intros k s Hk P. apply mstep2; assumption. }
    assert (H3 : PM nt nt nc (2 * nt + nc) (zfor 0 (Z.of_nat nc) mbody3 (zfor 0 (Z.of_nat nt) mbody2 (zfor 0 (Z.of_nat nt) mbody1 minit)))).
    { rewrite (zfor_nat 0 nc).
      apply (fold_seq_ind (fun k => PM nt nt k (2 * nt + k)) (fun i s => mbody3 (Z.of_nat i) s) 0 nc).
      - replace (2 * nt + 0)%nat with (nt + nt)%nat by lia. exact H2.
      - intros k s Hk P. apply mstep3; assumption. }
    destruct H3 as [B [E I]]. exists B. split; [exact E|]. split; [apply (inv_keys _ _ _ I)|].
    apply (WF_of_Inv _ _ _ I).
    - cbn. constructor; [intros [E'|[]]; discriminate|]. constructor; [intros []|constructor].
    - right. left. reflexivity.
    - unfold TMfinal, TM, T2, NMfinal. intros k t [E'|[E'|[]]]; injection E' as <- <-; cbn [t_id t_shape t_bids].
      + rewrite mctgl_length. split; [reflexivity|]. split.
        { unfold ms0. rewrite <- repeat_app. reflexivity. }
        intros b Hb. apply In_map_seq_g in Hb. destruct Hb as [q [Hq ->]]. unfold mctg. ncases.
      + rewrite moaxl_length. split; [reflexivity|]. split; [reflexivity|].
        intros b Hb. apply In_map_seq_g in Hb. destruct Hb as [q [Hq ->]]. unfold moax. ncases.
  Qed.
End Mux.

(* ================================================================== TensorNetwork.wrap *)
Section Wrap.
  Variable shp : list nat.
  Let nd : nat := length shp.

  Definition TW : dict tensor := T2 shp shp (zseq nd) (zseq nd).

  Definition PW (k : nat) (st : bst) : Prop :=
    exists B, st = mkS TW B 0 true /\ Inv TW B k.

  Lemma wstep k st : (k < nd)%nat -> PW k st -> PW (S k) (add_bond st (Z.of_nat (0 + k)) [-1; 0]).
  Proof.
    intros Hk [B [-> I]]. cbn [Nat.add].
    rewrite add_bond_ok by (cbn [length]; try lia; apply (Inv_fresh' _ _ _ I)).
    exists (B ++ bonds_of k [[-1; 0]]). split; [reflexivity|].
    replace (S k) with (k + length [[-1; 0]%Z])%nat by (cbn [length]; lia).
    apply (Inv_adds _ _ _ _ _ I).
    - intros L [<-|[]]. cbn. lia.
    - reflexivity.
    - intros [|j] k' Hj; [|cbn in Hj; lia]. rewrite Nat.add_0_r. cbn [nth]. unfold TW. rewrite cT_T2, zcount_zseq. smallcount.
      zcases.
  Qed.

  Theorem wrap_build_WF :
    exists B, wrap_build shp = mkS TW B 0 true /\ dkeys B = zseq nd /\ WF (mkN TW B).
  Proof.
    unfold wrap_build, st0. cbv zeta. fold nd. rewrite zrange_0.
    rewrite new_tensor_ok; [|rewrite zseq_length; reflexivity | reflexivity].
    rewrite new_tensor_ok; [|rewrite zseq_length; reflexivity | reflexivity].
    cbn [app]. fold TW. rewrite (zfor_nat 0 nd).
    assert (H : PW nd (fold_left (fun s i => add_bond s (Z.of_nat i) [-1; 0]) (seq 0 nd) (mkS TW [] 0 true))).
    { apply (fold_seq_ind PW (fun i s => add_bond s (Z.of_nat i) [-1; 0]) 0 nd).
      - exists []. split; [reflexivity | apply Inv_init].
      - intros k s Hk P. apply wstep; assumption. }
    destruct H as [B [E I]]. exists B. split; [exact E|]. split; [apply (inv_keys _ _ _ I)|].
    apply (WF_of_Inv_dims _ _ _ I).
    - cbn. constructor; [intros [E'|[]]; discriminate|]. constructor; [intros []|constructor].
    - right. left. reflexivity.
    - unfold TW, T2. intros k t [E'|[E'|[]]]; injection E' as <- <-; cbn [t_id t_shape t_bids];
        (split; [reflexivity|]); (split; [rewrite zseq_length; reflexivity|]); intros b Hb; apply In_zseq in Hb; exact Hb.
    - intros kb. exists (nth (Z.to_nat kb) shp 0%nat). intros k t ax Hin Hb.
      assert (Q : t_bids t = zseq nd /\ t_shape t = shp).
      { unfold TW, T2 in Hin. destruct Hin as [E'|[E'|[]]]; injection E' as <- <-; split; reflexivity. }
      destruct Q as [Q1 Q2]. rewrite Q1 in Hb. rewrite Q2.
      assert (Hax : (ax < nd)%nat) by (rewrite <- (zseq_length nd); apply nth_error_Some; congruence).
      unfold zseq in Hb. rewrite nth_error_map, nth_error_nth' with (d := 0%nat) in Hb by (rewrite seq_length; exact Hax).
      rewrite seq_nth in Hb by exact Hax. cbn in Hb. injection Hb as <-.
      rewrite Nat2Z.id. apply nth_error_nth'. exact Hax.
  Qed.
End Wrap.

(* ================================================================== PhaseFactorGate *)
Section Phase.
  Variable n : nat.

  Definition mkp (j : nat) (a : list Z) : tensor := mkT (Z.of_nat j) [2; 2]%nat a REF_main.
  Definition prow (i : nat) : list Z := [2 * Z.of_nat i; 2 * Z.of_nat i + 1].
  Definition pvb : list Z :=
    map (fun q => if (q <? n)%nat then Z.of_nat (2 * q) else Z.of_nat (2 * (q - n) + 1)) (seq 0 (2 * n)).
  Definition TPr (k : nat) : dict tensor := tens mkp 0 (map prow (seq 0 k)).
  Definition TP : dict tensor := TPr n ++ [(-1, mkT (-1) (repeat 2%nat (2 * n)) pvb REF_none)].

  Lemma TPr_length k : length (map prow (seq 0 k)) = k.
  Proof. rewrite map_length, seq_length. reflexivity. Qed.

  Lemma cT_TP k' kb :
    cT TP k' kb = if (0 <=? k') && (k' <? Z.of_nat n) then zcount kb (prow (Z.to_nat k'))
                  else if k' =? -1 then zcount kb pvb else 0%nat.
  Proof.
    unfold cT, TP, TPr. rewrite dget_app, dget_tens, TPr_length. cbn [Nat.add Z.of_nat].
    destruct (Z.leb_spec 0 k'), (Z.ltb_spec k' (Z.of_nat n)); cbn [andb].
    - cbn [mkp t_bids]. rewrite Nat.sub_0_r, nth_map_seq by lia. reflexivity.
    - cbn [dget]. destruct (k' =? -1); reflexivity.
    - cbn [dget]. destruct (k' =? -1); reflexivity.
    - cbn [dget]. destruct (k' =? -1); reflexivity.
  Qed.

  Definition PP1 (k : nat) (st : bst) : Prop := st = mkS (TPr k) [] 0 true.
  Definition PP2 (k : nat) (st : bst) : Prop := exists B, st = mkS TP B 0 true /\ Inv TP B (2 * k).

  Definition pbody1 (i : Z) (st : bst) : bst :=
    let st := new_tensor st i [2%nat; 2%nat] [2 * i; 2 * i + 1] REF_main in st.
  Definition pbody2 (i : Z) (st : bst) : bst :=
    let st := add_bond st (2 * i) [-1; i] in
    let st := add_bond st (2 * i + 1) [-1; i] in
    st.

  Lemma pstep1 k st : (k < n)%nat -> PP1 k st -> PP1 (S k) (pbody1 (Z.of_nat (0 + k)) st).
  Proof.
    intros Hk ->. unfold PP1, pbody1. cbn [Nat.add].
    rewrite new_tensor_ok; [|reflexivity|].
    - unfold TPr. rewrite seq_S, map_app. cbn [map Nat.add]. rewrite tens_app, TPr_length. reflexivity.
    - unfold TPr. rewrite dget_tens, TPr_length. cbn [Nat.add].
      destruct (Z.ltb_spec (Z.of_nat k) (Z.of_nat k)); [lia|]. rewrite andb_false_r. reflexivity.
  Qed.

  Lemma pvb_cnt k d : (k < n)%nat -> (d < 2)%nat -> zcount (Z.of_nat (2 * k + d)) pvb = 1%nat.
  Proof.
    intros Hk Hd. unfold pvb.
    apply (zcount_map_seq_1 _ _ 0 (2 * n) (if (d =? 0)%nat then k else (n + k)%nat)).
    - destruct (d =? 0)%nat; lia.
    - destruct (Nat.eqb_spec d 0); ncases.
    - intros q Hq. destruct (Nat.eqb_spec d 0); ncases.
  Qed.

  Lemma pstep2 k st : (k < n)%nat -> PP2 k st -> PP2 (S k) (pbody2 (Z.of_nat (0 + k)) st).
  Proof.
    intros Hk [B [-> I]]. unfold pbody2. cbn [Nat.add].
    replace (2 * Z.of_nat k) with (Z.of_nat (2 * k)) by lia.
    rewrite add_bond_ok by (cbn [length]; try lia; apply (Inv_fresh' _ _ _ I)).
    replace (Z.of_nat (2 * k) + 1) with (Z.of_nat (S (2 * k))) by lia.
    rewrite add_bond_ok.
    2:{ cbn [length]. lia. }
    2:{ rewrite dget_app, (Inv_fresh'' _ _ _ _ I) by lia. rewrite dget_cons_ne by lia. reflexivity. }
    exists (B ++ bonds_of (2 * k) [[-1; Z.of_nat k]; [-1; Z.of_nat k]]). split.
    { rewrite <- app_assoc. reflexivity. }
    replace (2 * S k)%nat with (2 * k + length [[-1; Z.of_nat k]%Z; [-1; Z.of_nat k]%Z])%nat by (cbn [length]; lia).
    apply (Inv_adds _ _ _ _ _ I).
    - intros L [<-|[<-|[]]]; cbn; lia.
    - reflexivity.
    - intros d k' Hd. cbn [length] in Hd. rewrite cT_TP.
      assert (Q : nth d [[-1; Z.of_nat k]; [-1; Z.of_nat k]] [] = [-1; Z.of_nat k])
        by (destruct d as [|[|d]]; [reflexivity | reflexivity | lia]).
      rewrite Q. smallcount.
      destruct (Z.leb_spec 0 k'), (Z.ltb_spec k' (Z.of_nat n)); cbn [andb].
      + unfold prow. smallcount. zcases.
      + zcases.
      + destruct (Z.eqb_spec k' (-1)) as [->|N]; [rewrite pvb_cnt by lia; zcases | zcases].
      + lia.
  Qed.

  Ltac Zify.zify_post_hook ::= Z.to_euclidean_division_equations.

  Lemma zrange2_even : zrange2 0 (2 * Z.of_nat n) = map (fun q => Z.of_nat (2 * q)) (seq 0 n).
  Proof.
    unfold zrange2. replace (Z.to_nat ((2 * Z.of_nat n - 0 + 1) / 2)) with n by lia.
    apply map_ext. intros q. lia.
  Qed.
  Lemma zrange2_odd : zrange2 1 (2 * Z.of_nat n) = map (fun q => Z.of_nat (2 * q + 1)) (seq 0 n).
  Proof.
    unfold zrange2. replace (Z.to_nat ((2 * Z.of_nat n - 1 + 1) / 2)) with n by lia.
    apply map_ext. intros q. lia.
  Qed.
  Ltac Zify.zify_post_hook ::= idtac.

  Lemma pvb_eq : zrange2 0 (2 * Z.of_nat n) ++ zrange2 1 (2 * Z.of_nat n) = pvb.
  Proof.
    rewrite zrange2_even, zrange2_odd. unfold pvb.
    replace (2 * n)%nat with (n + n)%nat by lia. rewrite seq_app, map_app. cbn [Nat.add]. f_equal.
    - apply map_ext_in. intros q Hq. apply in_seq in Hq. ncases.
    - rewrite (map_seq_shift _ n n). apply map_ext_in. intros q Hq. apply in_seq in Hq. ncases.
  Qed.

  Theorem phase_build_WF :
    exists B, phase_build (Z.of_nat n) = mkS TP B 0 true /\ dkeys B = zseq (2 * n) /\ WF (mkN TP B).
  Proof.
    change (phase_build (Z.of_nat n)) with
      (zfor 0 (Z.of_nat n) pbody2
         (new_tensor (zfor 0 (Z.of_nat n) pbody1 st0) (-1) (zrep 2%nat (2 * Z.of_nat n))
                     (zrange2 0 (2 * Z.of_nat n) ++ zrange2 1 (2 * Z.of_nat n)) REF_none)).
    assert (H1 : PP1 n (zfor 0 (Z.of_nat n) pbody1 st0)).
    { rewrite (zfor_nat 0 n). apply (fold_seq_ind PP1 (fun i s => pbody1 (Z.of_nat i) s) 0 n); [reflexivity|].
      intros k s Hk P. apply pstep1; assumption. }
    rewrite H1, pvb_eq.
    replace (zrep 2%nat (2 * Z.of_nat n)) with (repeat 2%nat (2 * n)) by (unfold zrep; f_equal; lia).
    rewrite new_tensor_ok.
    2:{ unfold pvb. rewrite repeat_length, map_length, seq_length. reflexivity. }
    2:{ unfold TPr. rewrite dget_tens. reflexivity. }
    fold TP.
    assert (H2 : PP2 n (zfor 0 (Z.of_nat n) pbody2 (mkS TP [] 0 true))).
    { rewrite (zfor_nat 0 n). apply (fold_seq_ind PP2 (fun i s => pbody2 (Z.of_nat i) s) 0 n).
      - exists []. split; [reflexivity | apply Inv_init].
      - intros k s Hk P. apply pstep2; assumption. }
    destruct H2 as [B [E I]]. exists B. split; [exact E|]. split; [apply (inv_keys _ _ _ I)|].
    apply (WF_of_Inv _ _ _ I).
    - unfold TP, TPr. rewrite dkeys_app, dkeys_tens, TPr_length. cbn [dkeys map fst].
      apply NoDup_app_disj.
      + apply FinFun.Injective_map_NoDup; [intros a b E'; lia | apply seq_NoDup].
      + constructor; [intros [] | constructor].
      + intros x Hx [<-|[]]. apply In_map_seq_g in Hx. destruct Hx as [q [_ E']]. lia.
    - unfold TP. rewrite dkeys_app. apply in_or_app. right. left. reflexivity.
    - unfold TP, TPr. intros k t Hin. apply in_app_or in Hin. destruct Hin as [Hin|[E'|[]]].
      + apply In_tens in Hin. destruct Hin as [j [Hj [-> ->]]]. rewrite TPr_length in Hj.
        rewrite nth_map_seq by lia. cbn [Nat.add mkp prow t_id t_shape t_bids length].
        split; [reflexivity|]. split; [reflexivity|]. intros b [<-|[<-|[]]]; lia.
      + injection E' as <- <-. cbn [t_id t_shape t_bids]. unfold pvb. rewrite map_length, seq_length.
        split; [reflexivity|]. split; [reflexivity|].
        intros b Hb. apply In_map_seq_g in Hb. destruct Hb as [q [Hq ->]]. ncases.
  Qed.
End Phase.

(* ================================================================== PrepareGate *)
Section Prep.
  Variables (n : nat) (tr : bool).

  Definition mkk (j : nat) (a : list Z) : tensor := mkT (Z.of_nat j) [2]%nat a REF_ket0.
  Definition krow (i : nat) : list Z := [Z.of_nat n + Z.of_nat i].
  Definition qvb : list Z := if negb tr then zseq (2 * n) else map Z.of_nat (seq n n) ++ zseq n.
  Definition TQr (k : nat) : dict tensor :=
    (0, mkT 0 (repeat 2%nat n) (zseq n) REF_main) :: tens mkk 1 (map krow (seq 0 k)).
  Definition TQ : dict tensor := TQr n ++ [(-1, mkT (-1) (repeat 2%nat (2 * n)) qvb REF_none)].

  Lemma krows_length k : length (map krow (seq 0 k)) = k.
  Proof. rewrite map_length, seq_length. reflexivity. Qed.

  Lemma qvb_cnt kb : zcount kb qvb = if (0 <=? kb) && (kb <? Z.of_nat (2 * n)) then 1%nat else 0%nat.
  Proof.
    unfold qvb. destruct tr; cbn [negb]; [|apply zcount_zseq].
    rewrite zcount_app, zcount_zseq.
    assert (A : zcount kb (map Z.of_nat (seq n n))
                = if (Z.of_nat n <=? kb) && (kb <? Z.of_nat (2 * n)) then 1%nat else 0%nat).
    { destruct (Z.leb_spec (Z.of_nat n) kb), (Z.ltb_spec kb (Z.of_nat (2 * n))); cbn [andb].
      - apply (zcount_map_seq_1 kb Z.of_nat n n (Z.to_nat kb)); lia.
      - apply zcount_map_seq_0. intros q Hq. lia.
      - apply zcount_map_seq_0. intros q Hq. lia.
      - apply zcount_map_seq_0. intros q Hq. lia. }
    rewrite A. zcases.
  Qed.

  Lemma cT_TQ k' kb :
    cT TQ k' kb = if k' =? 0 then zcount kb (zseq n)
                  else if (1 <=? k') && (k' <? Z.of_nat (1 + n)) then zcount kb (krow (Z.to_nat k' - 1))
                  else if k' =? -1 then zcount kb qvb else 0%nat.
  Proof.
    unfold cT, TQ, TQr. rewrite <- app_comm_cons. cbn [dget]. destruct (Z.eqb_spec k' 0); [reflexivity|].
    rewrite dget_app, dget_tens, krows_length. change (Z.of_nat 1) with 1.
    destruct (Z.leb_spec 1 k'), (Z.ltb_spec k' (Z.of_nat (1 + n))); cbn [andb].
    - cbn [mkk t_bids]. rewrite nth_map_seq by lia. reflexivity.
    - cbn [dget]. destruct (k' =? -1); reflexivity.
    - cbn [dget]. destruct (k' =? -1); reflexivity.
    - cbn [dget]. destruct (k' =? -1); reflexivity.
  Qed.

  Definition PQ1 (k : nat) (st : bst) : Prop := st = mkS (TQr k) [] 0 true.
  Definition PQ2 (k : nat) (st : bst) : Prop := exists B, st = mkS TQ B 0 true /\ Inv TQ B k.
  Definition PQ3 (k : nat) (st : bst) : Prop := exists B, st = mkS TQ B 0 true /\ Inv TQ B (n + k).

  Definition qbody1 (i : Z) (st : bst) : bst :=
    let st := new_tensor st (1 + i) [2%nat] [Z.of_nat n + i] REF_ket0 in st.
  Definition qbody2 (i : Z) (st : bst) : bst := let st := add_bond st i [-1; 0] in st.
  Definition qbody3 (i : Z) (st : bst) : bst := let st := add_bond st (Z.of_nat n + i) [-1; 1 + i] in st.

  Lemma qstep1 k st : (k < n)%nat -> PQ1 k st -> PQ1 (S k) (qbody1 (Z.of_nat (0 + k)) st).
  Proof.
    intros Hk ->. unfold PQ1, qbody1. cbn [Nat.add].
    rewrite new_tensor_ok; [|reflexivity|].
    - unfold TQr. rewrite seq_S, map_app. cbn [map Nat.add]. rewrite tens_app, krows_length.
      rewrite <- app_comm_cons. unfold mkk, krow. repeat f_equal; lia.
    - unfold TQr. rewrite dget_cons_ne by lia. rewrite dget_tens, krows_length.
      destruct (Z.ltb_spec (1 + Z.of_nat k) (Z.of_nat (1 + k))); [lia|]. rewrite andb_false_r. reflexivity.
  Qed.

  Lemma qstep2 k st : (k < n)%nat -> PQ2 k st -> PQ2 (S k) (qbody2 (Z.of_nat (0 + k)) st).
  Proof.
    intros Hk [B [-> I]]. unfold qbody2. cbn [Nat.add].
    rewrite add_bond_ok by (cbn [length]; try lia; apply (Inv_fresh' _ _ _ I)).
    exists (B ++ bonds_of k [[-1; 0]]). split; [reflexivity|].
    replace (S k) with (k + length [[-1; 0]%Z])%nat by (cbn [length]; lia).
    apply (Inv_adds _ _ _ _ _ I).
    - intros L [<-|[]]. cbn. lia.
    - reflexivity.
    - intros [|j] k' Hj; [|cbn in Hj; lia]. rewrite Nat.add_0_r. cbn [nth]. rewrite cT_TQ, zcount_zseq, qvb_cnt. smallcount.
      unfold krow. smallcount. zcases.
  Qed.

  Lemma qstep3 k st : (k < n)%nat -> PQ3 k st -> PQ3 (S k) (qbody3 (Z.of_nat (0 + k)) st).
  Proof.
    intros Hk [B [-> I]]. unfold qbody3. cbn [Nat.add].
    replace (Z.of_nat n + Z.of_nat k) with (Z.of_nat (n + k)) by lia.
    rewrite add_bond_ok by (cbn [length]; try lia; apply (Inv_fresh' _ _ _ I)).
    exists (B ++ bonds_of (n + k) [[-1; 1 + Z.of_nat k]]). split; [reflexivity|].
    replace (n + S k)%nat with (n + k + length [[-1; 1 + Z.of_nat k]%Z])%nat by (cbn [length]; lia).
    apply (Inv_adds _ _ _ _ _ I).
    - intros L [<-|[]]. cbn. lia.
    - reflexivity.
    - intros [|j] k' Hj; [|cbn in Hj; lia]. rewrite Nat.add_0_r. cbn [nth]. rewrite cT_TQ, zcount_zseq, qvb_cnt. smallcount.
      unfold krow. smallcount. zcases.
  Qed.

  Theorem prep_build_WF :
    exists B, prep_build (Z.of_nat n) tr = mkS TQ B 0 true /\ dkeys B = zseq (2 * n) /\ WF (mkN TQ B).
  Proof.
    change (prep_build (Z.of_nat n) tr) with
      (zfor 0 (Z.of_nat n) qbody3
         (zfor 0 (Z.of_nat n) qbody2
            (new_tensor
               (zfor 0 (Z.of_nat n) qbody1
                  (new_tensor st0 0 (zrep 2%nat (Z.of_nat n)) (zrange 0 (Z.of_nat n)) REF_main))
               (-1) (zrep 2%nat (2 * Z.of_nat n))
               (if negb tr then zrange 0 (2 * Z.of_nat n)
                else zrange (Z.of_nat n) (2 * Z.of_nat n) ++ zrange 0 (Z.of_nat n)) REF_none))).
    unfold st0. rewrite zrep_nat, zrange_0.
    rewrite new_tensor_ok; [|rewrite repeat_length, zseq_length; reflexivity | reflexivity].
    cbn [app].
    assert (H1 : PQ1 n (zfor 0 (Z.of_nat n) qbody1 (mkS [(0, mkT 0 (repeat 2%nat n) (zseq n) REF_main)] [] 0 true))).
    { rewrite (zfor_nat 0 n). apply (fold_seq_ind PQ1 (fun i s => qbody1 (Z.of_nat i) s) 0 n); [reflexivity|].
      intros k s Hk P. apply qstep1; assumption. }
    rewrite H1.
    assert (EV : (if negb tr then zrange 0 (2 * Z.of_nat n)
                  else zrange (Z.of_nat n) (2 * Z.of_nat n) ++ zseq n) = qvb).
    { unfold qvb. destruct tr; cbn [negb].
      - replace (2 * Z.of_nat n) with (Z.of_nat (n + n)) by lia. rewrite zrange_nat. reflexivity.
      - replace (2 * Z.of_nat n) with (Z.of_nat (2 * n)) by lia. apply zrange_0. }
    rewrite EV.
    replace (zrep 2%nat (2 * Z.of_nat n)) with (repeat 2%nat (2 * n)) by (unfold zrep; f_equal; lia).
    rewrite new_tensor_ok.
    2:{ rewrite repeat_length. unfold qvb. destruct tr; cbn [negb]; rewrite ?app_length, ?map_length, ?seq_length, ?zseq_length; lia. }
    2:{ unfold TQr. rewrite dget_cons_ne by lia. rewrite dget_tens. reflexivity. }
    fold TQ.
    assert (H2 : PQ2 n (zfor 0 (Z.of_nat n) qbody2 (mkS TQ [] 0 true))).
    { rewrite (zfor_nat 0 n). apply (fold_seq_ind PQ2 (fun i s => qbody2 (Z.of_nat i) s) 0 n).
      - exists []. split; [reflexivity | apply Inv_init].
      - intros k s Hk P. apply qstep2; assumption. }
    assert (H3 : PQ3 n (zfor 0 (Z.of_nat n) qbody3 (zfor 0 (Z.of_nat n) qbody2 (mkS TQ [] 0 true)))).
    { rewrite (zfor_nat 0 n). apply (fold_seq_ind PQ3 (fun i s => qbody3 (Z.of_nat i) s) 0 n).
      - destruct H2 as [B [E I]]. exists B. rewrite Nat.add_0_r. split; assumption.
      - intros k s Hk P. apply qstep3; assumption. }
    destruct H3 as [B [E I]]. exists B. split; [exact E|].
    replace (2 * n)%nat with (n + n)%nat by lia. split; [apply (inv_keys _ _ _ I)|].
    apply (WF_of_Inv _ _ _ I).
    - unfold TQ, TQr. rewrite dkeys_app.
      change (dkeys ((0, mkT 0 (repeat 2%nat n) (zseq n) REF_main) :: tens mkk 1 (map krow (seq 0 n))))
        with (0 :: dkeys (tens mkk 1 (map krow (seq 0 n)))).
      rewrite dkeys_tens, krows_length. cbn [dkeys map fst].
      change (0 :: map Z.of_nat (seq 1 n)) with (map Z.of_nat (seq 0 (S n))).
      apply NoDup_app_disj.
      + apply FinFun.Injective_map_NoDup; [intros a b E'; lia | apply seq_NoDup].
      + constructor; [intros [] | constructor].
      + intros x Hx [<-|[]]. apply In_map_seq_g in Hx. destruct Hx as [q [_ E']]. lia.
    - unfold TQ. rewrite dkeys_app. apply in_or_app. right. left. reflexivity.
    - unfold TQ, TQr. intros k t Hin. apply in_app_or in Hin. destruct Hin as [[E'|Hin]|[E'|[]]].
      + injection E' as <- <-. cbn [t_id t_shape t_bids]. rewrite zseq_length.
        split; [reflexivity|]. split; [reflexivity|]. intros b Hb. apply In_zseq in Hb. lia.
      + apply In_tens in Hin. destruct Hin as [j [Hj [-> ->]]]. rewrite krows_length in Hj.
        rewrite nth_map_seq by lia. cbn [Nat.add mkk krow t_id t_shape t_bids length].
        split; [reflexivity|]. split; [reflexivity|]. intros b [<-|[]]; lia.
      + injection E' as <- <-. cbn [t_id t_shape t_bids].
        assert (L : length qvb = (2 * n)%nat).
        { unfold qvb. destruct tr; cbn [negb]; rewrite ?app_length, ?map_length, ?seq_length, ?zseq_length; lia. }
        rewrite L. split; [reflexivity|]. split; [reflexivity|].
        intros b Hb. pose proof (qvb_cnt b) as Q. apply zcount_pos in Hb.
        destruct (Z.leb_spec 0 b), (Z.ltb_spec b (Z.of_nat (2 * n))); cbn [andb] in Q; lia.
  Qed.
End Prep.
