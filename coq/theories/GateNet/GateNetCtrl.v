(** C06 - structure of the controlled-gate network, for every number of controls >= 1, every
    control pattern and every number of target wires: the build program of
    ControlledGate.as_tensornet ends without an exception in an explicitly known network
    (closed form of every tensor's legs; bonds 0..N-1 in this order) that satisfies the
    incidence invariant WF.  Proof: induction over the three loops with explicit loop
    invariants (bid_next, the partially filled legs of the virtual tensor, the chain). *)
From Qib Require Export GateNet.GateNetBase.
Local Open Scope Z_scope.

(* ------------------------------------------------------------------ the primitives on a healthy state *)
Lemma chk_true st : chk true st = st. Proof. reflexivity. Qed.

Lemma new_tensor_ok T B n ok tid shp bids ref :
  length shp = length bids -> dget tid T = None ->
  new_tensor (mkS T B n ok) tid shp bids ref = mkS (T ++ [(tid, mkT tid shp bids ref)]) B n ok.
Proof.
  intros H1 H2. unfold new_tensor. cbn [s_T s_B s_next s_ok].
  unfold dhas. rewrite H2, H1, Nat.eqb_refl. reflexivity.
Qed.

Lemma add_bond_ok T B n ok bid tids :
  (2 <= length tids)%nat -> dget bid B = None ->
  add_bond (mkS T B n ok) bid tids = mkS T (B ++ [(bid, mkB bid (zsort tids))]) n ok.
Proof.
  intros H1 H2. unfold add_bond. cbn [s_T s_B s_next s_ok]. unfold dhas. rewrite H2.
  destruct (Nat.leb_spec 2 (length tids)); [reflexivity | lia].
Qed.

Lemma set_bid_ok T B n ok tid ax v t :
  dget tid T = Some t -> 0 <= ax < Z.of_nat (length (t_bids t)) ->
  set_bid (mkS T B n ok) tid ax v
  = mkS (dset tid (set_bids t (set_nth (Z.to_nat ax) v (t_bids t))) T) B n ok.
Proof.
  intros H1 H2. unfold set_bid. cbn [s_T s_B s_next s_ok]. rewrite H1.
  destruct (Z.leb_spec 0 ax); [|lia]. destruct (Z.ltb_spec ax (Z.of_nat (length (t_bids t)))); [|lia]. reflexivity.
Qed.

Lemma incr_eq T B n ok : incr (mkS T B (Z.of_nat n) ok) = mkS T B (Z.of_nat (S n)) ok.
Proof. unfold incr, set_next. cbn [s_T s_B s_next s_ok]. f_equal. lia. Qed.

(** bonds n, n+1, ... with the given reference lists *)
Fixpoint bonds_of (n : nat) (Ls : list (list Z)) : dict bond :=
  match Ls with
  | [] => []
  | L :: r => (Z.of_nat n, mkB (Z.of_nat n) (zsort L)) :: bonds_of (S n) r
  end.

Lemma Inv_adds T T' B n Ls :
  Inv T B n -> (forall L, In L Ls -> (2 <= length L)%nat) ->
  (forall k kb, 0 <= kb < Z.of_nat n -> cT T' k kb = cT T k kb) ->
  (forall j k, (j < length Ls)%nat -> cT T' k (Z.of_nat (n + j)) = zcount k (nth j Ls [])) ->
  Inv T' (B ++ bonds_of n Ls) (n + length Ls).
Proof.
  revert T B n. induction Ls as [|L Ls IH]; intros T B n I HL Ha Hb.
  - cbn. rewrite app_nil_r, Nat.add_0_r. destruct I as [I1 I2 I3]. constructor; auto.
    intros k kb H. rewrite Ha by exact H. apply I3. exact H.
  - cbn [bonds_of length].
    replace (B ++ (Z.of_nat n, mkB (Z.of_nat n) (zsort L)) :: bonds_of (S n) Ls)
      with ((B ++ [(Z.of_nat n, mkB (Z.of_nat n) (zsort L))]) ++ bonds_of (S n) Ls)
      by (rewrite <- app_assoc; reflexivity).
    replace (n + S (length Ls))%nat with (S n + length Ls)%nat by lia.
    apply (IH T').
    + apply (Inv_add T T' B n L I).
      * apply HL. left. reflexivity.
      * exact Ha.
      * intros k. specialize (Hb 0%nat k ltac:(cbn; lia)). rewrite Nat.add_0_r in Hb. exact Hb.
    + intros L' H. apply HL. right. exact H.
    + reflexivity.
    + intros j k Hj. specialize (Hb (S j) k ltac:(cbn; lia)).
      replace (S n + j)%nat with (n + S j)%nat by lia. exact Hb.
Qed.

(* ------------------------------------------------------------------ the controlled-gate network *)
Section Ctrl.
  (** ncontrols = S m, ctrl_state = p0 :: pt with |pt| = m, ntargets = nt *)
  Variables (m nt : nat) (p0 : bool) (pt : list bool).
  Hypothesis Hpt : length pt = m.
  Let nc : nat := S m.
  Let cs : list Z := map b2z (p0 :: pt).
  (** number of bonds before the control chain *)
  Let B0 : nat := (2 * nt + (if p0 then 0 else 2))%nat.

  Definition mkx (j : nat) (a : list Z) : tensor := mkT (Z.of_nat j) [2; 2]%nat a REF_PauliX.
  Definition mkc (j : nat) (a : list Z) : tensor :=
    mkT (Z.of_nat j) [2; 2; 2; 2]%nat a (if nth (j - 1) pt false then REF_pos else REF_neg).

  (** the tensor dictionary in terms of the legs of each tensor *)
  Definition Traw (cb ob : list Z) (xs ccs : list (list Z)) : dict tensor :=
    (0, mkT 0 (2 :: repeat 2 (2 * nt))%nat cb REF_main)
    :: (-1, mkT (-1) (repeat 2 (2 * (nc + nt)))%nat ob REF_none)
    :: tens mkx nc xs ++ tens mkc 1 ccs.

  Lemma dkeys_Traw cb ob xs ccs :
    dkeys (Traw cb ob xs ccs) = 0 :: -1 :: map Z.of_nat (seq nc (length xs)) ++ map Z.of_nat (seq 1 (length ccs)).
  Proof.
    unfold Traw. change (dkeys ?a) with (map fst a). cbn [map fst]. f_equal. f_equal.
    change (map fst ?a) with (dkeys a). rewrite dkeys_app, !dkeys_tens. reflexivity.
  Qed.

  Lemma dget_Traw cb ob xs ccs k :
    dget k (Traw cb ob xs ccs) =
      if k =? 0 then Some (mkT 0 (2 :: repeat 2 (2 * nt))%nat cb REF_main)
      else if k =? -1 then Some (mkT (-1) (repeat 2 (2 * (nc + nt)))%nat ob REF_none)
      else if (Z.of_nat nc <=? k) && (k <? Z.of_nat (nc + length xs))
           then Some (mkx (Z.to_nat k) (nth (Z.to_nat k - nc) xs []))
      else if (1 <=? k) && (k <? Z.of_nat (1 + length ccs))
           then Some (mkc (Z.to_nat k) (nth (Z.to_nat k - 1) ccs []))
      else None.
  Proof.
    unfold Traw. cbn [dget]. destruct (Z.eqb k 0); [reflexivity|]. destruct (Z.eqb k (-1)); [reflexivity|].
    rewrite dget_app, !dget_tens.
    destruct ((Z.of_nat nc <=? k) && (k <? Z.of_nat (nc + length xs))); reflexivity.
  Qed.

  Lemma cT_Traw cb ob xs ccs k kb :
    cT (Traw cb ob xs ccs) k kb =
      if k =? 0 then zcount kb cb
      else if k =? -1 then zcount kb ob
      else if (Z.of_nat nc <=? k) && (k <? Z.of_nat (nc + length xs))
           then zcount kb (nth (Z.to_nat k - nc) xs [])
      else if (1 <=? k) && (k <? Z.of_nat (1 + length ccs))
           then zcount kb (nth (Z.to_nat k - 1) ccs [])
      else 0%nat.
  Proof.
    unfold cT. rewrite dget_Traw.
    destruct (k =? 0); [reflexivity|]. destruct (k =? -1); [reflexivity|].
    destruct ((Z.of_nat nc <=? k) && (k <? Z.of_nat (nc + length xs))); [reflexivity|].
    destruct ((1 <=? k) && (k <? Z.of_nat (1 + length ccs))); reflexivity.
  Qed.

  (** the primitives on Traw *)
  Lemma set_ctg cb ob xs ccs B n ok ax v :
    (ax < length cb)%nat ->
    set_bid (mkS (Traw cb ob xs ccs) B n ok) 0 (Z.of_nat ax) v
    = mkS (Traw (set_nth ax v cb) ob xs ccs) B n ok.
  Proof.
    intros H. erewrite set_bid_ok; [|rewrite dget_Traw; reflexivity|cbn [t_bids]; lia].
    cbn [Z.eqb t_bids]. rewrite Nat2Z.id. reflexivity.
  Qed.

  Lemma set_oax cb ob xs ccs B n ok ax v :
    (ax < length ob)%nat ->
    set_bid (mkS (Traw cb ob xs ccs) B n ok) (-1) (Z.of_nat ax) v
    = mkS (Traw cb (set_nth ax v ob) xs ccs) B n ok.
  Proof.
    intros H. erewrite set_bid_ok; [|rewrite dget_Traw; reflexivity|cbn [t_bids]; lia].
    cbn [Z.eqb t_bids]. rewrite Nat2Z.id. reflexivity.
  Qed.

  Lemma set_oax0 cb ob xs ccs B n ok v :
    (0 < length ob)%nat ->
    set_bid (mkS (Traw cb ob xs ccs) B n ok) (-1) 0 v
    = mkS (Traw cb (set_nth 0 v ob) xs ccs) B n ok.
  Proof. intros H. apply (set_oax cb ob xs ccs B n ok 0 v H). Qed.
  Lemma set_ctg0 cb ob xs ccs B n ok v :
    (0 < length cb)%nat ->
    set_bid (mkS (Traw cb ob xs ccs) B n ok) 0 0 v
    = mkS (Traw (set_nth 0 v cb) ob xs ccs) B n ok.
  Proof. intros H. apply (set_ctg cb ob xs ccs B n ok 0 v H). Qed.

  Lemma set_x cb ob xs ccs B n ok j ax v :
    (j < length xs)%nat -> (ax < length (nth j xs []))%nat ->
    set_bid (mkS (Traw cb ob xs ccs) B n ok) (Z.of_nat (nc + j)) (Z.of_nat ax) v
    = mkS (Traw cb ob (set_nth j (set_nth ax v (nth j xs [])) xs) ccs) B n ok.
  Proof.
    intros Hj H.
    assert (E : dget (Z.of_nat (nc + j)) (Traw cb ob xs ccs) = Some (mkx (nc + j) (nth j xs []))).
    { rewrite dget_Traw.
      destruct (Z.eqb_spec (Z.of_nat (nc + j)) 0); [unfold nc in *; lia|].
      destruct (Z.eqb_spec (Z.of_nat (nc + j)) (-1)); [lia|].
      destruct (Z.leb_spec (Z.of_nat nc) (Z.of_nat (nc + j))); [|lia].
      destruct (Z.ltb_spec (Z.of_nat (nc + j)) (Z.of_nat (nc + length xs))); [|lia].
      cbn [andb]. rewrite Nat2Z.id. replace (nc + j - nc)%nat with j by lia. reflexivity. }
    erewrite set_bid_ok; [|exact E|cbn [mkx t_bids]; lia].
    cbn [mkx t_bids]. rewrite Nat2Z.id. f_equal.
    unfold Traw. rewrite !dset_cons_ne by (unfold nc; lia). do 2 f_equal.
    rewrite dset_app_l by (rewrite dkeys_tens; apply in_map; apply in_seq; lia).
    f_equal. unfold set_bids. cbn [t_id t_shape t_ref].
    apply (dset_tens mkx nc xs j). exact Hj.
  Qed.

  Lemma set_cc cb ob xs ccs B n ok j ax v :
    (j < length ccs)%nat -> (length ccs <= m)%nat -> (ax < length (nth j ccs []))%nat ->
    set_bid (mkS (Traw cb ob xs ccs) B n ok) (Z.of_nat (1 + j)) (Z.of_nat ax) v
    = mkS (Traw cb ob xs (set_nth j (set_nth ax v (nth j ccs [])) ccs)) B n ok.
  Proof.
    intros Hj Hm H.
    assert (E : dget (Z.of_nat (1 + j)) (Traw cb ob xs ccs) = Some (mkc (1 + j) (nth j ccs []))).
    { rewrite dget_Traw.
      destruct (Z.eqb_spec (Z.of_nat (1 + j)) 0); [lia|].
      destruct (Z.eqb_spec (Z.of_nat (1 + j)) (-1)); [lia|].
      destruct (Z.leb_spec (Z.of_nat nc) (Z.of_nat (1 + j))); [unfold nc in *; lia|].
      cbn [andb].
      destruct (Z.leb_spec 1 (Z.of_nat (1 + j))); [|lia].
      destruct (Z.ltb_spec (Z.of_nat (1 + j)) (Z.of_nat (1 + length ccs))); [|lia].
      cbn [andb]. rewrite Nat2Z.id. replace (1 + j - 1)%nat with j by lia. reflexivity. }
    erewrite set_bid_ok; [|exact E|cbn [mkc t_bids]; lia].
    cbn [mkc t_bids]. rewrite Nat2Z.id. f_equal.
    unfold Traw. rewrite !dset_cons_ne by lia. do 2 f_equal.
    rewrite dset_app_r.
    2:{ rewrite dkeys_tens. intros Hin. apply in_map_iff in Hin. destruct Hin as [q [Eq Hq]].
        apply in_seq in Hq. unfold nc in *. lia. }
    f_equal. unfold set_bids. cbn [t_id t_shape t_ref].
    apply (dset_tens mkc 1 ccs j). exact Hj.
  Qed.

  Lemma set_x' cb ob xs ccs B n ok j ax v tid axz :
    tid = Z.of_nat (nc + j) -> axz = Z.of_nat ax ->
    (j < length xs)%nat -> (ax < length (nth j xs []))%nat ->
    set_bid (mkS (Traw cb ob xs ccs) B n ok) tid axz v
    = mkS (Traw cb ob (set_nth j (set_nth ax v (nth j xs [])) xs) ccs) B n ok.
  Proof. intros -> ->. apply set_x. Qed.
  Lemma set_cc' cb ob xs ccs B n ok j ax v tid axz :
    tid = Z.of_nat (1 + j) -> axz = Z.of_nat ax ->
    (j < length ccs)%nat -> (length ccs <= m)%nat -> (ax < length (nth j ccs []))%nat ->
    set_bid (mkS (Traw cb ob xs ccs) B n ok) tid axz v
    = mkS (Traw cb ob xs (set_nth j (set_nth ax v (nth j ccs [])) ccs)) B n ok.
  Proof. intros -> ->. apply set_cc. Qed.
  Lemma set_oax' cb ob xs ccs B n ok ax v axz :
    axz = Z.of_nat ax -> (ax < length ob)%nat ->
    set_bid (mkS (Traw cb ob xs ccs) B n ok) (-1) axz v
    = mkS (Traw cb (set_nth ax v ob) xs ccs) B n ok.
  Proof. intros ->. apply set_oax. Qed.

  Lemma new_x cb ob xs B n ok a tid :
    length a = 2%nat -> tid = Z.of_nat (nc + length xs) ->
    new_tensor (mkS (Traw cb ob xs []) B n ok) tid [2; 2]%nat a REF_PauliX
    = mkS (Traw cb ob (xs ++ [a]) []) B n ok.
  Proof.
    intros Ha ->. rewrite new_tensor_ok.
    - f_equal. unfold Traw. cbn [tens]. rewrite !app_nil_r, tens_app. reflexivity.
    - cbn [length]. congruence.
    - rewrite dget_Traw.
      destruct (Z.eqb_spec (Z.of_nat (nc + length xs)) 0); [unfold nc in *; lia|].
      destruct (Z.eqb_spec (Z.of_nat (nc + length xs)) (-1)); [lia|].
      destruct (Z.ltb_spec (Z.of_nat (nc + length xs)) (Z.of_nat (nc + length xs))); [lia|].
      rewrite andb_false_r. cbn [length Nat.add].
      destruct (Z.ltb_spec (Z.of_nat (nc + length xs)) (Z.of_nat 1)); [unfold nc in *; lia|].
      rewrite andb_false_r. reflexivity.
  Qed.

  Lemma new_cc cb ob xs ccs B n ok a tid shp ref :
    length a = 4%nat -> (length ccs < m)%nat -> (length xs <= 2)%nat ->
    tid = Z.of_nat (1 + length ccs) -> shp = [2; 2; 2; 2]%nat ->
    ref = (if nth (length ccs) pt false then REF_pos else REF_neg) ->
    new_tensor (mkS (Traw cb ob xs ccs) B n ok) tid shp a ref
    = mkS (Traw cb ob xs (ccs ++ [a])) B n ok.
  Proof.
    intros Ha Hm Hx -> -> ->. rewrite new_tensor_ok.
    - f_equal. unfold Traw. rewrite tens_app, !app_comm_cons, app_assoc.
      unfold mkc. replace (1 + length ccs - 1)%nat with (length ccs) by lia. reflexivity.
    - cbn [length]. congruence.
    - rewrite dget_Traw.
      destruct (Z.eqb_spec (Z.of_nat (1 + length ccs)) 0); [lia|].
      destruct (Z.eqb_spec (Z.of_nat (1 + length ccs)) (-1)); [lia|].
      destruct (Z.leb_spec (Z.of_nat nc) (Z.of_nat (1 + length ccs))); [unfold nc in *; lia|].
      cbn [andb].
      destruct (Z.ltb_spec (Z.of_nat (1 + length ccs)) (Z.of_nat (1 + length ccs))); [lia|].
      rewrite andb_false_r. reflexivity.
  Qed.

  (* ---------------------------------------------------------------- closed forms of the legs *)
  (** controlled target tensor: leg 0 = control leg c, legs 1..f filled with bonds 0..f-1 *)
  Definition ctgf (c : Z) (f : nat) : list Z :=
    map (fun p => if (p =? 0)%nat then c else if (p <=? f)%nat then Z.of_nat (p - 1)%nat else -1)
        (seq 0 (1 + 2 * nt)%nat).
  (** virtual tensor: o / i_ = legs of the first control (output / input); f1, f2 = number of
      filled target output / input legs; k1, k2 = number of filled cross-tensor output / input legs *)
  Definition oaxf (o i_ : Z) (f1 f2 k1 k2 : nat) (p : nat) : Z :=
    if (p =? 0)%nat then o
    else if (p <? nc)%nat then (if (p <=? k1)%nat then Z.of_nat (B0 + 3 * (p - 1))%nat else -1)
    else if (p <? nc + nt)%nat then (if (p - nc <? f1)%nat then Z.of_nat (p - nc)%nat else -1)
    else if (p =? nc + nt)%nat then i_
    else if (p <? nc + nt + nc)%nat
         then (if (p - (nc + nt) <=? k2)%nat then Z.of_nat (B0 + 3 * (p - (nc + nt) - 1) + 1)%nat else -1)
    else (if (p - (nc + nt + nc) <? f2)%nat then Z.of_nat (nt + (p - (nc + nt + nc)))%nat else -1).
  Definition oaxl (o i_ : Z) (f1 f2 k1 k2 : nat) : list Z :=
    map (oaxf o i_ f1 f2 k1 k2) (seq 0 (2 * (nc + nt))%nat).

  Lemma ctgf_length c f : length (ctgf c f) = (1 + 2 * nt)%nat.
  Proof. unfold ctgf. rewrite map_length, seq_length. reflexivity. Qed.
  Lemma oaxl_length o i_ f1 f2 k1 k2 : length (oaxl o i_ f1 f2 k1 k2) = (2 * (nc + nt))%nat.
  Proof. unfold oaxl. rewrite map_length, seq_length. reflexivity. Qed.

  Ltac cform :=
    unfold ctgf, oaxl; rewrite ?set_nth_map_seq by lia;
    apply map_ext_in; intros q Hq; apply in_seq in Hq; unfold oaxf; ncases.

  (** "position a holds the placeholder" / "the bond id n does not occur" on closed forms *)
  Ltac nthform :=
    rewrite ?nth_set_nth, ?set_nth_length, ?oaxl_length, ?ctgf_length; unfold ctgf, oaxl;
    rewrite ?nth_map_seq by lia; unfold oaxf; cbn [Nat.add]; ncases.
  (** zcount x (set_nth a v (... closed form)) by filling placeholders *)
  Ltac fills :=
    repeat (rewrite zcount_fill;
            [ | rewrite ?set_nth_length, ?oaxl_length, ?ctgf_length; lia | nthform | lia ]).
  Ltac smallcount := rewrite ?zcount_cons, ?zcount_nil.
  Ltac cntform := unfold ctgf, oaxl; apply zcount_map_seq_0; intros q Hq; unfold oaxf; ncases.

  (* ---------------------------------------------------------------- phase A: target output legs *)
  Definition PA (k : nat) (st : bst) : Prop :=
    exists B, st = mkS (Traw (ctgf (-1) k) (oaxl (-1) (-1) k 0 0 0) [] []) B (Z.of_nat k) true
              /\ Inv (Traw (ctgf (-1) k) (oaxl (-1) (-1) k 0 0 0) [] []) B k.

  Definition bodyA (i : Z) (st : bst) : bst :=
    let st := add_bond st (s_next st) [-1; 0] in
    let st := set_bid st 0 (1 + i) (s_next st) in
    let st := set_bid st (-1) (Z.of_nat nc + i) (s_next st) in
    let st := incr st in
    st.

  Lemma stepA k st : (k < nt)%nat -> PA k st -> PA (S k) (bodyA (Z.of_nat (0 + k)) st).
  Proof.
    intros Hk [B [-> I]]. unfold bodyA. cbn [Nat.add s_next].
    rewrite add_bond_ok by (cbn; try lia; apply (Inv_fresh' _ _ _ I)).
    cbn [s_next].
    replace (1 + Z.of_nat k) with (Z.of_nat (1 + k)) by lia.
    rewrite set_ctg by (rewrite ctgf_length; lia). cbn [s_next].
    replace (Z.of_nat nc + Z.of_nat k) with (Z.of_nat (nc + k)) by lia.
    rewrite set_oax by (rewrite oaxl_length; lia).
    rewrite incr_eq.
    assert (E1 : set_nth (1 + k) (Z.of_nat k) (ctgf (-1) k) = ctgf (-1) (S k)) by cform.
    assert (E2 : set_nth (nc + k) (Z.of_nat k) (oaxl (-1) (-1) k 0 0 0) = oaxl (-1) (-1) (S k) 0 0 0) by cform.
    exists (B ++ bonds_of k [[-1; 0]]). split.
    - rewrite E1, E2. reflexivity.
    - rewrite <- E1, <- E2. replace (S k) with (k + length [[-1; 0]%Z])%nat by (cbn [length]; lia).
      apply (Inv_adds _ _ _ _ _ I).
      + intros L [<-|[]]. cbn. lia.
      + intros k' kb Hkb. rewrite !cT_Traw.
        destruct (k' =? 0).
        { rewrite zcount_fill; [zcases | rewrite ctgf_length; lia | nthform | lia]. }
        destruct (k' =? -1).
        { rewrite zcount_fill; [zcases | rewrite oaxl_length; lia | nthform | lia]. }
        reflexivity.
      + intros [|j] k' Hj; [|cbn in Hj; lia]. rewrite Nat.add_0_r. cbn [nth]. rewrite !cT_Traw.
        rewrite !zcount_cons, zcount_nil. cbn [length Nat.add].
        destruct (Z.eqb_spec k' 0) as [->|N0].
        { rewrite zcount_fill; [|rewrite ctgf_length; lia | nthform | lia].
          rewrite Z.eqb_refl. replace (zcount (Z.of_nat k) (ctgf (-1) k)) with 0%nat by (symmetry; cntform). reflexivity. }
        destruct (Z.eqb_spec k' (-1)) as [->|N1].
        { rewrite zcount_fill; [|rewrite oaxl_length; lia | nthform | lia].
          rewrite Z.eqb_refl. replace (zcount (Z.of_nat k) (oaxl (-1) (-1) k 0 0 0)) with 0%nat by (symmetry; cntform). reflexivity. }
        zcases.
  Qed.

  (* ---------------------------------------------------------------- phase B: target input legs *)
  Definition PB (k : nat) (st : bst) : Prop :=
    exists B, st = mkS (Traw (ctgf (-1) (nt + k)) (oaxl (-1) (-1) nt k 0 0) [] []) B (Z.of_nat (nt + k)) true
              /\ Inv (Traw (ctgf (-1) (nt + k)) (oaxl (-1) (-1) nt k 0 0) [] []) B (nt + k).

  Definition bodyB (i : Z) (st : bst) : bst :=
    let st := add_bond st (s_next st) [-1; 0] in
    let st := set_bid st 0 (1 + Z.of_nat nt + i) (s_next st) in
    let st := set_bid st (-1) (2 * Z.of_nat nc + Z.of_nat nt + i) (s_next st) in
    let st := incr st in
    st.

  Lemma stepB k st : (k < nt)%nat -> PB k st -> PB (S k) (bodyB (Z.of_nat (0 + k)) st).
  Proof.
    intros Hk [B [-> I]]. unfold bodyB. cbn [Nat.add s_next].
    rewrite add_bond_ok by (cbn; try lia; apply (Inv_fresh' _ _ _ I)).
    cbn [s_next].
    replace (1 + Z.of_nat nt + Z.of_nat k) with (Z.of_nat (1 + nt + k)) by lia.
    rewrite set_ctg by (rewrite ctgf_length; lia). cbn [s_next].
    replace (2 * Z.of_nat nc + Z.of_nat nt + Z.of_nat k) with (Z.of_nat (nc + nt + nc + k)) by lia.
    rewrite set_oax by (rewrite oaxl_length; lia).
    rewrite incr_eq.
    assert (E1 : set_nth (1 + nt + k) (Z.of_nat (nt + k)) (ctgf (-1) (nt + k)) = ctgf (-1) (nt + S k)) by cform.
    assert (E2 : set_nth (nc + nt + nc + k) (Z.of_nat (nt + k)) (oaxl (-1) (-1) nt k 0 0) = oaxl (-1) (-1) nt (S k) 0 0) by cform.
    exists (B ++ bonds_of (nt + k) [[-1; 0]]). split.
    - rewrite E1, E2. replace (nt + S k)%nat with (S (nt + k)) by lia. reflexivity.
    - rewrite <- E1, <- E2. replace (nt + S k)%nat with (nt + k + length [[-1; 0]%Z])%nat by (cbn [length]; lia).
      apply (Inv_adds _ _ _ _ _ I).
      + intros L [<-|[]]. cbn. lia.
      + intros k' kb Hkb. rewrite !cT_Traw.
        destruct (k' =? 0); [fills; zcases|].
        destruct (k' =? -1); [fills; zcases|].
        reflexivity.
      + intros [|j] k' Hj; [|cbn in Hj; lia]. rewrite Nat.add_0_r. cbn [nth]. rewrite !cT_Traw.
        smallcount. cbn [length Nat.add].
        destruct (Z.eqb_spec k' 0) as [->|N0].
        { fills. rewrite Z.eqb_refl.
          replace (zcount (Z.of_nat (nt + k)) (ctgf (-1) (nt + k))) with 0%nat by (symmetry; cntform). reflexivity. }
        destruct (Z.eqb_spec k' (-1)) as [->|N1].
        { fills. rewrite Z.eqb_refl.
          replace (zcount (Z.of_nat (nt + k)) (oaxl (-1) (-1) nt k 0 0)) with 0%nat by (symmetry; cntform). reflexivity. }
        zcases.
  Qed.

  (* ---------------------------------------------------------------- Pauli-X sandwich of a negated first control *)
  (** legs of the first control on the virtual tensor, the X tensors, after the chain has
      been started (up = Some bond of the first vertical connection) or not (None) *)
  Definition o0 (up : option Z) : Z := if p0 then match up with Some u => u | None => -1 end else Z.of_nat (2 * nt).
  Definition i0 (up : option Z) : Z := if p0 then match up with Some u => u | None => -1 end else Z.of_nat (2 * nt + 1).
  Definition xs0 (up : option Z) : list (list Z) :=
    if p0 then []
    else let u := match up with Some u => u | None => -1 end in
         [[Z.of_nat (2 * nt); u]; [u; Z.of_nat (2 * nt + 1)]].

  Definition PX (st : bst) : Prop :=
    exists B, st = mkS (Traw (ctgf (-1) (2 * nt)) (oaxl (o0 None) (i0 None) nt nt 0 0) (xs0 None) []) B (Z.of_nat B0) true
              /\ Inv (Traw (ctgf (-1) (2 * nt)) (oaxl (o0 None) (i0 None) nt nt 0 0) (xs0 None) []) B B0.

  Definition blockX (st : bst) : bst :=
    let st := chk_idx cs 0 st in
    let st := if (csget cs 0 =? 0) then (
      let st := new_tensor st (Z.of_nat nc) [2%nat; 2%nat] [s_next st; -1] REF_PauliX in
      let st := add_bond st (s_next st) [-1; Z.of_nat nc] in
      let st := set_bid st (-1) 0 (s_next st) in
      let st := incr st in
      let st := new_tensor st (Z.of_nat nc + 1) [2%nat; 2%nat] [-1; s_next st] REF_PauliX in
      let st := add_bond st (s_next st) [-1; Z.of_nat nc + 1] in
      let st := set_bid st (-1) (Z.of_nat nc + Z.of_nat nt) (s_next st) in
      let st := incr st in
      st) else st in
    st.

  Lemma cs_length : length cs = nc.
  Proof. unfold cs, nc. cbn [map length]. rewrite map_length, Hpt. reflexivity. Qed.
  Lemma cs_0 : csget cs 0 = b2z p0.
  Proof. reflexivity. Qed.
  Lemma cs_S k : (k < m)%nat -> csget cs (Z.of_nat (S k)) = b2z (nth k pt false).
  Proof.
    intros H. unfold csget, cs. rewrite Nat2Z.id. cbn [map nth].
    rewrite (nth_indep _ 0 (b2z false)) by (rewrite map_length; lia). apply map_nth.
  Qed.
  Lemma chk_idx_ok e st : 0 <= e < Z.of_nat nc -> chk_idx cs e st = st.
  Proof. intros H. unfold chk_idx. rewrite cs_length. zcases. Qed.

  Lemma stepX st : PB nt st -> PX (blockX st).
  Proof.
    intros [B [-> I]]. unfold blockX. rewrite chk_idx_ok by (unfold nc; lia). rewrite cs_0.
    unfold PX, o0, i0, xs0.
    assert (EB : B0 = (2 * nt + (if p0 then 0 else 2))%nat) by reflexivity.
    replace (nt + nt)%nat with (2 * nt)%nat in * by lia.
    destruct (Bool.bool_dec p0 true) as [Ep|Ep]; [|apply Bool.not_true_is_false in Ep]; rewrite Ep; rewrite Ep in EB;
      cbn [b2z Z.eqb]; rewrite EB.
    - exists B. rewrite Nat.add_0_r. split; [reflexivity | exact I].
    - cbn [s_next].
      rewrite new_x by (try reflexivity; cbn [length]; lia). cbn [app s_next].
      rewrite add_bond_ok by (cbn; try lia; apply (Inv_fresh' _ _ _ I)). cbn [s_next].
      rewrite set_oax0 by (rewrite oaxl_length; unfold nc; lia). rewrite incr_eq. cbn [s_next].
      rewrite new_x by (try reflexivity; cbn [length]; lia). cbn [app s_next].
      assert (F2 : dget (Z.of_nat (S (2 * nt))) (B ++ [(Z.of_nat (2 * nt), mkB (Z.of_nat (2 * nt)) (zsort [-1; Z.of_nat nc]))]) = None).
      { rewrite dget_app, (Inv_fresh'' _ _ _ _ I) by lia. rewrite dget_cons_ne by lia. reflexivity. }
      rewrite add_bond_ok by (cbn; try lia; exact F2). cbn [s_next].
      replace (Z.of_nat nc + Z.of_nat nt) with (Z.of_nat (nc + nt)) by lia.
      rewrite set_oax by (rewrite set_nth_length, oaxl_length; unfold nc; lia). rewrite incr_eq.
      set (ob' := set_nth (nc + nt) (Z.of_nat (S (2 * nt))) (set_nth 0 (Z.of_nat (2 * nt)) (oaxl (-1) (-1) nt nt 0 0))).
      assert (E2 : ob' = oaxl (Z.of_nat (2 * nt)) (Z.of_nat (2 * nt + 1)) nt nt 0 0) by (subst ob'; unfold nc; cform).
      cbn [length Nat.add].
      exists ((B ++ [(Z.of_nat (2 * nt), mkB (Z.of_nat (2 * nt)) (zsort [-1; Z.of_nat nc]))])
              ++ [(Z.of_nat (S (2 * nt)), mkB (Z.of_nat (S (2 * nt))) (zsort [-1; Z.of_nat (nc + 1)]))]).
      split.
      + rewrite E2. repeat f_equal; lia.
      + rewrite <- E2.
        replace (Z.of_nat (2 * nt + 1)) with (Z.of_nat (S (2 * nt))) by lia.
        rewrite <- app_assoc.
        change ([(Z.of_nat (2 * nt), mkB (Z.of_nat (2 * nt)) (zsort [-1; Z.of_nat nc]))] ++
                [(Z.of_nat (S (2 * nt)), mkB (Z.of_nat (S (2 * nt))) (zsort [-1; Z.of_nat (nc + 1)]))])
          with (bonds_of (2 * nt) [[-1; Z.of_nat nc]; [-1; Z.of_nat (nc + 1)]]).
        replace (2 * nt + 2)%nat with (2 * nt + length [[-1; Z.of_nat nc]%Z; [-1; Z.of_nat (nc + 1)]%Z])%nat by (cbn [length]; lia).
        apply (Inv_adds _ _ _ _ _ I).
        * intros L [<-|[<-|[]]]; cbn; lia.
        * intros k' kb Hkb. rewrite !cT_Traw. cbn [length Nat.add].
          destruct (k' =? 0); [reflexivity|].
          destruct (k' =? -1); [subst ob'; fills; zcases|].
          rewrite Nat.add_0_r.
          destruct (Z.leb_spec (Z.of_nat nc) k'); cbn [andb].
          2:{ destruct (Z.ltb_spec k' (Z.of_nat nc)); [|lia]. cbn [andb]. reflexivity. }
          destruct (Z.ltb_spec k' (Z.of_nat nc)); [lia|]. cbn [andb].
          destruct (Z.ltb_spec k' (Z.of_nat (nc + 2))); cbn [andb].
          { assert (Q : (Z.to_nat k' - nc = 0 \/ Z.to_nat k' - nc = 1)%nat) by lia.
            destruct Q as [-> | ->]; cbn [nth]; smallcount; zcases.
            all: destruct (Z.leb_spec 1 k'); destruct (Z.ltb_spec k' 1); cbn [andb]; try lia; reflexivity. }
          reflexivity.
        * intros j k' Hj. cbn [length] in Hj. rewrite !cT_Traw. cbn [length Nat.add].
          assert (C0 : forall x, Z.of_nat (2 * nt) <= x -> zcount x (ctgf (-1) (2 * nt)) = 0%nat) by (intros x Hx; cntform).
          assert (Q : (j = 0 \/ j = 1)%nat) by lia.
          destruct Q as [-> | ->]; cbn [nth]; smallcount.
          -- rewrite Nat.add_0_r.
             destruct (Z.eqb_spec k' 0) as [->|N0]; [rewrite C0 by lia; unfold nc; zcases|].
             destruct (Z.eqb_spec k' (-1)) as [->|N1].
             { subst ob'. fills. replace (zcount (Z.of_nat (2 * nt)) (oaxl (-1) (-1) nt nt 0 0)) with 0%nat by (symmetry; cntform).
               unfold nc; zcases. }
             destruct (Z.leb_spec (Z.of_nat nc) k'); destruct (Z.ltb_spec k' (Z.of_nat (nc + 2))); cbn [andb].
             { assert (Q : (Z.to_nat k' - nc = 0 \/ Z.to_nat k' - nc = 1)%nat) by lia.
               destruct Q as [Q | Q]; rewrite Q; cbn [nth]; smallcount; zcases. }
             all: destruct (Z.leb_spec 1 k'); destruct (Z.ltb_spec k' 1); cbn [andb]; zcases.
          -- destruct (Z.eqb_spec k' 0) as [->|N0]; [rewrite C0 by lia; unfold nc; zcases|].
             destruct (Z.eqb_spec k' (-1)) as [->|N1].
             { subst ob'. fills. replace (zcount (Z.of_nat (2 * nt + 1)) (oaxl (-1) (-1) nt nt 0 0)) with 0%nat by (symmetry; cntform).
               unfold nc; zcases. }
             destruct (Z.leb_spec (Z.of_nat nc) k'); destruct (Z.ltb_spec k' (Z.of_nat (nc + 2))); cbn [andb].
             { assert (Q : (Z.to_nat k' - nc = 0 \/ Z.to_nat k' - nc = 1)%nat) by lia.
               destruct Q as [Q | Q]; rewrite Q; cbn [nth]; smallcount; zcases. }
             all: destruct (Z.leb_spec 1 k'); destruct (Z.ltb_spec k' 1); cbn [andb]; zcases.
  Qed.

  (* ---------------------------------------------------------------- phase C: the chain of cross tensors *)
  (** bond of the first vertical connection (third bond of the first loop iteration) *)
  Definition up1 : Z := Z.of_nat (B0 + 2).
  Definition upk (k : nat) : option Z := if (k =? 0)%nat then None else Some up1.
  (** legs of cross tensor j+1 (output wire, input wire, upward, downward) when k tensors exist:
      the downward leg of the last one is [last] *)
  Definition ccrow (k : nat) (last : Z) (j : nat) : list Z :=
    [Z.of_nat (B0 + 3 * j)%nat; Z.of_nat (B0 + 3 * j + 1)%nat; Z.of_nat (B0 + 3 * j + 2)%nat;
     if (S j <? k)%nat then Z.of_nat (B0 + 3 * (S j) + 2)%nat else last].
  Definition ccl (k : nat) (last : Z) : list (list Z) := map (ccrow k last) (seq 0 k).
  Lemma ccl_length k last : length (ccl k last) = k.
  Proof. unfold ccl. rewrite map_length, seq_length. reflexivity. Qed.

  (** the state in closed form: c = control leg of the target tensor, u = first vertical bond
      if already present, k cross tensors, the last with downward leg [last] *)
  Definition Tform (c : Z) (u : option Z) (k : nat) (last : Z) : dict tensor :=
    Traw (ctgf c (2 * nt)) (oaxl (o0 u) (i0 u) nt nt k k) (xs0 u) (ccl k last).

  Lemma xs0_length u : length (xs0 u) = if p0 then 0%nat else 2%nat.
  Proof. unfold xs0. destruct p0; reflexivity. Qed.

  Lemma cT_Tform c u k last k' kb : (k <= m)%nat ->
    cT (Tform c u k last) k' kb =
      if k' =? 0 then zcount kb (ctgf c (2 * nt))
      else if k' =? -1 then zcount kb (oaxl (o0 u) (i0 u) nt nt k k)
      else if negb p0 && (k' =? Z.of_nat nc) then zcount kb [Z.of_nat (2 * nt); match u with Some v => v | None => -1 end]
      else if negb p0 && (k' =? Z.of_nat nc + 1) then zcount kb [match u with Some v => v | None => -1 end; Z.of_nat (2 * nt + 1)]
      else if (1 <=? k') && (k' <=? Z.of_nat k) then zcount kb (ccrow k last (Z.to_nat k' - 1))
      else 0%nat.
  Proof.
    intros Hk. unfold Tform. rewrite cT_Traw, ccl_length, xs0_length.
    destruct (Z.eqb_spec k' 0); [reflexivity|]. destruct (Z.eqb_spec k' (-1)); [reflexivity|].
    unfold xs0.
    destruct (Bool.bool_dec p0 true) as [Ep|Ep]; [|apply Bool.not_true_is_false in Ep]; rewrite Ep; cbn [negb andb].
    - rewrite Nat.add_0_r.
      destruct (Z.leb_spec (Z.of_nat nc) k'), (Z.ltb_spec k' (Z.of_nat nc)); cbn [andb]; try lia.
      + destruct (Z.leb_spec 1 k'), (Z.ltb_spec k' (Z.of_nat (1 + k))), (Z.leb_spec k' (Z.of_nat k)); cbn [andb]; try (unfold nc in *; lia); reflexivity.
      + destruct (Z.leb_spec 1 k'), (Z.ltb_spec k' (Z.of_nat (1 + k))), (Z.leb_spec k' (Z.of_nat k)); cbn [andb]; try lia; try reflexivity.
        unfold ccl. rewrite nth_map_seq by lia. reflexivity.
    - destruct (Z.eqb_spec k' (Z.of_nat nc)) as [->|N2].
      { destruct (Z.leb_spec (Z.of_nat nc) (Z.of_nat nc)), (Z.ltb_spec (Z.of_nat nc) (Z.of_nat (nc + 2))); cbn [andb]; try lia.
        rewrite Nat2Z.id, Nat.sub_diag. reflexivity. }
      destruct (Z.eqb_spec k' (Z.of_nat nc + 1)) as [->|N3].
      { destruct (Z.leb_spec (Z.of_nat nc) (Z.of_nat nc + 1)), (Z.ltb_spec (Z.of_nat nc + 1) (Z.of_nat (nc + 2))); cbn [andb]; try lia.
        replace (Z.to_nat (Z.of_nat nc + 1) - nc)%nat with 1%nat by lia. reflexivity. }
      destruct (Z.leb_spec (Z.of_nat nc) k'), (Z.ltb_spec k' (Z.of_nat (nc + 2))); cbn [andb]; try lia.
      + destruct (Z.leb_spec 1 k'), (Z.ltb_spec k' (Z.of_nat (1 + k))), (Z.leb_spec k' (Z.of_nat k)); cbn [andb]; try (unfold nc in *; lia); reflexivity.
      + destruct (Z.leb_spec 1 k'), (Z.ltb_spec k' (Z.of_nat (1 + k))), (Z.leb_spec k' (Z.of_nat k)); cbn [andb]; try lia; try reflexivity.
        unfold ccl. rewrite nth_map_seq by lia. reflexivity.
  Qed.

  Definition PC (k : nat) (st : bst) : Prop :=
    exists B, st = mkS (Tform (-1) (upk k) k (-1)) B (Z.of_nat (B0 + 3 * k)) true
              /\ Inv (Tform (-1) (upk k) k (-1)) B (B0 + 3 * k).

  Lemma PX_PC0 st : PX st -> PC 0 st.
  Proof.
    intros [B [-> I]]. exists B. unfold Tform, upk, ccl. cbn [Nat.eqb seq map].
    rewrite Nat.mul_0_r, Nat.add_0_r. split; [reflexivity | exact I].
  Qed.

  Definition preC (i : Z) (st : bst) : bst :=
    let st := chk_idx cs i st in
    let j := csget cs i in
    let st := new_tensor st i (nth (Z.to_nat j) [[2%nat; 2%nat; 2%nat; 2%nat]; [2%nat; 2%nat; 2%nat; 2%nat]] []) [s_next st; s_next st + 1; -1; -1] (nth (Z.to_nat j) [REF_neg; REF_pos] REF_bad) in
    let st := add_bond st (s_next st) [-1; i] in
    let st := set_bid st (-1) i (s_next st) in
    let st := incr st in
    let st := add_bond st (s_next st) [-1; i] in
    let st := set_bid st (-1) (Z.of_nat nc + Z.of_nat nt + i) (s_next st) in
    let st := incr st in
    st.

  Definition tailC (i : Z) (st : bst) : bst :=
    let st := if (i =? 1) then (
      let st := chk_idx cs 0 st in
      let st := if (csget cs 0 =? 1) then (
        let st := add_bond st (s_next st) [-1; -1; i] in
        let st := set_bid st (-1) 0 (s_next st) in
        let st := set_bid st (-1) (Z.of_nat nc + Z.of_nat nt) (s_next st) in
        let st := set_bid st i 2 (s_next st) in
        let st := incr st in
        st) else (
        let st := add_bond st (s_next st) [Z.of_nat nc; Z.of_nat nc + 1; i] in
        let st := set_bid st (Z.of_nat nc) 1 (s_next st) in
        let st := set_bid st (Z.of_nat nc + 1) 0 (s_next st) in
        let st := set_bid st i 2 (s_next st) in
        let st := incr st in
        st) in
      st) else (
      let st := add_bond st (s_next st) [i - 1; i] in
      let st := set_bid st (i - 1) 3 (s_next st) in
      let st := set_bid st i 2 (s_next st) in
      let st := incr st in
      st) in
    st.

  Lemma xs0_le2 u : (length (xs0 u) <= 2)%nat.
  Proof. rewrite xs0_length. destruct p0; lia. Qed.

  Lemma preC_eq k u B cb ob :
    (k < m)%nat -> length ob = (2 * (nc + nt))%nat ->
    dget (Z.of_nat (B0 + 3 * k)) B = None -> dget (Z.of_nat (S (B0 + 3 * k))) B = None ->
    preC (Z.of_nat (S k)) (mkS (Traw cb ob (xs0 u) (ccl k (-1))) B (Z.of_nat (B0 + 3 * k)) true)
    = mkS (Traw cb (set_nth (nc + nt + S k) (Z.of_nat (S (B0 + 3 * k))) (set_nth (S k) (Z.of_nat (B0 + 3 * k)) ob))
                (xs0 u) (ccl k (-1) ++ [[Z.of_nat (B0 + 3 * k); Z.of_nat (B0 + 3 * k) + 1; -1; -1]]))
          (B ++ bonds_of (B0 + 3 * k) [[-1; Z.of_nat (S k)]; [-1; Z.of_nat (S k)]])
          (Z.of_nat (S (S (B0 + 3 * k)))) true.
  Proof.
    intros Hk Hob F1 F2. unfold preC. rewrite chk_idx_ok by (unfold nc; lia). rewrite (cs_S k Hk).
    cbn [s_next].
    rewrite new_cc;
      [ | reflexivity | rewrite ccl_length; exact Hk | apply xs0_le2 | rewrite ccl_length; reflexivity
        | destruct (nth k pt false); reflexivity | rewrite ccl_length; destruct (nth k pt false); reflexivity ].
    cbn [s_next].
    rewrite add_bond_ok by (cbn [length]; try lia; exact F1). cbn [s_next].
    rewrite set_oax by (rewrite Hob; unfold nc; lia). rewrite incr_eq. cbn [s_next].
    rewrite add_bond_ok.
    2:{ cbn [length]. lia. }
    2:{ rewrite dget_app, F2. rewrite dget_cons_ne by lia. reflexivity. }
    cbn [s_next].
    rewrite (set_oax' _ _ _ _ _ _ _ (nc + nt + S k)) by (try lia; rewrite set_nth_length, Hob; unfold nc; lia).
    rewrite incr_eq. rewrite <- app_assoc. reflexivity.
  Qed.

  Lemma tailC_first_pos cb ob xs row B n :
    p0 = true -> (1 <= m)%nat -> length ob = (2 * (nc + nt))%nat -> length row = 4%nat ->
    dget (Z.of_nat n) B = None ->
    tailC 1 (mkS (Traw cb ob xs [row]) B (Z.of_nat n) true)
    = mkS (Traw cb (set_nth (nc + nt) (Z.of_nat n) (set_nth 0 (Z.of_nat n) ob)) xs [set_nth 2 (Z.of_nat n) row])
          (B ++ [(Z.of_nat n, mkB (Z.of_nat n) (zsort [-1; -1; 1]))]) (Z.of_nat (S n)) true.
  Proof.
    intros Ep Hm Hob Hrow F. unfold tailC. cbn [Z.eqb Pos.eqb]. rewrite chk_idx_ok by (unfold nc; lia).
    rewrite cs_0, Ep. cbn [b2z Z.eqb Pos.eqb s_next].
    rewrite add_bond_ok by (cbn [length]; try lia; exact F). cbn [s_next].
    rewrite set_oax0 by (rewrite Hob; unfold nc; lia).
    rewrite (set_oax' _ _ _ _ _ _ _ (nc + nt)) by (try lia; rewrite set_nth_length, Hob; unfold nc; lia).
    rewrite (set_cc' _ _ _ _ _ _ _ 0 2) by (cbn [length nth]; try lia; reflexivity).
    rewrite incr_eq. reflexivity.
  Qed.

  Lemma tailC_first_neg cb ob a b row B n :
    p0 = false -> (1 <= m)%nat -> length a = 2%nat -> length b = 2%nat -> length row = 4%nat ->
    dget (Z.of_nat n) B = None ->
    tailC 1 (mkS (Traw cb ob [a; b] [row]) B (Z.of_nat n) true)
    = mkS (Traw cb ob [set_nth 1 (Z.of_nat n) a; set_nth 0 (Z.of_nat n) b] [set_nth 2 (Z.of_nat n) row])
          (B ++ [(Z.of_nat n, mkB (Z.of_nat n) (zsort [Z.of_nat nc; Z.of_nat nc + 1; 1]))]) (Z.of_nat (S n)) true.
  Proof.
    intros Ep Hm Ha Hb Hrow F. unfold tailC. cbn [Z.eqb Pos.eqb]. rewrite chk_idx_ok by (unfold nc; lia).
    rewrite cs_0, Ep. cbn [b2z Z.eqb Pos.eqb s_next].
    rewrite add_bond_ok by (cbn [length]; try lia; exact F). cbn [s_next].
    rewrite (set_x' _ _ _ _ _ _ _ 0 1) by (cbn [length nth]; lia).
    rewrite (set_x' _ _ _ _ _ _ _ 1 0) by (cbn [length nth set_nth]; lia).
    rewrite (set_cc' _ _ _ _ _ _ _ 0 2) by (cbn [length nth]; try lia; reflexivity).
    rewrite incr_eq. reflexivity.
  Qed.

  Lemma tailC_next k' cb ob xs ccs row B n :
    (S k' < m)%nat -> length ccs = S k' -> length (nth k' ccs []) = 4%nat -> length row = 4%nat ->
    dget (Z.of_nat n) B = None ->
    tailC (Z.of_nat (S (S k'))) (mkS (Traw cb ob xs (ccs ++ [row])) B (Z.of_nat n) true)
    = mkS (Traw cb ob xs
             (set_nth k' (set_nth 3 (Z.of_nat n) (nth k' ccs [])) ccs ++ [set_nth 2 (Z.of_nat n) row]))
          (B ++ [(Z.of_nat n, mkB (Z.of_nat n) (zsort [Z.of_nat (S (S k')) - 1; Z.of_nat (S (S k'))]))])
          (Z.of_nat (S n)) true.
  Proof.
    intros Hm Hc Hr Hrow F. unfold tailC.
    destruct (Z.eqb_spec (Z.of_nat (S (S k'))) 1); [lia|]. cbn [s_next].
    rewrite add_bond_ok by (cbn [length]; try lia; exact F). cbn [s_next].
    rewrite (set_cc' _ _ _ _ _ _ _ k' 3).
    2: lia. 2: reflexivity. 2: rewrite app_length, Hc; cbn [length]; lia.
    2: rewrite app_length, Hc; cbn [length]; lia.
    2: rewrite app_nth1 by lia; lia.
    rewrite (set_cc' _ _ _ _ _ _ _ (S k') 2).
    2: lia. 2: reflexivity. 2: rewrite set_nth_length, app_length, Hc; cbn [length]; lia.
    2: rewrite set_nth_length, app_length, Hc; cbn [length]; lia.
    2:{ rewrite nth_set_nth. destruct (Nat.eqb_spec (S k') k'); [lia|].
        rewrite app_nth2 by lia. rewrite Hc, Nat.sub_diag. cbn [nth]. lia. }
    rewrite incr_eq. f_equal. f_equal.
    (* the two row updates, in terms of ccs and row *)
    rewrite app_nth1 by lia.
    assert (Q1 : set_nth k' (set_nth 3 (Z.of_nat n) (nth k' ccs [])) (ccs ++ [row])
                 = set_nth k' (set_nth 3 (Z.of_nat n) (nth k' ccs [])) ccs ++ [row]).
    { clear -Hc. revert k' Hc. induction ccs as [|x l IH]; intros k' Hc; [discriminate|].
      destruct k' as [|k']; [reflexivity|]. cbn [set_nth app]. f_equal. cbn [length] in Hc.
      destruct l as [|y l']; [discriminate|]. apply IH. cbn [length] in *. lia. }
    rewrite Q1.
    rewrite app_nth2 by (rewrite set_nth_length; lia). rewrite set_nth_length, Hc, Nat.sub_diag. cbn [nth].
    set (R := set_nth k' (set_nth 3 (Z.of_nat n) (nth k' ccs [])) ccs).
    assert (HR : length R = S k') by (subst R; rewrite set_nth_length; exact Hc).
    clearbody R. clear -HR. revert k' HR. induction R as [|x l IH]; intros k' HR; [discriminate|].
    cbn [length] in HR. destruct l as [|y l'].
    - assert (k' = 0%nat) by (cbn in HR; lia). subst. reflexivity.
    - destruct k' as [|k'']; [cbn in HR; lia|]. cbn [app set_nth]. f_equal. apply IH. cbn [length] in *. lia.
  Qed.

  (** third bond of iteration k+1 *)
  Definition L3 (k : nat) : list Z :=
    if (k =? 0)%nat then (if p0 then [-1; -1; 1] else [Z.of_nat nc; Z.of_nat nc + 1; 1])
    else [Z.of_nat (S k) - 1; Z.of_nat (S k)].

  Lemma oaxl_step k : (k < m)%nat ->
    oaxl (o0 (upk (S k))) (i0 (upk (S k))) nt nt (S k) (S k)
    = let X := set_nth (nc + nt + S k) (Z.of_nat (S (B0 + 3 * k))) (set_nth (S k) (Z.of_nat (B0 + 3 * k))
                 (oaxl (o0 (upk k)) (i0 (upk k)) nt nt k k)) in
      if p0 && (k =? 0)%nat then set_nth (nc + nt) (Z.of_nat (B0 + 3 * k + 2)) (set_nth 0 (Z.of_nat (B0 + 3 * k + 2)) X) else X.
  Proof.
    intros Hk. cbv zeta. unfold o0, i0, upk, up1.
    destruct (Bool.bool_dec p0 true) as [Ep|Ep]; [|apply Bool.not_true_is_false in Ep]; rewrite Ep; cbn [andb].
    - destruct k as [|k']; cbn [Nat.eqb]; symmetry; unfold nc in *; cform.
    - symmetry. unfold nc in *. cform.
  Qed.

  Lemma oax_cnt k kb : (k < m)%nat -> 0 <= kb ->
    zcount kb (oaxl (o0 (upk (S k))) (i0 (upk (S k))) nt nt (S k) (S k))
    = (zcount kb (oaxl (o0 (upk k)) (i0 (upk k)) nt nt k k)
       + (if Z.eqb kb (Z.of_nat (B0 + 3 * k)) then 1 else 0) + (if Z.eqb kb (Z.of_nat (S (B0 + 3 * k))) then 1 else 0)
       + (if p0 && (k =? 0)%nat then (if Z.eqb kb (Z.of_nat (B0 + 3 * k + 2)) then 2 else 0) else 0))%nat.
  Proof.
    intros Hk Hkb. rewrite (oaxl_step k Hk). cbv zeta.
    destruct (Bool.bool_dec p0 true) as [Ep|Ep]; [|apply Bool.not_true_is_false in Ep]; rewrite Ep; cbn [andb].
    - destruct k as [|k']; cbn [Nat.eqb].
      + unfold o0, i0, upk. rewrite Ep. cbn [Nat.eqb]. unfold nc in *. fills. zcases.
      + unfold nc in *. fills. zcases.
    - unfold nc in *. fills. zcases.
  Qed.

  Ltac p0cases :=
    destruct (Bool.bool_dec p0 true) as [Ep|Ep]; [|apply Bool.not_true_is_false in Ep]; rewrite ?Ep; cbn [negb andb];
    [ assert (EB : B0 = (2 * nt)%nat) by (unfold B0; rewrite Ep; lia)
    | assert (EB : B0 = (2 * nt + 2)%nat) by (unfold B0; rewrite Ep; lia) ].

  Lemma ccrow_cnt_a k j kb : (j <= k)%nat -> 0 <= kb < Z.of_nat (B0 + 3 * k) ->
    zcount kb (ccrow (S k) (-1) j) = if (j <? k)%nat then zcount kb (ccrow k (-1) j) else 0%nat.
  Proof.
    intros Hj Hkb. unfold ccrow. smallcount.
    destruct (Nat.ltb_spec j k).
    - destruct (Nat.ltb_spec (S j) (S k)); [|lia]. destruct (Nat.ltb_spec (S j) k); zcases.
    - assert (j = k) by lia. subst j. destruct (Nat.ltb_spec (S k) (S k)); [lia|]. zcases.
  Qed.

  Lemma ccrow_cnt_b k j d : (j <= k)%nat -> (k < m)%nat -> (d < 3)%nat ->
    zcount (Z.of_nat (B0 + 3 * k + d)) (ccrow (S k) (-1) j)
    = zcount (Z.of_nat (S j)) (nth d [[-1; Z.of_nat (S k)]; [-1; Z.of_nat (S k)]; L3 k] []).
  Proof.
    intros Hj Hk Hd. unfold ccrow, L3.
    assert (Q : (d = 0 \/ d = 1 \/ d = 2)%nat) by lia.
    destruct (Nat.ltb_spec (S j) (S k)).
    - destruct Q as [-> | [-> | ->]]; cbn [nth]; smallcount.
      + zcases.
      + zcases.
      + destruct k as [|k']; [lia|]. cbn [Nat.eqb]. smallcount. zcases.
    - assert (j = k) by lia. subst j.
      destruct Q as [-> | [-> | ->]]; cbn [nth]; smallcount.
      + zcases.
      + zcases.
      + destruct k as [|k']; cbn [Nat.eqb].
        * p0cases; smallcount; unfold nc in *; zcases.
        * smallcount. zcases.
  Qed.

  Lemma stepC_inv k B : (k < m)%nat ->
    Inv (Tform (-1) (upk k) k (-1)) B (B0 + 3 * k) ->
    Inv (Tform (-1) (upk (S k)) (S k) (-1))
        (B ++ bonds_of (B0 + 3 * k) [[-1; Z.of_nat (S k)]; [-1; Z.of_nat (S k)]; L3 k]) (B0 + 3 * S k).
  Proof.
    intros Hk I.
    replace (B0 + 3 * S k)%nat with (B0 + 3 * k + length [[-1; Z.of_nat (S k)]%Z; [-1; Z.of_nat (S k)]%Z; L3 k])%nat
      by (cbn [length]; lia).
    apply (Inv_adds _ _ _ _ _ I).
    - intros L [<-|[<-|[<-|[]]]]; cbn [length]; try lia.
      unfold L3. destruct (k =? 0)%nat; [p0cases|]; cbn [length]; lia.
    - intros k' kb Hkb. rewrite !cT_Tform by lia.
      destruct (Z.eqb_spec k' 0); [reflexivity|].
      destruct (Z.eqb_spec k' (-1)).
      { rewrite oax_cnt by lia. destruct (p0 && (k =? 0)%nat); zcases. }
      p0cases.
      + destruct (Z.leb_spec 1 k'); cbn [andb]; [|reflexivity].
        destruct (Z.leb_spec k' (Z.of_nat (S k))); [|destruct (Z.leb_spec k' (Z.of_nat k)); [lia | reflexivity]].
        rewrite ccrow_cnt_a by lia.
        destruct (Nat.ltb_spec (Z.to_nat k' - 1) k), (Z.leb_spec k' (Z.of_nat k)); try lia; reflexivity.
      + destruct (Z.eqb_spec k' (Z.of_nat nc)).
        { unfold upk, up1. destruct k; cbn [Nat.eqb]; smallcount; zcases. }
        destruct (Z.eqb_spec k' (Z.of_nat nc + 1)).
        { unfold upk, up1. destruct k; cbn [Nat.eqb]; smallcount; zcases. }
        destruct (Z.leb_spec 1 k'); cbn [andb]; [|reflexivity].
        destruct (Z.leb_spec k' (Z.of_nat (S k))); [|destruct (Z.leb_spec k' (Z.of_nat k)); [lia | reflexivity]].
        rewrite ccrow_cnt_a by lia.
        destruct (Nat.ltb_spec (Z.to_nat k' - 1) k), (Z.leb_spec k' (Z.of_nat k)); try lia; reflexivity.
    - intros d k' Hd. cbn [length] in Hd. rewrite cT_Tform by lia.
      assert (C0 : zcount (Z.of_nat (B0 + 3 * k + d)) (ctgf (-1) (2 * nt)) = 0%nat) by cntform.
      assert (Q : (d = 0 \/ d = 1 \/ d = 2)%nat) by lia.
      destruct (Z.eqb_spec k' 0) as [->|N0].
      { rewrite C0. unfold L3. destruct Q as [-> | [-> | ->]]; cbn [nth]; smallcount; try zcases.
        destruct k; cbn [Nat.eqb]; [p0cases|]; smallcount; unfold nc in *; zcases. }
      destruct (Z.eqb_spec k' (-1)) as [->|N1].
      { rewrite oax_cnt by lia.
        replace (zcount (Z.of_nat (B0 + 3 * k + d)) (oaxl (o0 (upk k)) (i0 (upk k)) nt nt k k)) with 0%nat.
        2:{ symmetry. unfold o0, i0, upk, up1. p0cases; destruct k; cbn [Nat.eqb]; cntform. }
        unfold L3. destruct Q as [-> | [-> | ->]]; cbn [nth]; smallcount.
        - destruct (p0 && (k =? 0)%nat); zcases.
        - destruct (p0 && (k =? 0)%nat); zcases.
        - destruct k; cbn [Nat.eqb]; [p0cases|rewrite andb_false_r]; smallcount; unfold nc in *; zcases. }
      p0cases.
      + destruct (Z.leb_spec 1 k'), (Z.leb_spec k' (Z.of_nat (S k))); cbn [andb].
        * rewrite ccrow_cnt_b by lia. replace (Z.of_nat (S (Z.to_nat k' - 1))) with k' by lia. reflexivity.
        * unfold L3. destruct Q as [-> | [-> | ->]]; cbn [nth]; smallcount; try zcases.
          destruct k; cbn [Nat.eqb]; rewrite ?Ep; smallcount; zcases.
        * unfold L3. destruct Q as [-> | [-> | ->]]; cbn [nth]; smallcount; try zcases.
          destruct k; cbn [Nat.eqb]; rewrite ?Ep; smallcount; zcases.
        * lia.
      + destruct (Z.eqb_spec k' (Z.of_nat nc)) as [->|N2].
        { unfold upk, up1, L3. destruct Q as [-> | [-> | ->]]; cbn [nth]; destruct k; cbn [Nat.eqb]; rewrite ?Ep; smallcount; unfold nc in *; zcases. }
        destruct (Z.eqb_spec k' (Z.of_nat nc + 1)) as [->|N3].
        { unfold upk, up1, L3. destruct Q as [-> | [-> | ->]]; cbn [nth]; destruct k; cbn [Nat.eqb]; rewrite ?Ep; smallcount; unfold nc in *; zcases. }
        destruct (Z.leb_spec 1 k'), (Z.leb_spec k' (Z.of_nat (S k))); cbn [andb].
        * rewrite ccrow_cnt_b by lia. replace (Z.of_nat (S (Z.to_nat k' - 1))) with k' by lia. reflexivity.
        * unfold L3. destruct Q as [-> | [-> | ->]]; cbn [nth]; smallcount; try zcases.
          destruct k; cbn [Nat.eqb]; rewrite ?Ep; smallcount; zcases.
        * unfold L3. destruct Q as [-> | [-> | ->]]; cbn [nth]; smallcount; try zcases.
          destruct k; cbn [Nat.eqb]; rewrite ?Ep; smallcount; zcases.
        * lia.
  Qed.

  Lemma ccl_step0 : [set_nth 2 (Z.of_nat (S (S (B0 + 3 * 0)))) [Z.of_nat (B0 + 3 * 0); Z.of_nat (B0 + 3 * 0) + 1; -1; -1]] = ccl 1 (-1).
  Proof. unfold ccl, ccrow. cbn [seq map set_nth Nat.ltb Nat.leb]. repeat (f_equal; try lia). Qed.

  Lemma ccl_stepS k' :
    set_nth k' (set_nth 3 (Z.of_nat (S (S (B0 + 3 * S k')))) (nth k' (ccl (S k') (-1)) [])) (ccl (S k') (-1))
    ++ [set_nth 2 (Z.of_nat (S (S (B0 + 3 * S k')))) [Z.of_nat (B0 + 3 * S k'); Z.of_nat (B0 + 3 * S k') + 1; -1; -1]]
    = ccl (S (S k')) (-1).
  Proof.
    unfold ccl. rewrite rows_upd by lia. rewrite map_seq_snoc.
    apply map_ext_in. intros q Hq. apply in_seq in Hq.
    destruct (Nat.eqb_spec q (S k')).
    - subst q. unfold ccrow. cbn [set_nth]. destruct (Nat.ltb_spec (S (S k')) (S (S k'))); [lia|].
      repeat (f_equal; try lia).
    - destruct (Nat.eqb_spec q k').
      + subst q. unfold ccrow. cbn [set_nth].
        destruct (Nat.ltb_spec (S k') (S k')); [lia|]. destruct (Nat.ltb_spec (S k') (S (S k'))); [|lia].
        repeat (f_equal; try lia).
      + unfold ccrow. destruct (Nat.ltb_spec (S q) (S k')), (Nat.ltb_spec (S q) (S (S k'))); try lia. reflexivity.
  Qed.

  Lemma stepC k st : (k < m)%nat -> PC k st -> PC (S k) (tailC (Z.of_nat (1 + k)) (preC (Z.of_nat (1 + k)) st)).
  Proof.
    intros Hk [B [-> I]].
    pose proof (Inv_fresh'' _ _ _ (B0 + 3 * k) I ltac:(lia)) as F1.
    pose proof (Inv_fresh'' _ _ _ (S (B0 + 3 * k)) I ltac:(lia)) as F2.
    pose proof (Inv_fresh'' _ _ _ (S (S (B0 + 3 * k))) I ltac:(lia)) as F3.
    exists (B ++ bonds_of (B0 + 3 * k) [[-1; Z.of_nat (S k)]; [-1; Z.of_nat (S k)]; L3 k]).
    split; [|apply stepC_inv; assumption].
    change (1 + k)%nat with (S k). unfold Tform at 1.
    rewrite preC_eq by (try assumption; apply oaxl_length).
    assert (F3' : dget (Z.of_nat (S (S (B0 + 3 * k))))
                       (B ++ bonds_of (B0 + 3 * k) [[-1; Z.of_nat (S k)]; [-1; Z.of_nat (S k)]]) = None).
    { rewrite dget_app, F3. cbn [bonds_of]. rewrite !dget_cons_ne by lia. reflexivity. }
    assert (EBn : (B ++ bonds_of (B0 + 3 * k) [[-1; Z.of_nat (S k)]; [-1; Z.of_nat (S k)]])
                  ++ [(Z.of_nat (S (S (B0 + 3 * k))), mkB (Z.of_nat (S (S (B0 + 3 * k)))) (zsort (L3 k)))]
                  = B ++ bonds_of (B0 + 3 * k) [[-1; Z.of_nat (S k)]; [-1; Z.of_nat (S k)]; L3 k]).
    { rewrite <- app_assoc. reflexivity. }
    rewrite <- EBn. unfold Tform. rewrite (oaxl_step k Hk). cbv zeta.
    destruct k as [|k'].
    - (* first iteration: connect to the first control *)
      unfold ccl at 1. cbn [seq map app]. unfold xs0 at 1, upk at 1 2 3. cbn [Nat.eqb]. unfold L3. cbn [Nat.eqb].
      destruct (Bool.bool_dec p0 true) as [Ep|Ep]; [|apply Bool.not_true_is_false in Ep].
      + rewrite Ep at 1 2 3. cbn [andb].
        rewrite tailC_first_pos; try assumption; try lia; try reflexivity.
        2:{ rewrite !set_nth_length. apply oaxl_length. }
        rewrite ccl_step0. unfold xs0. rewrite Ep.
        f_equal; [|f_equal; lia].
        replace (Z.of_nat (B0 + 3 * 0 + 2)) with (Z.of_nat (S (S (B0 + 3 * 0)))) by lia. reflexivity.
      + rewrite Ep at 1 2 3. cbn [andb].
        rewrite tailC_first_neg; try assumption; try lia; try reflexivity.
        rewrite ccl_step0. unfold xs0, upk, up1. rewrite Ep. cbn [Nat.eqb set_nth].
        f_equal; [|f_equal; lia].
        replace (Z.of_nat (B0 + 2)) with (Z.of_nat (S (S (B0 + 3 * 0)))) by lia. reflexivity.
    - rewrite andb_false_r. unfold L3. cbn [Nat.eqb].
      rewrite tailC_next; try assumption; try lia; try reflexivity.
      2: apply ccl_length.
      2:{ unfold ccl. rewrite nth_map_seq by lia. reflexivity. }
      rewrite ccl_stepS. f_equal. f_equal. lia.
  Qed.

  (* ---------------------------------------------------------------- phase D: control bond of the target tensor *)
  Definition finalD (st : bst) : bst :=
    let st := if (Z.of_nat nc =? 1) then (
      let st := chk_idx cs 0 st in
      let st := if (csget cs 0 =? 1) then (
        let st := add_bond st (s_next st) [0; -1; -1] in
        let st := set_bid st 0 0 (s_next st) in
        let st := set_bid st (-1) 0 (s_next st) in
        let st := set_bid st (-1) (Z.of_nat nc + Z.of_nat nt) (s_next st) in
        let st := incr st in
        st) else (
        let st := add_bond st (s_next st) [0; 1; 2] in
        let st := set_bid st 0 0 (s_next st) in
        let st := set_bid st (Z.of_nat nc) 1 (s_next st) in
        let st := set_bid st (Z.of_nat nc + 1) 0 (s_next st) in
        let st := incr st in
        st) in
      st) else (
      let st := add_bond st (s_next st) [0; Z.of_nat nc - 1] in
      let st := set_bid st 0 0 (s_next st) in
      let st := set_bid st (Z.of_nat nc - 1) 3 (s_next st) in
      let st := incr st in
      st) in
    st.

  (** the last bond: control leg of the target tensor *)
  Definition fin : Z := Z.of_nat (B0 + 3 * m).
  Definition ufin : option Z := if (m =? 0)%nat then Some fin else Some up1.
  Definition Tfinal : dict tensor := Tform fin ufin m fin.
  Definition Nfinal : nat := S (B0 + 3 * m).
  Definition Lfin : list Z :=
    if (m =? 0)%nat then (if p0 then [0; -1; -1] else [0; 1; 2]) else [0; Z.of_nat nc - 1].

  Definition PD (st : bst) : Prop :=
    exists B, st = mkS Tfinal B (Z.of_nat Nfinal) true /\ Inv Tfinal B Nfinal.

  Lemma ctgf_set c f : ctgf c f = set_nth 0 c (ctgf (-1) f).
  Proof. symmetry. cform. Qed.
  Lemma ctgf_cnt c f kb : 0 <= kb -> zcount kb (ctgf c f) = (zcount kb (ctgf (-1) f) + (if Z.eqb kb c then 1 else 0))%nat.
  Proof. intros H. rewrite (ctgf_set c f). fills. reflexivity. Qed.

  Lemma ccl_last v : (0 < m)%nat ->
    set_nth (m - 1) (set_nth 3 v (nth (m - 1) (ccl m (-1)) [])) (ccl m (-1)) = ccl m v.
  Proof.
    intros Hm. unfold ccl. rewrite rows_upd by lia. apply map_ext_in. intros q Hq. apply in_seq in Hq.
    unfold ccrow. destruct (Nat.eqb_spec q (m - 1)).
    - subst q. cbn [set_nth]. destruct (Nat.ltb_spec (S (m - 1)) m); [lia | reflexivity].
    - destruct (Nat.ltb_spec (S q) m); [reflexivity | lia].
  Qed.

  Lemma ccrow_cnt_fin j kb : (j < m)%nat -> 0 <= kb ->
    zcount kb (ccrow m fin j) = (zcount kb (ccrow m (-1) j) + (if (S j =? m)%nat && Z.eqb kb fin then 1 else 0))%nat.
  Proof.
    intros Hj Hkb. unfold ccrow. smallcount.
    destruct (Nat.ltb_spec (S j) m), (Nat.eqb_spec (S j) m); try lia; cbn [andb]; zcases.
  Qed.

  Lemma upk_pos : (0 < m)%nat -> upk m = Some up1.
  Proof. intros H. unfold upk. destruct (Nat.eqb_spec m 0); [lia | reflexivity]. Qed.

  Lemma finalD_one_pos cb ob xs B n :
    m = 0%nat -> p0 = true -> (0 < length cb)%nat -> length ob = (2 * (nc + nt))%nat ->
    dget (Z.of_nat n) B = None ->
    finalD (mkS (Traw cb ob xs []) B (Z.of_nat n) true)
    = mkS (Traw (set_nth 0 (Z.of_nat n) cb) (set_nth (nc + nt) (Z.of_nat n) (set_nth 0 (Z.of_nat n) ob)) xs [])
          (B ++ [(Z.of_nat n, mkB (Z.of_nat n) (zsort [0; -1; -1]))]) (Z.of_nat (S n)) true.
  Proof.
    intros Em Ep Hcb Hob F. unfold finalD.
    destruct (Z.eqb_spec (Z.of_nat nc) 1); [|unfold nc in *; lia].
    rewrite chk_idx_ok by (unfold nc; lia). rewrite cs_0, Ep. cbn [b2z Z.eqb Pos.eqb s_next].
    rewrite add_bond_ok by (cbn [length]; try lia; exact F). cbn [s_next].
    rewrite set_ctg0 by exact Hcb.
    rewrite set_oax0 by (rewrite Hob; unfold nc; lia).
    rewrite (set_oax' _ _ _ _ _ _ _ (nc + nt)) by (try lia; rewrite set_nth_length, Hob; unfold nc; lia).
    rewrite incr_eq. reflexivity.
  Qed.

  Lemma finalD_one_neg cb ob a b B n :
    m = 0%nat -> p0 = false -> (0 < length cb)%nat -> length a = 2%nat -> length b = 2%nat ->
    dget (Z.of_nat n) B = None ->
    finalD (mkS (Traw cb ob [a; b] []) B (Z.of_nat n) true)
    = mkS (Traw (set_nth 0 (Z.of_nat n) cb) ob [set_nth 1 (Z.of_nat n) a; set_nth 0 (Z.of_nat n) b] [])
          (B ++ [(Z.of_nat n, mkB (Z.of_nat n) (zsort [0; 1; 2]))]) (Z.of_nat (S n)) true.
  Proof.
    intros Em Ep Hcb Ha Hb F. unfold finalD.
    destruct (Z.eqb_spec (Z.of_nat nc) 1); [|unfold nc in *; lia].
    rewrite chk_idx_ok by (unfold nc; lia). rewrite cs_0, Ep. cbn [b2z Z.eqb Pos.eqb s_next].
    rewrite add_bond_ok by (cbn [length]; try lia; exact F). cbn [s_next].
    rewrite set_ctg0 by exact Hcb.
    rewrite (set_x' _ _ _ _ _ _ _ 0 1) by (cbn [length nth]; lia).
    rewrite (set_x' _ _ _ _ _ _ _ 1 0) by (cbn [length nth set_nth]; lia).
    rewrite incr_eq. reflexivity.
  Qed.

  Lemma finalD_many cb ob xs ccs B n :
    (0 < m)%nat -> (0 < length cb)%nat -> length ccs = m -> length (nth (m - 1) ccs []) = 4%nat ->
    dget (Z.of_nat n) B = None ->
    finalD (mkS (Traw cb ob xs ccs) B (Z.of_nat n) true)
    = mkS (Traw (set_nth 0 (Z.of_nat n) cb) ob xs (set_nth (m - 1) (set_nth 3 (Z.of_nat n) (nth (m - 1) ccs [])) ccs))
          (B ++ [(Z.of_nat n, mkB (Z.of_nat n) (zsort [0; Z.of_nat nc - 1]))]) (Z.of_nat (S n)) true.
  Proof.
    intros Hm Hcb Hc Hr F. unfold finalD.
    destruct (Z.eqb_spec (Z.of_nat nc) 1); [unfold nc in *; lia|]. cbn [s_next].
    rewrite add_bond_ok by (cbn [length]; try lia; exact F). cbn [s_next].
    rewrite set_ctg0 by exact Hcb.
    rewrite (set_cc' _ _ _ _ _ _ _ (m - 1) 3) by (try reflexivity; unfold nc; lia).
    rewrite incr_eq. reflexivity.
  Qed.

  Lemma stepD_state st : PC m st ->
    exists B, st = mkS (Tform (-1) (upk m) m (-1)) B (Z.of_nat (B0 + 3 * m)) true
              /\ Inv (Tform (-1) (upk m) m (-1)) B (B0 + 3 * m)
              /\ finalD st = mkS Tfinal (B ++ bonds_of (B0 + 3 * m) [Lfin]) (Z.of_nat Nfinal) true.
  Proof.
    intros [B [-> I]]. exists B. split; [reflexivity|]. split; [exact I|].
    pose proof (Inv_fresh'' _ _ _ (B0 + 3 * m) I ltac:(lia)) as F1.
    unfold Tfinal, Nfinal, Lfin, ufin. cbn [bonds_of].
    destruct (Nat.eqb_spec m 0) as [Em|Em].
    - unfold Tform.
      replace (upk m) with (@None Z) by (unfold upk; rewrite Em; reflexivity).
      replace (ccl m (-1)) with (@nil (list Z)) by (rewrite Em; reflexivity).
      replace (ccl m fin) with (@nil (list Z)) by (rewrite Em; reflexivity).
      destruct (Bool.bool_dec p0 true) as [Ep|Ep]; [|apply Bool.not_true_is_false in Ep].
      + rewrite finalD_one_pos; try assumption; [|rewrite ctgf_length; lia|apply oaxl_length].
        rewrite <- ctgf_set. rewrite Ep. f_equal. f_equal.
        * unfold o0, i0, fin. rewrite Ep. rewrite Em. unfold nc. cform.
        * unfold xs0. rewrite Ep. reflexivity.
      + replace (xs0 None) with [[Z.of_nat (2 * nt); -1]; [-1; Z.of_nat (2 * nt + 1)]] by (unfold xs0; rewrite Ep; reflexivity).
        rewrite finalD_one_neg; try assumption; try reflexivity; [|rewrite ctgf_length; lia].
        rewrite <- ctgf_set. rewrite Ep. f_equal. f_equal.
        * unfold o0, i0. rewrite Ep. reflexivity.
        * unfold xs0. rewrite Ep. reflexivity.
    - unfold Tform at 1.
      rewrite finalD_many; try assumption; try lia; [|rewrite ctgf_length; lia|apply ccl_length|].
      2:{ unfold ccl. rewrite nth_map_seq by lia. reflexivity. }
      rewrite <- ctgf_set, ccl_last by lia.
      unfold Tform. rewrite upk_pos by lia. reflexivity.
  Qed.

  Lemma oax_cnt_fin kb : 0 <= kb ->
    zcount kb (oaxl (o0 ufin) (i0 ufin) nt nt m m)
    = (zcount kb (oaxl (o0 (upk m)) (i0 (upk m)) nt nt m m)
       + (if p0 && (m =? 0)%nat then (if Z.eqb kb fin then 2 else 0) else 0))%nat.
  Proof.
    intros Hkb. unfold ufin, upk.
    destruct (Nat.eqb_spec m 0) as [Em|Em]; [|rewrite andb_false_r; lia].
    p0cases.
    - replace (oaxl (o0 (Some fin)) (i0 (Some fin)) nt nt m m)
        with (set_nth (nc + nt) fin (set_nth 0 fin (oaxl (o0 None) (i0 None) nt nt m m))).
      2:{ unfold o0, i0. rewrite Ep. unfold nc. cform. }
      unfold o0, i0. rewrite Ep. unfold nc. fills. zcases.
    - unfold o0, i0. rewrite Ep. lia.
  Qed.

  Lemma stepD_inv B :
    Inv (Tform (-1) (upk m) m (-1)) B (B0 + 3 * m) ->
    Inv Tfinal (B ++ bonds_of (B0 + 3 * m) [Lfin]) Nfinal.
  Proof.
    intros I. unfold Nfinal.
    replace (S (B0 + 3 * m)) with (B0 + 3 * m + length [Lfin])%nat by (cbn [length]; lia).
    apply (Inv_adds _ _ _ _ _ I).
    - intros L [<-|[]]. unfold Lfin. destruct (m =? 0)%nat; [p0cases|]; cbn [length]; lia.
    - intros k' kb Hkb. unfold Tfinal. rewrite !cT_Tform by lia.
      destruct (Z.eqb_spec k' 0).
      { rewrite ctgf_cnt by lia. unfold fin. zcases. }
      destruct (Z.eqb_spec k' (-1)).
      { rewrite oax_cnt_fin by lia. unfold fin. destruct (p0 && (m =? 0)%nat); zcases. }
      p0cases.
      + destruct (Z.leb_spec 1 k'), (Z.leb_spec k' (Z.of_nat m)); cbn [andb]; try reflexivity.
        rewrite ccrow_cnt_fin by lia. unfold fin. destruct (S (Z.to_nat k' - 1) =? m)%nat; cbn [andb]; zcases.
      + destruct (Z.eqb_spec k' (Z.of_nat nc)).
        { unfold ufin, upk, fin, up1. destruct (m =? 0)%nat; smallcount; zcases. }
        destruct (Z.eqb_spec k' (Z.of_nat nc + 1)).
        { unfold ufin, upk, fin, up1. destruct (m =? 0)%nat; smallcount; zcases. }
        destruct (Z.leb_spec 1 k'), (Z.leb_spec k' (Z.of_nat m)); cbn [andb]; try reflexivity.
        rewrite ccrow_cnt_fin by lia. unfold fin. destruct (S (Z.to_nat k' - 1) =? m)%nat; cbn [andb]; zcases.
    - intros [|d] k' Hd; [|cbn [length] in Hd; lia]. rewrite Nat.add_0_r. cbn [nth].
      unfold Tfinal. rewrite cT_Tform by lia. fold fin.
      assert (C0 : zcount fin (ctgf (-1) (2 * nt)) = 0%nat) by (unfold fin; cntform).
      assert (C1 : zcount fin (oaxl (o0 (upk m)) (i0 (upk m)) nt nt m m) = 0%nat).
      { unfold fin, o0, i0, upk, up1. p0cases; destruct (m =? 0)%nat; cntform. }
      unfold Lfin.
      destruct (Z.eqb_spec k' 0) as [->|N0].
      { rewrite ctgf_cnt, C0, Z.eqb_refl by (unfold fin; lia).
        destruct (Nat.eqb_spec m 0); [p0cases|]; smallcount; unfold nc in *; zcases. }
      destruct (Z.eqb_spec k' (-1)) as [->|N1].
      { rewrite oax_cnt_fin, C1, Z.eqb_refl by (unfold fin; lia).
        destruct (Nat.eqb_spec m 0); [p0cases|rewrite andb_false_r]; smallcount; unfold nc in *; zcases. }
      p0cases.
      + destruct (Z.leb_spec 1 k'), (Z.leb_spec k' (Z.of_nat m)); cbn [andb].
        * rewrite ccrow_cnt_fin by (unfold fin; lia). rewrite Z.eqb_refl, andb_true_r.
          replace (zcount fin (ccrow m (-1) (Z.to_nat k' - 1))) with 0%nat.
          2:{ symmetry. unfold ccrow, fin. smallcount. destruct (S (Z.to_nat k' - 1) <? m)%nat; zcases. }
          destruct (Nat.eqb_spec m 0); [lia|]. smallcount. unfold nc in *.
          destruct (Nat.eqb_spec (S (Z.to_nat k' - 1)) m); zcases.
        * destruct (Nat.eqb_spec m 0); smallcount; unfold nc in *; zcases.
        * destruct (Nat.eqb_spec m 0); smallcount; unfold nc in *; zcases.
        * lia.
      + destruct (Z.eqb_spec k' (Z.of_nat nc)) as [->|N2].
        { unfold ufin, upk, fin, up1. destruct (Nat.eqb_spec m 0); smallcount; unfold nc in *; zcases. }
        destruct (Z.eqb_spec k' (Z.of_nat nc + 1)) as [->|N3].
        { unfold ufin, upk, fin, up1. destruct (Nat.eqb_spec m 0); smallcount; unfold nc in *; zcases. }
        destruct (Z.leb_spec 1 k'), (Z.leb_spec k' (Z.of_nat m)); cbn [andb].
        * rewrite ccrow_cnt_fin by (unfold fin; lia). rewrite Z.eqb_refl, andb_true_r.
          replace (zcount fin (ccrow m (-1) (Z.to_nat k' - 1))) with 0%nat.
          2:{ symmetry. unfold ccrow, fin. smallcount. destruct (S (Z.to_nat k' - 1) <? m)%nat; zcases. }
          destruct (Nat.eqb_spec m 0); [lia|]. smallcount. unfold nc in *.
          destruct (Nat.eqb_spec (S (Z.to_nat k' - 1)) m); zcases.
        * destruct (Nat.eqb_spec m 0); smallcount; unfold nc in *; zcases.
        * destruct (Nat.eqb_spec m 0); smallcount; unfold nc in *; zcases.
        * lia.
  Qed.

  (* ---------------------------------------------------------------- the whole build program *)
  Definition init_st : bst :=
    set_next
      (new_tensor
         (new_tensor st0 0 ([2%nat] ++ zrep 2%nat (2 * Z.of_nat nt))
                     (zrep (-1) (Z.of_nat (length ([2%nat] ++ zrep 2%nat (2 * Z.of_nat nt))))) REF_main)
         (-1) (zrep 2%nat (2 * (Z.of_nat nc + Z.of_nat nt))) (zrep (-1) (2 * (Z.of_nat nc + Z.of_nat nt))) REF_none)
      0.

  Lemma ctrl_build_phases :
    ctrl_build (Z.of_nat nc) (Z.of_nat nt) cs
    = finalD (zfor 1 (Z.of_nat nc) (fun i st => tailC i (preC i st))
                (blockX (zfor 0 (Z.of_nat nt) bodyB (zfor 0 (Z.of_nat nt) bodyA init_st)))).
  Proof. reflexivity. Qed.

  Lemma init_PA : PA 0 init_st.
  Proof.
    exists []. split; [|apply Inv_init].
    unfold init_st, st0.
    assert (S1 : [2%nat] ++ zrep 2%nat (2 * Z.of_nat nt) = (2 :: repeat 2 (2 * nt))%nat).
    { cbn [app]. f_equal. unfold zrep. f_equal. lia. }
    rewrite S1.
    assert (S2 : zrep (-1) (Z.of_nat (length (2 :: repeat 2 (2 * nt))%nat)) = ctgf (-1) 0).
    { rewrite zrep_nat. cbn [length]. rewrite repeat_length, repeat_map_seq. unfold ctgf.
      apply map_ext_in. intros q Hq. ncases. }
    rewrite S2.
    assert (S3 : zrep 2%nat (2 * (Z.of_nat nc + Z.of_nat nt)) = repeat 2%nat (2 * (nc + nt))).
    { unfold zrep. f_equal. lia. }
    rewrite S3.
    assert (S4 : zrep (-1) (2 * (Z.of_nat nc + Z.of_nat nt)) = oaxl (-1) (-1) 0 0 0 0).
    { unfold zrep. replace (Z.to_nat (2 * (Z.of_nat nc + Z.of_nat nt))) with (2 * (nc + nt))%nat by lia.
      rewrite repeat_map_seq. unfold oaxl. apply map_ext_in. intros q Hq. unfold oaxf. ncases. }
    rewrite S4.
    rewrite new_tensor_ok; [|cbn [length]; rewrite ctgf_length, repeat_length; reflexivity | reflexivity].
    rewrite new_tensor_ok; [|rewrite oaxl_length, repeat_length; reflexivity | reflexivity].
    reflexivity.
  Qed.

  Theorem ctrl_build_final :
    exists B, ctrl_build (Z.of_nat nc) (Z.of_nat nt) cs = mkS Tfinal B (Z.of_nat Nfinal) true
              /\ Inv Tfinal B Nfinal.
  Proof.
    rewrite ctrl_build_phases.
    assert (HA : PB 0 (zfor 0 (Z.of_nat nt) bodyA init_st)).
    { rewrite (zfor_nat 0 nt). cbn [Nat.add].
      pose proof (fold_seq_ind PA (fun i s => bodyA (Z.of_nat i) s) 0 nt init_st init_PA
                               (fun k s Hk P => stepA k s Hk P)) as [B [E I]].
      exists B. rewrite E. rewrite !Nat.add_0_r. split; [reflexivity | exact I]. }
    assert (HB : PB nt (zfor 0 (Z.of_nat nt) bodyB (zfor 0 (Z.of_nat nt) bodyA init_st))).
    { rewrite (zfor_nat 0 nt). cbn [Nat.add].
      apply (fold_seq_ind PB (fun i s => bodyB (Z.of_nat i) s) 0 nt _ HA (fun k s Hk P => stepB k s Hk P)). }
    apply stepX in HB. apply PX_PC0 in HB.
    assert (HC : PC m (zfor 1 (Z.of_nat nc) (fun i st => tailC i (preC i st))
                          (blockX (zfor 0 (Z.of_nat nt) bodyB (zfor 0 (Z.of_nat nt) bodyA init_st))))).
    { change 1 with (Z.of_nat 1). replace nc with (1 + m)%nat by reflexivity. rewrite (zfor_nat 1 m).
      apply (fold_seq_ind PC (fun i s => tailC (Z.of_nat i) (preC (Z.of_nat i) s)) 1 m _ HB
                          (fun k s Hk P => stepC k s Hk P)). }
    destruct (stepD_state _ HC) as [B [E [I F]]].
    exists (B ++ bonds_of (B0 + 3 * m) [Lfin]). split; [exact F | apply stepD_inv; exact I].
  Qed.

  (* ---------------------------------------------------------------- the final network is well formed *)
  Lemma In_map_seq {A} (g : nat -> A) a n x : In x (map g (seq a n)) -> exists q, (a <= q < a + n)%nat /\ x = g q.
  Proof. intros H. apply in_map_iff in H. destruct H as [q [E Hq]]. apply in_seq in Hq. exists q. split; [lia | congruence]. Qed.

  Lemma ufin_val : exists u, ufin = Some u /\ Z.of_nat B0 <= u <= fin.
  Proof.
    unfold ufin, fin, up1. destruct (Nat.eqb_spec m 0).
    - eexists; split; [reflexivity | lia].
    - eexists; split; [reflexivity | lia].
  Qed.

  Lemma Tfinal_keys : NoDup (dkeys Tfinal) /\ In VT (dkeys Tfinal).
  Proof.
    unfold Tfinal, Tform. rewrite dkeys_Traw, ccl_length, xs0_length. split; [|right; left; reflexivity].
    assert (ND : NoDup (map Z.of_nat (seq nc (if p0 then 0 else 2)) ++ map Z.of_nat (seq 1 m))).
    { rewrite <- map_app. apply FinFun.Injective_map_NoDup; [intros a b E; lia|].
      apply NoDup_app_disj; [apply seq_NoDup | apply seq_NoDup|].
      intros x H1 H2. apply in_seq in H1, H2. revert H1. unfold nc in *. destruct p0; lia. }
    constructor.
    { intros [E|H]; [discriminate|]. apply in_app_or in H. destruct H as [H|H]; apply In_map_seq in H; destruct H as [q [Hq E]]; unfold nc in *; lia. }
    constructor; [|exact ND].
    intros H. apply in_app_or in H. destruct H as [H|H]; apply In_map_seq in H; destruct H as [q [Hq E]]; lia.
  Qed.

  Lemma Tfinal_tensors k t : In (k, t) Tfinal ->
    t_id t = k /\ t_shape t = repeat 2%nat (length (t_bids t))
    /\ forall b, In b (t_bids t) -> 0 <= b < Z.of_nat Nfinal.
  Proof.
    destruct ufin_val as [u [Eu Hu]].
    unfold Tfinal, Tform, Traw, Nfinal. rewrite Eu. unfold fin in *. intros [E|[E|H]].
    - injection E as <- <-. cbn [t_id t_shape t_bids]. rewrite ctgf_length. split; [reflexivity|]. split; [reflexivity|].
      intros b Hb. apply In_map_seq in Hb. destruct Hb as [q [Hq ->]]. p0cases; ncases.
    - injection E as <- <-. cbn [t_id t_shape t_bids]. rewrite oaxl_length. split; [reflexivity|]. split; [reflexivity|].
      intros b Hb. apply In_map_seq in Hb. destruct Hb as [q [Hq ->]]. unfold oaxf, o0, i0. p0cases; ncases.
    - apply in_app_or in H. destruct H as [H|H]; apply In_tens in H; destruct H as [j [Hj [-> ->]]].
      + unfold xs0 in *. revert Hj. p0cases; cbn [length]; intros Hj; [lia|].
        cbn [mkx t_id t_shape t_bids]. split; [reflexivity|].
        assert (Q : (j = 0 \/ j = 1)%nat) by lia.
        destruct Q as [-> | ->]; cbn [nth length]; (split; [reflexivity|]); intros b [<-|[<-|[]]]; lia.
      + rewrite ccl_length in Hj. unfold ccl. rewrite nth_map_seq by lia. cbn [Nat.add mkc t_id t_shape t_bids].
        unfold ccrow. cbn [length]. split; [reflexivity|]. split; [reflexivity|].
        intros b [<-|[<-|[<-|[<-|[]]]]]; try lia. destruct (S j <? m)%nat eqn:Q; [apply Nat.ltb_lt in Q|]; lia.
  Qed.

  Theorem ctrl_build_WF :
    exists B, ctrl_build (Z.of_nat nc) (Z.of_nat nt) cs = mkS Tfinal B (Z.of_nat Nfinal) true
              /\ dkeys B = zseq Nfinal /\ WF (mkN Tfinal B).
  Proof.
    destruct ctrl_build_final as [B [E I]]. exists B. split; [exact E|]. split; [apply (inv_keys _ _ _ I)|].
    destruct Tfinal_keys as [ND HV].
    apply (WF_of_Inv _ _ _ I ND HV). exact Tfinal_tensors.
  Qed.
End Ctrl.

