(** C06 - case types and checker for the correspondence run (vm_compute, Gaussian integers). *)
From Qib Require Export GateNet.GateNetModel Base.Inst.
Local Open Scope Z_scope.

(* ------------------------------------------------------------------ observed networks *)
Definition tdesc := (Z * (Z * list nat * list Z * Z))%type.   (* key, (tid, shape, bids, dataref code) *)
Definition bdesc := (Z * (Z * list Z))%type.                   (* key, (bid, tids) *)
Definition ndesc := (list tdesc * list bdesc)%type.

Definition un_net (n : net) : ndesc :=
  (map (fun kt => (fst kt, (t_id (snd kt), t_shape (snd kt), t_bids (snd kt), t_ref (snd kt)))) (tensors n),
   map (fun kb => (fst kb, (b_id (snd kb), b_tids (snd kb)))) (bonds n)).

Definition leqb_n := list_eqb Nat.eqb.
Definition leqb_z := list_eqb Z.eqb.
Definition tdesc_eqb (a b : tdesc) : bool :=
  let '(k, (i, s, bi, r)) := a in let '(k', (i', s', bi', r')) := b in
  Z.eqb k k' && Z.eqb i i' && leqb_n s s' && leqb_z bi bi' && Z.eqb r r'.
Definition bdesc_eqb (a b : bdesc) : bool :=
  let '(k, (i, t)) := a in let '(k', (i', t')) := b in Z.eqb k k' && Z.eqb i i' && leqb_z t t'.
Definition ndesc_eqb (a b : ndesc) : bool :=
  list_eqb tdesc_eqb (fst a) (fst b) && list_eqb bdesc_eqb (snd a) (snd b).

(** what the implementation did: None = it raised, Some d = the network it returned
    (as_tensornet asserts is_consistent itself, so a returned network answered True) *)
Definition obs := option ndesc.
Definition st_agrees (st : bst) (o : obs) : bool :=
  match o with
  | None => negb (s_ok st)
  | Some d => s_ok st && ndesc_eqb (un_net (net_of st)) d && is_consistent (net_of st)
  end.

(* ------------------------------------------------------------------ values *)
Definition zmx := list (list (Z * Z)).
Definition bmx_of (m : zmx) : BMx ZI := mxl (K:=ZI) m.

(** all multi-indices of a shape in row-major (C) order *)
Fixpoint all_idx (shp : list nat) : list (list nat) :=
  match shp with
  | [] => [[]]
  | d :: s => flat_map (fun i => map (cons i) (all_idx s)) (seq 0 d)
  end.

(** sparse dense tensor: the non-zero entries (flat row-major position, value), ascending *)
Definition sparse := list (nat * (Z * Z)).
Fixpoint agrees_aux (f : list nat -> ZI) (idxs : list (list nat)) (pos : nat) (sp : sparse) : bool :=
  match idxs with
  | [] => match sp with [] => true | _ => false end
  | x :: r =>
      match sp with
      | (p, v) :: sp' =>
          if Nat.eqb p pos then zi_eqb (f x) v && agrees_aux f r (S pos) sp'
          else zi_eqb (f x) (0, 0) && agrees_aux f r (S pos) sp
      | [] => zi_eqb (f x) (0, 0) && agrees_aux f r (S pos) []
      end
  end.
Definition agrees (shp : list nat) (f : list nat -> ZI) (sp : sparse) : bool :=
  agrees_aux f (all_idx shp) O sp.

Definition vec_of (v : list (Z * Z)) : bits -> ZI := fun b => nth (b2n b) v (0, 0).
Definition flat_of (shp : list nat) (v : list (Z * Z)) : list nat -> ZI :=
  fun idx => nth (fold_left (fun acc p => (acc * fst p + snd p)%nat) (combine shp idx) O) v (0, 0).

Definition twos (k : nat) : list nat := repeat 2%nat k.
Definition zs (l : list bool) : list Z := map (fun b : bool => if b then 1 else 0) l.

Inductive case :=
(** structure: the network the implementation returned (or that it raised) *)
| KWrap (shp : list nat) (o : obs)
| KCtrl (nc nt : Z) (cs : list Z) (o : obs)
| KNest (g : cnest) (o : obs)
| KMux (nc nt : Z) (o : obs)
| KPhase (n : Z) (o : obs)
| KPrep (n : Z) (tr : bool) (o : obs)
(** values: to_full_tensor(contract_einsum()) of the implementation, sparse.
    VCtrl: chain semantics always; the generic defining sum of the model network too when
    [with_sum] (small networks: the defining sum has 2^(number of bonds) terms per entry) *)
| VCtrl (nc nt : nat) (cs : list Z) (U : zmx) (with_sum : bool) (full : sparse)
| VMux (nc nt : nat) (Us : list zmx) (full : sparse)
| VPhase (n : nat) (w : Z * Z) (full : sparse)
| VPrep (n : nat) (tr : bool) (x : list (Z * Z)) (full : sparse)
| VWrap (shp : list nat) (a : list (Z * Z)) (full : sparse).

Definition check (c : case) : bool :=
  match c with
  | KWrap shp o => st_agrees (wrap_build shp) o
  | KCtrl nc nt cs o => st_agrees (ctrl_build nc nt cs) o
  | KNest g o => st_agrees (cnest_build g) o
  | KMux nc nt o => st_agrees (mux_build nc nt) o
  | KPhase n o => st_agrees (phase_build n) o
  | KPrep n tr o => st_agrees (prep_build n tr) o
  | VCtrl nc nt cs U with_sum full =>
      let data := ctrl_data (K:=ZI) nt (bmx_of U) in
      let shp := twos (2 * (nc + nt)) in
      agrees shp (ctrl_chain_val (K:=ZI) nc nt cs data) full
      && (if with_sum
          then agrees shp (defining_sum (K:=ZI) (net_of (ctrl_build (Z.of_nat nc) (Z.of_nat nt) cs)) data) full
          else true)
  | VMux nc nt Us full =>
      agrees (twos (2 * (nc + nt)))
             (defining_sum (K:=ZI) (net_of (mux_build (Z.of_nat nc) (Z.of_nat nt)))
                           (mux_data (K:=ZI) nc nt (map bmx_of Us))) full
  | VPhase n w full =>
      agrees (twos (2 * n))
             (defining_sum (K:=ZI) (net_of (phase_build (Z.of_nat n))) (phase_data (K:=ZI) w)) full
  | VPrep n tr x full =>
      agrees (twos (2 * n))
             (defining_sum (K:=ZI) (net_of (prep_build (Z.of_nat n) tr)) (prep_data (K:=ZI) (vec_of x))) full
  | VWrap shp a full =>
      agrees shp (defining_sum (K:=ZI) (net_of (wrap_build shp)) (wrap_data (K:=ZI) (flat_of shp a))) full
  end.

Definition bad_cases (cs : list (nat * case)) : list nat :=
  map fst (filter (fun c => negb (check (snd c))) cs).
