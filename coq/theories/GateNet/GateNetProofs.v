(** C06 - summary statements used by coq/props/C06.v: structure (L1) of every gate network for
    all sizes, in terms of the generic notions of Qib.TN (WF, is_consistent, num_open_axes,
    shape, bond dimension). *)
From Qib Require Export GateNet.GateNetLink TN.TNConsistent.
Local Open Scope Z_scope.

(** what "a well-built gate network on [w] wires" means structurally *)
Record gate_net_ok (st : bst) (w nbonds : nat) : Prop := mkGNO {
  gno_ok : s_ok st = true;                                        (* no exception *)
  gno_wf : WF (net_of st);                                        (* exact incidence invariant *)
  gno_consistent : is_consistent (net_of st) = true;              (* the library's own check *)
  gno_axes : num_open_axes (net_of st) = Some (2 * w)%nat;        (* two open axes per wire *)
  gno_shape : TNModel.shape (net_of st) = Some (repeat 2%nat (2 * w));
  gno_bonds : dkeys (bonds (net_of st)) = zseq nbonds;            (* bonds 0..N-1 in this order *)
  gno_dims : forall kb, In kb (dkeys (bonds (net_of st))) -> bond_dim (net_of st) kb = 2%nat }.

Lemma bond_dims_two n : WF n -> all_two n -> forall kb, In kb (dkeys (bonds n)) -> bond_dim n kb = 2%nat.
Proof.
  intros W A kb Hk. unfold bond_dim. apply bond_dim_two; [exact A|]. apply WF_bond_has_leg; assumption.
Qed.

Lemma gate_net_ok_of T B N w :
  WF (mkN T B) -> dkeys B = zseq N ->
  (forall k t, In (k, t) T -> t_shape t = repeat 2%nat (length (t_bids t))) ->
  (exists vt, dget VT T = Some vt /\ length (t_bids vt) = (2 * w)%nat) ->
  forall next, gate_net_ok (mkS T B next true) w N.
Proof.
  intros W HB A [vt [Ev Lv]] next.
  assert (Sv : t_shape vt = repeat 2%nat (2 * w)).
  { rewrite (A VT vt (dget_In _ _ _ Ev)), Lv. reflexivity. }
  constructor; unfold net_of; cbn [s_T s_B s_ok].
  - reflexivity.
  - exact W.
  - apply WF_is_consistent. exact W.
  - unfold num_open_axes. cbn [tensors]. rewrite Ev. cbn [option_map]. unfold t_ndim. rewrite Sv, repeat_length. reflexivity.
  - unfold TNModel.shape. cbn [tensors]. rewrite Ev. cbn [option_map]. rewrite Sv. reflexivity.
  - exact HB.
  - apply bond_dims_two; [exact W | exact A].
Qed.

(** L1, controlled gates: every number of controls >= 1, every pattern, every number of targets *)
Theorem ctrl_structure (m nt : nat) (p0 : bool) (pt : list bool) :
  length pt = m ->
  gate_net_ok (ctrl_build (Z.of_nat (S m)) (Z.of_nat nt) (map b2z (p0 :: pt))) (S m + nt) (Nfinal m nt p0).
Proof.
  intros Hpt. destruct (ctrl_build_WF m nt p0 pt Hpt) as [B [E [HB W]]]. rewrite E.
  apply gate_net_ok_of; try assumption.
  - intros k t H. apply (Tfinal_tensors m nt p0 pt Hpt k t H).
  - eexists. split.
    + unfold Tfinal, Tform, Traw, VT. cbn [dget Z.eqb Pos.eqb]. reflexivity.
    + cbn [t_bids]. apply oaxl_length.
Qed.

(** the guard: the build program reads ctrl_state[0] unconditionally *)
Theorem ctrl_needs_a_control (nt : Z) : s_ok (ctrl_build 0 nt []) = false.
Proof.
  unfold ctrl_build. cbv zeta.
  set (st1 := zfor 0 nt _ (zfor 0 nt _ _)).
  assert (G : forall st, s_ok (chk_idx [] 0 st) = false).
  { intros st. unfold chk_idx. cbn. reflexivity. }
  cbn [csget nth Z.to_nat Z.eqb].
  change (zfor 1 0 ?f ?s) with s. cbn [Z.eqb].
  set (st2 := chk_idx [] 0 st1).
  assert (H2 : s_ok st2 = false) by apply G.
  (* the final block never sets the flag back *)
  assert (P1 : forall st b t, s_ok st = false -> s_ok (add_bond st b t) = false).
  { intros st b t H. unfold add_bond, chk. destruct (_ && _); cbn; [exact H | reflexivity]. }
  assert (P2 : forall st a b c, s_ok st = false -> s_ok (set_bid st a b c) = false).
  { intros st a b c H. unfold set_bid. destruct (dget a (s_T st)); [|reflexivity].
    unfold chk. destruct (_ && _); cbn; [exact H | reflexivity]. }
  assert (P3 : forall st, s_ok st = false -> s_ok (incr st) = false) by (intros st H; exact H).
  assert (P4 : forall st a b c d, s_ok st = false -> s_ok (new_tensor st a b c d) = false).
  { intros st a b c d H. unfold new_tensor, chk. destruct (_ && _); cbn; [exact H | reflexivity]. }
  repeat match goal with
         | |- s_ok (incr _) = false => apply P3
         | |- s_ok (set_bid _ _ _ _) = false => apply P2
         | |- s_ok (add_bond _ _ _) = false => apply P1
         | |- s_ok (new_tensor _ _ _ _ _) = false => apply P4
         end.
  exact H2.
Qed.

(** L1, multiplexers *)
Theorem mux_structure (nc nt : nat) :
  gate_net_ok (mux_build (Z.of_nat nc) (Z.of_nat nt)) (nc + nt) (NMfinal nc nt).
Proof.
  destruct (mux_build_WF nc nt) as [B [E [HB W]]]. rewrite E.
  apply gate_net_ok_of; try assumption.
  - intros k t H. apply (TMfinal_props nc nt k t H).
  - eexists. split; [unfold TMfinal, TM, T2, VT; cbn [dget Z.eqb Pos.eqb]; reflexivity|].
    cbn [t_bids]. apply moaxl_length.
Qed.

(** L1, phase factor gates *)
Theorem phase_structure (n : nat) : gate_net_ok (phase_build (Z.of_nat n)) n (2 * n).
Proof.
  destruct (phase_build_WF n) as [B [E [HB W]]]. rewrite E.
  apply gate_net_ok_of; try assumption.
  - intros k t H. apply (TP_props n k t H).
  - eexists. split.
    + unfold TP, TPr. rewrite dget_app, dget_tens. unfold VT. cbn [Z.of_nat Z.leb Z.compare andb dget Z.eqb Pos.eqb]. reflexivity.
    + cbn [t_bids]. unfold pvb. rewrite map_length, seq_length. reflexivity.
Qed.

(** L1, prepare gates (both orientations) *)
Theorem prep_structure (n : nat) (tr : bool) : gate_net_ok (prep_build (Z.of_nat n) tr) n (2 * n).
Proof.
  destruct (prep_build_WF n tr) as [B [E [HB W]]]. rewrite E.
  apply gate_net_ok_of; try assumption.
  - intros k t H. apply (TQ_props n tr k t H).
  - eexists. split.
    + unfold TQ, TQr. rewrite dget_app. rewrite dget_cons_ne by (unfold VT; lia). rewrite dget_tens.
      unfold VT. cbn [Z.of_nat Z.leb Z.compare andb dget Z.eqb Pos.eqb]. reflexivity.
    + cbn [t_bids]. unfold qvb. destruct tr; cbn [negb]; rewrite ?app_length, ?map_length, ?seq_length, ?zseq_length; lia.
Qed.

(** L1, wrap: any shape *)
Theorem wrap_structure (shp : list nat) :
  let st := wrap_build shp in
  s_ok st = true /\ WF (net_of st) /\ is_consistent (net_of st) = true
  /\ num_open_axes (net_of st) = Some (length shp) /\ TNModel.shape (net_of st) = Some shp
  /\ dkeys (bonds (net_of st)) = zseq (length shp).
Proof.
  cbv zeta. destruct (wrap_build_WF shp) as [B [E [HB W]]]. rewrite E. unfold net_of. cbn [s_ok s_T s_B].
  split; [reflexivity|]. split; [exact W|]. split; [apply WF_is_consistent; exact W|].
  split; [reflexivity|]. split; [reflexivity | exact HB].
Qed.

(** nested controlled gates: the network of the nest is the network of ONE controlled gate
    with the concatenated pattern *)
Fixpoint nest_pattern (g : cnest) : list Z :=
  match g with NLeaf _ => [] | NCtrl _ cs g' => cs ++ nest_pattern g' end.
Fixpoint nest_ncontrols (g : cnest) : Z :=
  match g with NLeaf _ => 0 | NCtrl nc _ g' => nc + nest_ncontrols g' end.
Fixpoint nest_targets (g : cnest) : Z :=
  match g with NLeaf nt => nt | NCtrl _ _ g' => nest_targets g' end.
(** every level was accepted by the ControlledGate constructor *)
Fixpoint nest_wf (g : cnest) : Prop :=
  match g with NLeaf _ => True | NCtrl nc cs g' => Z.of_nat (length cs) = nc /\ nest_wf g' end.

Lemma flatten_spec nc cs g :
  flatten nc cs g = (nc + nest_ncontrols g, cs ++ nest_pattern g, nest_targets g).
Proof.
  revert nc cs. induction g as [nt|nc' cs' g IH]; intros nc cs; cbn [flatten nest_ncontrols nest_pattern nest_targets].
  - rewrite Z.add_0_r, app_nil_r. reflexivity.
  - rewrite IH, Z.add_assoc, app_assoc. reflexivity.
Qed.

Lemma nest_len g : nest_wf g -> Z.of_nat (length (nest_pattern g)) = nest_ncontrols g.
Proof.
  induction g as [nt|nc cs g IH]; cbn [nest_wf nest_pattern nest_ncontrols]; [reflexivity|].
  intros [H1 H2]. rewrite app_length, Nat2Z.inj_add, H1, (IH H2). reflexivity.
Qed.

Theorem nested_is_flattened (nc : Z) (cs : list Z) (g : cnest) :
  nest_wf (NCtrl nc cs g) ->
  cnest_build (NCtrl nc cs g)
  = ctrl_build (nest_ncontrols (NCtrl nc cs g)) (nest_targets g) (nest_pattern (NCtrl nc cs g)).
Proof.
  intros W. unfold cnest_build. rewrite flatten_spec.
  pose proof (nest_len (NCtrl nc cs g) W) as Q. cbn [nest_ncontrols nest_pattern] in Q |- *.
  rewrite Q, Z.eqb_refl. reflexivity.
Qed.
