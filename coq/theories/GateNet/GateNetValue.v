(** C06 - values of the gate networks (L2), generic in the scalar ring:
    the chain semantics of the controlled-gate network equals the controlled matrix; the
    generic defining sums of the wrap / multiplexer / phase-factor / prepare networks are the
    reshaped matrices; and the bridge: the defining sum of the controlled-gate network IS its
    chain semantics. *)
From Qib Require Export GateNet.GateNetSum.
Local Open Scope Z_scope.

Section Value.
  Context {K : Scalar} {L : ScalarLaws K}.
  Local Open Scope K_scope.
  Add Ring KringGV : (s_ring K L).

  (* ================================================================ tensor data *)
  Lemma cross_pos_val o i u d :
    entries_data (K:=K) cross_pos_entries [nb o; nb i; nb u; nb d]
    = if Bool.eqb o i && Bool.eqb d (u && o) then 1 else 0.
  Proof. destruct o, i, u, d; reflexivity. Qed.
  Lemma cross_neg_val o i u d :
    entries_data (K:=K) cross_neg_entries [nb o; nb i; nb u; nb d]
    = if Bool.eqb o i && Bool.eqb d (u && negb o) then 1 else 0.
  Proof. destruct o, i, u, d; reflexivity. Qed.
  Lemma paulix_val a b : rows_data (K:=K) paulix_rows [nb a; nb b] = if Bool.eqb a b then 0 else 1.
  Proof. destruct a, b; reflexivity. Qed.
  Lemma ket0_val a : vec_data (K:=K) ket0_entries [nb a] = if a then 0 else 1.
  Proof. destruct a; reflexivity. Qed.

  Definition refof (b : bool) : Z := if b then REF_pos else REF_neg.
  Lemma refof_nth b : nth (Z.to_nat (b2z b)) [REF_neg; REF_pos] REF_bad = refof b.
  Proof. destruct b; reflexivity. Qed.

  Lemma cross_val nt (U : BMx K) p o i u d :
    ctrl_data nt U (refof p) [nb o; nb i; nb u; nb d]
    = if Bool.eqb o i && Bool.eqb d (u && Bool.eqb o p) then 1 else 0.
  Proof.
    destruct p; cbn [refof].
    - change (ctrl_data nt U REF_pos) with (entries_data (K:=K) cross_pos_entries). rewrite cross_pos_val.
      destruct o; reflexivity.
    - change (ctrl_data nt U REF_neg) with (entries_data (K:=K) cross_neg_entries). rewrite cross_neg_val.
      destruct o; reflexivity.
  Qed.

  Lemma reshape_val n (M : BMx K) (r c : bits) : length r = n ->
    reshape_mx n M (map nb (r ++ c)) = M r c.
  Proof.
    intros H. unfold reshape_mx. rewrite map_app.
    rewrite firstn_app_len, skipn_app_len by (rewrite map_length; exact H). rewrite !map_bn_nb. reflexivity.
  Qed.

  (* ================================================================ chain semantics = controlled matrix *)
  Lemma chain_sum_match nt (U : BMx K) (pt : list bool) :
    forall (os is_ : bits) (A Fin : nat -> K) (a : K) (mflag : bool),
      length os = length pt -> length is_ = length pt ->
      (forall u, A (nb u) = a * (if Bool.eqb u mflag then 1 else 0)) ->
      chain_sum (ctrl_data nt U) (combine (combine (map refof pt) (map nb os)) (map nb is_)) A Fin
      = a * (if beq os is_ then 1 else 0) * Fin (nb (mflag && beq os pt)).
  Proof.
    induction pt as [|p pt IH]; intros os is_ A Fin a mflag Ho Hi HA.
    - destruct os; [|discriminate]. destruct is_; [|discriminate]. cbn [map combine chain_sum beq].
      pose proof (HA false) as H0. pose proof (HA true) as H1. cbn [nb] in H0, H1. rewrite H0, H1.
      destruct mflag; cbn [Bool.eqb andb nb]; ring.
    - destruct os as [|o os]; [discriminate|]. destruct is_ as [|i is_]; [discriminate|].
      cbn [map combine chain_sum].
      rewrite (IH os is_ _ Fin (a * (if Bool.eqb o i then 1 else 0)) (mflag && Bool.eqb o p));
        [| cbn in Ho; lia | cbn in Hi; lia |].
      + cbn [beq]. rewrite <- andb_assoc.
        destruct (Bool.eqb o i), (beq os is_); cbn [andb]; ring.
      + intros u.
        pose proof (HA false) as H0. pose proof (HA true) as H1. cbn [nb] in H0, H1. rewrite H0, H1.
        change 1%nat with (nb true). change 0%nat with (nb false). rewrite !cross_val.
        destruct mflag, o, i, p, u; cbn [Bool.eqb andb]; ring.
  Qed.

  (** the chain semantics on a split index, for an arbitrary data dictionary *)
  Definition firstA (data : Z -> list nat -> K) (p0 xo0 xi0 : bool) : nat -> K :=
    if p0 then fun u => delta (nb xo0) u * delta (nb xi0) u
    else fun u => data REF_PauliX [nb xo0; u] * data REF_PauliX [u; nb xi0].

  Lemma ctrl_chain_val_split (data : Z -> list nat -> K) nt (p0 : bool) (pt : list bool) (o0 i0 : bool) (os is_ ot it : bits) :
    length os = length pt -> length is_ = length pt -> length ot = nt -> length it = nt ->
    ctrl_chain_val (S (length pt)) nt (map b2z (p0 :: pt)) data (map nb ((o0 :: os) ++ ot ++ (i0 :: is_) ++ it))
    = chain_sum data (combine (combine (map refof pt) (map nb os)) (map nb is_)) (firstA data p0 o0 i0)
                (fun k => data REF_main (k :: map nb ot ++ map nb it)).
  Proof.
    intros Ho Hi Hot Hit. unfold ctrl_chain_val.
    set (nc := S (length pt)).
    assert (Hoc : length (map nb (o0 :: os)) = nc) by (rewrite map_length; cbn; lia).
    assert (Hic : length (map nb (i0 :: is_)) = nc) by (rewrite map_length; cbn; lia).
    assert (Hot' : length (map nb ot) = nt) by (rewrite map_length; exact Hot).
    assert (Hit' : length (map nb it) = nt) by (rewrite map_length; exact Hit).
    rewrite !map_app.
    rewrite (firstn_app_len _ _ nc Hoc).
    rewrite (skipn_app_len _ _ nc Hoc).
    rewrite (firstn_app_len _ _ nt Hot').
    replace (skipn (nc + nt) (map nb (o0 :: os) ++ map nb ot ++ map nb (i0 :: is_) ++ map nb it))
      with (map nb (i0 :: is_) ++ map nb it).
    2:{ rewrite app_assoc. symmetry. apply skipn_app_len. rewrite app_length. lia. }
    rewrite (firstn_app_len _ _ nc Hic).
    replace (skipn (nc + nt + nc) (map nb (o0 :: os) ++ map nb ot ++ map nb (i0 :: is_) ++ map nb it))
      with (map nb it).
    2:{ rewrite !app_assoc. symmetry. apply skipn_app_len. rewrite !app_length. lia. }
    rewrite (firstn_all2 (map nb it)) by lia.
    cbn [map hd tl]. rewrite map_map.
    replace (map (fun x => nth (Z.to_nat (b2z x)) [REF_neg; REF_pos] REF_bad) pt) with (map refof pt)
      by (apply map_ext; intros b; symmetry; apply refof_nth).
    change (csget (b2z p0 :: map b2z pt) 0) with (b2z p0).
    unfold firstA. destruct p0; reflexivity.
  Qed.

  (** L2 on the chain semantics: for all numbers of controls >= 1, all patterns, all targets *)
  Theorem ctrl_chain_value nt (U : BMx K) (p0 : bool) (pt : list bool) (o0 i0 : bool) (os is_ ot it : bits) :
    length os = length pt -> length is_ = length pt -> length ot = nt -> length it = nt ->
    ctrl_chain_val (S (length pt)) nt (map b2z (p0 :: pt)) (ctrl_data nt U)
                   (map nb ((o0 :: os) ++ ot ++ (i0 :: is_) ++ it))
    = if beq (o0 :: os) (i0 :: is_)
      then (if beq (o0 :: os) (p0 :: pt) then U ot it else mid ot it)
      else 0.
  Proof.
    intros Ho Hi Hot Hit. unfold ctrl_chain_val.
    set (nc := S (length pt)).
    assert (Hoc : length (map nb (o0 :: os)) = nc) by (rewrite map_length; cbn; lia).
    assert (Hic : length (map nb (i0 :: is_)) = nc) by (rewrite map_length; cbn; lia).
    assert (Hot' : length (map nb ot) = nt) by (rewrite map_length; exact Hot).
    assert (Hit' : length (map nb it) = nt) by (rewrite map_length; exact Hit).
    rewrite !map_app.
    rewrite (firstn_app_len _ _ nc Hoc).
    rewrite (skipn_app_len _ _ nc Hoc).
    rewrite (firstn_app_len _ _ nt Hot').
    replace (skipn (nc + nt) (map nb (o0 :: os) ++ map nb ot ++ map nb (i0 :: is_) ++ map nb it))
      with (map nb (i0 :: is_) ++ map nb it).
    2:{ rewrite app_assoc. symmetry. apply skipn_app_len. rewrite app_length. lia. }
    rewrite (firstn_app_len _ _ nc Hic).
    replace (skipn (nc + nt + nc) (map nb (o0 :: os) ++ map nb ot ++ map nb (i0 :: is_) ++ map nb it))
      with (map nb it).
    2:{ rewrite !app_assoc. symmetry. apply skipn_app_len. rewrite !app_length. lia. }
    rewrite (firstn_all2 (map nb it)) by lia.
    cbn [map hd tl]. rewrite map_map.
    replace (map (fun x => nth (Z.to_nat (b2z x)) [REF_neg; REF_pos] REF_bad) pt) with (map refof pt)
      by (apply map_ext; intros b; symmetry; apply refof_nth).
    change (csget (b2z p0 :: map b2z pt) 0) with (b2z p0).
    assert (HF : forall k, ctrl_data nt U REF_main (nb k :: map nb ot ++ map nb it)
                           = if k then U ot it else mid ot it).
    { intros k. change (ctrl_data nt U REF_main) with (ctg_data (K:=K) nt U). unfold ctg_data.
      rewrite bn_nb, <- map_app, !reshape_val by exact Hot. destruct k; reflexivity. }
    rewrite (chain_sum_match nt U pt os is_ _ _ (if Bool.eqb o0 i0 then 1 else 0) (Bool.eqb o0 p0) Ho Hi).
    - rewrite HF. cbn [beq].
      destruct (Bool.eqb o0 i0), (beq os is_), (Bool.eqb o0 p0), (beq os pt); cbn [andb]; ring.
    - intros u. destruct p0; cbn [b2z Z.eqb].
      + rewrite !delta_nb. destruct o0, i0, u; cbn [Bool.eqb]; ring.
      + change (ctrl_data nt U REF_PauliX) with (rows_data (K:=K) paulix_rows). rewrite !paulix_val.
        destruct o0, i0, u; cbn [Bool.eqb]; ring.
  Qed.

  (* ================================================================ wrap *)
  Lemma leg_dim_seq (shp : list nat) a i : (i < length shp)%nat ->
    leg_dim (Z.of_nat (a + i)) (map Z.of_nat (seq a (length shp))) shp = Some (nth i shp O).
  Proof.
    revert a i. induction shp as [|d shp IH]; intros a i H; [cbn in H; lia|].
    cbn [length seq map leg_dim]. destruct i as [|i].
    - rewrite Nat.add_0_r, Z.eqb_refl. reflexivity.
    - destruct (Z.eqb_spec (Z.of_nat a) (Z.of_nat (a + S i))); [lia|].
      replace (a + S i)%nat with (S a + i)%nat by lia. apply IH. cbn in H. lia.
  Qed.

  Theorem wrap_value (shp : list nat) (a : list nat -> K) (x : list nat) :
    length x = length shp -> (forall i, (i < length shp)%nat -> (nth i x O < nth i shp O)%nat) ->
    defining_sum (net_of (wrap_build shp)) (wrap_data a) x = a x.
  Proof.
    intros Hx Hlt. destruct (wrap_build_WF shp) as [B [E [HB W]]]. rewrite E. unfold net_of. cbn [s_T s_B].
    unfold defining_sum.
    assert (KD : bond_kd (mkN (TW shp) B) = combine (zseq (length shp)) shp).
    { unfold bond_kd. cbn [bonds]. rewrite <- HB. unfold dkeys.
      assert (G : forall (l : dict bond), (forall kb, In kb (map fst l) -> 0 <= kb < Z.of_nat (length shp))%Z ->
                  map (fun kb => (fst kb, bond_dim (mkN (TW shp) B) (fst kb))) l
                  = map (fun kb => (fst kb, nth (Z.to_nat (fst kb)) shp O)) l).
      { intros l Hl. apply map_ext_in. intros kb Hin. f_equal. unfold bond_dim. cbn [tensors TW T2 bond_dim_in t_bids t_shape].
        specialize (Hl (fst kb) (in_map fst _ _ Hin)).
        assert (E2 : leg_dim (fst kb) (zseq (length shp)) shp = Some (nth (Z.to_nat (fst kb)) shp O)).
        { pose proof (leg_dim_seq shp 0 (Z.to_nat (fst kb)) ltac:(lia)) as Q.
          replace (Z.of_nat (0 + Z.to_nat (fst kb))) with (fst kb) in Q by lia. exact Q. }
        rewrite E2. reflexivity. }
      rewrite G by (intros kb Hin; fold (dkeys B) in Hin; rewrite HB in Hin; apply In_zseq in Hin; exact Hin).
      fold (dkeys B). clear G.
      transitivity (map (fun k => (k, nth (Z.to_nat k) shp O)) (map fst B)); [rewrite map_map; reflexivity|].
      fold (dkeys B). rewrite HB. unfold zseq. rewrite map_map.
      apply (nth_ext _ _ (0%Z, O) (0%Z, O)).
      - rewrite map_length, combine_length, map_length, seq_length. lia.
      - intros q Hq. rewrite map_length, seq_length in Hq.
        rewrite nth_map_seq by exact Hq. rewrite combine_nth by (rewrite map_length, seq_length; reflexivity).
        rewrite nth_map_seq by exact Hq. cbn [Nat.add]. rewrite Nat2Z.id.
        first [reflexivity | f_equal; apply nth_indep; exact Hq]. }
    rewrite KD. cbn [real_tensors tensors TW T2 filter is_real fst Z.eqb negb map snd t_ref t_bids vbids dget].
    unfold vbids. cbn [tensors TW T2 dget Z.eqb t_bids].
    transitivity (ksum Z.eqb (combine (zseq (length shp)) shp)
                       (fun s => (fun l => a l * 1) (map s (zseq (length shp))) * deltas (K:=K) x (zseq (length shp)) s)
                       (fun _ => O)).
    { apply ksum_ext_fixed. intros s _. unfold wrap_data. cbn [lprod fold_right Z.eqb REF_main]. reflexivity. }
    rewrite (ksum_open_tensor (zseq (length shp)) (NoDup_zseq _) shp x (fun l => a l * 1) (fun _ => O)).
    - ring.
    - rewrite zseq_length. reflexivity.
    - rewrite zseq_length. exact Hx.
    - rewrite zseq_length. exact Hlt.
  Qed.

  (* ================================================================ helpers on real tensors *)
  Lemma real_tens mk base l : (forall j, Z.of_nat (base + j) <> VT) ->
    map snd (filter is_real (tens mk base l)) = map snd (tens mk base l).
  Proof.
    intros H. f_equal. revert base H. induction l as [|a l IH]; intros base H; [reflexivity|].
    cbn [tens filter]. unfold is_real at 1. cbn [fst]. specialize (H 0%nat) as H0. rewrite Nat.add_0_r in H0.
    destruct (Z.eqb_spec (Z.of_nat base) VT); [contradiction|]. cbn [negb]. f_equal. apply IH.
    intros j. replace (S base + j)%nat with (base + S j)%nat by lia. apply H.
  Qed.
  Lemma snd_tens mk base l : map snd (tens mk base l) = map (fun j => mk (base + j)%nat (nth j l [])) (seq 0 (length l)).
  Proof.
    revert base. induction l as [|a l IH]; intros base; [reflexivity|].
    cbn [tens map length seq snd]. rewrite Nat.add_0_r. cbn [nth]. f_equal.
    rewrite IH. rewrite (map_seq_shift _ 1 (length l)). apply map_ext. intros j. cbn [nth].
    replace (S base + j)%nat with (base + (1 + j))%nat by lia. reflexivity.
  Qed.

  (* ================================================================ multiplexer *)
  Lemma mctgl_pos nc nt : map Z.to_nat (mctgl nc nt nt nt nc) = seq (2 * nt) nc ++ seq 0 (2 * nt).
  Proof.
    apply (nth_ext _ _ O O).
    - rewrite map_length, mctgl_length, app_length, !seq_length. lia.
    - intros q Hq. rewrite map_length, mctgl_length in Hq. unfold mctgl. rewrite map_map, nth_map_seq by exact Hq.
      cbn [Nat.add]. unfold mctg.
      destruct (Nat.ltb_spec q nc).
      + rewrite app_nth1 by (rewrite seq_length; exact H). rewrite seq_nth by exact H. ncases.
      + rewrite app_nth2 by (rewrite seq_length; exact H). rewrite seq_length, seq_nth by lia. ncases.
  Qed.
  Lemma moaxl_pos nc nt :
    map Z.to_nat (moaxl nc nt nt nt nc) = seq (2 * nt) nc ++ seq 0 nt ++ seq (2 * nt) nc ++ seq nt nt.
  Proof.
    apply (nth_ext _ _ O O).
    - rewrite map_length, moaxl_length, !app_length, !seq_length. lia.
    - intros q Hq. rewrite map_length, moaxl_length in Hq. unfold moaxl. rewrite map_map, nth_map_seq by exact Hq.
      cbn [Nat.add]. unfold moax.
      destruct (Nat.ltb_spec q nc).
      { rewrite app_nth1 by (rewrite seq_length; exact H). rewrite seq_nth by exact H. ncases. }
      rewrite app_nth2 by (rewrite seq_length; exact H). rewrite seq_length.
      destruct (Nat.ltb_spec q (nc + nt)).
      { rewrite app_nth1 by (rewrite seq_length; lia). rewrite seq_nth by lia. ncases. }
      rewrite app_nth2 by (rewrite seq_length; lia). rewrite seq_length.
      destruct (Nat.ltb_spec q (nc + nt + nc)).
      { rewrite app_nth1 by (rewrite seq_length; lia). rewrite seq_nth by lia. ncases. }
      rewrite app_nth2 by (rewrite seq_length; lia). rewrite seq_length, seq_nth by lia. ncases.
  Qed.

  Lemma TMfinal_props nc nt k t : In (k, t) (TMfinal nc nt) ->
    t_shape t = repeat 2%nat (length (t_bids t)) /\ forall b, In b (t_bids t) -> (0 <= b < Z.of_nat (NMfinal nc nt))%Z.
  Proof.
    unfold TMfinal, TM, T2, NMfinal. intros [E|[E|[]]]; injection E as <- <-; cbn [t_shape t_bids].
    - rewrite mctgl_length. split; [unfold ms0; rewrite <- repeat_app; reflexivity|].
      intros b Hb. apply In_map_seq_g in Hb. destruct Hb as [q [Hq ->]]. unfold mctg. ncases.
    - rewrite moaxl_length. split; [reflexivity|].
      intros b Hb. apply In_map_seq_g in Hb. destruct Hb as [q [Hq ->]]. unfold moax. ncases.
  Qed.

  Theorem mux_value nc nt (Us : list (BMx K)) (oc ot ic it : bits) :
    length oc = nc -> length ic = nc -> length ot = nt -> length it = nt ->
    defining_sum (net_of (mux_build (Z.of_nat nc) (Z.of_nat nt))) (mux_data nc nt Us)
                 (map nb (oc ++ ot ++ ic ++ it))
    = if beq oc ic then nth (b2n oc) Us mzero ot it else 0.
  Proof.
    intros Hoc Hic Hot Hit.
    destruct (mux_build_WF nc nt) as [B [E [HB W]]]. rewrite E. unfold net_of. cbn [s_T s_B].
    rewrite (dsum_bits _ (NMfinal nc nt)); try assumption.
    2:{ intros k t H. apply (TMfinal_props nc nt k t H). }
    2:{ intros k t H. apply (TMfinal_props nc nt k t H). }
    2:{ unfold vbids, VT. cbn [tensors TMfinal TM T2 dget Z.eqb Pos.eqb t_bids]. rewrite moaxl_length, !app_length. lia. }
    unfold vbids, real_tensors, is_real, VT. cbn [tensors TMfinal TM T2 dget Z.eqb Pos.eqb t_bids filter fst negb map snd t_ref].
    rewrite mctgl_pos, moaxl_pos. unfold bits_sum, NMfinal.
    replace (2 * nt + nc)%nat with (nt + (nt + nc))%nat by lia.
    rewrite bsum_add.
    transitivity (bsum nt (fun t1 => bsum nt (fun t2 => bsum nc (fun c =>
        (if beq oc c then 1 else 0) * ((if beq ot t1 then 1 else 0) * ((if beq it t2 then 1 else 0) *
        ((if beq ic c then 1 else 0) * mux_data nc nt Us REF_main (map nb (c ++ t1 ++ t2))))))))).
    { apply bsum_ext. intros t1 H1. rewrite bsum_add. apply bsum_ext. intros t2 H2. apply bsum_ext. intros c Hc.
      cbn [map lprod fold_right fst snd].
      assert (R1 : rd (t1 ++ t2 ++ c) (seq (2 * nt) nc) = c).
      { rewrite rd_seq by (rewrite !app_length; lia). rewrite app_assoc, skipn_app_len by (rewrite app_length; lia).
        apply firstn_all2. lia. }
      assert (R2 : rd (t1 ++ t2 ++ c) (seq 0 (2 * nt)) = t1 ++ t2).
      { rewrite rd_seq by (rewrite !app_length; lia). cbn [skipn]. rewrite app_assoc. apply firstn_app_len. rewrite app_length. lia. }
      assert (R3 : rd (t1 ++ t2 ++ c) (seq 0 nt) = t1).
      { rewrite rd_seq by (rewrite !app_length; lia). cbn [skipn]. apply firstn_app_len. exact H1. }
      assert (R4 : rd (t1 ++ t2 ++ c) (seq nt nt) = t2).
      { rewrite rd_seq by (rewrite !app_length; lia). rewrite skipn_app_len by exact H1. apply firstn_app_len. exact H2. }
      rewrite !rd_app, R1, R2, R3, R4.
      rewrite if_beq_app by lia. rewrite if_beq_app by lia. rewrite if_beq_app by lia.
      ring. }
    transitivity (bsum nt (fun t1 => bsum nt (fun t2 =>
        (if beq ot t1 then 1 else 0) * ((if beq it t2 then 1 else 0) *
        ((if beq ic oc then 1 else 0) * mux_data nc nt Us REF_main (map nb (oc ++ t1 ++ t2))))))).
    { apply bsum_ext. intros t1 H1. apply bsum_ext. intros t2 H2.
      apply (bsum_delta_l nc oc (fun c => (if beq ot t1 then 1 else 0) * ((if beq it t2 then 1 else 0) *
        ((if beq ic c then 1 else 0) * mux_data nc nt Us REF_main (map nb (c ++ t1 ++ t2))))) Hoc). }
    transitivity (bsum nt (fun t1 => (if beq ot t1 then 1 else 0) *
        ((if beq ic oc then 1 else 0) * mux_data nc nt Us REF_main (map nb (oc ++ t1 ++ it))))).
    { apply bsum_ext. intros t1 H1. rewrite bsum_scal. f_equal.
      apply (bsum_delta_l nt it (fun t2 => (if beq ic oc then 1 else 0) * mux_data nc nt Us REF_main (map nb (oc ++ t1 ++ t2))) Hit). }
    rewrite (bsum_delta_l nt ot (fun t1 => (if beq ic oc then 1 else 0) * mux_data nc nt Us REF_main (map nb (oc ++ t1 ++ it))) Hot).
    unfold mux_data. cbn [Z.eqb REF_main]. rewrite map_app.
    rewrite firstn_app_len, skipn_app_len by (rewrite map_length; exact Hoc).
    rewrite map_bn_nb, reshape_val by exact Hot. rewrite (beq_sym ic oc).
    destruct (beq oc ic); ring.
  Qed.

  (* ================================================================ prepare *)
  Lemma to_nat_zseq n : map Z.to_nat (zseq n) = seq 0 n.
  Proof. unfold zseq. rewrite map_map. rewrite <- (map_id (seq 0 n)) at 2. apply map_ext. intros q. apply Nat2Z.id. Qed.
  Lemma to_nat_map_of_nat l : map Z.to_nat (map Z.of_nat l) = l.
  Proof. rewrite map_map. rewrite <- (map_id l) at 2. apply map_ext. intros q. apply Nat2Z.id. Qed.

  Definition allfalse (l : bits) : bool := forallb negb l.

  Lemma ket_prod (v : bits) :
    lprod (map (fun j => vec_data (K:=K) ket0_entries [nb (nth j v false)]) (seq 0 (length v)))
    = if allfalse v then 1 else 0.
  Proof.
    induction v as [|b v IH]; [reflexivity|].
    cbn [length seq map lprod fold_right nth]. rewrite (map_seq_shift _ 1 (length v)).
    cbn [Nat.add nth]. fold (lprod (K:=K)). unfold lprod in IH. rewrite IH. rewrite ket0_val.
    cbn [allfalse forallb]. destruct b; cbn [negb andb]; [ring|]. fold (allfalse v). destruct (allfalse v); ring.
  Qed.

  Lemma TQ_props n tr k t : In (k, t) (TQ n tr) ->
    t_shape t = repeat 2%nat (length (t_bids t)) /\ forall b, In b (t_bids t) -> (0 <= b < Z.of_nat (2 * n))%Z.
  Proof.
    unfold TQ, TQr. intros Hin. apply in_app_or in Hin. destruct Hin as [[E'|Hin]|[E'|[]]].
    - injection E' as <- <-. cbn [t_shape t_bids]. rewrite zseq_length. split; [reflexivity|].
      intros b Hb. apply In_zseq in Hb. lia.
    - apply In_tens in Hin. destruct Hin as [j [Hj [-> ->]]]. rewrite krows_length in Hj.
      rewrite nth_map_seq by lia. cbn [Nat.add mkk krow t_shape t_bids length]. split; [reflexivity|].
      intros b [<-|[]]; lia.
    - injection E' as <- <-. cbn [t_shape t_bids].
      assert (Lq : length (qvb n tr) = (2 * n)%nat).
      { unfold qvb. destruct tr; cbn [negb]; rewrite ?app_length, ?map_length, ?seq_length, ?zseq_length; lia. }
      rewrite Lq. split; [reflexivity|].
      intros b Hb. pose proof (qvb_cnt n tr b) as Q. apply zcount_pos in Hb.
      destruct (Z.leb_spec 0 b), (Z.ltb_spec b (Z.of_nat (2 * n))); cbn [andb] in Q; lia.
  Qed.

  Theorem prep_value n tr (x : bits -> K) (xo xi : bits) :
    length xo = n -> length xi = n ->
    defining_sum (net_of (prep_build (Z.of_nat n) tr)) (prep_data x) (map nb (xo ++ xi))
    = if tr then (if allfalse xo then 1 else 0) * x xi else x xo * (if allfalse xi then 1 else 0).
  Proof.
    intros Hxo Hxi.
    destruct (prep_build_WF n tr) as [B [E [HB W]]]. rewrite E. unfold net_of. cbn [s_T s_B].
    assert (Lq : length (qvb n tr) = (2 * n)%nat).
    { unfold qvb. destruct tr; cbn [negb]; rewrite ?app_length, ?map_length, ?seq_length, ?zseq_length; lia. }
    assert (VB : vbids (mkN (TQ n tr) B) = qvb n tr).
    { unfold vbids, TQ, TQr. cbn [tensors]. rewrite dget_app. rewrite dget_cons_ne by (unfold VT; lia).
      rewrite dget_tens. unfold VT. cbn [Z.of_nat Z.leb Z.compare andb dget Z.eqb Pos.eqb t_bids]. reflexivity. }
    rewrite (dsum_bits _ (2 * n)); try assumption.
    2:{ intros k t H. apply (TQ_props n tr k t H). }
    2:{ intros k t H. apply (TQ_props n tr k t H). }
    2:{ rewrite VB, Lq, app_length. lia. }
    rewrite VB.
    assert (RT : real_tensors (mkN (TQ n tr) B)
                 = mkT 0 (repeat 2%nat n) (zseq n) REF_main :: map (fun j => mkk (1 + j) (krow n j)) (seq 0 n)).
    { unfold real_tensors, TQ, TQr. cbn [tensors]. rewrite filter_app. cbn [filter]. unfold is_real at 1 3. cbn [fst].
      unfold VT. cbn [Z.eqb Pos.eqb negb]. rewrite app_nil_r. cbn [map snd]. f_equal.
      fold VT. rewrite real_tens by (intros j; unfold VT; lia). rewrite snd_tens, krows_length.
      apply map_ext_in. intros j Hj. apply in_seq in Hj. rewrite nth_map_seq by lia. reflexivity. }
    rewrite RT. cbn [map t_ref t_bids]. rewrite to_nat_zseq, map_map. cbn [mkk t_ref t_bids krow map].
    unfold bits_sum. replace (2 * n)%nat with (n + n)%nat by lia. rewrite bsum_add.
    transitivity (bsum n (fun u => bsum n (fun v =>
        (if beq (if tr then xi else xo) u then 1 else 0) * ((if beq (if tr then xo else xi) v then 1 else 0)
        * (x u * (if allfalse v then 1 else 0)))))).
    { apply bsum_ext. intros u Hu. apply bsum_ext. intros v Hv.
      cbn [map lprod fold_right fst snd].
      assert (R1 : rd (u ++ v) (seq 0 n) = u).
      { rewrite rd_seq by (rewrite app_length; lia). cbn [skipn]. apply firstn_app_len. exact Hu. }
      rewrite R1.
      assert (P1 : fold_right smul 1 (map (fun t => prep_data x (fst t) (map nb (rd (u ++ v) (snd t))))
                                     (map (fun j => (REF_ket0, [Z.to_nat (Z.of_nat n + Z.of_nat j)])) (seq 0 n)))
                   = if allfalse v then 1 else 0).
      { rewrite <- (ket_prod v), Hv. unfold lprod. f_equal. rewrite map_map. apply map_ext_in. intros j Hj.
        apply in_seq in Hj. cbn [fst snd rd map]. unfold prep_data. cbn [Z.eqb REF_ket0 REF_main Pos.eqb].
        replace (Z.to_nat (Z.of_nat n + Z.of_nat j)) with (n + j)%nat by lia.
        rewrite app_nth2 by lia. rewrite Hu. replace (n + j - n)%nat with j by lia. reflexivity. }
      rewrite P1. unfold prep_data at 1. cbn [Z.eqb REF_main]. rewrite map_bn_nb.
      assert (VP : rd (u ++ v) (map Z.to_nat (qvb n tr)) = if tr then v ++ u else u ++ v).
      { unfold qvb. destruct tr; cbn [negb].
        - rewrite map_app, to_nat_zseq, to_nat_map_of_nat, rd_app.
          rewrite rd_seq by (rewrite app_length; lia). rewrite skipn_app_len by exact Hu. rewrite firstn_all2 by lia.
          rewrite rd_seq by (rewrite app_length; lia). cbn [skipn]. rewrite firstn_app_len by exact Hu. reflexivity.
        - rewrite to_nat_zseq. replace (2 * n)%nat with (length (u ++ v)) by (rewrite app_length; lia). apply rd_seq_all. }
      rewrite VP. destruct tr.
      - rewrite if_beq_app by lia. ring.
      - rewrite if_beq_app by lia. ring. }
    transitivity (bsum n (fun u => (if beq (if tr then xi else xo) u then 1 else 0)
                                   * (x u * (if allfalse (if tr then xo else xi) then 1 else 0)))).
    { apply bsum_ext. intros u Hu. rewrite bsum_scal. f_equal.
      apply (bsum_delta_l n (if tr then xo else xi) (fun v => x u * (if allfalse v then 1 else 0))).
      destruct tr; assumption. }
    rewrite (bsum_delta_l n (if tr then xi else xo) (fun u => x u * (if allfalse (if tr then xo else xi) then 1 else 0)))
      by (destruct tr; assumption).
    destruct tr; ring.
  Qed.

  (* ================================================================ phase factor *)
  Definition kpow (w : K) (n : nat) : K := Nat.iter n (smul w) 1.
  Definition evp (n : nat) : list nat := map (fun q => (2 * q)%nat) (seq 0 n).
  Definition odp (n : nat) : list nat := map (fun q => (2 * q + 1)%nat) (seq 0 n).

  Definition phsum (w : K) (n : nat) (bs xo xi : bits) : K :=
    lprod (map (fun j => phase_data w REF_main [nb (nth (2 * j) bs false); nb (nth (2 * j + 1) bs false)]) (seq 0 n))
    * (if beq (xo ++ xi) (rd bs (evp n) ++ rd bs (odp n)) then 1 else 0).

  Lemma phd_val (w : K) a b : phase_data w REF_main [nb a; nb b] = if Bool.eqb a b then w else 0.
  Proof. destruct a, b; reflexivity. Qed.

  Lemma phsum_S (w : K) n a b bs xo0 xo xi0 xi : length xo = n -> length xi = n -> length bs = (2 * n)%nat ->
    phsum w (S n) (a :: b :: bs) (xo0 :: xo) (xi0 :: xi)
    = ((if Bool.eqb a b then w else 0) * (if Bool.eqb xo0 a then 1 else 0) * (if Bool.eqb xi0 b then 1 else 0))
      * phsum w n bs xo xi.
  Proof.
    intros Hxo Hxi Hbs. unfold phsum.
    assert (E1 : rd (a :: b :: bs) (evp (S n)) = a :: rd bs (evp n)).
    { unfold evp, rd. cbn [seq map]. rewrite (map_seq_shift _ 1 n). rewrite !map_map. f_equal.
      apply map_ext. intros q. replace (2 * (1 + q))%nat with (S (S (2 * q))) by lia. reflexivity. }
    assert (E2 : rd (a :: b :: bs) (odp (S n)) = b :: rd bs (odp n)).
    { unfold odp, rd. cbn [seq map]. rewrite (map_seq_shift _ 1 n). rewrite !map_map. f_equal.
      apply map_ext. intros q. replace (2 * (1 + q) + 1)%nat with (S (S (2 * q + 1))) by lia. reflexivity. }
    rewrite E1, E2.
    assert (E3 : map (fun j => phase_data w REF_main [nb (nth (2 * j) (a :: b :: bs) false); nb (nth (2 * j + 1) (a :: b :: bs) false)]) (seq 0 (S n))
                 = phase_data w REF_main [nb a; nb b]
                   :: map (fun j => phase_data w REF_main [nb (nth (2 * j) bs false); nb (nth (2 * j + 1) bs false)]) (seq 0 n)).
    { cbn [seq map]. f_equal. rewrite (map_seq_shift _ 1 n). apply map_ext. intros q.
      replace (2 * (1 + q))%nat with (S (S (2 * q))) by lia.
      replace (S (S (2 * q)) + 1)%nat with (S (S (2 * q + 1))) by lia. reflexivity. }
    rewrite E3. cbn [lprod fold_right]. fold (lprod (K:=K)). rewrite phd_val.
    change ((xo0 :: xo) ++ xi0 :: xi) with (xo0 :: (xo ++ xi0 :: xi)).
    change ((a :: rd bs (evp n)) ++ b :: rd bs (odp n)) with (a :: (rd bs (evp n) ++ b :: rd bs (odp n))).
    cbn [beq].
    assert (L1 : length xo = length (rd bs (evp n))) by (rewrite rd_length; unfold evp; rewrite map_length, seq_length; exact Hxo).
    rewrite (beq_app xo (xi0 :: xi) _ _ L1). cbn [beq]. rewrite (beq_app xo xi _ _ L1).
    unfold lprod. destruct (Bool.eqb a b), (Bool.eqb xo0 a), (Bool.eqb xi0 b), (beq xo (rd bs (evp n))), (beq xi (rd bs (odp n))); cbn [andb]; ring.
  Qed.

  Lemma phase_bits (w : K) n : forall xo xi, length xo = n -> length xi = n ->
    bsum (2 * n) (fun bs => phsum w n bs xo xi) = if beq xo xi then kpow w n else 0.
  Proof.
    induction n as [|n IH]; intros xo xi Hxo Hxi.
    - destruct xo; [|discriminate]. destruct xi; [|discriminate]. cbn [Nat.mul]. rewrite bsum_0. unfold phsum. cbn. ring.
    - destruct xo as [|xo0 xo]; [discriminate|]. destruct xi as [|xi0 xi]; [discriminate|].
      cbn [length] in Hxo, Hxi. replace (2 * S n)%nat with (S (S (2 * n))) by lia. rewrite !bsum_S.
      assert (Q : forall a b, bsum (2 * n) (fun bs => phsum w (S n) (a :: b :: bs) (xo0 :: xo) (xi0 :: xi))
                  = ((if Bool.eqb a b then w else 0) * (if Bool.eqb xo0 a then 1 else 0) * (if Bool.eqb xi0 b then 1 else 0))
                    * (if beq xo xi then kpow w n else 0)).
      { intros a b. rewrite <- (IH xo xi) by lia. rewrite <- bsum_scal. apply bsum_ext. intros bs Hbs.
        apply phsum_S; lia. }
      rewrite !Q. change (kpow w (S n)) with (w * kpow w n). cbn [beq].
      destruct xo0, xi0, (beq xo xi); cbn [Bool.eqb andb]; ring.
  Qed.

  Lemma TP_props n k t : In (k, t) (TP n) ->
    t_shape t = repeat 2%nat (length (t_bids t)) /\ forall b, In b (t_bids t) -> (0 <= b < Z.of_nat (2 * n))%Z.
  Proof.
    unfold TP, TPr. intros Hin. apply in_app_or in Hin. destruct Hin as [Hin|[E'|[]]].
    - apply In_tens in Hin. destruct Hin as [j [Hj [-> ->]]]. rewrite TPr_length in Hj.
      rewrite nth_map_seq by lia. cbn [Nat.add mkp prow t_shape t_bids length]. split; [reflexivity|].
      intros b [<-|[<-|[]]]; lia.
    - injection E' as <- <-. cbn [t_shape t_bids]. unfold pvb. rewrite map_length, seq_length. split; [reflexivity|].
      intros b Hb. apply In_map_seq_g in Hb. destruct Hb as [q [Hq ->]]. ncases.
  Qed.

  Lemma pvb_pos n : map Z.to_nat (pvb n) = evp n ++ odp n.
  Proof.
    unfold pvb, evp, odp. rewrite map_map. replace (2 * n)%nat with (n + n)%nat by lia.
    rewrite seq_app, map_app. cbn [Nat.add]. f_equal.
    - apply map_ext_in. intros q Hq. apply in_seq in Hq. ncases.
    - rewrite (map_seq_shift _ n n). apply map_ext_in. intros q Hq. apply in_seq in Hq. ncases.
  Qed.

  Theorem phase_value n (w : K) (xo xi : bits) :
    length xo = n -> length xi = n ->
    defining_sum (net_of (phase_build (Z.of_nat n))) (phase_data w) (map nb (xo ++ xi))
    = if beq xo xi then kpow w n else 0.
  Proof.
    intros Hxo Hxi.
    destruct (phase_build_WF n) as [B [E [HB W]]]. rewrite E. unfold net_of. cbn [s_T s_B].
    assert (VB : vbids (mkN (TP n) B) = pvb n).
    { unfold vbids, TP, TPr. cbn [tensors]. rewrite dget_app, dget_tens. unfold VT.
      cbn [Z.of_nat Z.leb Z.compare andb dget Z.eqb Pos.eqb t_bids]. reflexivity. }
    rewrite (dsum_bits _ (2 * n)); try assumption.
    2:{ intros k t H. apply (TP_props n k t H). }
    2:{ intros k t H. apply (TP_props n k t H). }
    2:{ rewrite VB. unfold pvb. rewrite map_length, seq_length, app_length. lia. }
    rewrite VB, pvb_pos.
    assert (RT : real_tensors (mkN (TP n) B) = map (fun j => mkp j (prow j)) (seq 0 n)).
    { unfold real_tensors, TP, TPr. cbn [tensors]. rewrite filter_app. cbn [filter]. unfold is_real at 2. cbn [fst].
      unfold VT. cbn [Z.eqb Pos.eqb negb]. rewrite app_nil_r.
      fold VT. rewrite real_tens by (intros j; unfold VT; lia). rewrite snd_tens, TPr_length.
      apply map_ext_in. intros j Hj. apply in_seq in Hj. rewrite nth_map_seq by lia. reflexivity. }
    rewrite RT, map_map. cbn [mkp t_ref t_bids prow map].
    rewrite <- (phase_bits w n xo xi Hxo Hxi). unfold bits_sum. apply bsum_ext. intros bs Hbs.
    unfold phsum. rewrite rd_app. f_equal. f_equal. rewrite map_map. apply map_ext. intros j.
    cbn [fst snd rd map].
    replace (Z.to_nat (2 * Z.of_nat j)) with (2 * j)%nat by lia.
    replace (Z.to_nat (2 * Z.of_nat j + 1)) with (2 * j + 1)%nat by lia. reflexivity.
  Qed.
End Value.
