(** C06 - from the generic defining sum of a network (TN.TNValue.defining_sum: a sum over all
    assignments of all bonds) to a sum over bit lists, for networks whose bonds are
    0..N-1 and whose dimensions are all 2; and the value of a single wrapped tensor for
    arbitrary dimensions.  Generic in the scalar ring. *)
From Qib Require Export GateNet.GateNetOther.
Local Open Scope Z_scope.

Section Sum.
  Context {K : Scalar} {L : ScalarLaws K}.
  Local Open Scope K_scope.
  Add Ring KringGN : (s_ring K L).

  (* ---------------------------------------------------------------- keyed sums *)
  Lemma ksum_ext_fixed (kd : list (Z * nat)) (F F' : (Z -> nat) -> K) e :
    (forall s, (forall k, ~ In k (map fst kd) -> s k = e k) -> F s = F' s) ->
    ksum Z.eqb kd F e = ksum Z.eqb kd F' e.
  Proof.
    revert e. induction kd as [|[k d] r IH]; intros e H; cbn [ksum].
    - apply H. intros; reflexivity.
    - f_equal. apply map_ext. intros v. apply IH. intros s Hs. apply H.
      intros k' Hk'. cbn [map fst In] in Hk'. rewrite Hs by tauto.
      unfold upd. destruct (Z.eqb_spec k' k); [exfalso; apply Hk'; left; congruence | reflexivity].
  Qed.

  Lemma ksum_scal (kd : list (Z * nat)) c (F : (Z -> nat) -> K) e :
    ksum Z.eqb kd (fun s => c * F s) e = c * ksum Z.eqb kd F e.
  Proof.
    revert e. induction kd as [|[k d] r IH]; intros e; cbn [ksum]; [reflexivity|].
    rewrite <- lsum_map_scal. f_equal. apply map_ext. intros v. apply IH.
  Qed.

  (** a key that is not summed keeps its value *)
  Lemma ksum_fix_key (kd : list (Z * nat)) (F F' : (Z -> nat) -> K) e k0 :
    ~ In k0 (map fst kd) -> (forall s, s k0 = e k0 -> F s = F' s) ->
    ksum Z.eqb kd F e = ksum Z.eqb kd F' e.
  Proof. intros H HF. apply ksum_ext_fixed. intros s Hs. apply HF. apply Hs. exact H. Qed.

  Lemma lsum_delta_seq (x d : nat) (h : nat -> K) : (x < d)%nat ->
    lsum (map (fun v => delta x v * h v) (seq 0 d)) = h x.
  Proof.
    intros H. rewrite (lsum_map_single _ _ x).
    - unfold delta. rewrite Nat.eqb_refl. ring.
    - apply seq_NoDup.
    - apply in_seq. lia.
    - intros v _ Hne. unfold delta. destruct (Nat.eqb_spec x v); [congruence | ring].
  Qed.

  (** one tensor whose legs are all open, on distinct bonds: the defining sum is the tensor *)
  Lemma ksum_open_tensor (ks : list Z) : NoDup ks ->
    forall (ds x : list nat) (G : list nat -> K) e,
      length ds = length ks -> length x = length ks ->
      (forall i, (i < length ks)%nat -> (nth i x O < nth i ds O)%nat) ->
      ksum Z.eqb (combine ks ds) (fun s => G (map s ks) * deltas (K:=K) x ks s) e = G x.
  Proof.
    induction 1 as [|k ks Hk ND IH]; intros ds x G e Hd Hx Hlt.
    - destruct x; [|discriminate]. cbn. ring.
    - destruct ds as [|d ds]; [discriminate|]. destruct x as [|x0 x]; [discriminate|].
      cbn [combine ksum length] in *.
      transitivity (lsum (map (fun v => delta x0 v * G (v :: x)) (seq 0 d))).
      + f_equal. apply map_ext. intros v.
        transitivity (ksum Z.eqb (combine ks ds)
                           (fun s => delta x0 v * ((fun l => G (v :: l)) (map s ks) * deltas (K:=K) x ks s)) (upd Z.eqb e k v)).
        * apply ksum_fix_key with (k0 := k).
          { intros Hin. apply Hk. clear -Hin. revert ds Hin. induction ks as [|a ks IHk]; intros [|d ds] Hin; cbn in *; try tauto.
            destruct Hin as [E|Hin]; [left; exact E | right; eapply IHk; exact Hin]. }
          intros s Hs. unfold upd in Hs. rewrite Z.eqb_refl in Hs. cbn [map deltas]. rewrite Hs. ring.
        * rewrite ksum_scal. f_equal.
          apply (IH ds x (fun l => G (v :: l))); [lia | lia|].
          intros i Hi. apply (Hlt (S i)). lia.
      + apply (lsum_delta_seq x0 d (fun v => G (v :: x))). apply (Hlt O). lia.
  Qed.

  (* ---------------------------------------------------------------- bonds of dimension 2 = bits *)
  Fixpoint upds (e : Z -> nat) (ks : list Z) (bs : bits) : Z -> nat :=
    match ks, bs with
    | k :: ks', b :: bs' => upds (upd Z.eqb e k (nb b)) ks' bs'
    | _, _ => e
    end.

  Lemma ksum_bits (ks : list Z) (F : (Z -> nat) -> K) e :
    ksum Z.eqb (map (fun k => (k, 2%nat)) ks) F e = bsum (length ks) (fun bs => F (upds e ks bs)).
  Proof.
    revert e. induction ks as [|k ks IH]; intros e; cbn [map ksum length].
    - rewrite bsum_0. reflexivity.
    - rewrite bsum_S. cbn [seq map]. rewrite !lsum_cons, lsum_nil, !IH. cbn [upds nb]. ring.
  Qed.

  Lemma upds_zseq e a n bs j : length bs = n ->
    upds e (map Z.of_nat (seq a n)) bs (Z.of_nat j)
    = if (a <=? j)%nat && (j <? a + n)%nat then nb (nth (j - a) bs false) else e (Z.of_nat j).
  Proof.
    revert e a bs. induction n as [|n IH]; intros e a bs Hb.
    - destruct bs; [|discriminate]. cbn [seq map upds].
      destruct (Nat.leb_spec a j), (Nat.ltb_spec j (a + 0)); cbn [andb]; try reflexivity; lia.
    - destruct bs as [|b bs]; [discriminate|]. cbn [seq map upds]. rewrite IH by (cbn in Hb; lia).
      unfold upd.
      destruct (Nat.leb_spec (S a) j), (Nat.ltb_spec j (S a + n)), (Nat.leb_spec a j), (Nat.ltb_spec j (a + S n));
        cbn [andb]; try lia;
        destruct (Z.eqb_spec (Z.of_nat j) (Z.of_nat a)) as [E|E]; try lia; try reflexivity.
      + replace (j - a)%nat with (S (j - S a)) by lia. reflexivity.
      + assert (j = a) by lia. subst. rewrite Nat.sub_diag. reflexivity.
  Qed.

  (** read a bit list at a list of positions *)
  Definition rd (bs : bits) (ps : list nat) : bits := map (fun p => nth p bs false) ps.

  Lemma rd_env bs N (bids : list Z) :
    length bs = N -> (forall b, In b bids -> 0 <= b < Z.of_nat N)%Z ->
    map (upds (fun _ => O) (zseq N) bs) bids = map nb (rd bs (map Z.to_nat bids)).
  Proof.
    intros Hb Hr. unfold rd. rewrite !map_map. apply map_ext_in. intros b Hin. specialize (Hr b Hin).
    replace b with (Z.of_nat (Z.to_nat b)) at 1 by lia. unfold zseq. rewrite upds_zseq by exact Hb.
    destruct (Nat.leb_spec 0 (Z.to_nat b)), (Nat.ltb_spec (Z.to_nat b) (0 + N)); cbn [andb]; try lia.
    rewrite Nat.sub_0_r. reflexivity.
  Qed.

  Lemma delta_nb a b : delta (K:=K) (nb a) (nb b) = if Bool.eqb a b then 1 else 0.
  Proof. destruct a, b; reflexivity. Qed.

  Lemma deltas_beq (xb yb : bits) (vb : list Z) (s : Z -> nat) :
    length xb = length vb -> map s vb = map nb yb ->
    deltas (K:=K) (map nb xb) vb s = if beq xb yb then 1 else 0.
  Proof.
    revert yb vb. induction xb as [|x xb IH]; intros yb vb Hl Hm.
    - destruct vb; [|discriminate]. destruct yb; [|discriminate]. reflexivity.
    - destruct vb as [|v vb]; [discriminate|]. destruct yb as [|y yb]; [discriminate|].
      cbn [map] in Hm. injection Hm as Hv Hm. cbn [map deltas beq]. rewrite Hv, delta_nb, (IH yb vb) by (cbn in Hl; lia || exact Hm).
      destruct (Bool.eqb x y), (beq xb yb); cbn [andb]; ring.
  Qed.

  (** dimension of a bond when every tensor has only legs of dimension 2 *)
  Lemma leg_dim_two bid bids : In bid bids -> leg_dim bid bids (repeat 2%nat (length bids)) = Some 2%nat.
  Proof.
    induction bids as [|b r IH]; [intros []|]. intros H. cbn [length repeat leg_dim].
    destruct (Z.eqb_spec b bid); [reflexivity|]. apply IH. destruct H; [congruence | assumption].
  Qed.
  Lemma leg_dim_none bid bids shp : ~ In bid bids -> leg_dim bid bids shp = None.
  Proof.
    revert shp. induction bids as [|b r IH]; intros shp H; [reflexivity|]. destruct shp; [reflexivity|]. cbn [leg_dim].
    destruct (Z.eqb_spec b bid); [exfalso; apply H; left; assumption|]. apply IH. intros Hin. apply H. right. exact Hin.
  Qed.
  Lemma bond_dim_two (T : dict tensor) bid :
    (forall k t, In (k, t) T -> t_shape t = repeat 2%nat (length (t_bids t))) ->
    (exists k t, In (k, t) T /\ In bid (t_bids t)) ->
    bond_dim_in T bid = 2%nat.
  Proof.
    induction T as [|[k t] T IH]; intros Hs [k0 [t0 [Hin Hb]]]; [destruct Hin|].
    cbn [bond_dim_in].
    destruct (in_dec Z.eq_dec bid (t_bids t)) as [Hi|Hn].
    - rewrite (Hs k t) by (left; reflexivity). rewrite leg_dim_two by exact Hi. reflexivity.
    - rewrite leg_dim_none by exact Hn. apply IH.
      + intros k' t' H. apply (Hs k' t'). right. exact H.
      + destruct Hin as [E|Hin]; [injection E as <- <-; contradiction|]. exists k0, t0. split; assumption.
  Qed.

  (** every bond of a well-formed network is carried by a leg *)
  Lemma WF_bond_has_leg n kb : WF n -> In kb (dkeys (bonds n)) -> exists k t, In (k, t) (tensors n) /\ In kb (t_bids t).
  Proof.
    intros [W _] Hk. apply In_key_dget in Hk. destruct Hk as [b Hb].
    pose proof (dget_In _ _ _ Hb) as Hin. destruct (wf_B n W kb b Hin) as [_ Hlen].
    destruct (b_tids b) as [|k r] eqn:Et; [cbn in Hlen; lia|].
    pose proof (wf_inc n W k kb) as E. unfold cntT, cntB in E. rewrite Hb, Et, zcount_cons, Z.eqb_refl in E.
    destruct (dget k (tensors n)) as [t|] eqn:Eg; [|lia].
    exists k, t. split; [apply dget_In; exact Eg|]. apply zcount_pos. lia.
  Qed.

  Definition all_two (n : net) : Prop :=
    forall k t, In (k, t) (tensors n) -> t_shape t = repeat 2%nat (length (t_bids t)).

  Lemma bond_kd_two n N : WF n -> all_two n -> dkeys (bonds n) = zseq N ->
    bond_kd n = map (fun k => (k, 2%nat)) (zseq N).
  Proof.
    intros W A Hk. unfold bond_kd. rewrite <- Hk. unfold dkeys. rewrite map_map. apply map_ext_in.
    intros [kb b] Hin. cbn [fst]. f_equal. unfold bond_dim. apply bond_dim_two; [exact A|].
    apply WF_bond_has_leg; [exact W|]. apply (in_map fst) in Hin. exact Hin.
  Qed.

  (** the defining sum as a sum over N bits *)
  Definition bits_sum (N : nat) (ts : list (Z * list nat)) (vpos : list nat)
                      (data : Z -> list nat -> K) (xb : bits) : K :=
    bsum N (fun bs => lprod (map (fun t => data (fst t) (map nb (rd bs (snd t)))) ts)
                      * (if beq xb (rd bs vpos) then 1 else 0)).

  Theorem dsum_bits n N data xb :
    WF n -> all_two n -> dkeys (bonds n) = zseq N ->
    (forall k t, In (k, t) (tensors n) -> forall b, In b (t_bids t) -> (0 <= b < Z.of_nat N)%Z) ->
    length xb = length (vbids n) ->
    defining_sum n data (map nb xb)
    = bits_sum N (map (fun t => (t_ref t, map Z.to_nat (t_bids t))) (real_tensors n))
               (map Z.to_nat (vbids n)) data xb.
  Proof.
    intros W A Hk Hr Hx. unfold defining_sum, bits_sum.
    rewrite (bond_kd_two n N W A Hk), ksum_bits. unfold zseq at 1. rewrite map_length, seq_length.
    apply bsum_ext. intros bs Hbs. f_equal.
    - rewrite map_map. f_equal. apply map_ext_in. intros t Ht. cbn [fst snd]. f_equal.
      apply rd_env; [exact Hbs|]. intros b Hb.
      unfold real_tensors in Ht. apply in_map_iff in Ht. destruct Ht as [[k t'] [E Hin]]. cbn in E. subst t'.
      apply filter_In in Hin. destruct Hin as [Hin _]. apply (Hr k t Hin b Hb).
    - apply deltas_beq; [exact Hx|]. apply rd_env; [exact Hbs|].
      unfold vbids. destruct (dget VT (tensors n)) as [t|] eqn:E; [|intros b []].
      apply dget_In in E. apply (Hr VT t E).
  Qed.

  (* ---------------------------------------------------------------- reading bit lists *)
  Lemma rd_app_l b1 b2 ps : (forall p, In p ps -> (p < length b1)%nat) -> rd (b1 ++ b2) ps = rd b1 ps.
  Proof. intros H. unfold rd. apply map_ext_in. intros p Hp. apply app_nth1. apply H. exact Hp. Qed.
  Lemma rd_app_r b1 b2 ps : (forall p, In p ps -> (length b1 <= p)%nat) ->
    rd (b1 ++ b2) ps = rd b2 (map (fun p => (p - length b1)%nat) ps).
  Proof. intros H. unfold rd. rewrite map_map. apply map_ext_in. intros p Hp. apply app_nth2. apply H. exact Hp. Qed.
  Lemma nth_firstn_lt {A} (l : list A) n q d : (q < n)%nat -> nth q (firstn n l) d = nth q l d.
  Proof.
    revert l q. induction n as [|n IH]; intros l q H; [lia|].
    destruct l as [|x l]; [destruct q; reflexivity|]. destruct q as [|q]; [reflexivity|]. cbn. apply IH. lia.
  Qed.
  Lemma nth_skipn_add {A} (l : list A) a q d : nth q (skipn a l) d = nth (a + q) l d.
  Proof.
    revert l. induction a as [|a IH]; intros l; [reflexivity|]. destruct l as [|x l]; [destruct q; reflexivity|]. cbn. apply IH.
  Qed.
  Lemma rd_seq bs a n : (a + n <= length bs)%nat -> rd bs (seq a n) = firstn n (skipn a bs).
  Proof.
    intros H. apply (nth_ext _ _ false false).
    - unfold rd. rewrite map_length, seq_length, firstn_length, skipn_length. lia.
    - intros q Hq. unfold rd in *. rewrite map_length, seq_length in Hq. rewrite nth_map_seq by exact Hq.
      rewrite nth_firstn_lt by exact Hq. rewrite nth_skipn_add. reflexivity.
  Qed.
  Lemma rd_seq_all bs : rd bs (seq 0 (length bs)) = bs.
  Proof. rewrite rd_seq by lia. cbn [skipn]. apply firstn_all. Qed.
  Lemma rd_app bs p q : rd bs (p ++ q) = rd bs p ++ rd bs q.
  Proof. apply map_app. Qed.
  Lemma rd_cons bs p q : rd bs (p :: q) = nth p bs false :: rd bs q.
  Proof. reflexivity. Qed.
  Lemma rd_length bs ps : length (rd bs ps) = length ps.
  Proof. apply map_length. Qed.

  Lemma bn_nb b : bn (nb b) = b.
  Proof. destruct b; reflexivity. Qed.
  Lemma map_bn_nb (l : bits) : map bn (map nb l) = l.
  Proof. rewrite map_map. rewrite <- (map_id l) at 2. apply map_ext. apply bn_nb. Qed.

  Lemma if_beq_app (a1 a2 b1 b2 : bits) : length a1 = length b1 ->
    (if beq (a1 ++ a2) (b1 ++ b2) then 1 else 0) = (if beq a1 b1 then 1 else 0) * (if beq a2 b2 then 1 else 0) :> K.
  Proof. intros H. rewrite beq_app by exact H. destruct (beq a1 b1), (beq a2 b2); cbn [andb]; ring. Qed.
End Sum.
