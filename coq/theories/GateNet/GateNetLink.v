(** C06 - the values of the gate networks stated against the model of the gates' matrices
    (Qib.Gates.CompModel: ctrl_mat = ControlledGate.as_matrix, block_diag =
    MultiplexedGate.as_matrix), and nested controlled gates. *)
From Qib Require Export GateNet.GateNetBridge.
From Qib Require Import Gates.CompModel Gates.CompCtrl.
Local Open Scope Z_scope.

Section Link.
  Context {K : Scalar} {L : ScalarLaws K}.
  Local Open Scope K_scope.
  Add Ring KringGL : (s_ring K L).

  Lemma mid_app (a1 a2 b1 b2 : bits) : length a1 = length b1 ->
    mid (K:=K) (a1 ++ a2) (b1 ++ b2) = (if beq a1 b1 then 1 else 0) * mid a2 b2.
  Proof. intros H. unfold mid. rewrite beq_app by exact H. destruct (beq a1 b1), (beq a2 b2); cbn [andb]; ring. Qed.

  (** the controlled matrix on split indices *)
  Lemma ctrl_mat_split (pat : list bool) nt (U : BMx K) (oc ic ot it : bits) :
    length oc = length pat -> length ic = length pat -> length ot = nt -> length it = nt ->
    ctrl_mat pat U (oc ++ ot) (ic ++ it)
    = if beq oc ic then (if beq oc pat then U ot it else mid ot it) else 0.
  Proof.
    intros Ho Hi Hot Hit.
    rewrite (ctrl_mat_entries pat nt U) by (rewrite app_length; lia).
    rewrite !firstn_app_len, !skipn_app_len by assumption.
    rewrite (mid_app oc ot ic it) by lia.
    destruct (beq oc ic) eqn:E.
    - apply beq_eq in E. subst ic. destruct (beq oc pat); cbn [andb]; [reflexivity | ring].
    - destruct (beq oc pat) eqn:E1; cbn [andb]; [|ring].
      destruct (beq ic pat) eqn:E2; [|ring].
      apply beq_eq in E1, E2. subst. rewrite beq_refl in E. discriminate.
  Qed.

  (** C06 (L2, controlled gates): the network value is the gate's matrix reshaped *)
  Theorem ctrl_net_is_matrix (m nt : nat) (p0 : bool) (pt : list bool) (U : BMx K)
                             (xo0 xi0 : bool) (xos xis ot it : bits) :
    length pt = m -> length xos = m -> length xis = m -> length ot = nt -> length it = nt ->
    defining_sum (net_of (ctrl_build (Z.of_nat (S m)) (Z.of_nat nt) (map b2z (p0 :: pt))))
                 (ctrl_data nt U) (map nb ((xo0 :: xos) ++ ot ++ (xi0 :: xis) ++ it))
    = ctrl_mat (p0 :: pt) U ((xo0 :: xos) ++ ot) ((xi0 :: xis) ++ it).
  Proof.
    intros Hpt Hxos Hxis Hot Hit.
    rewrite (ctrl_bridge (ctrl_data nt U) m nt pt Hpt xo0 xi0 xos xis ot it Hxos Hxis Hot Hit p0).
    rewrite <- Hpt at 1. rewrite (ctrl_chain_value nt U p0 pt xo0 xi0 xos xis ot it) by lia.
    rewrite (ctrl_mat_split (p0 :: pt) nt U) by (cbn [length]; lia). reflexivity.
  Qed.

  (** C06 (L2, multiplexers): block diagonal *)
  Theorem mux_net_is_matrix nc nt (Us : list (BMx K)) (oc ot ic it : bits) :
    length oc = nc -> length ic = nc -> length ot = nt -> length it = nt ->
    defining_sum (net_of (mux_build (Z.of_nat nc) (Z.of_nat nt))) (mux_data nc nt Us)
                 (map nb (oc ++ ot ++ ic ++ it))
    = block_diag nc Us (oc ++ ot) (ic ++ it).
  Proof.
    intros Hoc Hic Hot Hit. rewrite (mux_value nc nt Us oc ot ic it) by assumption.
    rewrite block_diag_entries. rewrite !firstn_app_len, !skipn_app_len by assumption. reflexivity.
  Qed.

  (* ---------------------------------------------------------------- nested controlled gates *)
  (** a controlled gate whose target is a controlled gate has the matrix of one controlled gate
      with the concatenated control pattern *)
  Lemma ctrl_mat_app (p1 p2 : list bool) nt (U : BMx K) :
    meq (length (p1 ++ p2) + nt) (ctrl_mat (p1 ++ p2) U) (ctrl_mat p1 (ctrl_mat p2 U)).
  Proof.
    intros r c Hr Hc. rewrite app_length in Hr, Hc.
    destruct (split_bits (length p1) (length p2 + nt) r ltac:(lia)) as [Hr1 [Hr2 Er]].
    destruct (split_bits (length p1) (length p2 + nt) c ltac:(lia)) as [Hc1 [Hc2 Ec]].
    set (r1 := firstn (length p1) r) in *. set (r' := skipn (length p1) r) in *.
    set (c1 := firstn (length p1) c) in *. set (c' := skipn (length p1) c) in *.
    destruct (split_bits (length p2) nt r' Hr2) as [Hr3 [Hr4 Er']].
    destruct (split_bits (length p2) nt c' Hc2) as [Hc3 [Hc4 Ec']].
    set (r2 := firstn (length p2) r') in *. set (r3 := skipn (length p2) r') in *.
    set (c2 := firstn (length p2) c') in *. set (c3 := skipn (length p2) c') in *.
    rewrite Er, Ec.
    rewrite (ctrl_mat_split p1 (length p2 + nt) (ctrl_mat p2 U) r1 c1 r' c') by assumption.
    rewrite Er', Ec'.
    rewrite (ctrl_mat_split p2 nt U r2 c2 r3 c3) by assumption.
    rewrite !app_assoc.
    rewrite (ctrl_mat_split (p1 ++ p2) nt U (r1 ++ r2) (c1 ++ c2) r3 c3) by (rewrite ?app_length; lia).
    rewrite !beq_app by lia.
    rewrite (mid_app r2 r3 c2 c3) by lia.
    destruct (beq r1 c1), (beq r2 c2), (beq r1 p1), (beq r2 p2); cbn [andb]; ring.
  Qed.

  (** the pattern that the code hands to the flattened gate *)
  Lemma flatten_app nc cs g :
    flatten nc cs g = (let '(n', c', nt) := flatten 0 [] g in (nc + n', cs ++ c', nt))%Z.
  Proof.
    revert nc cs. induction g as [nt|nc' cs' g IH]; intros nc cs; cbn [flatten].
    - rewrite Z.add_0_r, app_nil_r. reflexivity.
    - rewrite (IH (nc + nc')%Z (cs ++ cs')), (IH (0 + nc')%Z ([] ++ cs')).
      destruct (flatten 0 [] g) as [[n' c'] nt]. cbn [app]. rewrite Z.add_0_l, <- app_assoc, Z.add_assoc. reflexivity.
  Qed.
End Link.
