(** C06 - generic lemmas for the structure proofs: loops, list updates, dictionaries,
    leg/reference counting and the incremental balance invariant of the build programs. *)
From Qib Require Export GateNet.GateNetModel TN.TNWF.
From Coq Require Import Permutation.
Local Open Scope Z_scope.

(** ctrl_state entries *)
Definition b2z (b : bool) : Z := if b then 1 else 0.

(* ------------------------------------------------------------------ ranges and loops *)
Definition zseq (n : nat) : list Z := map Z.of_nat (seq 0 n).

Lemma zrange_nat (a n : nat) :
  zrange (Z.of_nat a) (Z.of_nat (a + n)) = map Z.of_nat (seq a n).
Proof.
  unfold zrange. replace (Z.to_nat (Z.of_nat (a + n) - Z.of_nat a)) with n by lia.
  assert (G : forall s, map (fun k => Z.of_nat a + Z.of_nat k) (seq s n) = map Z.of_nat (seq (a + s) n)).
  { induction n as [|n IH]; intros s; [reflexivity|].
    cbn [seq map]. f_equal; [lia|]. rewrite IH. replace (a + S s)%nat with (S (a + s)) by lia. reflexivity. }
  rewrite G, Nat.add_0_r. reflexivity.
Qed.

Lemma zrange_0 (n : nat) : zrange 0 (Z.of_nat n) = zseq n.
Proof. apply (zrange_nat 0 n). Qed.

Lemma zfor_nat (a n : nat) body st :
  zfor (Z.of_nat a) (Z.of_nat (a + n)) body st
  = fold_left (fun s i => body (Z.of_nat i) s) (seq a n) st.
Proof.
  unfold zfor. rewrite zrange_nat. generalize st. generalize (seq a n) as l.
  induction l as [|x l IH]; intros s; [reflexivity|]. cbn. apply IH.
Qed.

(** loop invariant rule: P k holds after k iterations *)
Lemma fold_seq_ind {A} (P : nat -> A -> Prop) (body : nat -> A -> A) (a n : nat) (st : A) :
  P 0%nat st ->
  (forall k s, (k < n)%nat -> P k s -> P (S k) (body (a + k)%nat s)) ->
  P n (fold_left (fun s i => body i s) (seq a n) st).
Proof.
  intros H0 Hs. induction n as [|n IH]; [exact H0|].
  rewrite seq_S, fold_left_app. cbn. apply Hs; [lia|]. apply IH. intros k s Hk. apply Hs. lia.
Qed.

Lemma zrep_nat {A} (v : A) (n : nat) : zrep v (Z.of_nat n) = repeat v n.
Proof. unfold zrep. rewrite Nat2Z.id. reflexivity. Qed.

(* ------------------------------------------------------------------ set_nth *)
Lemma set_nth_length {A} (l : list A) n v : length (set_nth n v l) = length l.
Proof. revert n; induction l as [|x l IH]; intros [|n]; cbn; auto. Qed.

Lemma nth_set_nth {A} (l : list A) n v q d :
  nth q (set_nth n v l) d = if Nat.eqb q n then (if Nat.ltb n (length l) then v else nth q l d) else nth q l d.
Proof.
  revert n q; induction l as [|x l IH]; intros [|n] [|q]; cbn; try reflexivity.
  - destruct (Nat.eqb q n); reflexivity.
  - rewrite IH. change (S n <? S (length l))%nat with (n <? length l)%nat. reflexivity.
Qed.

Lemma nth_map_seq {A} (h : nat -> A) a len q d : (q < len)%nat -> nth q (map h (seq a len)) d = h (a + q)%nat.
Proof.
  intros H. rewrite (nth_indep _ d (h 0%nat)) by (rewrite map_length, seq_length; exact H).
  rewrite map_nth, seq_nth by exact H. reflexivity.
Qed.

Lemma set_nth_map_seq {A} (g : nat -> A) (len a : nat) v :
  (a < len)%nat ->
  set_nth a v (map g (seq 0 len)) = map (fun q => if Nat.eqb q a then v else g q) (seq 0 len).
Proof.
  intros Ha. apply (nth_ext _ _ v v).
  - rewrite set_nth_length, !map_length. reflexivity.
  - intros q Hq. rewrite set_nth_length, map_length, seq_length in Hq.
    rewrite nth_set_nth, map_length, seq_length, !nth_map_seq by exact Hq. cbn [Nat.add].
    destruct (Nat.eqb_spec q a); [|reflexivity]. destruct (Nat.ltb_spec a len); [reflexivity | lia].
Qed.

Lemma zcount_set_nth x a v (l : list Z) :
  (a < length l)%nat ->
  (zcount x (set_nth a v l) + (if Z.eqb x (nth a l 0%Z) then 1 else 0)
   = zcount x l + (if Z.eqb x v then 1 else 0))%nat.
Proof.
  revert a; induction l as [|y l IH]; intros [|a] H; cbn [length] in H; try lia; cbn [set_nth nth].
  - rewrite !zcount_cons. lia.
  - rewrite !zcount_cons. specialize (IH a ltac:(lia)). lia.
Qed.

(** filling a placeholder: legs on other bonds are unchanged, one more leg on v *)
Lemma zcount_fill x a v (l : list Z) :
  (a < length l)%nat -> nth a l 0 = -1 -> 0 <= x ->
  zcount x (set_nth a v l) = (zcount x l + (if Z.eqb x v then 1 else 0))%nat.
Proof.
  intros H E Hx. pose proof (zcount_set_nth x a v l H) as Q. rewrite E in Q.
  destruct (Z.eqb_spec x (-1)); [lia|]. lia.
Qed.

Lemma zcount_map_seq_0 x (g : nat -> Z) a n :
  (forall q, (a <= q < a + n)%nat -> g q <> x) -> zcount x (map g (seq a n)) = 0%nat.
Proof.
  intros H. apply zcount_0. intros Hin. apply in_map_iff in Hin. destruct Hin as [q [E Hq]].
  apply in_seq in Hq. apply (H q); [lia | exact E].
Qed.

(** an injective-at-x progression contains x exactly once *)
Lemma zcount_map_seq_1 x (g : nat -> Z) a n q0 :
  (a <= q0 < a + n)%nat -> g q0 = x -> (forall q, (a <= q < a + n)%nat -> g q = x -> q = q0) ->
  zcount x (map g (seq a n)) = 1%nat.
Proof.
  intros Hq0 E Hu.
  assert (S1 : seq a n = seq a (q0 - a) ++ q0 :: seq (S q0) (a + n - S q0)).
  { replace n with ((q0 - a) + S (a + n - S q0))%nat at 1 by lia.
    rewrite seq_app. replace (a + (q0 - a))%nat with q0 by lia. reflexivity. }
  rewrite S1, map_app, zcount_app. cbn [map]. rewrite zcount_cons.
  rewrite !zcount_map_seq_0.
  - rewrite E, Z.eqb_refl. reflexivity.
  - intros q Hq Eq. specialize (Hu q ltac:(lia) Eq). lia.
  - intros q Hq Eq. specialize (Hu q ltac:(lia) Eq). lia.
Qed.

Lemma NoDup_app_disj {A} (a b : list A) :
  NoDup a -> NoDup b -> (forall x, In x a -> ~ In x b) -> NoDup (a ++ b).
Proof.
  induction a as [|x a IH]; intros Ha Hb Hd; [exact Hb|]. cbn. inversion Ha; subst. constructor.
  - intros H. apply in_app_or in H. destruct H as [H|H]; [contradiction|]. apply (Hd x); [left; reflexivity | exact H].
  - apply IH; [assumption | assumption | intros y Hy; apply Hd; right; exact Hy].
Qed.

Lemma repeat_map_seq {A} (v : A) n : repeat v n = map (fun _ => v) (seq 0 n).
Proof.
  apply (nth_ext _ _ v v); [rewrite repeat_length, map_length, seq_length; reflexivity|].
  intros q Hq. rewrite repeat_length in Hq. rewrite nth_repeat, nth_map_seq by exact Hq. reflexivity.
Qed.

Lemma map_seq_snoc {A} (g : nat -> A) k a :
  map g (seq 0 k) ++ [a] = map (fun q => if Nat.eqb q k then a else g q) (seq 0 (S k)).
Proof.
  rewrite seq_S, map_app. cbn [map Nat.add]. rewrite Nat.eqb_refl. f_equal.
  apply map_ext_in. intros q Hq. apply in_seq in Hq. destruct (Nat.eqb_spec q k); [lia | reflexivity].
Qed.

Lemma rows_upd (g : nat -> list Z) len j ax v :
  (j < len)%nat ->
  set_nth j (set_nth ax v (nth j (map g (seq 0 len)) [])) (map g (seq 0 len))
  = map (fun q => if Nat.eqb q j then set_nth ax v (g q) else g q) (seq 0 len).
Proof.
  intros H. rewrite nth_map_seq by exact H. cbn [Nat.add]. rewrite set_nth_map_seq by exact H.
  apply map_ext_in. intros q _. destruct (Nat.eqb_spec q j); [subst; reflexivity | reflexivity].
Qed.

(** case analysis on every natural-number comparison in the goal, then linear arithmetic *)
Ltac ncases :=
  repeat match goal with
         | |- context [Nat.eqb ?a ?b] => destruct (Nat.eqb_spec a b)
         | |- context [Nat.ltb ?a ?b] => destruct (Nat.ltb_spec a b)
         | |- context [Nat.leb ?a ?b] => destruct (Nat.leb_spec a b)
         end; try lia; try reflexivity; try (f_equal; lia).
Ltac zcases :=
  repeat match goal with
         | |- context [Z.eqb ?a ?b] => destruct (Z.eqb_spec a b)
         | |- context [Z.ltb ?a ?b] => destruct (Z.ltb_spec a b)
         | |- context [Z.leb ?a ?b] => destruct (Z.leb_spec a b)
         end; cbn [andb orb negb]; try lia; try reflexivity.

Lemma map_seq_shift {A} (g : nat -> A) a n : map g (seq a n) = map (fun q => g (a + q)%nat) (seq 0 n).
Proof.
  apply (nth_ext _ _ (g 0%nat) (g 0%nat)); [rewrite !map_length, !seq_length; reflexivity|].
  intros q Hq. rewrite map_length, seq_length in Hq. rewrite !nth_map_seq by exact Hq. reflexivity.
Qed.

Lemma In_map_seq_g {A} (g : nat -> A) a n x : In x (map g (seq a n)) -> exists q, (a <= q < a + n)%nat /\ x = g q.
Proof. intros H. apply in_map_iff in H. destruct H as [q [E Hq]]. apply in_seq in Hq. exists q. split; [lia | congruence]. Qed.

Ltac smallcount := rewrite ?zcount_cons, ?zcount_nil.

(* ------------------------------------------------------------------ dictionaries *)
Lemma dget_cons_eq {V} k (v : V) d : dget k ((k, v) :: d) = Some v.
Proof. cbn. rewrite Z.eqb_refl. reflexivity. Qed.
Lemma dget_cons_ne {V} k k' (v : V) d : k <> k' -> dget k ((k', v) :: d) = dget k d.
Proof. intros H. cbn. destruct (Z.eqb_spec k k'); [contradiction | reflexivity]. Qed.
Lemma dset_cons_eq {V} k (v v' : V) d : dset k v ((k, v') :: d) = (k, v) :: d.
Proof. cbn. rewrite Z.eqb_refl. reflexivity. Qed.
Lemma dset_cons_ne {V} k k' (v v' : V) d : k <> k' -> dset k v ((k', v') :: d) = (k', v') :: dset k v d.
Proof. intros H. cbn. destruct (Z.eqb_spec k k'); [contradiction | reflexivity]. Qed.
Lemma dset_app_l {V} k (v : V) d d' : In k (dkeys d) -> dset k v (d ++ d') = dset k v d ++ d'.
Proof.
  induction d as [|[k' v'] d IH]; cbn; [intros []|]. intros H.
  destruct (Z.eqb_spec k k'); [reflexivity|]. cbn. f_equal. apply IH. destruct H; [congruence | assumption].
Qed.
Lemma dset_app_r {V} k (v : V) d d' : ~ In k (dkeys d) -> dset k v (d ++ d') = d ++ dset k v d'.
Proof.
  induction d as [|[k' v'] d IH]; cbn; [reflexivity|]. intros H.
  destruct (Z.eqb_spec k k'); [exfalso; apply H; left; congruence|]. f_equal. apply IH. tauto.
Qed.

(** tensors numbered base, base+1, ... whose legs are the rows of a list *)
Section Tens.
  Variable mk : nat -> list Z -> tensor.
  Fixpoint tens (base : nat) (l : list (list Z)) : dict tensor :=
    match l with
    | [] => []
    | a :: r => (Z.of_nat base, mk base a) :: tens (S base) r
    end.

  Lemma dkeys_tens base l : dkeys (tens base l) = map Z.of_nat (seq base (length l)).
  Proof. revert base; induction l as [|a l IH]; intros base; cbn; [reflexivity|]. f_equal. apply IH. Qed.

  Lemma dget_tens base l k :
    dget k (tens base l) =
      if (Z.of_nat base <=? k) && (k <? Z.of_nat (base + length l))
      then Some (mk (Z.to_nat k) (nth (Z.to_nat k - base) l [])) else None.
  Proof.
    revert base; induction l as [|a l IH]; intros base; cbn [tens dget length].
    - destruct (Z.leb_spec (Z.of_nat base) k), (Z.ltb_spec k (Z.of_nat (base + 0))); cbn; try reflexivity; lia.
    - destruct (Z.eqb_spec k (Z.of_nat base)).
      + subst. rewrite Nat2Z.id, Nat.sub_diag. cbn [nth].
        destruct (Z.leb_spec (Z.of_nat base) (Z.of_nat base)), (Z.ltb_spec (Z.of_nat base) (Z.of_nat (base + S (length l)))); cbn; try reflexivity; lia.
      + rewrite IH.
        destruct (Z.leb_spec (Z.of_nat (S base)) k), (Z.ltb_spec k (Z.of_nat (S base + length l))),
                 (Z.leb_spec (Z.of_nat base) k), (Z.ltb_spec k (Z.of_nat (base + S (length l)))); cbn; try reflexivity; try lia.
        replace (Z.to_nat k - base)%nat with (S (Z.to_nat k - S base)) by lia. reflexivity.
  Qed.

  Lemma dset_tens base l i a :
    (i < length l)%nat ->
    dset (Z.of_nat (base + i)) (mk (base + i) a) (tens base l) = tens base (set_nth i a l).
  Proof.
    revert base i; induction l as [|x l IH]; intros base [|i] H; cbn [length] in H; try lia; cbn [tens set_nth].
    - rewrite Nat.add_0_r. apply dset_cons_eq.
    - rewrite dset_cons_ne by lia. f_equal.
      replace (base + S i)%nat with (S base + i)%nat by lia. apply IH. lia.
  Qed.

  Lemma In_tens base l k t :
    In (k, t) (tens base l) -> exists j, (j < length l)%nat /\ k = Z.of_nat (base + j) /\ t = mk (base + j) (nth j l []).
  Proof.
    revert base; induction l as [|a l IH]; intros base; cbn [tens In length]; [intros []|].
    intros [E|H].
    - injection E as <- <-. exists 0%nat. rewrite Nat.add_0_r. cbn [nth]. split; [lia | split; reflexivity].
    - destruct (IH _ H) as [j [Hj [-> ->]]]. exists (S j). cbn [nth].
      replace (base + S j)%nat with (S base + j)%nat by lia. split; [lia | split; reflexivity].
  Qed.

  Lemma tens_app base l a : tens base (l ++ [a]) = tens base l ++ [(Z.of_nat (base + length l), mk (base + length l) a)].
  Proof.
    revert base; induction l as [|x l IH]; intros base; cbn [tens app length].
    - rewrite Nat.add_0_r. reflexivity.
    - f_equal. rewrite IH. replace (S base + length l)%nat with (base + S (length l))%nat by lia. reflexivity.
  Qed.
End Tens.

(* ------------------------------------------------------------------ counting legs and references *)
Definition cT (T : dict tensor) (k kb : Z) : nat :=
  match dget k T with Some t => zcount kb (t_bids t) | None => O end.
Definition cB (B : dict bond) (kb k : Z) : nat :=
  match dget kb B with Some b => zcount k (b_tids b) | None => O end.

Lemma cntT_cT n k kb : cntT n k kb = cT (tensors n) k kb. Proof. reflexivity. Qed.
Lemma cntB_cB n kb k : cntB n kb k = cB (bonds n) kb k. Proof. reflexivity. Qed.

(** the invariant at the synchronisation points of a build program: the bonds added so far
    are 0..n-1 in this order, each with its key, at least two references, and exactly the
    references that the tensors have legs on it.  Legs with other values (the placeholder -1
    and the ids of bonds still to be added) are not constrained. *)
Record Inv (T : dict tensor) (B : dict bond) (n : nat) : Prop := mkInv {
  inv_keys : dkeys B = zseq n;
  inv_B : forall k b, In (k, b) B -> b_id b = k /\ (2 <= length (b_tids b))%nat;
  inv_bal : forall k kb, 0 <= kb < Z.of_nat n -> cT T k kb = cB B kb k }.

Lemma zseq_S n : zseq (S n) = zseq n ++ [Z.of_nat n].
Proof. unfold zseq. rewrite seq_S, map_app. reflexivity. Qed.
Lemma In_zseq k n : In k (zseq n) <-> 0 <= k < Z.of_nat n.
Proof.
  unfold zseq. rewrite in_map_iff. split.
  - intros [q [E H]]. apply in_seq in H. lia.
  - intros H. exists (Z.to_nat k). split; [lia|]. apply in_seq. lia.
Qed.
Lemma NoDup_zseq n : NoDup (zseq n).
Proof.
  unfold zseq. apply FinFun.Injective_map_NoDup; [|apply seq_NoDup]. intros a b E. lia.
Qed.
Lemma zseq_length n : length (zseq n) = n.
Proof. unfold zseq. rewrite map_length, seq_length. reflexivity. Qed.

Lemma zcount_zseq x n : zcount x (zseq n) = if (0 <=? x) && (x <? Z.of_nat n) then 1%nat else 0%nat.
Proof.
  destruct (Z.leb_spec 0 x), (Z.ltb_spec x (Z.of_nat n)); cbn [andb].
  - unfold zseq. apply (zcount_map_seq_1 x Z.of_nat 0 n (Z.to_nat x)); lia.
  - apply zcount_0. rewrite In_zseq. lia.
  - apply zcount_0. rewrite In_zseq. lia.
  - apply zcount_0. rewrite In_zseq. lia.
Qed.

Lemma Inv_init T : Inv T [] 0.
Proof. constructor; [reflexivity | intros k b [] | intros k kb H; lia]. Qed.

Lemma Inv_fresh T B n : Inv T B n -> dhas (Z.of_nat n) B = false.
Proof. intros I. apply dhas_false. rewrite (inv_keys _ _ _ I), In_zseq. lia. Qed.

Lemma Inv_fresh' T B n : Inv T B n -> dget (Z.of_nat n) B = None.
Proof. intros I. apply dget_None. rewrite (inv_keys _ _ _ I), In_zseq. lia. Qed.

Lemma Inv_fresh'' T B n j : Inv T B n -> (n <= j)%nat -> dget (Z.of_nat j) B = None.
Proof. intros I H. apply dget_None. rewrite (inv_keys _ _ _ I), In_zseq. lia. Qed.

(** adding the bond n with references L, the tensors moving from T to T' *)
Lemma Inv_add T T' B n L :
  Inv T B n -> (2 <= length L)%nat ->
  (forall k kb, 0 <= kb < Z.of_nat n -> cT T' k kb = cT T k kb) ->
  (forall k, cT T' k (Z.of_nat n) = zcount k L) ->
  Inv T' (B ++ [(Z.of_nat n, mkB (Z.of_nat n) (zsort L))]) (S n).
Proof.
  intros I HL Ha Hb. constructor.
  - rewrite dkeys_app, (inv_keys _ _ _ I), zseq_S. reflexivity.
  - intros k b Hin. apply in_app_or in Hin. destruct Hin as [Hin|[E|[]]].
    + apply (inv_B _ _ _ I). exact Hin.
    + injection E as <- <-. cbn. rewrite zsort_length. split; [reflexivity | exact HL].
  - intros k kb Hkb. unfold cB. rewrite dget_app.
    destruct (Z.eq_dec kb (Z.of_nat n)) as [->|Hne].
    + assert (E : dget (Z.of_nat n) B = None).
      { apply dget_None. rewrite (inv_keys _ _ _ I), In_zseq. lia. }
      rewrite E. rewrite dget_cons_eq. cbn [b_tids]. rewrite zcount_zsort. apply Hb.
    + rewrite Ha by lia. rewrite (inv_bal _ _ _ I) by lia. unfold cB.
      destruct (dget kb B); [reflexivity|]. rewrite dget_cons_ne by exact Hne. reflexivity.
Qed.

(** all legs refer to bonds below n (or are negative placeholders) *)
Definition Rng (T : dict tensor) (n : nat) : Prop :=
  forall k t, dget k T = Some t -> forall b, In b (t_bids t) -> b < Z.of_nat n.
Lemma cT_rng0 T n k kb : Rng T n -> Z.of_nat n <= kb -> cT T k kb = 0%nat.
Proof.
  intros R H. unfold cT. destruct (dget k T) eqn:E; [|reflexivity].
  apply zcount_0. intros Hin. specialize (R k t E kb Hin). lia.
Qed.

(* ------------------------------------------------------------------ from the invariant to WF *)
Lemma dict_In_dget {V} (d : dict V) k v : NoDup (dkeys d) -> In (k, v) d -> dget k d = Some v.
Proof. apply In_dget. Qed.

(** a finished build: every tensor described, no placeholder left, all dimensions 2 *)
Lemma WF_of_Inv T B n :
  Inv T B n -> NoDup (dkeys T) -> In VT (dkeys T) ->
  (forall k t, In (k, t) T -> t_id t = k /\ t_shape t = repeat 2%nat (length (t_bids t))
                             /\ forall b, In b (t_bids t) -> 0 <= b < Z.of_nat n) ->
  WF (mkN T B).
Proof.
  intros I ND HV HT. split; [|exact HV]. constructor; cbn [tensors bonds].
  - exact ND.
  - rewrite (inv_keys _ _ _ I). apply NoDup_zseq.
  - intros k t Hin. destruct (HT k t Hin) as [E1 [E2 _]]. split; [exact E1|]. rewrite E2, repeat_length. reflexivity.
  - apply (inv_B _ _ _ I).
  - intros k kb. unfold cntT, cntB. cbn [tensors bonds]. fold (cT T k kb). fold (cB B kb k).
    destruct (Z_lt_ge_dec kb 0) as [Hneg|Hpos].
    + (* no leg and no bond carries a negative id *)
      assert (E1 : cT T k kb = 0%nat).
      { unfold cT. destruct (dget k T) eqn:E; [|reflexivity]. apply zcount_0. intros Hin.
        apply dget_In in E. destruct (HT k t E) as [_ [_ R]]. specialize (R kb Hin). lia. }
      assert (E2 : cB B kb k = 0%nat).
      { unfold cB. destruct (dget kb B) eqn:E; [|reflexivity]. apply dget_Some_key in E.
        rewrite (inv_keys _ _ _ I), In_zseq in E. lia. }
      congruence.
    + destruct (Z_lt_ge_dec kb (Z.of_nat n)) as [Hlt|Hge].
      * apply (inv_bal _ _ _ I). lia.
      * assert (E1 : cT T k kb = 0%nat).
        { unfold cT. destruct (dget k T) eqn:E; [|reflexivity]. apply zcount_0. intros Hin.
          apply dget_In in E. destruct (HT k t E) as [_ [_ R]]. specialize (R kb Hin). lia. }
        assert (E2 : cB B kb k = 0%nat).
        { unfold cB. destruct (dget kb B) eqn:E; [|reflexivity]. apply dget_Some_key in E.
          rewrite (inv_keys _ _ _ I), In_zseq in E. lia. }
        congruence.
  - intros kb. exists 2%nat. intros k t ax Hin Hb.
    destruct (HT k t Hin) as [_ [E2 _]]. rewrite E2.
    assert (Hax : (ax < length (t_bids t))%nat) by (apply nth_error_Some; congruence).
    rewrite nth_error_nth' with (d := 2%nat) by (rewrite repeat_length; exact Hax).
    f_equal. apply nth_repeat.
Qed.
