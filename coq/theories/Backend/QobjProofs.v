(** C18 - proofs about the validation / Qobj / key-conversion model. *)
From Qib Require Import Backend.QobjModel.
From Coq Require Import Sorting.Sorted.
Local Open Scope Z_scope.

Lemma F2_length {A B} (R : A -> B -> Prop) l l' : Forall2 R l l' -> length l = length l'.
Proof. induction 1; cbn; congruence. Qed.
Lemma F2_In_r {A B} (R : A -> B -> Prop) l l' y : Forall2 R l l' -> In y l' -> exists x, In x l /\ R x y.
Proof.
  induction 1 as [|a b l l' Hab H IH]; intros Hy; [destruct Hy|].
  destruct Hy as [<-|Hy]; [exists a; split; [left; reflexivity|exact Hab]|].
  destruct (IH Hy) as [x [Hx Hr]]. exists x. split; [right; exact Hx|exact Hr].
Qed.
Lemma F2_In_l {A B} (R : A -> B -> Prop) l l' x : Forall2 R l l' -> In x l -> exists y, In y l' /\ R x y.
Proof.
  induction 1 as [|a b l l' Hab H IH]; intros Hx; [destruct Hx|].
  destruct Hx as [<-|Hx]; [exists b; split; [left; reflexivity|exact Hab]|].
  destruct (IH Hx) as [y [Hy Hr]]. exists y. split; [right; exact Hy|exact Hr].
Qed.

(** ------------------------------------------------------------------ small facts *)

Lemma qb_eqb_eq a b : qb_eqb a b = true <-> a = b.
Proof.
  destruct a as [f i], b as [f' i']. unfold qb_eqb. cbn. rewrite andb_true_iff, !Z.eqb_eq.
  split; [intros [-> ->]; reflexivity|intros E; injection E; auto].
Qed.

Lemma zmin_le x l : zmin x l <= x /\ forall y, In y l -> zmin x l <= y.
Proof.
  revert x. induction l as [|z l IH]; intros x; cbn.
  - split; [lia|intros y []].
  - destruct (IH (Z.min x z)) as [A B]. split; [lia|].
    intros y [<-|H]; [lia|apply B; exact H].
Qed.

Lemma zmax_ge x l : x <= zmax x l /\ forall y, In y l -> y <= zmax x l.
Proof.
  revert x. induction l as [|z l IH]; intros x; cbn.
  - split; [lia|intros y []].
  - destruct (IH (Z.max x z)) as [A B]. split; [lia|].
    intros y [<-|H]; [lia|apply B; exact H].
Qed.

Lemma dedupe_In q l : forall seen, In q l -> existsb (qb_eqb q) seen = true \/ In q (dedupe seen l).
Proof.
  induction l as [|x l IH]; intros seen H; [destruct H|]. cbn [dedupe].
  destruct H as [->|H].
  - destruct (existsb (qb_eqb q) seen) eqn:E; [left; reflexivity|right; left; reflexivity].
  - destruct (existsb (qb_eqb x) seen) eqn:E.
    + apply IH; exact H.
    + destruct (IH (x :: seen) H) as [H1|H1].
      * cbn in H1. apply orb_true_iff in H1 as [H1|H1].
        -- apply qb_eqb_eq in H1. subst. right. left. reflexivity.
        -- left. exact H1.
      * right. right. exact H1.
Qed.

Lemma dedupe_sub q l : forall seen, In q (dedupe seen l) -> In q l.
Proof.
  induction l as [|x l IH]; intros seen H; [exact H|]. cbn [dedupe] in H.
  destruct (existsb (qb_eqb x) seen).
  - right. eapply IH; exact H.
  - destruct H as [->|H]; [left; reflexivity|right; eapply IH; exact H].
Qed.

Lemma dedupe_NoDup l : forall seen,
  NoDup (dedupe seen l) /\ forall q, In q (dedupe seen l) -> existsb (qb_eqb q) seen = false.
Proof.
  induction l as [|x l IH]; intros seen; cbn [dedupe].
  - split; [constructor|intros q []].
  - destruct (existsb (qb_eqb x) seen) eqn:E; [apply IH|].
    destruct (IH (x :: seen)) as [A B]. split.
    + constructor; [|exact A]. intros H. specialize (B x H). cbn in B.
      assert (qb_eqb x x = true) by (apply qb_eqb_eq; reflexivity). rewrite H0 in B. discriminate.
    + intros q [<-|H]; [exact E|]. specialize (B q H). cbn in B. apply orb_false_iff in B as [_ B]. exact B.
Qed.

Lemma dedupe_z_In x l : forall seen, In x l -> existsb (Z.eqb x) seen = true \/ In x (dedupe_z seen l).
Proof.
  induction l as [|y l IH]; intros seen H; [destruct H|]. cbn [dedupe_z].
  destruct H as [->|H].
  - destruct (existsb (Z.eqb x) seen) eqn:E; [left; reflexivity|right; left; reflexivity].
  - destruct (existsb (Z.eqb y) seen) eqn:E.
    + apply IH; exact H.
    + destruct (IH (y :: seen) H) as [H1|H1].
      * cbn in H1. apply orb_true_iff in H1 as [H1|H1].
        -- apply Z.eqb_eq in H1. subst. right. left. reflexivity.
        -- left. exact H1.
      * right. right. exact H1.
Qed.

Lemma dedupe_z_NoDup l : forall seen,
  NoDup (dedupe_z seen l) /\ forall x, In x (dedupe_z seen l) -> existsb (Z.eqb x) seen = false.
Proof.
  induction l as [|y l IH]; intros seen; cbn [dedupe_z].
  - split; [constructor|intros x []].
  - destruct (existsb (Z.eqb y) seen) eqn:E; [apply IH|].
    destruct (IH (y :: seen)) as [A B]. split.
    + constructor; [|exact A]. intros H. specialize (B y H). cbn in B. rewrite Z.eqb_refl in B. discriminate.
    + intros x [<-|H]; [exact E|]. specialize (B x H). cbn in B. apply orb_false_iff in B as [_ B]. exact B.
Qed.

Lemma insert_sorted_In x y l : In y (insert_sorted x l) <-> y = x \/ In y l.
Proof.
  induction l as [|z l IH]; cbn.
  - intuition.
  - destruct (x <=? z); cbn; [intuition|]. rewrite IH. intuition.
Qed.

Lemma sort_z_In y l : In y (sort_z l) <-> In y l.
Proof.
  induction l as [|x l IH]; cbn; [tauto|]. unfold sort_z in *. cbn. rewrite insert_sorted_In, IH. intuition.
Qed.

Lemma insert_sorted_length x l : length (insert_sorted x l) = S (length l).
Proof. induction l as [|z l IH]; cbn; [reflexivity|]. destruct (x <=? z); cbn; [reflexivity|rewrite IH; reflexivity]. Qed.

Lemma sort_z_length l : length (sort_z l) = length l.
Proof. induction l as [|x l IH]; [reflexivity|]. unfold sort_z in *. cbn. rewrite insert_sorted_length, IH. reflexivity. Qed.

Lemma insert_sorted_sorted x l : Sorted Z.le l -> Sorted Z.le (insert_sorted x l).
Proof.
  induction l as [|z l IH]; intros H; cbn.
  - constructor; constructor.
  - destruct (x <=? z) eqn:E.
    + apply Z.leb_le in E. constructor; [exact H|constructor; exact E].
    + apply Z.leb_gt in E. inversion H as [|? ? Hs Hh]; subst. constructor; [apply IH; exact Hs|].
      destruct l as [|w l]; cbn.
      * constructor. lia.
      * destruct (x <=? w); constructor; try lia. inversion Hh; subst. assumption.
Qed.

Lemma sort_z_sorted l : Sorted Z.le (sort_z l).
Proof. induction l as [|x l IH]; [constructor|]. unfold sort_z in *. cbn. apply insert_sorted_sorted. exact IH. Qed.

Lemma insert_sorted_NoDup x l : ~ In x l -> NoDup l -> NoDup (insert_sorted x l).
Proof.
  induction l as [|z l IH]; intros Hx Hn; cbn.
  - constructor; [intros []|constructor].
  - destruct (x <=? z).
    + constructor; assumption.
    + inversion Hn; subst. constructor.
      * rewrite insert_sorted_In. intros [->|H]; [apply Hx; left; reflexivity|contradiction].
      * apply IH; [intros H; apply Hx; right; exact H|assumption].
Qed.

Lemma sort_z_NoDup l : NoDup l -> NoDup (sort_z l).
Proof.
  induction l as [|x l IH]; intros H; [constructor|]. inversion H; subst. unfold sort_z in *. cbn.
  apply insert_sorted_NoDup; [|apply IH; assumption].
  fold (sort_z l). rewrite sort_z_In. assumption.
Qed.

(** ------------------------------------------------------------------ the per-instruction view *)

Fixpoint own_params (g : gate) : option (list Z) :=
  match g with
  | Rot _ th _ => Some [th]
  | U3 a b c _ => Some [a; b; c]
  | Ctrl _ _ t => own_params t
  | Raw _ _ ps => ps
  | _ => None
  end.

(** an accepted serialisation of one instruction carries that instruction's own qubits (in the
    order control(s), target / first, second) and its own parameters *)
Theorem as_qasm_own V g q :
  as_qasm V g = QOk q ->
  q_qubits q = map qidx (particles g) /\ q_params q = own_params g /\
  q_memory q = (match g with Measure qs cl => Some (measure_clbits qs cl) | _ => None end) /\
  q_duration q = (match g with Delay d _ => Some d | _ => None end).
Proof.
  destruct g; cbn [as_qasm]; unfold mkq; try (intros E; injection E as <-; cbn; auto; fail); try discriminate.
  - (* Ctrl *)
    destruct (vt_ctrl_std_checked V && negb std); [discriminate|].
    destruct cs as [|c [|c2 [|c3 cs]]]; try discriminate.
    + destruct g; try discriminate; try (destruct k; try discriminate); intros E; injection E as <-; cbn; auto.
    + destruct g; try discriminate; try (destruct k; try discriminate); intros E; injection E as <-; cbn; auto.
  - (* Measure *)
    destruct qs as [|q0 qs]; [discriminate|]. intros E; injection E as <-. cbn. auto.
Qed.

(** Circuit.as_qasm: the instruction list is the list of the gates' own views, in order *)
Theorem qasm_all_spec V gs : forall ins,
  qasm_all V gs = inl ins -> Forall2 (fun g q => as_qasm V g = QOk q) gs ins.
Proof.
  induction gs as [|g gs IH]; intros ins E; cbn [qasm_all] in E.
  - injection E as <-. constructor.
  - destruct (as_qasm V g) as [q|e] eqn:A; [|discriminate].
    destruct (qasm_all V gs) as [l|e] eqn:R; [|discriminate]. injection E as <-.
    constructor; [exact A|apply IH; reflexivity].
Qed.

Lemma qasm_all_length V gs ins : qasm_all V gs = inl ins -> length ins = length gs.
Proof. intros E. apply qasm_all_spec in E. symmetry. eapply F2_length; exact E. Qed.

(** ------------------------------------------------------------------ validity, as the property states it *)

Definition coupled (cfg : config) (qs : list Z) : Prop :=
  (length qs <= 1)%nat \/ c_coupling cfg = [] \/ Forall (fun p => In p (c_coupling cfg)) (pairs qs).

(** an instruction the processor can execute: a measurement, or a basis gate on a qubit tuple
    configured for that gate, respecting the coupling map, with the configured number of parameters *)
Definition valid_qasm (cfg : config) (q : qasm) : Prop :=
  q_name q = lit_measure \/
  (In (q_name q) (c_basis cfg) /\
   exists gp, get_gate_by_name cfg (q_name q) = Some gp /\ In gp (c_gates cfg) /\ gp_name gp = q_name q /\
              In (q_qubits q) (gp_qubits gp) /\ Z.of_nat (length (qparams q)) = gp_nparams gp /\
              coupled cfg (q_qubits q)).

Definition in_range (cfg : config) (q : qb) : Prop := 0 <= qidx q < c_nqubits cfg.

Record vt_ok (V : vtables) : Prop := {
  vo_shots : forall s m, vt_shots_refused V s m = (m <? s);
  vo_range : forall l mn mx n, vt_range_refused V l mn mx n = ((n <? l) || (mn <? 0) || (n <=? mx));
  vo_params : forall a b, vt_params_ok V a b = (a =? b)
}.

Section Valid.
  Variable V : vtables.
  Hypothesis OK : vt_ok V.

  Lemma check_instr_sound cfg q : check_instr V cfg q = None -> valid_qasm cfg q.
  Proof.
    unfold check_instr, valid_qasm.
    destruct (str_eqb (q_name q) lit_measure) eqn:M; [intros _; left; apply str_eqb_eq; exact M|].
    destruct (mem_str (q_name q) (c_basis cfg)) eqn:B; [|discriminate]. cbn [negb].
    destruct (get_gate_by_name cfg (q_name q)) as [gp|] eqn:G; [|discriminate].
    destruct (mem_zlist (q_qubits q) (gp_qubits gp)) eqn:Q; [|discriminate]. cbn [negb].
    rewrite (vo_params V OK).
    destruct (Z.of_nat (length (qparams q)) =? gp_nparams gp) eqn:P; [|discriminate]. cbn [negb].
    intros C. right. split; [apply mem_str_In; exact B|]. exists gp.
    unfold get_gate_by_name in *. pose proof (find_some _ _ G) as [Hin Hn]. apply str_eqb_eq in Hn.
    repeat split; auto.
    - apply mem_zlist_In; exact Q.
    - apply Z.eqb_eq; exact P.
    - unfold coupled.
      destruct (1 <? Z.of_nat (length (q_qubits q))) eqn:L; [|left; apply Z.ltb_ge in L; lia].
      destruct (c_coupling cfg) as [|c0 cm] eqn:CM; [right; left; reflexivity|].
      cbn [is_nil negb andb] in C.
      destruct (forallb _ _) eqn:F in C; [|discriminate].
      right. right. rewrite forallb_forall in F. apply Forall_forall. intros p Hp.
      apply mem_zlist_In. apply F. exact Hp.
  Qed.

  Lemma check_loop_sound cfg qs : check_loop V cfg qs = None -> Forall (valid_qasm cfg) qs.
  Proof.
    induction qs as [|q qs IH]; intros E; [constructor|]. cbn [check_loop] in E.
    destruct (check_instr V cfg q) eqn:C; [discriminate|].
    constructor; [apply check_instr_sound; exact C|apply IH; exact E].
  Qed.

  Lemma check_instr_not_accept cfg q : check_instr V cfg q <> Some Accept.
  Proof.
    unfold check_instr. destruct (str_eqb _ _); [discriminate|]. destruct (negb (mem_str _ _)); [discriminate|].
    destruct (get_gate_by_name cfg (q_name q)); [|discriminate].
    destruct (negb (mem_zlist _ _)); [discriminate|]. destruct (negb (vt_params_ok _ _ _)); [discriminate|].
    destruct (_ && _ && _); discriminate.
  Qed.

  Lemma check_loop_not_accept cfg qs : check_loop V cfg qs <> Some Accept.
  Proof.
    induction qs as [|q qs IH]; cbn [check_loop]; [discriminate|].
    destruct (check_instr V cfg q) eqn:C; [|exact IH]. intros E. injection E as ->.
    eapply check_instr_not_accept; exact C.
  Qed.

  Lemma range_check_sound cfg ps :
    range_check V cfg ps = Accept ->
    Forall (in_range cfg) ps /\ Z.of_nat (length ps) <= c_nqubits cfg /\ ps <> [].
  Proof.
    unfold range_check. destruct ps as [|p ps]; [discriminate|]. cbn [map].
    rewrite (vo_range V OK).
    destruct (_ || _ || _) eqn:E; [discriminate|]. intros _.
    apply orb_false_iff in E as [E E3]. apply orb_false_iff in E as [E1 E2].
    apply Z.ltb_ge in E1, E2. apply Z.leb_gt in E3.
    destruct (zmin_le (qidx p) (map qidx ps)) as [A1 A2]. destruct (zmax_ge (qidx p) (map qidx ps)) as [B1 B2].
    split; [|split; [exact E1|discriminate]].
    constructor.
    - unfold in_range. lia.
    - apply Forall_forall. intros q Hq. unfold in_range.
      assert (In (qidx q) (map qidx ps)) by (apply in_map; exact Hq).
      specialize (A2 _ H). specialize (B2 _ H). lia.
  Qed.

  (** C18, first half (for the code whose final check looks at the whole circuit):
      an accepted experiment has shots within the limit, only executable instructions, and every
      addressed qubit inside the processor *)
  Theorem validate_accept_sound cfg shots gs :
    vt_scope V = ScopeAll ->
    validate V cfg shots gs = Accept ->
    shots <= c_max_shots cfg /\
    (exists ins, qasm_all V gs = inl ins /\ Forall (valid_qasm cfg) ins) /\
    Forall (in_range cfg) (all_particles gs) /\
    Z.of_nat (length (circuit_particle_set gs)) <= c_nqubits cfg.
  Proof.
    intros HS. unfold validate. destruct (qasm_all V gs) as [ins|e] eqn:QA; [|discriminate].
    rewrite (vo_shots V OK). destruct (c_max_shots cfg <? shots) eqn:SH; [discriminate|].
    destruct (check_loop V cfg ins) eqn:CL; [intros ->; exfalso; eapply check_loop_not_accept; exact CL|]. rewrite HS.
    destruct (vt_empty_guard V && is_nil gs); [discriminate|]. intros RC.
    apply range_check_sound in RC as [R1 [R2 _]].
    split; [apply Z.ltb_ge in SH; exact SH|]. split; [exists ins; split; [reflexivity|apply check_loop_sound; exact CL]|].
    split; [|exact R2].
    apply Forall_forall. intros q Hq. rewrite Forall_forall in R1. apply R1.
    unfold circuit_particle_set. destruct (dedupe_In q _ [] Hq) as [H|H]; [discriminate|exact H].
  Qed.

  (** what the code with the last-instruction-only check guarantees (strictly weaker) *)
  Theorem validate_accept_sound_last cfg shots gs :
    vt_scope V = ScopeLast ->
    validate V cfg shots gs = Accept ->
    shots <= c_max_shots cfg /\
    (exists ins, qasm_all V gs = inl ins /\ Forall (valid_qasm cfg) ins) /\
    exists g, last_opt gs = Some g /\ Forall (in_range cfg) (particles g).
  Proof.
    intros HS. unfold validate. destruct (qasm_all V gs) as [ins|e] eqn:QA; [|discriminate].
    rewrite (vo_shots V OK). destruct (c_max_shots cfg <? shots) eqn:SH; [discriminate|].
    destruct (check_loop V cfg ins) eqn:CL; [intros ->; exfalso; eapply check_loop_not_accept; exact CL|]. rewrite HS.
    destruct (last_opt gs) as [g|]; [|discriminate]. intros RC.
    apply range_check_sound in RC as [R1 _].
    split; [apply Z.ltb_ge in SH; exact SH|]. split; [exists ins; split; [reflexivity|apply check_loop_sound; exact CL]|].
    exists g. auto.
  Qed.

  (** refusal happens before any request: a request is issued only for an accepted experiment *)
  Theorem refused_sends_nothing cfg shots gs :
    validate V cfg shots gs <> Accept -> submit_requests V cfg shots gs = 0%nat.
  Proof. unfold submit_requests. destruct (validate V cfg shots gs); try reflexivity. contradiction. Qed.
End Valid.

(** ------------------------------------------------------------------ Qobj header *)

Lemma as_qasm_memory V g q : as_qasm V g = QOk q ->
  forall ms, q_memory q = Some ms -> ms = memory_of g.
Proof.
  intros E ms Hm. destruct (as_qasm_own V g q E) as [_ [_ [M _]]]. rewrite M in Hm.
  destruct g; try discriminate. injection Hm as <-. reflexivity.
Qed.

Theorem build_qobj_consistent V opts gs o :
  build_qobj V opts gs = Some o ->
  (* counts agree with each other and with the labels *)
  Forall (fun n => n = Z.of_nat (length (o_qubit_labels o))) (o_nq o) /\ length (o_nq o) = 4%nat /\
  Forall (fun n => n = Z.of_nat (length (o_clbit_labels o))) (o_ms o) /\ length (o_ms o) = 4%nat /\
  (* labels are sorted; classical labels are duplicate-free *)
  Sorted Z.le (o_qubit_labels o) /\ Sorted Z.le (o_clbit_labels o) /\ NoDup (o_clbit_labels o) /\
  (* the instruction list is the circuit, in order *)
  Forall2 (fun g q => as_qasm V g = QOk q) gs (o_instructions o) /\
  (* the labels cover every index an instruction uses *)
  (forall q i, In q (o_instructions o) -> In i (q_qubits q) -> In i (o_qubit_labels o)) /\
  (forall q ms c, In q (o_instructions o) -> q_memory q = Some ms -> In c ms -> In c (o_clbit_labels o)) /\
  (* and nothing else *)
  (forall i, In i (o_qubit_labels o) -> exists q, In q (o_instructions o) /\ In i (q_qubits q)) /\
  (forall c, In c (o_clbit_labels o) -> exists q ms, In q (o_instructions o) /\ q_memory q = Some ms /\ In c ms) /\
  (* options are copied *)
  o_shots o = op_shots opts /\ o_init_qubits o = op_init_qubits opts /\ o_do_emulation o = op_do_emulation opts.
Proof.
  unfold build_qobj. destruct (qasm_all V gs) as [ins|e] eqn:QA; [|discriminate].
  intros E. injection E as <-. cbn.
  pose proof (qasm_all_spec V gs ins QA) as F2.
  split; [repeat constructor|]. split; [reflexivity|]. split; [repeat constructor|]. split; [reflexivity|].
  split; [apply sort_z_sorted|]. split; [apply sort_z_sorted|].
  split; [apply sort_z_NoDup; apply dedupe_z_NoDup|]. split; [exact F2|].
  split; [|split; [|split; [|split; [|auto]]]].
  - (* qubit labels cover *)
    intros q i Hq Hi. unfold circuit_qubit_indices. rewrite sort_z_In.
    destruct (F2_In_r _ _ _ _ F2 Hq) as [g [Hg A]].
    destruct (as_qasm_own V g q A) as [Q _]. rewrite Q in Hi. apply in_map_iff in Hi as [p [<- Hp]].
    apply in_map. unfold circuit_particle_set.
    assert (Hall : In p (all_particles gs)) by (unfold all_particles; apply in_flat_map; exists g; auto).
    destruct (dedupe_In p _ [] Hall) as [H|H]; [discriminate|exact H].
  - (* clbit labels cover *)
    intros q ms c Hq Hm Hc. unfold circuit_clbits. rewrite sort_z_In.
    destruct (F2_In_r _ _ _ _ F2 Hq) as [g [Hg A]].
    pose proof (as_qasm_memory V g q A ms Hm) as ->.
    assert (Hall : In c (flat_map memory_of gs)) by (apply in_flat_map; exists g; auto).
    destruct (dedupe_z_In c _ [] Hall) as [H|H]; [discriminate|exact H].
  - (* qubit labels are used *)
    intros i Hi. unfold circuit_qubit_indices in Hi. rewrite sort_z_In in Hi.
    apply in_map_iff in Hi as [p [<- Hp]]. unfold circuit_particle_set in Hp. apply dedupe_sub in Hp.
    unfold all_particles in Hp. apply in_flat_map in Hp as [g [Hg Hp]].
    destruct (F2_In_l _ _ _ _ F2 Hg) as [q [Hq A]]. exists q. split; [exact Hq|].
    destruct (as_qasm_own V g q A) as [Q _]. rewrite Q. apply in_map. exact Hp.
  - (* clbit labels are used *)
    intros c Hc. unfold circuit_clbits in Hc. rewrite sort_z_In in Hc.
    assert (Hc' : In c (flat_map memory_of gs)).
    { clear - Hc. revert Hc. generalize (@nil Z). induction (flat_map memory_of gs) as [|x l IH]; intros seen H; [exact H|].
      cbn [dedupe_z] in H. destruct (existsb (Z.eqb x) seen); [right; eapply IH; exact H|].
      destruct H as [->|H]; [left; reflexivity|right; eapply IH; exact H]. }
    apply in_flat_map in Hc' as [g [Hg Hm]].
    destruct (F2_In_l _ _ _ _ F2 Hg) as [q [Hq A]].
    destruct (as_qasm_own V g q A) as [_ [_ [M _]]].
    destruct g; cbn in Hm; try contradiction. exists q, (measure_clbits qs cl). auto.
Qed.

(** with all qubits in one field (the usual case) the qubit labels are duplicate-free as well *)
Theorem qubit_labels_NoDup gs :
  (forall p p', In p (all_particles gs) -> In p' (all_particles gs) -> fst p = fst p') ->
  NoDup (circuit_qubit_indices gs).
Proof.
  intros H1. unfold circuit_qubit_indices. apply sort_z_NoDup.
  destruct (dedupe_NoDup (all_particles gs) []) as [ND _].
  unfold circuit_particle_set.
  assert (Hsub : forall p, In p (dedupe [] (all_particles gs)) -> In p (all_particles gs)) by (intros p; apply dedupe_sub).
  revert ND Hsub. generalize (dedupe [] (all_particles gs)). intros l ND Hsub.
  induction ND as [|x l Hx ND IH]; cbn; [constructor|].
  constructor.
  - intros Hi. apply in_map_iff in Hi as [y [Hy Hyl]]. apply Hx.
    assert (y = x).
    { destruct x as [f i], y as [f' i']. unfold qidx in Hy. cbn in Hy. subst.
      pose proof (H1 (f', i) (f, i) (Hsub _ (or_intror Hyl)) (Hsub _ (or_introl eq_refl))) as E. cbn in E. subst. reflexivity. }
    subst. exact Hyl.
  - apply IH. intros p Hp. apply Hsub. right. exact Hp.
Qed.

(** ------------------------------------------------------------------ count keys *)

Definition binval (l : list bool) : Z := fold_left (fun a (b : bool) => 2 * a + (if b then 1 else 0)) l 0.

Lemma binval_snoc l b : binval (l ++ [b]) = 2 * binval l + (if b then 1 else 0).
Proof. unfold binval. rewrite fold_left_app. reflexivity. Qed.

Lemma fold_zeros k : forall l a,
  fold_left (fun a (b : bool) => 2 * a + (if b then 1 else 0)) (repeat false k ++ l) a =
  fold_left (fun a (b : bool) => 2 * a + (if b then 1 else 0)) l (2 ^ Z.of_nat k * a).
Proof.
  induction k as [|k IH]; intros l a.
  - cbn [repeat app]. f_equal. change (Z.of_nat 0) with 0. rewrite Z.pow_0_r. lia.
  - cbn [repeat app fold_left]. rewrite IH. f_equal. rewrite Nat2Z.inj_succ, Z.pow_succ_r by lia. lia.
Qed.

Lemma binval_zeros k l : binval (repeat false k ++ l) = binval l.
Proof. unfold binval. rewrite fold_zeros. f_equal. lia. Qed.

Lemma binval_pos_bits p : binval (pos_bits p) = Zpos p.
Proof. induction p; cbn [pos_bits]; rewrite ?binval_snoc, ?IHp; try reflexivity; lia. Qed.

Lemma pos_bits_head p : exists l, pos_bits p = true :: l.
Proof. induction p; cbn [pos_bits]; try (destruct IHp as [l ->]; eexists; reflexivity). eexists; reflexivity. Qed.

Lemma hexval_nonneg ds : Forall (fun d => 0 <= d < 16) ds -> 0 <= hexval ds.
Proof.
  unfold hexval. assert (G : forall a, 0 <= a -> Forall (fun d => 0 <= d < 16) ds -> 0 <= fold_left (fun a d => 16 * a + d) ds a).
  { induction ds as [|d ds IH]; intros a Ha H; cbn [fold_left]; [exact Ha|]. inversion H; subst. apply IH; [lia|assumption]. }
  apply G. lia.
Qed.

Lemma binval_bin_digits v : 0 <= v -> binval (bin_digits v) = v.
Proof. destruct v; intros H; cbn [bin_digits]; [reflexivity|apply binval_pos_bits|lia]. Qed.

(** the binary key is the zero-padded binary numeral of the hexadecimal key's value:
    it denotes the same number, consists of the minimal numeral preceded by zeros only, and has
    width max(n, minimal width) *)
Theorem to_binary_correct n ds :
  Forall (fun d => 0 <= d < 16) ds ->
  binval (to_binary n ds) = hexval ds /\
  to_binary n ds = repeat false (n - length (bin_digits (hexval ds))) ++ bin_digits (hexval ds) /\
  length (to_binary n ds) = Nat.max n (length (bin_digits (hexval ds))) /\
  (hexval ds = 0 -> bin_digits (hexval ds) = [false]) /\
  (0 < hexval ds -> exists l, bin_digits (hexval ds) = true :: l).
Proof.
  intros H. pose proof (hexval_nonneg ds H) as Hv. unfold to_binary, zfill.
  split; [rewrite binval_zeros; apply binval_bin_digits; exact Hv|].
  split; [reflexivity|]. split; [rewrite app_length, repeat_length; lia|].
  split.
  - intros ->. reflexivity.
  - intros Hp. destruct (hexval ds); try lia. apply pos_bits_head.
Qed.

(** keys denoting distinct numbers stay distinct *)
Theorem to_binary_injective n ds ds' :
  Forall (fun d => 0 <= d < 16) ds -> Forall (fun d => 0 <= d < 16) ds' ->
  to_binary n ds = to_binary n ds' -> hexval ds = hexval ds'.
Proof.
  intros H H' E. destruct (to_binary_correct n ds H) as [A _]. destruct (to_binary_correct n ds' H') as [A' _].
  congruence.
Qed.

Lemma bits_eqb_eq a : forall b, bits_eqb a b = true <-> a = b.
Proof.
  unfold bits_eqb. induction a as [|x a IH]; intros [|y b]; cbn; split; intros H; try reflexivity; try discriminate.
  - apply andb_true_iff in H as [H1 H2]. apply Bool.eqb_prop in H1. apply IH in H2. congruence.
  - injection H as -> ->. rewrite Bool.eqb_reflx. cbn. apply IH. reflexivity.
Qed.

Lemma dict_set_fresh d k v : (forall kv, In kv d -> fst kv <> k) -> dict_set d k v = d ++ [(k, v)].
Proof.
  induction d as [|[k' v'] d IH]; intros H; cbn; [reflexivity|].
  destruct (bits_eqb k k') eqn:E.
  - apply bits_eqb_eq in E. exfalso. apply (H (k', v')); [left; reflexivity|]. cbn. congruence.
  - f_equal. apply IH. intros kv Hkv. apply H. right. exact Hkv.
Qed.

(** counts are untouched: when the server's keys denote distinct numbers, the binary dictionary is
    the original one with every key converted and every count (and the order) unchanged *)
Theorem counts_binary_exact n kvs :
  Forall (fun kv => Forall (fun d => 0 <= d < 16) (fst kv)) kvs ->
  NoDup (map (fun kv => hexval (fst kv)) kvs) ->
  counts_binary n kvs = map (fun kv => (to_binary n (fst kv), snd kv)) kvs.
Proof.
  intros Hd Hn. unfold counts_binary.
  assert (G : forall acc pre, acc = map (fun kv => (to_binary n (fst kv), snd kv)) pre ->
              Forall (fun kv => Forall (fun d => 0 <= d < 16) (fst kv)) (pre ++ kvs) ->
              NoDup (map (fun kv => hexval (fst kv)) (pre ++ kvs)) ->
              fold_left (fun d kv => dict_set d (to_binary n (fst kv)) (snd kv)) kvs acc =
              map (fun kv => (to_binary n (fst kv), snd kv)) (pre ++ kvs)).
  { clear Hd Hn. induction kvs as [|kv kvs IH]; intros acc pre Ha Hd Hn; cbn [fold_left].
    - rewrite app_nil_r. exact Ha.
    - replace (pre ++ kv :: kvs) with ((pre ++ [kv]) ++ kvs) in * by (rewrite <- app_assoc; reflexivity).
      apply IH; try assumption.
      rewrite map_app. cbn [map]. rewrite dict_set_fresh; [rewrite Ha; reflexivity|].
      intros kv' Hin E. rewrite Ha in Hin. apply in_map_iff in Hin as [kv0 [<- Hin0]]. cbn [fst] in E.
      rewrite Forall_forall in Hd.
      assert (H0 : Forall (fun d => 0 <= d < 16) (fst kv0)) by (apply Hd; apply in_or_app; left; apply in_or_app; left; exact Hin0).
      assert (H1 : Forall (fun d => 0 <= d < 16) (fst kv)) by (apply Hd; apply in_or_app; left; apply in_or_app; right; left; reflexivity).
      pose proof (to_binary_injective n _ _ H0 H1 E) as Ev.
      rewrite !map_app, <- app_assoc in Hn. cbn [map app] in Hn.
      apply NoDup_remove_2 in Hn. apply Hn. apply in_or_app. left.
      rewrite <- Ev. apply in_map_iff. exists kv0. auto. }
  apply (G [] []); auto.
Qed.

(** ------------------------------------------------------------------ the name says what the gate is *)

(** the standard operations that have an OpenQASM name in qib.util.const *)
Inductive kind :=
| K1 (k : g1) | KR (k : r1) | KU | KSwapI
| KCX | KCY | KCZ | KCH | KCS | KCSdg | KCR (k : r1) | KCCX
| KMeas | KBarr | KDel.

(** what a circuit element *is*: controlled operations count as the standard controlled gate only
    when the control state is all ones ([std] = true); user-defined gates ([Raw]) and gates without
    OpenQASM form denote no standard operation *)
Definition kind_of (g : gate) : option kind :=
  match g with
  | Plain k _ => Some (K1 k)
  | Rot k _ _ => Some (KR k)
  | U3 _ _ _ _ => Some KU
  | ISwap _ _ => Some KSwapI
  | Ctrl [_] true (Plain KX _) => Some KCX
  | Ctrl [_] true (Plain KY _) => Some KCY
  | Ctrl [_] true (Plain KZ _) => Some KCZ
  | Ctrl [_] true (Plain KH _) => Some KCH
  | Ctrl [_] true (Plain KS _) => Some KCS
  | Ctrl [_] true (Plain KSdg _) => Some KCSdg
  | Ctrl [_] true (Rot k _ _) => Some (KCR k)
  | Ctrl [_; _] true (Plain KX _) => Some KCCX
  | Measure _ _ => Some KMeas
  | Barrier _ => Some KBarr
  | Delay _ _ => Some KDel
  | _ => None
  end.

Definition name_of_kind (k : kind) : str :=
  match k with
  | K1 k => g1_name k | KR k => r1_name k | KU => n_u3 | KSwapI => n_iswap
  | KCX => n_cx | KCY => n_cy | KCZ => n_cz | KCH => n_ch | KCS => n_cs | KCSdg => n_csdg
  | KCR k => cr1_name k | KCCX => n_ccx
  | KMeas => n_measure | KBarr => n_barrier | KDel => n_delay
  end.

Lemma name_of_kind_inj k k' : name_of_kind k = name_of_kind k' -> k = k'.
Proof.
  destruct k as [a|a| | | | | | | | |a| | | |], k' as [b|b| | | | | | | | |b| | | |];
    try destruct a; try destruct b; try reflexivity; intros H; vm_compute in H; discriminate H.
Qed.

(** every controlled operation of the instruction is controlled on |1...1> *)
Fixpoint all_std (g : gate) : bool :=
  match g with Ctrl _ std t => std && all_std t | _ => true end.
Definition is_raw (g : gate) : bool := match g with Raw _ _ _ => true | _ => false end.

(** a serialised library instruction whose controls are all standard carries the OpenQASM name of
    the operation it is; hence two such instructions with the same name are the same operation *)
Theorem as_qasm_name V g q :
  as_qasm V g = QOk q -> is_raw g = false -> all_std g = true ->
  exists k, kind_of g = Some k /\ q_name q = name_of_kind k.
Proof.
  destruct g; cbn [as_qasm is_raw all_std]; unfold mkq; try discriminate;
    try (intros E _ _; injection E as <-; eexists; split; reflexivity).
  - (* Ctrl *)
    intros E _ S. apply andb_true_iff in S as [-> _]. rewrite andb_false_r in E.
    destruct cs as [|c [|c2 [|c3 cs]]]; try discriminate.
    + destruct g; try discriminate; try (destruct k; try discriminate);
        injection E as <-; eexists; split; reflexivity.
    + destruct g; try discriminate; try (destruct k; try discriminate);
        injection E as <-; eexists; split; reflexivity.
  - (* Measure *)
    destruct qs; [discriminate|]. intros E _ _. injection E as <-. eexists; split; reflexivity.
Qed.

Theorem same_name_same_operation V g g' q q' :
  as_qasm V g = QOk q -> as_qasm V g' = QOk q' ->
  is_raw g = false -> is_raw g' = false -> all_std g = true -> all_std g' = true ->
  q_name q = q_name q' -> kind_of g = kind_of g' /\ kind_of g <> None.
Proof.
  intros E E' R R' S S' N.
  destruct (as_qasm_name V g q E R S) as [k [K Hn]]. destruct (as_qasm_name V g' q' E' R' S') as [k' [K' Hn']].
  rewrite K, K'. split; [|discriminate]. f_equal. apply name_of_kind_inj. congruence.
Qed.

(** if ControlledGate.as_qasm itself refuses non-standard control states, the guard is automatic *)
Lemma checked_all_std V g q :
  vt_ctrl_std_checked V = true -> as_qasm V g = QOk q -> all_std g = true.
Proof.
  intros C. destruct g; cbn [as_qasm all_std]; try reflexivity.
  rewrite C. destruct std; cbn [negb andb]; [|discriminate].
  destruct cs as [|c [|c2 [|c3 cs]]]; try discriminate;
    destruct g; try discriminate; reflexivity.
Qed.
