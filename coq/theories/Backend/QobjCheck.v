(** C18 - case type and checker of the correspondence run (evaluated with vm_compute against the
    syntactic tables and the configuration records regenerated from /repo). *)
From Qib Require Export Backend.QobjModel.
Local Open Scope Z_scope.

Definition oz_eqb := opt_eqb zlist_eqb.

Definition qasm_eqb (a b : qasm) : bool :=
  str_eqb (q_name a) (q_name b) && zlist_eqb (q_qubits a) (q_qubits b) && oz_eqb (q_params a) (q_params b)
  && oz_eqb (q_memory a) (q_memory b) && opt_eqb Z.eqb (q_duration a) (q_duration b).

Definition qerr_eqb (a b : qerr) : bool :=
  match a, b with ENotImpl, ENotImpl | EAttr, EAttr | EType, EType => true | _, _ => false end.

Definition qres_eqb (a b : qres) : bool :=
  match a, b with
  | QOk x, QOk y => qasm_eqb x y
  | QErr x, QErr y => qerr_eqb x y
  | _, _ => false
  end.

Definition verdict_eqb (a b : verdict) : bool :=
  match a, b with
  | Accept, Accept | RShots, RShots | RBasis, RBasis | RNotConfigured, RNotConfigured | RQubits, RQubits
  | RParams, RParams | RCoupling, RCoupling | RRange, RRange | REmpty, REmpty | CUnbound, CUnbound
  | CMinEmpty, CMinEmpty => true
  | CQasm x, CQasm y => qerr_eqb x y
  | _, _ => false
  end.

Definition qobj_eqb (a b : qobj) : bool :=
  zlist_eqb (o_qubit_labels a) (o_qubit_labels b) && zlist_eqb (o_nq a) (o_nq b)
  && zlist_eqb (o_clbit_labels a) (o_clbit_labels b) && zlist_eqb (o_ms a) (o_ms b)
  && list_eqb qasm_eqb (o_instructions a) (o_instructions b)
  && (o_shots a =? o_shots b) && Bool.eqb (o_init_qubits a) (o_init_qubits b)
  && Bool.eqb (o_do_emulation a) (o_do_emulation b) && list_eqb Nat.eqb (o_optional a) (o_optional b).

Inductive proc := PQsim | PQc | PCustom (cfg : config).

Inductive qcase :=
| CSubmit (p : proc) (shots : Z) (gs : list gate) (v : verdict) (nreq : nat)
| CQobj (opts : options) (gs : list gate) (o : option qobj)
| CQasm1 (g : gate) (r : qres)
| CCounts (n : nat) (kvs : list (list Z * Z)) (res : list (list bool * Z)).

Definition check (V : vtables) (cq cc : config) (c : qcase) : bool :=
  match c with
  | CSubmit p shots gs v nreq =>
      let cfg := match p with PQsim => cq | PQc => cc | PCustom c0 => c0 end in
      verdict_eqb (validate V cfg shots gs) v && Nat.eqb (submit_requests V cfg shots gs) nreq
  | CQobj opts gs o => opt_eqb qobj_eqb (build_qobj V opts gs) o
  | CQasm1 g r => qres_eqb (as_qasm V g) r
  | CCounts n kvs res =>
      list_eqb (fun a b => bits_eqb (fst a) (fst b) && (snd a =? snd b)) (counts_binary n kvs) res
  end.

Definition bad_cases_with (V : vtables) (cq cc : config) (cs : list (nat * qcase)) : list nat :=
  map fst (filter (fun c => negb (check V cq cc (snd c))) cs).

(** what gen/backend.py extracts from the source (with the range-check repair; [c]: whether
    ControlledGate.as_qasm refuses non-standard control states, which the harness finds out by running it);
    used for the correspondence run only when the translator refuses the source *)
Definition doc_vt_c (c : bool) : vtables :=
  {| vt_shots_refused := fun s m => m <? s; vt_scope := ScopeAll; vt_empty_guard := true;
     vt_range_refused := fun l mn mx n => (n <? l) || (mn <? 0) || (n <=? mx);
     vt_params_ok := fun a b => a =? b; vt_ctrl_std_checked := c |}.
Definition doc_vt : vtables := doc_vt_c true.
