(** Small shared definitions of the Backend area (C17, C18): strings as lists of character
    codes, decidable equality helpers.  Only the Coq standard library is used. *)
From Coq Require Export List ZArith Bool Lia.
Export ListNotations.
Local Open Scope Z_scope.

(** a Python [str] is the list of its code points *)
Definition str := list Z.

Fixpoint zlist_eqb (a b : list Z) : bool :=
  match a, b with
  | [], [] => true
  | x :: a', y :: b' => (x =? y) && zlist_eqb a' b'
  | _, _ => false
  end.
Definition str_eqb : str -> str -> bool := zlist_eqb.

Lemma zlist_eqb_eq a : forall b, zlist_eqb a b = true <-> a = b.
Proof.
  induction a as [|x a IH]; intros [|y b]; cbn; split; intros H; try reflexivity; try discriminate.
  - apply andb_true_iff in H as [H1 H2]. apply Z.eqb_eq in H1. apply IH in H2. congruence.
  - injection H as -> ->. rewrite Z.eqb_refl. cbn. apply IH. reflexivity.
Qed.
Lemma str_eqb_eq a b : str_eqb a b = true <-> a = b.
Proof. apply zlist_eqb_eq. Qed.
Lemma str_eqb_refl a : str_eqb a a = true.
Proof. apply str_eqb_eq. reflexivity. Qed.
Lemma str_eqb_neq a b : str_eqb a b = false <-> a <> b.
Proof.
  split.
  - intros H E. apply str_eqb_eq in E. congruence.
  - intros H. destruct (str_eqb a b) eqn:E; [apply str_eqb_eq in E; contradiction|reflexivity].
Qed.

Fixpoint list_eqb {A} (eqb : A -> A -> bool) (a b : list A) : bool :=
  match a, b with
  | [], [] => true
  | x :: a', y :: b' => eqb x y && list_eqb eqb a' b'
  | _, _ => false
  end.

Definition opt_eqb {A} (eqb : A -> A -> bool) (a b : option A) : bool :=
  match a, b with
  | Some x, Some y => eqb x y
  | None, None => true
  | _, _ => false
  end.

Definition mem_str (s : str) (l : list str) : bool := existsb (str_eqb s) l.
Definition mem_zlist (s : list Z) (l : list (list Z)) : bool := existsb (zlist_eqb s) l.

Lemma mem_zlist_In s l : mem_zlist s l = true <-> In s l.
Proof.
  unfold mem_zlist. rewrite existsb_exists. split.
  - intros [x [Hx E]]. apply zlist_eqb_eq in E. subst. exact Hx.
  - intros H. exists s. split; [exact H|apply zlist_eqb_eq; reflexivity].
Qed.
Lemma mem_str_In s l : mem_str s l = true <-> In s l.
Proof. apply mem_zlist_In. Qed.
