(** C17 - case type and checker of the correspondence run (evaluated with vm_compute against the
    tables regenerated from /repo). *)
From Qib Require Export Backend.LifeModel.
Local Open Scope Z_scope.

Definition reply_eqb (a b : reply) : bool :=
  str_eqb (r_status a) (r_status b) && (r_job a =? r_job b) && (r_payload a =? r_payload b).

Definition traise_eqb (a b : traise) : bool :=
  match a, b with
  | XHttp, XHttp | XReq, XReq | XConn, XConn | XMax, XMax => true
  | _, _ => false
  end.

Definition tres_eqb (a b : tres) : bool :=
  match a, b with
  | TRet x, TRet y => reply_eqb x y
  | TRaise x, TRaise y => traise_eqb x y
  | TFallOff, TFallOff | TDry, TDry => true
  | _, _ => false
  end.

Definition outcome_eqb (a b : outcome) : bool :=
  match a, b with
  | OInvalid, OInvalid | ORefused, ORefused | OSubmitRaised, OSubmitRaised | OPending, OPending
  | OCrash, OCrash | ODry, ODry | OFuel, OFuel => true
  | OStatus x, OStatus y | OSubmitted x, OSubmitted y => status_eqb x y
  | OResults x, OResults y => opt_eqb Z.eqb x y
  | ONet x, ONet y => traise_eqb x y
  | _, _ => false
  end.

Definition req_eqb (a b : req) : bool :=
  match a, b with
  | RPut, RPut => true
  | RPost x, RPost y => opt_eqb Z.eqb x y
  | _, _ => false
  end.

Definition tentry_eqb (a b : tentry) : bool :=
  outcome_eqb (fst (fst a)) (fst (fst b)) && status_eqb (snd (fst a)) (snd (fst b)) && Nat.eqb (snd a) (snd b).

Inductive lcase :=
| CLife (evs : list ev) (outs : list tout)
        (trace : list tentry) (log : list req) (sleeps : nat) (results : option Z) (job : option Z)
        (left_over : nat)
| CRetry (outs : list tout) (res : tres) (attempts : nat) (left_over : nat).

Definition check (T : tables) (c : lcase) : bool :=
  match c with
  | CLife evs outs trace log sleeps results job left_over =>
      let '(tr, sf, rest) := run T (init_st T) evs outs in
      list_eqb tentry_eqb tr trace && list_eqb req_eqb (s_log sf) log && Nat.eqb (s_sleeps sf) sleeps
      && opt_eqb Z.eqb (s_results sf) results && opt_eqb Z.eqb (s_job sf) job
      && Nat.eqb (length rest) left_over
  | CRetry outs res attempts left_over =>
      let '(r, n, rest) := http_request T outs in
      tres_eqb r res && Nat.eqb n attempts && Nat.eqb (length rest) left_over
  end.

Definition bad_cases_with (T : tables) (cs : list (nat * lcase)) : list nat :=
  map fst (filter (fun c => negb (check T (snd c))) cs).

(** the tables as documented (= what gen/backend.py extracts from the unmodified source); used for
    the correspondence run only when the translator refuses the source, so that the run can still
    turn the deviation into a concrete failing input *)
Definition doc_tables : tables :=
  {| tb_initial := INITIALIZING; tb_status := fun s => if str_eqb s c_offline then ERROR else spec_status s;
     tb_terminal := spec_terminal; tb_guard := spec_guard;
     tb_store := fun s => status_eqb s DONE; tb_store_fj := fun _ => false;
     tb_fast_b := fun h s => h && status_eqb s DONE; tb_tail_b := fun s => status_eqb s DONE;
     tb_fast_a := fun h s => h && status_eqb s DONE; tb_tail_a := fun s => status_eqb s DONE;
     tb_submit_raises := fun s => status_eqb s ERROR;
     tb_init := 0; tb_cond := fun r => r <=? 5; tb_incr := fun r => r + 1; tb_final := fun r => 5 <? r |}.

(** the same for the source in which from_json itself records the results of a 'finished' reply
    (proposed_fixes/C17-results-of-finished-submission.diff) *)
Definition doc_tables_fj : tables :=
  {| tb_initial := INITIALIZING; tb_status := fun s => if str_eqb s c_offline then ERROR else spec_status s;
     tb_terminal := spec_terminal; tb_guard := spec_guard;
     tb_store := fun _ => false; tb_store_fj := fun s => status_eqb s DONE;
     tb_fast_b := fun h s => h && status_eqb s DONE; tb_tail_b := fun s => status_eqb s DONE;
     tb_fast_a := fun h s => h && status_eqb s DONE; tb_tail_a := fun s => status_eqb s DONE;
     tb_submit_raises := fun s => status_eqb s ERROR;
     tb_init := 0; tb_cond := fun r => r <=? 5; tb_incr := fun r => r + 1; tb_final := fun r => 5 <? r |}.
