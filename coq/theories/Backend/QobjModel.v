(** C18 - executable model of experiment validation (WMIExperiment._initialize/_validate), of the
    per-instruction OpenQASM view (as_qasm of gates and control instructions), of the Qobj header
    assembly (WMIExperiment.as_qasm, Circuit.particles/clbits) and of the hexadecimal -> binary key
    conversion (WMIExperimentResults.get_counts).  No proofs here.

    Hand-written port, tied to the code by the correspondence run of checks/C18.py.  What can be read
    off the syntax of the source is a field of [vtables], regenerated on every run by gen/backend.py
    ([Run.GenQobj.gen_vt]); the processor configuration records are obtained by running the two
    configuration() methods ([gen_cfg_qsim], [gen_cfg_qc]). *)
From Qib Require Export Backend.BkBase.
Local Open Scope Z_scope.

(** ------------------------------------------------------------------ circuits *)

(** a qubit = (field identity, lattice index); Particle.__eq__/__hash__ compare exactly this pair *)
Definition qb := (Z * Z)%type.
Definition qidx (q : qb) : Z := snd q.
Definition qb_eqb (a b : qb) : bool := (fst a =? fst b) && (snd a =? snd b).

Inductive g1 := KId | KX | KY | KZ | KH | KSx | KS | KSdg | KT | KTdg.
Inductive r1 := KRx | KRy | KRz.

Inductive gate :=
| Plain (k : g1) (q : qb)                       (* IdentityGate ... TAdjGate *)
| Rot (k : r1) (theta : Z) (q : qb)             (* RxGate, RyGate, RzGate *)
| U3 (a b c : Z) (q : qb)                       (* RotationGate([a, b, c]) *)
| ISwap (q1 q2 : qb)
| NoQasm (qs : list qb)                         (* a Gate subclass that inherits Gate.as_qasm (Rxx, Ryy, Rzz, ...) *)
| Raw (name : str) (qs : list qb) (ps : option (list Z))
                                                (* a user Gate subclass whose as_qasm reports this name, its own qubits, these params *)
| Ctrl (cs : list qb) (std : bool) (t : gate)   (* ControlledGate(t, len cs, ctrl_state); std: ctrl_state all ones *)
| Measure (qs : list qb) (cl : list Z)          (* MeasureInstruction(qs, cl); cl = [] stands for clbits=None *)
| Barrier (qs : list qb)
| Delay (d : Z) (qs : list qb).

(** parameters are opaque tokens (the code only copies them and counts them) *)

Fixpoint particles (g : gate) : list qb :=
  match g with
  | Plain _ q | Rot _ _ q | U3 _ _ _ q => [q]
  | ISwap q1 q2 => [q1; q2]
  | NoQasm qs | Raw _ qs _ | Barrier qs | Delay _ qs | Measure qs _ => qs
  | Ctrl cs _ t => cs ++ particles t
  end.

(** MeasureInstruction._assign_qubits_clbits + memory() *)
Definition measure_clbits (qs : list qb) (cl : list Z) : list Z :=
  match qs with
  | [] => []
  | _ => match cl with [] => map qidx qs | _ => cl end
  end.

Definition memory_of (g : gate) : list Z :=
  match g with Measure qs cl => measure_clbits qs cl | _ => [] end.

(** ------------------------------------------------------------------ OpenQASM names (qib.util.const) *)

Definition n_id : str := [105; 100].
Definition n_x : str := [120].
Definition n_y : str := [121].
Definition n_z : str := [122].
Definition n_h : str := [104].
Definition n_sx : str := [115; 120].
Definition n_s : str := [115].
Definition n_sdg : str := [115; 100; 103].
Definition n_t : str := [116].
Definition n_tdg : str := [116; 100; 103].
Definition n_rx : str := [114; 120].
Definition n_ry : str := [114; 121].
Definition n_rz : str := [114; 122].
Definition n_u3 : str := [117; 51].
Definition n_iswap : str := [105; 115; 119; 97; 112].
Definition n_cx : str := [99; 120].
Definition n_cy : str := [99; 121].
Definition n_cz : str := [99; 122].
Definition n_ch : str := [99; 104].
Definition n_crx : str := [99; 114; 120].
Definition n_cry : str := [99; 114; 121].
Definition n_crz : str := [99; 114; 122].
Definition n_cs : str := [99; 115].
Definition n_csdg : str := [99; 115; 100; 103].
Definition n_ccx : str := [99; 99; 120].
Definition n_measure : str := [109; 101; 97; 115; 117; 114; 101].
Definition n_barrier : str := [98; 97; 114; 114; 105; 101; 114].
Definition n_delay : str := [100; 101; 108; 97; 121].

Definition g1_name (k : g1) : str :=
  match k with
  | KId => n_id | KX => n_x | KY => n_y | KZ => n_z | KH => n_h | KSx => n_sx
  | KS => n_s | KSdg => n_sdg | KT => n_t | KTdg => n_tdg
  end.
Definition r1_name (k : r1) : str := match k with KRx => n_rx | KRy => n_ry | KRz => n_rz end.
Definition cr1_name (k : r1) : str := match k with KRx => n_crx | KRy => n_cry | KRz => n_crz end.

(** ------------------------------------------------------------------ what the source says *)

Inductive scope :=
| ScopeLast    (* the final range check reads the loop variable: the last instruction only *)
| ScopeAll.    (* the final range check reads self.circuit.particles(): every instruction *)

Record vtables := {
  vt_shots_refused : Z -> Z -> bool;              (* _validate: shots, max_shots *)
  vt_scope : scope;
  vt_empty_guard : bool;                          (* an explicit refusal of circuits without instructions *)
  vt_range_refused : Z -> Z -> Z -> Z -> bool;    (* len(qubits), min index, max index, n_qubits *)
  vt_params_ok : Z -> Z -> bool;                  (* GateProperties.check_params: len(params), len(parameters) *)
  vt_ctrl_std_checked : bool                      (* ControlledGate.as_qasm refuses non-standard ctrl_state *)
}.

(** ------------------------------------------------------------------ as_qasm of one instruction *)

Record qasm := {
  q_name : str;
  q_qubits : list Z;
  q_params : option (list Z);     (* None: the dict has no 'params' key *)
  q_memory : option (list Z);     (* 'memory' (measure only) *)
  q_duration : option Z           (* 'duration' (delay only) *)
}.

Inductive qerr := ENotImpl | EAttr | EType.

Inductive qres := QOk (q : qasm) | QErr (e : qerr).

Definition mkq (n : str) (qs : list Z) (ps : option (list Z)) : qres :=
  QOk {| q_name := n; q_qubits := qs; q_params := ps; q_memory := None; q_duration := None |}.

Definition as_qasm (V : vtables) (g : gate) : qres :=
  match g with
  | Plain k q => mkq (g1_name k) [qidx q] None
  | Rot k th q => mkq (r1_name k) [qidx q] (Some [th])
  | U3 a b c q => mkq n_u3 [qidx q] (Some [a; b; c])
  | ISwap q1 q2 => mkq n_iswap [qidx q1; qidx q2] None
  | NoQasm _ => QErr ENotImpl
  | Raw n qs ps => mkq n (map qidx qs) ps
  | Ctrl cs std t =>
      if vt_ctrl_std_checked V && negb std then QErr ENotImpl else
      match cs with
      | [c] =>
          match t with
          | Plain KX q => mkq n_cx [qidx c; qidx q] None
          | Plain KY q => mkq n_cy [qidx c; qidx q] None
          | Plain KZ q => mkq n_cz [qidx c; qidx q] None
          | Plain KH q => mkq n_ch [qidx c; qidx q] None
          | Rot k th q => mkq (cr1_name k) [qidx c; qidx q] (Some [th])
          | U3 _ _ _ _ => QErr EAttr          (* reads self.tgate.theta/phi/lam, which RotationGate lacks *)
          | Plain KS q => mkq n_cs [qidx c; qidx q] None
          | Plain KSdg q => mkq n_csdg [qidx c; qidx q] None
          | _ => QErr ENotImpl
          end
      | [c1; c2] =>
          match t with
          | Plain KX q => mkq n_ccx [qidx c1; qidx c2; qidx q] None
          | _ => QErr ENotImpl
          end
      | _ => QErr ENotImpl
      end
  | Measure qs cl =>
      match qs with
      | [] => QErr EType                      (* self.qubits is None *)
      | _ => QOk {| q_name := n_measure; q_qubits := map qidx qs; q_params := None;
                    q_memory := Some (measure_clbits qs cl); q_duration := None |}
      end
  | Barrier qs => mkq n_barrier (map qidx qs) None
  | Delay d qs => QOk {| q_name := n_delay; q_qubits := map qidx qs; q_params := None;
                         q_memory := None; q_duration := Some d |}
  end.

(** Circuit.as_qasm: the first failing instruction aborts *)
Fixpoint qasm_all (V : vtables) (gs : list gate) : list qasm + qerr :=
  match gs with
  | [] => inl []
  | g :: rest =>
      match as_qasm V g with
      | QErr e => inr e
      | QOk q => match qasm_all V rest with inl l => inl (q :: l) | inr e => inr e end
      end
  end.

(** ------------------------------------------------------------------ processor configuration *)

Record gprop := { gp_name : str; gp_qubits : list (list Z); gp_nparams : Z }.

Record config := {
  c_basis : list str;
  c_coupling : list (list Z);
  c_gates : list gprop;
  c_max_shots : Z;
  c_nqubits : Z
}.

Definition get_gate_by_name (cfg : config) (n : str) : option gprop :=
  find (fun gp => str_eqb (gp_name gp) n) (c_gates cfg).

(** itertools.combinations(l, 2), as lists *)
Fixpoint pairs (l : list Z) : list (list Z) :=
  match l with
  | [] => []
  | x :: rest => map (fun y => [x; y]) rest ++ pairs rest
  end.

Definition is_nil {A} (l : list A) : bool := match l with [] => true | _ => false end.
Definition qparams (q : qasm) : list Z := match q_params q with Some l => l | None => [] end.

(** ------------------------------------------------------------------ validation *)

Inductive verdict :=
| Accept
| RShots | RBasis | RNotConfigured | RQubits | RParams | RCoupling | RRange | REmpty   (* ValueError, by message *)
| CUnbound                      (* UnboundLocalError: `gate` read after an empty loop *)
| CMinEmpty                     (* min() of an empty index list *)
| CQasm (e : qerr).             (* as_qasm of some instruction raised (in _initialize) *)

(** the literal the loop compares the name with *)
Definition lit_measure : str := [109; 101; 97; 115; 117; 114; 101].

(** body of the validation loop for one instruction: None = no complaint *)
Definition check_instr (V : vtables) (cfg : config) (q : qasm) : option verdict :=
  if str_eqb (q_name q) lit_measure then None
  else if negb (mem_str (q_name q) (c_basis cfg)) then Some RBasis
  else match get_gate_by_name cfg (q_name q) with
       | None => Some RNotConfigured
       | Some gp =>
           if negb (mem_zlist (q_qubits q) (gp_qubits gp)) then Some RQubits
           else if negb (vt_params_ok V (Z.of_nat (length (qparams q))) (gp_nparams gp)) then Some RParams
           else if (1 <? Z.of_nat (length (q_qubits q))) && negb (is_nil (c_coupling cfg))
                   && negb (forallb (fun p => mem_zlist p (c_coupling cfg)) (pairs (q_qubits q)))
                then Some RCoupling
                else None
       end.

Fixpoint check_loop (V : vtables) (cfg : config) (qs : list qasm) : option verdict :=
  match qs with
  | [] => None
  | q :: rest => match check_instr V cfg q with Some v => Some v | None => check_loop V cfg rest end
  end.

Fixpoint zmin (x : Z) (l : list Z) : Z := match l with [] => x | y :: r => zmin (Z.min x y) r end.
Fixpoint zmax (x : Z) (l : list Z) : Z := match l with [] => x | y :: r => zmax (Z.max x y) r end.

Definition range_check (V : vtables) (cfg : config) (ps : list qb) : verdict :=
  match map qidx ps with
  | [] => CMinEmpty
  | i :: rest =>
      if vt_range_refused V (Z.of_nat (length ps)) (zmin i rest) (zmax i rest) (c_nqubits cfg)
      then RRange else Accept
  end.

(** set(): first occurrences, in order *)
Fixpoint dedupe (seen : list qb) (l : list qb) : list qb :=
  match l with
  | [] => []
  | q :: rest => if existsb (qb_eqb q) seen then dedupe seen rest else q :: dedupe (q :: seen) rest
  end.

Definition all_particles (gs : list gate) : list qb := flat_map particles gs.
Definition circuit_particle_set (gs : list gate) : list qb := dedupe [] (all_particles gs).

Fixpoint last_opt {A} (l : list A) : option A :=
  match l with [] => None | [x] => Some x | _ :: r => last_opt r end.

Definition validate (V : vtables) (cfg : config) (shots : Z) (gs : list gate) : verdict :=
  match qasm_all V gs with
  | inr e => CQasm e
  | inl qs =>
      if vt_shots_refused V shots (c_max_shots cfg) then RShots
      else match check_loop V cfg qs with
           | Some v => v
           | None =>
               match vt_scope V with
               | ScopeLast =>
                   match last_opt gs with
                   | None => CUnbound
                   | Some g => range_check V cfg (particles g)
                   end
               | ScopeAll =>
                   if vt_empty_guard V && is_nil gs then REmpty
                   else range_check V cfg (circuit_particle_set gs)
               end
           end
  end.

(** processor.submit_experiment: the experiment object is built (and validated) before
    _send_request; number of submission requests issued *)
Definition submit_requests (V : vtables) (cfg : config) (shots : Z) (gs : list gate) : nat :=
  match validate V cfg shots gs with Accept => 1%nat | _ => 0%nat end.

(** ------------------------------------------------------------------ Qobj assembly *)

Fixpoint insert_sorted (x : Z) (l : list Z) : list Z :=
  match l with
  | [] => [x]
  | y :: r => if x <=? y then x :: l else y :: insert_sorted x r
  end.
Definition sort_z (l : list Z) : list Z := fold_right insert_sorted [] l.

Fixpoint dedupe_z (seen : list Z) (l : list Z) : list Z :=
  match l with
  | [] => []
  | x :: rest => if existsb (Z.eqb x) seen then dedupe_z seen rest else x :: dedupe_z (x :: seen) rest
  end.

(** Circuit.particles(): sorted(set(...), key=index) -- only the indices are used downstream *)
Definition circuit_qubit_indices (gs : list gate) : list Z := sort_z (map qidx (circuit_particle_set gs)).
(** Circuit.clbits(): sorted(set(memory of the measure instructions)) *)
Definition circuit_clbits (gs : list gate) : list Z := sort_z (dedupe_z [] (flat_map memory_of gs)).

Record options := {
  op_shots : Z; op_init_qubits : bool; op_do_emulation : bool;
  op_optional : list (nat * bool)   (* the optional settings in the order optional() tests them: (key id, truthy) *)
}.

Record qobj := {
  o_qubit_labels : list Z;
  o_nq : list Z;             (* header.n_qubits, header.qreg_sizes.q, experiment config.n_qubits, config.n_qubits *)
  o_clbit_labels : list Z;
  o_ms : list Z;             (* header.memory_slots, header.creg_sizes.c, experiment config.memory_slots, config.memory_slots *)
  o_instructions : list qasm;
  o_shots : Z; o_init_qubits : bool; o_do_emulation : bool;
  o_optional : list nat
}.

Definition build_qobj (V : vtables) (opts : options) (gs : list gate) : option qobj :=
  match qasm_all V gs with
  | inr _ => None
  | inl ins =>
      let ql := circuit_qubit_indices gs in
      let cl := circuit_clbits gs in
      let nq := Z.of_nat (length ql) in
      let ms := Z.of_nat (length cl) in
      Some {| o_qubit_labels := ql; o_nq := [nq; nq; nq; nq];
              o_clbit_labels := cl; o_ms := [ms; ms; ms; ms];
              o_instructions := ins;
              o_shots := op_shots opts; o_init_qubits := op_init_qubits opts;
              o_do_emulation := op_do_emulation opts;
              o_optional := map fst (filter snd (op_optional opts)) |}
  end.

(** ------------------------------------------------------------------ count keys *)

(** a server key is '0x' followed by hexadecimal digits; digits are their values 0..15 *)
Definition hexval (ds : list Z) : Z := fold_left (fun a d => 16 * a + d) ds 0.

Fixpoint pos_bits (p : positive) : list bool :=
  match p with
  | xH => [true]
  | xO q => pos_bits q ++ [false]
  | xI q => pos_bits q ++ [true]
  end.
(** bin(v)[2:] for v >= 0 *)
Definition bin_digits (v : Z) : list bool := match v with Zpos p => pos_bits p | _ => [false] end.
(** str.zfill *)
Definition zfill (n : nat) (l : list bool) : list bool := repeat false (n - length l) ++ l.

Definition to_binary (n : nat) (ds : list Z) : list bool := zfill n (bin_digits (hexval ds)).

Definition bits_eqb (a b : list bool) : bool := list_eqb Bool.eqb a b.

(** dict insertion: a repeated key overwrites the value and keeps its first position *)
Fixpoint dict_set (d : list (list bool * Z)) (k : list bool) (v : Z) : list (list bool * Z) :=
  match d with
  | [] => [(k, v)]
  | (k', v') :: r => if bits_eqb k k' then (k', v) :: r else (k', v') :: dict_set r k v
  end.

(** get_counts(binary=True) with n = len(circuit.particles()) *)
Definition counts_binary (n : nat) (kvs : list (list Z * Z)) : list (list bool * Z) :=
  fold_left (fun d kv => dict_set d (to_binary n (fst kv)) (snd kv)) kvs [].
